import JSight.JsonScan
import JSight.Rfc

/-! Simulation: the scanner model accepts exactly what the RFC recogniser accepts. -/
open JsonScan

namespace Sim
open Rfc (Ctx RSt RCfg Num)

/-- Markers on the model's stack for containers that enclose the current value. -/
def inside : List Ctx → List LexT
  | [] => []
  | .arr :: k => .itemB :: .arrB :: inside k
  | .obj :: k => .valB :: .objB :: inside k

@[simp] theorem inside_nil : inside [] = [] := rfl
@[simp] theorem inside_arr (k) : inside (.arr :: k) = .itemB :: .arrB :: inside k := rfl
@[simp] theorem inside_obj (k) : inside (.obj :: k) = .valB :: .objB :: inside k := rfl

def mk (st : St) (stack : List LexT) (unf : Bool) : Cfg := { st := st, stack := stack, unf := unf, seen := true }

/-- literal-state correspondence (model state inside a scalar value ↦ spec state, unfinished flag) -/
inductive LitSt : St → Bool → RSt → Prop
  | str : LitSt .inString true (.str false)
  | esc : LitSt .esc true (.esc false)
  | u0 : LitSt .u0 true (.hex false 4)
  | u1 : LitSt .u1 true (.hex false 3)
  | u2 : LitSt .u2 true (.hex false 2)
  | u3 : LitSt .u3 true (.hex false 1)
  | neg : LitSt .neg true (.num .minus)
  | d0 : LitSt .d0 false (.num .zero)
  | d1 : LitSt .d1 false (.num .int)
  | dot : LitSt .dot true (.num .dot)
  | dot0 : LitSt .dot0 false (.num .frac)
  | e : LitSt .e true (.num .e)
  | eSign : LitSt .eSign true (.num .esign)
  | e0 : LitSt .e0 false (.num .exp)
  | t : LitSt .t true (.word [.lr, .lu, .le])
  | tr : LitSt .tr true (.word [.lu, .le])
  | tru : LitSt .tru true (.word [.le])
  | f : LitSt .f true (.word [.la, .ll, .ls, .le])
  | fa : LitSt .fa true (.word [.ll, .ls, .le])
  | fal : LitSt .fal true (.word [.ls, .le])
  | fals : LitSt .fals true (.word [.le])
  | n : LitSt .n true (.word [.lu, .ll, .ll])
  | nu : LitSt .nu true (.word [.ll, .ll])
  | nul : LitSt .nul true (.word [.ll])

/-- key-string correspondence -/
inductive KeySt : St → RSt → Prop
  | str : KeySt .inString (.str true)
  | esc : KeySt .esc (.esc true)
  | u0 : KeySt .u0 (.hex true 4)
  | u1 : KeySt .u1 (.hex true 3)
  | u2 : KeySt .u2 (.hex true 2)
  | u3 : KeySt .u3 (.hex true 1)

inductive R : RCfg → Cfg → Prop
  | root : R ⟨.value, []⟩ Cfg.init
  | valArr (k) : R ⟨.value, .arr :: k⟩ (mk .arrItem (.arrB :: inside k) false)
  | valObj (k) : R ⟨.value, .obj :: k⟩ (mk .objValue (.objB :: inside k) false)
  | arrFirst (k) : R ⟨.arrFirst, .arr :: k⟩ (mk .arrItemOrEmpty (.arrB :: inside k) false)
  | objFirst (k) : R ⟨.objFirst, .obj :: k⟩ (mk .objKeyOrEmpty (.objB :: inside k) false)
  | key (k) : R ⟨.key, .obj :: k⟩ (mk .objKey (.objB :: inside k) false)
  | lit (k) {st unf rst} (h : LitSt st unf rst) : R ⟨rst, k⟩ (mk st (.litB :: inside k) unf)
  | keyStr (k) {st rst} (h : KeySt st rst) : R ⟨rst, .obj :: k⟩ (mk st (.keyB :: .objB :: inside k) false)
  | colonE (k) : R ⟨.colon, .obj :: k⟩ (mk .endValue (.keyB :: .objB :: inside k) false)
  | colonA (k) : R ⟨.colon, .obj :: k⟩ (mk .afterKey (.objB :: inside k) false)
  | afterLit (k) : R ⟨.after, k⟩ (mk .endValue (.litB :: inside k) false)
  | afterCont (k) : R ⟨.after, k⟩ (mk .endValue (inside k) false)
  | afterItem (k) : R ⟨.after, .arr :: k⟩ (mk .afterItem (.arrB :: inside k) false)
  | afterVal (k) : R ⟨.after, .obj :: k⟩ (mk .afterValue (.objB :: inside k) false)
  | afterTop : R ⟨.after, []⟩ (mk .endTop [] false)

end Sim

namespace Sim
open Rfc (Ctx RSt RCfg Num)

/-- close a goal `R m r` with concrete `m`, `r`. -/
macro "close_R" : tactic => `(tactic| first
  | exact R.root
  | exact R.valArr _ | exact R.valObj _ | exact R.arrFirst _ | exact R.objFirst _ | exact R.key _
  | exact R.colonE _ | exact R.colonA _ | exact R.afterLit _
  | exact R.afterItem _ | exact R.afterVal _ | exact R.afterTop
  | exact R.afterCont _ | exact R.afterCont [] | exact R.afterCont (.arr :: _) | exact R.afterCont (.obj :: _)
  | (apply R.lit; constructor)
  | (apply R.keyStr; constructor))

macro "step_case" : tactic => `(tactic| first
  | (left; refine ⟨_, _, rfl, rfl, ?_⟩; close_R)
  | (right; exact ⟨_, rfl, rfl⟩))

/-- the simulation statement for one related pair -/
def StepOK (r : RCfg) (m : Cfg) (c : Cls) : Prop :=
    (∃ m' r', feed false m c = .ok (.cont m') ∧ Rfc.step r c = some r' ∧ R r' m') ∨
    (∃ ctx, feed false m c = .error (.invalidChar ctx) ∧ Rfc.step r c = none)

macro "lit_case" k:ident : tactic => `(tactic| first
  | step_case
  | (cases $k:ident with
     | nil => step_case
     | cons x k' => cases x <;> step_case))

theorem s_root (c) : StepOK ⟨.value, []⟩ Cfg.init c := by unfold StepOK; cases c <;> step_case
theorem s_valArr (k c) : StepOK ⟨.value, .arr :: k⟩ (mk .arrItem (.arrB :: inside k) false) c := by unfold StepOK; cases c <;> step_case
theorem s_valObj (k c) : StepOK ⟨.value, .obj :: k⟩ (mk .objValue (.objB :: inside k) false) c := by unfold StepOK; cases c <;> step_case
theorem s_arrFirst (k c) : StepOK ⟨.arrFirst, .arr :: k⟩ (mk .arrItemOrEmpty (.arrB :: inside k) false) c := by unfold StepOK; cases c <;> step_case
theorem s_objFirst (k c) : StepOK ⟨.objFirst, .obj :: k⟩ (mk .objKeyOrEmpty (.objB :: inside k) false) c := by unfold StepOK; cases c <;> step_case
theorem s_key (k c) : StepOK ⟨.key, .obj :: k⟩ (mk .objKey (.objB :: inside k) false) c := by unfold StepOK; cases c <;> step_case
theorem s_keyStr (k c) {st rst} (h : KeySt st rst) : StepOK ⟨rst, .obj :: k⟩ (mk st (.keyB :: .objB :: inside k) false) c := by
  unfold StepOK; cases h <;> cases c <;> step_case
theorem s_colonE (k c) : StepOK ⟨.colon, .obj :: k⟩ (mk .endValue (.keyB :: .objB :: inside k) false) c := by unfold StepOK; cases c <;> step_case
theorem s_colonA (k c) : StepOK ⟨.colon, .obj :: k⟩ (mk .afterKey (.objB :: inside k) false) c := by unfold StepOK; cases c <;> step_case
theorem s_afterLit (k c) : StepOK ⟨.after, k⟩ (mk .endValue (.litB :: inside k) false) c := by
  unfold StepOK; cases c <;> lit_case k
theorem s_afterCont (k c) : StepOK ⟨.after, k⟩ (mk .endValue (inside k) false) c := by
  unfold StepOK
  cases k with
  | nil => cases c <;> step_case
  | cons x k' => cases x <;> cases c <;> step_case
theorem s_afterItem (k c) : StepOK ⟨.after, .arr :: k⟩ (mk .afterItem (.arrB :: inside k) false) c := by unfold StepOK; cases c <;> step_case
theorem s_afterVal (k c) : StepOK ⟨.after, .obj :: k⟩ (mk .afterValue (.objB :: inside k) false) c := by unfold StepOK; cases c <;> step_case
theorem s_afterTop (c) : StepOK ⟨.after, []⟩ (mk .endTop [] false) c := by unfold StepOK; cases c <;> step_case

-- literal states, split by group to stay within the default heartbeat budget
theorem s_lit_str (k c) {st unf rst} (h : LitSt st unf rst)
    (hs : st = .inString ∨ st = .esc ∨ st = .u0 ∨ st = .u1 ∨ st = .u2 ∨ st = .u3) :
    StepOK ⟨rst, k⟩ (mk st (.litB :: inside k) unf) c := by
  unfold StepOK; cases h <;> simp at hs <;> cases c <;> step_case
theorem s_lit_num (k c) {st unf rst} (h : LitSt st unf rst)
    (hs : st = .neg ∨ st = .d0 ∨ st = .d1 ∨ st = .dot ∨ st = .dot0 ∨ st = .e ∨ st = .eSign ∨ st = .e0) :
    StepOK ⟨rst, k⟩ (mk st (.litB :: inside k) unf) c := by
  unfold StepOK; cases h <;> simp at hs <;> cases c <;> lit_case k
theorem s_lit_word (k c) {st unf rst} (h : LitSt st unf rst)
    (hs : st = .t ∨ st = .tr ∨ st = .tru ∨ st = .f ∨ st = .fa ∨ st = .fal ∨ st = .fals ∨ st = .n ∨ st = .nu ∨ st = .nul) :
    StepOK ⟨rst, k⟩ (mk st (.litB :: inside k) unf) c := by
  unfold StepOK; cases h <;> simp at hs <;> cases c <;> step_case

theorem s_lit (k c) {st unf rst} (h : LitSt st unf rst) : StepOK ⟨rst, k⟩ (mk st (.litB :: inside k) unf) c := by
  cases h
  case str | esc | u0 | u1 | u2 | u3 => exact s_lit_str k c (by constructor) (by simp)
  case neg | d0 | d1 | dot | dot0 | e | eSign | e0 => exact s_lit_num k c (by constructor) (by simp)
  all_goals exact s_lit_word k c (by constructor) (by simp)

theorem sim_step {m : Cfg} {r : RCfg} (h : R r m) (c : Cls) : StepOK r m c := by
  cases h with
  | root => exact s_root c
  | valArr k => exact s_valArr k c
  | valObj k => exact s_valObj k c
  | arrFirst k => exact s_arrFirst k c
  | objFirst k => exact s_objFirst k c
  | key k => exact s_key k c
  | lit k h => exact s_lit k c h
  | keyStr k h => exact s_keyStr k c h
  | colonE k => exact s_colonE k c
  | colonA k => exact s_colonA k c
  | afterLit k => exact s_afterLit k c
  | afterCont k => exact s_afterCont k c
  | afterItem k => exact s_afterItem k c
  | afterVal k => exact s_afterVal k c
  | afterTop => exact s_afterTop c

end Sim

namespace Sim
open Rfc (Ctx RSt RCfg Num)

theorem sim_eof {m : Cfg} {r : RCfg} (h : R r m) : (atEof m).isOk = Rfc.accepting r := by
  cases h with
  | root => rfl
  | lit k h => cases h <;> (cases k with | nil => rfl | cons x k' => cases x <;> rfl)
  | keyStr k h => cases h <;> rfl
  | afterLit k => cases k with | nil => rfl | cons x k' => cases x <;> rfl
  | afterCont k => cases k with | nil => rfl | cons x k' => cases x <;> rfl
  | _ => rfl

def specResult (r : RCfg) (cs : List Cls) : Bool :=
  match Rfc.run r cs with
  | some r' => Rfc.accepting r'
  | none => false

theorem run_eq {m : Cfg} {r : RCfg} (h : R r m) (cs : List Cls) :
    (run false m cs).isOk = specResult r cs := by
  induction cs generalizing m r with
  | nil => simpa [run, specResult, Rfc.run] using sim_eof h
  | cons c cs ih =>
    rcases sim_step h c with ⟨m', r', hf, hs, hR⟩ | ⟨ctx, hf, hs⟩
    · simp [run, hf, specResult, Rfc.run, hs, bind, Except.bind]
      simpa [specResult] using ih hR
    · simp [run, hf, specResult, Rfc.run, hs, bind, Except.bind, Except.isOk, Except.toBool]

/-- C05 (model level, class alphabet): the scanner model accepts exactly the RFC 8259 texts. -/
theorem check_iff_rfc (cs : List Cls) : checkC false cs = Rfc.acceptsC cs := by
  have := run_eq R.root cs
  unfold checkC Rfc.acceptsC
  rw [this]; rfl

theorem C05_check_iff_rfc (bs : List UInt8) : check false bs = Rfc.accepts bs :=
  check_iff_rfc _

end Sim

#print axioms Sim.C05_check_iff_rfc
