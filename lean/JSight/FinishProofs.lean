import JSight.NumberProofs
namespace Num

theorem natVal_zeros (k : Nat) : natVal (zeros k) = 0 := by
  induction k with
  | zero => rfl
  | succ k ih =>
    have : zeros (k+1) = 0 :: zeros k := by simp [zeros, List.replicate_succ]
    rw [this, natVal_cons, ih]; simp

theorem digits_zeros (k : Nat) : Digits (zeros k) := by
  intro d hd; simp [zeros] at hd; omega

theorem digits_append {xs ys : List Nat} (hx : Digits xs) (hy : Digits ys) : Digits (xs ++ ys) := by
  intro d hd
  rcases List.mem_append.1 hd with h | h
  · exact hx d h
  · exact hy d h

/-- `trimLeadingZerosInTheIntegerPart` drops `j ≤ k` zeros; if it stops early the next digit is not zero -/
theorem trimLeading_spec (nat : List Nat) (k : Nat) (hk : k ≤ nat.length) :
    ∃ j, j ≤ k ∧ trimLeading nat k = nat.drop j ∧ natVal (nat.drop j) = natVal nat ∧
      (j < k → ∀ d, (nat.drop j).head? = some d → d ≠ 0) := by
  induction k generalizing nat with
  | zero => exact ⟨0, Nat.le_refl _, by simp [trimLeading], by simp, by omega⟩
  | succ k ih =>
    cases nat with
    | nil => simp at hk
    | cons d ds =>
      simp only [List.length_cons] at hk
      by_cases hd : d = 0
      · subst hd
        obtain ⟨j, hj, h1, h2, h3⟩ := ih ds (by omega)
        refine ⟨j + 1, by omega, ?_, ?_, ?_⟩
        · simp [trimLeading, h1]
        · simp only [List.drop_succ_cons, h2, natVal_cons]; simp
        · intro hlt; simpa using h3 (by omega)
      · refine ⟨0, by omega, ?_, by simp, ?_⟩
        · simp [trimLeading, hd]
        · intro _ x hx; simp at hx; subst hx; exact hd

theorem natVal_snoc (xs : List Nat) (d : Nat) : natVal (xs ++ [d]) = natVal xs * 10 + d := by
  rw [natVal_append]; simp [natVal_cons, natVal_nil]

/-- `trimTrailingZerosInTheFractionalPart` drops `j ≤ exp` trailing zeros; if a fractional part is left its last digit is not zero -/
theorem trimTrailing_spec (nat : List Nat) (exp : Nat) (h : exp ≤ nat.length) :
    ∃ j, (trimTrailing nat exp).2 + j = exp ∧ (trimTrailing nat exp).1 = nat.take (nat.length - j) ∧
      natVal nat = natVal (trimTrailing nat exp).1 * 10 ^ j ∧
      (0 < (trimTrailing nat exp).2 → ∀ d, (trimTrailing nat exp).1.getLast? = some d → d ≠ 0) := by
  induction exp generalizing nat with
  | zero => exact ⟨0, by simp [trimTrailing], by simp [trimTrailing], by simp [trimTrailing], by simp [trimTrailing]⟩
  | succ n ih =>
    rcases List.eq_nil_or_concat nat with rfl | ⟨xs, d, rfl⟩
    · simp at h
    · simp only [List.concat_eq_append] at h ⊢
      simp only [List.length_append, List.length_cons, List.length_nil] at h
      by_cases hd : d = 0
      · subst hd
        have e : trimTrailing (xs ++ [0]) (n+1) = trimTrailing xs n := by
          simp [trimTrailing]
        obtain ⟨j, h1, h2, h3, h4⟩ := ih xs (by omega)
        refine ⟨j + 1, ?_, ?_, ?_, ?_⟩
        · rw [e]; omega
        · rw [e, h2]
          simp only [List.length_append, List.length_cons, List.length_nil]
          rw [show xs.length + (0 + 1) - (j + 1) = xs.length - j by omega]
          rw [List.take_append_of_le_length (by omega)]
        · rw [e, natVal_snoc, h3, Nat.pow_succ]; simp [Nat.mul_assoc]
        · rw [e]; exact h4
      · have e : trimTrailing (xs ++ [d]) (n+1) = (xs ++ [d], n+1) := by
          cases d with
          | zero => exact absurd rfl hd
          | succ d => simp [trimTrailing]
        refine ⟨0, by rw [e], by rw [e]; exact (List.take_of_length_le (by simp)).symm, by rw [e]; simp, ?_⟩
        rw [e]; intro _ x hx; simp at hx; subst hx; exact hd

/-! ### `finish` = shift by the exponent, then the two trims -/

def shift (digits : List Nat) (il fl : Int) : List Nat × Nat :=
  if il < 0 then (zeros il.natAbs ++ digits, fl.toNat)
  else if fl < 0 then (digits ++ zeros fl.natAbs, 0)
  else (digits, fl.toNat)

def trims (p : List Nat × Nat) : List Nat × Nat :=
  trimTrailing (trimLeading p.1 (p.1.length - p.2)) p.2

def Sc.e (s : Sc) : Int := (if s.expNeg then -1 else 1) * (natVal s.expDigits : Int)

theorem finish_eq (s : Sc) : finish s =
    if !s.finished then none else
    if s.expNeg && s.expDigits.isEmpty then none else
    let r := trims (shift s.digits (s.intLen + s.e) (s.fraLen - s.e))
    some { neg := s.neg && !r.1.isEmpty, nat := r.1, exp := r.2 } := by
  unfold finish shift trims Sc.e
  split
  · rfl
  · split
    · rfl
    · simp only []

theorem shift_spec (digits : List Nat) (il fl : Int) (hd : Digits digits)
    (hlen : il + fl = digits.length) :
    Digits (shift digits il fl).1 ∧ (shift digits il fl).2 ≤ (shift digits il fl).1.length ∧
    natVal (shift digits il fl).1 * 10 ^ fl.toNat
      = natVal digits * 10 ^ (-fl).toNat * 10 ^ (shift digits il fl).2 := by
  unfold shift
  by_cases h1 : il < 0
  · simp only [h1, if_true]
    refine ⟨digits_append (digits_zeros _) hd, ?_, ?_⟩
    · simp only [List.length_append, zeros, List.length_replicate]; omega
    · rw [natVal_append, natVal_zeros]
      have : (-fl).toNat = 0 := by omega
      simp [this]
  · by_cases h2 : fl < 0
    · simp only [h1, h2, if_true, if_false]
      refine ⟨digits_append hd (digits_zeros _), by simp, ?_⟩
      rw [natVal_append, natVal_zeros]
      have a : fl.toNat = 0 := by omega
      have b : (-fl).toNat = fl.natAbs := by omega
      simp [a, b, zeros]
    · simp only [h1, h2, if_false]
      refine ⟨hd, by omega, ?_⟩
      have : (-fl).toNat = 0 := by omega
      simp [this]

theorem trims_spec (nat : List Nat) (fra : Nat) (hd : Digits nat) (hle : fra ≤ nat.length) :
    WFN { neg := false, nat := (trims (nat, fra)).1, exp := (trims (nat, fra)).2 } ∧
    natVal nat * 10 ^ (trims (nat, fra)).2 = natVal (trims (nat, fra)).1 * 10 ^ fra ∧
    ((trims (nat, fra)).1 ≠ [] → natVal (trims (nat, fra)).1 ≠ 0) ∧
    (0 < (trims (nat, fra)).2 → ∀ d, (trims (nat, fra)).1.getLast? = some d → d ≠ 0) := by
  unfold trims
  simp only []
  obtain ⟨j, hj, e1, v1, z1⟩ := trimLeading_spec nat (nat.length - fra) (by omega)
  have l1 : (trimLeading nat (nat.length - fra)).length = nat.length - j := by rw [e1]; simp
  obtain ⟨i, hi, e2, v2, z2⟩ := trimTrailing_spec (trimLeading nat (nat.length - fra)) fra (by omega)
  generalize hT : trimTrailing (trimLeading nat (nat.length - fra)) fra = T at hi e2 v2 z2
  obtain ⟨n2, f2⟩ := T
  simp only [] at hi e2 v2 z2 ⊢
  have dn1 : Digits (trimLeading nat (nat.length - fra)) := by rw [e1]; exact digits_drop _ _ hd
  have dn2 : Digits n2 := by rw [e2]; exact digits_take _ _ dn1
  have l2 : n2.length = nat.length - j - i := by rw [e2, List.length_take, l1]; omega
  -- the integer part of the result is the integer part after the leading trim
  have hint : n2.take (n2.length - f2) = (nat.drop j).take (nat.length - fra - j) := by
    rw [e2, List.take_take, l1, e1, List.length_take, List.length_drop]
    congr 1; omega
  have hnl : NoLeadingZero (n2.take (n2.length - f2)) := by
    rw [hint]
    intro d hd'
    by_cases hlt : j < nat.length - fra
    · apply z1 hlt d
      cases hdr : nat.drop j with
      | nil => rw [hdr] at hd'; simp at hd'
      | cons x xs =>
        rw [hdr] at hd'
        have : nat.length - fra - j = (nat.length - fra - j - 1) + 1 := by omega
        rw [this, List.take_succ_cons] at hd'
        simpa using hd'
    · have : nat.length - fra - j = 0 := by omega
      rw [this] at hd'; simp at hd'
  have hval : natVal nat * 10 ^ f2 = natVal n2 * 10 ^ fra := by
    rw [← v1, ← e1, v2, ← hi, Nat.pow_add]; ring
  refine ⟨⟨dn2, by simp only []; omega, hnl, by simp⟩, hval, ?_, z2⟩
  intro hne
  by_cases hf : 0 < f2
  · -- a fractional part is left: its last digit is not zero
    rcases List.eq_nil_or_concat n2 with h0 | ⟨xs, d, hx⟩
    · exact absurd h0 hne
    · rw [List.concat_eq_append] at hx
      have : d ≠ 0 := z2 hf d (by rw [hx]; simp)
      rw [hx, natVal_snoc]; omega
  · -- no fractional part: the whole result is the integer part, whose first digit is not zero
    have f0 : f2 = 0 := by omega
    subst f0
    have hge := natVal_ge_of_noLeadingZero n2 hne (by simpa using hnl)
    have : 0 < 10 ^ (n2.length - 1) := Nat.pow_pos (by omega)
    omega

/-- what the character loop guarantees about the accumulator (proved below for every run) -/
structure ScOK (s : Sc) : Prop where
  digs : Digits s.digits
  len : s.intLen + s.fraLen = s.digits.length

/-- signed mantissa of the accumulator: the scanned numeral denotes `mant · 10^(e - fraLen)` -/
def Sc.mant (s : Sc) : Int := (if s.neg then -1 else 1) * (natVal s.digits : Int)
/-- number of fractional digits of the denoted value (may be negative) -/
def Sc.t (s : Sc) : Int := s.fraLen - s.e

theorem finish_spec (s : Sc) (ok : ScOK s) (n : N) (h : finish s = some n) :
    WFN n ∧ n.mant * 10 ^ s.t.toNat = s.mant * 10 ^ (-s.t).toNat * 10 ^ n.exp ∧
    (0 < n.exp → ∀ d, n.nat.getLast? = some d → d ≠ 0) := by
  rw [finish_eq] at h
  split at h
  · exact absurd h (by simp)
  split at h
  · exact absurd h (by simp)
  simp only [Option.some.injEq] at h
  have hlen : (s.intLen + s.e) + (s.fraLen - s.e) = s.digits.length := by have := ok.len; omega
  obtain ⟨sd, sl, sv⟩ := shift_spec s.digits (s.intLen + s.e) (s.fraLen - s.e) ok.digs hlen
  generalize hS : shift s.digits (s.intLen + s.e) (s.fraLen - s.e) = S at h sd sl sv
  obtain ⟨nat, fra⟩ := S
  obtain ⟨wf, tv, nz, lz⟩ := trims_spec nat fra sd sl
  generalize hT : trims (nat, fra) = T at h wf tv nz lz
  obtain ⟨n2, f2⟩ := T
  simp only [] at h wf tv nz sv lz
  subst h
  refine ⟨⟨wf.digits, wf.expLe, wf.noLead, ?_⟩, ?_, lz⟩
  · simp only [Bool.and_eq_true, Bool.not_eq_true', List.isEmpty_eq_false_iff]
    intro ⟨_, hne⟩; exact nz hne
  · -- value: cancel the common factor 10^fra
    have key : natVal n2 * 10 ^ (s.fraLen - s.e).toNat
        = natVal s.digits * 10 ^ (-(s.fraLen - s.e)).toNat * 10 ^ f2 := by
      have hpos : 0 < 10 ^ fra := Nat.pow_pos (by omega)
      apply Nat.eq_of_mul_eq_mul_right hpos
      calc natVal n2 * 10 ^ (s.fraLen - s.e).toNat * 10 ^ fra
          = (natVal n2 * 10 ^ fra) * 10 ^ (s.fraLen - s.e).toNat := by ring
        _ = (natVal nat * 10 ^ f2) * 10 ^ (s.fraLen - s.e).toNat := by rw [tv]
        _ = (natVal nat * 10 ^ (s.fraLen - s.e).toNat) * 10 ^ f2 := by ring
        _ = natVal s.digits * 10 ^ (-(s.fraLen - s.e)).toNat * 10 ^ fra * 10 ^ f2 := by rw [sv]
        _ = natVal s.digits * 10 ^ (-(s.fraLen - s.e)).toNat * 10 ^ f2 * 10 ^ fra := by ring
    unfold N.mant Sc.mant Sc.t
    simp only []
    have keyZ : (natVal n2 : Int) * 10 ^ (s.fraLen - s.e).toNat
        = (natVal s.digits : Int) * 10 ^ (-(s.fraLen - s.e)).toNat * 10 ^ f2 := by exact_mod_cast key
    by_cases hem : n2 = []
    · -- the value is zero: both sides vanish whatever the sign
      subst hem
      have z : natVal s.digits * 10 ^ (-(s.fraLen - s.e)).toNat * 10 ^ f2 = 0 := by
        rw [← key]; simp [natVal_nil]
      have zd : natVal s.digits = 0 := by
        have p1 : 0 < 10 ^ (-(s.fraLen - s.e)).toNat := Nat.pow_pos (by omega)
        have p2 : 0 < 10 ^ f2 := Nat.pow_pos (by omega)
        rcases Nat.mul_eq_zero.1 z with h | h
        · rcases Nat.mul_eq_zero.1 h with h | h
          · exact h
          · omega
        · omega
      simp [natVal_nil, zd]
    · have : (s.neg && !n2.isEmpty) = s.neg := by
        have : n2.isEmpty = false := by simpa using hem
        simp [this]
      rw [this]
      cases s.neg
      · simp only [Bool.false_eq_true, if_false, Int.one_mul]; exact keyZ
      · simp only [if_true]
        calc -1 * (natVal n2 : Int) * 10 ^ (s.fraLen - s.e).toNat
            = -1 * ((natVal n2 : Int) * 10 ^ (s.fraLen - s.e).toNat) := by ring
          _ = -1 * ((natVal s.digits : Int) * 10 ^ (-(s.fraLen - s.e)).toNat * 10 ^ f2) := by rw [keyZ]
          _ = -1 * (natVal s.digits : Int) * 10 ^ (-(s.fraLen - s.e)).toNat * 10 ^ f2 := by ring

end Num
