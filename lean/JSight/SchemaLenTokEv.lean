import JSight.SchemaLenAnnScalar
import JSight.SchemaLenEvents
/-!
C14, "the prefix of that length is accepted with the same meaning": the events of a schema given as a token list —
scanned alone (`scanAll`, ordinary mode) and at the start of a longer text (`lengthEvents`, length mode) — are the
events `trun` computes, plus the end of a top-level scalar.
-/
namespace SchemaScan
namespace Len

variable {data : Array Cls}

/-- `lenEventsLoop` from `s` delivers `evs` (then `end-top` or the end of input), calling `Next()` `k` times -/
inductive EvRun (data : Array Cls) : Sc → List Ev → Nat → Prop
  | eof {s : Sc} : NextOk data s none → EvRun data s [] 1
  | top {s s' : Sc} {e : Ev} : NextOk data s (some (s', e)) → e.ty = .endTop → EvRun data s [] 1
  | ev {s s' : Sc} {e : Ev} {evs : List Ev} {k : Nat} : NextOk data s (some (s', e)) → e.ty ≠ .endTop →
      EvRun data s' evs k → EvRun data s (e :: evs) (k + 1)

theorem evLoop_of_evRun {s : Sc} {evs : List Ev} {k : Nat} (h : EvRun data s evs k) :
    ∀ fuel acc, k ≤ fuel → lenEventsLoop data fuel s acc = .ok (acc.reverse ++ evs) := by
  induction h with
  | eof hn =>
    intro fuel acc hf
    obtain ⟨f, rfl⟩ : ∃ f, fuel = f + 1 := ⟨fuel - 1, by omega⟩
    rw [lenEventsLoop]
    simp only [bind, Except.bind, hn.next, List.append_nil]
    rfl
  | top hn ht =>
    intro fuel acc hf
    obtain ⟨f, rfl⟩ : ∃ f, fuel = f + 1 := ⟨fuel - 1, by omega⟩
    rw [lenEventsLoop]
    simp only [bind, Except.bind, hn.next, ht, List.append_nil]
    rfl
  | @ev s s' e evs k hn ht _ ih =>
    intro fuel acc hf
    obtain ⟨f, rfl⟩ : ∃ f, fuel = f + 1 := ⟨fuel - 1, by omega⟩
    rw [lenEventsLoop]
    simp only [bind, Except.bind, hn.next]
    have : (e.ty == LexT.endTop) = false := by simpa using ht
    simp only [this]
    rw [ih f (e :: acc) (by omega)]
    simp

theorem EvRun.lift {s s1 : Sc} (hl : ∀ r, NextOk data s1 r → NextOk data s r) {evs : List Ev} {k : Nat}
    (h : EvRun data s1 evs k) : EvRun data s evs k := by
  cases h with
  | eof hn => exact EvRun.eof (hl _ hn)
  | top hn ht => exact EvRun.top (hl _ hn) ht
  | ev hn ht h' => exact EvRun.ev (hl _ hn) ht h'

theorem Path.evRun {s s' : Sc} {a : List Ev} (hp : Path data s a s') :
    noTop a = true → ∀ (b : List Ev) (k : Nat), EvRun data s' b k → EvRun data s (a ++ b) (k + a.length) := by
  induction hp with
  | refl _ => intro _ b k h; exact h
  | read hl _ _ ih => intro hnt b k h; exact (ih hnt b k h).lift hl
  | @ev s s1 s' e evs hn _ ih =>
    intro hnt b k h
    simp only [noTop, List.all_cons, Bool.and_eq_true, bne_iff_ne, ne_eq] at hnt
    exact EvRun.ev hn hnt.1 (ih (by simpa [noTop] using hnt.2) b k h)

/-! ### the end of the run, with its events -/

theorem ev_foreign_at_top (g : Bool) {x : Cls} (hx : x.isForeign = true) (j : Nat) (CS : List Ctx) (cx : Ctx) (al : Bool)
    (hc : data[j]? = some x) : EvRun data (cfgL true (gst g .endTop) [] [] false j CS cx al) [] 1 := by
  have hn : NextOk data { cfgL true (gst g .endTop) [] [] false (j + 1) CS cx al with finds := [.endTop] }
      (some (cfgL true (gst g .endTop) [] [] false (j + 1) CS cx al, ⟨.endTop, j, j⟩)) := nextOk_shift rfl rfl
  exact (EvRun.top hn rfl).lift (nextOk_read (s := cfgL true (gst g .endTop) [] [] false j CS cx al) rfl hc
    (gdispatch g .endTop _ _ x (foreign_ne_slash hx) _ _
      (fun f => d_endTop_foreign f x hx _ (j + 1) CS cx al [] _ _)) rfl)

theorem ev_glued_container {st : St} (hst : PV st = true) {x : Cls} (hx : x.isForeign = true)
    (hadj : adjOk st x = true) (i : Nat) (CS : List Ctx) (cx : Ctx) (al : Bool) (hc : data[i]? = some x) :
    EvRun data (cfgL true st [] [] false i CS cx al) [] 1 := by
  have hn : NextOk data { cfgL true .endTop [] [] false (i + 1) CS cx al with finds := [.endTop] }
      (some (cfgL true .endTop [] [] false (i + 1) CS cx al, ⟨.endTop, i, i⟩)) := nextOk_shift rfl rfl
  exact (EvRun.top hn rfl).lift
    (nextOk_read (s := cfgL true st [] [] false i CS cx al) rfl hc
      ((pv_foreign 7 st hst x hadj _ _ _).trans
        ((ev_root (lc := true) 7 st false 0 (i + 1) CS cx al x _ _).trans
          (endTop_foreign 6 x hx (i + 1) CS cx al [] _ _))) rfl)

theorem ev_glued_scalar {st : St} (hst : PV st = true) {x : Cls} (hx : x.isForeign = true)
    (hadj : adjOk st x = true) (b i : Nat) (CS : List Ctx) (cx : Ctx) (al : Bool) (hc : data[i]? = some x) :
    ∃ k, k ≤ 2 ∧ EvRun data (cfgL true st [] [(.litB, b)] false i CS cx al) [⟨.litE, b, i - 1⟩] k := by
  have hlt : i < data.size := (Array.getElem?_eq_some_iff.mp hc).1
  have lift := nextOk_read (s := cfgL true st [] [(.litB, b)] false i CS cx al) rfl hc
    ((pv_foreign 7 st hst x hadj _ _ _).trans
      ((ev_root (lc := true) 7 st true b (i + 1) CS cx al x _ _).trans
        (endTop_foreign_open 6 x hx (.litB, b) [] (i + 1) CS cx al [.litE] _ _))) rfl
  have hn1 : NextOk data
      { cfgL true .endTop [] [(.litB, b)] false (i + 1) CS cx al with finds := [.litE], hasTrailing := true }
      (some ({ cfgL true .endTop [] [] false (i + 1) CS cx al with hasTrailing := true }, ⟨.litE, b, i - 1⟩)) :=
    nextOk_shift rfl rfl
  by_cases h2 : i + 1 < data.size
  · obtain ⟨c2, hc2⟩ : ∃ c2, data[i + 1]? = some c2 := ⟨data[i + 1], by simp [h2]⟩
    have lift2 := nextOk_read (s := { cfgL true .endTop [] [] false (i + 1) CS cx al with hasTrailing := true }) rfl hc2
      (endTop_trailing 7 c2 (i + 1 + 1) CS cx al _ _) rfl
    have hn3 : NextOk data
        { cfgL true .endTop [] [] false (i + 1 + 1) CS cx al with hasTrailing := true, finds := [.endTop] }
        (some ({ cfgL true .endTop [] [] false (i + 1 + 1) CS cx al with hasTrailing := true }, ⟨.endTop, i + 1, i + 1⟩)) :=
      nextOk_shift rfl rfl
    exact ⟨1 + 1, by omega, (EvRun.ev hn1 (by intro h; cases h) ((EvRun.top hn3 rfl).lift lift2)).lift lift⟩
  · have hn2 : NextOk data { cfgL true .endTop [] [] false (i + 1) CS cx al with hasTrailing := true } none :=
      nextOk_done rfl (by simp only [cfgL]; omega) rfl
    exact ⟨1 + 1, by omega, (EvRun.ev hn1 (by intro h; cases h) (EvRun.eof hn2)).lift lift⟩

/-- the literal end of a top-level scalar that is still open behind the last token -/
def endClosers (c : TC) : List Ev :=
  match c.K with
  | [(.litB, b)] => [⟨.litE, b, c.i - 1⟩]
  | _ => []

end Len

open Len in
/-- the events `Length()` reads from a text that starts with an accepted token list and goes on with a foreign byte:
the events of the token list (`trun`), and the end of a top-level scalar -/
theorem schema_length_events_tokens (toks : List Tok) (hw : ∀ t ∈ toks, t.WF) (c' : TC) (evs : List Ev)
    (h : trun TC.init toks = some (c', evs)) (x : Cls) (rest : List Cls) (hx : x.isForeign = true) (hend : EndsAt c' x)
    (bs : List UInt8) (hbs : bs.map classify = renderToks toks ++ x :: rest) :
    lengthEvents bs = .ok (evs ++ endClosers c') := by
  have hat : At (bs.map classify).toArray 0 (renderToks toks ++ x :: rest) := At_toArray _ [] _ hbs
  have hsize : (bs.map classify).toArray.size = (renderToks toks).length + 1 + rest.length := by
    rw [hbs]; simp only [List.size_toArray, List.length_append, List.length_cons]; omega
  rw [At_append] at hat
  obtain ⟨hat0, hatx⟩ := hat
  simp only [Nat.zero_add] at hatx
  have P := sim_run (lc := true) toks TC.init c' evs h hw hat0
  rw [TC.init_sc] at P
  have hi := trun_index toks TC.init c' evs h
  have hi' : c'.i = (renderToks toks).length := by rw [hi]; simp [TC.init]
  obtain ⟨hnt, hlen⟩ := trun_evs toks TC.init c' evs h hw
  obtain ⟨st, g, K, i, CS, cx, al⟩ := c'
  simp only at hi' hend
  subst hi'
  have fin : ∃ k, k ≤ 2 ∧ EvRun (bs.map classify).toArray (TC.sc true ⟨st, g, K, (renderToks toks).length, CS, cx, al⟩)
      (endClosers ⟨st, g, K, (renderToks toks).length, CS, cx, al⟩) k := by
    rcases hend with ⟨rfl, rfl⟩ | ⟨hpv, rfl, hK, hadj⟩
    · exact ⟨1, by omega, ev_foreign_at_top g hx _ CS cx al hatx.1⟩
    · rcases hK with rfl | ⟨b, rfl⟩
      · exact ⟨1, by omega, ev_glued_container hpv hx hadj _ CS cx al hatx.1⟩
      · exact ev_glued_scalar hpv hx hadj b _ CS cx al hatx.1
  obtain ⟨k, hk, r⟩ := fin
  have R := P.evRun hnt _ k r
  unfold lengthEvents
  simp only
  rw [evLoop_of_evRun R _ [] (by rw [hsize]; omega)]
  rfl

namespace Len

/-- where a scan of the token text ALONE may end: behind the complete top-level value -/
def Complete (c : TC) : Prop :=
  (c.st = .endTop ∧ c.K = []) ∨ (PV c.st = true ∧ c.g = false ∧ (c.K = [] ∨ ∃ b, c.K = [(.litB, b)]))

end Len

open Len in
/-- the events of an accepted token list whose text is the whole input (ordinary mode) -/
theorem schema_events_tokens_whole (toks : List Tok) (hw : ∀ t ∈ toks, t.WF) (c' : TC) (evs : List Ev)
    (h : trun TC.init toks = some (c', evs)) (hend : Complete c')
    (bs : List UInt8) (hbs : bs.map classify = renderToks toks) :
    scanAll bs = .ok (evs ++ endClosers c') := by
  have hat : At (bs.map classify).toArray 0 (renderToks toks) := At_toArray _ [] _ (by rw [hbs]; simp)
  have hsize : (bs.map classify).toArray.size = (renderToks toks).length := by rw [hbs]; simp
  have P := sim_run (lc := false) toks TC.init c' evs h hw hat
  rw [TC.init_sc] at P
  have hi := trun_index toks TC.init c' evs h
  have hi' : c'.i = (renderToks toks).length := by rw [hi]; simp [TC.init]
  obtain ⟨hnt, hlen⟩ := trun_evs toks TC.init c' evs h hw
  obtain ⟨st, g, K, i, CS, cx, al⟩ := c'
  simp only at hi' hend
  subst hi'
  have fin : Emits (bs.map classify).toArray (TC.sc false ⟨st, g, K, (renderToks toks).length, CS, cx, al⟩)
      (endClosers ⟨st, g, K, (renderToks toks).length, CS, cx, al⟩) := by
    rcases hend with ⟨rfl, rfl⟩ | ⟨hpv, rfl, hK⟩
    · exact Emits.done rfl (by simp only [TC.sc, cfgL]; omega) rfl
    · rcases hK with rfl | ⟨b, rfl⟩
      · exact Emits.done rfl (by simp only [TC.sc, cfgL]; omega) rfl
      · exact Emits.eofLit (s := TC.sc false ⟨st, false, [(.litB, b)], (renderToks toks).length, CS, cx, al⟩)
          rfl (by simp only [TC.sc, cfgL]; omega) rfl rfl
  have E := P.emits fin
  unfold scanAll
  simp only
  have := events_of_emits E (8 * (bs.map classify).toArray.size + 16) [] (by
    have : (endClosers ⟨st, g, K, (renderToks toks).length, CS, cx, al⟩).length ≤ 1 := by
      unfold endClosers; split <;> simp
    simp only [List.length_append]; rw [hsize]; omega)
  simpa using this

#print axioms schema_length_events_tokens
#print axioms schema_events_tokens_whole

end SchemaScan
