import JSight.AnnotNoteLoad
import JSight.AnnotThm
/-!
C13, inline versus multi-line annotations with a note, on schema texts (bytes):
`tok // {rules} - note` and `tok /* {rules} - note */` load into the same node: value, rules, and the note text
(`Loader.trimSpaces` of the note token, as `GetAST` shows it).
-/
namespace Lay
open SchemaScan

/-- the schema text with a note -/
def annTextNB (a : Ann) (tok s1 s2 : List UInt8) (ob : BObj) (s3 n1 note tl : List UInt8) : List UInt8 :=
  tok ++ (s1 ++ (47 :: markB a :: (s2 ++ (123 :: (ob.body ++ (125 :: (s3 ++ (45 :: (n1 ++ (note ++ tl))))))))))

theorem annTextNB_cls (a : Ann) (ha : a.isAnn = true) (tok s1 s2 : List UInt8) (ob : BObj) (s3 n1 note tl : List UInt8) :
    (annTextNB a tok s1 s2 ob s3 n1 note tl).map classify
      = annTextN a (tok.map classify) (s1.map classify) (s2.map classify) ob.cls (s3.map classify) (n1.map classify)
          (note.map classify) (tl.map classify) := by
  simp only [annTextNB, annTextN, List.map_append, List.map_cons, BObj.body_cls]
  cases a <;> simp [Ann.isAnn] at ha <;> rfl

structure AnnValidN (a : Ann) (tok s1 s2 : List UInt8) (ob : BObj) (s3 n1 note tl : List UInt8) : Prop where
  base : AnnValid a tok s1 s2 ob s3 tl
  n1 : IsSpTabs (n1.map classify)
  note : IsNote (note.map classify)

theorem noteTailEvs_length (y q t : Nat) (a : Ann) (tl : List Cls) : (noteTailEvs y q t a tl).length ≤ tl.length + 4 := by
  cases a with
  | multi =>
    have := nlEvs_len (t + 2) (tl.drop 2)
    simp only [noteTailEvs, List.length_cons, List.length_drop] at this ⊢
    omega
  | none =>
    cases tl with
    | nil => simp [noteTailEvs]
    | cons c w =>
      have := nlEvs_len (t + 1) w
      simp only [noteTailEvs, List.length_cons]
      omega
  | inline =>
    cases tl with
    | nil => simp [noteTailEvs]
    | cons c w =>
      have := nlEvs_len (t + 1) w
      simp only [noteTailEvs, List.length_cons]
      omega

theorem annEvsN_length (a : Ann) (tok s1 s2 : List Cls) (ob : CObj) (s3 n1 note tl : List Cls) :
    (annEvsN a tok s1 s2 ob s3 n1 note tl).length ≤ 6 * (annTextN a tok s1 s2 ob s3 n1 note tl).length + 8 := by
  have h1 := nlEvs_len (annOff tok s1 + 2) s2
  have h2 := CObj.evs_length ob (objOff tok s1 s2)
  have h3 := nlEvs_len (objOff tok s1 s2 + 1 + ob.body.length + 1) s3
  have h4 := noteTailEvs_length (annOff tok s1) (noteOff tok s1 s2 ob s3 n1) (noteOff tok s1 s2 ob s3 n1 + note.length) a tl
  simp only [annEvsN, annTextN, List.length_append, List.length_cons]
  omega

/-- the node with its note -/
def annNodeN (tok : List UInt8) (names : List (List UInt8)) (note : List UInt8) : ANode :=
  { annNode tok names with note := some (Loader.trimSpaces note) }

theorem note_ne {note : List UInt8} (h : IsNote (note.map classify)) : note ≠ [] := by
  obtain ⟨⟨c, cs, he, _⟩, _⟩ := h
  intro e
  subst e
  simp at he

/-- **an annotated top-level scalar with a note, in either form, loads into one literal node**: value, rules in
written order, the note -/
theorem load_annot_note (a : Ann) (ha : a.isAnn = true) (tok s1 s2 : List UInt8) (ob : BObj) (s3 n1 note tl : List UInt8)
    (hv : AnnValidN a tok s1 s2 ob s3 n1 note tl) :
    ∃ st, Loader.loadText (annTextNB a tok s1 s2 ob s3 n1 note tl) = .ok st ∧ st.root = some 0 ∧
      absTable (annTextNB a tok s1 s2 ob s3 n1 note tl).toArray st = [annNodeN tok ob.names note] := by
  obtain ⟨st, hfold, hr, hn⟩ := Loader.annot_fold_note (annTextNB a tok s1 s2 ob s3 n1 note tl).toArray a ha
    (tok.map classify) (s1.map classify) (s2.map classify) ob.cls (s3.map classify) (n1.map classify)
    (note.map classify) (tl.map classify)
  have hb := hv.base
  refine ⟨st, ?_, hr, ?_⟩
  · unfold Loader.loadText
    simp only [annTextNB_cls a ha]
    refine Loader.loadLoop_of_emits _
      (annot_emits_note a ha _ hb.tok _ hb.s1 _ hb.s2 _ hb.ob _ hb.s3 _ hv.n1 _ hv.note _ hb.tl) _ {} st ?_ hfold
    have := annEvsN_length a (tok.map classify) (s1.map classify) (s2.map classify) ob.cls (s3.map classify)
      (n1.map classify) (note.map classify) (tl.map classify)
    simp only [List.size_toArray]
    omega
  · have hat : AtB (annTextNB a tok s1 s2 ob s3 n1 note tl).toArray 0 (annTextNB a tok s1 s2 ob s3 n1 note tl) :=
      AtB_toArray _ [] _ rfl
    have htok : AtB (annTextNB a tok s1 s2 ob s3 n1 note tl).toArray 0 tok := by
      simp only [annTextNB] at hat ⊢
      rw [AtB_append] at hat
      exact hat.1
    have hval : Loader.slice (annTextNB a tok s1 s2 ob s3 n1 note tl).toArray 0 ((tok.map classify).length - 1) = tok := by
      have := slice_tok _ tok 0 htok (scalar_ne hb.tok)
      simpa using this
    -- the note token
    have hnote : Loader.slice (annTextNB a tok s1 s2 ob s3 n1 note tl).toArray
        (noteOff (tok.map classify) (s1.map classify) (s2.map classify) ob.cls (s3.map classify) (n1.map classify))
        (noteOff (tok.map classify) (s1.map classify) (s2.map classify) ob.cls (s3.map classify) (n1.map classify)
          + (note.map classify).length - 1) = note := by
      have e : annTextNB a tok s1 s2 ob s3 n1 note tl
          = (tok ++ (s1 ++ (47 :: markB a :: (s2 ++ (123 :: (ob.body ++ (125 :: (s3 ++ (45 :: n1))))))))) ++ (note ++ tl) := by
        simp [annTextNB]
      have hat' := hat
      rw [e, AtB_append] at hat'
      have hoff : 0 + (tok ++ (s1 ++ (47 :: markB a :: (s2 ++ (123 :: (ob.body ++ (125 :: (s3 ++ (45 :: n1))))))))).length
          = noteOff (tok.map classify) (s1.map classify) (s2.map classify) ob.cls (s3.map classify) (n1.map classify) := by
        simp only [noteOff, tailOff, List.length_append, List.length_cons, List.length_map, ← BObj.body_cls]
        omega
      have h2 := hat'.2
      rw [hoff, ← e, AtB_append] at h2
      have := slice_tok _ note _ h2.1 (note_ne hv.note)
      simpa using this
    have hnames : (ob.cls.spans (objOff (tok.map classify) (s1.map classify) (s2.map classify))).map
        (Loader.nameOf (annTextNB a tok s1 s2 ob s3 n1 note tl).toArray) = ob.names := by
      cases ob with
      | empty b0 => rfl
      | rules r rs tc =>
        have e : annTextNB a tok s1 s2 (.rules r rs tc) s3 n1 note tl
            = (tok ++ (s1 ++ (47 :: markB a :: (s2 ++ [123])))) ++
              (renderRulesB r rs ++ (renderTcB tc ++ (125 :: (s3 ++ (45 :: (n1 ++ (note ++ tl))))))) := by
          simp [annTextNB, BObj.body]
        rw [e, AtB_append] at hat
        have hoff : 0 + (tok ++ (s1 ++ (47 :: markB a :: (s2 ++ [123])))).length
            = objOff (tok.map classify) (s1.map classify) (s2.map classify) + 1 := by
          simp only [objOff, List.length_append, List.length_cons, List.length_nil, List.length_map]; omega
        rw [hoff] at hat
        rw [← e] at hat
        exact names_rules _ a rs r hb.ob.1 _ _ hat.2
    unfold absTable
    rw [hn]
    simp only [List.map_cons, List.map_nil, absNode, Loader.addSpans, List.nil_append, List.map_map,
      Option.map_some, hval, hnote, annNodeN, annNode]
    have hc : (ruleText (annTextNB a tok s1 s2 ob s3 n1 note tl).toArray ∘ Sum.inl)
        = Loader.nameOf (annTextNB a tok s1 s2 ob s3 n1 note tl).toArray := by
      funext sp; rfl
    rw [hc, hnames]

/-- **inline versus multi-line, with a note**: `tok // {rules} - note` and `tok /* {rules} - note */` with the same
rules and the same note text: the same node table -/
theorem inline_vs_multiline_note (tok s1 s2 : List UInt8) (ob : BObj) (s3 n1 note tl : List UInt8)
    (s1' s2' : List UInt8) (ob' : BObj) (s3' n1' tl' : List UInt8)
    (hv : AnnValidN .inline tok s1 s2 ob s3 n1 note tl) (hv' : AnnValidN .multi tok s1' s2' ob' s3' n1' note tl')
    (hsame : ob.pairs = ob'.pairs) :
    ∃ st st', Loader.loadText (annTextNB .inline tok s1 s2 ob s3 n1 note tl) = .ok st ∧
      Loader.loadText (annTextNB .multi tok s1' s2' ob' s3' n1' note tl') = .ok st' ∧ st.root = st'.root ∧
      absTable (annTextNB .inline tok s1 s2 ob s3 n1 note tl).toArray st
        = absTable (annTextNB .multi tok s1' s2' ob' s3' n1' note tl').toArray st' := by
  obtain ⟨st, h1, h2, h3⟩ := load_annot_note .inline rfl tok s1 s2 ob s3 n1 note tl hv
  obtain ⟨st', h1', h2', h3'⟩ := load_annot_note .multi rfl tok s1' s2' ob' s3' n1' note tl' hv'
  have hn : ob.names = ob'.names := by rw [names_of_pairs, names_of_pairs, hsame]
  exact ⟨st, st', h1, h1', by rw [h2, h2'], by rw [h3, h3', hn]⟩

end Lay
