import JSight.ValidateKSpec
namespace VK
open VN (J Ev evs evsItems evsMembers)
variable {L D : Type} (env : Env L) (litOK : L → D → Bool) (keyOK : String → String → Bool)

/-! ### groups -/

theorem stepG_append (g1 g2 : List (T L)) (e : Ev D) :
    stepG env litOK keyOK (g1 ++ g2) e
      = ((stepG env litOK keyOK g1 e).1 ++ (stepG env litOK keyOK g2 e).1, (stepG env litOK keyOK g1 e).2 || (stepG env litOK keyOK g2 e).2) := by
  induction g1 with
  | nil => simp [stepG]
  | cons t ts ih =>
    simp only [List.cons_append, stepG, ih]
    cases (stepT env litOK keyOK t e).1 <;> simp [Bool.or_assoc]

theorem runQ_nil (es : List (Ev D)) : runQ env litOK keyOK ([] : List (T L)) es = some ([], false) := by
  induction es with
  | nil => rfl
  | cons e es ih =>
    simp only [runQ, stepG]
    split
    · rfl
    · simpa using ih

theorem runQ_cons_cons (g : List (T L)) (e e' : Ev D) (es : List (Ev D)) :
    runQ env litOK keyOK g (e :: e' :: es)
      = if (stepG env litOK keyOK g e).2 then none else runQ env litOK keyOK (stepG env litOK keyOK g e).1 (e' :: es) := by
  simp [runQ]

theorem runQ_single (g : List (T L)) (e : Ev D) : runQ env litOK keyOK g [e] = some (stepG env litOK keyOK g e) := by
  simp [runQ]

theorem runQ_append (g : List (T L)) (es fs : List (Ev D)) (hfs : fs ≠ []) :
    runQ env litOK keyOK g (es ++ fs) =
      match runQ env litOK keyOK g es with
      | none => none
      | some r => if r.2 then none else runQ env litOK keyOK r.1 fs := by
  induction es generalizing g with
  | nil => simp [runQ]
  | cons e es ih =>
    have hne : (es ++ fs).isEmpty = false := by cases es <;> cases fs <;> simp_all
    simp only [List.cons_append, runQ, hne, Bool.false_eq_true, if_false]
    cases es with
    | nil => simp
    | cons e2 es2 =>
      simp only [List.isEmpty_cons, Bool.false_eq_true, if_false]
      split
      · rfl
      · exact ih _

/-- siblings do not interact -/
theorem runQ_group_append (g1 g2 : List (T L)) (es : List (Ev D)) :
    runQ env litOK keyOK (g1 ++ g2) es =
      match runQ env litOK keyOK g1 es, runQ env litOK keyOK g2 es with
      | some r1, some r2 => some (r1.1 ++ r2.1, r1.2 || r2.2)
      | _, _ => none := by
  induction es generalizing g1 g2 with
  | nil => simp [runQ]
  | cons e es ih =>
    simp only [runQ, stepG_append]
    cases es with
    | nil => simp
    | cons e2 es2 =>
      simp only [List.isEmpty_cons, Bool.false_eq_true, if_false]
      cases h1 : (stepG env litOK keyOK g1 e).2 <;> cases h2 : (stepG env litOK keyOK g2 e).2 <;> simp [ih]

/-! ### a parent that is not a leaf only waits for its children -/

theorem stepG_node_wait (P : Frame L) (g : List (T L)) (e : Ev D) :
    stepG env litOK keyOK [T.node P false g] e
      = (if (stepG env litOK keyOK g e).2 then [T.node P true (stepG env litOK keyOK g e).1]
         else if (stepG env litOK keyOK g e).1.isEmpty then [] else [T.node P false (stepG env litOK keyOK g e).1], false) := by
  simp only [stepG, stepT, own, assemble, Bool.false_eq_true, if_false, List.map_nil, List.append_nil, Bool.false_or]
  cases (stepG env litOK keyOK g e).2 <;> cases h : (stepG env litOK keyOK g e).1.isEmpty <;> simp [h]

theorem node_wait (P : Frame L) (es : List (Ev D)) : ∀ (g g' : List (T L)) (b : Bool),
    runQ env litOK keyOK g es = some (g', b) → es ≠ [] →
    runQ env litOK keyOK [T.node P false g] es
      = some (if b then [T.node P true g'] else if g'.isEmpty then [] else [T.node P false g'], false) := by
  induction es with
  | nil => intro g g' b _ h; exact absurd rfl h
  | cons e es ih =>
    intro g g' b h _
    cases es with
    | nil =>
      simp only [runQ_single, Option.some.injEq] at h ⊢
      rw [stepG_node_wait, h]
    | cons e2 es2 =>
      rw [runQ_cons_cons] at h ⊢
      rw [stepG_node_wait]
      cases hs : (stepG env litOK keyOK g e).2 with
      | true => rw [hs] at h; simp at h
      | false =>
        rw [hs] at h
        simp only [Bool.false_eq_true, if_false] at h ⊢
        cases hemp : (stepG env litOK keyOK g e).1.isEmpty with
        | true =>
          have : (stepG env litOK keyOK g e).1 = [] := by simpa using hemp
          rw [this, runQ_nil] at h
          simp only [Option.some.injEq, Prod.mk.injEq] at h
          obtain ⟨rfl, rfl⟩ := h
          simp [runQ_nil]
        | false =>
          simp only [Bool.false_eq_true, if_false]
          exact ih _ _ _ h (by simp)

/-! ### a leaf -/

def leafRes : FeedRes L → List (T L) × Bool
  | .fail => ([], false)
  | .done => ([], true)
  | .stay f' => ([leafT f'], false)
  | .kids f' hs => (if hs.isEmpty then [] else [T.node f' false (hs.map leafT)], false)

theorem stepG_leaf (f : Frame L) (e : Ev D) : stepG env litOK keyOK [leafT f] e = leafRes (feed1 env litOK keyOK f e) := by
  simp only [leafT, stepG, stepT, own, assemble, if_true]
  cases feed1 env litOK keyOK f e with
  | fail => simp [leafRes]
  | done => simp [leafRes]
  | stay f' => simp [leafRes, leafT]
  | kids f' hs => cases hs <;> simp [leafRes]

/-- a leaf, one lexeme, more lexemes to come -/
theorem runQ_leaf (f : Frame L) (e r : Ev D) (rs : List (Ev D)) :
    runQ env litOK keyOK [leafT f] (e :: r :: rs) =
      if (leafRes (feed1 env litOK keyOK f e)).2 then none else runQ env litOK keyOK (leafRes (feed1 env litOK keyOK f e)).1 (r :: rs) := by
  rw [runQ_cons_cons, stepG_leaf]

theorem runQ_leaf_last (f : Frame L) (e : Ev D) :
    runQ env litOK keyOK [leafT f] [e] = some (leafRes (feed1 env litOK keyOK f e)) := by
  rw [runQ_single, stepG_leaf]

/-! ### `any` -/

theorem feed1_any_open (d : Nat) (e : Ev D) (h : e.isOpening = true) :
    feed1 env litOK keyOK (.any d : Frame L) e = .stay (.any (d + 1)) := by
  simp [feed1, h]

theorem feed1_any_close (d : Nat) (e : Ev D) (h : e.isOpening = false) :
    feed1 env litOK keyOK (.any (d + 2) : Frame L) e = .stay (.any (d + 1)) := by
  simp [feed1, h]

theorem feed1_any_last (e : Ev D) (h : e.isOpening = false) :
    feed1 env litOK keyOK (.any 1 : Frame L) e = .done := by
  simp [feed1, h]

mutual
theorem any_keepT (d : J D) (n : Nat) (r : Ev D) (rs : List (Ev D)) :
    runQ env litOK keyOK [leafT (.any (n+1) : Frame L)] (evs d ++ r :: rs) = runQ env litOK keyOK [leafT (.any (n+1))] (r :: rs) := by
  cases d with
  | lit k =>
    simp only [evs, List.cons_append, List.nil_append]
    rw [runQ_leaf, feed1_any_open env litOK keyOK _ _ rfl]
    simp only [leafRes, Bool.false_eq_true, if_false]
    rw [runQ_leaf, feed1_any_close env litOK keyOK _ _ rfl]
    simp [leafRes]
  | arr xs =>
    have h := any_keep_itemsT xs (n+1) .arrE (r :: rs)
    simp only [evs, List.cons_append, List.append_assoc, List.nil_append]
    obtain ⟨x, y, hxy⟩ : ∃ x y, evsItems xs ++ Ev.arrE :: r :: rs = x :: y := by
      cases evsItems xs <;> simp
    rw [hxy, runQ_leaf, feed1_any_open env litOK keyOK _ _ rfl]
    simp only [leafRes, Bool.false_eq_true, if_false]
    rw [← hxy, h, runQ_leaf, feed1_any_close env litOK keyOK _ _ rfl]
    simp [leafRes]
  | obj ms =>
    have h := any_keep_membersT ms (n+1) .objE (r :: rs)
    simp only [evs, List.cons_append, List.append_assoc, List.nil_append]
    obtain ⟨x, y, hxy⟩ : ∃ x y, evsMembers ms ++ Ev.objE :: r :: rs = x :: y := by
      cases evsMembers ms <;> simp
    rw [hxy, runQ_leaf, feed1_any_open env litOK keyOK _ _ rfl]
    simp only [leafRes, Bool.false_eq_true, if_false]
    rw [← hxy, h, runQ_leaf, feed1_any_close env litOK keyOK _ _ rfl]
    simp [leafRes]
theorem any_keep_itemsT (xs : List (J D)) (n : Nat) (r : Ev D) (rs : List (Ev D)) :
    runQ env litOK keyOK [leafT (.any (n+1) : Frame L)] (evsItems xs ++ r :: rs) = runQ env litOK keyOK [leafT (.any (n+1))] (r :: rs) := by
  cases xs with
  | nil => simp [evsItems]
  | cons x xs =>
    have h1 := any_keepT x (n+1) .itemE (evsItems xs ++ r :: rs)
    have h2 := any_keep_itemsT xs n r rs
    simp only [evsItems, List.cons_append, List.append_assoc]
    obtain ⟨a, b, hab⟩ : ∃ a b, evs x ++ Ev.itemE :: (evsItems xs ++ r :: rs) = a :: b := by
      cases evs x <;> simp
    rw [hab, runQ_leaf, feed1_any_open env litOK keyOK _ _ rfl]
    simp only [leafRes, Bool.false_eq_true, if_false]
    rw [← hab, h1]
    obtain ⟨a2, b2, hab2⟩ : ∃ a b, evsItems xs ++ r :: rs = a :: b := by
      cases evsItems xs <;> simp
    rw [hab2, runQ_leaf, feed1_any_close env litOK keyOK _ _ rfl]
    simp only [leafRes, Bool.false_eq_true, if_false]
    rw [← hab2, h2]
theorem any_keep_membersT (ms : List (String × J D)) (n : Nat) (r : Ev D) (rs : List (Ev D)) :
    runQ env litOK keyOK [leafT (.any (n+1) : Frame L)] (evsMembers ms ++ r :: rs) = runQ env litOK keyOK [leafT (.any (n+1))] (r :: rs) := by
  cases ms with
  | nil => simp [evsMembers]
  | cons m ms =>
    obtain ⟨k, v⟩ := m
    have h1 := any_keepT v (n+1) .valE (evsMembers ms ++ r :: rs)
    have h2 := any_keep_membersT ms n r rs
    simp only [evsMembers, List.cons_append, List.append_assoc]
    rw [runQ_leaf, feed1_any_open env litOK keyOK _ _ rfl]
    simp only [leafRes, Bool.false_eq_true, if_false]
    rw [runQ_leaf, feed1_any_close env litOK keyOK _ _ rfl]
    simp only [leafRes, Bool.false_eq_true, if_false]
    obtain ⟨a, b, hab⟩ : ∃ a b, evs v ++ Ev.valE :: (evsMembers ms ++ r :: rs) = a :: b := by
      cases evs v <;> simp
    rw [hab, runQ_leaf, feed1_any_open env litOK keyOK _ _ rfl]
    simp only [leafRes, Bool.false_eq_true, if_false]
    rw [← hab, h1]
    obtain ⟨a2, b2, hab2⟩ : ∃ a b, evsMembers ms ++ r :: rs = a :: b := by
      cases evsMembers ms <;> simp
    rw [hab2, runQ_leaf, feed1_any_close env litOK keyOK _ _ rfl]
    simp only [leafRes, Bool.false_eq_true, if_false]
    rw [← hab2, h2]
end

theorem any_topT (d : J D) : runQ env litOK keyOK [leafT (.any 0 : Frame L)] (evs d) = some ([], true) := by
  cases d with
  | lit k =>
    simp only [evs]
    rw [runQ_leaf, feed1_any_open env litOK keyOK _ _ rfl]
    simp only [leafRes, Bool.false_eq_true, if_false]
    rw [runQ_leaf_last, feed1_any_last env litOK keyOK _ rfl]; rfl
  | arr xs =>
    have h := any_keep_itemsT env litOK keyOK (L := L) xs 0 .arrE []
    simp only [evs]
    obtain ⟨x, y, hxy⟩ : ∃ x y, evsItems xs ++ [Ev.arrE] = x :: (y : List (Ev D)) := by
      cases evsItems xs <;> simp
    rw [hxy, runQ_leaf, feed1_any_open env litOK keyOK _ _ rfl]
    simp only [leafRes, Bool.false_eq_true, if_false]
    rw [← hxy, h, runQ_leaf_last, feed1_any_last env litOK keyOK _ rfl]; rfl
  | obj ms =>
    have h := any_keep_membersT env litOK keyOK (L := L) ms 0 .objE []
    simp only [evs]
    obtain ⟨x, y, hxy⟩ : ∃ x y, evsMembers ms ++ [Ev.objE] = x :: (y : List (Ev D)) := by
      cases evsMembers ms <;> simp
    rw [hxy, runQ_leaf, feed1_any_open env litOK keyOK _ _ rfl]
    simp only [leafRes, Bool.false_eq_true, if_false]
    rw [← hxy, h, runQ_leaf_last, feed1_any_last env litOK keyOK _ rfl]; rfl

/-! ### the union semantics with named types -/

theorem evs_cons (d : J D) : ∃ a b, evs d = a :: b := by
  cases d <;> simp [evs]

theorem evs_ne_nil (d : J D) : evs d ≠ [] := by
  obtain ⟨a, b, h⟩ := evs_cons d; rw [h]; simp

theorem position_run (P : Frame L) (hs : List (Frame L)) (b : Bool) (x : J D) (r : Ev D) (rs : List (Ev D))
    (hv : runQ env litOK keyOK (hs.map leafT) (evs x) = some ([], b)) :
    runQ env litOK keyOK (leafRes (FeedRes.kids P hs)).1 (evs x ++ r :: rs)
      = if b then runQ env litOK keyOK [leafT P] (r :: rs) else some ([], false) := by
  by_cases hh : hs.isEmpty = true
  · have : hs = [] := by simpa using hh
    rw [this] at hv
    simp only [List.map_nil, runQ_nil, Option.some.injEq, Prod.mk.injEq, true_and] at hv
    simp [leafRes, this, runQ_nil, ← hv]
  · simp only [leafRes, hh, Bool.false_eq_true, if_false]
    rw [runQ_append env litOK keyOK _ _ _ (by simp), node_wait env litOK keyOK P (evs x) _ _ _ hv (evs_ne_nil x)]
    cases b
    · simp [runQ_nil]
    · simp [leafT]

/-- additionalProperties "object" / "array": the first lexeme decides, the rest is skipped -/
theorem addObj_T (v : J D) :
    runQ env litOK keyOK [leafT (Frame.addObj : Frame L)] (evs v) = some ([], match v with | .obj _ => true | _ => false) := by
  cases v with
  | lit k => simp only [evs]; rw [runQ_leaf]; simp [feed1, leafRes, runQ_nil]
  | arr xs =>
    obtain ⟨a, b, hab⟩ : ∃ a b, evsItems xs ++ [Ev.arrE] = a :: (b : List (Ev D)) := by cases evsItems xs <;> simp
    simp only [evs, hab]; rw [runQ_leaf]; simp [feed1, leafRes, runQ_nil]
  | obj ms =>
    have h := any_keep_membersT env litOK keyOK (L := L) ms 0 .objE []
    simp only [evs]
    obtain ⟨x, y, hxy⟩ : ∃ x y, evsMembers ms ++ [Ev.objE] = x :: (y : List (Ev D)) := by
      cases evsMembers ms <;> simp
    rw [hxy, runQ_leaf]
    simp only [feed1, leafRes, Bool.false_eq_true, if_false]
    rw [← hxy, h, runQ_leaf_last, feed1_any_last env litOK keyOK _ rfl]; rfl

theorem addArr_T (v : J D) :
    runQ env litOK keyOK [leafT (Frame.addArr : Frame L)] (evs v) = some ([], match v with | .arr _ => true | _ => false) := by
  cases v with
  | lit k => simp only [evs]; rw [runQ_leaf]; simp [feed1, leafRes, runQ_nil]
  | obj ms =>
    obtain ⟨a, b, hab⟩ : ∃ a b, evsMembers ms ++ [Ev.objE] = a :: (b : List (Ev D)) := by cases evsMembers ms <;> simp
    simp only [evs, hab]; rw [runQ_leaf]; simp [feed1, leafRes, runQ_nil]
  | arr xs =>
    have h := any_keep_itemsT env litOK keyOK (L := L) xs 0 .arrE []
    simp only [evs]
    obtain ⟨x, y, hxy⟩ : ∃ x y, evsItems xs ++ [Ev.arrE] = x :: (y : List (Ev D)) := by
      cases evsItems xs <;> simp
    rw [hxy, runQ_leaf]
    simp only [feed1, leafRes, Bool.false_eq_true, if_false]
    rw [← hxy, h, runQ_leaf_last, feed1_any_last env litOK keyOK _ rfl]; rfl

/-- what an unknown key's value must satisfy -/
def shapeAdd (add : AddMode L) (v : J D) : Bool :=
  addDecide litOK add v (fun n => (alts env (.ref [n] none)).any (fun a => shapeA env litOK keyOK a v))

/-- the validators of an unknown key's value decide `shapeAdd` (the two recursive facts are passed in) -/
theorem add_run (add : AddMode L) (v : J D)
    (hlit : ∀ l, runQ env litOK keyOK [leafT (frameOf (S.lit l))] (evs v) = some ([], shapeA env litOK keyOK (S.lit l) v))
    (htype : ∀ n, runQ env litOK keyOK ((heads env (.ref [n] none)).map leafT) (evs v)
        = some ([], (alts env (.ref [n] none)).any (fun a => shapeA env litOK keyOK a v))) :
    runQ env litOK keyOK ((addHeads env add).map leafT) (evs v) = some ([], shapeAdd env litOK keyOK add v) := by
  cases add with
  | none => simp [addHeads, runQ_nil, shapeAdd, addDecide]
  | any => simpa [addHeads, shapeAdd, addDecide] using any_topT env litOK keyOK (L := L) v
  | obj => have := addObj_T env litOK keyOK (L := L) v; cases v <;> simpa [addHeads, shapeAdd, addDecide] using this
  | arr => have := addArr_T env litOK keyOK (L := L) v; cases v <;> simpa [addHeads, shapeAdd, addDecide] using this
  | lit l =>
    have := hlit l
    cases v <;> simpa [addHeads, shapeAdd, addDecide, frameOf, shapeA] using this
  | type n => simpa [addHeads, shapeAdd, addDecide] using htype n

mutual
/-- one alternative (a non-reference schema) over one value -/
theorem alt_T (a : S L) (d : J D) :
    runQ env litOK keyOK [leafT (frameOf a)] (evs d) = some ([], shapeA env litOK keyOK a d) := by
  cases a with
  | ref names nul =>
    obtain ⟨x, y, h⟩ := evs_cons d
    cases y with
    | nil => rw [h, runQ_leaf_last]; cases d <;> simp [frameOf, feed1, leafRes, shapeA]
    | cons z zs => rw [h, runQ_leaf]; cases d <;> simp [frameOf, feed1, leafRes, shapeA, runQ_nil]
  | any => simpa [frameOf, shapeA] using any_topT env litOK keyOK (L := L) d
  | lit l =>
    cases d with
    | lit dk =>
      simp only [frameOf, evs, shapeA]
      rw [runQ_leaf]
      simp only [feed1, leafRes, Bool.false_eq_true, if_false]
      rw [runQ_leaf_last]
      cases h : litOK l dk <;> simp [feed1, h, leafRes]
    | arr xs =>
      obtain ⟨a, b, hab⟩ : ∃ a b, evsItems xs ++ [Ev.arrE] = a :: (b : List (Ev D)) := by cases evsItems xs <;> simp
      simp only [frameOf, evs, shapeA, hab]
      rw [runQ_leaf]; simp [feed1, leafRes, runQ_nil]
    | obj ms =>
      obtain ⟨a, b, hab⟩ : ∃ a b, evsMembers ms ++ [Ev.objE] = a :: (b : List (Ev D)) := by cases evsMembers ms <;> simp
      simp only [frameOf, evs, shapeA, hab]
      rw [runQ_leaf]; simp [feed1, leafRes, runQ_nil]
  | arr items =>
    cases d with
    | lit dk =>
      simp only [frameOf, evs, shapeA]
      rw [runQ_leaf]; simp [feed1, leafRes, runQ_nil]
    | arr xs =>
      have h := items_T items xs 0
      obtain ⟨a, b, hab⟩ : ∃ a b, evsItems xs ++ [Ev.arrE] = a :: (b : List (Ev D)) := by cases evsItems xs <;> simp
      simp only [frameOf, evs, shapeA]
      rw [hab, runQ_leaf]
      simp only [feed1, leafRes, Bool.false_eq_true, if_false]
      rw [← hab]; exact h
    | obj ms =>
      obtain ⟨a, b, hab⟩ : ∃ a b, evsMembers ms ++ [Ev.objE] = a :: (b : List (Ev D)) := by cases evsMembers ms <;> simp
      simp only [frameOf, evs, shapeA, hab]
      rw [runQ_leaf]; simp [feed1, leafRes, runQ_nil]
  | obj props shorts add =>
    cases d with
    | lit dk =>
      simp only [frameOf, evs, shapeA]
      rw [runQ_leaf]; simp [feed1, leafRes, runQ_nil]
    | arr xs =>
      obtain ⟨a, b, hab⟩ : ∃ a b, evsItems xs ++ [Ev.arrE] = a :: (b : List (Ev D)) := by cases evsItems xs <;> simp
      simp only [frameOf, evs, shapeA, hab]
      rw [runQ_leaf]; simp [feed1, leafRes, runQ_nil]
    | obj ms =>
      have h := members_T props shorts add ms (requiredKeys props ++ (requiredKeys shorts).map ("@" ++ ·)) [] none
      obtain ⟨a, b, hab⟩ : ∃ a b, evsMembers ms ++ [Ev.objE] = a :: (b : List (Ev D)) := by cases evsMembers ms <;> simp
      simp only [frameOf, evs, shapeA]
      rw [hab, runQ_leaf]
      simp only [feed1, leafRes, Bool.false_eq_true, if_false]
      rw [← hab]; exact h
termination_by (sizeOf d, 0, 0)
/-- a list of alternatives over one value -/
theorem alts_T (as : List (S L)) (d : J D) :
    runQ env litOK keyOK ((as.map frameOf).map leafT) (evs d) = some ([], as.any (fun a => shapeA env litOK keyOK a d)) := by
  cases as with
  | nil => simp [runQ_nil]
  | cons a as =>
    have h1 := alt_T a d
    have h2 := alts_T as d
    have : ((a :: as).map frameOf).map leafT = [leafT (frameOf a)] ++ (as.map frameOf).map leafT := rfl
    rw [this, runQ_group_append, h1, h2]
    simp
termination_by (sizeOf d, 1, as.length)
theorem items_T (items : List (S L)) (xs : List (J D)) (c : Nat) :
    runQ env litOK keyOK [leafT (.arr items c)] (evsItems xs ++ [.arrE]) = some ([], shapeItems env litOK keyOK items c xs) := by
  cases xs with
  | nil =>
    simp only [evsItems, List.nil_append, shapeItems]
    rw [runQ_leaf_last]; simp [feed1, leafRes]
  | cons x xs =>
    obtain ⟨a, b, hab⟩ := evs_cons x
    simp only [evsItems, List.cons_append, List.append_assoc, shapeItems]
    cases hc : childAt items c with
    | none =>
      rw [hab]; simp only [List.cons_append]
      rw [runQ_leaf]; simp [feed1, hc, leafRes, runQ_nil]
    | some s =>
      have hv : runQ env litOK keyOK ((heads env s).map leafT) (evs x) = some ([], shape env litOK keyOK s x) := alts_T (alts env s) x
      have hp := position_run env litOK keyOK (.arr items (c+1)) (heads env s) (shape env litOK keyOK s x) x .itemE (evsItems xs ++ [.arrE]) hv
      have h2 := items_T items xs (c+1)
      have hstep : runQ env litOK keyOK [leafT (Frame.arr items c)] (Ev.itemB :: (evs x ++ Ev.itemE :: (evsItems xs ++ [Ev.arrE])))
          = runQ env litOK keyOK (leafRes (FeedRes.kids (.arr items (c+1)) (heads env s))).1 (evs x ++ Ev.itemE :: (evsItems xs ++ [Ev.arrE])) := by
        rw [hab]; simp only [List.cons_append]
        rw [runQ_leaf]; simp [feed1, hc, leafRes]
      rw [hstep, hp]
      have hsh : shape env litOK keyOK s x = (alts env s).any (fun a => shapeA env litOK keyOK a x) := rfl
      cases hs : shape env litOK keyOK s x with
      | false => rw [hsh] at hs; simp [hs]
      | true =>
        rw [hsh] at hs
        simp only [hs, if_true, Bool.true_and]
        obtain ⟨a2, b2, hab2⟩ : ∃ a b, evsItems xs ++ [Ev.arrE] = a :: (b : List (Ev D)) := by cases evsItems xs <;> simp
        rw [hab2, runQ_leaf]
        simp only [feed1, leafRes, Bool.false_eq_true, if_false]
        rw [← hab2]; exact h2
termination_by (sizeOf xs, 0, 0)
theorem members_T (props shorts : List (String × Bool × S L)) (add : AddMode L) (ms : List (String × J D))
    (req used : List String) (last : Option String) :
    runQ env litOK keyOK [leafT (.obj props shorts add req used last)] (evsMembers ms ++ [.objE])
      = some ([], shapeMembers env litOK keyOK props shorts add req used ms) := by
  cases ms with
  | nil =>
    simp only [evsMembers, List.nil_append, shapeMembers]
    rw [runQ_leaf_last]
    cases req <;> simp [feed1, leafRes]
  | cons m ms =>
    obtain ⟨k, v⟩ := m
    obtain ⟨a, b, hab⟩ := evs_cons v
    -- the validators of this value, the frame that waits for them, and what the spec does with the rest
    have hpos : ∃ (hs : List (Frame L)) (bv : Bool) (req' used' : List String),
        feed1 env litOK keyOK (Frame.obj props shorts add (req.filter (· != k)) used (some k)) (Ev.valB : Ev D)
          = FeedRes.kids (.obj props shorts add req' used' (some k)) hs ∧
        runQ env litOK keyOK (hs.map leafT) (evs v) = some ([], bv) ∧
        shapeMembers env litOK keyOK props shorts add req used ((k, v) :: ms)
          = (bv && shapeMembers env litOK keyOK props shorts add req' used' ms) := by
      cases hl : lookup props k with
      | some s =>
        refine ⟨heads env s, shape env litOK keyOK s v, req.filter (· != k), used, by simp [feed1, hl],
          alts_T (alts env s) v, ?_⟩
        simp only [shapeMembers]; rw [hl]; rfl
      | none =>
        cases hp : pickShort keyOK shorts used k with
        | some sc =>
          refine ⟨heads env sc.2.2, shape env litOK keyOK sc.2.2 v, (req.filter (· != k)).filter (· != "@" ++ sc.1),
            sc.1 :: used, ?_, alts_T (alts env sc.2.2) v, ?_⟩
          · unfold pickShort at hp
            simp only [feed1, hl, hp]
          · simp only [shapeMembers]; rw [hl]; simp only [hp]; rfl
        | none =>
          refine ⟨addHeads env add, shapeAdd env litOK keyOK add v, req.filter (· != k), used, ?_,
            add_run env litOK keyOK add v (fun l => alt_T (.lit l) v) (fun n => alts_T (alts env (.ref [n] none)) v), ?_⟩
          · unfold pickShort at hp
            simp only [feed1, hl, hp]
          · simp only [shapeMembers]; rw [hl]; simp only [hp]; rfl
    obtain ⟨hs, bv, req', used', hfeed, hv, hshape⟩ := hpos
    have h2 := members_T props shorts add ms req' used' (some k)
    have hp := position_run env litOK keyOK (.obj props shorts add req' used' (some k)) hs bv v .valE
      (evsMembers ms ++ [.objE]) hv
    simp only [evsMembers, List.cons_append, List.append_assoc]
    rw [runQ_leaf]
    simp only [feed1, leafRes, Bool.false_eq_true, if_false]
    rw [runQ_leaf]
    simp only [feed1, leafRes, Bool.false_eq_true, if_false]
    have hstep : runQ env litOK keyOK [leafT (Frame.obj props shorts add (req.filter (· != k)) used (some k))]
          (Ev.valB :: (evs v ++ Ev.valE :: (evsMembers ms ++ [Ev.objE])))
        = runQ env litOK keyOK (leafRes (FeedRes.kids (.obj props shorts add req' used' (some k)) hs)).1
            (evs v ++ Ev.valE :: (evsMembers ms ++ [Ev.objE])) := by
      rw [hab]; simp only [List.cons_append]
      rw [runQ_leaf, hfeed]; simp [leafRes]
    rw [hstep, hp, hshape]
    cases bv with
    | false => simp
    | true =>
      simp only [if_true, Bool.true_and]
      obtain ⟨a2, b2, hab2⟩ : ∃ a b, evsMembers ms ++ [Ev.objE] = a :: (b : List (Ev D)) := by cases evsMembers ms <;> simp
      rw [hab2, runQ_leaf]
      simp only [feed1, leafRes, Bool.false_eq_true, if_false]
      rw [← hab2, h2]
termination_by (sizeOf ms, 0, 0)
end

/-- **C03/C09** with named, possibly recursive types: the shared-parent validator tree accepts exactly the union
over the alternatives `NodeValidatorList` builds at every position -/
theorem C03_key_shortcuts (s : S L) (d : J D) : validateT env litOK keyOK s d = shape env litOK keyOK s d := by
  unfold validateT
  have : runQ env litOK keyOK ((heads env s).map leafT) (evs d) = some ([], shape env litOK keyOK s d) := alts_T env litOK keyOK (alts env s) d
  rw [this]

#print axioms C03_key_shortcuts

end VK
