import JSight.SchemaHelpers
/-! Leaf transitions of the comment and annotation states, and of `endTop`. -/
namespace SchemaScan

theorem popRet_spec {s : Sc} {r ret'} (h : s.ret = r :: ret') :
    OKRes (fun v => v = (r, { s with ret := ret' })) (popRet s) := by
  unfold popRet; rw [h]; rfl

theorem St.annRet_not_guard {r : St} (h : r.annRet = true) : r.isGuard = false := by
  cases r <;> first | rfl | simp [St.annRet] at h

theorem anyCommentStart_ok {f s c p1 p2} (h : InvAt .anyCommentStart s) :
    OKRes Inv (dispatch (f+1) .anyCommentStart s c p1 p2) := by
  obtain ⟨eff, hE, hG⟩ := h
  obtain ⟨r, ret', hret, hrc, hGr⟩ := hG.comment_inv rfl
  unfold dispatch; dsimp only
  simp only [bind, Except.bind, pure, Except.pure]
  split
  · split
    · refine OKRes.bind (popRet_spec hret) ?_
      rintro _ rfl
      exact ⟨_, Eff_found hE rfl rfl, hGr⟩
    · refine ⟨_, hE, ?_⟩
      show Good .inlineComment eff s.ret
      rw [hret]; exact Good.comment rfl hrc hGr
  · split
    · refine ⟨_, hE, ?_⟩
      show Good .multiLineComment eff s.ret
      rw [hret]; exact Good.comment rfl hrc hGr
    · rfl

theorem inlineComment_ok {f s c p1 p2} (h : InvAt .inlineComment s) (hs : StepOK .inlineComment s c) :
    OKRes Inv (dispatch (f+1) .inlineComment s c p1 p2) := by
  obtain ⟨eff, hE, hG⟩ := h
  have hK := Good.keep hs hG
  obtain ⟨r, ret', hret, hrc, hGr⟩ := hG.comment_inv rfl
  unfold dispatch; dsimp only
  simp only [bind, Except.bind, pure, Except.pure]
  split
  · refine OKRes.bind (popRet_spec hret) ?_
    rintro _ rfl
    exact ⟨_, Eff_found hE rfl rfl, hGr⟩
  · exact ⟨_, hE, hK⟩

theorem multiLineComment_ok {f s c p1 p2} (h : InvAt .multiLineComment s)
    (hs : StepOK .multiLineComment s c) :
    OKRes Inv (dispatch (f+1) .multiLineComment s c p1 p2) := by
  obtain ⟨eff, hE, hG⟩ := h
  have hK := Good.keep hs hG
  obtain ⟨r, ret', hret, hrc, hGr⟩ := hG.comment_inv rfl
  unfold dispatch; dsimp only
  simp only [bind, Except.bind, pure, Except.pure]
  split
  · refine OKRes.bind (popRet_spec hret) ?_
    rintro _ rfl
    exact ⟨_, hE, hGr⟩
  · exact ⟨_, hE, hK⟩

theorem anyAnnStart_ok {f s c p1 p2} (h : InvAt .anyAnnStart s) :
    OKRes Inv (dispatch (f+1) .anyAnnStart s c p1 p2) := by
  obtain ⟨eff, hE, hG⟩ := h
  obtain ⟨r, ret', hret, hr, hGr⟩ := hG.pend_inv rfl
  have h1 : Good .inlAnn (.inlAnnB :: eff) s.ret := by rw [hret]; exact Good.inl rfl hr hGr
  have h2 : Good .mlAnn (.mlAnnB :: eff) s.ret := by rw [hret]; exact Good.ml rfl hr hGr
  unfold dispatch; dsimp only
  cases c <;> first | rfl | exact ⟨_, Eff_found hE rfl rfl, h1⟩ | exact ⟨_, Eff_found hE rfl rfl, h2⟩

theorem inlAnnStart_ok {f s c p1 p2} (h : InvAt .inlAnnStart s) :
    OKRes Inv (dispatch (f+1) .inlAnnStart s c p1 p2) := by
  obtain ⟨eff, hE, hG⟩ := h
  obtain ⟨r, ret', hret, hr, hGr⟩ := hG.pend_inv rfl
  have h1 : Good .inlAnn (.inlAnnB :: eff) s.ret := by rw [hret]; exact Good.inl rfl hr hGr
  unfold dispatch; dsimp only
  split
  · rfl
  · exact ⟨_, Eff_found hE rfl rfl, h1⟩

theorem inlTxtPrefix_ok {f s c p1 p2} (h : InvAt .inlTxtPrefix s) (hs : StepOK .inlTxtPrefix s c) :
    OKRes Inv (dispatch (f+1) .inlTxtPrefix s c p1 p2) := by
  obtain ⟨eff, hE, hG⟩ := h
  have hK := Good.keep hs hG
  obtain ⟨r, σ, ret', rfl, hret, hr, hGr⟩ := hG.inl_inv rfl
  unfold dispatch; dsimp only
  simp only [bind, Except.bind, pure, Except.pure]
  split
  · exact ⟨_, hE, hK⟩
  split
  · refine OKRes.bind (popRet_spec (s := found (found s .inlAnnE) .newLine) hret) ?_
    rintro _ rfl
    have hE' : Eff (found (found s .inlAnnE) .newLine) σ := Eff_found (Eff_found hE rfl rfl) rfl rfl
    dsimp only
    split
    · exact ⟨_, hE', hGr⟩
    · exact ⟨_, hE', hGr⟩
  split
  · exact swCom_ok hs hE hG rfl
  split
  · refine ⟨_, hE, ?_⟩
    show Good .inlTxtPrefix2 _ s.ret
    rw [hret]; exact Good.inl rfl hr hGr
  · rfl

theorem inlTxt_ok {f s c p1 p2} (h : InvAt .inlTxt s) (hs : StepOK .inlTxt s c) :
    OKRes Inv (dispatch (f+1) .inlTxt s c p1 p2) := by
  obtain ⟨eff, hE, hG⟩ := h
  have hK := Good.keep hs hG
  obtain ⟨r, σ, ret', rfl, hret, hr, hGr⟩ := hG.inlTxt_inv
  have hE2 : Eff (found (found s .inlTxtE) .inlAnnE) σ := Eff_found (Eff_found hE rfl rfl) rfl rfl
  unfold dispatch; dsimp only
  simp only [bind, Except.bind, pure, Except.pure]
  split
  · refine OKRes.bind (popRet_spec (s := found (found (found s .inlTxtE) .inlAnnE) .newLine) hret) ?_
    rintro _ rfl
    have hE' : Eff (found (found (found s .inlTxtE) .inlAnnE) .newLine) σ := Eff_found hE2 rfl rfl
    have hg := Good.guard (St.annRet_not_guard hr) hGr
    dsimp only
    split
    · exact ⟨_, hE', hg⟩
    · exact ⟨_, hE', hg⟩
  split
  · split
    · refine ⟨_, hE2, ?_⟩
      show Good .inlTxtSkip σ s.ret
      rw [hret]; exact Good.pend rfl hr hGr
    · exact ⟨_, hE, hK⟩
  · exact ⟨_, hE, hK⟩

theorem inlTxtSkip_ok {f s c p1 p2} (h : InvAt .inlTxtSkip s) (hs : StepOK .inlTxtSkip s c) :
    OKRes Inv (dispatch (f+1) .inlTxtSkip s c p1 p2) := by
  obtain ⟨eff, hE, hG⟩ := h
  have hK := Good.keep hs hG
  obtain ⟨r, ret', hret, hr, hGr⟩ := hG.pend_inv rfl
  unfold dispatch; dsimp only
  simp only [bind, Except.bind, pure, Except.pure]
  split
  · exact ⟨_, hE, hK⟩
  · refine OKRes.bind (popRet_spec (s := found s .newLine) hret) ?_
    rintro _ rfl
    have hE' : Eff (found s .newLine) eff := Eff_found hE rfl rfl
    have hg := Good.guard (St.annRet_not_guard hr) hGr
    dsimp only
    split
    · exact ⟨_, hE', hg⟩
    · exact ⟨_, hE', hg⟩

theorem mlTxtPrefix_ok {f s c p1 p2} (h : InvAt .mlTxtPrefix s) (hs : StepOK .mlTxtPrefix s c) :
    OKRes Inv (dispatch (f+1) .mlTxtPrefix s c p1 p2) := by
  obtain ⟨eff, hE, hG⟩ := h
  have hK := Good.keep hs hG
  obtain ⟨r, σ, ret', rfl, hret, hr, hGr⟩ := hG.ml_inv rfl
  unfold dispatch; dsimp only
  simp only [bind, Except.bind, pure, Except.pure]
  split
  · exact ⟨_, Eff_found hE rfl rfl, hK⟩
  split
  · exact ⟨_, hE, hK⟩
  split
  · exact swCom_ok hs hE hG rfl
  split
  · refine ⟨_, hE, ?_⟩
    show Good .mlAnnEnd _ s.ret
    rw [hret]; exact Good.ml rfl hr hGr
  split
  · refine ⟨_, hE, ?_⟩
    show Good .mlTxtPrefix2 _ s.ret
    rw [hret]; exact Good.ml rfl hr hGr
  · rfl

theorem mlAnnEnd_ok {f s c p1 p2} (h : InvAt .mlAnnEnd s) :
    OKRes Inv (dispatch (f+1) .mlAnnEnd s c p1 p2) := by
  obtain ⟨eff, hE, hG⟩ := h
  obtain ⟨r, σ, ret', rfl, hret, hr, hGr⟩ := hG.ml_inv rfl
  unfold dispatch; dsimp only
  simp only [bind, Except.bind, pure, Except.pure]
  split
  · rfl
  · refine OKRes.bind (popRet_spec (s := found { s with ann := .none } .mlAnnE) hret) ?_
    rintro _ rfl
    exact ⟨_, Eff_found (s := { s with ann := .none }) hE rfl rfl, hGr⟩

theorem mlTxt_ok {f s c p1 p2} (h : InvAt .mlTxt s) (hs : StepOK .mlTxt s c) :
    OKRes Inv (dispatch (f+1) .mlTxt s c p1 p2) := by
  obtain ⟨eff, hE, hG⟩ := h
  have hK := Good.keep hs hG
  obtain ⟨r, σ, ret', rfl, hret, hr, hGr⟩ := hG.mlTxt_inv
  unfold dispatch; dsimp only
  split
  · refine ⟨_, Eff_found hE rfl rfl, ?_⟩
    show Good .mlAnnEnd _ s.ret
    rw [hret]; exact Good.ml rfl hr hGr
  · exact ⟨_, hE, hK⟩

theorem endTop_ok {f s c p1 p2} (h : InvAt .endTop s) (hs : StepOK .endTop s c) :
    OKRes Inv (dispatch (f+1) .endTop s c p1 p2) := by
  obtain ⟨eff, hE, hG⟩ := h
  have hK := Good.keep hs hG
  unfold dispatch; dsimp only
  simp only [bind, Except.bind, pure, Except.pure]
  split
  · exact ⟨_, Eff_found hE rfl rfl, hK⟩
  rcases isNewLineM_cases s c with hn | ⟨e, hn, he⟩ <;> simp only [hn]
  · split
    · exact ⟨_, Eff_found hE rfl rfl, hK⟩
    split
    · exact swAnn_ok hs ‹_› hE hG rfl
    split
    · exact swCom_ok hs hE hG rfl
    split
    · split
      · split
        · exact ⟨_, hE, hK⟩
        · exact ⟨_, Eff_found hE rfl rfl, hK⟩
      · split
        · rfl
        · exact ⟨_, hE, hK⟩
    · exact ⟨_, hE, hK⟩
  · exact he

end SchemaScan
