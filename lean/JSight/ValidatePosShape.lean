import JSight.ValidatePosProofs
import JSight.ValidateN
/-!
Consistency of the position spec with C01: `firstOffence` finds nothing exactly when the document (layout
stripped, keys decoded) has the shape of the schema in the sense of `VN.shape` — the spec of `C01_with_alternatives`
(every position is the union of its alternatives; a nullable container is `container | null`).
-/
namespace VPos

variable {α L : Type}

mutual
def toVN : S L → VN.S L
  | .any => .any
  | .lits ls => .alt (ls.map .lit)
  | .arr ls items => .alt (.arr (toVNItems items) :: ls.map .lit)
  | .obj ls props => .alt (.obj (toVNProps props) :: ls.map .lit)
def toVNItems : List (S L) → List (VN.S L)
  | [] => []
  | s :: ss => toVN s :: toVNItems ss
def toVNProps : List (String × Bool × S L) → List (String × Bool × VN.S L)
  | [] => []
  | (k, r, s) :: ps => (k, r, toVN s) :: toVNProps ps
end

mutual
/-- the document without layout, keys decoded -/
def strip (unq : List α → String) : T α → VN.J (List α)
  | .scalar tok => .lit tok
  | .arr _ its => .arr (stripItems unq its)
  | .obj _ ms => .obj (stripMembers unq ms)
def stripItems (unq : List α → String) : List (List α × T α × List α) → List (VN.J (List α))
  | [] => []
  | (_, v, _) :: its => strip unq v :: stripItems unq its
def stripMembers (unq : List α → String) : List (List α × List α × List α × List α × T α × List α) → List (String × VN.J (List α))
  | [] => []
  | (_, k, _, _, v, _) :: ms => (unq k, strip unq v) :: stripMembers unq ms
end

/-- the literal validators as a verdict -/
def litOKof (p : P α L) (l : L) (tok : List α) : Bool := (p.litErr l tok).isNone

theorem shapeAlts_lits_scalar (litOK : L → List α → Bool) (ls : List L) (tok : List α) :
    VN.shapeAlts litOK (ls.map .lit) (.lit tok) = ls.any (fun l => litOK l tok) := by
  induction ls with
  | nil => simp [VN.shapeAlts]
  | cons l ls ih => simp [VN.shapeAlts, VN.shape, ih]

theorem shapeAlts_lits_arr (litOK : L → List α → Bool) (ls : List L) (xs : List (VN.J (List α))) :
    VN.shapeAlts litOK (ls.map .lit) (.arr xs) = false := by
  induction ls with
  | nil => simp [VN.shapeAlts]
  | cons l ls ih => simp [VN.shapeAlts, VN.shape, ih]

theorem shapeAlts_lits_obj (litOK : L → List α → Bool) (ls : List L) (ms : List (String × VN.J (List α))) :
    VN.shapeAlts litOK (ls.map .lit) (.obj ms) = false := by
  induction ls with
  | nil => simp [VN.shapeAlts]
  | cons l ls ih => simp [VN.shapeAlts, VN.shape, ih]

theorem litsOffence_isNone (p : P α L) (ls : List L) (tok : List α) (o : Nat) :
    (litsOffence p ls tok o).isNone = ls.any (fun l => litOKof p l tok) := by
  unfold litsOffence litOKof
  split
  · simp
  · cases ls.any (fun l => (p.litErr l tok).isNone) <;> rfl

theorem toVNItems_eq_map (items : List (S L)) : toVNItems items = items.map toVN := by
  induction items with
  | nil => rfl
  | cons s ss ih => simp [toVNItems, ih]

theorem childAt_toVN (items : List (S L)) (i : Nat) :
    VN.childAt (toVNItems items) i = (childAt items i).map toVN := by
  cases items with
  | nil => rfl
  | cons s ss =>
    rw [toVNItems_eq_map]
    simp only [VN.childAt, childAt, List.map_cons, List.length_cons, List.length_map]
    rw [← List.map_cons, List.getElem?_map]

theorem lookup_toVN (props : List (String × Bool × S L)) (k : String) :
    VN.lookup (toVNProps props) k = (lookup props k).map toVN := by
  induction props with
  | nil => rfl
  | cons pr ps ih =>
    obtain ⟨k', r, s⟩ := pr
    unfold VN.lookup lookup at ih ⊢
    simp only [toVNProps, List.find?_cons]
    cases h : k' == k
    · simpa using ih
    · simp

theorem requiredKeys_toVN (props : List (String × Bool × S L)) :
    VN.requiredKeys (toVNProps props) = requiredKeys props := by
  induction props with
  | nil => rfl
  | cons pr ps ih =>
    obtain ⟨k', r, s⟩ := pr
    unfold VN.requiredKeys requiredKeys at ih ⊢
    simp only [toVNProps, List.filter_cons]
    cases r <;> simp [ih]

theorem any_strip (unq : List α → String) (ms : List (List α × List α × List α × List α × T α × List α)) (k : String) :
    (stripMembers unq ms).any (fun m => m.1 == k) = hasKey unq ms k := by
  induction ms with
  | nil => rfl
  | cons m ms ih =>
    obtain ⟨w1, k', w2, w3, v, w4⟩ := m
    unfold hasKey at ih ⊢
    simp [stripMembers, ih]

mutual
theorem shape_value (p : P α L) (s : S L) (d : T α) (o : Nat) :
    (firstOffence p s o d).isNone = VN.shape (litOKof p) (toVN s) (strip p.unq d) := by
  cases s with
  | any => simp [firstOffence, toVN, VN.shape]
  | lits ls =>
    cases d with
    | scalar tok => simp [firstOffence, toVN, strip, VN.shape, shapeAlts_lits_scalar, litsOffence_isNone]
    | arr ws0 its => simp [firstOffence, toVN, strip, VN.shape, shapeAlts_lits_arr]
    | obj ws0 ms => simp [firstOffence, toVN, strip, VN.shape, shapeAlts_lits_obj]
  | arr ls items =>
    cases d with
    | scalar tok =>
      cases ls with
      | nil => simp [firstOffence, toVN, strip, VN.shape, VN.shapeAlts]
      | cons l ls' =>
        simp only [firstOffence, toVN, strip, VN.shape, VN.shapeAlts, List.isEmpty_cons, cond_false, Bool.false_or,
          shapeAlts_lits_scalar, litsOffence_isNone]
    | obj ws0 ms => simp [firstOffence, toVN, strip, VN.shape, VN.shapeAlts, shapeAlts_lits_obj]
    | arr ws0 its =>
      have h := shape_items p items its 0 (o + 1 + ws0.length)
      simp [firstOffence, toVN, strip, VN.shape, VN.shapeAlts, shapeAlts_lits_arr, h]
  | obj ls props =>
    cases d with
    | scalar tok =>
      cases ls with
      | nil => simp [firstOffence, toVN, strip, VN.shape, VN.shapeAlts]
      | cons l ls' =>
        simp only [firstOffence, toVN, strip, VN.shape, VN.shapeAlts, List.isEmpty_cons, cond_false, Bool.false_or,
          shapeAlts_lits_scalar, litsOffence_isNone]
    | arr ws0 its => simp [firstOffence, toVN, strip, VN.shape, VN.shapeAlts, shapeAlts_lits_arr]
    | obj ws0 ms =>
      have h := shape_members p props ms (o + 1 + ws0.length)
      have hreq : (VN.requiredKeys (toVNProps props)).all (fun k => (stripMembers p.unq ms).any (fun m => m.1 == k))
          = (requiredKeys props).all (hasKey p.unq ms) := by
        rw [requiredKeys_toVN]; congr 1; funext k; exact any_strip p.unq ms k
      have hspec : (firstOffence p (.obj ls props) o (.obj ws0 ms)).isNone
          = ((offMembers p props (o + 1 + ws0.length) ms).isNone && (requiredKeys props).all (hasKey p.unq ms)) := by
        simp only [firstOffence]
        cases offMembers p props (o + 1 + ws0.length) ms with
        | some x => rfl
        | none => cases (requiredKeys props).all (hasKey p.unq ms) <;> rfl
      rw [hspec, h]
      simp [toVN, strip, VN.shape, VN.shapeAlts, shapeAlts_lits_obj, hreq]
theorem shape_items (p : P α L) (items : List (S L)) (its : List (List α × T α × List α)) (i o : Nat) :
    (offItems p items i o its).isNone = VN.shapeItems (litOKof p) (toVNItems items) i (stripItems p.unq its) := by
  cases its with
  | nil => simp [offItems, stripItems, VN.shapeItems]
  | cons it its =>
    obtain ⟨w1, v, w2⟩ := it
    simp only [offItems, stripItems, VN.shapeItems, childAt_toVN]
    cases hc : childAt items i with
    | none => simp
    | some s =>
      have h1 := shape_value p s v (o + w1.length)
      have h2 := shape_items p items its (i + 1) (o + w1.length + v.len + w2.length + (if its.isEmpty then 0 else 1))
      simp only [Option.map_some]
      rw [← h1, ← h2]
      cases firstOffence p s (o + w1.length) v <;> simp
theorem shape_members (p : P α L) (props : List (String × Bool × S L))
    (ms : List (List α × List α × List α × List α × T α × List α)) (o : Nat) :
    (offMembers p props o ms).isNone = VN.shapeMembers (litOKof p) (toVNProps props) (stripMembers p.unq ms) := by
  cases ms with
  | nil => simp [offMembers, stripMembers, VN.shapeMembers]
  | cons m ms =>
    obtain ⟨w1, k, w2, w3, v, w4⟩ := m
    simp only [offMembers, stripMembers, VN.shapeMembers, lookup_toVN]
    cases hl : lookup props (p.unq k) with
    | none => simp
    | some s =>
      have h1 := shape_value p s v (o + w1.length + k.length + w2.length + 1 + w3.length)
      have h2 := shape_members p props ms (o + w1.length + k.length + w2.length + 1 + w3.length + v.len + w4.length
          + (if ms.isEmpty then 0 else 1))
      simp only [Option.map_some]
      rw [← h1, ← h2]
      cases firstOffence p s (o + w1.length + k.length + w2.length + 1 + w3.length) v <;> simp
end

end VPos
