import JSight.BridgeCRStep
/-!
Bridge (A)∩(B): the annotation-reading phase of the two models agrees on every node of the common class
(`creation_agree`): same verdict, same first error code, and when both accept, (B)'s constraint map holds a
constraint exactly for the rule names (A) has seen — the starting point of the two `compileNode` models.
-/
namespace BridgeCR
open Compile

local macro "lit_head" : tactic => `(tactic| (
  rw [ruleOf_lit _ _ _ _ (by decide) (by decide) (by decide), loadRule_lit _ _ _ _ _ (by decide) (by decide) (by decide)]
  simp only [CR.mkLit, ofBytes_rbytes]
  names_simp))

section
variable (k : Loader.NK) (c : CR.Ctx) (env : CR.Env) (seen : List Bytes) (m : CR.CMap) (v : Bytes) (pos npos : Nat)

abbrev mk (rn : CR.RName) (v : Bytes) (pos npos : Nat) : Rule :=
  { name := rbytes rn, gen := false, val := some v, pos := pos, npos := npos }

abbrev Goal (k : Loader.NK) (c : CR.Ctx) (env : CR.Env) (seen : List Bytes) (m : CR.CMap) (r : Rule) : Prop :=
  StepOK seen r.name (createRule k seen r) (CR.loadRule env c m (ruleOf r))

theorem step_num (rn : CR.RName) (h : rn = .min ∨ rn = .max) (hI : Inv seen m) : Goal k c env seen m (mk rn v pos npos) := by
  rcases h with h | h <;> subst h <;> unfold Goal mk
  all_goals
    lit_head
    cases hp : RulesF.number v with
    | none => simp [StepOK, bind_err]
    | some x =>
      rw [bind_ok]
      first
        | (rw [addC_base c m .min _ (Or.inr ⟨by decide, by decide⟩)]; exact dup_step seen m .min (by decide) _ pos hI)
        | (rw [addC_base c m .max _ (Or.inr ⟨by decide, by decide⟩)]; exact dup_step seen m .max (by decide) _ pos hI)

theorem step_bool (rn : CR.RName)
    (h : rn = .exclusiveMinimum ∨ rn = .exclusiveMaximum ∨ rn = .optional ∨ rn = .nullable ∨ rn = .const)
    (hI : Inv seen m) : Goal k c env seen m (mk rn v pos npos) := by
  rcases h with h | h | h | h | h <;> subst h <;> unfold Goal mk
  all_goals
    lit_head
    simp only [parseBool_eq]
    cases hp : CR.parseBool v with
    | none => simp [StepOK, bind_err]
    | some x =>
      rw [bind_ok]
      first
        | (rw [addC_base c m .exclusiveMinimum _ (Or.inr ⟨by decide, by decide⟩)]; exact dup_step seen m .exclusiveMinimum (by decide) _ pos hI)
        | (rw [addC_base c m .exclusiveMaximum _ (Or.inr ⟨by decide, by decide⟩)]; exact dup_step seen m .exclusiveMaximum (by decide) _ pos hI)
        | (rw [addC_base c m .optional _ (Or.inr ⟨by decide, by decide⟩)]; exact dup_step seen m .optional (by decide) _ pos hI)
        | (rw [addC_base c m .nullable _ (Or.inr ⟨by decide, by decide⟩)]; exact dup_step seen m .nullable (by decide) _ pos hI)
        | (rw [addC_base c m .const _ (Or.inr ⟨by decide, by decide⟩)]; exact dup_step seen m .const (by decide) _ pos hI)

theorem step_len (rn : CR.RName) (h : rn = .minLength ∨ rn = .maxLength) (hlen : v.length ≤ 18) (hI : Inv seen m) :
    Goal k c env seen m (mk rn v pos npos) := by
  have hgt : ¬ (v.length > 18) := by omega
  rcases h with h | h <;> subst h <;> unfold Goal mk
  all_goals
    lit_head
    simp only [parseUint_eq v hlen, hgt, if_false]
    cases hp : Compile.parseUint v with
    | none => simp [StepOK, bind_err]
    | some x =>
      rw [bind_ok]
      first
        | (rw [addC_base c m .minLength _ (Or.inr ⟨by decide, by decide⟩)]; exact dup_step seen m .minLength (by decide) _ pos hI)
        | (rw [addC_base c m .maxLength _ (Or.inr ⟨by decide, by decide⟩)]; exact dup_step seen m .maxLength (by decide) _ pos hI)

theorem step_precision (hlen : v.length ≤ 18) (hI : Inv seen m) : Goal k c env seen m (mk .precision v pos npos) := by
  have hgt : ¬ (v.length > 18) := by omega
  unfold Goal mk
  lit_head
  simp only [parseUint_eq v hlen, hgt, if_false]
  cases hp : Compile.parseUint v with
  | none => simp [StepOK, bind_err]
  | some x =>
    by_cases hx : x = 0
    · simp [hx, StepOK, bind_err]
    · simp only [hx, if_false, bind_ok]
      rw [addC_base c m .precision _ (Or.inr ⟨by decide, by decide⟩)]
      exact dup_step seen m .precision (by decide) _ pos hI

theorem step_type (hkf : k ≠ Loader.NK.mixed) (hcls : c.cls ≠ .mixedValue) (hI : Inv seen m) :
    Goal k c env seen m (mk .type v pos npos) := by
  unfold Goal mk
  lit_head
  simp only [hkf, if_false, bind_ok]
  rw [addC_base c m .type _ (Or.inl hcls)]
  exact dup_step seen m .type (by decide) _ pos hI

theorem step_addProps (hI : Inv seen m) : Goal k c env seen m (mk .additionalProperties v pos npos) := by
  unfold Goal mk
  lit_head
  have hok := parseAdd_ok v
  rw [← addPropsOK_eq] at hok
  cases hp : parseAdd v with
  | ok a =>
    rw [hp] at hok
    simp only [← hok, okE, if_true, bind_ok]
    rw [addC_base c m .additionalProperties _ (Or.inr ⟨by decide, by decide⟩)]
    exact dup_step seen m .additionalProperties (by decide) _ pos hI
  | error e =>
    have := parseAdd_err v e hp
    subst this
    rw [hp] at hok
    simp [← hok, okE, StepOK, bind_err]

theorem step_or (hkf : k ≠ Loader.NK.mixed) (hcls : c.cls ≠ .mixedValue) (items : List Bytes)
    (hs : scalarItems v = some items)
    (hu : (items.all fun it => !Unquote.inQuotes it || isUserTypeName (unq it)) = true)
    (hI : Inv seen m) : Goal k c env seen m (mk .or v pos npos) := by
  unfold Goal mk
  have hro : ruleOf { name := rbytes .or, gen := false, val := some v, pos := pos, npos := npos }
      = (CR.n_or, .arr (items.map .lit)) := by
    simp [ruleOf, valOf, rbytes, sb_or, hs]
  rw [hro]
  unfold CR.loadRule
  simp only [↓reduceIte, addC_base c m .typesList _ (Or.inl hcls)]
  names_simp
  simp only [hkf, if_false, hs, hu, Bool.not_true, Bool.false_eq_true, false_and, and_false]
  have hkb : (k == Loader.NK.mixed) = false := by simpa using hkf
  have hT : m.has .typesList = seen.contains CR.n_or := hI .typesList
  have hO : m.has .or = seen.contains CR.n_or := hI .or
  unfold CR.addBase
  rw [hT]
  cases hc : seen.contains CR.n_or
  · have hc' : seen.contains [111, 114] = false := hc
    simp only [hc', Bool.false_eq_true, ↓reduceIte, bind_ok]
    rw [addC_base c _ .or _ (Or.inl hcls)]
    unfold CR.addBase
    have : (m.set .typesList (.types [])).has .or = false := by rw [has_set, hO, hc]; rfl
    rw [this]
    simp only [Bool.false_eq_true, ↓reduceIte, bind_ok, CR.loadOrValue]
    have hitems := orItems env c items [] hu
    cases hq : items.all Unquote.inQuotes
    · simp only [hq, Bool.false_eq_true, ↓reduceIte] at hitems
      simp [hitems, StepOK, bind_err]
    · simp only [hq, ↓reduceIte] at hitems
      obtain ⟨us', e1, e2⟩ := hitems
      simp only [List.length_nil, Nat.zero_add] at e2
      rw [e1]
      simp only [Bool.not_true, Bool.false_eq_true, ↓reduceIte, bind_ok, e2]
      by_cases h0 : items.length = 0
      · simp [h0, StepOK, bind_err]
      · by_cases h1 : items.length = 1
        · simp [h1, StepOK, bind_err]
        · simp only [h0, h1, hkb, Bool.and_false, Bool.false_eq_true, ↓reduceIte, bind_ok, StepOK]
          refine inv_step seen m _ CR.n_or hI (fun k => ?_)
          rw [has_set, has_set, has_set, ctName_or]
          cases m.has k <;> cases decide (k = CR.CT.or) <;> cases decide (k = CR.CT.typesList) <;> rfl
  · have hc' : seen.contains [111, 114] = true := hc
    simp only [hc', ↓reduceIte, StepOK, bind_err]

theorem step_enum (items : List Bytes) (hs : scalarItems v = some items)
    (hu : (items.all fun it => (RulesF.enumItem it).isSome) = true)
    (hI : Inv seen m) : Goal k c env seen m (mk .enum v pos npos) := by
  unfold Goal mk
  have hro : ruleOf { name := rbytes .enum, gen := false, val := some v, pos := pos, npos := npos }
      = (CR.n_enum, .arr (items.map .lit)) := by
    simp [ruleOf, valOf, rbytes, sb_or, sb_enum, hs]
  rw [hro]
  unfold CR.loadRule
  have ne : CR.n_enum ≠ CR.n_or := by decide
  simp only [ne, ↓reduceIte, addC_base c m .enum _ (Or.inr ⟨by decide, by decide⟩)]
  names_simp
  have hany : (items.any fun it => (RulesF.enumItem it).isNone) = false := by
    rw [List.any_eq_false]
    intro x hx
    have := List.all_eq_true.1 hu x hx
    cases h : RulesF.enumItem x <;> simp_all
  simp only [hs, hany, Bool.false_eq_true, if_false]
  have hE : m.has .enum = seen.contains CR.n_enum := hI .enum
  unfold CR.addBase
  rw [hE]
  cases hc : seen.contains CR.n_enum
  · have hc' : seen.contains [101, 110, 117, 109] = false := hc
    simp only [hc', Bool.false_eq_true, ↓reduceIte, bind_ok, CR.loadEnumValue, enumItems]
    have hn := eraseDups_nodup (items.map RulesF.enumItem).length (items.map RulesF.enumItem) (Nat.le_refl _)
    rw [List.length_map] at hn
    by_cases hd : (items.map RulesF.enumItem).Nodup
    · have hd' : (items.map CR.enumKey).Nodup := hd
      have e := hn.2 hd
      simp only [e, beq_self_eq_true, Bool.not_true, Bool.false_eq_true, ↓reduceIte, List.not_mem_nil, not_false_eq_true,
        implies_true, hd', and_self, bind_ok, StepOK]
      exact inv_step seen m _ (rbytes .enum) hI (fun k => by rw [has_set, ctName_single .enum (by decide)]; rfl)
    · have hd' : ¬ (items.map CR.enumKey).Nodup := hd
      have e : ¬ ((items.map RulesF.enumItem).eraseDups.length = items.length) := fun e => hd (hn.1 e)
      simp [e, hd', StepOK, bind_err]
  · have hc' : seen.contains [101, 110, 117, 109] = true := hc
    simp only [hc', ↓reduceIte, StepOK, bind_err]

end

/-! ### one rule, any name -/

theorem step_agree (k : Loader.NK) (c : CR.Ctx) (env : CR.Env) (seen : List Bytes) (m : CR.CMap) (r : Rule)
    (hI : Inv seen m) (hg : r.gen = false) (hc : ruleCommon r = true)
    (hk : k = Loader.NK.mixed → r.name ≠ CR.n_type ∧ r.name ≠ CR.n_or)
    (hcls : c.cls = .mixedValue → k = Loader.NK.mixed) : Goal k c env seen m r := by
  obtain ⟨name, gen, val, pos, npos⟩ := r
  simp only at hg hk
  subst hg
  cases val with
  | none => simp [ruleCommon] at hc
  | some v =>
  cases hof : CR.RName.ofBytes name with
  | none =>
    have hkn := (ofBytes_none_iff name).1 hof
    have h1 : name ≠ CR.n_or := fun e => by rw [e] at hof; revert hof; decide +kernel
    have h2 : name ≠ CR.n_enum := fun e => by rw [e] at hof; revert hof; decide +kernel
    have h3 : name ≠ CR.n_allOf := fun e => by rw [e] at hof; revert hof; decide +kernel
    have h4 : name ≠ CR.n_type := fun e => by rw [e] at hof; revert hof; decide +kernel
    unfold Goal
    simp only [ruleOf, valOf_lit name false v pos npos h1 h2]
    unfold CR.loadRule createRule
    have b1 : (name == CR.n_type) = false := by simpa using h4
    have b2 : (name == CR.n_or) = false := by simpa using h1
    simp only [sb_type, sb_or, h1, h2, h3, b1, b2, hkn, hof, CR.mkLit, Bool.false_eq_true, ↓reduceIte, Bool.or_self,
      Bool.and_false, Bool.not_false, bind_err, StepOK]
  | some rn =>
    have e := ofBytes_some name rn hof
    subst e
    have hkm : k = Loader.NK.mixed → rn ≠ .type ∧ rn ≠ .or := fun h =>
      ⟨fun e => (hk h).1 (by rw [e]; rfl), fun e => (hk h).2 (by rw [e]; rfl)⟩
    have hcm : rn = .type ∨ rn = .or → k ≠ Loader.NK.mixed ∧ c.cls ≠ .mixedValue := fun h => by
      have : k ≠ Loader.NK.mixed := fun hm => by
        rcases h with h | h
        · exact (hkm hm).1 h
        · exact (hkm hm).2 h
      exact ⟨this, fun hv => this (hcls hv)⟩
    cases rn with
    | min => exact step_num k c env seen m v pos npos _ (Or.inl rfl) hI
    | max => exact step_num k c env seen m v pos npos _ (Or.inr rfl) hI
    | exclusiveMinimum => exact step_bool k c env seen m v pos npos _ (Or.inl rfl) hI
    | exclusiveMaximum => exact step_bool k c env seen m v pos npos _ (Or.inr (Or.inl rfl)) hI
    | optional => exact step_bool k c env seen m v pos npos _ (Or.inr (Or.inr (Or.inl rfl))) hI
    | nullable => exact step_bool k c env seen m v pos npos _ (Or.inr (Or.inr (Or.inr (Or.inl rfl)))) hI
    | const => exact step_bool k c env seen m v pos npos _ (Or.inr (Or.inr (Or.inr (Or.inr rfl)))) hI
    | minLength =>
      have hl : v.length ≤ 18 := by
        revert hc; simp only [ruleCommon, rbytes, sb_or, sb_enum, sb_allOf, sb_regex, sb_minItems, sb_maxItems, sb_minLength, sb_maxLength, sb_precision]
        names_simp; simp
      exact step_len k c env seen m v pos npos _ (Or.inl rfl) hl hI
    | maxLength =>
      have hl : v.length ≤ 18 := by
        revert hc; simp only [ruleCommon, rbytes, sb_or, sb_enum, sb_allOf, sb_regex, sb_minItems, sb_maxItems, sb_minLength, sb_maxLength, sb_precision]
        names_simp; simp
      exact step_len k c env seen m v pos npos _ (Or.inr rfl) hl hI
    | precision =>
      have hl : v.length ≤ 18 := by
        revert hc; simp only [ruleCommon, rbytes, sb_or, sb_enum, sb_allOf, sb_regex, sb_minItems, sb_maxItems, sb_minLength, sb_maxLength, sb_precision]
        names_simp; simp
      exact step_precision k c env seen m v pos npos hl hI
    | type => exact step_type k c env seen m v pos npos (hcm (Or.inl rfl)).1 (hcm (Or.inl rfl)).2 hI
    | additionalProperties => exact step_addProps k c env seen m v pos npos hI
    | or =>
      have hh : ∃ items, scalarItems v = some items ∧
          (items.all fun it => !Unquote.inQuotes it || isUserTypeName (unq it)) = true := by
        revert hc; simp only [ruleCommon, rbytes, sb_or, sb_enum, sb_allOf, sb_regex, sb_minItems, sb_maxItems, sb_minLength, sb_maxLength, sb_precision]
        names_simp
        cases hs : scalarItems v with
        | none => simp [hs]
        | some items => intro h; exact ⟨items, rfl, by simpa [hs] using h⟩
      obtain ⟨items, hs, hu⟩ := hh
      exact step_or k c env seen m v pos npos (hcm (Or.inr rfl)).1 (hcm (Or.inr rfl)).2 items hs hu hI
    | enum =>
      have hh : ∃ items, scalarItems v = some items ∧ (items.all fun it => (RulesF.enumItem it).isSome) = true := by
        revert hc; simp only [ruleCommon, rbytes, sb_or, sb_enum, sb_allOf, sb_regex, sb_minItems, sb_maxItems, sb_minLength, sb_maxLength, sb_precision]
        names_simp
        cases hs : scalarItems v with
        | none => simp [hs]
        | some items => intro h; exact ⟨items, rfl, by simpa [hs] using h⟩
      obtain ⟨items, hs, hu⟩ := hh
      exact step_enum k c env seen m v pos npos items hs hu hI
    | allOf | regex | minItems | maxItems =>
      exfalso
      revert hc; simp only [ruleCommon, rbytes, sb_or, sb_enum, sb_allOf, sb_regex, sb_minItems, sb_maxItems, sb_minLength, sb_maxLength, sb_precision]
      names_simp

/-! ### the whole annotation -/

/-- how the two folds may end: both accept and (B)'s map holds a constraint exactly for `names`, or both fail with
one code; (A) never answers `unsupported` -/
def FoldOK (names : List Bytes) (a : Except Err Unit) (b : Except CR.Code CR.CMap) : Prop :=
  match a, b with
  | .ok _, .ok m' => Inv names m'
  | .error (.code ca _), .error cb => ca = cb
  | _, _ => False

theorem fold_agree (k : Loader.NK) (c : CR.Ctx) (env : CR.Env) (hcls : c.cls = .mixedValue → k = Loader.NK.mixed) :
    (rs : List Rule) → (seen : List Bytes) → (m : CR.CMap) → Inv seen m →
    (∀ r ∈ rs, r.gen = false ∧ ruleCommon r = true ∧ (k = Loader.NK.mixed → r.name ≠ CR.n_type ∧ r.name ≠ CR.n_or)) →
    FoldOK ((rs.map (·.name)).reverse ++ seen) (createRules k seen rs) ((rs.map ruleOf).foldlM (CR.loadRule env c) m)
  | [], seen, m, hI, _ => by
    simpa [FoldOK, createRules, pure, Except.pure] using hI
  | r :: rs, seen, m, hI, hr => by
    obtain ⟨hg, hc, hk⟩ := hr r (List.mem_cons_self)
    have step := step_agree k c env seen m r hI hg hc hk hcls
    unfold Goal StepOK at step
    simp only [createRules, List.map_cons, List.foldlM_cons]
    cases ha : createRule k seen r with
    | error e =>
      cases hb : CR.loadRule env c m (ruleOf r) with
      | error cb =>
        rw [ha, hb] at step
        cases e with
        | code ca p => simpa [FoldOK, bind, Except.bind] using step
        | unsupported w => exact absurd step (by simp)
      | ok m' => rw [ha, hb] at step; cases e <;> exact absurd step (by simp)
    | ok u =>
      cases hb : CR.loadRule env c m (ruleOf r) with
      | error cb => rw [ha, hb] at step; exact absurd step (by simp)
      | ok m' =>
        rw [ha, hb] at step
        have ih := fold_agree k c env hcls rs (r.name :: seen) m' step
          (fun x hx => hr x (List.mem_cons_of_mem _ hx))
        have e : (rs.map (·.name)).reverse ++ r.name :: seen = (r.name :: rs.map (·.name)).reverse ++ seen := by simp
        rw [e] at ih
        simpa [bind, Except.bind] using ih

theorem inv_empty : Inv [] CR.CMap.empty := by
  intro k
  cases hk : ctName k <;> simp [CR.CMap.has, CR.CMap.empty]

/-- the common class without type shortcuts: scalar, object and array nodes -/
def plainKind (n : RNode) : Bool := n.kind != Loader.NK.mixed

/-- **the annotation-reading phases agree** on every scalar / object / array node of the common class: both models
accept the annotation or both reject it with the same error code ((A) never answers `unsupported`), and when they
accept, (B)'s constraint map holds a constraint exactly for the rule names (A) has recorded -/
theorem creation_agree (n : RNode) (isProp : Bool) (h : common n = true) (hp : plainKind n = true) :
    FoldOK ((n.rules.map (·.name)).reverse) (createRules n.kind [] n.rules)
      ((crNodeOf n isProp).rules.foldlM
        (CR.loadRule { okRegex := [], enumRules := [] } (crNodeOf n isProp).ctx) (CR.initMap (crNodeOf n isProp).kind)) := by
  have hkm : n.kind ≠ Loader.NK.mixed := by simpa [plainKind] using hp
  simp only [common, Bool.and_eq_true] at h
  obtain ⟨⟨⟨hk, hshape⟩, hrc⟩, hfmt⟩ := h
  obtain ⟨nk, hnk⟩ := Option.isSome_iff_exists.1 hk
  have hgen : ∀ r ∈ n.rules, r.gen = false := by
    cases hkind : n.kind <;> simp only [hkind] at hshape hkm <;> first
      | exact absurd rfl hkm
      | (intro r hr; have := List.all_eq_true.1 hshape r hr; simpa using this)
  have hman : manual n = n.rules := by
    unfold manual
    exact List.filter_eq_self.2 (fun r hr => by simp [hgen r hr])
  have hcls : (((nkindOf n).getD .null).ctx isProp).cls ≠ .mixedValue := by
    rw [hnk]
    unfold nkindOf at hnk
    cases hkind : n.kind <;> simp only [hkind] at hnk hkm
    · cases hnk; simp [CR.NKind.ctx]
    · cases hnk; simp [CR.NKind.ctx]
    · cases hv : n.value.bind RulesF.kindOfTok with
      | none => simp [hv] at hnk
      | some kd =>
        simp only [hv, Option.map_some, Option.some.injEq] at hnk
        subst hnk
        cases kd <;> simp [kindOfLit, CR.NKind.ctx]
    · exact absurd rfl hkm
  have hinit : CR.initMap ((nkindOf n).getD .null) = CR.CMap.empty := by
    rw [hnk]
    unfold nkindOf at hnk
    cases hkind : n.kind <;> simp only [hkind] at hnk hkm
    · cases hnk; rfl
    · cases hnk; rfl
    · cases hv : n.value.bind RulesF.kindOfTok with
      | none => simp [hv] at hnk
      | some kd =>
        simp only [hv, Option.map_some, Option.some.injEq] at hnk
        subst hnk
        cases kd <;> rfl
    · exact absurd rfl hkm
  have := fold_agree n.kind (((nkindOf n).getD .null).ctx isProp) { okRegex := [], enumRules := [] }
    (fun hv => absurd hv hcls) n.rules [] CR.CMap.empty inv_empty
    (fun r hr => ⟨hgen r hr, by
      have := List.all_eq_true.1 hrc r (by rw [hman]; exact hr)
      exact this, fun hm => absurd hm hkm⟩)
  simpa [crNodeOf, CR.Node.ctx, hman, hinit] using this

end BridgeCR
