/-
C19 prototype: the generated ordered map (Go `map` + order slice) refines an insertion-ordered
association list.  A Go map is modelled as a finite partial function together with its
cardinality (`len(m.data)`), the order slice as a list.
`delete` / `filter` are the *fixed* code (F-1); `deletePinned` is the pinned variant.
-/
namespace OMap

variable {κ ν : Type} [DecidableEq κ]

structure M (κ ν : Type) where
  data : κ → Option ν
  size : Nat              -- len(m.data)
  order : List κ

def M.empty : M κ ν := ⟨fun _ => none, 0, []⟩

def M.has (m : M κ ν) (k : κ) : Bool := (m.data k).isSome

def M.set (m : M κ ν) (k : κ) (v : ν) : M κ ν :=
  { data := fun x => if x = k then some v else m.data x,
    size := if m.has k then m.size else m.size + 1,
    order := if m.has k then m.order else m.order ++ [k] }

def M.update (m : M κ ν) (k : κ) (f : ν → ν) : M κ ν :=
  match m.data k with
  | some v => { m with data := fun x => if x = k then some (f v) else m.data x }
  | none => m

/-- fixed `delete`: the index stays -1 when the key is not in `order`. -/
def M.delete (m : M κ ν) (k : κ) : M κ ν :=
  { data := fun x => if x = k then none else m.data x,
    size := if m.has k then m.size - 1 else m.size,
    order := m.order.erase k }

/-- pinned `delete`: the range variable is left at the last index when the key is absent. -/
def M.deletePinned (m : M κ ν) (k : κ) : M κ ν :=
  { data := fun x => if x = k then none else m.data x,
    size := if m.has k then m.size - 1 else m.size,
    order := if k ∈ m.order then m.order.erase k else m.order.dropLast }

/-- fixed `Filter`: ranges over a copy of `order`; returns the new map and the visit trace. -/
def M.filterAux (p : κ → ν → Bool) : List κ → M κ ν → List κ → M κ ν × List κ
  | [], m, tr => (m, tr)
  | k :: ks, m, tr =>
    match m.data k with
    | some v => M.filterAux p ks (if p k v then m else m.delete k) (tr ++ [k])
    | none => M.filterAux p ks (m.delete k) (tr ++ [k])     -- fn(k, zero value); unreachable under WF

def M.filter (m : M κ ν) (p : κ → ν → Bool) : M κ ν × List κ := M.filterAux p m.order m []

def M.entries (m : M κ ν) : List (κ × ν) :=
  m.order.filterMap (fun k => (m.data k).map (fun v => (k, v)))

def M.len (m : M κ ν) : Nat := m.size

/-! ### reference: insertion-ordered association list -/

abbrev Ref (κ ν : Type) := List (κ × ν)

def Ref.has (r : Ref κ ν) (k : κ) : Bool := r.any (·.1 == k)
def Ref.set (r : Ref κ ν) (k : κ) (v : ν) : Ref κ ν :=
  if Ref.has r k then r.map (fun e => if e.1 = k then (k, v) else e) else r ++ [(k, v)]
def Ref.delete (r : Ref κ ν) (k : κ) : Ref κ ν := r.filter (fun e => e.1 != k)
def Ref.filter (r : Ref κ ν) (p : κ → ν → Bool) : Ref κ ν := List.filter (fun e => p e.1 e.2) r

/-- invariant -/
structure WF (m : M κ ν) : Prop where
  nodup : m.order.Nodup
  dom : ∀ k, k ∈ m.order ↔ (m.data k).isSome
  size : m.size = m.order.length

theorem wf_empty : WF (M.empty : M κ ν) := ⟨by simp [M.empty], by simp [M.empty], rfl⟩

end OMap
