import JSight.CompileLinksProofs
import JSight.LinksBasics
/-!
# C09 — the two models of the link check agree (`Compile.check` with names against `LK.linkCheck` on `CL.lkOf`)

Part 1: without `allOf`, `LK.compileAllOf` copies nothing: the checker walks the pre-order lists as loaded.
Part 2: node by node, `CL.checkNodeN` and `LK.checkList` on the abstraction give related verdicts (`Rel`: both pass, or
both name the same missing type, or both name the same key shortcut whose type is not a string).
-/
namespace CL
open Compile

/-! ### part 1: `LK.linkCheck` without `allOf` -/

def plainItem : LK.Item → Bool
  | .obj _ _ ao => ao.isEmpty
  | .inh ps => ps.isEmpty
  | _ => true

theorem processItems_plain (pt : String → LK.St → Except LK.Err (List LK.CItem × LK.St)) :
    ∀ (items : List LK.Item) (st : LK.St), items.all plainItem = true →
      LK.processItems pt items st = .ok (LK.naive items, st)
  | [], _, _ => rfl
  | .lit jt ms :: rest, st, h => by
    simp only [List.all_cons, Bool.and_eq_true] at h
    simp only [LK.processItems, processItems_plain pt rest st h.2, LK.naive]
  | .ref ns :: rest, st, h => by
    simp only [List.all_cons, Bool.and_eq_true] at h
    simp only [LK.processItems, processItems_plain pt rest st h.2, LK.naive]
  | .arr :: rest, st, h => by
    simp only [List.all_cons, Bool.and_eq_true] at h
    simp only [LK.processItems, processItems_plain pt rest st h.2, LK.naive]
  | .obj keys addp ao :: rest, st, h => by
    simp only [List.all_cons, Bool.and_eq_true, plainItem, List.isEmpty_iff] at h
    obtain ⟨h1, h2⟩ := h
    subst h1
    simp only [LK.processItems, LK.extendAll, processItems_plain pt rest st h2, LK.naive]
  | .inh ps :: rest, st, h => by
    simp only [List.all_cons, Bool.and_eq_true, plainItem, List.isEmpty_iff] at h
    obtain ⟨h1, h2⟩ := h
    subst h1
    simp only [LK.processItems, processItems_plain pt rest st h2, LK.naive, LK.inherited, List.nil_append]

mutual
theorem flat_lkN_plain : (x : CN) → (LK.flat (lkN x)).all plainItem = true
  | .lit _ _ => rfl
  | .any _ _ => rfl
  | .ref names _ jt _ _ => by
    simp only [lkN]
    split <;> rfl
  | .arr items _ _ => by
    simp only [lkN, LK.flat, List.all_cons, plainItem, Bool.true_and]
    exact flatItems_lk_plain items
  | .obj props add _ _ => by
    simp only [lkN, LK.flat, List.all_cons, List.all_append, plainItem, List.isEmpty_nil, Bool.true_and, List.all_nil,
      Bool.and_true]
    exact flatProps_lk_plain props
theorem flatItems_lk_plain : (xs : List CN) → (LK.flatItems (lkItems xs)).all plainItem = true
  | [] => rfl
  | x :: xs => by
    simp only [lkItems, LK.flatItems, List.all_append, Bool.and_eq_true]
    exact ⟨flat_lkN_plain x, flatItems_lk_plain xs⟩
theorem flatProps_lk_plain : (xs : List (String × Bool × Bool × Bool × CN)) → (LK.flatProps (lkProps xs)).all plainItem = true
  | [] => rfl
  | (_, _, _, _, x) :: xs => by
    simp only [lkProps, LK.flatProps, List.all_append, Bool.and_eq_true]
    exact ⟨flat_lkN_plain x, flatProps_lk_plain xs⟩
end

/-- no `allOf` anywhere -/
def PlainG (g : LK.G) : Prop :=
  (LK.flat g.root).all plainItem = true ∧ ∀ n body, LK.lookup g n = some body → (LK.flat body).all plainItem = true

/-- what `CompileAllOf` has compiled so far is what was loaded -/
def SInv (g : LK.G) (st : LK.St) : Prop :=
  st.processing = [] ∧
    ∀ n c, st.compiled.lookup n = some c → ∃ body, LK.lookup g n = some body ∧ c = LK.naive (LK.flat body)

theorem processType_plain (g : LK.G) (hp : PlainG g) (f : Nat) (name : String) (st : LK.St) (hst : SInv g st)
    (body : LK.N) (hl : LK.lookup g name = some body) :
    ∃ st', LK.processType g (f + 1) name st = .ok (LK.naive (LK.flat body), st') ∧ SInv g st' := by
  obtain ⟨h1, h2⟩ := hst
  simp only [LK.processType, h1, List.contains_nil, Bool.false_eq_true, if_false, hl]
  cases hc : st.compiled.lookup name with
  | some c =>
    obtain ⟨b, hb, hcb⟩ := h2 name c hc
    rw [hl] at hb
    cases hb
    exact ⟨st, by rw [hcb], h1, h2⟩
  | none =>
    simp only []
    rw [processItems_plain _ _ _ (hp.2 name body hl)]
    refine ⟨_, rfl, ?_, ?_⟩
    · simp
    · intro n c hn
      simp only [List.lookup_cons] at hn
      by_cases he : (n == name) = true
      · simp only [he] at hn
        cases hn
        have : n = name := by simpa using he
        subst this
        exact ⟨body, hl, rfl⟩
      · simp only [Bool.not_eq_true] at he
        simp only [he] at hn
        exact h2 n c hn

theorem processNames_plain (g : LK.G) (hp : PlainG g) (f : Nat) : ∀ (ns : List String) (st : LK.St), SInv g st →
    (∀ n ∈ ns, ∃ body, LK.lookup g n = some body) →
    ∃ st', LK.processNames (LK.processType g (f + 1)) ns st = .ok st' ∧ SInv g st'
  | [], st, hst, _ => ⟨st, rfl, hst⟩
  | n :: ns, st, hst, hns => by
    obtain ⟨body, hl⟩ := hns n (by simp)
    obtain ⟨st1, h1, hst1⟩ := processType_plain g hp f n st hst body hl
    obtain ⟨st2, h2, hst2⟩ := processNames_plain g hp f ns st1 hst1 (fun m hm => hns m (by simp [hm]))
    exact ⟨st2, by simp only [LK.processNames, h1, h2], hst2⟩

/-- the pre-order list `checkType(name)` walks when nothing was copied down -/
def bodyItems (g : LK.G) (n : String) : List LK.CItem :=
  match LK.lookup g n with
  | some body => LK.naive (LK.flat body)
  | none => []

def checkTypesP (g : LK.G) (fuel : Nat) : List String → Except LK.Err Unit
  | [] => .ok ()
  | n :: ns => match LK.checkList g fuel (bodyItems g n) with
    | .error e => .error e
    | .ok _ => checkTypesP g fuel ns

theorem compiledOf_plain (g : LK.G) (st : LK.St) (hst : SInv g st) (n : String) :
    LK.compiledOf g st n = bodyItems g n := by
  simp only [LK.compiledOf, bodyItems]
  cases hc : st.compiled.lookup n with
  | none => rfl
  | some c =>
    obtain ⟨b, hb, hcb⟩ := hst.2 n c hc
    simp only [hb, hcb]

theorem checkTypes_plain (g : LK.G) (fuel : Nat) (st : LK.St) (hst : SInv g st) : ∀ ns : List String,
    LK.checkTypes g fuel st ns = checkTypesP g fuel ns
  | [] => rfl
  | n :: ns => by
    simp only [LK.checkTypes, checkTypesP, compiledOf_plain g st hst n, checkTypes_plain g fuel st hst ns]
    cases LK.checkList g fuel (bodyItems g n) <;> rfl

/-- `LK.linkCheck` on a graph without `allOf` -/
theorem linkCheck_plain (g : LK.G) (hp : PlainG g) (ord : List (List String)) :
    LK.linkCheck g ord =
      (match LK.checkList g (LK.fuelOf g) (LK.naive (LK.flat g.root)) with
       | .error e => .error e
       | .ok _ =>
         match LK.checkOrNodes g ord with
         | .error e => .error e
         | .ok _ => checkTypesP g (LK.fuelOf g) (LK.sortedNames g)) := by
  have hinit : SInv g ⟨[], []⟩ := ⟨rfl, fun n c h => by simp at h⟩
  obtain ⟨st', hpn, hst'⟩ := processNames_plain g hp g.types.length (LK.sortedNames g) ⟨[], []⟩ hinit
    (fun n hn => (LK.mem_sortedNames g n).1 hn)
  simp only [LK.linkCheck, LK.linkCheckF, LK.compileAllOf, LK.fuelOf, processItems_plain _ _ _ hp.1, hpn,
    LK.checkRootSchema, checkTypes_plain g _ st' hst']
  cases LK.checkList g (g.types.length + 1) (LK.naive (LK.flat g.root)) with
  | error e => rfl
  | ok _ => cases LK.checkOrNodes g ord <;> rfl

/-! ### part 2: node by node -/

/-- related verdicts: both pass, both name the same missing type, both name the same key shortcut -/
inductive Rel : Except LE Unit → Except LK.Err Unit → Prop
  | ok : Rel (.ok ()) (.ok ())
  | missing (n : String) : Rel (.error (.missing n)) (.error (.missing n))
  | key (k : String) : Rel (.error (.keyNotString k)) (.error (.keyNotString k))

def seqA (a a' : Except LE Unit) : Except LE Unit :=
  match a with
  | .error e => .error e
  | .ok () => a'

def seqL (b b' : Except LK.Err Unit) : Except LK.Err Unit :=
  match b with
  | .error e => .error e
  | .ok _ => b'

theorem rel_seq {a a' : Except LE Unit} {b b' : Except LK.Err Unit} (h : Rel a b) (h' : Rel a' b') :
    Rel (seqA a a') (seqL b b') := by
  cases h with
  | ok => exact h'
  | missing n => exact .missing n
  | key k => exact .key k

theorem rel_inv {a : Except LE Unit} {b : Except LK.Err Unit} (h : Rel a b) :
    (a = .ok () ∧ b = .ok ()) ∨ (∃ n, a = .error (.missing n) ∧ b = .error (.missing n)) ∨
      (∃ k, a = .error (.keyNotString k) ∧ b = .error (.keyNotString k)) := by
  cases h with
  | ok => exact .inl ⟨rfl, rfl⟩
  | missing n => exact .inr (.inl ⟨n, rfl, rfl⟩)
  | key k => exact .inr (.inr ⟨k, rfl, rfl⟩)

theorem lookup_lkTypes (n : String) : ∀ ts : Types,
    ((lkTypes ts).find? (·.1 == n)).map (·.2) = (lookupT ts n).map lkN
  | [] => rfl
  | (m, t) :: ts => by
    simp only [lkTypes, lookupT, List.find?_cons]
    by_cases h : (m == n) = true
    · simp only [h]; rfl
    · simp only [Bool.not_eq_true] at h
      simp only [h]
      exact lookup_lkTypes n ts

theorem lookup_lkOf (root : CN) (ts : Types) (n : String) :
    LK.lookup (lkOf root ts) n = (lookupT ts n).map lkN := lookup_lkTypes n ts

theorem mustAll_rel (root : CN) (ts : Types) : ∀ names : List String,
    Rel (mustAllN ts names) (LK.mustAll (lkOf root ts) names)
  | [] => .ok
  | n :: ns => by
    simp only [mustAllN, LK.mustAll, lookup_lkOf]
    cases lookupT ts n with
    | none => exact .missing n
    | some t => exact mustAll_rel root ts ns

theorem checkList_append (g : LK.G) (F : Nat) : ∀ a b : List LK.CItem,
    LK.checkList g F (a ++ b) = seqL (LK.checkList g F a) (LK.checkList g F b)
  | [], b => rfl
  | c :: cs, b => by
    simp only [List.cons_append, LK.checkList]
    cases LK.checkItem g F c with
    | error e => rfl
    | ok u => exact checkList_append g F cs b

theorem naive_append : ∀ a b : List LK.Item, LK.naive (a ++ b) = LK.naive a ++ LK.naive b
  | [], b => rfl
  | .lit jt ms :: r, b => by simp only [List.cons_append, LK.naive, naive_append r b]
  | .ref ns :: r, b => by simp only [List.cons_append, LK.naive, naive_append r b]
  | .arr :: r, b => by simp only [List.cons_append, LK.naive, naive_append r b]
  | .obj k a ao :: r, b => by simp only [List.cons_append, LK.naive, naive_append r b]
  | .inh ps :: r, b => by simp only [List.cons_append, LK.naive, naive_append r b]

/-- the JSON type of the root of a key type, in both models -/
theorem actual_direct (g : LK.G) (F : Nat) (t : CN) (hd : ∀ names nul jt ex o, t = .ref names nul jt ex o → jt ≠ .mixed) :
    ∃ j, (match t with
          | .ref _ _ jt _ _ => some jt
          | t => t.jt) = some j ∧ LK.actualType g F [] (lkN t) = .ok (jtOf j) := by
  cases t with
  | lit spec bad => exact ⟨_, rfl, by cases F <;> rfl⟩
  | any jt l => exact ⟨_, rfl, by cases F <;> rfl⟩
  | arr items nul bad => exact ⟨_, rfl, by cases F <;> rfl⟩
  | obj props add nul bad => exact ⟨_, rfl, by cases F <;> rfl⟩
  | ref names nul jt ex o =>
    have hne := hd names nul jt ex o rfl
    refine ⟨jt, rfl, ?_⟩
    have : (jt == JT.mixed) = false := by cases jt <;> first | rfl | exact absurd rfl hne
    simp only [lkN, this, Bool.false_eq_true, if_false]
    cases F <;> rfl

theorem jtOf_str (j : Compile.JT) : (jtOf j = LK.JT.str) ↔ j = .str := by
  cases j <;> simp [jtOf]

theorem keys_rel (root : CN) (ts : Types) (f F : Nat) : ∀ props : List (String × Bool × Bool × Bool × CN),
    keysDirect ts props = true →
    Rel (checkKeysN ts (f + 1) props) (LK.checkKeys (lkOf root ts) F (LK.keysOf (lkProps props)))
  | [], _ => .ok
  | (k, sc, r, o, x) :: ps, hk => by
    simp only [keysDirect, Bool.and_eq_true, Bool.or_eq_true, Bool.not_eq_true'] at hk
    obtain ⟨hk1, hk2⟩ := hk
    have ih := keys_rel root ts f F ps hk2
    cases sc with
    | false =>
      simp only [checkKeysN, lkProps, LK.keysOf, List.map_cons, Bool.false_eq_true, if_false, LK.checkKeys]
      exact ih
    | true =>
      have hkd : keyDirect ts k = true := by
        rcases hk1 with h | h
        · cases h
        · exact h
      simp only [checkKeysN, lkProps, LK.keysOf, List.map_cons, if_true, LK.checkKeys, lookup_lkOf]
      cases hl : lookupT ts ("@" ++ k) with
      | none => exact .missing _
      | some t =>
        have hd : ∀ names nul jt ex o, t = .ref names nul jt ex o → jt ≠ .mixed := by
          intro names nul jt ex o ht hj
          subst ht; subst hj
          simp [keyDirect, hl] at hkd
        obtain ⟨j, hj1, hj2⟩ := actual_direct (lkOf root ts) F t hd
        have hroot : actualRoot ts (f + 1) [] ("@" ++ k) = some j := by
          simp only [actualRoot, hl]
          cases t with
          | ref names nul jt ex o =>
            have hne := hd names nul jt ex o rfl
            have : (jt != JT.mixed) = true := by cases jt <;> first | rfl | exact absurd rfl hne
            simp only [this, if_true]
            exact hj1
          | lit spec bad => exact hj1
          | any jt l => exact hj1
          | arr items nul bad => exact hj1
          | obj props add nul bad => exact hj1
        simp only [Option.map_some, Option.isNone_some, Bool.false_eq_true, if_false, hroot, hj2]
        by_cases hs : j = .str
        · subst hs
          simp only [jtOf, bne_self_eq_false, Bool.false_eq_true, if_false, if_true]
          exact ih
        · have h1 : (some j != some JT.str) = true := by
            cases j <;> first | rfl | exact absurd rfl hs
          have h2 : ¬ jtOf j = LK.JT.str := fun h => hs ((jtOf_str j).1 h)
          simp only [h1, if_true, h2, if_false]
          exact .key _

/-- `LK.checkList` on the pre-order list of a node of the abstraction -/
def ckL (g : LK.G) (F : Nat) (x : LK.N) : Except LK.Err Unit := LK.checkList g F (LK.naive (LK.flat x))

mutual
theorem node_rel (root : CN) (ts : Types) (f F : Nat) : (x : CN) → cls ts x = true →
    Rel (checkNodeN ts (f + 1) x) (ckL (lkOf root ts) F (lkN x))
  | .lit spec bad, h => by
    simp only [cls, Bool.and_eq_true, Bool.not_eq_true', Option.isNone_iff_eq_none] at h
    simp only [checkNodeN, h.1, h.2, Bool.false_eq_true, if_false]
    exact .ok
  | .any _ _, _ => .ok
  | .ref names nul jt ex orShort, h => by
    simp only [cls, Bool.and_eq_true] at h
    simp only [checkNodeN, ckL, lkN, h.1, if_true, LK.flat, LK.naive, LK.checkList, LK.checkItem]
    rcases rel_inv (mustAll_rel root ts names) with ⟨ha, hb⟩ | ⟨n, ha, hb⟩ | ⟨k, ha, hb⟩
    · simp only [ha, hb]; exact .ok
    · simp only [ha, hb]; exact .missing n
    · simp only [ha, hb]; exact .key k
  | .arr items nul bad, h => by
    simp only [cls, Bool.and_eq_true, Bool.not_eq_true'] at h
    simp only [checkNodeN, h.1, Bool.false_eq_true, if_false, ckL, lkN, LK.flat, LK.naive, LK.checkList, LK.checkItem]
    exact items_rel root ts f F items h.2
  | .obj props add nul bad, h => by
    simp only [cls, Bool.and_eq_true, Bool.not_eq_true'] at h
    obtain ⟨hb, hk, hp⟩ := h
    have hkeys := keys_rel root ts f F props hk
    have hprops := props_rel root ts f F props hp
    simp only [checkNodeN, hb, Bool.false_eq_true, if_false, ckL, lkN, LK.flat, LK.naive, naive_append,
      List.append_nil, LK.checkList, LK.checkItem]
    rcases rel_inv hkeys with ⟨ha, hb⟩ | ⟨n, ha, hb⟩ | ⟨k, ha, hb⟩
    · simp only [ha, hb]
      cases add with
      | type n =>
        simp only [lookup_lkOf]
        cases hl : lookupT ts n with
        | none => exact .missing n
        | some t => exact hprops
      | absent => exact hprops
      | notAllowed => exact hprops
      | any => exact hprops
      | obj => exact hprops
      | arr => exact hprops
      | soft ks => exact hprops
    · simp only [ha, hb]; exact .missing n
    · simp only [ha, hb]; exact .key k
theorem items_rel (root : CN) (ts : Types) (f F : Nat) : (xs : List CN) → clsItems ts xs = true →
    Rel (checkItemsN ts (f + 1) xs) (LK.checkList (lkOf root ts) F (LK.naive (LK.flatItems (lkItems xs))))
  | [], _ => .ok
  | x :: xs, h => by
    simp only [clsItems, Bool.and_eq_true] at h
    have h1 := node_rel root ts f F x h.1
    have h2 := items_rel root ts f F xs h.2
    have := rel_seq h1 h2
    simp only [checkItemsN, lkItems, LK.flatItems, naive_append, checkList_append]
    cases hc : checkNodeN ts (f + 1) x with
    | error e => rw [hc] at this; exact this
    | ok u => rw [hc] at this; exact this
theorem props_rel (root : CN) (ts : Types) (f F : Nat) : (xs : List (String × Bool × Bool × Bool × CN)) →
    clsProps ts xs = true →
    Rel (checkPropsN ts (f + 1) xs) (LK.checkList (lkOf root ts) F (LK.naive (LK.flatProps (lkProps xs))))
  | [], _ => .ok
  | (_, _, _, _, x) :: xs, h => by
    simp only [clsProps, Bool.and_eq_true] at h
    have h1 := node_rel root ts f F x h.1
    have h2 := props_rel root ts f F xs h.2
    have := rel_seq h1 h2
    simp only [checkPropsN, lkProps, LK.flatProps, naive_append, checkList_append]
    cases hc : checkNodeN ts (f + 1) x with
    | error e => rw [hc] at this; exact this
    | ok u => rw [hc] at this; exact this
end

theorem orNodes_rel (root : CN) (ts : Types) : ∀ ord : List (List String),
    Rel (checkOrListsN ts ord) (LK.checkOrNodes (lkOf root ts) ord)
  | [] => .ok
  | l :: ls => by
    simp only [checkOrListsN, LK.checkOrNodes]
    rcases rel_inv (mustAll_rel root ts l) with ⟨ha, hb⟩ | ⟨n, ha, hb⟩ | ⟨k, ha, hb⟩
    · simp only [ha, hb]; exact orNodes_rel root ts ls
    · simp only [ha, hb]; exact .missing n
    · simp only [ha, hb]; exact .key k

theorem types_rel (root : CN) (ts : Types) (f F : Nat) (hc : ∀ n t, lookupT ts n = some t → cls ts t = true) :
    ∀ ns : List String, Rel (checkTypesN ts (f + 1) ns) (checkTypesP (lkOf root ts) F ns)
  | [] => .ok
  | n :: ns => by
    have ih := types_rel root ts f F hc ns
    simp only [checkTypesN, checkTypesP, bodyItems, lookup_lkOf]
    cases hl : lookupT ts n with
    | none => exact ih
    | some t =>
      simp only [Option.map_some]
      rcases rel_inv (node_rel root ts f F t (hc n t hl)) with ⟨ha, hb⟩ | ⟨m, ha, hb⟩ | ⟨k, ha, hb⟩
      · simp only [ckL] at hb; simp only [ha, hb]; exact ih
      · simp only [ckL] at hb; simp only [ha, hb]; exact .missing m
      · simp only [ckL] at hb; simp only [ha, hb]; exact .key k

theorem lkTypes_names : ∀ ts : Types, (lkTypes ts).map (·.1) = ts.map (·.1)
  | [] => rfl
  | (n, t) :: ts => by simp only [lkTypes, List.map_cons, lkTypes_names ts]

theorem lookupT_mem : ∀ (ts : Types) (n : String) (t : CN), lookupT ts n = some t → (n, t) ∈ ts
  | [], _, _, h => by simp [lookupT] at h
  | (m, u) :: ts, n, t, h => by
    simp only [lookupT, List.find?_cons] at h
    by_cases he : (m == n) = true
    · simp only [he, Option.map_some, Option.some.injEq] at h
      have : m = n := by simpa using he
      subst this; subst h
      simp
    · simp only [Bool.not_eq_true] at he
      simp only [he] at h
      exact List.mem_cons_of_mem _ (lookupT_mem ts n t h)

theorem plainG_lkOf (root : CN) (ts : Types) : PlainG (lkOf root ts) := by
  refine ⟨flat_lkN_plain root, ?_⟩
  intro n body hl
  rw [lookup_lkOf] at hl
  cases h : lookupT ts n with
  | none => rw [h] at hl; cases hl
  | some t =>
    rw [h] at hl
    simp only [Option.map_some, Option.some.injEq] at hl
    subst hl
    exact flat_lkN_plain t

/-- the two models of the link check give related verdicts on the class `clsAll` -/
theorem models_rel (root : CN) (ts : Types) (hn : (ts.map (·.1)).Nodup) (hc : clsAll root ts = true) :
    Rel (checkRootN root ts) (LK.linkCheck (lkOf root ts) (ordOf ts)) := by
  simp only [clsAll, Bool.and_eq_true, List.all_eq_true] at hc
  obtain ⟨hroot, htypes⟩ := hc
  have hct : ∀ n t, lookupT ts n = some t → cls ts t = true :=
    fun n t h => htypes (n, t) (lookupT_mem ts n t h)
  rw [linkCheck_plain _ (plainG_lkOf root ts)]
  have hfuel : ∃ f, checkFuel (some root) ts = f + 1 := ⟨ts.length + 1 + 2 * (namesCount root + (ts.map fun t => namesCount t.2).sum), by
    simp only [checkFuel]; omega⟩
  obtain ⟨f, hf⟩ := hfuel
  have hsorted : LK.sortedNames (lkOf root ts) = sortNames (ts.map (·.1)) := by
    simp only [LK.sortedNames, lkOf, lkTypes_names]
    exact (sortNames_eq _ hn).symm
  have hrt : (lkOf root ts).root = lkN root := rfl
  simp only [checkRootN, hf, hsorted, hrt]
  have h1 := node_rel root ts f (LK.fuelOf (lkOf root ts)) root hroot
  have h2 := orNodes_rel root ts (ordOf ts)
  have h3 := types_rel root ts f (LK.fuelOf (lkOf root ts)) hct (sortNames (ts.map (·.1)))
  rcases rel_inv h1 with ⟨ha, hb⟩ | ⟨m, ha, hb⟩ | ⟨k, ha, hb⟩
  · simp only [ckL] at hb
    simp only [ha, hb]
    rcases rel_inv h2 with ⟨ha2, hb2⟩ | ⟨m, ha2, hb2⟩ | ⟨k, ha2, hb2⟩
    · simp only [ha2, hb2]; exact h3
    · simp only [ha2, hb2]; exact .missing m
    · simp only [ha2, hb2]; exact .key k
  · simp only [ckL] at hb; simp only [ha, hb]; exact .missing m
  · simp only [ckL] at hb; simp only [ha, hb]; exact .key k

/-- … in the common vocabulary -/
theorem models_agree (root : CN) (ts : Types) (hn : (ts.map (·.1)).Nodup) (hc : clsAll root ts = true) :
    vA (checkRootN root ts) = vL (LK.linkCheck (lkOf root ts) (ordOf ts)) := by
  rcases rel_inv (models_rel root ts hn hc) with ⟨ha, hb⟩ | ⟨m, ha, hb⟩ | ⟨k, ha, hb⟩
  · rw [ha, hb]; rfl
  · rw [ha, hb]; rfl
  · rw [ha, hb]; rfl

end CL
