import JSight.Sim
import JSight.Viable
/-!
C17 prototype (positions, scanner side): the index at which the JSON scanner model reports "invalid character" is
the first byte after which no continuation is accepted, and the text before it can be continued to an accepted one.
-/
namespace Sim
open JsonScan Rfc

/-- index of the byte on which the scanner reports an error (strict mode) -/
def errPos : Cfg → List Cls → Nat → Option Nat
  | _, [], _ => none
  | m, c :: cs, i =>
    match feed false m c with
    | .ok (.cont m') => errPos m' cs (i + 1)
    | .ok .stop => none
    | .error _ => some i

theorem errPos_spec {m : Cfg} {r : RCfg} (h : R r m) (cs : List Cls) (i j : Nat) (he : errPos m cs i = some j) :
    ∃ pre c post r', cs = pre ++ c :: post ∧ j = i + pre.length ∧ Rfc.run r pre = some r' ∧ Rfc.step r' c = none := by
  induction cs generalizing m r i with
  | nil => simp [errPos] at he
  | cons c cs ih =>
    rcases sim_step h c with ⟨m', r1, hf, hs, hR⟩ | ⟨ctx, hf, hs⟩
    · simp only [errPos, hf] at he
      obtain ⟨pre, c', post, r', e1, e2, e3, e4⟩ := ih hR (i + 1) he
      refine ⟨c :: pre, c', post, r', by rw [e1]; rfl, by simp only [List.length_cons]; omega, ?_, e4⟩
      simp [Rfc.run, hs, e3]
    · simp only [errPos, hf, Option.some.injEq] at he
      exact ⟨[], c, cs, r, rfl, by simp; omega, rfl, hs⟩

/-- **C17** (JSON, strict mode, byte classes): the reported index is the first dead byte -/
theorem C17_json_errpos (cs : List Cls) (j : Nat) (he : errPos Cfg.init cs 0 = some j) :
    (∃ suffix, checkC false (cs.take j ++ suffix) = true) ∧ (∀ suffix, checkC false (cs.take (j + 1) ++ suffix) = false) := by
  obtain ⟨pre, c, post, r', e1, e2, e3, e4⟩ := errPos_spec R.root cs 0 j he
  obtain ⟨hA, hB⟩ := first_dead_byte pre c r' e3 e4
  have hj : j = pre.length := by omega
  have t1 : cs.take j = pre := by rw [e1, hj]; simp
  have t2 : cs.take (j + 1) = pre ++ [c] := by
    rw [e1, hj, show pre ++ c :: post = (pre ++ [c]) ++ post by simp,
      List.take_left' (by simp)]
  constructor
  · obtain ⟨sfx, hs⟩ := hA
    exact ⟨sfx, by rw [t1, check_iff_rfc]; exact hs⟩
  · intro sfx
    rw [t2, check_iff_rfc, List.append_assoc]
    exact hB sfx

#print axioms C17_json_errpos

end Sim
