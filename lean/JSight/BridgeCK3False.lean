import JSight.BridgeCK2
/-!
Bridge (A)∩(C), third part: the statement over ALL trees `Compile.compileNode` builds is false — `compileNode` accepts
node tables no loader produces. A type-shortcut node (`kind = mixed`) that carries nothing but a hand-written
`type: "any"` compiles to `.any .mixed none`; together with `1 // {type: "@t"}` this is the witness of
`C04_models_agree_full_false_any` (1301 in (A), code 1 in (C)). The loader never emits such a node: a type shortcut always
carries its synthesised `type` / `or` rule, and the library rejects `@x // {type: "any"}` with 501 (duplicate "type" rule)
while the text is loaded.
-/
namespace BridgeCK
open Compile

def rAnyW : RNode := ⟨.mixed, [], [], none, [⟨sb "type", false, some (sb "\"any\""), 0, 0⟩]⟩
def tblAnyW : Array RNode := #[rAnyW]

def okBW : Except Err Basic → Bool
  | .ok b => b.any && b.names.isNone
  | _ => false

theorem wAny_type_compiled : ∃ o, compileNode tblAnyW false 1 0 false = .ok (.any .mixed none, o) := by
  have h : okBW (basic rAnyW .mixed false 0) = true := by decide +kernel
  cases hb : basic rAnyW .mixed false 0 with
  | error e => rw [hb] at h; cases h
  | ok b =>
    rw [hb] at h
    simp only [okBW, Bool.and_eq_true, Option.isNone_iff_eq_none] at h
    refine ⟨b.optional, ?_⟩
    have hget : tblAnyW[0]? = some rAnyW := rfl
    have hjt : Compile.jtOf rAnyW = .ok .mixed := rfl
    have hlen : rAnyW.children.length = 0 := rfl
    have hk : rAnyW.kind = .mixed := rfl
    simp only [compileNode, hget, hjt, hlen, hb, h.1, h.2, if_true, hk]

def rRefW : RNode := ⟨.lit, [], [], some (sb "1"), [⟨sb "type", false, some (sb "\"@t\""), 0, 0⟩]⟩

def tblRefW : Array RNode := #[rRefW]

def okBR : Except Err Basic → Bool
  | .ok b => b.names == some ["@t"] && !b.nul && !b.orShort
  | _ => false

def isInt : Except Err JT → Bool
  | .ok .int => true
  | _ => false

theorem wAny_root_compiled : ∃ o, compileNode tblRefW false 1 0 false = .ok (wAnyRoot, o) := by
  have hj : isInt (Compile.jtOf rRefW) = true := by decide +kernel
  have hjt : Compile.jtOf rRefW = .ok .int := by
    generalize Compile.jtOf rRefW = r at hj
    unfold isInt at hj
    split at hj
    · rfl
    · cases hj
  have h : okBR (basic rRefW .int false 0) = true := by decide +kernel
  cases hb : basic rRefW .int false 0 with
  | error e => rw [hb] at h; cases h
  | ok b =>
    rw [hb] at h
    simp only [okBR, Bool.and_eq_true, beq_iff_eq, Bool.not_eq_true'] at h
    refine ⟨b.optional, ?_⟩
    have hget : tblRefW[0]? = some rRefW := rfl
    have hlen : rRefW.children.length = 0 := rfl
    have hk : (rRefW.kind == Loader.NK.lit) = true := rfl
    have hv : rRefW.value = some (sb "1") := rfl
    simp only [compileNode, hget, hjt, hlen, hb, h.1.1, h.1.2, h.2, hk, if_true, hv, wAnyRoot]

end BridgeCK
