import JSight.Compile
/-!
END TO END on TEXTS: schema text (+ the texts of the added types) and document text ↦ verdict, inside Lean:

  schema scanner model → loader model (`Loader`, rule values kept) → `Compile` (creation, `CompileBasic`, `Check`)
  → validator schema; JSON scanner model → lexical events → the validator machine `VK` (`runQ` fed with the events,
  tokens cut out of the document text) with `Compile.litOK` (`RulesF.litOKFull`) and `Compile.keyOK`.

The order of the library is kept (`jschema.Schema`): the root is loaded (and `CompileBasic` run) first, then every
added type in `AddType` order, then `Check`, then the document is scanned WHILE it is validated — a scanner error is
reported only if the validator has not failed before it.
-/
namespace E2E
open Compile

inductive Outcome
  | acc
  | rej
  | schemaErr (code pos : Nat)
  | docErr (code pos : Nat)
  | unsupported (why : String)
  deriving Repr, DecidableEq

/-! ### loading, with the state reached when an error stops the loader -/

inductive LoadErr
  | scan (e : SchemaScan.Err)
  | load (e : Loader.LErr)
  | fuel
  deriving Repr

/-- `Loader.loadLoop`, returning also the state in which it stopped -/
def loadLoopP (src : Array UInt8) (data : Array SchemaScan.Cls) : Nat → SchemaScan.Sc → Loader.St → Loader.St × Option LoadErr
  | 0, _, st => (st, some .fuel)
  | fuel + 1, sc, st =>
    match SchemaScan.next data (3 * data.size + 16) sc with
    | .error e => (st, some (.scan e))
    | .ok none => (st, none)
    | .ok (some (sc', e)) =>
      match Loader.step src st e with
      | .error le => (st, some (.load le))
      | .ok st' => loadLoopP src data fuel sc' st'

def loadTextP (bs : List UInt8) : Loader.St × Option LoadErr :=
  let data := (bs.map SchemaScan.classify).toArray
  loadLoopP bs.toArray data (8 * data.size + 16) {} {}

def LoadErr.show : LoadErr → String
  | .scan e => SchemaScan.showErr e
  | .load e => Loader.showLErr e
  | .fuel => "PANIC load: fuel exhausted"

/-- code and offset of a scanner / loader error; `none` = a modelled Go panic that is not an error value -/
def LoadErr.code : LoadErr → Option (Nat × Nat)
  | .scan (.invalidChar i _) => some (301, i)
  | .scan (.invalidKeyChar i) => some (302, i)
  | .scan (.annotationNotAllowed i) => some (304, i)
  | .scan (.unexpectedEOF i) => some (303, i)
  | .scan (.crash _) => none
  | .load (.loader p) => some (801, p)
  | .load (.ruleValueType p) => some (802, p)
  | .load (.ruleWithoutExample p) => some (803, p)
  | .load (.ruleForSeveralNode p) => some (804, p)
  | .load (.duplicateKey p) => some (402, p)
  | .load (.invalidName p) => some (701, p)
  | .load (.internal _) => none
  | .fuel => none

/-- `Schema.load`: scanner + loader + the constraint constructors + `CompileBasic` on one schema text -/
def loadSchema (bs : List UInt8) (optDefault : Bool) : Except Err (Option CN) :=
  let (st, err) := loadTextP bs
  let tbl := st.nodes.toList.map (resolve bs.toArray)
  match creation tbl with
  | .error e => .error e
  | .ok () =>
    match err with
    | some e =>
      -- an `or` / `enum` / `allOf` value that was being read when the error came is not examined by `creation`
      if tbl.any fun n => n.rules.any fun r => r.val.isNone then .error (.unsupported "error inside a rule value")
      else
        match e.code with
        | some (c, p) => .error (.code c p)
        | none => .error (.unsupported e.show)
    | none =>
      match st.root with
      | none => .ok none
      | some r =>
        match compileNode tbl.toArray optDefault (tbl.length + 1) r false with
        | .error e => .error e
        | .ok (cn, _) => .ok (some cn)

/-- the added types, in `AddType` order -/
def loadTypes : List (String × List UInt8) → Except Err Types
  | [] => .ok []
  | (name, txt) :: rest =>
    match loadSchema txt false with
    | .error e => .error e
    | .ok none => .error (.code 1401 0)
    | .ok (some cn) =>
      match loadTypes rest with
      | .error e => .error e
      | .ok ts => .ok ((name, cn) :: ts)

/-! ### the document -/

/-- `JsonScan.eventsLoop`, returning the events delivered before an error -/
def eventsLoopP (n : Nat) : List JsonScan.Cls → Nat → JsonScan.CfgS → List JsonScan.Ev → List JsonScan.Ev × Option JsonScan.ErrS
  | [], _, cfg, acc =>
    -- the end-of-input rule of `Next()`: an open literal that may end here is closed first, whatever lies below it
    match cfg.stack with
    | [] => (acc, none)
    | (.litB, b) :: rest =>
      if cfg.unf then (acc, some (.unexpectedEOF (n - 1)))
      else if rest.isEmpty then (acc ++ [⟨.litE, b, n - 1⟩], none)
      else (acc ++ [⟨.litE, b, n - 1⟩], some (.unexpectedEOF (n - 1)))
    | _ => (acc, some (.unexpectedEOF (n - 1)))
  | c :: cs, i, cfg, acc =>
    match JsonScan.step false cfg.st (cfg.stack.map (·.1)) cfg.unf c with
    | .error _ => (acc, some (.invalidChar i))
    | .ok (st', unf', finds) =>
      match JsonScan.applyFindsS i cfg.stack finds [] with
      | .error e => (acc, some e)
      | .ok (stack', evs, stop) =>
        if stop then (acc ++ evs, none)
        else eventsLoopP n cs (i + 1) { st := st', stack := stack', unf := unf' } (acc ++ evs)

def eventsP (bs : List UInt8) : List JsonScan.Ev × Option JsonScan.ErrS :=
  eventsLoopP bs.length (bs.map JsonScan.classify) 0 {} []

def slice (src : List UInt8) (b e : Nat) : List UInt8 := (src.drop b).take (e + 1 - b)

/-- a lexeme as the validator reads it: literal tokens as written, keys decoded -/
def toEv (src : List UInt8) (e : JsonScan.Ev) : Option (VN.Ev (List UInt8)) :=
  match e.ty with
  | .litB => some .litB
  | .litE => some (.litE (slice src e.b e.e))
  | .objB => some .objB
  | .objE => some .objE
  | .keyB => some .keyB
  | .keyE => some (.keyE (keyStr (Unquote.unquote (slice src e.b e.e))))
  | .valB => some .valB
  | .valE => some .valE
  | .arrB => some .arrB
  | .arrE => some .arrE
  | .itemB => some .itemB
  | .itemE => some .itemE
  | .endTop => none

def docEvs (src : List UInt8) (evs : List JsonScan.Ev) : List (VN.Ev (List UInt8)) := evs.filterMap (toEv src)

/-- some key token of the document is written with an escape -/
def escapedKey (src : List UInt8) (evs : List JsonScan.Ev) : Bool :=
  evs.any fun e => e.ty == .keyE && (slice src e.b e.e).any (· == 92)

/-! ### validation -/

/-- `Schema.validate`'s loop on a complete event stream (= `VK.validateT` on the document the events denote) -/
def validateEvs (env : VK.Env Lit) (keyOK : String → String → Bool) (s : VK.S Lit) (evs : List (VN.Ev (List UInt8))) : Bool :=
  match VK.runQ env litOK keyOK ((VK.heads env s).map VK.leafT) evs with
  | some (_, b) => b
  | none => false

/-- has every leaf failed on the events delivered so far? -/
def failedOn (env : VK.Env Lit) (keyOK : String → String → Bool) (s : VK.S Lit) (evs : List (VN.Ev (List UInt8))) : Bool :=
  match VK.runQ env litOK keyOK ((VK.heads env s).map VK.leafT) evs with
  | some (g, b) => g.isEmpty && !b
  | none => false

def errOut : Err → Outcome
  | .code c p => .schemaErr c p
  | .unsupported w => .unsupported w

/-- schema text, the added types (name, text) in `AddType` order, document text ↦ outcome.
`optDefault` = the option `KeysAreOptionalByDefault` of the root schema. -/
def validateText (root : List UInt8) (types : List (String × List UInt8)) (doc : List UInt8)
    (optDefault : Bool := false) : Outcome :=
  match loadSchema root optDefault with
  | .error e => errOut e
  | .ok r =>
    if !(types.map (·.1)).Nodup || !(types.all fun t => isUserTypeName (strBytes t.1)) then .unsupported "type names"
    else
      match loadTypes types with
      | .error e => errOut e
      | .ok ts =>
        match r with
        | none =>
          -- `Check` examines the types; `Validate` then refuses the schema without EXAMPLE
          match checkNoRoot ts with
          | .error e => errOut e
          | .ok () => .schemaErr 202 0
        | some cn =>
          match check cn ts with
          | .error e => errOut e
          | .ok () =>
            if !(shortcutsOK ts cn && ts.all fun t => shortcutsOK ts t.2) then .unsupported "key type is not a string literal"
            else
              let (evs, err) := eventsP doc
              if (rawKeyTypes ts cn || ts.any fun t => rawKeyTypes ts t.2) && escapedKey doc evs then
                .unsupported "escaped document key against a key type without rules"
              else
                let env := envOf cn ts
                let s := toVK "root" cn
                let vevs := docEvs doc evs
                match err with
                | none =>
                  if vevs.isEmpty then .docErr 203 0
                  else if validateEvs env (keyOK ts) s vevs then .acc else .rej
                | some e =>
                  if !vevs.isEmpty && failedOn env (keyOK ts) s vevs then .rej
                  else match e with
                    | .invalidChar i => .docErr 301 i
                    | .unexpectedEOF i => .docErr 303 i
                    | .emptyJson => .docErr 203 0
                    | .crash w => .unsupported w

end E2E
