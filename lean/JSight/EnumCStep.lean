import JSight.EnumCSem
/-!
C18, comments in enum rules: single-byte facts of `dispatch` around comments (`// … line break`, `/* … */`), and the
derived rules of `PreT`: brackets, first byte of a token, the closing phase of an item behind which a blank, `,`, `]`
or a comment follows, and the two comment bodies.
-/
set_option linter.unusedSimpArgs false
set_option linter.unusedVariables false
namespace EnumScan
open SchemaScan (Cls classify)

variable {content : Array UInt8} {data : Array Cls}

/-! ### blanks, brackets, first byte of a token (as in `EnumEventsRun`, over `OutT`) -/

theorem preT_blank_loop {st : St} (hst : LoopSt st) {c : Cls} (hb : c.isBlank = true) (a i : Nat) (lc ht : Bool)
    (uq : List (List UInt8 × Bool)) (hc : data[i]? = some c) :
    PreT content data ⟨st, [], [(.arrB, a)], [], i, false, false, lc, ht, uq⟩
      (if c.isNewLine then [⟨.newLine, i, i⟩] else [])
      ⟨st, [], [(.arrB, a)], [], i + 1, false, false, lc, ht, uq⟩ := by
  rcases hst with rfl | rfl | rfl <;> cases c <;> simp [Cls.isBlank, Cls.isSpace, Cls.isNewLine] at hb ⊢ <;>
    first
    | exact PreT.byte hc (fun p1 => by unfold dispatch; rfl) rfl
    | exact (PreT.byte hc (fun p1 => by unfold dispatch; rfl) rfl).trans (PreT.shift rfl)

theorem preT_ws_begin (lc ht : Bool) (uq : List (List UInt8 × Bool)) (ws : List Cls) (hw : IsWs ws) :
    ∀ i, SegA data i ws →
    PreT content data ⟨.begin, [], [], [], i, false, false, lc, ht, uq⟩ []
      ⟨.begin, [], [], [], i + ws.length, false, false, lc, ht, uq⟩ := by
  induction ws with
  | nil => intro i _; exact PreT.refl _
  | cons c cs ih =>
    intro i hseg
    obtain ⟨hc, hcs⟩ := hseg
    have hb := hw c (by simp)
    have h1 : PreT content data ⟨.begin, [], [], [], i, false, false, lc, ht, uq⟩ []
        ⟨.begin, [], [], [], i + 1, false, false, lc, ht, uq⟩ := by
      cases c <;> simp [Cls.isBlank, Cls.isSpace, Cls.isNewLine] at hb <;>
        exact PreT.byte hc (fun p1 => by unfold dispatch; rfl) rfl
    have h2 := ih (fun x hx => hw x (by simp [hx])) (i + 1) hcs
    simp only [List.length_cons]
    rw [show i + (cs.length + 1) = i + 1 + cs.length by omega]
    exact h1.trans h2

theorem preT_lbrack (i : Nat) (lc ht : Bool) (uq : List (List UInt8 × Bool)) (hc : data[i]? = some .lbrack) :
    PreT content data ⟨.begin, [], [], [], i, false, false, lc, ht, uq⟩ [⟨.arrB, i, i⟩]
      ⟨.arrItemOrEmpty, [], [(.arrB, i)], [], i + 1, false, false, lc, ht, uq⟩ :=
  (PreT.byte hc (fun p1 => by unfold dispatch; rfl) rfl).trans (PreT.shift rfl)

theorem preT_rbrack_empty (a i : Nat) (lc ht : Bool) (uq : List (List UInt8 × Bool)) (hc : data[i]? = some .rbrack) :
    PreT content data ⟨.arrItemOrEmpty, [], [(.arrB, a)], [], i, false, false, lc, ht, uq⟩ [⟨.arrE, a, i⟩]
      ⟨.endValue, [], [], [], i + 1, false, false, lc, ht, uq⟩ :=
  (PreT.byte hc (fun p1 => by unfold dispatch; rfl) rfl).trans (PreT.shift rfl)

theorem preT_litStart {st : St} (hst : st = .arrItemOrEmpty ∨ st = .arrItem) {c : Cls} {st0 : St} {unf0 : Bool}
    (hl : litStart c = some (st0, unf0)) (a i : Nat) (lc ht : Bool) (uq : List (List UInt8 × Bool))
    (hc : data[i]? = some c) :
    PreT content data ⟨st, [], [(.arrB, a)], [], i, false, false, lc, ht, uq⟩ [⟨.itemB, i, i⟩, ⟨.litB, i, i⟩]
      ⟨st0, [], [(.litB, i), (.itemB, i), (.arrB, a)], [], i + 1, false, unf0, lc, ht, uq⟩ := by
  rcases hst with rfl | rfl <;> cases c <;> simp [litStart] at hl <;> obtain ⟨rfl, rfl⟩ := hl <;>
    exact ((PreT.byte hc (fun p1 => by unfold dispatch; rfl) rfl).trans (PreT.shift rfl)).trans (PreT.shift rfl)

/-! ### the closing phase of an item: the byte behind the token is a blank, `,`, `]` or the `/` of a comment -/

/-- delimiters behind a token, now with `/` -/
def isDelimC : Cls → Bool | .sp | .tab | .nl | .comma | .rbrack | .slash => true | _ => false

def delimStC : Cls → St
  | .comma => .arrItem
  | .rbrack => .endValue
  | .slash => .anyAnnStart
  | _ => .afterItem
def delimRetC : Cls → List St
  | .slash => [.afterItem]
  | _ => []

theorem pv_dispatchC (st : St) (hp : PV st = true) (c : Cls) (hc : isDelimC c = true) (s : Sc) (hs : s.step = st)
    (p1 : Option Cls) : dispatch content 8 s c p1 = endValue content 7 s c p1 := by
  obtain ⟨step, ret, stack, finds, index, ann, unf, lc, htr, uq⟩ := s
  simp only at hs; subst hs
  cases step <;> simp [PV] at hp <;> cases c <;> simp [isDelimC] at hc <;>
    (unfold dispatch; first | rfl | (unfold state0; rfl))

theorem close_dispatchC (st : St) (hp : PV st = true) (c : Cls) (hc : isDelimC c = true) (b b' a d : Nat) (lc : Bool)
    (uq : List (List UInt8 × Bool)) (p1 : Option Cls) :
    dispatch content 8 ⟨st, [], [(.litB, b), (.itemB, b'), (.arrB, a)], [], d + 1, false, false, lc, false, uq⟩ c p1 =
      if uq.contains (keyAt content b (d - b)) then .error (.duplicate b)
      else .ok ⟨delimStC c, delimRetC c, [(.litB, b), (.itemB, b'), (.arrB, a)], [.litE, .itemE] ++ delimFinds c, d + 1,
                false, false, lc, false, keyAt content b (d - b) :: uq⟩ := by
  rw [pv_dispatchC st hp c hc _ rfl]
  unfold endValue
  simp only [stackTy, found, List.length_cons, List.length_nil, List.getElem?_cons_zero, Option.map_some,
    List.nil_append, bind, Except.bind, pure, Except.pure]
  rw [validateValue_eq _ .litB b [(.itemB, b'), (.arrB, a)] rfl]
  simp only [Nat.add_sub_cancel]
  cases hcon : uq.contains (keyAt content b (d - b)) with
  | true => rfl
  | false =>
    simp only [Bool.false_eq_true, if_false]
    cases c <;> simp [isDelimC] at hc <;>
      (show dispatch content 7 _ _ _ = _; unfold dispatch; rfl)

theorem preT_close {st : St} (hp : PV st = true) {c : Cls} (hc : isDelimC c = true) (b b' a d : Nat) (lc : Bool)
    (uq : List (List UInt8 × Bool)) (hd : data[d]? = some c)
    (hfresh : uq.contains (keyAt content b (d - b)) = false) :
    PreT content data ⟨st, [], [(.litB, b), (.itemB, b'), (.arrB, a)], [], d, false, false, lc, false, uq⟩
      ([⟨.litE, b, d - 1⟩, ⟨.itemE, b', d - 1⟩] ++ delimEvs a d c)
      ⟨delimStC c, delimRetC c, delimStack a c, [], d + 1, false, false, lc, false, keyAt content b (d - b) :: uq⟩ := by
  have h1 := PreT.byte (content := content) (data := data) hd
    (fun p1 => by rw [close_dispatchC st hp c hc b b' a d lc uq p1, hfresh]; rfl) rfl
  cases c <;> simp [isDelimC] at hc
  · exact (h1.trans (PreT.shift rfl)).trans (PreT.shift rfl)
  · exact (h1.trans (PreT.shift rfl)).trans (PreT.shift rfl)
  · exact ((h1.trans (PreT.shift rfl)).trans (PreT.shift rfl)).trans (PreT.shift rfl)
  · exact ((h1.trans (PreT.shift rfl)).trans (PreT.shift rfl)).trans (PreT.shift rfl)
  · exact (h1.trans (PreT.shift rfl)).trans (PreT.shift rfl)
  · exact (h1.trans (PreT.shift rfl)).trans (PreT.shift rfl)

/-- **duplicate**: the key of the literal just read is already in `unique` -/
theorem outT_dup {st : St} (hp : PV st = true) {c : Cls} (hc : isDelimC c = true) (b b' a d : Nat) (lc : Bool)
    (uq : List (List UInt8 × Bool)) (hd : data[d]? = some c)
    (hdup : uq.contains (keyAt content b (d - b)) = true) :
    OutT content data ⟨st, [], [(.litB, b), (.itemB, b'), (.arrB, a)], [], d, false, false, lc, false, uq⟩ 0
      (.error (.duplicate b)) :=
  OutT.fail' hd (fun p1 => by rw [close_dispatchC st hp c hc b b' a d lc uq p1, hdup]; rfl) (by intro h; cases h)

/-- `,` or `]` in state `afterItem` -/
theorem preT_term {c : Cls} (hc : c = .comma ∨ c = .rbrack) (a d : Nat) (lc ht : Bool)
    (uq : List (List UInt8 × Bool)) (hd : data[d]? = some c) :
    PreT content data ⟨.afterItem, [], [(.arrB, a)], [], d, false, false, lc, ht, uq⟩ (delimEvs a d c)
      ⟨delimSt c, [], delimStack a c, [], d + 1, false, false, lc, ht, uq⟩ := by
  rcases hc with rfl | rfl
  · exact PreT.byte hd (fun p1 => by unfold dispatch; rfl) rfl
  · exact (PreT.byte hd (fun p1 => by unfold dispatch; rfl) rfl).trans (PreT.shift rfl)

/-- the exponent letter directly behind a number: error 301 at that byte -/
def NumEnd : St → Bool | .d0 | .d1 | .dot0 => true | _ => false

theorem outT_exponent {st : St} (hp : NumEnd st = true) {c : Cls} (hc : c = .le ∨ c = .uE) (ret : List St)
    (K : List (LexT × Nat)) (d : Nat) (ann unf lc ht : Bool) (uq : List (List UInt8 × Bool)) (hd : data[d]? = some c) :
    OutT content data ⟨st, ret, K, [], d, ann, unf, lc, ht, uq⟩ 0
      (.error (.invalidChar d "isn't allowed 'cause not obvious it's a float or an integer")) := by
  refine OutT.fail' hd (fun p1 => ?_) (by intro h; cases h)
  rcases hc with rfl | rfl <;> cases st <;> simp [NumEnd] at hp <;>
    (unfold dispatch; first | rfl | (unfold state0; rfl))

/-! ### entering a comment -/

/-- the states in which a comment may start: between the items, and behind the list -/
def CmtSt (st : St) : Prop := st = .arrItemOrEmpty ∨ st = .arrItem ∨ st = .afterItem ∨ st = .endTop

theorem preT_slash {st : St} (hst : CmtSt st) (K : List (LexT × Nat)) (i : Nat) (lc ht : Bool)
    (uq : List (List UInt8 × Bool)) (hc : data[i]? = some .slash) :
    PreT content data ⟨st, [], K, [], i, false, false, lc, ht, uq⟩ []
      ⟨.anyAnnStart, [st], K, [], i + 1, false, false, lc, ht, uq⟩ := by
  rcases hst with rfl | rfl | rfl | rfl <;>
    exact PreT.byte hc (fun p1 => by unfold dispatch; rfl) rfl

/-- `/` directly behind the closing bracket (state `endValue`, empty stack) -/
theorem preT_slash_endValue (i : Nat) (lc ht : Bool) (uq : List (List UInt8 × Bool)) (hc : data[i]? = some .slash) :
    PreT content data ⟨.endValue, [], [], [], i, false, false, lc, ht, uq⟩ []
      ⟨.anyAnnStart, [.endTop], [], [], i + 1, false, false, lc, ht, uq⟩ :=
  PreT.byte hc (fun p1 => by unfold dispatch; unfold endValue; unfold dispatch; rfl) rfl

/-! ### `// sp* txt line-break` -/

def IsSp (l : List Cls) : Prop := ∀ c ∈ l, c.isSpace = true
def NoNl (l : List Cls) : Prop := ∀ c ∈ l, c.isNewLine = false

theorem preT_inl_sp (r : List St) (K : List (LexT × Nat)) (lc ht : Bool) (uq : List (List UInt8 × Bool))
    (sp : List Cls) (hsp : IsSp sp) : ∀ i, SegA data i sp →
    PreT content data ⟨.inlAnn, r, K, [], i, true, false, lc, ht, uq⟩ []
      ⟨.inlAnn, r, K, [], i + sp.length, true, false, lc, ht, uq⟩ := by
  induction sp with
  | nil => intro i _; exact PreT.refl _
  | cons c cs ih =>
    intro i hseg
    obtain ⟨hc, hcs⟩ := hseg
    have hb := hsp c (by simp)
    have h1 : PreT content data ⟨.inlAnn, r, K, [], i, true, false, lc, ht, uq⟩ []
        ⟨.inlAnn, r, K, [], i + 1, true, false, lc, ht, uq⟩ := by
      cases c <;> simp [Cls.isSpace] at hb <;>
        exact PreT.byte hc (fun p1 => by unfold dispatch; rfl) rfl
    have h2 := ih (fun x hx => hsp x (by simp [hx])) (i + 1) hcs
    simp only [List.length_cons]
    rw [show i + (cs.length + 1) = i + 1 + cs.length by omega]
    exact h1.trans h2

theorem preT_inlTxt (r : List St) (K : List (LexT × Nat)) (lc ht : Bool) (uq : List (List UInt8 × Bool))
    (txt : List Cls) (htx : NoNl txt) : ∀ i, SegA data i txt →
    PreT content data ⟨.inlTxt, r, K, [], i, true, false, lc, ht, uq⟩ []
      ⟨.inlTxt, r, K, [], i + txt.length, true, false, lc, ht, uq⟩ := by
  induction txt with
  | nil => intro i _; exact PreT.refl _
  | cons c cs ih =>
    intro i hseg
    obtain ⟨hc, hcs⟩ := hseg
    have hb := htx c (by simp)
    have h1 : PreT content data ⟨.inlTxt, r, K, [], i, true, false, lc, ht, uq⟩ []
        ⟨.inlTxt, r, K, [], i + 1, true, false, lc, ht, uq⟩ := by
      cases c <;> simp [Cls.isNewLine] at hb <;>
        exact PreT.byte hc (fun p1 => by unfold dispatch; rfl) rfl
    have h2 := ih (fun x hx => htx x (by simp [hx])) (i + 1) hcs
    simp only [List.length_cons]
    rw [show i + (cs.length + 1) = i + 1 + cs.length by omega]
    exact h1.trans h2

/-- the events of `// sp txt NL` whose SECOND slash stands at `p` -/
def inlEvs (p : Nat) (sp txt : List Cls) : List Ev :=
  [⟨.inlAnnB, p, p⟩, ⟨.inlTxtB, p + 1 + sp.length, p + 1 + sp.length⟩,
   ⟨.inlTxtE, p + 1 + sp.length, p + 1 + sp.length + txt.length - 1⟩,
   ⟨.inlAnnE, p, p + 1 + sp.length + txt.length - 1⟩,
   ⟨.newLine, p + 1 + sp.length + txt.length, p + 1 + sp.length + txt.length⟩]

/-- the text of an inline comment: no line break inside, the first byte is neither a space nor a tab -/
def InlTxt (txt : List Cls) : Prop := NoNl txt ∧ ∀ c, txt.head? = some c → c.isSpace = false

/-- from behind the first `/`: `/ sp txt NL`, back to the state `r0` the comment interrupted -/
theorem preT_inl_body (r0 : St) (K : List (LexT × Nat)) (lc ht : Bool) (uq : List (List UInt8 × Bool))
    (sp txt : List Cls) (hsp : IsSp sp) (htx : InlTxt txt) (p : Nat)
    (hseg : SegA data p (.slash :: (sp ++ (txt ++ [.nl])))) :
    PreT content data ⟨.anyAnnStart, [r0], K, [], p, false, false, lc, ht, uq⟩ (inlEvs p sp txt)
      ⟨r0, [], K, [], p + 1 + sp.length + txt.length + 1, false, false, lc, ht, uq⟩ := by
  obtain ⟨hsl, hrest⟩ := hseg
  obtain ⟨hsps, hrest⟩ := SegA_append hrest
  obtain ⟨htxs, hnl⟩ := SegA_append hrest
  obtain ⟨hnl, _⟩ := hnl
  -- second slash
  have h1 : PreT content data ⟨.anyAnnStart, [r0], K, [], p, false, false, lc, ht, uq⟩ [⟨.inlAnnB, p, p⟩]
      ⟨.inlAnn, [r0], (.inlAnnB, p) :: K, [], p + 1, true, false, lc, ht, uq⟩ :=
    (PreT.byte hsl (fun p1 => by unfold dispatch; rfl) rfl).trans (PreT.shift rfl)
  have h2 := preT_inl_sp (content := content) [r0] ((.inlAnnB, p) :: K) lc ht uq sp hsp (p + 1) hsps
  cases txt with
  | nil =>
    -- the line break arrives in state `inlAnn`: an empty text
    simp only [List.length_nil, Nat.add_zero] at hnl ⊢
    have h3 : PreT content data ⟨.inlAnn, [r0], (.inlAnnB, p) :: K, [], p + 1 + sp.length, true, false, lc, ht, uq⟩
        [⟨.inlTxtB, p + 1 + sp.length, p + 1 + sp.length⟩, ⟨.inlTxtE, p + 1 + sp.length, p + 1 + sp.length - 1⟩,
         ⟨.inlAnnE, p, p + 1 + sp.length - 1⟩, ⟨.newLine, p + 1 + sp.length, p + 1 + sp.length⟩]
        ⟨r0, [], K, [], p + 1 + sp.length + 1, false, false, lc, ht, uq⟩ :=
      ((((PreT.byte hnl (fun p1 => by unfold dispatch; unfold dispatch; rfl) rfl).trans (PreT.shift rfl)).trans
        (PreT.shift rfl)).trans (PreT.shift rfl)).trans (PreT.shift rfl)
    exact ((h1.trans h2).trans h3).cast (by simp [inlEvs])
  | cons c cs =>
    obtain ⟨hc, hcs⟩ := htxs
    have hns : c.isSpace = false := htx.2 c rfl
    have hnn : c.isNewLine = false := htx.1 c (by simp)
    have h3 : PreT content data ⟨.inlAnn, [r0], (.inlAnnB, p) :: K, [], p + 1 + sp.length, true, false, lc, ht, uq⟩
        [⟨.inlTxtB, p + 1 + sp.length, p + 1 + sp.length⟩]
        ⟨.inlTxt, [r0], (.inlTxtB, p + 1 + sp.length) :: (.inlAnnB, p) :: K, [], p + 1 + sp.length + 1, true, false,
          lc, ht, uq⟩ := by
      cases c <;> simp [Cls.isSpace, Cls.isNewLine] at hns hnn <;>
        exact (PreT.byte hc (fun p1 => by unfold dispatch; unfold dispatch; rfl) rfl).trans (PreT.shift rfl)
    have h4 := preT_inlTxt (content := content) [r0] ((.inlTxtB, p + 1 + sp.length) :: (.inlAnnB, p) :: K) lc ht uq cs
      (fun x hx => htx.1 x (by simp [hx])) (p + 1 + sp.length + 1) hcs
    have hnl' : data[p + 1 + sp.length + 1 + cs.length]? = some .nl := by
      rw [show p + 1 + sp.length + 1 + cs.length = p + 1 + sp.length + (c :: cs).length by
        simp only [List.length_cons]; omega]
      exact hnl
    have h5 : PreT content data
        ⟨.inlTxt, [r0], (.inlTxtB, p + 1 + sp.length) :: (.inlAnnB, p) :: K, [], p + 1 + sp.length + 1 + cs.length, true,
          false, lc, ht, uq⟩
        [⟨.inlTxtE, p + 1 + sp.length, p + 1 + sp.length + 1 + cs.length - 1⟩,
         ⟨.inlAnnE, p, p + 1 + sp.length + 1 + cs.length - 1⟩,
         ⟨.newLine, p + 1 + sp.length + 1 + cs.length, p + 1 + sp.length + 1 + cs.length⟩]
        ⟨r0, [], K, [], p + 1 + sp.length + 1 + cs.length + 1, false, false, lc, ht, uq⟩ :=
      (((PreT.byte hnl' (fun p1 => by unfold dispatch; rfl) rfl).trans (PreT.shift rfl)).trans
        (PreT.shift rfl)).trans (PreT.shift rfl)
    refine ((((h1.trans h2).trans h3).trans h4).trans h5).cast ?_ |>.castS ?_
    · simp only [inlEvs, List.length_cons, List.cons_append, List.nil_append, List.append_nil, List.cons.injEq,
        and_true, true_and]
      refine ⟨?_, ?_, ?_⟩ <;> (congr 1 <;> omega)
    · simp only [List.length_cons]
      rw [show p + 1 + sp.length + 1 + cs.length + 1 = p + 1 + sp.length + (cs.length + 1) + 1 by omega]

/-! ### `/* ws txt */` -/

/-- no `*` is directly followed by `/` -/
def noClose : List Cls → Bool
  | [] => true
  | [_] => true
  | a :: b :: rest => !(a == .star && b == .slash) && noClose (b :: rest)

/-- the text of a multi-line comment: it does not contain `*/`, its first byte is not blank -/
def MlTxt (txt : List Cls) : Prop := noClose (txt ++ [.star]) = true ∧ ∀ c, txt.head? = some c → c.isBlank = false

theorem preT_ml_ws (r : List St) (K : List (LexT × Nat)) (lc ht : Bool) (uq : List (List UInt8 × Bool))
    (ws : List Cls) (hw : IsWs ws) : ∀ i, SegA data i ws →
    PreT content data ⟨.mlAnn, r, K, [], i, true, false, lc, ht, uq⟩ (nlEvs i ws)
      ⟨.mlAnn, r, K, [], i + ws.length, true, false, lc, ht, uq⟩ := by
  induction ws with
  | nil => intro i _; exact PreT.refl _
  | cons c cs ih =>
    intro i hseg
    obtain ⟨hc, hcs⟩ := hseg
    have hb := hw c (by simp)
    have h1 : PreT content data ⟨.mlAnn, r, K, [], i, true, false, lc, ht, uq⟩
        (if c.isNewLine then [⟨.newLine, i, i⟩] else [])
        ⟨.mlAnn, r, K, [], i + 1, true, false, lc, ht, uq⟩ := by
      cases c <;> simp [Cls.isBlank, Cls.isSpace, Cls.isNewLine] at hb ⊢ <;>
        first
        | exact PreT.byte hc (fun p1 => by unfold dispatch; rfl) rfl
        | exact (PreT.byte hc (fun p1 => by unfold dispatch; rfl) rfl).trans (PreT.shift rfl)
    have h2 := ih (fun x hx => hw x (by simp [hx])) (i + 1) hcs
    simp only [List.length_cons, nlEvs]
    rw [show i + (cs.length + 1) = i + 1 + cs.length by omega]
    exact h1.trans h2

theorem mlTxt_stay (r : List St) (K : List (LexT × Nat)) (i : Nat) (lc ht : Bool) (uq : List (List UInt8 × Bool))
    (c : Cls) (p1 : Option Cls) (h : (c == .star && p1 == some .slash) = false) :
    dispatch content 8 ⟨.mlTxt, r, K, [], i, true, false, lc, ht, uq⟩ c p1
      = .ok ⟨.mlTxt, r, K, [], i, true, false, lc, ht, uq⟩ := by
  unfold dispatch
  simp only [h, Bool.false_eq_true, if_false]
  rfl

theorem getElem?_head_of_seg {i : Nat} {c : Cls} {cs : List Cls} (h : SegA data i (c :: cs)) : data[i]? = some c := h.1

/-- the bytes of the text, each seen with the byte behind it -/
theorem preT_mlTxt (r : List St) (K : List (LexT × Nat)) (lc ht : Bool) (uq : List (List UInt8 × Bool))
    (txt : List Cls) : ∀ (z : Cls) (i : Nat), SegA data i (txt ++ [z]) → noClose (txt ++ [z]) = true →
    PreT content data ⟨.mlTxt, r, K, [], i, true, false, lc, ht, uq⟩ []
      ⟨.mlTxt, r, K, [], i + txt.length, true, false, lc, ht, uq⟩ := by
  induction txt with
  | nil => intro z i _ _; exact PreT.refl _
  | cons c cs ih =>
    intro z i hseg hno
    obtain ⟨hc, hcs⟩ := hseg
    have hcs : SegA data (i + 1) (cs ++ [z]) := hcs
    -- the byte behind `c`
    obtain ⟨n, tl, hn⟩ : ∃ n tl, cs ++ [z] = n :: tl := by
      cases cs with
      | nil => exact ⟨z, [], rfl⟩
      | cons x xs => exact ⟨x, xs ++ [z], rfl⟩
    have hnx : data[i + 1]? = some n := by rw [hn] at hcs; exact hcs.1
    have hno' : (c == .star && n == .slash) = false ∧ noClose (cs ++ [z]) = true := by
      have : noClose (c :: n :: tl) = true := by
        have e : (c :: cs) ++ [z] = c :: n :: tl := by simp [hn]
        rw [← e]; exact hno
      simp only [noClose, Bool.and_eq_true, Bool.not_eq_true'] at this
      rw [hn]
      exact this
    have h1 : PreT content data ⟨.mlTxt, r, K, [], i, true, false, lc, ht, uq⟩ []
        ⟨.mlTxt, r, K, [], i + 1, true, false, lc, ht, uq⟩ :=
      PreT.byteP hc (by
        rw [hnx]
        exact mlTxt_stay r K (i + 1) lc ht uq c (some n) (by
          cases hcs' : (c == Cls.star) <;> simp [hcs'] at hno' ⊢
          exact hno'.1)) rfl
    have h2 := ih z (i + 1) hcs hno'.2
    simp only [List.length_cons]
    rw [show i + (cs.length + 1) = i + 1 + cs.length by omega]
    exact h1.trans h2

/-- the events of `/* ws txt */` whose `*` stands at `p` -/
def mlEvs (p : Nat) (ws txt : List Cls) : List Ev :=
  ⟨.mlAnnB, p, p⟩ :: (nlEvs (p + 1) ws ++
    [⟨.mlTxtB, p + 1 + ws.length, p + 1 + ws.length⟩,
     ⟨.mlTxtE, p + 1 + ws.length, p + 1 + ws.length + txt.length - 1⟩,
     ⟨.mlAnnE, p, p + 1 + ws.length + txt.length + 1⟩])

/-- from behind the `/`: `* ws txt * /`, back to the state `r0` the comment interrupted -/
theorem preT_ml_body (r0 : St) (K : List (LexT × Nat)) (lc ht : Bool) (uq : List (List UInt8 × Bool))
    (ws txt : List Cls) (hw : IsWs ws) (htx : MlTxt txt) (p : Nat)
    (hseg : SegA data p (.star :: (ws ++ (txt ++ [.star, .slash])))) :
    PreT content data ⟨.anyAnnStart, [r0], K, [], p, false, false, lc, ht, uq⟩ (mlEvs p ws txt)
      ⟨r0, [], K, [], p + 1 + ws.length + txt.length + 2, false, false, lc, ht, uq⟩ := by
  obtain ⟨hst, hrest⟩ := hseg
  obtain ⟨hwss, hrest⟩ := SegA_append hrest
  have h1 : PreT content data ⟨.anyAnnStart, [r0], K, [], p, false, false, lc, ht, uq⟩ [⟨.mlAnnB, p, p⟩]
      ⟨.mlAnn, [r0], (.mlAnnB, p) :: K, [], p + 1, true, false, lc, ht, uq⟩ :=
    (PreT.byte hst (fun p1 => by unfold dispatch; rfl) rfl).trans (PreT.shift rfl)
  have h2 := preT_ml_ws (content := content) [r0] ((.mlAnnB, p) :: K) lc ht uq ws hw (p + 1) hwss
  -- the end: `*` seen with `/` behind it, then `/`
  have hend : ∀ (q tb : Nat), data[q]? = some .star → data[q + 1]? = some .slash →
      PreT content data ⟨.mlTxt, [r0], (.mlTxtB, tb) :: (.mlAnnB, p) :: K, [], q, true, false, lc, ht, uq⟩
        [⟨.mlTxtE, tb, q - 1⟩, ⟨.mlAnnE, p, q + 1⟩]
        ⟨r0, [], K, [], q + 2, false, false, lc, ht, uq⟩ := by
    intro q tb h1 h2
    have a1 : PreT content data ⟨.mlTxt, [r0], (.mlTxtB, tb) :: (.mlAnnB, p) :: K, [], q, true, false, lc, ht, uq⟩
        [⟨.mlTxtE, tb, q - 1⟩]
        ⟨.mlAnnEnd, [r0], (.mlAnnB, p) :: K, [], q + 1, true, false, lc, ht, uq⟩ :=
      (PreT.byteP h1 (by rw [h2]; unfold dispatch; rfl) rfl).trans (PreT.shift rfl)
    have a2 : PreT content data ⟨.mlAnnEnd, [r0], (.mlAnnB, p) :: K, [], q + 1, true, false, lc, ht, uq⟩
        [⟨.mlAnnE, p, q + 1⟩]
        ⟨r0, [], K, [], q + 1 + 1, false, false, lc, ht, uq⟩ :=
      (PreT.byte h2 (fun p1 => by unfold dispatch; rfl) rfl).trans (PreT.shift rfl)
    exact (a1.trans a2).cast rfl
  cases txt with
  | nil =>
    simp only [List.nil_append] at hrest
    obtain ⟨hs1, hs2, _⟩ := hrest
    -- the closing `*` arrives in state `mlAnn`: an empty text
    have h3 : PreT content data ⟨.mlAnn, [r0], (.mlAnnB, p) :: K, [], p + 1 + ws.length, true, false, lc, ht, uq⟩
        [⟨.mlTxtB, p + 1 + ws.length, p + 1 + ws.length⟩, ⟨.mlTxtE, p + 1 + ws.length, p + 1 + ws.length - 1⟩]
        ⟨.mlAnnEnd, [r0], (.mlAnnB, p) :: K, [], p + 1 + ws.length + 1, true, false, lc, ht, uq⟩ :=
      ((PreT.byteP hs1 (by rw [hs2]; unfold dispatch; unfold dispatch; rfl) rfl).trans (PreT.shift rfl)).trans
        (PreT.shift rfl)
    have h4 : PreT content data ⟨.mlAnnEnd, [r0], (.mlAnnB, p) :: K, [], p + 1 + ws.length + 1, true, false, lc, ht, uq⟩
        [⟨.mlAnnE, p, p + 1 + ws.length + 1⟩]
        ⟨r0, [], K, [], p + 1 + ws.length + 1 + 1, false, false, lc, ht, uq⟩ :=
      (PreT.byte hs2 (fun p1 => by unfold dispatch; rfl) rfl).trans (PreT.shift rfl)
    exact (((h1.trans h2).trans h3).trans h4).cast (by simp [mlEvs])
  | cons c cs =>
    have hrest' : SegA data (p + 1 + ws.length) ((c :: cs) ++ [.star] ++ [.slash]) := by
      simpa [List.append_assoc] using hrest
    obtain ⟨htxs, hsl⟩ := SegA_append hrest'
    obtain ⟨hsl, _⟩ := hsl
    have hc : data[p + 1 + ws.length]? = some c := htxs.1
    have hnb : c.isBlank = false := htx.2 c rfl
    -- the byte behind `c`
    obtain ⟨n, tl, hn⟩ : ∃ n tl, cs ++ [Cls.star] = n :: tl := by
      cases cs with
      | nil => exact ⟨.star, [], rfl⟩
      | cons x xs => exact ⟨x, xs ++ [.star], rfl⟩
    have hcs : SegA data (p + 1 + ws.length + 1) (cs ++ [.star]) := htxs.2
    have hnx : data[p + 1 + ws.length + 1]? = some n := by rw [hn] at hcs; exact hcs.1
    have hno : (c == .star && n == .slash) = false ∧ noClose (cs ++ [.star]) = true := by
      have : noClose (c :: n :: tl) = true := by
        have e : (c :: cs) ++ [Cls.star] = c :: n :: tl := by simp [hn]
        rw [← e]; exact htx.1
      simp only [noClose, Bool.and_eq_true, Bool.not_eq_true'] at this
      rw [hn]
      exact this
    have h3 : PreT content data ⟨.mlAnn, [r0], (.mlAnnB, p) :: K, [], p + 1 + ws.length, true, false, lc, ht, uq⟩
        [⟨.mlTxtB, p + 1 + ws.length, p + 1 + ws.length⟩]
        ⟨.mlTxt, [r0], (.mlTxtB, p + 1 + ws.length) :: (.mlAnnB, p) :: K, [], p + 1 + ws.length + 1, true, false,
          lc, ht, uq⟩ := by
      have b1 : PreT content data ⟨.mlAnn, [r0], (.mlAnnB, p) :: K, [], p + 1 + ws.length, true, false, lc, ht, uq⟩ []
          ⟨.mlTxt, [r0], (.mlAnnB, p) :: K, [.mlTxtB], p + 1 + ws.length + 1, true, false, lc, ht, uq⟩ := by
        refine PreT.byteP hc ?_ rfl
        rw [hnx]
        cases c <;> simp [Cls.isBlank, Cls.isSpace, Cls.isNewLine] at hnb <;>
          first
          | (unfold dispatch; unfold dispatch; rfl)
          | (cases n <;> simp at hno <;> (unfold dispatch; unfold dispatch; rfl))
      exact b1.trans (PreT.shift rfl)
    have h4 := preT_mlTxt (content := content) [r0] ((.mlTxtB, p + 1 + ws.length) :: (.mlAnnB, p) :: K) lc ht uq cs
      .star (p + 1 + ws.length + 1) hcs hno.2
    have hstar : data[p + 1 + ws.length + 1 + cs.length]? = some .star := by
      obtain ⟨_, h⟩ := SegA_append hcs
      exact h.1
    have hslash : data[p + 1 + ws.length + 1 + cs.length + 1]? = some .slash := by
      have : p + 1 + ws.length + ((c :: cs) ++ [Cls.star]).length = p + 1 + ws.length + 1 + cs.length + 1 := by
        simp only [List.length_append, List.length_cons, List.length_nil]; omega
      rw [← this]; exact hsl
    have h5 := hend (p + 1 + ws.length + 1 + cs.length) (p + 1 + ws.length) hstar hslash
    refine ((((h1.trans h2).trans h3).trans h4).trans h5).cast ?_ |>.castS ?_
    · simp only [mlEvs, List.length_cons, List.cons_append, List.nil_append, List.append_nil, List.append_assoc,
        List.cons.injEq, true_and]
      congr 1
      simp only [List.cons.injEq, true_and, and_true]
      refine ⟨?_, ?_⟩ <;> (congr 1 <;> omega)
    · simp only [List.length_cons]
      rw [show p + 1 + ws.length + 1 + cs.length + 2 = p + 1 + ws.length + (cs.length + 1) + 2 by omega]

end EnumScan
