import JSight.Dfs
import JSight.ValidateRProofs
import JSight.Example
/-!
C15, second half, with user-type references: whenever the example builder completes *without a recursion
cut-off* (no child omitted), the document it builds is accepted by the validator — for arbitrary (also
recursive) type tables, any literal rule semantics. The builder follows the first name of a reference, as
`example.go` does; the validator accepts through any alternative (`alts`, C03).
The cut-off cases are exactly where the known findings K-C15-reqcut / K-C15-arraycut live.
-/
namespace VR
open VN (J)
variable {L D : Type}

def bump (proc : String → Nat) (n : String) : String → Nat := fun m => if m == n then proc m + 1 else proc m

mutual
/-- the example document; `none` = unknown type, out of fuel, or a recursion cut-off anywhere below -/
def exDoc (env : Env L) (ex : L → D) : Nat → (String → Nat) → S L → Option (J D)
  | _, _, .lit l => some (.lit (ex l))
  | _, _, .any => some (.arr [])
  | fuel, proc, .arr items => (exItems env ex fuel proc items).map .arr
  | fuel, proc, .obj props => (exProps env ex fuel proc props).map .obj
  | 0, _, .ref _ _ => none
  | _ + 1, _, .ref [] _ => none
  | fuel + 1, proc, .ref (n :: _) _ =>
    if proc n > 1 then none
    else match lookupT env n with
      | some t => exDoc env ex fuel (bump proc n) t
      | none => none
termination_by fuel _ s => (fuel, sizeOf s)
def exItems (env : Env L) (ex : L → D) : Nat → (String → Nat) → List (S L) → Option (List (J D))
  | _, _, [] => some []
  | fuel, proc, s :: ss =>
    match exDoc env ex fuel proc s, exItems env ex fuel proc ss with
    | some x, some xs => some (x :: xs)
    | _, _ => none
termination_by fuel _ ss => (fuel, sizeOf ss)
def exProps (env : Env L) (ex : L → D) : Nat → (String → Nat) → List (String × Bool × S L) → Option (List (String × J D))
  | _, _, [] => some []
  | fuel, proc, (k, _, s) :: ps =>
    match exDoc env ex fuel proc s, exProps env ex fuel proc ps with
    | some x, some xs => some ((k, x) :: xs)
    | _, _ => none
termination_by fuel _ ps => (fuel, sizeOf ps)
end

def keysNodup : List (String × Bool × S L) → Bool
  | [] => true
  | (k, _, _) :: ps => !(ps.any (fun p => p.1 == k)) && keysNodup ps

mutual
/-- what `Check` establishes on one schema text: every literal passes its own rules, keys are unique -/
def checkedS (litOK : L → D → Bool) (ex : L → D) : S L → Bool
  | .lit l => litOK l (ex l)
  | .any => true
  | .arr items => checkedItems litOK ex items
  | .obj props => checkedProps litOK ex props && keysNodup props
  | .ref _ _ => true
def checkedItems (litOK : L → D → Bool) (ex : L → D) : List (S L) → Bool
  | [] => true
  | s :: ss => checkedS litOK ex s && checkedItems litOK ex ss
def checkedProps (litOK : L → D → Bool) (ex : L → D) : List (String × Bool × S L) → Bool
  | [] => true
  | (_, _, s) :: ps => checkedS litOK ex s && checkedProps litOK ex ps
end

/-- … and on every user type -/
def CheckedEnv (env : Env L) (litOK : L → D → Bool) (ex : L → D) : Prop :=
  ∀ n t, lookupT env n = some t → checkedS litOK ex t = true

theorem childAt_append (pre : List (S L)) (s : S L) (ss : List (S L)) :
    childAt (pre ++ s :: ss) pre.length = some s := by
  unfold childAt
  cases h : pre ++ s :: ss with
  | nil => simp at h
  | cons a l =>
    rw [← h]
    have : min pre.length ((pre ++ s :: ss).length - 1) = pre.length := by simp
    rw [this]; simp

theorem lookup_of_nodup (props : List (String × Bool × S L)) (h : keysNodup props = true)
    (k : String) (r : Bool) (s : S L) (hm : (k, r, s) ∈ props) : lookup props k = some s := by
  induction props with
  | nil => simp at hm
  | cons p ps ih =>
    obtain ⟨k', r', s'⟩ := p
    have h' : (ps.any (fun p => p.1 == k')) = false ∧ keysNodup ps = true := by
      simpa [keysNodup] using h
    replace h := h'
    simp only [List.mem_cons, Prod.mk.injEq] at hm
    rcases hm with ⟨hk, _, hs⟩ | hm
    · subst hk; subst hs
      simp [lookup, List.find?]
    · have hne : (k' == k) = false := by
        cases hkk : (k' == k) with
        | false => rfl
        | true =>
          have : k' = k := by simpa using hkk
          subst this
          have : ps.any (fun p => p.1 == k') = true := List.any_eq_true.2 ⟨(k', r, s), hm, by simp⟩
          rw [this] at h
          exact absurd h.1 (by simp)
      have := ih h.2 hm
      simp only [lookup, List.find?, hne] at this ⊢
      exact this

theorem alts_nonref (env : Env L) (s : S L) (h : isRef s = false) : alts env s = [s] := by
  unfold alts; rw [build_nonref env _ s h]; rfl

/-- the alternatives of the first name's type are alternatives of the reference -/
theorem alts_of_first (env : Env L) (n : String) (ns : List String) (nul : Option L) (t : S L)
    (hl : lookupT env n = some t) (a : S L) (ha : a ∈ alts env t) : a ∈ alts env (.ref (n :: ns) nul) :=
  alts_complete env (n :: ns) nul n (by simp) a (reachS_of_name env n t hl a ((alts_iff_reach env t a).1 ha))

theorem exProps_keys (env : Env L) (ex : L → D) (fuel : Nat) (proc : String → Nat) :
    (ps : List (String × Bool × S L)) → ∀ ms, exProps env ex fuel proc ps = some ms → ms.map (·.1) = ps.map (·.1)
  | [], ms, h => by simp [exProps] at h; subst h; rfl
  | (k, r, s) :: ps, ms, h => by
    simp only [exProps] at h
    cases h1 : exDoc env ex fuel proc s with
    | none => rw [h1] at h; simp at h
    | some x =>
      cases h2 : exProps env ex fuel proc ps with
      | none => rw [h1, h2] at h; simp at h
      | some xs =>
        rw [h1, h2] at h; simp at h; subst h
        simp [exProps_keys env ex fuel proc ps xs h2]

section selfvalid
variable (env : Env L) (litOK : L → D → Bool) (ex : L → D) (henv : CheckedEnv env litOK ex)
include henv

mutual
theorem ex_shape : (fuel : Nat) → (proc : String → Nat) → (s : S L) → checkedS litOK ex s = true →
    ∀ d, exDoc env ex fuel proc s = some d → (alts env s).any (fun a => shapeA env litOK a d) = true
  | fuel, proc, .lit l, hc => by
    intro d h; simp [exDoc] at h; subst h
    rw [alts_nonref env _ rfl]
    simpa [shapeA, checkedS] using hc
  | fuel, proc, .any, _ => by
    intro d h
    rw [alts_nonref env _ rfl]; simp [shapeA]
  | fuel, proc, .arr items, hc => by
    intro d h
    simp only [exDoc] at h
    cases hk : exItems env ex fuel proc items with
    | none => rw [hk] at h; simp at h
    | some xs =>
      rw [hk] at h; simp at h; subst h
      have := ex_items fuel proc [] items (by simpa [checkedS] using hc) xs hk
      rw [alts_nonref env _ rfl]
      simpa [shapeA] using this
  | fuel, proc, .obj props, hc => by
    intro d h
    simp only [exDoc] at h
    cases hk : exProps env ex fuel proc props with
    | none => rw [hk] at h; simp at h
    | some ms =>
      rw [hk] at h; simp at h; subst h
      simp only [checkedS, Bool.and_eq_true] at hc
      have h1 := ex_props fuel proc props [] props rfl hc.2 hc.1 ms hk
      have hkeys := exProps_keys env ex fuel proc props ms hk
      rw [alts_nonref env _ rfl]
      simp only [List.any_cons, List.any_nil, Bool.or_false, shapeA, Bool.and_eq_true]
      refine ⟨h1, ?_⟩
      rw [List.all_eq_true]
      intro k hk'
      simp only [requiredKeys, List.mem_map, List.mem_filter] at hk'
      obtain ⟨p, ⟨hp, _⟩, rfl⟩ := hk'
      have : p.1 ∈ ms.map (·.1) := by rw [hkeys]; exact List.mem_map.2 ⟨p, hp, rfl⟩
      obtain ⟨m, hm, hmk⟩ := List.mem_map.1 this
      exact List.any_eq_true.2 ⟨m, hm, by simp [hmk]⟩
  | 0, proc, .ref _ _, _ => by intro d h; simp [exDoc] at h
  | fuel + 1, proc, .ref [] _, _ => by intro d h; simp [exDoc] at h
  | fuel + 1, proc, .ref (n :: ns) nul, _ => by
    intro d h
    simp only [exDoc] at h
    split at h
    · simp at h
    · cases hl : lookupT env n with
      | none => rw [hl] at h; simp at h
      | some t =>
        rw [hl] at h
        have ih := ex_shape fuel (bump proc n) t (henv n t hl) d h
        obtain ⟨a, ha, hs⟩ := List.any_eq_true.1 ih
        exact List.any_eq_true.2 ⟨a, alts_of_first env n ns nul t hl a ha, hs⟩
termination_by fuel _ s _ => (fuel, sizeOf s)
theorem ex_items : (fuel : Nat) → (proc : String → Nat) → (pre ss : List (S L)) → checkedItems litOK ex ss = true →
    ∀ xs, exItems env ex fuel proc ss = some xs → shapeItems env litOK (pre ++ ss) pre.length xs = true
  | fuel, proc, pre, [], _ => by intro xs h; simp [exItems] at h; subst h; simp [shapeItems]
  | fuel, proc, pre, s :: ss, hc => by
    intro xs h
    simp only [checkedItems, Bool.and_eq_true] at hc
    simp only [exItems] at h
    cases h1 : exDoc env ex fuel proc s with
    | none => rw [h1] at h; simp at h
    | some x =>
      cases h2 : exItems env ex fuel proc ss with
      | none => rw [h1, h2] at h; simp at h
      | some rest =>
        rw [h1, h2] at h; simp at h; subst h
        have e1 := ex_shape fuel proc s hc.1 x h1
        have e2 := ex_items fuel proc (pre ++ [s]) ss hc.2 rest h2
        simp only [shapeItems, childAt_append, e1, Bool.true_and]
        simpa [List.append_assoc] using e2
termination_by fuel _ _ ss _ => (fuel, sizeOf ss)
theorem ex_props : (fuel : Nat) → (proc : String → Nat) → (props pre ps : List (String × Bool × S L)) →
    props = pre ++ ps → keysNodup props = true → checkedProps litOK ex ps = true →
    ∀ ms, exProps env ex fuel proc ps = some ms → shapeMembers env litOK props ms = true
  | fuel, proc, props, pre, [], _, _, _ => by intro ms h; simp [exProps] at h; subst h; simp [shapeMembers]
  | fuel, proc, props, pre, (k, r, s) :: ps, hp, hn, hc => by
    intro ms h
    simp only [checkedProps, Bool.and_eq_true] at hc
    simp only [exProps] at h
    cases h1 : exDoc env ex fuel proc s with
    | none => rw [h1] at h; simp at h
    | some x =>
      cases h2 : exProps env ex fuel proc ps with
      | none => rw [h1, h2] at h; simp at h
      | some rest =>
        rw [h1, h2] at h; simp at h; subst h
        have hmem : (k, r, s) ∈ props := by rw [hp]; simp
        have hl := lookup_of_nodup props hn k r s hmem
        have e1 := ex_shape fuel proc s hc.1 x h1
        have e2 := ex_props fuel proc props (pre ++ [(k, r, s)]) ps (by rw [hp]; simp) hn hc.2 rest h2
        simp only [shapeMembers, hl, e1, Bool.true_and]
        exact e2
termination_by fuel _ _ _ ps _ _ _ => (fuel, sizeOf ps)
end

/-- **C15 with references**: if the builder completes without a cut-off, `Validate` accepts what it built -/
theorem C15_self_valid_refs (fuel : Nat) (proc : String → Nat) (s : S L) (hc : checkedS litOK ex s = true)
    (d : J D) (h : exDoc env ex fuel proc s = some d) : validateT env litOK s d = true := by
  rw [C03_named_types]
  exact ex_shape env litOK ex henv fuel proc s hc d h

end selfvalid

/-! ### the builder model `EX.tree` emits exactly that document -/
section bridge
open JsonScan (Cls JA)
variable {L D : Type} (tok : D → List Cls) (keyTok : String → List Cls)

mutual
def ofR (ex : L → D) : S L → EX.N
  | .lit l => .lit (tok (ex l))
  | .any => .arr []
  | .arr items => .arr (ofRItems ex items)
  | .obj props => .obj (ofRProps ex props)
  | .ref [] _ => .ref ""
  | .ref (n :: _) _ => .ref n
def ofRItems (ex : L → D) : List (S L) → List EX.N
  | [] => []
  | s :: ss => ofR ex s :: ofRItems ex ss
def ofRProps (ex : L → D) : List (String × Bool × S L) → List (List Cls × EX.N)
  | [] => []
  | (k, _, s) :: ps => (keyTok k, ofR ex s) :: ofRProps ex ps
end

def tsOf (ex : L → D) (env : Env L) : EX.Types := env.map fun p => (p.1, ofR tok keyTok ex p.2)

theorem lookup_tsOf (ex : L → D) (env : Env L) (n : String) :
    EX.lookupT (tsOf tok keyTok ex env) n = (lookupT env n).map (ofR tok keyTok ex) := by
  induction env with
  | nil => rfl
  | cons p ps ih =>
    simp only [tsOf, List.map_cons, EX.lookupT, lookupT, List.find?] at ih ⊢
    cases h : (p.1 == n) with
    | true => simp
    | false => simpa using ih

mutual
def jaOfN : J D → JA
  | .lit d => .scalar (tok d)
  | .arr xs => .arr [] ((jaItemsN xs).map fun v => ([], v, []))
  | .obj ms => .obj [] ((jaMembersN ms).map fun m => ([], m.1, [], [], m.2, []))
def jaItemsN : List (J D) → List JA
  | [] => []
  | x :: xs => jaOfN x :: jaItemsN xs
def jaMembersN : List (String × J D) → List (List Cls × JA)
  | [] => []
  | (k, v) :: ms => (keyTok k, jaOfN v) :: jaMembersN ms
end

variable (env : Env L) (ex : L → D)

mutual
theorem tree_ofR : (fuel : Nat) → (proc : String → Nat) → (s : S L) → ∀ d, exDoc env ex fuel proc s = some d →
    EX.tree (tsOf tok keyTok ex env) fuel proc (ofR tok keyTok ex s) = some (some (jaOfN tok keyTok d))
  | fuel, proc, .lit l => by intro d h; simp [exDoc] at h; subst h; simp [ofR, EX.tree, jaOfN]
  | fuel, proc, .any => by intro d h; simp [exDoc] at h; subst h; simp [ofR, EX.tree, EX.treeKids, jaOfN, jaItemsN]
  | fuel, proc, .arr items => by
    intro d h
    simp only [exDoc] at h
    cases hk : exItems env ex fuel proc items with
    | none => rw [hk] at h; simp at h
    | some xs =>
      rw [hk] at h; simp at h; subst h
      simp only [ofR, EX.tree, jaOfN]
      rw [treeKids_ofR fuel proc items xs hk]
  | fuel, proc, .obj props => by
    intro d h
    simp only [exDoc] at h
    cases hk : exProps env ex fuel proc props with
    | none => rw [hk] at h; simp at h
    | some ms =>
      rw [hk] at h; simp at h; subst h
      simp only [ofR, EX.tree, jaOfN]
      rw [treeProps_ofR fuel proc props ms hk]
  | 0, proc, .ref _ _ => by intro d h; simp [exDoc] at h
  | fuel + 1, proc, .ref [] _ => by intro d h; simp [exDoc] at h
  | fuel + 1, proc, .ref (n :: ns) nul => by
    intro d h
    simp only [exDoc] at h
    split at h
    · simp at h
    · rename_i hp
      cases hl : lookupT env n with
      | none => rw [hl] at h; simp at h
      | some t =>
        rw [hl] at h
        have ih := tree_ofR fuel (bump proc n) t d h
        simp only [ofR, EX.tree, hp, if_false]
        rw [lookup_tsOf, hl]
        exact ih
termination_by fuel _ s => (fuel, sizeOf s)
theorem treeKids_ofR : (fuel : Nat) → (proc : String → Nat) → (ss : List (S L)) → ∀ xs, exItems env ex fuel proc ss = some xs →
    EX.treeKids (tsOf tok keyTok ex env) fuel proc (ofRItems tok keyTok ex ss) = some (jaItemsN tok keyTok xs)
  | fuel, proc, [] => by intro xs h; simp [exItems] at h; subst h; simp [ofRItems, EX.treeKids, jaItemsN]
  | fuel, proc, s :: ss => by
    intro xs h
    simp only [exItems] at h
    cases h1 : exDoc env ex fuel proc s with
    | none => rw [h1] at h; simp at h
    | some x =>
      cases h2 : exItems env ex fuel proc ss with
      | none => rw [h1, h2] at h; simp at h
      | some rest =>
        rw [h1, h2] at h; simp at h; subst h
        simp only [ofRItems, EX.treeKids, jaItemsN]
        rw [tree_ofR fuel proc s x h1, treeKids_ofR fuel proc ss rest h2]
termination_by fuel _ ss => (fuel, sizeOf ss)
theorem treeProps_ofR : (fuel : Nat) → (proc : String → Nat) → (ps : List (String × Bool × S L)) →
    ∀ ms, exProps env ex fuel proc ps = some ms →
    EX.treeProps (tsOf tok keyTok ex env) fuel proc (ofRProps tok keyTok ex ps) = some (jaMembersN tok keyTok ms)
  | fuel, proc, [] => by intro ms h; simp [exProps] at h; subst h; simp [ofRProps, EX.treeProps, jaMembersN]
  | fuel, proc, (k, r, s) :: ps => by
    intro ms h
    simp only [exProps] at h
    cases h1 : exDoc env ex fuel proc s with
    | none => rw [h1] at h; simp at h
    | some x =>
      cases h2 : exProps env ex fuel proc ps with
      | none => rw [h1, h2] at h; simp at h
      | some rest =>
        rw [h1, h2] at h; simp at h; subst h
        simp only [ofRProps, EX.treeProps, jaMembersN]
        rw [tree_ofR fuel proc s x h1, treeProps_ofR fuel proc ps rest h2]
termination_by fuel _ ps => (fuel, sizeOf ps)
end

/-- the bytes `Example()` emits in that case are the compact text of that document -/
theorem build_ofR (fuel : Nat) (proc : String → Nat) (s : S L) (d : J D) (h : exDoc env ex fuel proc s = some d) :
    EX.build (tsOf tok keyTok ex env) fuel proc (ofR tok keyTok ex s) = some (some (jaOfN tok keyTok d).render) := by
  rw [EX.build_eq, tree_ofR tok keyTok env ex fuel proc s d h]; rfl

end bridge

end VR
