import JSight.EnumEventsSem
/-!
Stepping lemmas for the enum-rule scanner on the literal-list grammar: token bytes (silent), layout, brackets,
the closing phase of an item (`endValue` → `validateValue` → `afterItem`), all as derived rules of `Out`.
-/
set_option linter.unusedSimpArgs false
set_option linter.unusedVariables false
namespace EnumScan
open SchemaScan (Cls classify)

variable {content : Array UInt8} {data : Array Cls}

/-! ### `Out` rules on explicit states -/

theorem Out.byte' {st : St} {ret : List St} {stack : List (LexT × Nat)} {i : Nat} {ann unf lc ht : Bool}
    {uq : List (List UInt8 × Bool)} {c : Cls} {s2 : Sc} {n : Nat} {r : M (List Ev)}
    (hc : data[i]? = some c)
    (hd : ∀ p1, dispatch content 8 ⟨st, ret, stack, [], i + 1, ann, unf, lc, ht, uq⟩ c p1 = .ok s2)
    (hi : s2.index = i + 1) (h : Out content data s2 n r) :
    Out content data ⟨st, ret, stack, [], i, ann, unf, lc, ht, uq⟩ n r :=
  Out.byte rfl hc (hd _) hi h

theorem Out.fail' {st : St} {ret : List St} {stack : List (LexT × Nat)} {i : Nat} {ann unf lc ht : Bool}
    {uq : List (List UInt8 × Bool)} {c : Cls} {e : Err}
    (hc : data[i]? = some c)
    (hd : ∀ p1, dispatch content 8 ⟨st, ret, stack, [], i + 1, ann, unf, lc, ht, uq⟩ c p1 = .error e)
    (hne : e ≠ .eos) :
    Out content data ⟨st, ret, stack, [], i, ann, unf, lc, ht, uq⟩ 0 (.error e) :=
  Out.fail rfl hc (hd _) hne

theorem Out.shift' {st : St} {ret : List St} {stack : List (LexT × Nat)} {t : LexT} {rest : List LexT} {i : Nat}
    {ann unf lc ht : Bool} {uq : List (List UInt8 × Bool)} {s1 : Sc} {ev : Ev} {n : Nat} {r : M (List Ev)}
    (hp : processFound ⟨st, ret, stack, rest, i, ann, unf, lc, ht, uq⟩ t = .ok (s1, ev))
    (h : Out content data s1 n r) :
    Out content data ⟨st, ret, stack, t :: rest, i, ann, unf, lc, ht, uq⟩ (n + 1) (r.map (ev :: ·)) :=
  Out.shift rfl hp h

theorem Out.cast {s : Sc} {n n' : Nat} {r r' : M (List Ev)} (h : Out content data s n r) (hn : n = n') (hr : r = r') :
    Out content data s n' r' := by
  subst hn hr; exact h

theorem map_map_cons (r : M (List Ev)) (a : List Ev) (e : Ev) :
    (r.map (a ++ ·)).map (e :: ·) = r.map ((e :: a) ++ ·) := by
  cases r <;> rfl

theorem map_map_app (r : M (List Ev)) (a b : List Ev) :
    (r.map (b ++ ·)).map (a ++ ·) = r.map ((a ++ b) ++ ·) := by
  cases r <;> simp [Except.map]

theorem map_nil_app (r : M (List Ev)) : r.map (([] : List Ev) ++ ·) = r := by
  cases r <;> simp [Except.map]

theorem map_cons_eq (r : M (List Ev)) (e : Ev) : r.map (e :: ·) = r.map ([e] ++ ·) := by
  cases r <;> rfl

/-! ### segments of the class array -/

def SegA (data : Array Cls) : Nat → List Cls → Prop
  | _, [] => True
  | i, c :: cs => data[i]? = some c ∧ SegA data (i + 1) cs

theorem SegA_append {i : Nat} {a b : List Cls} (h : SegA data i (a ++ b)) :
    SegA data i a ∧ SegA data (i + a.length) b := by
  induction a generalizing i with
  | nil => exact ⟨trivial, h⟩
  | cons c cs ih =>
    obtain ⟨h1, h2⟩ := h
    obtain ⟨h3, h4⟩ := ih h2
    refine ⟨⟨h1, h3⟩, ?_⟩
    simp only [List.length_cons]
    rw [show i + (cs.length + 1) = i + 1 + cs.length by omega]
    exact h4

/-! ### bytes inside a token -/

/-- a byte inside a token: no events; only `step`, `ret`, `unf` change -/
def silent : St → List St → Bool → Cls → Option (St × List St × Bool)
  | .inString, ret, unf, c => match c with
      | .quote => some (.endValue, ret, false)
      | .bslash => some (.esc, ret, unf)
      | .tab | .nl | .ctrl => none
      | _ => some (.inString, ret, unf)
  | .esc, ret, unf, c => match c with
      | .lb | .lf | .ln | .lr | .lt | .bslash | .slash | .quote => some (.inString, ret, unf)
      | .lu => some (.u0, .inString :: ret, unf)
      | _ => none
  | .u0, ret, unf, c => if c.isHex then some (.u1, ret, unf) else none
  | .u1, ret, unf, c => if c.isHex then some (.u2, ret, unf) else none
  | .u2, ret, unf, c => if c.isHex then some (.u3, ret, unf) else none
  | .u3, r :: ret, unf, c => if c.isHex then some (r, ret, unf) else none
  | .neg, ret, _, c => match c with | .zero => some (.d0, ret, false) | .d19 => some (.d1, ret, false) | _ => none
  | .d1, ret, unf, c => match c with
      | .zero | .d19 => some (.d1, ret, unf) | .dot => some (.dot, ret, true) | _ => none
  | .d0, ret, _, c => match c with | .dot => some (.dot, ret, true) | _ => none
  | .dot, ret, _, c => match c with | .zero | .d19 => some (.dot0, ret, false) | _ => none
  | .dot0, ret, unf, c => match c with | .zero | .d19 => some (.dot0, ret, unf) | _ => none
  | .t, ret, unf, c => match c with | .lr => some (.tr, ret, unf) | _ => none
  | .tr, ret, unf, c => match c with | .lu => some (.tru, ret, unf) | _ => none
  | .tru, ret, _, c => match c with | .le => some (.endValue, ret, false) | _ => none
  | .f, ret, unf, c => match c with | .la => some (.fa, ret, unf) | _ => none
  | .fa, ret, unf, c => match c with | .ll => some (.fal, ret, unf) | _ => none
  | .fal, ret, unf, c => match c with | .ls => some (.fals, ret, unf) | _ => none
  | .fals, ret, _, c => match c with | .le => some (.endValue, ret, false) | _ => none
  | .n, ret, unf, c => match c with | .lu => some (.nu, ret, unf) | _ => none
  | .nu, ret, unf, c => match c with | .ll => some (.nul, ret, unf) | _ => none
  | .nul, ret, _, c => match c with | .ll => some (.endValue, ret, false) | _ => none
  | _, _, _, _ => none

theorem silent_dispatch (st : St) (ret : List St) (unf : Bool) (c : Cls) (st' : St) (ret' : List St) (unf' : Bool)
    (h : silent st ret unf c = some (st', ret', unf')) (stack : List (LexT × Nat)) (i : Nat) (ann lc ht : Bool)
    (uq : List (List UInt8 × Bool)) (p1 : Option Cls) :
    dispatch content 8 ⟨st, ret, stack, [], i, ann, unf, lc, ht, uq⟩ c p1
      = .ok ⟨st', ret', stack, [], i, ann, unf', lc, ht, uq⟩ := by
  cases st <;> cases c <;> simp [silent, Cls.isHex] at h <;>
    first
    | (obtain ⟨rfl, rfl, rfl⟩ := h; unfold dispatch; first | rfl | (unfold state0; rfl))
    | (cases ret with
       | nil => simp [silent] at h
       | cons r0 ret0 =>
         simp [silent, Cls.isHex] at h <;>
         (obtain ⟨rfl, rfl, rfl⟩ := h; unfold dispatch; rfl))

end EnumScan
