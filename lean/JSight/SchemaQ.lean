import JSight.SchemaNextA
import JSight.SchemaFrameComp
/-! The frame property `DispatchQ` of `dispatch`, closing stage 3. -/
namespace SchemaScan

theorem Q_of_F {k s s'} (p2 : Option Cls) (h : F k s s') (hk : k ≤ 6) : Q s p2 s' :=
  Or.inl ⟨Or.inl h.1, by have := h.2; omega⟩

theorem comment_ret {st : St} {s : Sc} {eff : List LexT} (hst : st.isComment = true) (hG : Good st eff s.ret)
    {v : St × Sc} {s0 : Sc} (hp : popRet s0 = .ok v) (hs0 : s0.ret = s.ret) : v.fst.cflag = 0 := by
  obtain ⟨r, ret', hret, hrc, _⟩ := hG.comment_inv hst
  obtain ⟨rest, hr⟩ := popRet_head (r := v.fst) (s' := v.snd) hp
  rw [hs0, hret] at hr
  cases hr
  exact hrc

theorem popRet_frame {s : Sc} {v : St × Sc} (h : popRet s = .ok v) :
    v.snd.finds = s.finds ∧ v.snd.index = s.index := by
  unfold popRet at h
  split at h <;> cases h
  exact ⟨rfl, rfl⟩

theorem anyCommentStart_Q {f s c p1 p2 s'} (hI : InvAt .anyCommentStart s) (hcf : s.step.cflag = 1)
    (hidx : 1 ≤ s.index) (h : dispatch (f+1) .anyCommentStart s c p1 p2 = .ok s') : Q s p2 s' := by
  obtain ⟨eff, hE, hG⟩ := hI
  unfold dispatch at h; dsimp only at h
  simp only [bind, Except.bind, pure, Except.pure] at h
  repeat' split at h
  all_goals try (cases h; done)
  all_goals try (cases h; refine Q_of_F (k := 0) _ ?_ (Nat.zero_le _); frc)
  · have hpr := ‹popRet _ = Except.ok _›
    have hc := comment_ret rfl hG hpr rfl
    have hp := popRet_frame hpr
    cases h
    refine Or.inr ⟨?_, ?_, hcf, hc⟩
    · have := hp.2; simp at this ⊢; omega
    · have := hp.1; simp [this]


theorem inlineComment_Q {f s c p1 p2 s'} (hI : InvAt .inlineComment s) (hcf : s.step.cflag = 1)
    (hidx : 1 ≤ s.index) (h : dispatch (f+1) .inlineComment s c p1 p2 = .ok s') : Q s p2 s' := by
  obtain ⟨eff, hE, hG⟩ := hI
  unfold dispatch at h; dsimp only at h
  simp only [bind, Except.bind, pure, Except.pure] at h
  repeat' split at h
  all_goals try (cases h; done)
  all_goals try (cases h; refine Q_of_F (k := 0) _ ?_ (Nat.zero_le _); frc)
  · have hpr := ‹popRet _ = Except.ok _›
    have hc := comment_ret rfl hG hpr rfl
    have hp := popRet_frame hpr
    cases h
    refine Or.inr ⟨?_, ?_, hcf, hc⟩
    · have := hp.2; simp at this ⊢; omega
    · have := hp.1; simp [this]

theorem multiLineComment_Q {f s c p1 p2 s'}
    (h : dispatch (f+1) .multiLineComment s c p1 p2 = .ok s') : Q s p2 s' := by
  unfold dispatch at h; dsimp only at h
  simp only [bind, Except.bind, pure, Except.pure] at h
  repeat' split at h
  all_goals try (cases h; done)
  all_goals try (cases h; refine Q_of_F (k := 0) _ ?_ (Nat.zero_le _); frc)
  · have hpr := ‹popRet _ = Except.ok _›
    have hp := popRet_frame hpr
    have hc := ‹(_ && _) = true›
    simp only [Bool.and_eq_true, beq_iff_eq] at hc
    cases h
    refine Or.inl ⟨Or.inr ⟨?_, ?_⟩, ?_⟩
    · have := hp.2; simp at this ⊢; omega
    · rw [hc.2]; rfl
    · have := hp.1; simp [this]

/-- frame property of one call of a non-guard step function -/
theorem step_Q {f s c p1 p2 s' which} (hI : InvAt which s) (hf : s.finds = [])
    (hcf : s.step.cflag = which.cflag) (hidx : 1 ≤ s.index)
    (h : dispatch (f+3) which s c p1 p2 = .ok s') (hng : which.isGuard = false) : Q s p2 s' := by
  cases which <;> first
    | exact Q_of_F _ (leaf_F rfl h) (by omega)
    | exact Q_of_F _ (keyShortcut_Fc hI hf h) (by omega)
    | exact Q_of_F _ (endValue_Fc hI hf h) (by omega)
    | exact Q_of_F _ (d1_Fc hI hf h) (by omega)
    | exact Q_of_F _ (d0_Fc hI hf h) (by omega)
    | exact Q_of_F _ (dot0_Fc hI hf h) (by omega)
    | exact Q_of_F _ (tsName_Fc hI hf h) (by omega)
    | exact Q_of_F _ (tsBeforePipe_Fc hI hf h) (by omega)
    | exact Q_of_F _ (annKey_Fc hI hf h) (by omega)
    | exact Q_of_F _ (annKeyAfter_Fc hI hf h) (by omega)
    | exact Q_of_F _ (inlAnn_Fc h) (by omega)
    | exact Q_of_F _ (inlTxtPrefix2_Fc h) (by omega)
    | exact Q_of_F _ (mlAnn_Fc h) (by omega)
    | exact Q_of_F _ (mlTxtPrefix2_Fc h) (by omega)
    | exact anyCommentStart_Q hI hcf hidx h
    | exact inlineComment_Q hI hcf hidx h
    | exact multiLineComment_Q h
    | simp [St.isGuard] at hng

theorem dispatchQ : DispatchQ := by
  intro s c p1 p2 s' hI hf hidx h
  cases hst : s.step with
  | guard x =>
    obtain ⟨eff, hE, hG⟩ := hI
    rw [hst] at hG h
    obtain ⟨hng, hGx⟩ := hG.guard_inv
    unfold dispatch at h; dsimp only at h
    split at h
    · cases h
    · exact step_Q (f := 4) ⟨eff, hE, hGx⟩ hf (by rw [hst]; rfl) hidx h hng
  | _ =>
    rw [hst] at h
    refine step_Q (f := 5) (by rw [← hst]; exact hI) hf (by rw [hst]) hidx h (by rfl)

end SchemaScan
