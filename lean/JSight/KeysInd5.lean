import JSight.ATreeLoad5
import JSight.KeysInd4
/-! C15 / C13, raw keys: members of an object. -/
namespace AT.K
open SchemaScan (Cls classify Ev LexT St Ctx CK VCtx PV wsLoop cmtLoop nlSt nlAl keySt keyAl closersOf)
open SchemaScan.Len (ATok Tok TC arun astep aslot slotStep closePV noML isObjKey nlStep mlSlot pendOfK annLoop cxA endStOf
  renderAToks Complete endClosers)
open Loader (XNode xfresh Fold NK)
open Loader.K (LS dec)

theorem gap_seg' (g : Gap) (st : St) (hws : wsLoop st = true) (hcm : Gap.hasCmt g = true → cmtLoop st = true)
    (hst : nlSt st = st) (gg : Bool) (K : List (LexT × Nat)) (i : Nat) (CS : List Ctx) (cx : Ctx) (al : Bool) (a : AS) :
    ∃ gg' i' al', Seg ⟨st, gg, K, i, CS, cx, al⟩ (gapToks g) ⟨st, gg', K, i', CS, cx, al'⟩ a { a with pl := gapPl a.pl g } ∧
      (al = true → al' = true) := by
  have s := gap_seg g ⟨st, gg, K, i, CS, cx, al⟩ a hws hcm
  have gf := gap_facts g ⟨st, gg, K, i, CS, cx, al⟩
  generalize gapTC ⟨st, gg, K, i, CS, cx, al⟩ g = c' at s gf
  obtain ⟨st', gg', K', i', CS', cx', al'⟩ := c'
  have h1 : st' = st := by have := gf.st; simp only at this; rw [this]; cases Gap.hasNl g <;> simp [hst]
  have h2 : K' = K := gf.K
  have h3 : CS' = CS := gf.CS
  have h4 : cx' = cx := gf.cx
  subst h1 h2 h3 h4
  exact ⟨gg', i', al', s, gf.al⟩

theorem members_nil (g : Gap) : MembersStmt (.nil g) := by
  intro p c hst hK ak pl pl' L0 xa hchk hak hw M last root hk hwt
  obtain ⟨l1, l2, l3, _⟩ := posStO_loops p c.st hst (Gap.hasNl g)
  have hp : p ≠ .sep ∧ pl' = gapPl pl g := by
    simp only [AMembers.chk] at hchk
    cases p with
    | first => exact ⟨by decide, (Option.some.inj hchk).symm⟩
    | sep => exact absurd hchk (by intro h; cases h)
    | aft => exact ⟨by decide, (Option.some.inj hchk).symm⟩
  have s := gap_seg g c ⟨L0 ++ xa :: M, some L0.length, last, pl, root⟩ l1 (fun _ => l2)
  have gf := gap_facts g c
  refine ⟨gapTC c g, last, ?_, ?_, gf.K, gf.CS⟩
  · simpa [AMembers.toks, AMembers.idx, AMembers.nodesK, AMembers.rkeys, children_keys_eta, hp.2] using s
  · rw [gf.st, l3 hp.1]
    cases p
    · left; exact hst
    · exact absurd rfl hp.1
    · right; exact hst

theorem members_cons (g1 : Gap) (k : Bytes) (g2 g3 : Gap) (v : ATree) (g4 : Gap) (comma : Bool) (rest : AMembers)
    (hv : ValueStmt v) (hr : MembersStmt rest) : MembersStmt (.cons g1 k g2 g3 v g4 comma rest) := by
  intro p c hst hK ak pl pl' L0 xa hchk hak hw M last root hk hwt
  simp only [AMembers.chk] at hchk
  have hp : p = .first ∨ p = .sep := by
    cases p
    · left; rfl
    · right; rfl
    · exact absurd hchk (by intro h; cases h)
  have hpa : (p == Pos.aft) = false := by rcases hp with rfl | rfl <;> rfl
  rw [hpa] at hchk
  cases hc2 : Gap.hasCmt g2 with
  | true => rw [hc2] at hchk; simp at hchk
  | false =>
  cases hc3 : Gap.hasCmt g3 with
  | true => rw [hc2, hc3] at hchk; simp at hchk
  | false =>
  cases hcd : (xa.keys.map dec).contains (Unquote.unquote k, false) with
  | true => rw [hc2, hc3, hcd] at hchk; simp at hchk
  | false =>
  rw [hc2, hc3, hcd] at hchk
  simp only [Bool.or_self, cond_false] at hchk
  have hnd : (Unquote.unquote k, false) ∉ xa.keys.map dec := by
    intro hm
    have := List.contains_iff_mem.mpr hm
    rw [hcd] at this; cases this
  obtain ⟨l1, l2, _, l4⟩ := posStO_loops p c.st hst (Gap.hasNl g1)
  -- token validity
  simp only [AMembers.toks] at hw
  obtain ⟨hw1, hw⟩ := tokOK_append hw
  obtain ⟨hwk, hw⟩ := tokOK_cons hw
  obtain ⟨hw2, hw⟩ := tokOK_append hw
  obtain ⟨_, hw⟩ := tokOK_cons hw
  obtain ⟨hw3, hw⟩ := tokOK_append hw
  obtain ⟨hwv, hw⟩ := tokOK_append hw
  obtain ⟨hw4, hw⟩ := tokOK_append hw
  obtain ⟨hwc, hwr⟩ := tokOK_append hw
  have hkey : SchemaScan.IsKey (k.map classify) := hwk
  -- the layout before the key
  have s1 := gap_seg g1 c ⟨L0 ++ xa :: M, some L0.length, last, pl, root⟩ l1 (fun _ => l2)
  have gf1 := gap_facts g1 c
  have hks : keySt (gapTC c g1).st = true := by rw [gf1.st]; exact l4 (by rcases hp with rfl | rfl <;> decide)
  have hal1 : (p == Pos.first || gapAk (p == Pos.sep) ak g1) = true → keyAl (gapTC c g1).st (gapTC c g1).al = true := by
    intro h
    rcases hp with rfl | rfl
    · have : (gapTC c g1).st = .objKeyOrEmpty := by
        rw [gf1.st]; simp only [posStO] at hst; rw [hst]; cases Gap.hasNl g1 <;> rfl
      rw [this]; rfl
    · have hh : gapAk true ak g1 = true := by simpa using h
      have hal : (gapTC c g1).al = true := by
        unfold gapAk at hh
        cases hk' : ak with
        | true => exact gf1.al (hak hk')
        | false =>
          rw [hk'] at hh
          simp only [Bool.false_or, Bool.true_and] at hh
          exact gf1.alSep (Or.inl hst) hh
      rw [hal]
      cases (gapTC c g1).st <;> rfl
  generalize hc1 : gapTC c g1 = c1 at s1 gf1 hks hal1
  obtain ⟨st1, gg1, K1, i1, CS1, cx1, al1⟩ := c1
  simp only at hks hal1
  have hK1 : K1 = c.K := gf1.K
  have hCS1 : CS1 = c.CS := gf1.CS
  -- the key and its closing lexeme
  have hkne := key_ne hkey
  have sk : Seg ⟨st1, gg1, K1, i1, CS1, cx1, al1⟩ [.key k] ⟨.afterKey, false, K1, i1 + k.length, CS1, cx1, keyAl st1 al1⟩
      ⟨L0 ++ xa :: M, some L0.length, last, gapPl pl g1, root⟩
      ⟨L0 ++ { xa with keys := xa.keys ++ [(k, false)] } :: M, some L0.length, last, gapPl pl g1, root⟩ := by
    have h := step_key st1 hks gg1 K1 i1 CS1 cx1 al1 (k.map classify)
    rw [List.length_map] at h
    exact Seg.tokClose (t := .key k) h rfl rfl (close_ck _ false .key 0 i1 K1 _ CS1 _ _) rfl
      (loads_key i1 k hkne L0 xa M last _ root hk hwt hnd) rfl
  -- layout, colon, layout
  obtain ⟨gg2, i2, al2, s2, hal2⟩ := gap_seg' g2 .afterKey rfl (by rw [hc2]; intro h; cases h) rfl false K1 (i1 + k.length) CS1 cx1
    (keyAl st1 al1)
    ⟨L0 ++ { xa with keys := xa.keys ++ [(k, false)] } :: M, some L0.length, last, gapPl pl g1, root⟩
  have sc : Seg ⟨.afterKey, gg2, K1, i2, CS1, cx1, al2⟩ [.colon] ⟨.objValue, false, K1, i2 + 1, CS1, cx1, al2⟩
      ⟨L0 ++ { xa with keys := xa.keys ++ [(k, false)] } :: M, some L0.length, last,
        gapPl (gapPl pl g1) g2, root⟩ _ :=
    Seg.tok (t := .colon) (step_colon gg2 K1 i2 CS1 cx1 al2) (Loads.nil _ _ _) rfl
  obtain ⟨gg3, i3, al3, s3, hal3⟩ := gap_seg' g3 .objValue rfl (by rw [hc3]; intro h; cases h) rfl false K1 (i2 + 1) CS1 cx1 al2
    ⟨L0 ++ { xa with keys := xa.keys ++ [(k, false)] } :: M, some L0.length, last,
      gapPl (gapPl pl g1) g2, root⟩
  -- the value
  cases hcv : v.chk (p == Pos.first || gapAk (p == Pos.sep) ak g1) (gapPl (gapPl (gapPl pl g1) g2) g3) with
  | none => rw [hcv] at hchk; simp at hchk
  | some r =>
    obtain ⟨ak2, pl2⟩ := r
    rw [hcv] at hchk
    simp only at hchk
    have hxk : ({ xa with keys := xa.keys ++ [(k, false)] } : XNode).kind = .obj := hk
    obtain ⟨c5, last5, s5, h5st, h5K, h5CS, h5al, h5last⟩ := hv .objv (by intro h; cases h) gg3 K1 i3 CS1 cx1 al3
      (by rw [hK1]; exact hK) _ _ ak2 pl2 hcv (fun h => hal3 (hal2 (hal1 h))) hwv L0
      { xa with keys := xa.keys ++ [(k, false)] } M last root hxk hwt
    have h5st' : c5.st = .afterValue := h5st
    obtain ⟨st5, gg5, K5, i5, CS5, cx5, al5⟩ := c5
    simp only at h5st' h5K h5CS h5al
    subst h5st' h5K h5CS
    obtain ⟨gg6, i6, al6, s6, hal6⟩ := gap_seg' g4 .afterValue rfl (fun _ => rfl) rfl gg5 K5 i5 CS5 cx5 al5
      ⟨L0 ++ { xa with keys := xa.keys ++ [(k, false)], children := xa.children ++ [L0.length + 1 + M.length] } ::
        (M ++ v.nodesKA (some L0.length) (L0.length + 1 + M.length)), some L0.length, last5, pl2, root⟩
    have hxk' : ({ xa with keys := xa.keys ++ [(k, false)], children := xa.children ++ [L0.length + 1 + M.length] } : XNode).kind = .obj := hk
    have hlen : L0.length + 1 + (M ++ v.nodesK (some L0.length) (L0.length + 1 + M.length)).length
        = L0.length + 1 + M.length + v.count := by
      rw [List.length_append, nodesK_length]; omega
    have hdk : ∀ cs, (({ xa with keys := xa.keys ++ [(k, false)], children := cs } : XNode).keys.map dec)
        = xa.keys.map dec ++ [(Unquote.unquote k, false)] := by
      intro cs
      show (xa.keys ++ [(k, false)]).map dec = _
      rw [List.map_append]; rfl
    cases comma with
    | true =>
      simp only [cond_true] at hchk hwc
      obtain ⟨_, hwB⟩ := tokOK_cons hwc
      cases hcb : v.chkB ak2 (gapPl pl2 g4) with
      | none => rw [hcb] at hchk; simp at hchk
      | some r3 =>
        obtain ⟨ak3, pl3⟩ := r3
        rw [hcb] at hchk
        simp only at hchk
        have s7 : Seg ⟨.afterValue, gg6, K5, i6, CS5, cx5, al6⟩ [.comma] ⟨.objKey, false, K5, i6 + 1, CS5, cx5, al6⟩
            ⟨L0 ++ { xa with keys := xa.keys ++ [(k, false)], children := xa.children ++ [L0.length + 1 + M.length] } ::
              (M ++ v.nodesKA (some L0.length) (L0.length + 1 + M.length)), some L0.length, last5, gapPl pl2 g4, root⟩ _ :=
          Seg.tok (t := .comma) (step_comma_obj gg6 K5 i6 CS5 cx5 al6) (Loads.nil _ _ _) rfl
        obtain ⟨c8, last8, s8, h8st, h8K, h8CS, h8al⟩ := toksB_seg v ⟨.objKey, false, K5, i6 + 1, CS5, cx5, al6⟩
          (Or.inr rfl) rfl (by rw [hK1]; exact hK) ak2 (gapPl pl2 g4) ak3 pl3 hcb
          (fun h => hal6 (h5al h)) hwB L0 { xa with keys := xa.keys ++ [(k, false)], children := xa.children ++ [L0.length + 1 + M.length] } M
          (some L0.length) root last5 (some L0.length) h5last
        obtain ⟨c9, last9, s9, h9st, h9K, h9CS⟩ := hr .sep c8 h8st (by rw [h8K, hK1]; exact hK) ak3 pl3 pl' L0
          { xa with keys := xa.keys ++ [(k, false)], children := xa.children ++ [L0.length + 1 + M.length] }
          (by rw [hdk]; exact hchk) h8al hwr (M ++ v.nodesK (some L0.length) (L0.length + 1 + M.length)) last8 root hxk' hwt
        refine ⟨c9, last9, ?_, h9st, by rw [h9K, h8K, hK1], by rw [h9CS, h8CS, hCS1]⟩
        have := s1.trans (sk.trans (s2.trans (sc.trans (s3.trans (s5.trans (s6.trans (s7.trans (s8.trans s9))))))))
        rw [hlen] at this
        simpa [AMembers.toks, AMembers.idx, AMembers.nodesK, AMembers.rkeys, List.append_assoc] using this
    | false =>
      simp only [cond_false] at hchk hwc
      cases hb : v.hasB with
      | true => rw [hb] at hchk; simp at hchk
      | false =>
        rw [hb] at hchk
        simp only [cond_false] at hchk
        obtain ⟨_, _, hnA⟩ := hasB_false hb
        rw [hnA] at s6 s5
        obtain ⟨c9, last9, s9, h9st, h9K, h9CS⟩ := hr .aft ⟨.afterValue, gg6, K5, i6, CS5, cx5, al6⟩ rfl
          (by rw [hK1]; exact hK) ak2 (gapPl pl2 g4) pl' L0
          { xa with keys := xa.keys ++ [(k, false)], children := xa.children ++ [L0.length + 1 + M.length] }
          (by rw [hdk]; exact hchk) (fun h => hal6 (h5al h)) hwr (M ++ v.nodesK (some L0.length) (L0.length + 1 + M.length)) last5 root hxk' hwt
        refine ⟨c9, last9, ?_, h9st, by rw [h9K, hK1], by rw [h9CS, hCS1]⟩
        have := s1.trans (sk.trans (s2.trans (sc.trans (s3.trans (s5.trans (s6.trans s9))))))
        rw [hlen] at this
        simpa [AMembers.toks, AMembers.idx, AMembers.nodesK, AMembers.rkeys, List.append_assoc] using this


end AT.K
