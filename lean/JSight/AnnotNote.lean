import JSight.AnnotDoc
/-!
C13, inline versus multi-line annotations with a note: `value // {rules} - note` and `value /* {rules} - note */`.
The event stream of the scanner model (`annot_emits_note`).
-/
namespace SchemaScan

variable {data : Array Cls}

/-- a note: starts with a byte that is neither space nor tab; no line break, no `#`, no `*` -/
def IsNote (note : List Cls) : Prop :=
  (∃ c cs, note = c :: cs ∧ c.isSpTab = false) ∧ ∀ x ∈ note, x.isNoteCh = true

/-- the text with a note: … `}` blanks `-` spaces note tail -/
def annTextN (a : Ann) (tok s1 s2 : List Cls) (ob : CObj) (s3 n1 note tl : List Cls) : List Cls :=
  tok ++ (s1 ++ (Cls.slash :: a.mark :: (s2 ++ (Cls.lbrace :: (ob.body ++ (Cls.rbrace :: (s3 ++
    (Cls.minus :: (n1 ++ (note ++ tl))))))))))

/-- events of note and tail: the note starts at `q`, the tail at `t` -/
def noteTailEvs (y q t : Nat) : Ann → List Cls → List Ev
  | .multi, tl => ⟨.mlTxtB, q, q⟩ :: ⟨.mlTxtE, q, t - 1⟩ :: ⟨.mlAnnE, y, t + 1⟩ :: nlEvs (t + 2) (tl.drop 2)
  | _, [] => [⟨.inlTxtB, q, q⟩, ⟨.inlTxtE, q, t - 1⟩, ⟨.inlAnnE, y, t⟩]
  | _, _ :: w => ⟨.inlTxtB, q, q⟩ :: ⟨.inlTxtE, q, t - 1⟩ :: ⟨.inlAnnE, y, t - 1⟩ :: ⟨.newLine, t, t⟩ :: nlEvs (t + 1) w

def noteOff (tok s1 s2 : List Cls) (ob : CObj) (s3 n1 : List Cls) : Nat := tailOff tok s1 s2 ob s3 + 1 + n1.length

def annEvsN (a : Ann) (tok s1 s2 : List Cls) (ob : CObj) (s3 n1 note tl : List Cls) : List Ev :=
  ⟨.litB, 0, 0⟩ :: ⟨.litE, 0, tok.length - 1⟩ :: ⟨a.B, annOff tok s1, annOff tok s1 + 1⟩ ::
    (nlEvs (annOff tok s1 + 2) s2 ++ (⟨.objB, objOff tok s1 s2, objOff tok s1 s2⟩ ::
      (ob.evs (objOff tok s1 s2) ++ (nlEvs (objOff tok s1 s2 + 1 + ob.body.length + 1) s3 ++
        noteTailEvs (annOff tok s1) (noteOff tok s1 s2 ob s3 n1) (noteOff tok s1 s2 ob s3 n1 + note.length) a tl))))

/-- from the start of the text to behind the blanks that follow the rule object -/
theorem ann_body_run (a : Ann) (ha : a.isAnn = true) (tok : List Cls) (htok : IsScalar tok) (s1 : List Cls)
    (hs1 : IsSpTabs s1) (s2 : List Cls) (hs2 : ABlank a s2) (ob : CObj) (hob : ob.Valid a) (s3 : List Cls)
    (hs3 : ABlank a s3)
    (hat : At data 0 (tok ++ (s1 ++ (Cls.slash :: a.mark :: (s2 ++ (Cls.lbrace :: (ob.body ++ (Cls.rbrace :: s3)))))))) :
    Steps data {}
      (⟨.litB, 0, 0⟩ :: ⟨.litE, 0, tok.length - 1⟩ :: ⟨a.B, annOff tok s1, annOff tok s1 + 1⟩ ::
        (nlEvs (annOff tok s1 + 2) s2 ++ (⟨.objB, objOff tok s1 s2, objOff tok s1 s2⟩ ::
          (ob.evs (objOff tok s1 s2) ++ nlEvs (objOff tok s1 s2 + 1 + ob.body.length + 1) s3))))
      (cfgA a a.prefixSt [.endTop] [(a.B, annOff tok s1)] false (tailOff tok s1 s2 ob s3) [] { ty := .initial } true) := by
  have e : tok ++ (s1 ++ (Cls.slash :: a.mark :: (s2 ++ (Cls.lbrace :: (ob.body ++ (Cls.rbrace :: s3))))))
      = (tok ++ (s1 ++ [Cls.slash, a.mark])) ++ (s2 ++ (Cls.lbrace :: ((ob.body ++ [Cls.rbrace]) ++ s3))) := by
    simp
  rw [e, At_append] at hat
  obtain ⟨hat1, hat2⟩ := hat
  have hlen : (tok ++ (s1 ++ [Cls.slash, a.mark])).length = annOff tok s1 + 2 := by
    simp only [annOff, List.length_append, List.length_cons, List.length_nil]; omega
  rw [hlen, Nat.zero_add, At_append] at hat2
  obtain ⟨hats2, hlb, hat3⟩ := hat2
  rw [At_append] at hat3
  obtain ⟨hatob, hats3⟩ := hat3
  have r1 := ann_open_run a ha tok htok s1 hs1 hat1
  have r2 := ablank_run a ha s2 hs2 a.startSt (by cases a <;> simp [Ann.isAnn] at ha <;> rfl) [.endTop]
    [(a.B, annOff tok s1)] (annOff tok s1 + 2) [] { ty := .initial } true hats2
  rw [wsSt_eq (by cases a <;> simp [Ann.startSt])] at r2
  have r3 : Steps data
      (cfgA a a.startSt [.endTop] [(a.B, annOff tok s1)] false (annOff tok s1 + 2 + s2.length) [] { ty := .initial } true)
      [⟨.objB, annOff tok s1 + 2 + s2.length, annOff tok s1 + 2 + s2.length⟩]
      (cfgA a .objKeyOrEmpty [.endTop] [(.objB, annOff tok s1 + 2 + s2.length), (a.B, annOff tok s1)] false
        (annOff tok s1 + 2 + s2.length + 1) [{ ty := .initial }] { ty := .object } true) :=
    cfgA_byte hlb (fun p1 p2 => ann_lbrace 6 a ha [.endTop] _ _ [] _ true p1 p2) rfl rfl
  have r4 := obj_run a ha ob hob .endTop (annOff tok s1 + 2 + s2.length) (annOff tok s1) [] { ty := .initial } []
    { ty := .object } true hatob
  have hl2 : annOff tok s1 + 2 + s2.length + 1 + (ob.body ++ [Cls.rbrace]).length
      = annOff tok s1 + 2 + s2.length + 1 + ob.body.length + 1 := by
    simp only [List.length_append, List.length_cons, List.length_nil]; omega
  rw [hl2] at hats3
  have r5 := ablank_run a ha s3 hs3 a.prefixSt (by cases a <;> simp [Ann.isAnn] at ha <;> rfl) [.endTop]
    [(a.B, annOff tok s1)] (annOff tok s1 + 2 + s2.length + 1 + ob.body.length + 1) [] { ty := .initial } true hats3
  rw [wsSt_eq (by cases a <;> simp [Ann.prefixSt])] at r5
  refine (Steps.trans (Steps.trans (Steps.trans (Steps.trans r1 r2) r3) r4) r5).cast ?_ (cfgA_congr rfl ?_)
  · simp [objOff, annOff, Nat.add_assoc]
  · simp only [tailOff, annOff]

/-! ### the note -/

theorem n1_run (a : Ann) (ha : a.isAnn = true) : ∀ (ws : List Cls), IsSpTabs ws → ∀ (r : List St)
    (K : List (LexT × Nat)) (i : Nat) (CS : List Ctx) (cx : Ctx) (al : Bool), At data i ws →
    Steps data (cfgA a a.prefix2St r K false i CS cx al) [] (cfgA a a.prefix2St r K false (i + ws.length) CS cx al)
  | [], _, r, K, i, CS, cx, al, _ => Steps.refl _ _
  | c :: ws, hw, r, K, i, CS, cx, al, hat => by
    obtain ⟨hc, hat'⟩ := hat
    have h1 : Steps data (cfgA a a.prefix2St r K false i CS cx al) [] (cfgA a a.prefix2St r K false (i + 1) CS cx al) :=
      cfgA_byte hc (fun p1 p2 => pre2_sp 7 a ha c (hw c (by simp)) r K (i + 1) CS cx al p1 p2) rfl rfl
    have h2 := n1_run a ha ws (fun x hx => hw x (by simp [hx])) r K (i + 1) CS cx al hat'
    have := Steps.trans h1 h2
    simp only [List.length_cons]
    rw [show i + (ws.length + 1) = i + 1 + ws.length by omega]
    exact this

theorem txt_run (a : Ann) (ha : a.isAnn = true) : ∀ (cs : List Cls), (∀ x ∈ cs, x.isNoteCh = true) → ∀ (r : List St)
    (K : List (LexT × Nat)) (i : Nat) (CS : List Ctx) (cx : Ctx) (al : Bool), At data i cs →
    Steps data (cfgA a a.txtSt r K false i CS cx al) [] (cfgA a a.txtSt r K false (i + cs.length) CS cx al)
  | [], _, r, K, i, CS, cx, al, _ => Steps.refl _ _
  | c :: cs, hw, r, K, i, CS, cx, al, hat => by
    obtain ⟨hc, hat'⟩ := hat
    have h1 : Steps data (cfgA a a.txtSt r K false i CS cx al) [] (cfgA a a.txtSt r K false (i + 1) CS cx al) :=
      cfgA_byte hc (fun p1 p2 => txt_char 7 a ha c (hw c (by simp)) r K (i + 1) CS cx al p1 p2) rfl rfl
    have h2 := txt_run a ha cs (fun x hx => hw x (by simp [hx])) r K (i + 1) CS cx al hat'
    have := Steps.trans h1 h2
    simp only [List.length_cons]
    rw [show i + (cs.length + 1) = i + 1 + cs.length by omega]
    exact this

/-- `-`, spaces, the note: from behind the rule object's blanks to behind the last byte of the note -/
theorem note_run (a : Ann) (ha : a.isAnn = true) (n1 : List Cls) (hn1 : IsSpTabs n1) (note : List Cls)
    (hnote : IsNote note) (y t : Nat) (CS : List Ctx) (cx : Ctx) (al : Bool)
    (hat : At data t (Cls.minus :: (n1 ++ note))) :
    Steps data (cfgA a a.prefixSt [.endTop] [(a.B, y)] false t CS cx al)
      [⟨a.TB, t + 1 + n1.length, t + 1 + n1.length⟩]
      (cfgA a a.txtSt [.endTop] [(a.TB, t + 1 + n1.length), (a.B, y)] false (t + 1 + n1.length + note.length) CS cx al) := by
  obtain ⟨⟨c, cs, rfl, hc0⟩, hall⟩ := hnote
  obtain ⟨hm, hat⟩ := hat
  rw [At_append] at hat
  obtain ⟨hatn1, hc, hatcs⟩ := hat
  have s1 : Steps data (cfgA a a.prefixSt [.endTop] [(a.B, y)] false t CS cx al) []
      (cfgA a a.prefix2St [.endTop] [(a.B, y)] false (t + 1) CS cx al) :=
    cfgA_byte hm (fun p1 p2 => pre_minus 7 a ha [.endTop] _ (t + 1) CS cx al p1 p2) rfl rfl
  have s2 := n1_run a ha n1 hn1 [.endTop] [(a.B, y)] (t + 1) CS cx al hatn1
  have s3 : Steps data (cfgA a a.prefix2St [.endTop] [(a.B, y)] false (t + 1 + n1.length) CS cx al)
      [⟨a.TB, t + 1 + n1.length, t + 1 + n1.length⟩]
      (cfgA a a.txtSt [.endTop] [(a.TB, t + 1 + n1.length), (a.B, y)] false (t + 1 + n1.length + 1) CS cx al) := by
    refine cfgA_byte hc (fun p1 p2 => pre2_first 6 a ha c hc0 (hall c (by simp)) [.endTop] _ _ CS cx al p1 p2) rfl ?_
    cases a <;> simp [Ann.isAnn] at ha <;> rfl
  have s4 := txt_run a ha cs (fun x hx => hall x (by simp [hx])) [.endTop] [(a.TB, t + 1 + n1.length), (a.B, y)]
    (t + 1 + n1.length + 1) CS cx al hatcs
  refine (Steps.trans (Steps.trans (Steps.trans s1 s2) s3) s4).cast (by simp) (cfgA_congr rfl ?_)
  simp only [List.length_cons]; omega

/-! ### the tail behind a note -/

theorem gws_run : ∀ (w : List Cls), IsWs w → ∀ (i : Nat) (CS : List Ctx) (cx : Ctx) (al : Bool), At data i w →
    Steps data (cfg (.guard .endTop) [] [] false i CS cx al) (nlEvs i w)
      (cfg (.guard .endTop) [] [] false (i + w.length) CS cx al)
  | [], _, i, CS, cx, al, _ => Steps.refl _ _
  | c :: w, hw, i, CS, cx, al, hat => by
    obtain ⟨hc, hat'⟩ := hat
    have ih := gws_run w hw.tail (i + 1) CS cx al hat'
    rcases blank_cases hw.head with hs | rfl
    · have h1 : Steps data (cfg (.guard .endTop) [] [] false i CS cx al) []
          (cfg (.guard .endTop) [] [] false (i + 1) CS cx al) :=
        cfg_byte hc (fun p1 p2 => guard_sp 6 c hs (i + 1) CS cx al p1 p2) rfl rfl
      have := Steps.trans h1 ih
      simp only [nlEvs, if_neg (sptab_ne_nl hs), List.nil_append, List.length_cons]
      rw [show i + (w.length + 1) = i + 1 + w.length by omega]
      exact this
    · have h1 : Steps data (cfg (.guard .endTop) [] [] false i CS cx al) [⟨.newLine, i, i⟩]
          (cfg (.guard .endTop) [] [] false (i + 1) CS cx al) :=
        cfg_byte hc (fun p1 p2 => guard_nl 6 (i + 1) CS cx al p1 p2) rfl rfl
      have := Steps.trans h1 ih
      simp only [nlEvs, if_true, List.length_cons]
      rw [show i + (w.length + 1) = i + 1 + w.length by omega]
      exact this

/-- end of input inside the note of an inline annotation: the text and the annotation are closed -/
theorem Emits.eofInlTxt {r : List St} {q y i : Nat} {CS : List Ctx} {cx : Ctx} {al : Bool} (hi : data.size ≤ i) :
    Emits data (cfgA .inline .inlTxt r [(.inlTxtB, q), (.inlAnnB, y)] false i CS cx al)
      [⟨.inlTxtE, q, i - 1⟩, ⟨.inlAnnE, y, i⟩] := by
  have hn1 : NextOk data (cfgA .inline .inlTxt r [(.inlTxtB, q), (.inlAnnB, y)] false i CS cx al)
      (some (cfgA .inline .inlTxt r [(.inlAnnB, y)] false (i + 1) CS cx al, ⟨.inlTxtE, q, i - 1⟩)) := by
    refine ⟨1, by omega, ?_⟩
    rw [next_succ]
    unfold nextBody shiftFound eofStep
    simp only [cfgA, show ¬ i < data.size by omega, if_false]
    rfl
  have hn2 : NextOk data (cfgA .inline .inlTxt r [(.inlAnnB, y)] false (i + 1) CS cx al)
      (some (cfgA .inline .inlTxt r [] false (i + 1 + 1) CS cx al, ⟨.inlAnnE, y, i⟩)) := by
    refine ⟨1, by omega, ?_⟩
    rw [next_succ]
    unfold nextBody shiftFound eofStep
    simp only [cfgA, show ¬ i + 1 < data.size by omega, if_false]
    rfl
  exact Emits.cons hn1 (Emits.cons hn2 (Emits.done rfl (by simp only [cfgA]; omega) rfl))

/-- the tail behind the note -/
theorem ntail_run (a : Ann) (tl : List Cls) (ht : ATail a tl) (q y t : Nat) (CS : List Ctx) (cx : Ctx) (al : Bool)
    (hat : At data t tl) (hn : data.size = t + tl.length) :
    Emits data (cfgA a a.txtSt [.endTop] [(a.TB, q), (a.B, y)] false t CS cx al)
      ((noteTailEvs y q t a tl).drop 1) := by
  cases ht with
  | eof => exact Emits.eofInlTxt (by simp at hn; omega)
  | nl w hw =>
    obtain ⟨hc, hatw⟩ := hat
    have s1 : Steps data (cfgA .inline .inlTxt [.endTop] [(.inlTxtB, q), (.inlAnnB, y)] false t CS cx al)
        [⟨.inlTxtE, q, t - 1⟩, ⟨.inlAnnE, y, t - 1⟩, ⟨.newLine, t, t⟩]
        (cfg (.guard .endTop) [] [] false (t + 1) CS cx al) := by
      refine (cfgA_byte hc (fun p1 p2 => inltxt_nl 7 .endTop [] q y (t + 1) CS cx al p1 p2) rfl rfl).cast ?_ rfl
      show [(⟨LexT.inlTxtE, q, t + 1 - 1 - 1⟩ : Ev), ⟨LexT.inlAnnE, y, t + 1 - 1 - 1⟩,
        ⟨LexT.newLine, t + 1 - 1, t + 1 - 1⟩] = _
      simp
    have s2 := gws_run w hw (t + 1) CS cx al hatw
    have e : Emits data (cfg (.guard .endTop) [] [] false (t + 1 + w.length) CS cx al) [] :=
      Emits.done rfl (by simp only [cfg, List.length_cons] at hn ⊢; omega) rfl
    have := (Steps.trans s1 s2).emits e
    simp only [List.cons_append, List.nil_append, List.append_nil] at this
    simp only [noteTailEvs, List.drop_succ_cons, List.drop_zero]
    exact this
  | close w hw =>
    obtain ⟨hc1, hc2, hatw⟩ := hat
    have s1 : Steps data (cfgA .multi .mlTxt [.endTop] [(.mlTxtB, q), (.mlAnnB, y)] false t CS cx al)
        [⟨.mlTxtE, q, t - 1⟩] (cfgA .multi .mlAnnEnd [.endTop] [(.mlAnnB, y)] false (t + 1) CS cx al) := by
      refine (Steps.emit1 (s := cfgA .multi .mlTxt [.endTop] [(.mlTxtB, q), (.mlAnnB, y)] false t CS cx al)
        (s1 := { cfgA .multi .mlAnnEnd [.endTop] [(.mlTxtB, q), (.mlAnnB, y)] false (t + 1) CS cx al with
                  finds := [.mlTxtE] })
        (s2 := cfgA .multi .mlAnnEnd [.endTop] [(.mlAnnB, y)] false (t + 1) CS cx al) (e := ⟨.mlTxtE, q, t + 1 - 1 - 1⟩)
        (t := .mlTxtE) (rest := []) rfl hc1 ?_ rfl rfl).cast ?_ rfl
      · show dispatch 8 .mlTxt (cfgA .multi .mlTxt [.endTop] [(.mlTxtB, q), (.mlAnnB, y)] false (t + 1) CS cx al) .star
          data[t + 1]? data[t + 1 + 1]? = _
        rw [hc2]
        exact mltxt_end 7 [.endTop] _ (t + 1) CS cx al _
      · simp
    have s2 : Steps data (cfgA .multi .mlAnnEnd [.endTop] [(.mlAnnB, y)] false (t + 1) CS cx al)
        [⟨.mlAnnE, y, t + 1⟩] (cfg .endTop [] [] false (t + 1 + 1) CS cx al) :=
      cfgA_byte hc2 (fun p1 p2 => mlend_slash 7 .endTop [] _ (t + 1 + 1) CS cx al p1 p2) rfl rfl
    have e := ws_end (CS := CS) (cx := cx) (al := al) w hw hatw (by simp only [List.length_cons] at hn; omega)
    have := (Steps.trans s1 s2).emits e
    simp only [List.nil_append, List.cons_append] at this
    simp only [noteTailEvs, List.drop_succ_cons, List.drop_zero]
    exact this

/-- **the events of an annotated top-level scalar with a note**, inline or multi-line -/
theorem annot_emits_note (a : Ann) (ha : a.isAnn = true) (tok : List Cls) (htok : IsScalar tok) (s1 : List Cls)
    (hs1 : IsSpTabs s1) (s2 : List Cls) (hs2 : ABlank a s2) (ob : CObj) (hob : ob.Valid a) (s3 : List Cls)
    (hs3 : ABlank a s3) (n1 : List Cls) (hn1 : IsSpTabs n1) (note : List Cls) (hnote : IsNote note)
    (tl : List Cls) (htl : ATail a tl) :
    Emits (annTextN a tok s1 s2 ob s3 n1 note tl).toArray {} (annEvsN a tok s1 s2 ob s3 n1 note tl) := by
  obtain ⟨D, hD⟩ : ∃ D, D = (annTextN a tok s1 s2 ob s3 n1 note tl).toArray := ⟨_, rfl⟩
  rw [← hD]
  have hsize : D.size = (annTextN a tok s1 s2 ob s3 n1 note tl).length := by rw [hD]; simp
  have hat : At D 0 (annTextN a tok s1 s2 ob s3 n1 note tl) := hD ▸ At_toArray _ [] _ rfl
  have e : annTextN a tok s1 s2 ob s3 n1 note tl
      = (tok ++ (s1 ++ (Cls.slash :: a.mark :: (s2 ++ (Cls.lbrace :: (ob.body ++ (Cls.rbrace :: s3)))))))
        ++ ((Cls.minus :: (n1 ++ note)) ++ tl) := by
    simp [annTextN]
  rw [e, At_append] at hat
  obtain ⟨hat1, hat2⟩ := hat
  have hlen : 0 + (tok ++ (s1 ++ (Cls.slash :: a.mark :: (s2 ++ (Cls.lbrace :: (ob.body ++ (Cls.rbrace :: s3))))))).length
      = tailOff tok s1 s2 ob s3 := by
    simp only [tailOff, List.length_append, List.length_cons]; omega
  rw [hlen, At_append] at hat2
  obtain ⟨hatn, hattl⟩ := hat2
  have r1 := ann_body_run a ha tok htok s1 hs1 s2 hs2 ob hob s3 hs3 hat1
  have r2 := note_run a ha n1 hn1 note hnote (annOff tok s1) (tailOff tok s1 s2 ob s3) [] { ty := .initial } true hatn
  have hl : tailOff tok s1 s2 ob s3 + (Cls.minus :: (n1 ++ note)).length
      = tailOff tok s1 s2 ob s3 + 1 + n1.length + note.length := by
    simp only [List.length_cons, List.length_append]; omega
  rw [hl] at hattl
  have r3 := ntail_run a tl htl (tailOff tok s1 s2 ob s3 + 1 + n1.length) (annOff tok s1)
    (tailOff tok s1 s2 ob s3 + 1 + n1.length + note.length) [] { ty := .initial } true hattl
    (by
      rw [hsize]
      simp only [annTextN, tailOff, List.length_append, List.length_cons]
      omega)
  have := (Steps.trans r1 r2).emits r3
  have hd : ∀ (y q t : Nat) (tl : List Cls), noteTailEvs y q t a tl = ⟨a.TB, q, q⟩ :: (noteTailEvs y q t a tl).drop 1 := by
    intro y q t tl
    cases a with
    | none => simp [Ann.isAnn] at ha
    | multi => rfl
    | inline => cases tl <;> rfl
  simp only [annEvsN, noteOff]
  rw [hd]
  simpa [List.append_assoc] using this

end SchemaScan
