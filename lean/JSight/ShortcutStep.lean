import JSight.SchemaLenShortcut
import JSight.SchemaLenTree
/-!
C09 / C16 / C06: a TYPE SHORTCUT (`@name`, `@a | @b …`) as a VALUE inside a container (object member value, array
item) — single-byte behaviour of the scanner model, for either value of `lengthComputing`, as `Path`s:
the start (`@` in `objValue` / `arrItemOrEmpty` / `arrItem`) and the four bytes that may end it (line break, `,`, `]`,
`}`), each with the exact events (`types-shortcut-end`, `mixed-value-end` with its one-blank strip, the item / value
end) — and the end of input behind a root shortcut in ordinary mode.
-/
namespace SchemaScan
namespace Len

variable {lc : Bool} {data : Array Cls}

/-! ### the start of a shortcut inside a container -/

theorem start_ts_d (f : Nat) (ctx : VCtx) (hctx : ctx ≠ .root)
    (K : List (LexT × Nat)) (i : Nat) (CS : List Ctx) (cx : Ctx) (al : Bool) (p1 p2 : Option Cls) :
    dispatch (f + 1) ctx.st (cfgL lc ctx.st [] K false i CS cx al) .at p1 p2
      = .ok { cfgL lc .tsBeginName [] K true i CS (ctx.cx' cx) al with finds := ctx.preTys ++ [.mixB, .tsB] } := by
  cases ctx <;> first | exact absurd rfl hctx | (unfold dispatch; rfl)

theorem S_start_ts (ctx : VCtx) (hctx : ctx ≠ .root)
    (K : List (LexT × Nat)) (o : Nat) (CS : List Ctx) (cx : Ctx) (al : Bool) (hc : data[o]? = some .at) :
    Path data (cfgL lc ctx.st [] K false o CS cx al) (ctx.preEvs o ++ [⟨.mixB, o, o⟩, ⟨.tsB, o, o⟩])
      (cfgL lc .tsBeginName [] (K2 o ++ (ctx.pre o ++ K)) true (o + 1) CS (ctx.cx' cx) al) := by
  refine cfg_byte hc (fun p1 p2 => start_ts_d 7 ctx hctx K (o + 1) CS cx al p1 p2) rfl ?_
  cases ctx <;> first | exact absurd rfl hctx | rfl

/-! ### the end of a shortcut inside a container -/

/-- the context type in which an item / a member value lives -/
def ckTy : CK → CtxT | .item => .array | .val => .object | .key => .initial

/-- `stateEndValue` with a shortcut on top of the stack: `finishShortcut` queues the three closing lexemes and hands the
byte to the state behind the item / the member value -/
theorem ev_ts_ck (g : Nat) (st : St) (ck : CK) (hck : ck ≠ .key) (o b2 : Nat) (R : List (LexT × Nat)) (i : Nat)
    (CS : List Ctx) (cx : Ctx) (hcx : cx.ty = ckTy ck) (al : Bool) (x : Cls) (p1 p2 : Option Cls) :
    endValue g (cfgL lc st [] (K2 o ++ (ck.B, b2) :: R) false i CS cx al) x p1 p2
      = dispatch g ck.aft
          { cfgL lc ck.aft [] (K2 o ++ (ck.B, b2) :: R) false i CS cx al with finds := [.tsE, .mixE, ck.E] } x p1 p2 := by
  obtain ⟨ty, ah⟩ := cx
  simp only at hcx
  subst hcx
  cases ck <;> first | exact absurd rfl hck | (unfold endValue dispatch'; rfl)

/-- a delimiter behind a shortcut (behind its last name byte, `nm = true`, or behind the blanks that follow it) -/
theorem ts_fin_d (f : Nat) (nm : Bool) (x : Cls) (hx : tsDelim nm x = true) (ck : CK) (hck : ck ≠ .key) (o b2 : Nat)
    (R : List (LexT × Nat)) (i : Nat) (CS : List Ctx) (cx : Ctx) (hcx : cx.ty = ckTy ck) (al : Bool)
    (p1 p2 : Option Cls) :
    dispatch (f + 3) (tsSt nm) (cfgL lc (tsSt nm) [] (K2 o ++ (ck.B, b2) :: R) false i CS cx al) x p1 p2
      = dispatch (f + nm.toNat + 1) ck.aft
          { cfgL lc ck.aft [] (K2 o ++ (ck.B, b2) :: R) false i CS cx al with finds := [.tsE, .mixE, ck.E] } x p1 p2 := by
  cases nm
  · exact (tsBeforePipe_delim (f + 1) x hx _ i _ _ al p1 p2).trans
      (ev_ts_ck (f + 1) .endValue ck hck o b2 R i CS cx hcx al x p1 p2)
  · exact (tsName_delim (f + 2) x hx _ i _ _ al p1 p2).trans
      (ev_ts_ck (f + 2) .tsName ck hck o b2 R i CS cx hcx al x p1 p2)

/-- the three closing events of a shortcut that is an item / a member value, delivered when the byte at `i` is read -/
def tsClosers (data : Array Cls) (ck : CK) (o b2 i : Nat) : List Ev :=
  [⟨.tsE, o, i - 1⟩, ⟨.mixE, o, mixEnd data i⟩, ⟨ck.E, b2, i - 1⟩]

theorem S_tsc_nl (nm : Bool) (ck : CK) (hck : ck ≠ .key) (o b2 : Nat) (R : List (LexT × Nat)) (i : Nat)
    (CS : List Ctx) (cx : Ctx) (hcx : cx.ty = ckTy ck) (al : Bool) (hc : data[i]? = some .nl) :
    Path data (cfgL lc (tsSt nm) [] (K2 o ++ (ck.B, b2) :: R) false i CS cx al)
      (tsClosers data ck o b2 i ++ [⟨.newLine, i, i⟩])
      (cfgL lc ck.aft [] R false (i + 1) CS cx al) := by
  have haft : wsLoop ck.aft = true := by cases ck <;> rfl
  have hnl : nlSt ck.aft = ck.aft := by cases ck <;> rfl
  have hal : nlAl ck.aft al = al := by cases ck <;> rfl
  refine cfg_byte hc (fun p1 p2 => (ts_fin_d 5 nm .nl (by cases nm <;> rfl) ck hck o b2 R (i + 1) CS cx hcx al p1 p2).trans
    (loop_nl (5 + nm.toNat) ck.aft haft _ (i + 1) CS cx al _ p1 p2)) rfl ?_
  rw [hnl, hal]
  cases ck <;> first | exact absurd rfl hck | rfl

theorem S_tsc_sep (nm : Bool) (ck : CK) (hck : ck ≠ .key) (o b2 : Nat) (R : List (LexT × Nat)) (i : Nat)
    (CS : List Ctx) (cx : Ctx) (hcx : cx.ty = ckTy ck) (al : Bool) (hc : data[i]? = some ck.sep) :
    Path data (cfgL lc (tsSt nm) [] (K2 o ++ (ck.B, b2) :: R) false i CS cx al)
      (tsClosers data ck o b2 i)
      (cfgL lc ck.nxt [] R false (i + 1) CS cx al) := by
  have hd : tsDelim nm ck.sep = true := by cases nm <;> cases ck <;> first | exact absurd rfl hck | rfl
  refine cfg_byte hc (fun p1 p2 => (ts_fin_d 5 nm ck.sep hd ck hck o b2 R (i + 1) CS cx hcx al p1 p2).trans
    (aft_sep (5 + nm.toNat) ck _ (i + 1) CS cx al _ p1 p2)) rfl ?_
  cases ck <;> first | exact absurd rfl hck | rfl

theorem S_tsc_rbrack (nm : Bool) (o b2 a : Nat) (K : List (LexT × Nat)) (i : Nat) (c0 : Ctx)
    (CS : List Ctx) (cx : Ctx) (hcx : cx.ty = .array) (al : Bool) (hc : data[i]? = some .rbrack) :
    Path data (cfgL lc (tsSt nm) [] (K2 o ++ (.itemB, b2) :: (.arrB, a) :: K) false i (c0 :: CS) cx al)
      (tsClosers data .item o b2 i ++ [⟨.arrE, a, i⟩])
      (cfgL lc .endValue [] K false (i + 1) CS c0 (!cx.arrayHasItem)) := by
  have hd : tsDelim nm .rbrack = true := by cases nm <;> rfl
  exact cfg_byte hc (fun p1 p2 =>
    (ts_fin_d 5 nm .rbrack hd .item (by simp) o b2 _ (i + 1) (c0 :: CS) cx hcx al p1 p2).trans
      (aft_rbrack (5 + nm.toNat) _ _ (i + 1) c0 CS cx al _ p1 p2)) rfl rfl

theorem S_tsc_rbrace (nm : Bool) (o b2 a : Nat) (K : List (LexT × Nat)) (i : Nat) (c0 : Ctx)
    (CS : List Ctx) (cx : Ctx) (hcx : cx.ty = .object) (al : Bool) (hc : data[i]? = some .rbrace) :
    Path data (cfgL lc (tsSt nm) [] (K2 o ++ (.valB, b2) :: (.objB, a) :: K) false i (c0 :: CS) cx al)
      (tsClosers data .val o b2 i ++ [⟨.objE, a, i⟩])
      (cfgL lc .endValue [] K false (i + 1) CS c0 al) := by
  have hd : tsDelim nm .rbrace = true := by cases nm <;> rfl
  exact cfg_byte hc (fun p1 p2 =>
    (ts_fin_d 5 nm .rbrace hd .val (by simp) o b2 _ (i + 1) (c0 :: CS) cx hcx al p1 p2).trans
      (aft_rbrace (5 + nm.toNat) _ (i + 1) c0 CS cx al _ p1 p2)) rfl rfl

/-! ### a root shortcut in ordinary mode: the end of input -/

/-- the end of input right behind a root shortcut (or the blanks that follow it): both closing lexemes are delivered -/
theorem emits_eof_ts (nm : Bool) (o i : Nat) (c0 : Ctx) (al : Bool) (hsz : data.size = i) :
    Emits data (cfgL lc (tsSt nm) [] (K2 o) false i [c0] sctx al)
      [⟨.tsE, o, i - 1⟩, ⟨.mixE, o, mixEnd data i⟩] := by
  have hn1 : NextOk data (cfgL lc (tsSt nm) [] (K2 o) false i [c0] sctx al)
      (some ({ cfgL lc (tsSt nm) [] [(.mixB, o)] false (i + 1) [c0] sctx al with finds := [.mixE] }, ⟨.tsE, o, i - 1⟩)) := by
    refine ⟨1, by omega, ?_⟩
    rw [next_succ]
    unfold nextBody shiftFound eofStep
    simp only [cfgL, show ¬ i < data.size by omega, if_false]
    cases nm <;> rfl
  have hn2 : NextOk data { cfgL lc (tsSt nm) [] [(.mixB, o)] false (i + 1) [c0] sctx al with finds := [.mixE] }
      (some (cfgL lc (tsSt nm) [] [] false (i + 1) [c0] sctx al, ⟨.mixE, o, mixEnd data i⟩)) := nextOk_shift rfl rfl
  have hn3 : NextOk data (cfgL lc (tsSt nm) [] [] false (i + 1) [c0] sctx al) none :=
    nextOk_done rfl (by simp only [cfgL]; omega) rfl
  exact Emits.cons hn1 (Emits.cons hn2 (Emits.nil hn3))

end Len
end SchemaScan
