/-
C01 prototype: the validator on the rule-free fragment is a stack machine over lexical events;
it accepts exactly the documents that have the example's shape.
-/
namespace V

inductive Kind | str | int | flt | bool | null
  deriving DecidableEq, Repr

/-- JSON documents; objects are member *lists* (duplicates and any order are inputs). -/
inductive J
  | lit (k : Kind)
  | arr (xs : List J)
  | obj (ms : List (String × J))

/-- Schemas of the fragment (after `compile`: each property carries `required`). -/
inductive S
  | lit (k : Kind) (nullable : Bool)
  | any
  | arr (items : List S)
  | obj (props : List (String × Bool × S))

inductive Ev
  | litB | litE (k : Kind) | objB | objE | keyB | keyE (k : String) | valB | valE | arrB | arrE | itemB | itemE
  deriving DecidableEq, Repr

def Ev.isOpening : Ev → Bool
  | .litB | .objB | .keyB | .valB | .arrB | .itemB => true
  | _ => false

mutual
def evs : J → List Ev
  | .lit k => [.litB, .litE k]
  | .arr xs => .arrB :: (evsItems xs ++ [.arrE])
  | .obj ms => .objB :: (evsMembers ms ++ [.objE])
def evsItems : List J → List Ev
  | [] => []
  | x :: xs => .itemB :: (evs x ++ .itemE :: evsItems xs)
def evsMembers : List (String × J) → List Ev
  | [] => []
  | (k, v) :: ms => .keyB :: .keyE k :: .valB :: (evs v ++ .valE :: evsMembers ms)
end

/-! ### the machine (single chain of validators = stack of frames) -/

inductive Frame
  | lit (k : Kind) (nullable : Bool)
  | any (depth : Nat)
  | arr (items : List S) (count : Nat)
  | obj (props : List (String × Bool × S)) (req : List String) (last : Option String)

def requiredKeys (props : List (String × Bool × S)) : List String :=
  (props.filter (fun p => p.2.1)).map (·.1)

def newV : S → Frame
  | .lit k n => .lit k n
  | .any => .any 0
  | .arr items => .arr items 0
  | .obj props => .obj props (requiredKeys props) none

/-- kind compatibility matrix of `checkNotAnEnum` -/
def kindOK (doc schema : Kind) (nullable : Bool) : Bool :=
  doc == schema || (doc == .int && schema == .flt) || (doc == .null && nullable)

/-- `ArrayNode.Child`: clamp to the last example element; none when the example array is empty. -/
def childAt (items : List S) (i : Nat) : Option S :=
  match items with
  | [] => none
  | _ => items[min i (items.length - 1)]?

def lookup (props : List (String × Bool × S)) (k : String) : Option S :=
  (props.find? (fun p => p.1 == k)).map (·.2.2)

/-- Feed one event to the leaf (head of the stack). `none` = validation error. -/
def feed : List Frame → Ev → Option (List Frame)
  | [], _ => none
  | .lit k n :: K, e =>
    match e with
    | .litB => some (.lit k n :: K)
    | .litE d => if kindOK d k n then some K else none
    | _ => none
  | .any d :: K, e =>
    let d' := if e.isOpening then d + 1 else d - 1
    if d' == 0 then some K else some (.any d' :: K)
  | .arr items c :: K, e =>
    match e with
    | .arrB | .itemE => some (.arr items c :: K)
    | .itemB => match childAt items c with
      | some s => some (newV s :: .arr items (c + 1) :: K)
      | none => none
    | .arrE => some K
    | _ => none
  | .obj props req last :: K, e =>
    match e with
    | .objB | .keyB | .valE => some (.obj props req last :: K)
    | .keyE k => some (.obj props (req.filter (· != k)) (some k) :: K)
    | .valB => match last with
      | some k => match lookup props k with
        | some s => some (newV s :: .obj props req last :: K)
        | none => none
      | none => none
    | .objE => if req.isEmpty then some K else none
    | _ => none

def run : List Frame → List Ev → Option (List Frame)
  | K, [] => some K
  | K, e :: es => match feed K e with
    | some K' => run K' es
    | none => none

def validate (s : S) (d : J) : Bool :=
  match run [newV s] (evs d) with
  | some [] => true
  | _ => false

/-! ### the spec -/

mutual
def shape : S → J → Bool
  | .any, _ => true
  | .lit k n, .lit d => kindOK d k n
  | .lit _ _, _ => false
  | .arr items, .arr xs => shapeItems items 0 xs
  | .arr _, _ => false
  | .obj props, .obj ms => shapeMembers props ms && (requiredKeys props).all (fun k => ms.any (fun m => m.1 == k))
  | .obj _, _ => false
def shapeItems : List S → Nat → List J → Bool
  | _, _, [] => true
  | items, i, x :: xs => (match childAt items i with
      | some s => shape s x
      | none => false) && shapeItems items (i + 1) xs
def shapeMembers : List (String × Bool × S) → List (String × J) → Bool
  | _, [] => true
  | props, (k, v) :: ms => (match lookup props k with
      | some s => shape s v
      | none => false) && shapeMembers props ms
end

/-! ### proofs -/

theorem run_append (K : List Frame) (es fs : List Ev) :
    run K (es ++ fs) = match run K es with | some K' => run K' fs | none => none := by
  induction es generalizing K with
  | nil => simp [run]
  | cons e es ih =>
    simp only [List.cons_append, run]
    cases feed K e with
    | none => simp
    | some K' => simpa using ih K'

mutual
theorem any_keep (d : J) (n : Nat) (K : List Frame) (rest : List Ev) :
    run (.any (n+1) :: K) (evs d ++ rest) = run (.any (n+1) :: K) rest := by
  cases d with
  | lit k => simp [evs, run, feed, Ev.isOpening]
  | arr xs =>
    have := any_keep_items xs (n+1) K (.arrE :: rest)
    simp [evs, run, feed, Ev.isOpening, List.append_assoc] at this ⊢
    rw [this]
  | obj ms =>
    have := any_keep_members ms (n+1) K (.objE :: rest)
    simp [evs, run, feed, Ev.isOpening, List.append_assoc] at this ⊢
    rw [this]
theorem any_keep_items (xs : List J) (n : Nat) (K : List Frame) (rest : List Ev) :
    run (.any (n+1) :: K) (evsItems xs ++ rest) = run (.any (n+1) :: K) rest := by
  cases xs with
  | nil => simp [evsItems]
  | cons x xs =>
    have h1 := any_keep x (n+1) K (.itemE :: (evsItems xs ++ rest))
    have h2 := any_keep_items xs n K rest
    simp [evsItems, run, feed, Ev.isOpening, List.append_assoc] at h1 h2 ⊢
    rw [h1]; exact h2
theorem any_keep_members (ms : List (String × J)) (n : Nat) (K : List Frame) (rest : List Ev) :
    run (.any (n+1) :: K) (evsMembers ms ++ rest) = run (.any (n+1) :: K) rest := by
  cases ms with
  | nil => simp [evsMembers]
  | cons m ms =>
    obtain ⟨k, v⟩ := m
    have h1 := any_keep v (n+1) K (.valE :: (evsMembers ms ++ rest))
    have h2 := any_keep_members ms n K rest
    simp [evsMembers, run, feed, Ev.isOpening, List.append_assoc] at h1 h2 ⊢
    rw [h1]; exact h2
end


theorem any_top (d : J) (K : List Frame) (rest : List Ev) :
    run (.any 0 :: K) (evs d ++ rest) = run K rest := by
  cases d with
  | lit k => simp [evs, run, feed, Ev.isOpening]
  | arr xs =>
    have := any_keep_items xs 0 K (.arrE :: rest)
    simp [evs, run, feed, Ev.isOpening, List.append_assoc] at this ⊢
    rw [this]
  | obj ms =>
    have := any_keep_members ms 0 K (.objE :: rest)
    simp [evs, run, feed, Ev.isOpening, List.append_assoc] at this ⊢
    rw [this]

theorem all_none_isEmpty (req : List String) : req.all (fun r => ([] : List (String × J)).any (fun m => m.1 == r)) = req.isEmpty := by
  cases req <;> simp

theorem req_step (req : List String) (k : String) (v : J) (ms : List (String × J)) :
    (req.filter (· != k)).all (fun r => ms.any (fun m => m.1 == r))
      = req.all (fun r => ((k, v) :: ms).any (fun m => m.1 == r)) := by
  induction req with
  | nil => simp
  | cons r req ih =>
    by_cases h : r = k
    · subst h; simp [ih]
    · have h1 : (k == r) = false := by simpa using fun h' => h h'.symm
      have h2 : (r != k) = true := by simp [h]
      simp only [List.filter_cons, h2, if_true, List.all_cons, List.any_cons, h1, Bool.false_or, ih]

mutual
theorem run_value (s : S) (d : J) (K : List Frame) (rest : List Ev) :
    run (newV s :: K) (evs d ++ rest) = bif shape s d then run K rest else none := by
  cases s with
  | any => simp [newV, shape, any_top]
  | lit k n =>
    cases d with
    | lit dk => cases h : kindOK dk k n <;> simp [newV, evs, shape, run, feed, h]
    | arr xs => simp [newV, evs, shape, run, feed]
    | obj ms => simp [newV, evs, shape, run, feed]
  | arr items =>
    cases d with
    | lit dk => simp [newV, evs, shape, run, feed]
    | arr xs =>
      have := run_items items xs 0 K rest
      simp only [newV, evs, shape, run, feed, List.append_assoc, List.cons_append, List.nil_append] at this ⊢
      exact this
    | obj ms => simp [newV, evs, shape, run, feed]
  | obj props =>
    cases d with
    | lit dk => simp [newV, evs, shape, run, feed]
    | arr xs => simp [newV, evs, shape, run, feed]
    | obj ms =>
      have := run_members props ms (requiredKeys props) none K rest
      simp only [newV, evs, shape, run, feed, List.append_assoc, List.cons_append, List.nil_append] at this ⊢
      exact this
theorem run_items (items : List S) (xs : List J) (c : Nat) (K : List Frame) (rest : List Ev) :
    run (.arr items c :: K) (evsItems xs ++ .arrE :: rest)
      = bif shapeItems items c xs then run K rest else none := by
  cases xs with
  | nil => simp [evsItems, shapeItems, run, feed]
  | cons x xs =>
    cases hc : childAt items c with
    | none => simp [evsItems, shapeItems, hc, run, feed]
    | some s =>
      have h1 := run_value s x (.arr items (c+1) :: K) (.itemE :: (evsItems xs ++ .arrE :: rest))
      have h2 := run_items items xs (c+1) K rest
      simp only [evsItems, shapeItems, hc, List.cons_append, List.append_assoc, run, feed, h1]
      cases hs : shape s x
      · simp
      · simp [run, feed, h2]
theorem run_members (props : List (String × Bool × S)) (ms : List (String × J)) (req : List String)
    (last : Option String) (K : List Frame) (rest : List Ev) :
    run (.obj props req last :: K) (evsMembers ms ++ .objE :: rest)
      = bif shapeMembers props ms && req.all (fun r => ms.any (fun m => m.1 == r)) then run K rest else none := by
  cases ms with
  | nil =>
    simp only [evsMembers, shapeMembers, List.nil_append, run, feed, all_none_isEmpty, Bool.true_and]
    cases req <;> simp [run]
  | cons m ms =>
    obtain ⟨k, v⟩ := m
    cases hl : lookup props k with
    | none => simp [evsMembers, shapeMembers, hl, run, feed]
    | some s =>
      have h1 := run_value s v (.obj props (req.filter (· != k)) (some k) :: K) (.valE :: (evsMembers ms ++ .objE :: rest))
      have h2 := run_members props ms (req.filter (· != k)) (some k) K rest
      simp only [evsMembers, shapeMembers, hl, List.cons_append, List.append_assoc, run, feed, h1]
      cases hs : shape s v
      · simp
      · simp only [cond_true, run, feed, h2, Bool.true_and]
        rw [req_step req k v ms]
end

/-- C01 (model level): the validator accepts exactly the documents shaped like the example. -/
theorem C01_validate_iff_shape (s : S) (d : J) : validate s d = shape s d := by
  have := run_value s d [] []
  simp only [List.append_nil, run] at this
  unfold validate
  rw [this]
  cases shape s d <;> rfl

end V

#print axioms V.C01_validate_iff_shape
