import JSight.ATreeSeg
import JSight.KeysAnn
/-!
C15 / C13, raw keys: the segments of `ATreeSeg` over the abstraction `absK` (`Loader.K.LS`: key tokens as written in the
`keys` slot). Scanner side unchanged (`AT.Scans`, `AT.gapTC`, …); loader side and `Seg` once more.
-/
namespace AT.K
open SchemaScan (Cls classify Ev LexT St Ctx CK VCtx PV wsLoop cmtLoop nlSt nlAl keySt keyAl closersOf)
open SchemaScan.Len (ATok Tok TC arun astep aslot slotStep closePV noML isObjKey nlStep mlSlot pendOfK annLoop cxA)
open Loader (XNode xfresh Fold)
open Loader.K (LS)

def LSx (src : Array UInt8) (st : Loader.St) (a : AS) : Prop := LS src st a.AL a.leaf a.last a.pl a.root

def Loads (i : Nat) (bs : Bytes) (evs : List Ev) (a a' : AS) : Prop :=
  ∀ (src : Array UInt8) (st : Loader.St), Lay.AtB src i bs → LSx src st a →
    ∃ st', Fold src evs st st' ∧ LSx src st' a'

theorem Loads.trans {i : Nat} {b1 b2 : Bytes} {e1 e2 : List Ev} {a a1 a2 : AS} (h1 : Loads i b1 e1 a a1)
    (h2 : Loads (i + b1.length) b2 e2 a1 a2) : Loads i (b1 ++ b2) (e1 ++ e2) a a2 := by
  intro src st hat hl
  rw [Lay.AtB_append] at hat
  obtain ⟨s1, f1, l1⟩ := h1 src st hat.1 hl
  obtain ⟨s2, f2, l2⟩ := h2 src s1 hat.2 l1
  exact ⟨s2, Fold.trans f1 f2, l2⟩

theorem Loads.nil (i : Nat) (bs : Bytes) (a : AS) : Loads i bs [] a a :=
  fun _ st _ hl => ⟨st, Loader.Fold.nil _ _, hl⟩

/-! ### segments -/

structure Seg (c : TC) (ts : List BTok) (c' : TC) (a a' : AS) : Prop where
  ex : ∃ evs, Scans c (ts.map BTok.cls) evs c' ∧ Loads c.i (bytesOf ts) evs a a'
  idx : c'.i = c.i + (bytesOf ts).length

theorem Seg.trans {c c1 c2 : TC} {t1 t2 : List BTok} {a a1 a2 : AS} (h1 : Seg c t1 c1 a a1) (h2 : Seg c1 t2 c2 a1 a2) :
    Seg c (t1 ++ t2) c2 a a2 := by
  obtain ⟨⟨e1, s1, l1⟩, i1⟩ := h1
  obtain ⟨⟨e2, s2, l2⟩, i2⟩ := h2
  refine ⟨⟨e1 ++ e2, ?_, ?_⟩, ?_⟩
  · rw [List.map_append]; exact s1.trans s2
  · rw [bytesOf_append]; rw [i1] at l2; exact l1.trans l2
  · rw [i2, i1, bytesOf_append, List.length_append]; omega

theorem Seg.refl (c : TC) (a : AS) : Seg c [] c a a :=
  ⟨⟨[], (ScansA.nil c).weak, Loads.nil _ _ _⟩, rfl⟩

/-- one token, read at a place between tokens -/
theorem Seg.tok {c c1 : TC} {t : BTok} {e : List Ev} {a a1 : AS} (h : astep c t.cls = some (c1, e))
    (hl : Loads c.i t.bytes e a a1) (hi : c1.i = c.i + t.bytes.length) : Seg c [t] c1 a a1 :=
  ⟨⟨e, (ScansA.one h).weak, by simpa [bytesOf] using hl⟩, by simpa [bytesOf] using hi⟩

/-- the closing lexemes of a value -/
theorem Seg.close {c c1 : TC} {e1 : List Ev} {a a1 : AS} (hpv : PV c.st = true) (hg : c.g = false)
    (hc : closePV c = some (c1, e1)) (h1 : PV c1.st = false) (hl : Loads c.i [] e1 a a1) : Seg c [] c1 a a1 :=
  ⟨⟨e1, Scans.close hpv hg hc h1, hl⟩, by
    have := SchemaScan.Len.closePV_index hc
    simp [bytesOf, this]⟩

theorem loads_nl (i : Nat) (bs : Bytes) (a : AS) (evs : List Ev) (he : ∀ e ∈ evs, e.ty = .newLine) (hne : evs ≠ []) :
    Loads i bs evs a { a with pl := 0 } := by
  intro src st _ hl
  obtain ⟨st', f, l⟩ := Loader.K.X_nls src evs hl he
  rw [if_neg hne] at l
  exact ⟨st', f, l⟩

theorem ltok_seg (c : TC) (l : LTok) (hw : wsLoop c.st = true) (hc : l.isCmt = true → cmtLoop c.st = true) (a : AS) :
    Seg c [.lay l] (LTok.fx c l) a { a with pl := gapPl a.pl [l] } := by
  obtain ⟨st, g, K, i, CS, cx, al⟩ := c
  cases l with
  | sp b =>
    exact Seg.tok (step_sp st hw g K i CS cx al _) (by simpa [gapPl, Gap.hasNl, LTok.isNl] using Loads.nil _ _ _) rfl
  | nl b =>
    exact Seg.tok (step_nl st hw g K i CS cx al)
      (by simpa [gapPl, Gap.hasNl, LTok.isNl] using loads_nl i _ a _ (by simp) (by simp)) rfl
  | cmt t n =>
    have h := step_cmt st (hc rfl) g K i CS cx al (t.map classify)
    rw [List.length_map] at h
    refine Seg.tok h
      (by simpa [gapPl, Gap.hasNl, LTok.isNl] using loads_nl i _ a _ (by simp) (by simp)) ?_
    simp only [LTok.fx, BTok.bytes, LTok.bytes, List.length_cons, List.length_append, List.length_nil]; omega

/-- a layout, at a place where the scanner reads blanks (and comments, if it holds any) -/
theorem gap_seg : ∀ (g : Gap) (c : TC) (a : AS), wsLoop c.st = true → (Gap.hasCmt g = true → cmtLoop c.st = true) →
    Seg c (gapToks g) (gapTC c g) a { a with pl := gapPl a.pl g }
  | [], c, a, _, _ => Seg.refl c a
  | l :: g, c, a, hw, hc => by
    have h1 := ltok_seg c l hw (fun hl => hc (by rw [hasCmt_cons, hl]; rfl)) a
    have hc' : Gap.hasCmt g = true → cmtLoop (LTok.fx c l).st = true := fun hg =>
      cmtLoop_fx (hc (by rw [hasCmt_cons, hg]; simp))
    have h2 := gap_seg g (LTok.fx c l) { a with pl := gapPl a.pl [l] } (wsLoop_fx hw) hc'
    have := h1.trans h2
    rw [gapPl_cons]
    exact this

/-- **an annotation token**: scanner allowed (`al`, no guard), loader: exactly one node on the line, `n` the last -/
theorem ann_seg (c : TC) (an : Annot) (hw : an.WF) (hl : annLoop c.st = true) (hg : c.g = false) (hal : c.al = true)
    (hK : noML c.K = true) (a : AS) (n : Nat) (xn : XNode) (hlast : a.last = some n) (hpl : a.pl = 1)
    (hn : a.AL[n]? = some xn) :
    Seg c [.ann an] (annTC c an)
      a { a with AL := a.AL.set n (annX (some an) xn), pl := (bif an.multi then 1 else 0) } := by
  obtain ⟨st, g, K, i, CS, cx, al⟩ := c
  obtain ⟨AL, leaf, last, pl, root⟩ := a
  simp only at hl hg hal hK hlast hpl hn
  subst hg hal hlast hpl
  obtain ⟨multi, s2, ob, s3, nt, nlb⟩ := an
  obtain ⟨hcls, hnt, hnl⟩ := hw
  cases multi with
  | true =>
    have hv : (Lay.mlOf s2 ob s3 nt).Valid := hcls
    have hlen : i + 2 + (Lay.mlOf s2 ob s3 nt).render.length + 2 = i + (Annot.bytes ⟨true, s2, ob, s3, nt, nlb⟩).length := by
      simp only [Annot.bytes, cond_true, annBody_len, List.length_cons, List.length_append, List.length_nil]; omega
    refine Seg.tok (e := (Lay.mlOf s2 ob s3 nt).evs i)
      (c1 := annTC ⟨st, false, K, i, CS, cx, true⟩ ⟨true, s2, ob, s3, nt, nlb⟩) ?_ ?_ rfl
    · have := step_ml st hl K i CS cx (Lay.mlOf s2 ob s3 nt)
      simp only [BTok.cls, Annot.cls, cond_true]
      rw [this, hlen]
      rfl
    · intro src s hat hls
      have hat' : Lay.AtB src (i + 2) (Lay.annBody s2 ob s3 nt ++ [42, 47]) := by
        simp only [BTok.bytes, Annot.bytes, cond_true, Lay.AtB] at hat
        exact hat.2.2
      obtain ⟨s', f, l⟩ := Lay.K.ml_effect src hls xn hn s2 ob s3 nt i hv.2.1 hnt [42, 47] hat'
      exact ⟨s', f, l⟩
  | false =>
    have hv : (Lay.inlOf s2 ob s3 nt).Valid := hcls
    have hlen : i + 2 + (Lay.inlOf s2 ob s3 nt).render.length + 1 = i + (Annot.bytes ⟨false, s2, ob, s3, nt, nlb⟩).length := by
      simp only [Annot.bytes, cond_false, ml_inl_render, annBody_len, List.length_cons, List.length_append, List.length_nil]
      omega
    have hnote : (Lay.inlOf s2 ob s3 nt).hasNote = nt.isSome := by cases nt <;> rfl
    refine Seg.tok (e := (Lay.inlOf s2 ob s3 nt).evs i)
      (c1 := annTC ⟨st, false, K, i, CS, cx, true⟩ ⟨false, s2, ob, s3, nt, nlb⟩) ?_ ?_ rfl
    · have := step_inl st hl K hK i CS cx (Lay.inlOf s2 ob s3 nt)
      simp only [BTok.cls, Annot.cls, cond_false]
      rw [this, hlen, hnote]
      rfl
    · intro src s hat hls
      have hat' : Lay.AtB src (i + 2) (Lay.annBody s2 ob s3 nt ++ [nlb]) := by
        simp only [BTok.bytes, Annot.bytes, cond_false, Lay.AtB] at hat
        exact hat.2.2
      obtain ⟨s', f, l⟩ := Lay.K.inl_effect src hls xn hn s2 ob s3 nt i hv.2.1 hnt [nlb] hat'
      exact ⟨s', f, l⟩

end AT.K
