import JSight.SchemaLenAnnRun
/-!
C14, annotated schemas: the rule object of an annotation, for an arbitrary `lengthComputing` flag, as `Path`s
(`AnnotObj` restated; same proofs; the grammar `CRule` / `CObj` and its events are those of `AnnotObj`).
-/
namespace SchemaScan
namespace Len

variable {lc : Bool}


variable {data : Array Cls}

theorem keySt_aLoop {a : Ann} {st : St} (h : keySt st = true) : aLoop a st = true := by
  cases st <;> simp [keySt] at h <;> rfl

theorem replicate_sp_at {i n : Nat} (h : At data i (List.replicate (n + 1) Cls.sp)) :
    data[i]? = some .sp ∧ At data (i + 1) (List.replicate n Cls.sp) := by
  simp only [List.replicate_succ] at h
  exact h

/-- from the place where a rule may start to the last byte of its value -/
theorem rule_open (a : Ann) (ha : a.isAnn = true) (r : CRule) (hv : r.Valid a) {st : St} (hst : keySt st = true)
    (x : St) (K : List (LexT × Nat)) (p : Nat) (CS : List Ctx) (cx : Ctx) (al : Bool)
    (hat : At data p (r.b1 ++ (r.name ++ (List.replicate r.n2 Cls.sp ++ (Cls.colon :: (r.b3 ++ r.val)))))) :
    ∃ stE, PV stE = true ∧
      Path data (cfgAL lc a st [x] K false p CS cx al) (r.openEvs p)
        (cfgAL lc a stE [x] ((.litB, r.valOff p) :: (.valB, r.valOff p) :: K) false (r.valOff p + r.val.length) CS cx al) := by
  obtain ⟨hb1, ⟨hne, hname⟩, hb3, hval, _⟩ := hv
  obtain ⟨c, tl, st0, unf0, stE, hve, hs, hr, hp⟩ := hval
  rw [At_append, At_append, At_append] at hat
  obtain ⟨hat1, hatn, hatsp, hatc⟩ := hat
  obtain ⟨hcolon, hat⟩ := hatc
  rw [At_append] at hat
  obtain ⟨hat3, hatv⟩ := hat
  simp only [List.length_replicate] at hcolon hat3 hatv
  -- blanks, first byte of the name
  have s1 := ablank_run (lc := lc) a ha r.b1 hb1 st (keySt_aLoop hst) [x] K p CS cx al hat1
  cases hn : r.name with
  | nil => exact absurd hn hne
  | cons n0 ns =>
    rw [hn] at hatn hname
    obtain ⟨hn0, hatns⟩ := hatn
    have s2 : Path data (cfgAL lc a (wsSt st r.b1) [x] K false (p + r.b1.length) CS cx al)
        [⟨.keyB, p + r.b1.length, p + r.b1.length⟩]
        (cfgAL lc a .annKey [x] ((.keyB, p + r.b1.length) :: K) false (p + r.b1.length + 1) CS cx al) :=
      cfgAL_byte (lc := lc) hn0 (fun p1 p2 => akey_first 7 a ha _ (keySt_wsSt hst r.b1) n0 (hname n0 (by simp)) [x] K
        (p + r.b1.length + 1) CS cx al p1 p2) rfl rfl
    have s3 := name_run (lc := lc) a ns (fun c hc => hname c (by simp [hc])) [x] ((.keyB, p + r.b1.length) :: K)
      (p + r.b1.length + 1) CS cx al hatns
    -- spaces and the colon
    have s4 : Path data (cfgAL lc a .annKey [x] ((.keyB, p + r.b1.length) :: K) false (p + r.b1.length + 1 + ns.length) CS cx al)
        [⟨.keyE, p + r.b1.length, p + r.b1.length + (ns.length + 1) + r.n2 - 1⟩]
        (cfgAL lc a .objValue [x] K false (p + r.b1.length + (ns.length + 1) + r.n2 + 1) CS cx al) := by
      simp only [hn, List.length_cons] at hatsp hcolon
      cases h2 : r.n2 with
      | zero =>
        rw [h2] at hcolon
        have hc' : data[p + r.b1.length + 1 + ns.length]? = some .colon := by
          rw [show p + r.b1.length + 1 + ns.length = p + r.b1.length + (ns.length + 1) + 0 by omega]; exact hcolon
        refine (cfgAL_byte (lc := lc) hc' (fun p1 p2 => annKey_colon 5 a .annKey rfl [x] (p + r.b1.length) K _ CS cx al p1 p2)
          rfl rfl).cast ?_ (cfgAL_congr rfl ?_)
        · show [(⟨LexT.keyE, p + r.b1.length, p + r.b1.length + 1 + ns.length + 1 - 1 - 1⟩ : Ev)] = _
          rw [show p + r.b1.length + 1 + ns.length + 1 - 1 - 1 = p + r.b1.length + (ns.length + 1) + 0 - 1 by omega]
        · show p + r.b1.length + 1 + ns.length + 1 = _
          omega
      | succ m =>
        rw [h2] at hatsp hcolon
        obtain ⟨hsp0, hsps⟩ := replicate_sp_at hatsp
        have hsp0' : data[p + r.b1.length + 1 + ns.length]? = some .sp := by
          rw [show p + r.b1.length + 1 + ns.length = p + r.b1.length + (ns.length + 1) by omega]; exact hsp0
        have t1 : Path data (cfgAL lc a .annKey [x] ((.keyB, p + r.b1.length) :: K) false
            (p + r.b1.length + 1 + ns.length) CS cx al) []
            (cfgAL lc a .annKeyAfter [x] ((.keyB, p + r.b1.length) :: K) false (p + r.b1.length + 1 + ns.length + 1) CS cx al) :=
          cfgAL_byte (lc := lc) hsp0' (fun p1 p2 => annKey_sp 7 a [x] _ _ CS cx al p1 p2) rfl rfl
        have t2 := spaces_run (lc := lc) a m [x] ((.keyB, p + r.b1.length) :: K) (p + r.b1.length + 1 + ns.length + 1) CS cx al
          (by rw [show p + r.b1.length + 1 + ns.length + 1 = p + r.b1.length + (ns.length + 1) + 1 by omega]; exact hsps)
        have hc' : data[p + r.b1.length + 1 + ns.length + 1 + m]? = some .colon := by
          rw [show p + r.b1.length + 1 + ns.length + 1 + m = p + r.b1.length + (ns.length + 1) + (m + 1) by omega]
          exact hcolon
        have t3 := cfgAL_byte (lc := lc) (a := a) (st := .annKeyAfter) (r := [x]) (K := (.keyB, p + r.b1.length) :: K) (u := false)
          (CS := CS) (cx := cx) (al := al) hc'
          (fun p1 p2 => annKey_colon 5 a .annKeyAfter rfl [x] (p + r.b1.length) K _ CS cx al p1 p2) rfl rfl
        refine (Path.trans (Path.trans t1 t2) t3).cast ?_ (cfgAL_congr rfl ?_)
        · show [(⟨LexT.keyE, p + r.b1.length, p + r.b1.length + 1 + ns.length + 1 + m + 1 - 1 - 1⟩ : Ev)] = _
          rw [show p + r.b1.length + 1 + ns.length + 1 + m + 1 - 1 - 1 = p + r.b1.length + (ns.length + 1) + (m + 1) - 1 by omega]
        · show p + r.b1.length + 1 + ns.length + 1 + m + 1 = _
          omega
    -- blanks, the value
    simp only [hn, List.length_cons] at hat3 hatv
    have s5 := ablank_run (lc := lc) a ha r.b3 hb3 .objValue rfl [x] K (p + r.b1.length + (ns.length + 1) + r.n2 + 1) CS cx al hat3
    rw [wsSt_eq (by simp)] at s5
    rw [hve] at hatv
    obtain ⟨hc0, hattl⟩ := hatv
    have s6 : Path data (cfgAL lc a .objValue [x] K false (p + r.b1.length + (ns.length + 1) + r.n2 + 1 + r.b3.length) CS cx al)
        [⟨.valB, p + r.b1.length + (ns.length + 1) + r.n2 + 1 + r.b3.length,
            p + r.b1.length + (ns.length + 1) + r.n2 + 1 + r.b3.length⟩,
          ⟨.litB, p + r.b1.length + (ns.length + 1) + r.n2 + 1 + r.b3.length,
            p + r.b1.length + (ns.length + 1) + r.n2 + 1 + r.b3.length⟩]
        (cfgAL lc a st0 [x] ((.litB, p + r.b1.length + (ns.length + 1) + r.n2 + 1 + r.b3.length) ::
          (.valB, p + r.b1.length + (ns.length + 1) + r.n2 + 1 + r.b3.length) :: K) unf0
          (p + r.b1.length + (ns.length + 1) + r.n2 + 1 + r.b3.length + 1) CS cx al) :=
      cfgAL_byte (lc := lc) hc0 (fun p1 p2 => aval_start 7 a c st0 unf0 hs [x] K _ CS cx al p1 p2) rfl rfl
    have hr' := silentRun_ret tl st0 [] unf0 stE [] false x hr
    have s7 := tok_runA (lc := lc) a tl st0 [x] unf0 stE [x] false hr' ((.litB, p + r.b1.length + (ns.length + 1) + r.n2 + 1 + r.b3.length) ::
      (.valB, p + r.b1.length + (ns.length + 1) + r.n2 + 1 + r.b3.length) :: K)
      (p + r.b1.length + (ns.length + 1) + r.n2 + 1 + r.b3.length + 1) CS cx al hattl
    refine ⟨stE, hp, (Path.trans (Path.trans (Path.trans (Path.trans (Path.trans (Path.trans s1 s2) s3) s4) s5) s6) s7).cast
      ?_ (cfgAL_congr ?_ ?_)⟩
    · simp [CRule.openEvs, CRule.nameOff, CRule.valOff, hn]
    · simp [CRule.valOff, hn]
    · simp only [CRule.valOff, hn, hve, List.length_cons]; omega

/-- the byte behind a literal rule value is a blank -/
theorem aclose_blank (a : Ann) (ha : a.isAnn = true) {st : St} (hst : PV st = true) (c : Cls) (hc : a.okBlank c = true)
    (x : St) (b b2 : Nat) (K : List (LexT × Nat)) (i : Nat) (CS : List Ctx) (cx : Ctx) (al : Bool)
    (hcat : data[i]? = some c) :
    Path data (cfgAL lc a st [x] ((.litB, b) :: (.valB, b2) :: K) false i CS cx al)
      ([⟨.litE, b, i - 1⟩, ⟨.valE, b2, i - 1⟩] ++ nlEvs i [c])
      (cfgAL lc a .afterValue [x] K false (i + 1) CS cx al) := by
  rcases okBlank_cases hc with hs | ⟨rfl, rfl⟩
  · refine (cfgAL_byte (lc := lc) hcat (fun p1 p2 =>
      (pv_dispatch 7 st hst c (by cases c <;> simp [Cls.isSpTab] at hs <;> rfl) _ p1 p2).trans
        ((ev_closeA 7 a st [x] b b2 K (i + 1) CS cx al c p1 p2).trans
          (aaft_sp 6 a c hs [x] _ (i + 1) CS cx al _ p1 p2))) rfl rfl).cast ?_ rfl
    show [(⟨LexT.litE, b, i + 1 - 1 - 1⟩ : Ev), ⟨LexT.valE, b2, i + 1 - 1 - 1⟩] = _
    simp [nlEvs, sptab_ne_nl hs]
  · refine (cfgAL_byte (lc := lc) hcat (fun p1 p2 =>
      (pv_dispatch 7 st hst .nl rfl _ p1 p2).trans
        ((ev_closeA 7 .multi st [x] b b2 K (i + 1) CS cx al .nl p1 p2).trans
          (aaft_nl 6 [x] _ (i + 1) CS cx al _ p1 p2))) rfl rfl).cast ?_ rfl
    show [(⟨LexT.litE, b, i + 1 - 1 - 1⟩ : Ev), ⟨LexT.valE, b2, i + 1 - 1 - 1⟩, ⟨LexT.newLine, i + 1 - 1, i + 1 - 1⟩] = _
    simp [nlEvs]

/-- blanks behind a literal rule value, then `,` -/
theorem rule_close_comma (a : Ann) (ha : a.isAnn = true) {st : St} (hst : PV st = true) (b4 : List Cls)
    (hb4 : ABlank a b4) (x : St) (b b2 : Nat) (K : List (LexT × Nat)) (i : Nat) (CS : List Ctx) (cx : Ctx) (al : Bool)
    (hat : At data i (b4 ++ [Cls.comma])) :
    Path data (cfgAL lc a st [x] ((.litB, b) :: (.valB, b2) :: K) false i CS cx al)
      (⟨.litE, b, i - 1⟩ :: ⟨.valE, b2, i - 1⟩ :: nlEvs i b4)
      (cfgAL lc a .objKey [x] K false (i + b4.length + 1) CS cx al) := by
  cases b4 with
  | nil =>
    exact cfgAL_byte (lc := lc) hat.1 (fun p1 p2 =>
      (pv_dispatch 7 st hst .comma rfl _ p1 p2).trans
        ((ev_closeA 7 a st [x] b b2 K (i + 1) CS cx al .comma p1 p2).trans
          (aaft_comma 6 a [x] _ (i + 1) CS cx al _ p1 p2))) rfl rfl
  | cons c w =>
    rw [At_append] at hat
    obtain ⟨⟨hc, hatw⟩, hcomma, _⟩ := hat
    have s1 := aclose_blank (lc := lc) a ha hst c hb4.head x b b2 K i CS cx al hc
    have s2 := ablank_run (lc := lc) a ha w hb4.tail .afterValue rfl [x] K (i + 1) CS cx al hatw
    rw [wsSt_eq (by simp)] at s2
    have s3 : Path data (cfgAL lc a .afterValue [x] K false (i + 1 + w.length) CS cx al) []
        (cfgAL lc a .objKey [x] K false (i + 1 + w.length + 1) CS cx al) :=
      cfgAL_byte (lc := lc) (by rw [show i + 1 + w.length = i + (w.length + 1) by omega]; exact hcomma)
        (fun p1 p2 => aaft_comma 7 a [x] K _ CS cx al [] p1 p2) rfl rfl
    refine (Path.trans (Path.trans s1 s2) s3).cast ?_ (cfgAL_congr rfl ?_)
    · simp [nlEvs]
    · simp only [List.length_cons]; omega

/-- blanks behind the last literal rule value, then `}` -/
theorem rule_close_rbrace (a : Ann) (ha : a.isAnn = true) {st : St} (hst : PV st = true) (b4 : List Cls)
    (hb4 : ABlank a b4) (x : St) (b b2 o y : Nat) (R : List (LexT × Nat)) (i : Nat) (c0 : Ctx) (CS : List Ctx)
    (cx : Ctx) (al : Bool) (hat : At data i (b4 ++ [Cls.rbrace])) :
    Path data (cfgAL lc a st [x] ((.litB, b) :: (.valB, b2) :: (.objB, o) :: (a.B, y) :: R) false i (c0 :: CS) cx al)
      (⟨.litE, b, i - 1⟩ :: ⟨.valE, b2, i - 1⟩ :: (nlEvs i b4 ++ [⟨.objE, o, i + b4.length⟩]))
      (cfgAL lc a a.prefixSt [x] ((a.B, y) :: R) false (i + b4.length + 1) CS c0 al) := by
  cases b4 with
  | nil =>
    exact cfgAL_byte (lc := lc) hat.1 (fun p1 p2 =>
      (pv_dispatch 7 st hst .rbrace rfl _ p1 p2).trans
        ((ev_closeA 7 a st [x] b b2 _ (i + 1) (c0 :: CS) cx al .rbrace p1 p2).trans
          (aaft_rbrace_lit 6 a ha [x] b b2 o y R (i + 1) c0 CS cx al p1 p2))) rfl rfl
  | cons c w =>
    rw [At_append] at hat
    obtain ⟨⟨hc, hatw⟩, hrb, _⟩ := hat
    have s1 := aclose_blank (lc := lc) a ha hst c hb4.head x b b2 ((.objB, o) :: (a.B, y) :: R) i (c0 :: CS) cx al hc
    have s2 := ablank_run (lc := lc) a ha w hb4.tail .afterValue rfl [x] ((.objB, o) :: (a.B, y) :: R) (i + 1) (c0 :: CS) cx al hatw
    rw [wsSt_eq (by simp)] at s2
    have s3 : Path data (cfgAL lc a .afterValue [x] ((.objB, o) :: (a.B, y) :: R) false (i + 1 + w.length) (c0 :: CS) cx al)
        [⟨.objE, o, i + 1 + w.length⟩] (cfgAL lc a a.prefixSt [x] ((a.B, y) :: R) false (i + 1 + w.length + 1) CS c0 al) :=
      cfgAL_byte (lc := lc) (by rw [show i + 1 + w.length = i + (w.length + 1) by omega]; exact hrb)
        (fun p1 p2 => aobj_rbrace 7 a ha .afterValue (Or.inr rfl) [x] o y R _ c0 CS cx al p1 p2) rfl rfl
    refine (Path.trans (Path.trans s1 s2) s3).cast ?_ (cfgAL_congr rfl ?_)
    · simp only [nlEvs, List.length_cons, List.cons_append, List.nil_append, List.append_assoc, List.append_nil]
      rw [show i + (w.length + 1) = i + 1 + w.length by omega]
    · simp only [List.length_cons]; omega

/-! ### the rules of an object -/

theorem CRule.render_length (r : CRule) :
    r.render.length = r.b1.length + r.name.length + r.n2 + 1 + r.b3.length + r.val.length + r.b4.length := by
  simp only [CRule.render, List.length_append, List.length_cons, List.length_replicate]; omega

/-- one rule up to (and including) the delimiter `d` that follows it -/
theorem rule_at_split (r : CRule) (d : Cls) (rest : List Cls) (p : Nat) (h : At data p (r.render ++ (d :: rest))) :
    At data p (r.b1 ++ (r.name ++ (List.replicate r.n2 Cls.sp ++ (Cls.colon :: (r.b3 ++ r.val))))) ∧
    At data (r.valOff p + r.val.length) (r.b4 ++ [d]) ∧ At data (p + r.render.length + 1) rest := by
  have e : r.render ++ (d :: rest)
      = (r.b1 ++ (r.name ++ (List.replicate r.n2 Cls.sp ++ (Cls.colon :: (r.b3 ++ r.val))))) ++ ((r.b4 ++ [d]) ++ rest) := by
    simp [CRule.render]
  rw [e, At_append] at h
  obtain ⟨h1, h23⟩ := h
  rw [At_append] at h23
  obtain ⟨h2, h3⟩ := h23
  refine ⟨h1, ?_, ?_⟩
  · have : p + (r.b1 ++ (r.name ++ (List.replicate r.n2 Cls.sp ++ (Cls.colon :: (r.b3 ++ r.val))))).length
        = r.valOff p + r.val.length := by
      simp only [CRule.valOff, List.length_append, List.length_cons, List.length_replicate]; omega
    rw [← this]; exact h2
  · have : p + (r.b1 ++ (r.name ++ (List.replicate r.n2 Cls.sp ++ (Cls.colon :: (r.b3 ++ r.val))))).length
        + (r.b4 ++ [d]).length = p + r.render.length + 1 := by
      simp only [CRule.render_length, List.length_append, List.length_cons, List.length_replicate, List.length_nil]; omega
    rw [← this]; exact h3

theorem rules_run (a : Ann) (ha : a.isAnn = true) : ∀ (rs : List CRule) (r : CRule), ValidRules a r rs →
    ∀ (tc : Option (List Cls)), (∀ b5, tc = some b5 → ABlank a b5) → ∀ {st : St}, keySt st = true →
    ∀ (x : St) (o y : Nat) (R : List (LexT × Nat)) (p : Nat) (c0 : Ctx) (CS : List Ctx) (cx : Ctx) (al : Bool),
    At data p (renderRules r rs ++ (renderTc tc ++ [Cls.rbrace])) →
    Path data (cfgAL lc a st [x] ((.objB, o) :: (a.B, y) :: R) false p (c0 :: CS) cx al)
      (rulesEvs p r rs ++ (tcEvs (p + (renderRules r rs).length) tc ++
        [⟨.objE, o, p + (renderRules r rs ++ renderTc tc).length⟩]))
      (cfgAL lc a a.prefixSt [x] ((a.B, y) :: R) false (p + (renderRules r rs ++ renderTc tc).length + 1) CS c0 al)
  | [], r, hv, tc, htc, st, hst, x, o, y, R, p, c0, CS, cx, al, hat => by
    simp only [renderRules] at hat ⊢
    cases tc with
    | none =>
      simp only [renderTc, List.nil_append, List.append_nil] at hat ⊢
      obtain ⟨h1, h2, _⟩ := rule_at_split r .rbrace [] p hat
      obtain ⟨stE, hp, s1⟩ := rule_open (lc := lc) a ha r hv.1 hst x ((.objB, o) :: (a.B, y) :: R) p (c0 :: CS) cx al h1
      have s2 := rule_close_rbrace (lc := lc) a ha hp r.b4 hv.1.2.2.2.2 x (r.valOff p) (r.valOff p) o y R
        (r.valOff p + r.val.length) c0 CS cx al h2
      refine (Path.trans s1 s2).cast ?_ (cfgAL_congr rfl ?_)
      · simp only [rulesEvs, tcEvs, CRule.evs, CRule.closeEvs, List.nil_append, List.append_assoc, List.cons_append,
          CRule.render_length, CRule.valOff]
        simp only [Nat.add_assoc, Nat.add_comm, Nat.add_left_comm]
      · simp only [CRule.render_length, CRule.valOff]; omega
    | some b5 =>
      simp only [renderTc, List.cons_append] at hat ⊢
      obtain ⟨h1, h2, h3⟩ := rule_at_split r .comma (b5 ++ [.rbrace]) p hat
      obtain ⟨stE, hp, s1⟩ := rule_open (lc := lc) a ha r hv.1 hst x ((.objB, o) :: (a.B, y) :: R) p (c0 :: CS) cx al h1
      have s2 := rule_close_comma (lc := lc) a ha hp r.b4 hv.1.2.2.2.2 x (r.valOff p) (r.valOff p) ((.objB, o) :: (a.B, y) :: R)
        (r.valOff p + r.val.length) (c0 :: CS) cx al h2
      rw [At_append] at h3
      have s3 := ablank_run (lc := lc) a ha b5 (htc b5 rfl) .objKey rfl [x] ((.objB, o) :: (a.B, y) :: R)
        (r.valOff p + r.val.length + r.b4.length + 1) (c0 :: CS) cx al (by
          rw [show r.valOff p + r.val.length + r.b4.length + 1 = p + r.render.length + 1 by
            simp only [CRule.render_length, CRule.valOff]; omega]
          exact h3.1)
      have s4 : Path data (cfgAL lc a (wsSt .objKey b5) [x] ((.objB, o) :: (a.B, y) :: R) false
          (r.valOff p + r.val.length + r.b4.length + 1 + b5.length) (c0 :: CS) cx al)
          [⟨.objE, o, r.valOff p + r.val.length + r.b4.length + 1 + b5.length⟩]
          (cfgAL lc a a.prefixSt [x] ((a.B, y) :: R) false (r.valOff p + r.val.length + r.b4.length + 1 + b5.length + 1) CS c0 al) :=
        cfgAL_byte (lc := lc) (by
            rw [show r.valOff p + r.val.length + r.b4.length + 1 + b5.length = p + r.render.length + 1 + b5.length by
              simp only [CRule.render_length, CRule.valOff]; omega]
            exact h3.2.1)
          (fun p1 p2 => aobj_rbrace 7 a ha _ (Or.inl (keySt_wsSt rfl b5)) [x] o y R _ c0 CS cx al p1 p2) rfl rfl
      refine (Path.trans (Path.trans (Path.trans s1 s2) s3) s4).cast ?_ (cfgAL_congr rfl ?_)
      · simp only [rulesEvs, tcEvs, CRule.evs, CRule.closeEvs, List.append_assoc, List.cons_append, List.nil_append,
          List.length_append, List.length_cons, CRule.render_length, CRule.valOff]
        simp only [Nat.add_assoc, Nat.add_comm, Nat.add_left_comm]
      · simp only [List.length_append, List.length_cons, CRule.render_length, CRule.valOff]; omega
  | r' :: rs, r, hv, tc, htc, st, hst, x, o, y, R, p, c0, CS, cx, al, hat => by
    simp only [renderRules, List.cons_append, List.append_assoc] at hat
    obtain ⟨h1, h2, h3⟩ := rule_at_split r .comma _ p hat
    obtain ⟨stE, hp, s1⟩ := rule_open (lc := lc) a ha r hv.1 hst x ((.objB, o) :: (a.B, y) :: R) p (c0 :: CS) cx al h1
    have s2 := rule_close_comma (lc := lc) a ha hp r.b4 hv.1.2.2.2.2 x (r.valOff p) (r.valOff p) ((.objB, o) :: (a.B, y) :: R)
      (r.valOff p + r.val.length) (c0 :: CS) cx al h2
    have hoff : r.valOff p + r.val.length + r.b4.length + 1 = p + r.render.length + 1 := by
      simp only [CRule.render_length, CRule.valOff]; omega
    have ih := rules_run a ha rs r' ⟨hv.2 r' (by simp), fun z hz => hv.2 z (by simp [hz])⟩ tc htc (st := .objKey) rfl
      x o y R (p + r.render.length + 1) c0 CS cx al h3
    rw [← hoff] at ih
    refine (Path.trans (Path.trans s1 s2) ih).cast ?_ (cfgAL_congr rfl ?_)
    · simp only [rulesEvs, CRule.evs, CRule.closeEvs, renderRules, List.append_assoc, List.cons_append,
        List.length_append, List.length_cons, hoff]
      simp only [Nat.add_assoc, Nat.add_comm, Nat.add_left_comm]
    · simp only [renderRules, List.length_append, List.length_cons, hoff]; omega

/-- the rule object from behind its `{` to behind its `}` -/
theorem obj_run (a : Ann) (ha : a.isAnn = true) (ob : CObj) (hv : ob.Valid a)
    (x : St) (o y : Nat) (R : List (LexT × Nat)) (c0 : Ctx) (CS : List Ctx) (cx : Ctx) (al : Bool)
    (hat : At data (o + 1) (ob.body ++ [Cls.rbrace])) :
    Path data (cfgAL lc a .objKeyOrEmpty [x] ((.objB, o) :: (a.B, y) :: R) false (o + 1) (c0 :: CS) cx al) (ob.evs o)
      (cfgAL lc a a.prefixSt [x] ((a.B, y) :: R) false (o + 1 + ob.body.length + 1) CS c0 al) := by
  cases ob with
  | empty b0 =>
    simp only [CObj.body] at hat ⊢
    rw [At_append] at hat
    have s1 := ablank_run (lc := lc) a ha b0 hv .objKeyOrEmpty rfl [x] ((.objB, o) :: (a.B, y) :: R) (o + 1) (c0 :: CS) cx al hat.1
    have s2 : Path data (cfgAL lc a (wsSt .objKeyOrEmpty b0) [x] ((.objB, o) :: (a.B, y) :: R) false (o + 1 + b0.length)
        (c0 :: CS) cx al) [⟨.objE, o, o + 1 + b0.length⟩]
        (cfgAL lc a a.prefixSt [x] ((a.B, y) :: R) false (o + 1 + b0.length + 1) CS c0 al) :=
      cfgAL_byte (lc := lc) hat.2.1 (fun p1 p2 => aobj_rbrace 7 a ha _ (Or.inl (keySt_wsSt rfl b0)) [x] o y R _ c0 CS cx al p1 p2)
        rfl rfl
    exact (Path.trans s1 s2).cast (by simp [CObj.evs]) rfl
  | rules r rs tc =>
    simp only [CObj.body, List.append_assoc] at hat ⊢
    have := rules_run (lc := lc) a ha rs r hv.1 tc hv.2 (st := .objKeyOrEmpty) rfl x o y R (o + 1) c0 CS cx al hat
    exact this.cast (by simp [CObj.evs]) rfl

end Len
end SchemaScan
