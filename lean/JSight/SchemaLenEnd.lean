import JSight.SchemaLenTree
/-!
`Length()` of the schema scanner model: the end of the run (foreign byte / end of input) and the pure list facts
(`trimBlank`, last events, last byte of a rendered value).
-/
namespace SchemaScan

/-! ### foreign bytes -/

/-- a byte after the schema that is neither layout nor the start of an annotation (`/`) or a comment (`#`) -/
def Cls.isForeign : Cls → Bool
  | .sp | .tab | .nl | .slash | .hash => false
  | _ => true

/-- bytes that, written directly after a value whose scanner state is `st`, do not continue (or spoil) the token:
after a number, not a digit (except after a leading `0`), `.` (except after a fraction), `e`, `E` -/
def adjOk : St → Cls → Bool
  | .d0, x => match x with | .dot | .le | .uE => false | _ => true
  | .d1, x => match x with | .zero | .d19 | .dot | .le | .uE => false | _ => true
  | .dot0, x => match x with | .zero | .d19 | .le | .uE => false | _ => true
  | _, _ => true

/-- bytes that may continue a number token -/
def Cls.isNumCont : Cls → Bool
  | .zero | .d19 | .dot | .le | .uE => true
  | _ => false

namespace Len

variable {data : Array Cls}

theorem adjOk_of_not_numCont (st : St) (x : Cls) (h : x.isNumCont = false) : adjOk st x = true := by
  cases st <;> cases x <;> simp [Cls.isNumCont] at h <;> rfl

theorem pv_foreign (f : Nat) (st : St) (h : PV st = true) (x : Cls) (hx : adjOk st x = true) (s : Sc)
    (p1 p2 : Option Cls) : dispatch (f + 1) st s x p1 p2 = endValue f s x p1 p2 := by
  cases st <;> simp [PV] at h <;> cases x <;> simp [adjOk] at hx <;>
    (unfold dispatch; try unfold state0) <;> rfl

/-- `end-top` state, nothing open, foreign byte: `end-top` is queued -/
theorem endTop_foreign (f : Nat) (x : Cls) (hx : x.isForeign = true)
    (i : Nat) (CS : List Ctx) (cx : Ctx) (al : Bool) (fs : List LexT) (p1 p2 : Option Cls) :
    dispatch (f + 1) .endTop { cfgL true .endTop [] [] false i CS cx al with finds := fs } x p1 p2
      = .ok { cfgL true .endTop [] [] false i CS cx al with finds := fs ++ [.endTop] } := by
  cases x <;> simp [Cls.isForeign] at hx <;> (unfold dispatch; rfl)

/-- `end-top` state, the top-level literal still open, foreign byte: `end-top` is deferred (`hasTrailing`) -/
theorem endTop_foreign_open (f : Nat) (x : Cls) (hx : x.isForeign = true) (y : LexT × Nat) (K : List (LexT × Nat))
    (i : Nat) (CS : List Ctx) (cx : Ctx) (al : Bool) (fs : List LexT) (p1 p2 : Option Cls) :
    dispatch (f + 1) .endTop { cfgL true .endTop [] (y :: K) false i CS cx al with finds := fs } x p1 p2
      = .ok { cfgL true .endTop [] (y :: K) false i CS cx al with finds := fs, hasTrailing := true } := by
  cases x <;> simp [Cls.isForeign] at hx <;> (unfold dispatch; rfl)

/-- the deferred `end-top` is delivered on the next byte, whatever it is -/
theorem endTop_trailing (f : Nat) (c : Cls)
    (i : Nat) (CS : List Ctx) (cx : Ctx) (al : Bool) (p1 p2 : Option Cls) :
    dispatch (f + 1) .endTop { cfgL true .endTop [] [] false i CS cx al with hasTrailing := true } c p1 p2
      = .ok { cfgL true .endTop [] [] false i CS cx al with hasTrailing := true, finds := [.endTop] } := by
  unfold dispatch; rfl

/-! ### `trimBlank` -/

theorem At_getElem : ∀ (w : List Cls) (o : Nat), At data o w → ∀ k (h : k < w.length), data[o + k]? = some w[k]
  | [], _, _, k, h => by cases h
  | c :: cs, o, hat, k, h => by
    cases k with
    | zero => exact hat.1
    | succ k =>
      have := At_getElem cs (o + 1) hat.2 k (by simpa using h)
      rw [show o + (k + 1) = o + 1 + k by omega]
      simpa using this

theorem trimBlank_stop (n : Nat) (c : Cls) (h : data[n]? = some c) (hc : c.isBlank = false) :
    trimBlank data (n + 1) = n + 1 := by
  rw [trimBlank, h]
  simp [hc]

theorem trimBlank_ws (w : List Cls) (hw : IsWs w) (E : Nat) (hat : At data E w) :
    ∀ k, k ≤ w.length → trimBlank data (E + k) = trimBlank data E
  | 0, _ => rfl
  | k + 1, hk => by
    have hg := At_getElem w E hat k (by omega)
    have hb : (w[k]'(by omega)).isBlank = true := hw _ (List.getElem_mem _)
    rw [show E + (k + 1) = E + k + 1 by omega, trimBlank, hg]
    simp only [Option.map_some, hb, beq_self_eq_true, if_true]
    exact trimBlank_ws w hw E hat k (by omega)

/-- trimming any length between the end of the value and the end of the layout after it -/
theorem trimBlank_after (w : List Cls) (hw : IsWs w) (pre : List Cls) (c : Cls) (hc : c.isBlank = false) (o : Nat)
    (hat : At data o ((pre ++ [c]) ++ w)) (L : Nat) (h1 : o + (pre.length + 1) ≤ L) (h2 : L ≤ o + (pre.length + 1) + w.length) :
    trimBlank data L = o + (pre.length + 1) := by
  rw [At_append, At_append] at hat
  obtain ⟨⟨_, hc1⟩, hw1⟩ := hat
  simp only [List.length_append, List.length_cons, List.length_nil] at hw1
  rw [show L = o + (pre.length + 0 + 1) + (L - (o + (pre.length + 1))) by omega,
    trimBlank_ws w hw _ hw1 _ (by omega)]
  rw [show o + (pre.length + 0 + 1) = o + pre.length + 1 by omega]
  exact trimBlank_stop _ c hc1.1 hc

/-! ### the last byte of a value is not blank -/

theorem silent_blank {st : St} {r : List St} {u : Bool} {c : Cls} {st' : St} {r' : List St} {u' : Bool}
    (hc : c.isBlank = true) (h : silent st r u c = some (st', r', u')) : PV st' = false := by
  by_cases h3 : st = .u3
  · subst h3
    cases r with
    | nil => simp [silent] at h
    | cons r0 r => cases c <;> simp [Cls.isBlank, Cls.isSpace, Cls.isNewLine] at hc <;> simp [silent, Cls.isHex] at h
  · cases c <;> simp [Cls.isBlank, Cls.isSpace, Cls.isNewLine] at hc <;>
      cases st <;> (try exact absurd rfl h3) <;> simp [silent, Cls.isHex] at h <;>
      (obtain ⟨rfl, -, -⟩ := h; rfl)

theorem silentRun_last : ∀ (tl : List Cls) (st : St) (r : List St) (u : Bool) (stE : St) (r' : List St) (u' : Bool),
    tl ≠ [] → silentRun st r u tl = some (stE, r', u') → PV stE = true →
    ∃ pre d, tl = pre ++ [d] ∧ d.isBlank = false
  | [], _, _, _, _, _, _, h, _, _ => absurd rfl h
  | c :: cs, st, r, u, stE, r', u', _, h, hp => by
    simp only [silentRun] at h
    cases hs : silent st r u c with
    | none => rw [hs] at h; cases h
    | some p =>
      obtain ⟨s1, r1, u1⟩ := p
      rw [hs] at h
      simp only [] at h
      cases cs with
      | nil =>
        simp only [silentRun, Option.some.injEq, Prod.mk.injEq] at h
        obtain ⟨rfl, -, -⟩ := h
        refine ⟨[], c, rfl, ?_⟩
        cases hb : c.isBlank with
        | false => rfl
        | true => rw [silent_blank hb hs] at hp; cases hp
      | cons c2 cs2 =>
        obtain ⟨pre, d, he, hd⟩ := silentRun_last (c2 :: cs2) s1 r1 u1 stE r' u' (by simp) h hp
        exact ⟨c :: pre, d, by rw [he]; rfl, hd⟩

theorem scalar_last {tok : List Cls} (h : IsScalar tok) : ∃ pre d, tok = pre ++ [d] ∧ d.isBlank = false := by
  obtain ⟨c, tl, st0, u0, stE, rfl, hs, hr, hp⟩ := h
  cases tl with
  | nil => exact ⟨[], c, rfl, by cases c <;> simp [litStart] at hs <;> rfl⟩
  | cons c2 cs =>
    obtain ⟨pre, d, he, hd⟩ := silentRun_last (c2 :: cs) st0 [] u0 stE [] false (by simp) hr hp
    exact ⟨c :: pre, d, by rw [he]; rfl, hd⟩

theorem renderItems_last : ∀ (its : List (List Cls × Tree × List Cls)), ∃ pre, renderItems its = pre ++ [.rbrack]
  | [] => ⟨[], rfl⟩
  | (w1, v, w2) :: its => by
    obtain ⟨pre, he⟩ := renderItems_last its
    refine ⟨w1 ++ (v.render ++ (w2 ++ ((if its.isEmpty then [] else [.comma]) ++ pre))), ?_⟩
    simp only [renderItems, he, List.append_assoc]

theorem renderMembers_last : ∀ (ms : List (List Cls × List Cls × List Cls × List Cls × Tree × List Cls)),
    ∃ pre, renderMembers ms = pre ++ [.rbrace]
  | [] => ⟨[], rfl⟩
  | (w1, k, w2, w3, v, w4) :: ms => by
    obtain ⟨pre, he⟩ := renderMembers_last ms
    refine ⟨w1 ++ (k ++ (w2 ++ (.colon :: (w3 ++ (v.render ++ (w4 ++ ((if ms.isEmpty then [] else [.comma]) ++ pre))))))), ?_⟩
    simp only [renderMembers, he, List.append_assoc, List.cons_append]

/-- the last byte of a rendered value is not blank -/
theorem render_last (v : Tree) (hv : v.Valid) : ∃ pre d, v.render = pre ++ [d] ∧ d.isBlank = false := by
  cases v with
  | scalar tok =>
    have h : IsScalar tok := by simpa [Tree.Valid] using hv
    simp only [Tree.render]
    exact scalar_last h
  | arr ws0 items =>
    obtain ⟨pre, he⟩ := renderItems_last items
    exact ⟨.lbrack :: (ws0 ++ pre), .rbrack, by simp [Tree.render, he], rfl⟩
  | obj ws0 members =>
    obtain ⟨pre, he⟩ := renderMembers_last members
    exact ⟨.lbrace :: (ws0 ++ pre), .rbrace, by simp [Tree.render, he], rfl⟩

/-! ### the events: none is `end-top`, the last one ends at the last byte -/

theorem noTop_nlEvs : ∀ (o : Nat) (w : List Cls), noTop (nlEvs o w) = true
  | _, [] => rfl
  | o, c :: cs => by
    have := noTop_nlEvs (o + 1) cs
    simp only [nlEvs, noTop_append, this, Bool.and_true]
    split <;> rfl

mutual
theorem noTop_evs : (v : Tree) → (o : Nat) → noTop (schemaEvsAt o v) = true
  | .scalar tok, o => rfl
  | .arr ws0 items, o => by
    have h1 := noTop_nlEvs (o + 1) ws0
    have h2 := noTop_items items o (o + 1 + ws0.length)
    simp only [schemaEvsAt, ← List.singleton_append (l := _ ++ _), noTop_append, h1, h2, Bool.and_true]
    rfl
  | .obj ws0 members, o => by
    have h1 := noTop_nlEvs (o + 1) ws0
    have h2 := noTop_members members o (o + 1 + ws0.length)
    simp only [schemaEvsAt, ← List.singleton_append (l := _ ++ _), noTop_append, h1, h2, Bool.and_true]
    rfl
theorem noTop_items : (its : List (List Cls × Tree × List Cls)) → (a o : Nat) → noTop (evsItems a o its) = true
  | [], _, _ => rfl
  | (w1, v, w2) :: its, a, o => by
    have h1 := noTop_nlEvs o w1
    have h2 := noTop_evs v (o + w1.length)
    have h3 := noTop_nlEvs (o + w1.length + v.render.length) w2
    have h4 := noTop_items its a (o + w1.length + v.render.length + w2.length + (if its.isEmpty then 0 else 1))
    simp only [noTop, List.all_append, List.all_cons, evsItems] at h1 h2 h3 h4 ⊢
    simp only [h1, h2, h3, h4]
    rfl
theorem noTop_members : (ms : List (List Cls × List Cls × List Cls × List Cls × Tree × List Cls)) → (a o : Nat) →
    noTop (evsMembers a o ms) = true
  | [], _, _ => rfl
  | (w1, k, w2, w3, v, w4) :: ms, a, o => by
    have h1 := noTop_nlEvs o w1
    have h2 := noTop_nlEvs (o + w1.length + k.length) w2
    have h3 := noTop_nlEvs (o + w1.length + k.length + w2.length + 1) w3
    have h4 := noTop_evs v (o + w1.length + k.length + w2.length + 1 + w3.length)
    have h5 := noTop_nlEvs (o + w1.length + k.length + w2.length + 1 + w3.length + v.render.length) w4
    have h6 := noTop_members ms a (o + w1.length + k.length + w2.length + 1 + w3.length + v.render.length + w4.length
          + (if ms.isEmpty then 0 else 1))
    simp only [noTop, List.all_append, List.all_cons, evsMembers] at h1 h2 h3 h4 h5 h6 ⊢
    simp only [h1, h2, h3, h4, h5, h6]
    rfl
end

end Len
end SchemaScan
