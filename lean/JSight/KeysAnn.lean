import JSight.AnnTree
import JSight.KeysLoad
/-!
C15 / C13, raw keys: `ml_effect` / `inl_effect` of `AnnTree` for the abstraction `absK` (`Loader.K.LS`).
-/
namespace Lay.K
open Lay
open SchemaScan (Ev LexT Ann Cls classify CRule CObj nlEvs spansRules vspansRules IsScalar ValidRules)
open SchemaScan.Len (InlBody MlBody noteTail)
open Loader (XNode Fold addX slice nameOf)
open Loader.K (LS X_ann X_nl)

/-- **a multi-line annotation, in any tree context**: whatever the node table, if the loader is in default mode, node
`i` is the node created last and the only one created on the current line, the events of `/* {rules} [- note] */`
(`MlBody.evs`, as the scanner delivers them: `SchemaScan.Len.asim`) add the rule names and rule values of the object,
in written order, and the note to node `i`; nothing else the node loader reads changes -/
theorem ml_effect (src : Array UInt8) {st : Loader.St} {AL : List XNode} {leaf : Option Nat} {i : Nat} {root : Option Nat}
    (h : LS src st AL leaf (some i) 1 root) (xn : XNode) (hn : AL[i]? = some xn)
    (s2 : List UInt8) (ob : BObj) (s3 : List UInt8) (nt : Option (List UInt8 × List UInt8)) (p : Nat)
    (hob : ob.cls.Valid .multi) (hnt : ∀ s4 txt, nt = some (s4, txt) → txt ≠ []) (rest : List UInt8)
    (hat : AtB src (p + 2) (annBody s2 ob s3 nt ++ rest)) :
    ∃ st', Fold src ((mlOf s2 ob s3 nt).evs p) st st' ∧
      LS src st' (AL.set i (addAnn xn ob (nt.map (·.2)))) leaf (some i) 1 root := by
  have hx := addX_eq src .multi xn s2 ob s3 nt p hob hnt rest hat
  cases nt with
  | none =>
    obtain ⟨st', hf, hl⟩ := X_ann src .multi rfl h xn hn (nlEvs (p + 2) (s2.map classify))
      (nlEvs (p + 2 + s2.length + 1 + ob.body.length + 1) (s3.map classify)) (Loader.nlEvs_ty _ _) (Loader.nlEvs_ty _ _)
      ob.cls (p + 2 + s2.length) p (p + 1) p (p + 2 + s2.length + 1 + ob.body.length + 1 + s3.length + 1) none
    refine ⟨st', hf.cast ?_ rfl, by rw [← hx]; exact hl⟩
    simp [MlBody.evs, MlBody.o, MlBody.e1, MlBody.t, SchemaScan.Len.mlTail, mlOf, clsNt, Loader.noteEvs, body_len, Ann.B, Ann.E]
  | some q =>
    obtain ⟨s4, txt⟩ := q
    obtain ⟨st', hf, hl⟩ := X_ann src .multi rfl h xn hn (nlEvs (p + 2) (s2.map classify))
      (nlEvs (p + 2 + s2.length + 1 + ob.body.length + 1) (s3.map classify)) (Loader.nlEvs_ty _ _) (Loader.nlEvs_ty _ _)
      ob.cls (p + 2 + s2.length) p (p + 1) p
      (p + 2 + s2.length + 1 + ob.body.length + 1 + s3.length + 1 + s4.length + txt.length + 1)
      (noteSpan p s2 ob s3 (some (s4, txt)))
    refine ⟨st', hf.cast ?_ rfl, by rw [← hx]; exact hl⟩
    simp [MlBody.evs, MlBody.o, MlBody.e1, MlBody.t, SchemaScan.Len.mlTail, mlOf, clsNt, Loader.noteEvs, body_len, Ann.B, Ann.E,
      Ann.TB, Ann.TE, noteSpan]

/-- **an inline annotation, in any tree context** (the same, for `// {rules} [- note]` and its line break: the
`newLine` event behind the annotation resets the per-line counter) -/
theorem inl_effect (src : Array UInt8) {st : Loader.St} {AL : List XNode} {leaf : Option Nat} {i : Nat} {root : Option Nat}
    (h : LS src st AL leaf (some i) 1 root) (xn : XNode) (hn : AL[i]? = some xn)
    (s2 : List UInt8) (ob : BObj) (s3 : List UInt8) (nt : Option (List UInt8 × List UInt8)) (p : Nat)
    (hob : ob.cls.Valid .inline) (hnt : ∀ s4 txt, nt = some (s4, txt) → txt ≠ []) (rest : List UInt8)
    (hat : AtB src (p + 2) (annBody s2 ob s3 nt ++ rest)) :
    ∃ st', Fold src ((inlOf s2 ob s3 nt).evs p) st st' ∧
      LS src st' (AL.set i (addAnn xn ob (nt.map (·.2)))) leaf (some i) 0 root := by
  have hx := addX_eq src .inline xn s2 ob s3 nt p hob hnt rest hat
  cases nt with
  | none =>
    obtain ⟨st1, hf, hl⟩ := X_ann src .inline rfl h xn hn [] [] (by simp) (by simp)
      ob.cls (p + 2 + s2.length) p (p + 1) p (p + 2 + s2.length + 1 + ob.body.length + 1 + s3.length - 1) none
    obtain ⟨st', hs, hl'⟩ := X_nl src hl ⟨.newLine, p + 2 + s2.length + 1 + ob.body.length + 1 + s3.length,
      p + 2 + s2.length + 1 + ob.body.length + 1 + s3.length⟩ rfl
    refine ⟨st', (Loader.Fold.trans hf (Loader.Fold.one hs)).cast ?_ rfl, by rw [← hx]; exact hl'⟩
    simp [InlBody.evs, inlOf, clsNt, Loader.noteEvs, body_len, Ann.B, Ann.E]
  | some q =>
    obtain ⟨s4, txt⟩ := q
    obtain ⟨st1, hf, hl⟩ := X_ann src .inline rfl h xn hn [] [] (by simp) (by simp)
      ob.cls (p + 2 + s2.length) p (p + 1) p
      (p + 2 + s2.length + 1 + ob.body.length + 1 + s3.length + 1 + s4.length + txt.length - 1)
      (noteSpan p s2 ob s3 (some (s4, txt)))
    obtain ⟨st', hs, hl'⟩ := X_nl src hl ⟨.newLine, p + 2 + s2.length + 1 + ob.body.length + 1 + s3.length + 1 + s4.length + txt.length,
      p + 2 + s2.length + 1 + ob.body.length + 1 + s3.length + 1 + s4.length + txt.length⟩ rfl
    refine ⟨st', (Loader.Fold.trans hf (Loader.Fold.one hs)).cast ?_ rfl, by rw [← hx]; exact hl'⟩
    simp [InlBody.evs, inlOf, clsNt, Loader.noteEvs, body_len, Ann.B, Ann.E, Ann.TB, Ann.TE, noteSpan]

end Lay.K
