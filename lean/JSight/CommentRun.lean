import JSight.LayoutPlain
import JSight.ByteLemmas
/-!
C13, user comments: runs of the schema scanner model over `#` line comments and `## … ###` block comments, and over
layouts (`Lay.LI` lists) that contain them. Architecture of `SchemaEventsStep` / `SchemaEventsRun`: single-byte facts
about `dispatch` at explicit configurations, then the same facts as `Steps`, then runs.

What a comment does: `#` in a state that looks for a value, a key, a separator or the end (`cmtLoop`) pushes the
state and enters `anyCommentStart`. A line comment runs to the next line break, queues ONE `newLine` lexeme, pops
the state and steps the index back: the line break is read again by the restored state (a second `newLine`).
A block comment is left after the first `###` behind the opening `##` (whose next byte must be `#`); it queues
nothing, line breaks inside included.
-/
namespace SchemaScan

/-- states in which `#` starts a user comment -/
def cmtLoop : St → Bool
  | .foundRoot | .objKeyOrEmpty | .objKey | .objKeyAfterNL | .arrItemOrEmpty | .arrItem
  | .afterValue | .afterItem | .endTop => true
  | _ => false

theorem cmtLoop_wsLoop {st : St} (h : cmtLoop st = true) : wsLoop st = true := by
  cases st <;> simp [cmtLoop] at h <;> rfl

theorem cmtLoop_nlSt {st : St} (h : cmtLoop st = true) : cmtLoop (nlSt st) = true := by
  cases st <;> simp [cmtLoop] at h <;> rfl

/-! ### single bytes: `dispatch` -/

theorem loop_hash (f : Nat) (st : St) (h : cmtLoop st = true)
    (K : List (LexT × Nat)) (i : Nat) (CS : List Ctx) (cx : Ctx) (al : Bool) (fs : List LexT) (p1 p2 : Option Cls) :
    dispatch (f + 1) st { cfg st [] K false i CS cx al with finds := fs } .hash p1 p2
      = .ok { cfg .anyCommentStart [st] K false i CS cx al with finds := fs } := by
  cases st <;> simp [cmtLoop] at h <;> (unfold dispatch; rfl)

theorem pv_dispatch_hash (f : Nat) (st : St) (h : PV st = true) (s : Sc) (p1 p2 : Option Cls) :
    dispatch (f + 1) st s .hash p1 p2 = endValue f s .hash p1 p2 := by
  cases st <;> simp [PV] at h <;> (unfold dispatch; try unfold state0) <;> rfl

theorem acs_text (f : Nat) (c : Cls) (hh : c ≠ .hash) (hn : c ≠ .nl) (r : List St)
    (K : List (LexT × Nat)) (i : Nat) (CS : List Ctx) (cx : Ctx) (al : Bool) (p1 p2 : Option Cls) :
    dispatch (f + 1) .anyCommentStart (cfg .anyCommentStart r K false i CS cx al) c p1 p2
      = .ok (cfg .inlineComment r K false i CS cx al) := by
  cases c <;> first | exact absurd rfl hh | exact absurd rfl hn | (unfold dispatch; rfl)

theorem acs_nl (f : Nat) (r0 : St) (rs : List St)
    (K : List (LexT × Nat)) (j : Nat) (CS : List Ctx) (cx : Ctx) (al : Bool) (p1 p2 : Option Cls) :
    dispatch (f + 1) .anyCommentStart (cfg .anyCommentStart (r0 :: rs) K false (j + 1) CS cx al) .nl p1 p2
      = .ok { cfg r0 rs K false j CS cx al with finds := [.newLine] } := by
  unfold dispatch; rfl

theorem inl_text (f : Nat) (c : Cls) (hn : c ≠ .nl) (r : List St)
    (K : List (LexT × Nat)) (i : Nat) (CS : List Ctx) (cx : Ctx) (al : Bool) (p1 p2 : Option Cls) :
    dispatch (f + 1) .inlineComment (cfg .inlineComment r K false i CS cx al) c p1 p2
      = .ok (cfg .inlineComment r K false i CS cx al) := by
  cases c <;> first | exact absurd rfl hn | (unfold dispatch; rfl)

theorem inl_nl (f : Nat) (r0 : St) (rs : List St)
    (K : List (LexT × Nat)) (j : Nat) (CS : List Ctx) (cx : Ctx) (al : Bool) (p1 p2 : Option Cls) :
    dispatch (f + 1) .inlineComment (cfg .inlineComment (r0 :: rs) K false (j + 1) CS cx al) .nl p1 p2
      = .ok { cfg r0 rs K false j CS cx al with finds := [.newLine] } := by
  unfold dispatch; rfl

theorem acs_hash (f : Nat) (r : List St)
    (K : List (LexT × Nat)) (i : Nat) (CS : List Ctx) (cx : Ctx) (al : Bool) (p2 : Option Cls) :
    dispatch (f + 1) .anyCommentStart (cfg .anyCommentStart r K false i CS cx al) .hash (some .hash) p2
      = .ok (cfg .multiLineComment r K false i CS cx al) := by
  unfold dispatch; rfl

theorem ml_end (f : Nat) (r0 : St) (rs : List St)
    (K : List (LexT × Nat)) (i : Nat) (CS : List Ctx) (cx : Ctx) (al : Bool) :
    dispatch (f + 1) .multiLineComment (cfg .multiLineComment (r0 :: rs) K false i CS cx al) .hash (some .hash) (some .hash)
      = .ok (cfg r0 rs K false (i + 2) CS cx al) := by
  unfold dispatch; rfl

theorem ml_stay (f : Nat) (c : Cls) (p1 p2 : Option Cls) (h : ¬ (c = .hash ∧ p1 = some .hash ∧ p2 = some .hash))
    (r : List St) (K : List (LexT × Nat)) (i : Nat) (CS : List Ctx) (cx : Ctx) (al : Bool) :
    dispatch (f + 1) .multiLineComment (cfg .multiLineComment r K false i CS cx al) c p1 p2
      = .ok (cfg .multiLineComment r K false i CS cx al) := by
  have hb : (c == Cls.hash && p1 == some Cls.hash && p2 == some Cls.hash) = false := by
    rw [Bool.eq_false_iff]
    intro hh
    simp only [Bool.and_eq_true, beq_iff_eq] at hh
    exact h ⟨hh.1.1, hh.1.2, hh.2⟩
  unfold dispatch
  simp only [hb, Bool.false_eq_true, if_false]
  rfl

/-! ### the same facts as `Steps` -/

section steps
variable {data : Array Cls}

/-- one byte is read, the index may move on by more than one -/
theorem Steps.read_ge {s s1 : Sc} {c : Cls}
    (hf : s.finds = []) (hc : data[s.index]? = some c)
    (hd : dispatch 8 s.step { s with index := s.index + 1 } c data[s.index + 1]? data[s.index + 1 + 1]? = .ok s1)
    (hi : s.index + 1 ≤ s1.index) : Steps data s [] s1 := by
  obtain ⟨hlt, hget⟩ := Array.getElem?_eq_some_iff.mp hc
  have hbang : data[s.index]! = c := by rw [getElem!_pos data s.index hlt]; exact hget
  have key : ∀ nf r, 1 ≤ nf → next data nf s1 = .ok r → next data (nf + 1) s = .ok r := by
    intro nf r h1 hn
    rw [next_succ]
    unfold nextBody
    have hs : shiftFound data s = .ok none := by unfold shiftFound; rw [hf]; rfl
    rw [hs]
    simp only [hlt, if_true, hbang, hd]
    obtain ⟨m, rfl⟩ : ∃ m, nf = m + 1 := ⟨nf - 1, by omega⟩
    rw [next_succ] at hn
    unfold nextBody at hn
    cases h3 : shiftFound data s1 with
    | error e => rw [h3] at hn; cases hn
    | ok o =>
      rw [h3] at hn
      cases o with
      | some p => exact hn
      | none =>
        simp only []
        rw [next_succ]
        unfold nextBody
        rw [h3]
        exact hn
  have lift : ∀ r, NextOk data s1 r → NextOk data s r := by
    intro r ⟨nf, hb, hn⟩
    have h1 : 1 ≤ nf := by
      cases nf with
      | zero => rw [next_zero] at hn; cases hn
      | succ n => omega
    exact ⟨nf + 1, by omega, key nf r h1 hn⟩
  intro tl h
  cases h with
  | nil hn => exact Emits.nil (lift _ hn)
  | cons hn h' => exact Emits.cons (lift _ hn) h'

/-- one byte is read and queues at least one lexeme: `Next()` returns it at once, wherever the index is left -/
theorem Steps.emit1 {s s1 s2 : Sc} {c : Cls} {t : LexT} {rest : List LexT} {e : Ev}
    (hf : s.finds = []) (hc : data[s.index]? = some c)
    (hd : dispatch 8 s.step { s with index := s.index + 1 } c data[s.index + 1]? data[s.index + 1 + 1]? = .ok s1)
    (h1 : s1.finds = t :: rest) (hp : processFound data { s1 with finds := rest } t = .ok (s2, e)) :
    Steps data s [e] s2 := by
  obtain ⟨hlt, hget⟩ := Array.getElem?_eq_some_iff.mp hc
  have hbang : data[s.index]! = c := by rw [getElem!_pos data s.index hlt]; exact hget
  have hn : NextOk data s (some (s2, e)) := by
    refine ⟨1, by omega, ?_⟩
    rw [next_succ]
    unfold nextBody
    have hs : shiftFound data s = .ok none := by unfold shiftFound; rw [hf]; rfl
    rw [hs]
    simp only [hlt, if_true, hbang, hd]
    have hs1 : shiftFound data s1 = .ok (some (s2, e)) := by
      unfold shiftFound
      rw [h1]
      simp only [bind, Except.bind, hp]
      rfl
    rw [hs1]
  intro tl h
  exact Emits.cons hn h

/-- `#` in a state where a comment may start -/
theorem S_hash {st : St} (h : cmtLoop st = true)
    (K : List (LexT × Nat)) (i : Nat) (CS : List Ctx) (cx : Ctx) (al : Bool) (hc : data[i]? = some .hash) :
    Steps data (cfg st [] K false i CS cx al) [] (cfg .anyCommentStart [st] K false (i + 1) CS cx al) :=
  cfg_byte hc (fun p1 p2 => loop_hash 7 st h K (i + 1) CS cx al [] p1 p2) rfl rfl

/-- a silent byte whose `dispatch` may depend on the look-ahead -/
theorem cfg_read {st : St} {r : List St} {K : List (LexT × Nat)} {u : Bool} {i : Nat} {CS : List Ctx} {cx : Ctx}
    {al : Bool} {c : Cls} {s1 : Sc} (hc : data[i]? = some c)
    (hd : dispatch 8 st (cfg st r K u (i + 1) CS cx al) c data[i + 1]? data[i + 1 + 1]? = .ok s1)
    (hi : i + 1 ≤ s1.index) : Steps data (cfg st r K u i CS cx al) [] s1 :=
  Steps.read_ge (s := cfg st r K u i CS cx al) rfl hc hd hi

/-! ### line comments -/

/-- the text of a line comment after its first byte, up to the line break (which is left unread) -/
theorem inl_run : ∀ (text : List Cls), (∀ c ∈ text, c ≠ .nl) → ∀ (r0 : St)
    (K : List (LexT × Nat)) (m : Nat) (CS : List Ctx) (cx : Ctx) (al : Bool), At data (m + 1) (text ++ [.nl]) →
    Steps data (cfg .inlineComment [r0] K false (m + 1) CS cx al) [⟨.newLine, m + text.length, m + text.length⟩]
      (cfg r0 [] K false (m + 1 + text.length) CS cx al)
  | [], _, r0, K, m, CS, cx, al, hat => by
    have hc : data[m + 1]? = some .nl := hat.1
    exact Steps.emit1 (s := cfg .inlineComment [r0] K false (m + 1) CS cx al) rfl hc
      (inl_nl 7 r0 [] K (m + 1) CS cx al _ _) rfl rfl
  | c :: cs, hne, r0, K, m, CS, cx, al, hat => by
    obtain ⟨hc, hat'⟩ := hat
    have h1 : Steps data (cfg .inlineComment [r0] K false (m + 1) CS cx al) []
        (cfg .inlineComment [r0] K false (m + 1 + 1) CS cx al) :=
      cfg_byte hc (fun p1 p2 => inl_text 7 c (hne c (by simp)) [r0] K (m + 1 + 1) CS cx al p1 p2) rfl rfl
    have h2 := inl_run cs (fun x hx => hne x (by simp [hx])) r0 K (m + 1) CS cx al hat'
    have := Steps.trans h1 h2
    simp only [List.nil_append, List.length_cons] at this ⊢
    rw [show m + (cs.length + 1) = m + 1 + cs.length by omega, show m + 1 + (cs.length + 1) = m + 1 + 1 + cs.length by omega]
    exact this

/-- a line comment behind its `#` (at offset `h`): one `newLine`, the state is restored, the line break is unread -/
theorem cmt_line_run (text : List Cls) (hne : ∀ c ∈ text, c ≠ .nl) (hh : text.head? ≠ some .hash) (r0 : St)
    (K : List (LexT × Nat)) (h : Nat) (CS : List Ctx) (cx : Ctx) (al : Bool) (hat : At data (h + 1) (text ++ [.nl])) :
    Steps data (cfg .anyCommentStart [r0] K false (h + 1) CS cx al) [⟨.newLine, h + text.length, h + text.length⟩]
      (cfg r0 [] K false (h + 1 + text.length) CS cx al) := by
  cases text with
  | nil =>
    have hc : data[h + 1]? = some .nl := hat.1
    exact Steps.emit1 (s := cfg .anyCommentStart [r0] K false (h + 1) CS cx al) rfl hc
      (acs_nl 7 r0 [] K (h + 1) CS cx al _ _) rfl rfl
  | cons c cs =>
    obtain ⟨hc, hat'⟩ := hat
    have hch : c ≠ .hash := by intro e; subst e; simp at hh
    have h1 : Steps data (cfg .anyCommentStart [r0] K false (h + 1) CS cx al) []
        (cfg .inlineComment [r0] K false (h + 1 + 1) CS cx al) :=
      cfg_byte hc (fun p1 p2 => acs_text 7 c hch (hne c (by simp)) [r0] K (h + 1 + 1) CS cx al p1 p2) rfl rfl
    have h2 := inl_run cs (fun x hx => hne x (by simp [hx])) r0 K (h + 1) CS cx al hat'
    have := Steps.trans h1 h2
    simp only [List.nil_append, List.length_cons] at this ⊢
    rw [show h + (cs.length + 1) = h + 1 + cs.length by omega, show h + 1 + (cs.length + 1) = h + 1 + 1 + cs.length by omega]
    exact this

/-- a line comment that runs to the end of input: no lexeme at all, the state is never restored -/
theorem inl_eof : ∀ (text : List Cls), (∀ c ∈ text, c ≠ .nl) → ∀ (r : List St)
    (i : Nat) (CS : List Ctx) (cx : Ctx) (al : Bool), At data i text → data.size = i + text.length →
    Emits data (cfg .inlineComment r [] false i CS cx al) []
  | [], _, r, i, CS, cx, al, _, hn => Emits.done rfl (by simp only [cfg]; simp at hn; omega) rfl
  | c :: cs, hne, r, i, CS, cx, al, hat, hn => by
    obtain ⟨hc, hat'⟩ := hat
    have h1 : Steps data (cfg .inlineComment r [] false i CS cx al) [] (cfg .inlineComment r [] false (i + 1) CS cx al) :=
      cfg_byte hc (fun p1 p2 => inl_text 7 c (hne c (by simp)) r [] (i + 1) CS cx al p1 p2) rfl rfl
    have h2 := inl_eof cs (fun x hx => hne x (by simp [hx])) r (i + 1) CS cx al hat'
      (by simp only [List.length_cons] at hn; omega)
    exact h1.emits h2

theorem cmt_eof (text : List Cls) (hne : ∀ c ∈ text, c ≠ .nl) (hh : text.head? ≠ some .hash) (r : List St)
    (i : Nat) (CS : List Ctx) (cx : Ctx) (al : Bool) (hat : At data i text) (hn : data.size = i + text.length) :
    Emits data (cfg .anyCommentStart r [] false i CS cx al) [] := by
  cases text with
  | nil => exact Emits.done rfl (by simp only [cfg]; simp at hn; omega) rfl
  | cons c cs =>
    obtain ⟨hc, hat'⟩ := hat
    have hch : c ≠ .hash := by intro e; subst e; simp at hh
    have h1 : Steps data (cfg .anyCommentStart r [] false i CS cx al) [] (cfg .inlineComment r [] false (i + 1) CS cx al) :=
      cfg_byte hc (fun p1 p2 => acs_text 7 c hch (hne c (by simp)) r [] (i + 1) CS cx al p1 p2) rfl rfl
    have h2 := inl_eof cs (fun x hx => hne x (by simp [hx])) r (i + 1) CS cx al hat'
      (by simp only [List.length_cons] at hn; omega)
    exact h1.emits h2

/-! ### block comments -/

/-- no occurrence of `###` -/
def noTripleC : List Cls → Bool
  | a :: t@(b :: c :: _) => !(a == Cls.hash && b == Cls.hash && c == Cls.hash) && noTripleC t
  | _ => true

theorem noTripleC_tail {c : Cls} {l : List Cls} (h : noTripleC (c :: l) = true) : noTripleC l = true := by
  cases l with
  | nil => simp [noTripleC]
  | cons d l' =>
    cases l' with
    | nil => simp [noTripleC]
    | cons e l'' =>
      simp only [noTripleC, Bool.and_eq_true] at h
      exact h.2

theorem noTripleC_head {c d e : Cls} {l : List Cls} (h : noTripleC (c :: d :: e :: l) = true) :
    ¬ (c = .hash ∧ d = .hash ∧ e = .hash) := by
  rintro ⟨rfl, rfl, rfl⟩
  simp [noTripleC] at h

/-- inside a block comment: up to and including the first `###` -/
theorem ml_run : ∀ (body : List Cls), noTripleC (body ++ [.hash, .hash]) = true → ∀ (r0 : St)
    (K : List (LexT × Nat)) (i : Nat) (CS : List Ctx) (cx : Ctx) (al : Bool),
    At data i (body ++ [.hash, .hash, .hash]) →
    Steps data (cfg .multiLineComment [r0] K false i CS cx al) [] (cfg r0 [] K false (i + body.length + 3) CS cx al)
  | [], _, r0, K, i, CS, cx, al, hat => by
    obtain ⟨h0, h1, h2, _⟩ := hat
    refine cfg_read h0 ?_ (by simp only [cfg]; omega)
    rw [h1, h2]
    exact ml_end 7 r0 [] K (i + 1) CS cx al
  | c :: cs, hnt, r0, K, i, CS, cx, al, hat => by
    obtain ⟨hc, hat'⟩ := hat
    have ih := ml_run cs (noTripleC_tail hnt) r0 K (i + 1) CS cx al hat'
    -- the two bytes behind `c`
    have hla : ∃ d e l, cs ++ [Cls.hash, .hash] = d :: e :: l := by
      cases cs with
      | nil => exact ⟨_, _, _, rfl⟩
      | cons d cs' =>
        cases cs' with
        | nil => exact ⟨_, _, _, rfl⟩
        | cons e l => exact ⟨_, _, _, rfl⟩
    obtain ⟨d, e, l, hl⟩ := hla
    have hnot : ¬ (c = .hash ∧ d = .hash ∧ e = .hash) := by
      apply noTripleC_head (l := l)
      rw [← hl]
      exact hnt
    have hat2 : At data (i + 1) (d :: e :: (l ++ [.hash])) := by
      have : cs ++ [Cls.hash, .hash, .hash] = d :: e :: (l ++ [.hash]) := by
        have := congrArg (· ++ [Cls.hash]) hl
        simpa using this
      rw [← this]; exact hat'
    obtain ⟨hd1, hd2, _⟩ := hat2
    have h1 : Steps data (cfg .multiLineComment [r0] K false i CS cx al) []
        (cfg .multiLineComment [r0] K false (i + 1) CS cx al) := by
      refine cfg_read hc ?_ (by simp only [cfg]; omega)
      rw [hd1, hd2]
      exact ml_stay 7 c (some d) (some e) (by
        rintro ⟨a, b, c'⟩
        exact hnot ⟨a, Option.some.inj b, Option.some.inj c'⟩) [r0] K (i + 1) CS cx al
    have := Steps.trans h1 ih
    simp only [List.nil_append, List.length_cons] at this ⊢
    rw [show i + (cs.length + 1) + 3 = i + 1 + cs.length + 3 by omega]
    exact this

/-- a block comment behind its first `#` (at offset `h`): the second `#`, the body, `###` -/
theorem cmt_block_run (body : List Cls) (hhd : (body ++ [Cls.hash]).head? = some Cls.hash)
    (hnt : noTripleC (body ++ [.hash, .hash]) = true) (r0 : St)
    (K : List (LexT × Nat)) (h : Nat) (CS : List Ctx) (cx : Ctx) (al : Bool)
    (hat : At data (h + 1) (.hash :: (body ++ [.hash, .hash, .hash]))) :
    Steps data (cfg .anyCommentStart [r0] K false (h + 1) CS cx al) []
      (cfg r0 [] K false (h + 1 + 1 + body.length + 3) CS cx al) := by
  obtain ⟨hc, hat'⟩ := hat
  have hnext : data[h + 1 + 1]? = some .hash := by
    cases body with
    | nil => exact hat'.1
    | cons b bs =>
      simp only [List.cons_append, List.head?_cons, Option.some.injEq] at hhd
      subst hhd
      exact hat'.1
  have h1 : Steps data (cfg .anyCommentStart [r0] K false (h + 1) CS cx al) []
      (cfg .multiLineComment [r0] K false (h + 1 + 1) CS cx al) := by
    refine cfg_read hc ?_ (by simp only [cfg]; omega)
    rw [hnext]
    exact acs_hash 7 [r0] K (h + 1 + 1) CS cx al _
  have h2 := ml_run body hnt r0 K (h + 1 + 1) CS cx al hat'
  have := Steps.trans h1 h2
  simpa using this

end steps

end SchemaScan
