import JSight.Number
/-!
C02 model: `ValidateLiteralValue` for one scalar node (`validate_literal_value.go`, constraints
min / max with the exclusive flags folded in at compile time, minLength / maxLength, nullable with
fix F-6, kind admissibility of `checkNotAnEnum`), over raw document tokens. Numbers go through the
number model `Num.scan` / `N.cmp` about which C10 is proved.
-/
namespace Rules

inductive Kind | i | f | s | b | n deriving DecidableEq, Repr, Inhabited

/-- what a literal node demands after compilation -/
structure LitSpec where
  kind : Kind
  nul : Bool := false
  exact : Bool := false                 -- additionalProperties: the guessed type must be equal
  min : Option (String × Bool) := none  -- bound token, exclusive
  max : Option (String × Bool) := none
  minLen : Option Nat := none
  maxLen : Option Nat := none
  deriving Inhabited

/-- rules as written: Boolean rules carry their value; `false` values are inert -/
structure RawRules where
  kind : Kind
  nullable : Option Bool := none
  min : Option String := none
  max : Option String := none
  exclusiveMinimum : Option Bool := none
  exclusiveMaximum : Option Bool := none
  minLen : Option Nat := none
  maxLen : Option Nat := none

/-- `compileNode`: false-valued `nullable` is dropped, `exclusive*` is folded into the bound -/
def compile (r : RawRules) : LitSpec :=
  { kind := r.kind, nul := r.nullable == some true,
    min := r.min.map (fun m => (m, r.exclusiveMinimum == some true)),
    max := r.max.map (fun m => (m, r.exclusiveMaximum == some true)),
    minLen := r.minLen, maxLen := r.maxLen }

def toCh (s : String) : List Num.Ch := s.toList.map fun c =>
  if c == '-' then .minus else if c == '+' then .plus else if c == '.' then .dot else if c == 'e' || c == 'E' then .e
  else if c.isDigit then .d (c.toNat - 48) else .other

/-- `json.Guess(value).LiteralJsonType()` on scalar tokens -/
def kindOfTok (t : String) : Option Kind :=
  if t == "null" then some .n
  else if t == "true" || t == "false" then some .b
  else if t.toList.head? == some '"' then some .s
  else match Num.scan (toCh t) with
    | none => none
    | some n =>
      let dot := t.toList.any (· == '.')
      let exp := t.toList.any (fun c => c == 'e' || c == 'E')
      if (dot && !exp) || n.exp != 0 then some .f else some .i

/-- `Min.Validate` / `Max.Validate` -/
def boundOK (v b : List Num.Ch) (excl isMin : Bool) : Bool :=
  match Num.scan v, Num.scan b with
  | some v, some b =>
    let c := v.cmp b
    if isMin then (if excl then c == .gt else c != .lt) else (if excl then c == .lt else c != .gt)
  | _, _ => false

def numOK (tok : String) (bound : String × Bool) (isMin : Bool) : Bool :=
  boundOK (toCh tok) (toCh bound.1) bound.2 isMin

def kindAdmissible (l : LitSpec) (d : Kind) : Bool := d == l.kind || (d == .i && l.kind == .f)

def rulesOK (l : LitSpec) (tok : String) : Bool :=
  (match l.min with | some b => numOK tok b true | none => true) &&
  (match l.max with | some b => numOK tok b false | none => true) &&
  (match l.minLen with | some n => decide (n ≤ tok.length - 2) | none => true) &&
  (match l.maxLen with | some n => decide (tok.length - 2 ≤ n) | none => true)

def litOK (l : LitSpec) (tok : String) : Bool :=
  match kindOfTok tok with
  | none => false
  | some d =>
    if l.exact then d == l.kind
    else if d == .n && l.nul then true                                  -- F-6: a nullable node accepts null at once
    else if !kindAdmissible l d then false
    else rulesOK l tok

end Rules
