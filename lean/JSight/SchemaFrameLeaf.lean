import JSight.SchemaFrame
/-! Frame property of the leaf transitions (no re-dispatch, not inside a comment). -/
namespace SchemaScan

theorem foundRoot_F {f s c p1 p2 s'} (h : dispatch (f+1) .foundRoot s c p1 p2 = .ok s') : F 4 s s' := by
  leafF h

theorem objKeyOrEmpty_F {f s c p1 p2 s'} (h : dispatch (f+1) .objKeyOrEmpty s c p1 p2 = .ok s') : F 4 s s' := by
  leafF h

theorem objKey_F {f s c p1 p2 s'} (h : dispatch (f+1) .objKey s c p1 p2 = .ok s') : F 4 s s' := by
  leafF h

theorem objKeyAfterNL_F {f s c p1 p2 s'} (h : dispatch (f+1) .objKeyAfterNL s c p1 p2 = .ok s') : F 4 s s' := by
  leafF h

theorem objValue_F {f s c p1 p2 s'} (h : dispatch (f+1) .objValue s c p1 p2 = .ok s') : F 4 s s' := by
  leafF h

theorem arrItemOrEmpty_F {f s c p1 p2 s'} (h : dispatch (f+1) .arrItemOrEmpty s c p1 p2 = .ok s') : F 4 s s' := by
  leafF h

theorem arrItem_F {f s c p1 p2 s'} (h : dispatch (f+1) .arrItem s c p1 p2 = .ok s') : F 4 s s' := by
  leafF h

theorem afterKey_F {f s c p1 p2 s'} (h : dispatch (f+1) .afterKey s c p1 p2 = .ok s') : F 4 s s' := by
  leafF h

theorem afterValue_F {f s c p1 p2 s'} (h : dispatch (f+1) .afterValue s c p1 p2 = .ok s') : F 4 s s' := by
  leafF h

theorem afterItem_F {f s c p1 p2 s'} (h : dispatch (f+1) .afterItem s c p1 p2 = .ok s') : F 4 s s' := by
  leafF h

theorem endTop_F {f s c p1 p2 s'} (h : dispatch (f+1) .endTop s c p1 p2 = .ok s') : F 4 s s' := by
  leafF h

theorem inString_F {f s c p1 p2 s'} (h : dispatch (f+1) .inString s c p1 p2 = .ok s') : F 4 s s' := by
  leafF h

theorem esc_F {f s c p1 p2 s'} (h : dispatch (f+1) .esc s c p1 p2 = .ok s') : F 4 s s' := by
  leafF h

theorem u0_F {f s c p1 p2 s'} (h : dispatch (f+1) .u0 s c p1 p2 = .ok s') : F 4 s s' := by
  leafF h

theorem u1_F {f s c p1 p2 s'} (h : dispatch (f+1) .u1 s c p1 p2 = .ok s') : F 4 s s' := by
  leafF h

theorem u2_F {f s c p1 p2 s'} (h : dispatch (f+1) .u2 s c p1 p2 = .ok s') : F 4 s s' := by
  leafF h

theorem u3_F {f s c p1 p2 s'} (h : dispatch (f+1) .u3 s c p1 p2 = .ok s') : F 4 s s' := by
  leafF h

theorem neg_F {f s c p1 p2 s'} (h : dispatch (f+1) .neg s c p1 p2 = .ok s') : F 4 s s' := by
  leafF h

theorem dot_F {f s c p1 p2 s'} (h : dispatch (f+1) .dot s c p1 p2 = .ok s') : F 4 s s' := by
  leafF h

theorem t_F {f s c p1 p2 s'} (h : dispatch (f+1) .t s c p1 p2 = .ok s') : F 4 s s' := by
  leafF h

theorem tr_F {f s c p1 p2 s'} (h : dispatch (f+1) .tr s c p1 p2 = .ok s') : F 4 s s' := by
  leafF h

theorem tru_F {f s c p1 p2 s'} (h : dispatch (f+1) .tru s c p1 p2 = .ok s') : F 4 s s' := by
  leafF h

theorem f_F {f s c p1 p2 s'} (h : dispatch (f+1) .f s c p1 p2 = .ok s') : F 4 s s' := by
  leafF h

theorem fa_F {f s c p1 p2 s'} (h : dispatch (f+1) .fa s c p1 p2 = .ok s') : F 4 s s' := by
  leafF h

theorem fal_F {f s c p1 p2 s'} (h : dispatch (f+1) .fal s c p1 p2 = .ok s') : F 4 s s' := by
  leafF h

theorem fals_F {f s c p1 p2 s'} (h : dispatch (f+1) .fals s c p1 p2 = .ok s') : F 4 s s' := by
  leafF h

theorem n_F {f s c p1 p2 s'} (h : dispatch (f+1) .n s c p1 p2 = .ok s') : F 4 s s' := by
  leafF h

theorem nu_F {f s c p1 p2 s'} (h : dispatch (f+1) .nu s c p1 p2 = .ok s') : F 4 s s' := by
  leafF h

theorem nul_F {f s c p1 p2 s'} (h : dispatch (f+1) .nul s c p1 p2 = .ok s') : F 4 s s' := by
  leafF h

theorem tsBeginName_F {f s c p1 p2 s'} (h : dispatch (f+1) .tsBeginName s c p1 p2 = .ok s') : F 4 s s' := by
  leafF h

theorem tsAfterPipe_F {f s c p1 p2 s'} (h : dispatch (f+1) .tsAfterPipe s c p1 p2 = .ok s') : F 4 s s' := by
  leafF h

theorem anyAnnStart_F {f s c p1 p2 s'} (h : dispatch (f+1) .anyAnnStart s c p1 p2 = .ok s') : F 4 s s' := by
  leafF h

theorem inlAnnStart_F {f s c p1 p2 s'} (h : dispatch (f+1) .inlAnnStart s c p1 p2 = .ok s') : F 4 s s' := by
  leafF h

theorem inlTxtPrefix_F {f s c p1 p2 s'} (h : dispatch (f+1) .inlTxtPrefix s c p1 p2 = .ok s') : F 4 s s' := by
  leafF h

theorem inlTxt_F {f s c p1 p2 s'} (h : dispatch (f+1) .inlTxt s c p1 p2 = .ok s') : F 4 s s' := by
  leafF h

theorem inlTxtSkip_F {f s c p1 p2 s'} (h : dispatch (f+1) .inlTxtSkip s c p1 p2 = .ok s') : F 4 s s' := by
  leafF h

theorem mlTxtPrefix_F {f s c p1 p2 s'} (h : dispatch (f+1) .mlTxtPrefix s c p1 p2 = .ok s') : F 4 s s' := by
  leafF h

theorem mlAnnEnd_F {f s c p1 p2 s'} (h : dispatch (f+1) .mlAnnEnd s c p1 p2 = .ok s') : F 4 s s' := by
  leafF h

theorem mlTxt_F {f s c p1 p2 s'} (h : dispatch (f+1) .mlTxt s c p1 p2 = .ok s') : F 4 s s' := by
  leafF h

theorem annKeyFirst_F {f s c p1 p2 s'} (h : dispatch (f+1) .annKeyFirst s c p1 p2 = .ok s') : F 4 s s' := by
  leafF h

def St.isLeaf : St → Bool
  | .foundRoot | .objKeyOrEmpty | .objKey | .objKeyAfterNL | .objValue | .arrItemOrEmpty | .arrItem | .afterKey | .afterValue | .afterItem | .endTop | .inString | .esc | .u0 | .u1 | .u2 | .u3 | .neg | .dot | .t | .tr | .tru | .f | .fa | .fal | .fals | .n | .nu | .nul | .tsBeginName | .tsAfterPipe | .anyAnnStart | .inlAnnStart | .inlTxtPrefix | .inlTxt | .inlTxtSkip | .mlTxtPrefix | .mlAnnEnd | .mlTxt | .annKeyFirst => true
  | _ => false

theorem leaf_F {f which s c p1 p2 s'} (hl : which.isLeaf = true)
    (h : dispatch (f+1) which s c p1 p2 = .ok s') : F 4 s s' := by
  cases which <;> simp [St.isLeaf] at hl
  · exact foundRoot_F h
  · exact objKeyOrEmpty_F h
  · exact objKey_F h
  · exact objKeyAfterNL_F h
  · exact objValue_F h
  · exact arrItemOrEmpty_F h
  · exact arrItem_F h
  · exact afterKey_F h
  · exact afterValue_F h
  · exact afterItem_F h
  · exact endTop_F h
  · exact inString_F h
  · exact esc_F h
  · exact u0_F h
  · exact u1_F h
  · exact u2_F h
  · exact u3_F h
  · exact neg_F h
  · exact dot_F h
  · exact t_F h
  · exact tr_F h
  · exact tru_F h
  · exact f_F h
  · exact fa_F h
  · exact fal_F h
  · exact fals_F h
  · exact n_F h
  · exact nu_F h
  · exact nul_F h
  · exact tsBeginName_F h
  · exact tsAfterPipe_F h
  · exact anyAnnStart_F h
  · exact inlAnnStart_F h
  · exact inlTxtPrefix_F h
  · exact inlTxt_F h
  · exact inlTxtSkip_F h
  · exact mlTxtPrefix_F h
  · exact mlAnnEnd_F h
  · exact mlTxt_F h
  · exact annKeyFirst_F h

end SchemaScan
