import JSight.BridgeCR2Thm
/-!
Bridge (A)∩(B), second part: **`models_agree_compile`** — on every scalar / object / array node of the common class
(a literal node has no children), (A)'s per-node compile (`BridgeCR.aNode`: creation, `Compile.basic` stage by stage,
the kind-compatibility stage of `Compile.check`) and (B)'s `CR.checkRules` on the translated node both accept, or both
reject with the same error code; (A) never answers `unsupported`.

Also: the FULL statement `C08_models_agree_full` of the first part is false on an `RNode` no loader produces (a
literal node WITH children and `type: "any"`: (A) counts the children — 1106 —, (B)'s literal node has none):
`full_false`.
-/
namespace BridgeCR
open Compile
open Loader (NK)

/-- a literal node has no children (every node the loader produces) -/
def leafOK (n : RNode) : Bool := n.kind != NK.lit || n.children.isEmpty

theorem agree_out {a : Except Err Unit} {b : Except CR.Code Unit} (h : Agree a b) :
    isUnsupported a = false ∧ codeA a = codeB b := by
  cases a with
  | ok u => cases b with
    | ok v => exact ⟨rfl, rfl⟩
    | error e => exact absurd h (by simp [Agree])
  | error e => cases b with
    | ok v => cases e <;> exact absurd h (by simp [Agree])
    | error cb => cases e with
      | code ca p => have : ca = cb := h; subst this; exact ⟨rfl, rfl⟩
      | unsupported w => exact absurd h (by simp [Agree])

theorem aNode_eq (n : RNode) (isProp : Bool) (jt : JT) (hA : createRules n.kind [] n.rules = .ok ()) (hj : jtOf n = .ok jt) :
    aNode n isProp = outA (basic n jt isProp n.children.length) := by
  unfold aNode outA
  simp only [hA, hj]
  cases basic n jt isProp n.children.length <;> rfl

/-- the node description of (B) goes with (A)'s node -/
theorem ctx_facts (n : RNode) (isProp : Bool) (nk : CR.NKind) (hnk : nkindOf n = some nk) (hkm : n.kind ≠ NK.mixed)
    (hw : leafOK n = true) :
    ∃ jt, jtOf n = .ok jt ∧ CtxOK n.kind jt n.children.length isProp (nk.ctx isProp) ∧ CR.initMap nk = CR.CMap.empty := by
  unfold nkindOf at hnk
  unfold leafOK at hw
  cases hkind : n.kind <;> simp only [hkind] at hnk hkm hw
  · cases hnk
    refine ⟨.obj, by simp [jtOf, hkind], ?_, rfl⟩
    constructor <;> simp [CR.NKind.ctx, CR.Ctx.isBranch, cjt]
  · cases hnk
    refine ⟨.arr, by simp [jtOf, hkind], ?_, rfl⟩
    constructor <;> simp [CR.NKind.ctx, CR.Ctx.isBranch, cjt]
  · cases hval : n.value with
    | none => simp [hval] at hnk
    | some tok =>
      cases hkd : RulesF.kindOfTok tok with
      | none => simp [hval, hkd] at hnk
      | some kd =>
        simp only [hval, Option.bind_some, hkd, Option.map_some, Option.some.injEq] at hnk
        subst hnk
        have hch : n.children.length = 0 := by
          have : n.children.isEmpty = true := by simpa using hw
          simpa using this
        refine ⟨JT.ofKind kd, by simp [jtOf, hkind, hval, hkd], ?_, by cases kd <;> rfl⟩
        cases kd <;> constructor <;> (try simp [kindOfLit, CR.NKind.ctx, CR.Ctx.isBranch, cjt, JT.ofKind, hch]) <;>
          first | rfl | decide
  · exact absurd rfl hkm

theorem models_agree_compile (n : RNode) (isProp : Bool) (h : common n = true) (hp : plainKind n = true)
    (hw : leafOK n = true) :
    isUnsupported (aNode n isProp) = false ∧ codeA (aNode n isProp) = codeB (CR.checkRules (crNodeOf n isProp)) := by
  have hcre := creation_agree n isProp h hp
  have hkm : n.kind ≠ NK.mixed := by simpa [plainKind] using hp
  simp only [common, Bool.and_eq_true] at h
  obtain ⟨⟨⟨hk, hshape⟩, hrc⟩, hfmt⟩ := h
  obtain ⟨nk, hnk⟩ := Option.isSome_iff_exists.1 hk
  have hgen : ∀ r ∈ n.rules, r.gen = false := by
    cases hkind : n.kind <;> simp only [hkind] at hshape hkm <;> first
      | exact absurd rfl hkm
      | (intro r hr; have := List.all_eq_true.1 hshape r hr; simpa using this)
  have hman : manual n = n.rules := by
    unfold manual
    exact List.filter_eq_self.2 (fun r hr => by simp [hgen r hr])
  obtain ⟨jt, hjt, C, hinit⟩ := ctx_facts n isProp nk hnk hkm hw
  have hrules : ∀ r ∈ n.rules, r.gen = false ∧ ruleCommon r = true ∧
      ((nk.ctx isProp).cls ≠ .mixedValue ∨ (r.name ≠ CR.n_type ∧ r.name ≠ CR.n_or)) := fun r hr =>
    ⟨hgen r hr, List.all_eq_true.1 hrc r (by rw [hman]; exact hr), Or.inl C.notMV⟩
  have hnode : crNodeOf n isProp = { kind := nk, isProp := isProp, rules := n.rules.map ruleOf } := by
    unfold crNodeOf
    rw [hnk, hman]
    rfl
  rw [hnode] at hcre ⊢
  have hctx : ({ kind := nk, isProp := isProp, rules := n.rules.map ruleOf } : CR.Node).ctx = nk.ctx isProp := rfl
  unfold CR.checkRules
  simp only [hctx, hinit] at hcre ⊢
  cases hA : createRules n.kind [] n.rules with
  | error e =>
    rw [hA] at hcre
    have haN : aNode n isProp = .error e := by unfold aNode; simp only [hA]
    rw [haN]
    cases hB : (n.rules.map ruleOf).foldlM (CR.loadRule { okRegex := [], enumRules := [] } (nk.ctx isProp)) CR.CMap.empty with
    | ok m' => rw [hB] at hcre; cases e <;> exact absurd hcre (by simp [FoldOK])
    | error cb =>
      rw [hB] at hcre
      cases e with
      | code ca p =>
        have : ca = cb := hcre
        subst this
        exact ⟨rfl, rfl⟩
      | unsupported w => exact absurd hcre (by simp [FoldOK])
  | ok u =>
    rw [hA] at hcre
    cases hB : (n.rules.map ruleOf).foldlM (CR.loadRule { okRegex := [], enumRules := [] } (nk.ctx isProp)) CR.CMap.empty with
    | error cb => rw [hB] at hcre; exact absurd hcre (by simp [FoldOK])
    | ok m' =>
      obtain ⟨hS, hnd⟩ := foldB _ (nk.ctx isProp) n.rules [] CR.CMap.empty m' sinv_empty (by simp) hrules hB
      have hvalid := foldB_valid _ (nk.ctx isProp) n.rules CR.CMap.empty m' hrules hB
      simp only [List.nil_append] at hS hnd
      have hm : m' = mapOf n.rules := funext hS
      subst hm
      have G : Good (filt n.rules) :=
        { nodup := filt_nodup n.rules hnd
          valid := fun r hr => hvalid r (filt_sub n.rules r hr)
          common := fun r hr _ => (hrules r (filt_sub n.rules r hr)).2.1
          vals := fun r hr => by
            have := (hrules r (filt_sub n.rules r hr)).2.1
            unfold ruleCommon at this
            simp only [Bool.and_eq_true] at this
            exact Option.isSome_iff_exists.1 this.1.1
          gens := fun r hr hg => by rw [(hrules r (filt_sub n.rules r hr)).1] at hg; cases hg }
      have hng : ∀ r ∈ filt n.rules, r.gen = false := fun r hr => (hrules r (filt_sub n.rules r hr)).1
      have hnf : NoFmt (filt n.rules) := by
        intro r hr hname
        have hr' := filt_sub n.rules r hr
        have := List.all_eq_true.1 hfmt r (by rw [hman]; exact hr')
        obtain ⟨v, hv⟩ := val_some G r hr
        simp only [hname, beq_self_eq_true, Bool.true_and, hv, Option.map_some, Bool.not_eq_true', Bool.or_eq_false_iff,
          beq_eq_false_iff_ne, ne_eq, Option.some.injEq] at this
        simp only [hv, Option.getD_some]
        exact ⟨this.1.1, this.1.2, this.2⟩
      have hu : u = () := rfl
      subst hu
      rw [aNode_eq n isProp jt hA hjt]
      have hag := basic_agree (jt := jt) (nch := n.children.length) (isProp := isProp) (c := nk.ctx isProp) n G hng hnd C hnf
      have : (Except.ok (mapOf n.rules) >>= CR.compile (nk.ctx isProp) >>= CR.allOfStep (nk.ctx isProp) >>= CR.checkCompat (nk.ctx isProp))
          = (CR.compile (nk.ctx isProp) (mapOf n.rules) >>= CR.allOfStep (nk.ctx isProp) >>= CR.checkCompat (nk.ctx isProp)) := rfl
      rw [this]
      exact agree_out hag

/-! ### the full statement of the first part is false on a node no loader produces -/

/-- a LITERAL node with a child and `type: "any"` -/
def wLeaf : RNode :=
  { kind := .lit, children := [1], keys := [], value := some (sb "5"),
    rules := [{ name := sb "type", gen := false, val := some (sb "\"any\""), pos := 0, npos := 0 }] }

theorem wLeaf_facts : common wLeaf = true ∧ leafOK wLeaf = false ∧ codeA (aNode wLeaf false) = some 1106 ∧
    codeB (CR.checkRules (crNodeOf wLeaf false)) = none := by decide +kernel

end BridgeCR
