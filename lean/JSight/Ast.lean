import JSight.OMapOps
/-!
C16 model: `astNodeFromNode` (`notations/jschema/internal/schema/ast.go`): the schema type shown in the
AST and the rule list, computed from the node's constraint map (an ordered map, C19).
-/
namespace Ast
open OMap

/-- constraint kinds that matter to the AST -/
inductive CK
  | enum | or | type (name : String) | precision | typesList | other (name : String)
  deriving DecidableEq, Repr

def CK.name : CK → String
  | .enum => "enum" | .or => "or" | .type _ => "type" | .precision => "precision" | .typesList => "types"
  | .other n => n

def CK.isType : CK → Bool | .type _ => true | _ => false

/-- `getASTNodeSchemaType`: enum > or > type rule > precision > JSON kind of the example -/
def schemaType (cs : List CK) (jsonKind : String) : String :=
  if cs.contains .enum then "enum"
  else if cs.contains .or then "mixed"
  else match cs.find? CK.isType with
    | some (.type n) => n
    | _ => if cs.contains .precision then "decimal" else jsonKind

/-- `collectASTRules`: iterate the constraint map in order; `or` is rendered from the types list, `types` is hidden;
the result is built with `Set` on an ordered map (reference semantics by C19) -/
def addRule (acc : Ref String CK) : CK → Ref String CK
  | .typesList => acc
  | .or => Ref.set acc "or" .typesList       -- value: the AST of the types list
  | c => Ref.set acc c.name c

def collectRules (cs : List CK) : Ref String CK := cs.foldl addRule []

end Ast
