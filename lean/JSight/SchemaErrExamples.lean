import JSight.SchemaErrEof
import JSight.SchemaLenExamples
/-! Concrete instances for the C17 schema-scanner theorems (non-vacuity). -/
namespace SchemaScan
namespace ErrEx
open Len Len.Ex

/-- `x` : invalid character at offset 0 -/
theorem ex_x : scanAll [120] = .error (.invalidChar 0 "looking for beginning of value") := by
  apply fails_scanAll _ rfl
  refine Fails.readErr rfl (by decide) ?_
  unfold readStep
  unfold dispatch
  simp [classify, isCommentStart, beginValue, isNewLineM, Cls.isNewLine, Cls.isBlank, Cls.isSpace, bind, Except.bind,
    pure, Except.pure, errChar, throw, throwThe, MonadExceptOf.throw]

/-- `##xy` : the second `#` is the offending byte (a third `#` would have opened a `###` comment): the error depends on
the byte behind it -/
theorem ex_hash : scanAll [35, 35, 120, 121] = .error (.invalidChar 1 "after first #") := by
  apply fails_scanAll _ rfl
  have h1 : readStep ([35, 35, 120, 121].map classify).toArray {} =
      .ok { step := .anyCommentStart, ret := [.foundRoot], index := 1 } := by
    unfold readStep
    unfold dispatch
    simp [classify, isCommentStart, switchToComment, pure, Except.pure]
  refine Fails.read rfl (by decide) h1 ?_
  refine Fails.readErr rfl (by decide) ?_
  unfold readStep
  unfold dispatch
  simp [classify, errChar, throw, throwThe, MonadExceptOf.throw]

/-- `[1, {"a":` : the input ends early -/
theorem ex_eof : scanAll (b "[1, {\"a\":") = .error (.unexpectedEOF ((b "[1, {\"a\":").length - 1)) :=
  scanAll_eof_tokens toks3 toks3_wf res3.1 res3.2 run3 rfl (b "[1, {\"a\":") (by decide)

/-- `[1, {"a":"x\n` : the input ends inside a string -/
theorem ex_eof_str : scanAll (b "[1, {\"a\":\"x\\n") = .error (.unexpectedEOF ((b "[1, {\"a\":\"x\\n").length - 1)) :=
  scanAll_eof_string toks3 toks3_wf res3.1 res3.2 run3 .objv rfl [.nameo, .bslash, .ln]
    (.plain _ _ rfl (.esc _ _ rfl .nil)) (b "[1, {\"a\":\"x\\n") (by decide)

end ErrEx
end SchemaScan
