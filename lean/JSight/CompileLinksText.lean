import JSight.CompileLinksFirst
import JSight.LinksMain
import JSight.E2E
/-!
# C09 at TEXT level: the check stage of `E2E` on schema texts, through the bridge to `LK` and its theorems
-/
namespace CL
open Compile

theorem mem_orNodesOf_of : ∀ (items : List LK.Item) (l : List String), LK.Item.ref l ∈ items → 2 ≤ l.length →
    l ∈ LK.orNodesOf items
  | [], _, h, _ => by cases h
  | it :: rest, l, h, h2 => by
    rcases List.mem_cons.1 h with he | hr
    · subst he
      match l, h2 with
      | a :: b :: cs, _ => simp [LK.orNodesOf]
    · have ih := mem_orNodesOf_of rest l hr h2
      cases it with
      | ref ns =>
        match ns with
        | [] => simpa [LK.orNodesOf] using ih
        | [a] => simpa [LK.orNodesOf] using ih
        | a :: b :: cs => simp [LK.orNodesOf, ih]
      | lit jt ms => simpa [LK.orNodesOf] using ih
      | arr => simpa [LK.orNodesOf] using ih
      | obj k a ao => simpa [LK.orNodesOf] using ih
      | inh ps => simpa [LK.orNodesOf] using ih

mutual
theorem ref_mem_flat (ts : Types) : (x : CN) → cls ts x = true → ∀ l ∈ orLists x,
    LK.Item.ref l ∈ LK.flat (lkN x) ∧ 2 ≤ l.length
  | .lit _ _, _, l, hl => by simp [orLists] at hl
  | .any _ _, _, l, hl => by simp [orLists] at hl
  | .ref names nul jt ex orShort, h, l, hl => by
    simp only [cls, Bool.and_eq_true, beq_iff_eq] at h
    cases orShort with
    | false => simp [orLists] at hl
    | true =>
      simp only [orLists, if_true, List.mem_singleton] at hl
      subst hl
      have h2 : 2 ≤ l.length := by simpa using h.2.symm
      have hj : jt = .mixed := h.1
      subst hj
      exact ⟨by simp [lkN, LK.flat], h2⟩
  | .arr items nul bad, h, l, hl => by
    simp only [cls, Bool.and_eq_true] at h
    simp only [orLists] at hl
    obtain ⟨h1, h2⟩ := refItems_mem_flat ts items h.2 l hl
    exact ⟨by simp only [lkN, LK.flat]; exact List.mem_cons_of_mem _ h1, h2⟩
  | .obj props add nul bad, h, l, hl => by
    simp only [cls, Bool.and_eq_true] at h
    simp only [orLists] at hl
    obtain ⟨h1, h2⟩ := refProps_mem_flat ts props h.2.2 l hl
    exact ⟨by simp only [lkN, LK.flat]; exact List.mem_cons_of_mem _ (List.mem_append_left _ h1), h2⟩
theorem refItems_mem_flat (ts : Types) : (xs : List CN) → clsItems ts xs = true → ∀ l ∈ orListsItems xs,
    LK.Item.ref l ∈ LK.flatItems (lkItems xs) ∧ 2 ≤ l.length
  | [], _, l, hl => by simp [orListsItems] at hl
  | x :: xs, h, l, hl => by
    simp only [clsItems, Bool.and_eq_true] at h
    simp only [orListsItems, List.mem_append] at hl
    simp only [lkItems, LK.flatItems, List.mem_append]
    rcases hl with hl | hl
    · obtain ⟨h1, h2⟩ := ref_mem_flat ts x h.1 l hl
      exact ⟨.inl h1, h2⟩
    · obtain ⟨h1, h2⟩ := refItems_mem_flat ts xs h.2 l hl
      exact ⟨.inr h1, h2⟩
theorem refProps_mem_flat (ts : Types) : (xs : List (String × Bool × Bool × Bool × CN)) → clsProps ts xs = true →
    ∀ l ∈ orListsProps xs, LK.Item.ref l ∈ LK.flatProps (lkProps xs) ∧ 2 ≤ l.length
  | [], _, l, hl => by simp [orListsProps] at hl
  | (_, _, _, _, x) :: xs, h, l, hl => by
    simp only [clsProps, Bool.and_eq_true] at h
    simp only [orListsProps, List.mem_append] at hl
    simp only [lkProps, LK.flatProps, List.mem_append]
    rcases hl with hl | hl
    · obtain ⟨h1, h2⟩ := ref_mem_flat ts x h.1 l hl
      exact ⟨.inl h1, h2⟩
    · obtain ⟨h1, h2⟩ := refProps_mem_flat ts xs h.2 l hl
      exact ⟨.inr h1, h2⟩
end

theorem mem_orListsOfNames (ts : Types) (l : List String) : ∀ ns : List String, l ∈ orListsOfNames ts ns →
    ∃ n ∈ ns, ∃ t, lookupT ts n = some t ∧ l ∈ orLists t
  | [], h => by simp [orListsOfNames] at h
  | n :: ns, h => by
    simp only [orListsOfNames, List.mem_append] at h
    rcases h with h | h
    · cases hl : lookupT ts n with
      | none => rw [hl] at h; simp at h
      | some t => rw [hl] at h; exact ⟨n, by simp, t, hl, h⟩
    · obtain ⟨m, hm, t, ht, hlt⟩ := mem_orListsOfNames ts l ns h
      exact ⟨m, by simp [hm], t, ht, hlt⟩

/-- the order of fix F-34 only ever holds or-shortcut nodes of the added types -/
theorem ordOf_ordOK (root : CN) (ts : Types) (hc : ∀ n t, lookupT ts n = some t → cls ts t = true) :
    LK.OrdOK (lkOf root ts) (ordOf ts) := by
  intro l hl
  obtain ⟨n, hn, t, ht, hlt⟩ := mem_orListsOfNames ts l _ hl
  have hn' : n ∈ ts.map (·.1) := (mem_sortNames n _).1 hn
  obtain ⟨h1, h2⟩ := ref_mem_flat ts t (hc n t ht) l hlt
  simp only [LK.orNodes, List.mem_flatMap]
  refine ⟨n, ?_, ?_⟩
  · simp only [lkOf, lkTypes_names]; exact hn'
  · rw [lookup_lkOf, ht]
    exact mem_orNodesOf_of _ l h1 h2

/-! ### the check stage of `E2E.validateText` -/

/-- the names given to `AddType` are distinct user type names (otherwise `E2E` declines the case) -/
def typeNamesOK (types : List (String × List UInt8)) : Bool :=
  decide (types.map (·.1)).Nodup && types.all fun t => isUserTypeName (strBytes t.1)

theorem loadTypes_names : ∀ (types : List (String × List UInt8)) (ts : Types), E2E.loadTypes types = .ok ts →
    ts.map (·.1) = types.map (·.1)
  | [], ts, h => by
    simp only [E2E.loadTypes] at h
    cases h; rfl
  | (name, txt) :: rest, ts, h => by
    simp only [E2E.loadTypes] at h
    cases h1 : E2E.loadSchema txt false with
    | error e => rw [h1] at h; cases h
    | ok r =>
      rw [h1] at h
      cases r with
      | none => cases h
      | some cn =>
        simp only [] at h
        cases h2 : E2E.loadTypes rest with
        | error e => rw [h2] at h; cases h
        | ok ts' =>
          rw [h2] at h
          cases h
          simp only [List.map_cons, loadTypes_names rest ts' h2]

/-- when the check stage fails, that is the outcome of the whole pipeline, whatever the document -/
theorem validateText_check_error (root : List UInt8) (types : List (String × List UInt8)) (doc : List UInt8) (opt : Bool)
    (cn : CN) (ts : Types) (e : Err) (hroot : E2E.loadSchema root opt = .ok (some cn))
    (hn : typeNamesOK types = true) (htypes : E2E.loadTypes types = .ok ts) (hck : Compile.check cn ts = .error e) :
    E2E.validateText root types doc opt = E2E.errOut e := by
  simp only [typeNamesOK, Bool.and_eq_true, decide_eq_true_eq] at hn
  have hif : (!decide (types.map (·.1)).Nodup || !(types.all fun t => isUserTypeName (strBytes t.1))) = false := by
    simp [hn.1, hn.2]
  unfold E2E.validateText
  simp only [hroot, hif, Bool.false_eq_true, if_false, htypes, hck]

theorem mustAllN_only_missing (ts : Types) : ∀ (l : List String) (e : LE), mustAllN ts l = .error e → ∃ n, e = .missing n
  | [], e, h => by cases h
  | n :: ns, e, h => by
    simp only [mustAllN] at h
    split at h
    · exact mustAllN_only_missing ts ns e h
    · cases h; exact ⟨n, rfl⟩

/-- **C09 at text level** (the check stage): see `Props.C09.C09_text_level_links_partial` -/
theorem text_level_links (root : List UInt8) (types : List (String × List UInt8)) (doc : List UInt8) (opt : Bool)
    (cn : CN) (ts : Types) (hroot : E2E.loadSchema root opt = .ok (some cn)) (hn : typeNamesOK types = true)
    (htypes : E2E.loadTypes types = .ok ts) (hc : clsSAll cn ts = true) :
    (Compile.check cn ts = .ok () ↔ LK.Resolved (lkOf cn ts) ∧ TG.check (tgOf cn ts) = true) ∧
    (¬ LK.Resolved (lkOf cn ts) →
      ∃ n, firstMissing ts (visitAll cn ts) = some n ∧ LK.Refs (lkOf cn ts) n ∧ ¬ LK.InTable (lkOf cn ts) n ∧
        checkN cn ts = .error (.missing n) ∧ E2E.validateText root types doc opt = .schemaErr 1302 0) := by
  have hnd : (ts.map (·.1)).Nodup := by
    rw [loadTypes_names types ts htypes]
    simp only [typeNamesOK, Bool.and_eq_true, decide_eq_true_eq] at hn
    exact hn.1
  have hcA := clsSAll_clsAll cn ts hc
  have hcls : ∀ n t, lookupT ts n = some t → cls ts t = true := by
    simp only [clsAll, Bool.and_eq_true, List.all_eq_true] at hcA
    exact fun n t h => hcA.2 (n, t) (lookupT_mem ts n t h)
  have hord := ordOf_ordOK cn ts hcls
  have hrel := models_rel cn ts hnd hcA
  have hfirst := checkRootN_first cn ts hc
  have herase := checkN_erase cn ts hnd
  cases hm : mustAllN ts (visitAll cn ts) with
  | ok u =>
    rw [hm] at hfirst
    rw [hfirst] at hrel
    have hlk : LK.linkCheck (lkOf cn ts) (ordOf ts) = .ok () := by
      rcases rel_inv hrel with ⟨_, hb⟩ | ⟨n, ha, _⟩ | ⟨k, ha, _⟩
      · exact hb
      · cases ha
      · cases ha
    have hres := LK.links_ok_resolved _ _ hlk
    refine ⟨?_, fun h => absurd hres h⟩
    simp only [checkN, hfirst] at herase
    by_cases htg : TG.check (tgOf cn ts) = true
    · simp only [htg, if_true] at herase
      rw [← herase]
      exact ⟨fun _ => ⟨hres, htg⟩, fun _ => rfl⟩
    · simp only [htg, Bool.false_eq_true, if_false] at herase
      rw [← herase]
      constructor
      · intro h; cases h
      · intro h; exact absurd h.2 htg
  | error e =>
    obtain ⟨n, rfl⟩ := mustAllN_only_missing ts _ e hm
    rw [hm] at hfirst
    rw [hfirst] at hrel
    have hlk : LK.linkCheck (lkOf cn ts) (ordOf ts) = .error (.missing n) := by
      rcases rel_inv hrel with ⟨ha, _⟩ | ⟨m, ha, hb⟩ | ⟨k, ha, _⟩
      · cases ha
      · cases ha; exact hb
      · cases ha
    obtain ⟨hrefs, hnot⟩ := LK.links_names_missing _ _ hord n hlk
    have hnres : ¬ LK.Resolved (lkOf cn ts) := fun h => hnot (h n hrefs)
    have hckN : checkN cn ts = .error (.missing n) := by simp only [checkN, hfirst]
    have hck : Compile.check cn ts = .error (.code 1302 0) := by rw [← herase, hckN]; rfl
    refine ⟨?_, fun _ => ⟨n, ?_, hrefs, hnot, hckN, ?_⟩⟩
    · rw [hck]
      constructor
      · intro h; cases h
      · intro h; exact absurd h.1 hnres
    · have := mustAllN_eq_firstMissing ts (visitAll cn ts)
      rw [hm] at this
      cases hf : firstMissing ts (visitAll cn ts) with
      | none => rw [hf] at this; cases this
      | some m => rw [hf] at this; cases this; rfl
    · rw [validateText_check_error root types doc opt cn ts _ hroot hn htypes hck]; rfl

/-- once the check stage has passed, no later stage reports 1302 -/
theorem validateText_check_ok (root : List UInt8) (types : List (String × List UInt8)) (doc : List UInt8) (opt : Bool)
    (cn : CN) (ts : Types) (hroot : E2E.loadSchema root opt = .ok (some cn))
    (hn : typeNamesOK types = true) (htypes : E2E.loadTypes types = .ok ts) (hck : Compile.check cn ts = .ok ()) :
    E2E.validateText root types doc opt ≠ .schemaErr 1302 0 := by
  simp only [typeNamesOK, Bool.and_eq_true, decide_eq_true_eq] at hn
  have hif : (!decide (types.map (·.1)).Nodup || !(types.all fun t => isUserTypeName (strBytes t.1))) = false := by
    simp [hn.1, hn.2]
  unfold E2E.validateText
  simp only [hroot, hif, Bool.false_eq_true, if_false, htypes, hck]
  repeat' split
  all_goals (intro h; cases h)

/-- the 1302 outcome of the whole pipeline, as an equivalence -/
theorem text_level_1302_iff (root : List UInt8) (types : List (String × List UInt8)) (doc : List UInt8) (opt : Bool)
    (cn : CN) (ts : Types) (hroot : E2E.loadSchema root opt = .ok (some cn)) (hn : typeNamesOK types = true)
    (htypes : E2E.loadTypes types = .ok ts) (hc : clsSAll cn ts = true) :
    E2E.validateText root types doc opt = .schemaErr 1302 0 ↔ ¬ LK.Resolved (lkOf cn ts) := by
  obtain ⟨h1, h2⟩ := text_level_links root types doc opt cn ts hroot hn htypes hc
  constructor
  · intro hv hres
    by_cases htg : TG.check (tgOf cn ts) = true
    · exact validateText_check_ok root types doc opt cn ts hroot hn htypes (h1.2 ⟨hres, htg⟩) hv
    · -- the recursion check fails: 104
      have hnd : (ts.map (·.1)).Nodup := by
        rw [loadTypes_names types ts htypes]
        simp only [typeNamesOK, Bool.and_eq_true, decide_eq_true_eq] at hn
        exact hn.1
      have hfirst := checkRootN_first cn ts hc
      have hrel := models_rel cn ts hnd (clsSAll_clsAll cn ts hc)
      have hroot' : checkRootN cn ts = .ok () := by
        cases hm : mustAllN ts (visitAll cn ts) with
        | ok u => rw [hfirst, hm]
        | error e =>
          obtain ⟨n, rfl⟩ := mustAllN_only_missing ts _ e hm
          rw [hfirst, hm] at hrel
          have hcls : ∀ n t, lookupT ts n = some t → cls ts t = true := by
            have hcA := clsSAll_clsAll cn ts hc
            simp only [clsAll, Bool.and_eq_true, List.all_eq_true] at hcA
            exact fun n t h => hcA.2 (n, t) (lookupT_mem ts n t h)
          have hlk : LK.linkCheck (lkOf cn ts) (ordOf ts) = .error (.missing n) := by
            rcases rel_inv hrel with ⟨ha, _⟩ | ⟨m, ha, hb⟩ | ⟨k, ha, _⟩
            · cases ha
            · cases ha; exact hb
            · cases ha
          obtain ⟨hrefs, hnot⟩ := LK.links_names_missing _ _ (ordOf_ordOK cn ts hcls) n hlk
          exact absurd (hres n hrefs) hnot
      have hck : Compile.check cn ts = .error (.code 104 0) := by
        rw [← checkN_erase cn ts hnd]
        simp only [checkN, hroot', htg, Bool.false_eq_true, if_false]
        rfl
      rw [validateText_check_error root types doc opt cn ts _ hroot hn htypes hck] at hv
      cases hv
  · intro hnr
    obtain ⟨n, _, _, _, _, hv⟩ := h2 hnr
    exact hv

end CL
