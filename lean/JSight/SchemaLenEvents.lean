import JSight.SchemaRun
/-!
The events `Length()` reads: the scanner in length-computing mode is drained up to (not including) the `end-top`
event, or to the end of input. (`Length()` itself keeps only the end of the last event, `SchemaScan.lengthLoop`.)
-/
namespace SchemaScan

def lenEventsLoop (data : Array Cls) : Nat → Sc → List Ev → M (List Ev)
  | 0, _, _ => throw (.crash "length: fuel exhausted")
  | fuel + 1, s, acc => do
    match ← next data (3 * data.size + 16) s with
    | none => pure acc.reverse
    | some (s, e) =>
      if e.ty == .endTop then pure acc.reverse
      else lenEventsLoop data fuel s (e :: acc)

/-- the events of the schema at the start of `bs`, as `Length()` sees them -/
def lengthEvents (bs : List UInt8) : M (List Ev) :=
  let data := (bs.map classify).toArray
  lenEventsLoop data (8 * data.size + 16) { lengthComputing := true } []

end SchemaScan
