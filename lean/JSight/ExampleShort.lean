import JSight.RefE2EThm
/-!
C15 at TEXT level for schema texts with SHORTCUT leaves, specification level.

`exampleBuilder.Build` (`notations/jschema/example.go`) on the nodes of such a text: a literal emits its token; an array
/ object emits brackets around the examples of its children (key TOKEN `:` example); a `MixedValueNode` (shortcut leaf
`@A | @B | …`) takes `GetTypes()[0]` — the FIRST name — and builds the root of the type added under that name (the other
alternatives are never consulted); `processedTypes[name] > 1` cuts a recursive type off (`nil`: the member / element is
DROPPED — findings K-C15-reqcut / K-C15-uninhabited).

`RE.exampleOf tys fuel` is the closed form WITHOUT the cut-off: the document (not the bytes) the builder denotes as
long as the cut-off never fires; it answers `none` when the fuel is exhausted (a table where some type is reachable from
itself exhausts every fuel on the cycle), when a first name was not added. So for a non-recursive table it is total for
`fuel` > the depth of the unfolding, and on a recursive table it is silent exactly where the real builder starts
dropping members: nothing here speaks about the output of the real builder once the cut-off has fired.

`exampleOf_admitted`: whatever `exampleOf` answers is admitted (`RE.Admits`) by the tree — with the SAME fuel.
-/
namespace RE
open SE (BST BItem BMember TypeText namesOf)

/-- examples of the items, in order -/
def exItems (r : BST → Option Doc) : List BItem → Option (List Doc)
  | [] => some []
  | it :: its =>
    match r it.2.1, exItems r its with
    | some d, some ds => some (d :: ds)
    | _, _ => none

/-- examples of the members, in order, under the decoded keys -/
def exMembers (r : BST → Option Doc) : List BMember → Option (List (String × Doc))
  | [] => some []
  | m :: ms =>
    match r m.2.2.2.2.1, exMembers r ms with
    | some d, some ds => some ((E2E.keyOf m.2.1, d) :: ds)
    | _, _ => none

/-- one step of the builder; `r` = the builder on the sub-positions / on the root of a referenced type -/
def stepE (tys : List TypeText) (r : BST → Option Doc) : BST → Option Doc
  | .scalar tok => some (.lit tok)
  | .short f as sps =>
    match namesOf f as sps with
    | [] => none
    | n :: _ =>
      match lookupB tys n with
      | some t => r t
      | none => none
  | .arr _ its => (exItems r its).map .arr
  | .obj _ ms => (exMembers r ms).map .obj

/-- the example of a tree with shortcut leaves: a shortcut leaf is replaced by the example of the tree added under its
FIRST name; `fuel` nested steps -/
def exampleOf (tys : List TypeText) : Nat → BST → Option Doc
  | 0 => fun _ => none
  | fuel + 1 => stepE tys (exampleOf tys fuel)

/-! ### the class: scalars whose kind can be guessed, decoded keys pairwise distinct -/

mutual
def exOK : BST → Bool
  | .scalar tok => (RulesF.kindOfTok tok).isSome
  | .short _ _ _ => true
  | .arr _ its => okItems its
  | .obj _ ms => decide (keysM ms).Nodup && okMembers ms
def okItems : List BItem → Bool
  | [] => true
  | (_, v, _) :: its => exOK v && okItems its
def okMembers : List BMember → Bool
  | [] => true
  | (_, _, _, _, v, _) :: ms => exOK v && okMembers ms
end

/-- every tree of the table is of the class -/
def tysOK (tys : List TypeText) : Bool := tys.all fun x => exOK x.2.2.1

theorem kindOK_self (tok : List UInt8) (h : (RulesF.kindOfTok tok).isSome = true) :
    E2E.kindOKTok (E2E.kindOf tok) tok = true := by
  obtain ⟨d, hd⟩ := Option.isSome_iff_exists.mp h
  simp only [E2E.kindOf, E2E.kindOKTok, hd, Option.getD_some]
  cases d <;> rfl

theorem lookupB_ok (tys : List TypeText) (h : tysOK tys = true) (n : String) (t : BST)
    (hl : lookupB tys n = some t) : exOK t = true := by
  simp only [lookupB, Option.map_eq_some_iff] at hl
  obtain ⟨x, hx, rfl⟩ := hl
  have hm := List.mem_of_find?_eq_some hx
  simp only [tysOK, List.all_eq_true] at h
  exact h x hm

theorem items_lemma (r : BST → Option Doc) (ra : BST → Doc → Bool)
    (h : ∀ t d, exOK t = true → r t = some d → ra t d = true) :
    (its : List BItem) → (xs : List Doc) → okItems its = true → exItems r its = some xs →
      xs.length = its.length ∧
      ∀ (i : Nat) (x : Doc), xs[i]? = some x → ∃ it : BItem, its[i]? = some it ∧ ra it.2.1 x = true
  | [], xs, _, he => by
    simp only [exItems, Option.some.injEq] at he
    subst he
    exact ⟨rfl, by intro i x hx; simp at hx⟩
  | (w1, v, w2) :: its, xs, hok, he => by
    simp only [okItems, Bool.and_eq_true] at hok
    simp only [exItems] at he
    cases hr : r v with
    | none => simp [hr] at he
    | some d =>
      cases hrs : exItems r its with
      | none => simp [hr, hrs] at he
      | some ds =>
        simp only [hr, hrs, Option.some.injEq] at he
        subst he
        obtain ⟨hl, hi⟩ := items_lemma r ra h its ds hok.2 hrs
        refine ⟨by simp [hl], ?_⟩
        intro i x hx
        cases i with
        | zero =>
          simp only [List.getElem?_cons_zero, Option.some.injEq] at hx
          subst hx
          exact ⟨_, rfl, h v d hok.1 hr⟩
        | succ i =>
          simp only [List.getElem?_cons_succ] at hx ⊢
          exact hi i x hx

theorem members_lemma (r : BST → Option Doc) (ra : BST → Doc → Bool)
    (h : ∀ t d, exOK t = true → r t = some d → ra t d = true) :
    (ms : List BMember) → (dms : List (String × Doc)) → okMembers ms = true → exMembers r ms = some dms →
      dms.map (·.1) = keysM ms ∧
      ∀ m ∈ dms, ∃ mm ∈ ms, E2E.keyOf mm.2.1 = m.1 ∧ ra mm.2.2.2.2.1 m.2 = true
  | [], dms, _, he => by
    simp only [exMembers, Option.some.injEq] at he
    subst he
    exact ⟨rfl, by intro m hm; simp at hm⟩
  | (w1, k, w2, w3, v, w4) :: ms, dms, hok, he => by
    simp only [okMembers, Bool.and_eq_true] at hok
    simp only [exMembers] at he
    cases hr : r v with
    | none => simp [hr] at he
    | some d =>
      cases hrs : exMembers r ms with
      | none => simp [hr, hrs] at he
      | some ds =>
        simp only [hr, hrs, Option.some.injEq] at he
        subst he
        obtain ⟨hl, hi⟩ := members_lemma r ra h ms ds hok.2 hrs
        refine ⟨by simp [keysM] at hl ⊢; exact hl, ?_⟩
        intro m hm
        simp only [List.mem_cons] at hm
        rcases hm with rfl | hm
        · exact ⟨_, List.mem_cons_self, rfl, h v d hok.1 hr⟩
        · obtain ⟨mm, hmm, h1, h2⟩ := hi m hm
          exact ⟨mm, List.mem_cons_of_mem _ hmm, h1, h2⟩

theorem lookupM_nodup : (ms : List BMember) → (keysM ms).Nodup → (mm : BMember) → mm ∈ ms →
    lookupM ms (E2E.keyOf mm.2.1) = some mm.2.2.2.2.1
  | [], _, _, hm => by simp at hm
  | m0 :: ms, hnd, mm, hm => by
    simp only [keysM, List.map_cons, List.nodup_cons] at hnd
    simp only [List.mem_cons] at hm
    rcases hm with rfl | hm
    · simp [lookupM]
    · have hne : E2E.keyOf m0.2.1 ≠ E2E.keyOf mm.2.1 := by
        intro e
        apply hnd.1
        rw [e]
        exact List.mem_map.mpr ⟨mm, hm, rfl⟩
      have ih := lookupM_nodup ms hnd.2 mm hm
      simp only [lookupM] at ih ⊢
      rw [List.find?_cons_of_neg (by simpa using hne)]
      exact ih

theorem okItems_arr (w : List UInt8) (its : List BItem) : exOK (.arr w its) = okItems its := by
  simp [exOK]

theorem okMembers_obj (w : List UInt8) (ms : List BMember) :
    exOK (.obj w ms) = (decide (keysM ms).Nodup && okMembers ms) := by
  simp [exOK]

/-- one step: if `r` answers only what `ra` admits, so does `stepE` against `stepA` -/
theorem stepE_admitted (tys : List TypeText) (htys : tysOK tys = true) (r : BST → Option Doc)
    (ra : Bool → BST → Doc → Bool) (h : ∀ o t d, exOK t = true → r t = some d → ra o t d = true)
    (opt : Bool) (t : BST) (d : Doc) (hok : exOK t = true) (he : stepE tys r t = some d) :
    stepA tys ra opt t d = true := by
  cases t with
  | scalar tok =>
    simp only [stepE, Option.some.injEq] at he
    subst he
    simp only [stepA]
    exact kindOK_self tok (by simpa [exOK] using hok)
  | short f as sps =>
    simp only [stepE] at he
    simp only [stepA, List.any_eq_true]
    cases hn : namesOf f as sps with
    | nil => simp [hn] at he
    | cons n rest =>
      simp only [hn] at he
      cases hl : lookupB tys n with
      | none => simp [hl] at he
      | some t' =>
        simp only [hl] at he
        exact ⟨n, List.mem_cons_self, by simp only [hl]; exact h false t' d (lookupB_ok tys htys n t' hl) he⟩
  | arr w its =>
    rw [okItems_arr] at hok
    simp only [stepE, Option.map_eq_some_iff] at he
    obtain ⟨xs, hxs, rfl⟩ := he
    obtain ⟨hl, hi⟩ := items_lemma r (ra opt) (h opt) its xs hok hxs
    simp only [stepA, List.all_eq_true]
    intro p hp
    obtain ⟨x, i⟩ := p
    have hx : xs[i]? = some x := List.mem_zipIdx_iff_getElem?.mp hp
    obtain ⟨it, hit, hra⟩ := hi i x hx
    have hlt : i < its.length := by
      rcases Nat.lt_or_ge i its.length with h1 | h1
      · exact h1
      · rw [List.getElem?_eq_none h1] at hit; cases hit
    have hc : childAtB its i = some it.2.1 := by
      cases its with
      | nil => simp at hlt
      | cons a rest =>
        simp only [childAtB]
        have : min i ((a :: rest).length - 1) = i := by
          simp only [List.length_cons] at hlt ⊢
          omega
        rw [this, hit]
        rfl
    simp only [hc]
    exact hra
  | obj w ms =>
    rw [okMembers_obj, Bool.and_eq_true, decide_eq_true_eq] at hok
    simp only [stepE, Option.map_eq_some_iff] at he
    obtain ⟨dms, hdms, rfl⟩ := he
    obtain ⟨hk, hi⟩ := members_lemma r (ra opt) (h opt) ms dms hok.2 hdms
    simp only [stepA, Bool.and_eq_true, List.all_eq_true]
    refine ⟨?_, ?_⟩
    · intro m hm
      obtain ⟨mm, hmm, h1, h2⟩ := hi m hm
      rw [← h1, lookupM_nodup ms hok.1 mm hmm]
      exact h2
    · rw [Bool.or_eq_true]
      apply Or.inr
      rw [List.all_eq_true]
      intro k hkm
      rw [← hk, List.mem_map] at hkm
      obtain ⟨m, hm, rfl⟩ := hkm
      exact List.any_eq_true.mpr ⟨m, hm, by simp⟩

/-- whatever the closed form answers is admitted, with the same fuel -/
theorem exampleOf_admits (tys : List TypeText) (htys : tysOK tys = true) :
    (fuel : Nat) → (opt : Bool) → (t : BST) → (d : Doc) → exOK t = true → exampleOf tys fuel t = some d →
      admits tys fuel opt t d = true
  | 0, _, _, _, _, he => by simp [exampleOf] at he
  | fuel + 1, opt, t, d, hok, he =>
    stepE_admitted tys htys (exampleOf tys fuel) (admits tys fuel)
      (fun o t d hok he => exampleOf_admits tys htys fuel o t d hok he) opt t d hok he

theorem exampleOf_admitted (tys : List TypeText) (htys : tysOK tys = true) (fuel : Nat) (opt : Bool) (t : BST)
    (d : Doc) (hok : exOK t = true) (he : exampleOf tys fuel t = some d) : Admits tys opt t d :=
  ⟨fuel, exampleOf_admits tys htys fuel opt t d hok he⟩

end RE
