import JSight.CheckerPos
import JSight.CheckerViolates
import JSight.CheckerSound
import JSight.CheckerFuel
/-!
# C04 — a violated rule makes the checker fail, at the first offending value

`violates`: the node's own EXAMPLE value breaks one of the node's own rules — for a literal: no alternative of the
node admits its own token (a bound, a length, a pattern, enum membership, a format, const, the kind: whatever
`ValidateLiteralValue` tests); for an array: the number of items of the EXAMPLE is below `minItems` / above `maxItems`.
Then the node's own check fails (`nodeErr_of_violates`), so `CheckRootSchema` fails, and what it reports is the error
of the FIRST offending node in source order (`checker_first_root`), at that node's position (`nodeErr_pos`).
-/
namespace CK
open RulesF (Oracles)

theorem arrayNodeErr_none_iff (h : Hd) : arrayNodeErr h = none ↔ itemsViolate h = false := by
  unfold arrayNodeErr itemsViolate
  cases minItems? h.info.cs with
  | none =>
    cases maxItems? h.info.cs with
    | none => simp
    | some m => by_cases hm : h.len > m <;> simp [hm]
  | some n =>
    by_cases hn : h.len < n
    · simp [hn]
    · cases maxItems? h.info.cs with
      | none => simp [hn]
      | some m => by_cases hm : h.len > m <;> simp [hn, hm]

theorem orElse_ne_none_left (a : Option Panic) (b : Unit → Option Panic) (h : a ≠ none) : orElse a b ≠ none := by
  cases a with
  | none => exact absurd rfl h
  | some p => simp [orElse]

theorem orElse_ne_none_right (a : Option Panic) (b : Unit → Option Panic) (h : b () ≠ none) : orElse a b ≠ none := by
  cases a with
  | none => simpa [orElse] using h
  | some p => simp [orElse]

/-- a violated rule makes the node's own check fail -/
theorem nodeErr_of_violates (o : Oracles) (env : Env) (h : Hd) (hl : h.info.nk = .lit → h.info.lex.ty = .litEnd)
    (hv : violates o env h = true) : nodeErr o env h ≠ none := by
  unfold nodeErr
  simp only [ne_eq, Option.map_eq_none_iff]
  apply orElse_ne_none_right
  apply orElse_ne_none_right
  unfold violates at hv
  cases hk : h.info.nk with
  | lit =>
    simp only [hk, Bool.not_eq_eq_eq_not, Bool.not_true] at hv
    simp only []
    intro hn
    rw [(literalErr_none_iff o env h.info (hl hk)).1 hn] at hv
    exact absurd hv (by simp)
  | arr =>
    simp only [hk] at hv
    simp only []
    apply orElse_ne_none_right
    intro hn
    rw [(arrayNodeErr_none_iff h).1 hn] at hv
    exact absurd hv (by simp)
  | obj => simp [hk] at hv
  | mixed => simp [hk] at hv
  | mixedValue => simp [hk] at hv

/-- conversely, on a node whose structural checks pass (rule / kind compatibility, references) a failing own check of a
literal or an array IS a violated rule -/
theorem violates_of_nodeErr (o : Oracles) (env : Env) (h : Hd) (hl : h.info.nk = .lit → h.info.lex.ty = .litEnd)
    (hc : compatErr h.info = none) (hk : linksErr env h.info = none)
    (ha : h.info.nk = .arr → arrayItems env env.fuel h = none)
    (hnk : h.info.nk = .lit ∨ h.info.nk = .arr) (he : nodeErr o env h ≠ none) : violates o env h = true := by
  unfold nodeErr at he
  simp only [ne_eq, Option.map_eq_none_iff, hc, hk, orElse] at he
  unfold violates
  rcases hnk with hn | hn
  · simp only [hn] at he ⊢
    cases hacc : literalAccepts o env h.info h.info.lex.value with
    | false => rfl
    | true => exact absurd ((literalErr_none_iff o env h.info (hl hn)).2 hacc) he
  · simp only [hn, ha hn] at he ⊢
    cases hi : itemsViolate h with
    | true => rfl
    | false => exact absurd ((arrayNodeErr_none_iff h).2 hi) he

theorem panicRes_doc (ut : Option Name) (shift c f q : Nat) : panicRes ut shift (.doc c f q) = .err c f (q + shift) ut := rfl

/-- FIRST (root level): when some node of the root offends, `CheckRootSchema` reports the own error of a node `h₀` of the
root such that every node before it in source order passes -/
theorem checker_first_root (o : Oracles) (s : Schema) (r : Node) (hr : s.root = some r)
    (hv : ∃ h ∈ preorder r, nodeErr o s.env h ≠ none) :
    ∃ pre h₀ post p, preorder r = pre ++ h₀ :: post ∧ (∀ h ∈ pre, nodeErr o s.env h = none) ∧
      nodeErr o s.env h₀ = some p ∧ checkSchema o s = panicRes none 0 p := by
  obtain ⟨h, hm, hne⟩ := hv
  have hsome : (preorder r).findSome? (nodeErr o s.env) ≠ none := by
    intro hn
    exact hne (List.findSome?_eq_none_iff.1 hn h hm)
  cases hf : (preorder r).findSome? (nodeErr o s.env) with
  | none => exact absurd hf hsome
  | some p =>
    obtain ⟨pre, h₀, post, hsplit, hp, hpre⟩ := List.findSome?_eq_some_iff.1 hf
    refine ⟨pre, h₀, post, p, hsplit, hpre, hp, ?_⟩
    unfold checkSchema
    rw [hr]
    simp only [checkNode_eq, hf]

/-- … and when the offsets of the root's nodes increase in source order (as they do in a text), that node is the offending
node with the SMALLEST offset -/
theorem checker_first_offset (o : Oracles) (s : Schema) (r : Node) (hr : s.root = some r)
    (hsorted : ((preorder r).map fun h => h.info.lex.begin).Pairwise (· < ·))
    (hv : ∃ h ∈ preorder r, nodeErr o s.env h ≠ none) :
    ∃ h₀ ∈ preorder r, ∃ p, nodeErr o s.env h₀ = some p ∧ checkSchema o s = panicRes none 0 p ∧
      ∀ h ∈ preorder r, nodeErr o s.env h ≠ none → h₀.info.lex.begin ≤ h.info.lex.begin := by
  obtain ⟨pre, h₀, post, p, hsplit, hpre, hp, hc⟩ := checker_first_root o s r hr hv
  refine ⟨h₀, by rw [hsplit]; simp, p, hp, hc, ?_⟩
  intro h hm hne
  rw [hsplit] at hm hsorted
  rw [List.pairwise_map, List.pairwise_append] at hsorted
  rcases List.mem_append.1 hm with h1 | h1
  · exact absurd (hpre h h1) hne
  · rcases List.mem_cons.1 h1 with rfl | h2
    · exact Nat.le_refl _
    · exact Nat.le_of_lt ((List.pairwise_cons.1 hsorted.2.1).1 h h2)

/-- COMPLETE: a node of the root whose own EXAMPLE value violates one of its own rules makes `CheckRootSchema` fail with the
own error of an offending node of the root that is not after it in source order -/
theorem checker_complete_root (o : Oracles) (s : Schema) (r : Node) (hr : s.root = some r)
    (h : Hd) (hm : h ∈ preorder r) (hl : h.info.nk = .lit → h.info.lex.ty = .litEnd)
    (hv : violates o s.env h = true) :
    ∃ pre h₀ post p, preorder r = pre ++ h₀ :: post ∧ h ∉ pre ∧ nodeErr o s.env h₀ = some p ∧
      checkSchema o s = panicRes none 0 p := by
  have hne := nodeErr_of_violates o s.env h hl hv
  obtain ⟨pre, h₀, post, p, hsplit, hpre, hp, hc⟩ := checker_first_root o s r hr ⟨h, hm, hne⟩
  exact ⟨pre, h₀, post, p, hsplit, fun hin => hne (hpre h hin), hp, hc⟩

/-- the same for a node anywhere in the schema (root or a type): `Check` does not succeed -/
theorem checker_complete_any (o : Oracles) (s : Schema) (x : Occ) (hx : x ∈ s.occs)
    (hl : x.hd.info.nk = .lit → x.hd.info.lex.ty = .litEnd) (hv : violates o s.env x.hd = true) :
    checkSchema o s ≠ .ok := by
  rw [checkSchema_eq_firstErr]
  unfold firstErr
  have hne := nodeErr_of_violates o s.env x.hd hl hv
  cases hf : s.occs.findSome? (occErr o s.env) with
  | none =>
    have := List.findSome?_eq_none_iff.1 hf x hx
    unfold occErr at this
    simp only [Option.map_eq_none_iff] at this
    exact absurd this hne
  | some res =>
    obtain ⟨_, y, _, _, hy, _⟩ := List.findSome?_eq_some_iff.1 hf
    unfold occErr at hy
    simp only [Option.map_eq_some_iff] at hy
    obtain ⟨p, _, rfl⟩ := hy
    simpa using panicRes_ne_ok _ _ p

/-! ### the statement in offsets, for schemas whose structural checks pass -/

/-- the checks of a node that do not look at the EXAMPLE value pass: rule / kind compatibility, references (types list,
key shortcuts, `additionalProperties`) -/
def structOK (env : Env) (h : Hd) : Bool :=
  (compatErr h.info).isNone && (linksErr env h.info).isNone &&
  (match h.info.nk with
   | .arr => (arrayItems env env.fuel h).isNone
   | .obj => (keysErr env h.info.keys).isNone && (addPropsErr env h.info).isNone
   | _ => true)

theorem nodeErr_struct_doc (o : Oracles) (env : Env) (h : Hd) (hs : structOK env h = true) (p : Panic)
    (he : nodeErr o env h = some p) :
    (h.info.nk = .lit ∨ h.info.nk = .arr) ∧ ∃ c, p = .doc c h.info.lex.file h.info.lex.begin := by
  unfold structOK at hs
  simp only [Bool.and_eq_true, Option.isNone_iff_eq_none] at hs
  obtain ⟨⟨hc, hl⟩, hrest⟩ := hs
  unfold nodeErr at he
  simp only [hc, hl, orElse, Option.map_eq_some_iff] at he
  obtain ⟨q, hq, rfl⟩ := he
  cases hk : h.info.nk with
  | lit =>
    rw [hk] at hq
    refine ⟨.inl rfl, ?_⟩
    rcases literalErr_pos o env _ _ hq with hnd | ⟨c, rfl⟩
    · rcases catchLex_of_not_doc h.info.lex q hnd with r | ⟨w, hw⟩
      · exact r
      · have := catchLex_crash _ _ _ hw
        subst this
        exact absurd hq (literalErr_no_crash o env _ w)
    · exact ⟨c, rfl⟩
  | arr =>
    rw [hk] at hq hrest
    simp only [Option.isNone_iff_eq_none] at hrest
    simp only [hrest] at hq
    refine ⟨.inr rfl, ?_⟩
    have hnd := arrayNodeErr_not_doc h q hq
    rcases catchLex_of_not_doc h.info.lex q hnd with r | ⟨w, hw⟩
    · exact r
    · have := catchLex_crash _ _ _ hw
      subst this
      unfold arrayNodeErr at hq
      repeat' split at hq
      all_goals simp at hq
  | obj =>
    rw [hk] at hq hrest
    simp only [Bool.and_eq_true, Option.isNone_iff_eq_none] at hrest
    simp [hrest.1, hrest.2] at hq
  | mixed => rw [hk] at hq; simp at hq
  | mixedValue => rw [hk] at hq; simp at hq

/-- COMPLETE + FIRST, in offsets: when the structural checks of the root's nodes pass and the offsets of the nodes increase in
source order, a violated rule anywhere in the root makes `CheckRootSchema` fail with an error whose position is the start
offset of a value that violates one of its own rules — the FIRST such value in the text -/
theorem checker_complete_offset (o : Oracles) (s : Schema) (r : Node) (hr : s.root = some r)
    (hlit : ∀ h ∈ preorder r, h.info.nk = .lit → h.info.lex.ty = .litEnd)
    (hst : ∀ h ∈ preorder r, structOK s.env h = true)
    (hsorted : ((preorder r).map fun h => h.info.lex.begin).Pairwise (· < ·))
    (hv : ∃ h ∈ preorder r, violates o s.env h = true) :
    ∃ h₀ ∈ preorder r, violates o s.env h₀ = true ∧
      (∀ h ∈ preorder r, violates o s.env h = true → h₀.info.lex.begin ≤ h.info.lex.begin) ∧
      ∃ code, checkSchema o s = .err code h₀.info.lex.file h₀.info.lex.begin none := by
  obtain ⟨h, hm, hvh⟩ := hv
  have hne := nodeErr_of_violates o s.env h (hlit h hm) hvh
  obtain ⟨h₀, hm₀, p, hp, hc, hmin⟩ := checker_first_offset o s r hr hsorted ⟨h, hm, hne⟩
  obtain ⟨hnk, c, rfl⟩ := nodeErr_struct_doc o s.env h₀ (hst h₀ hm₀) p hp
  have hs₀ := hst h₀ hm₀
  unfold structOK at hs₀
  simp only [Bool.and_eq_true, Option.isNone_iff_eq_none] at hs₀
  have hv₀ : violates o s.env h₀ = true := by
    apply violates_of_nodeErr o s.env h₀ (hlit h₀ hm₀) hs₀.1.1 hs₀.1.2 _ hnk (by rw [hp]; simp)
    intro ha
    have := hs₀.2
    rw [ha] at this
    simpa using this
  refine ⟨h₀, hm₀, hv₀, ?_, c, hc⟩
  intro h' hm' hv'
  exact hmin h' hm' (nodeErr_of_violates o s.env h' (hlit h' hm') hv')

end CK
