import JSight.ShortE2ELinks
import JSight.E2EThm
import JSight.OrRuleSetProofs
/-!
C03 at TEXT level, assembly: root text and added type texts of the class `SE.BST` (leaves: scalars or type shortcuts
`@A`, `@A | @B`), document text = one JSON value in any white space.  When the check stage passes, the whole pipeline
`E2E.validateText` answers `acc` / `rej` according to the specification `VK.shape` of the validator machine on

* the validator schema `RE.vkOf opt t` of the root tree (a shortcut leaf is the reference node `.ref names none`),
* the table `RE.envB tys`: every added type under its name, as the validator schema of its tree.
-/
namespace RE
open SE (BST BItem BMember TypeText namesOf cnOf cnItems cnMembers typesOf typeTexts docText TextOK TypesOK)
open Compile

mutual
/-- the validator schema of a tree with shortcut leaves -/
def vkOf (opt : Bool) : BST → VK.S Lit
  | .scalar tok => .lit (.node { kind := E2E.kindOf tok, ex := tok, nul := false, rules := [] })
  | .short f as sps => .ref (namesOf f as sps) none
  | .arr _ its => .arr (vkItems opt its)
  | .obj _ ms => .obj (vkMembers opt ms) [] .none
def vkItems (opt : Bool) : List BItem → List (VK.S Lit)
  | [] => []
  | (_, v, _) :: its => vkOf opt v :: vkItems opt its
def vkMembers (opt : Bool) : List BMember → List (String × Bool × VK.S Lit)
  | [] => []
  | (_, k, _, _, v, _) :: ms => (E2E.keyOf k, !opt, vkOf opt v) :: vkMembers opt ms
end

mutual
theorem toVK_b (opt : Bool) : (t : BST) → (path : String) → toVK path (cnOf opt t) = vkOf opt t
  | .scalar _, _ => rfl
  | .short _ _ _, _ => by simp [cnOf, toVK, vkOf]
  | .arr _ its, path => by simp [cnOf, toVK, vkOf, toVKItems_b opt its path 0]
  | .obj _ ms, path => by
    simp [cnOf, toVK, vkOf, toVKProps_b opt ms path 0, toVKShorts_b opt ms path 0, toAdd]
theorem toVKItems_b (opt : Bool) : (its : List BItem) → (path : String) → (i : Nat) →
    toVKItems path i (cnItems opt its) = vkItems opt its
  | [], _, _ => rfl
  | (_, v, _) :: its, path, i => by
    simp [cnItems, toVKItems, vkItems, toVK_b opt v, toVKItems_b opt its path (i + 1)]
theorem toVKProps_b (opt : Bool) : (ms : List BMember) → (path : String) → (i : Nat) →
    toVKProps path i false (cnMembers opt ms) = vkMembers opt ms
  | [], _, _ => rfl
  | (_, k, _, _, v, _) :: ms, path, i => by
    simp [cnMembers, toVKProps, vkMembers, toVK_b opt v, toVKProps_b opt ms path (i + 1)]
theorem toVKShorts_b (opt : Bool) : (ms : List BMember) → (path : String) → (i : Nat) →
    toVKProps path i true (cnMembers opt ms) = []
  | [], _, _ => rfl
  | (_, k, _, _, v, _) :: ms, path, i => by simp [cnMembers, toVKProps, toVKShorts_b opt ms path (i + 1)]
end

mutual
theorem synth_b (opt : Bool) : (t : BST) → (path : String) → synth path (cnOf opt t) = []
  | .scalar _, _ => rfl
  | .short _ _ _, _ => rfl
  | .arr _ its, path => by simp [cnOf, synth, synthItems_b opt its path 0]
  | .obj _ ms, path => by simp [cnOf, synth, synthProps_b opt ms path 0]
theorem synthItems_b (opt : Bool) : (its : List BItem) → (path : String) → (i : Nat) →
    synthItems path i (cnItems opt its) = []
  | [], _, _ => rfl
  | (_, v, _) :: its, path, i => by simp [cnItems, synthItems, synth_b opt v, synthItems_b opt its path (i + 1)]
theorem synthProps_b (opt : Bool) : (ms : List BMember) → (path : String) → (i : Nat) →
    synthProps path i (cnMembers opt ms) = []
  | [], _, _ => rfl
  | (_, k, _, _, v, _) :: ms, path, i => by
    simp [cnMembers, synthProps, synth_b opt v, synthProps_b opt ms path (i + 1)]
end

mutual
theorem shortcutsOK_b (ts : Types) (opt : Bool) : (t : BST) → shortcutsOK ts (cnOf opt t) = true
  | .scalar _ => rfl
  | .short _ _ _ => rfl
  | .arr _ its => by simp [cnOf, shortcutsOK, shortcutsItems_b ts opt its]
  | .obj _ ms => by simp [cnOf, shortcutsOK, shortcutsProps_b ts opt ms]
theorem shortcutsItems_b (ts : Types) (opt : Bool) : (its : List BItem) → shortcutsItems ts (cnItems opt its) = true
  | [] => rfl
  | (_, v, _) :: its => by simp [cnItems, shortcutsItems, shortcutsOK_b ts opt v, shortcutsItems_b ts opt its]
theorem shortcutsProps_b (ts : Types) (opt : Bool) : (ms : List BMember) → shortcutsProps ts (cnMembers opt ms) = true
  | [] => rfl
  | (_, k, _, _, v, _) :: ms => by
    simp [cnMembers, shortcutsProps, shortcutsOK_b ts opt v, shortcutsProps_b ts opt ms]
end

mutual
theorem rawKeyTypes_b (ts : Types) (opt : Bool) : (t : BST) → rawKeyTypes ts (cnOf opt t) = false
  | .scalar _ => rfl
  | .short _ _ _ => rfl
  | .arr _ its => by simp [cnOf, rawKeyTypes, rawKeyItems_b ts opt its]
  | .obj _ ms => by simp [cnOf, rawKeyTypes, rawKeyProps_b ts opt ms]
theorem rawKeyItems_b (ts : Types) (opt : Bool) : (its : List BItem) → rawKeyItems ts (cnItems opt its) = false
  | [] => rfl
  | (_, v, _) :: its => by simp [cnItems, rawKeyItems, rawKeyTypes_b ts opt v, rawKeyItems_b ts opt its]
theorem rawKeyProps_b (ts : Types) (opt : Bool) : (ms : List BMember) → rawKeyProps ts (cnMembers opt ms) = false
  | [] => rfl
  | (_, k, _, _, v, _) :: ms => by simp [cnMembers, rawKeyProps, rawKeyTypes_b ts opt v, rawKeyProps_b ts opt ms]
end

/-- the validator's table: every added type under its name -/
def envB (tys : List TypeText) : VK.Env Lit := tys.map fun x => (x.1, vkOf false x.2.2.1)

theorem flatMap_synth : (tys : List TypeText) → (typesOf tys).flatMap (fun t => synth t.1 t.2) = []
  | [] => rfl
  | x :: rest => by
    have := flatMap_synth rest
    simp only [typesOf, List.map_cons, List.flatMap_cons, synth_b, List.nil_append] at this ⊢
    exact this

theorem envOf_b (opt : Bool) (t : BST) (tys : List TypeText) : envOf (cnOf opt t) (typesOf tys) = envB tys := by
  simp only [envOf, synth_b, flatMap_synth, List.append_nil]
  simp [typesOf, envB, toVK_b]

theorem shortcuts_types (ts : Types) : (tys : List TypeText) →
    (typesOf tys).all (fun t => shortcutsOK ts t.2) = true
  | [] => rfl
  | x :: rest => by
    have := shortcuts_types ts rest
    simp only [typesOf, List.map_cons, List.all_cons, shortcutsOK_b, Bool.true_and] at this ⊢
    exact this

theorem rawKey_types (ts : Types) : (tys : List TypeText) →
    (typesOf tys).any (fun t => rawKeyTypes ts t.2) = false
  | [] => rfl
  | x :: rest => by
    have := rawKey_types ts rest
    simp only [typesOf, List.map_cons, List.any_cons, rawKeyTypes_b, Bool.false_or] at this ⊢
    exact this

/-- **assembly**: scanner + loader + compile + check + JSON scanner + validator machine on the texts = the
specification of the validator machine on `vkOf` / `envB` -/
theorem text_level_vk (w0 : SE.Bytes) (t : BST) (w1 : SE.Bytes) (ht : TextOK w0 t w1) (tys : List TypeText)
    (htys : TypesOK tys) (hn : CL.typeNamesOK (typeTexts tys) = true) (opt : Bool)
    (hc : Compile.check (cnOf opt t) (typesOf tys) = .ok ())
    (d : VPos.T UInt8) (hd : (VPos.toJA JsonScan.classify d).Valid) (ws0 ws1 : List UInt8)
    (hw0 : JsonScan.IsWs (ws0.map JsonScan.classify)) (hw1 : JsonScan.IsWs (ws1.map JsonScan.classify)) :
    E2E.validateText (docText w0 t w1) (typeTexts tys) (ws0 ++ (d.render VPos.byteSym ++ ws1)) opt
      = if VK.shape (envB tys) litOK (keyOK (typesOf tys)) (vkOf opt t) (E2E.docOf d) then .acc else .rej := by
  obtain ⟨evs, he, hde⟩ := E2E.doc_events d hd ws0 ws1 hw0 hw1
  have hne : (VN.evs (E2E.docOf d)).isEmpty = false := by
    cases h : VN.evs (E2E.docOf d) with
    | nil => exact absurd h (VK.evs_ne_nil (E2E.docOf d))
    | cons _ _ => rfl
  have hn' : (!(List.map (·.1) (typeTexts tys)).Nodup ||
      !((typeTexts tys).all fun t => isUserTypeName (strBytes t.1))) = false := by
    simp only [CL.typeNamesOK, Bool.and_eq_true, decide_eq_true_eq] at hn
    simp [hn.1, hn.2]
  unfold E2E.validateText
  simp only [SE.loadSchema_stree w0 t w1 ht opt, hn', SE.loadTypes_stree tys htys, hc, shortcutsOK_b,
    shortcuts_types, rawKeyTypes_b, rawKey_types, Bool.and_self, Bool.not_true, Bool.or_false, Bool.false_and, he,
    envOf_b, toVK_b, hde, hne, E2E.validateEvs_eq, VK.C03_key_shortcuts]
  simp

end RE
