import JSight.LayoutTree
/-!
C13, schema side: the table the loader builds for a tree (`Loader.nodesOf`, spans into the text), read against the
text (`absNode`), is the table of the tree's *value* (`tableOf t.value`): nothing of the layout is left.
-/
namespace Lay
open SchemaScan (Cls classify Tree)
open Loader (nodesOf nodesItems nodesMembers idxItems idxMembers keysMembers nodeCount countItems countMembers
  nextItem nextMember valOff KeysDistinct DistinctItems DistinctMembers keyText slice)

/-! ### rendering on bytes and on classes -/

theorem toItems_isEmpty : (its : List BItem) → (toItems its).isEmpty = its.isEmpty
  | [] => rfl
  | (_, _, _) :: _ => rfl

theorem toMembers_isEmpty : (ms : List BMember) → (toMembers ms).isEmpty = ms.isEmpty
  | [] => rfl
  | (_, _, _, _, _, _) :: _ => rfl

mutual
theorem render_cls : (t : BTree) → t.render.map classify = t.toTree.render
  | .scalar tok => by simp [BTree.render, BTree.toTree, Tree.render]
  | .arr w0 its => by
    simp only [BTree.render, BTree.toTree, Tree.render, List.map_cons, List.map_append, renderItems_cls its, clsL]
    rfl
  | .obj w0 ms => by
    simp only [BTree.render, BTree.toTree, Tree.render, List.map_cons, List.map_append, renderMembers_cls ms, clsL]
    rfl
theorem renderItems_cls : (its : List BItem) → (renderItems its).map classify = SchemaScan.renderItems (toItems its)
  | [] => rfl
  | (w1, v, w2) :: its => by
    simp only [renderItems, toItems, SchemaScan.renderItems, List.map_append, render_cls v, renderItems_cls its, clsL,
      toItems_isEmpty]
    cases its <;> rfl
theorem renderMembers_cls : (ms : List BMember) →
    (renderMembers ms).map classify = SchemaScan.renderMembers (toMembers ms)
  | [] => rfl
  | (w1, k, w2, w3, v, w4) :: ms => by
    simp only [renderMembers, toMembers, SchemaScan.renderMembers, List.map_append, List.map_cons, render_cls v,
      renderMembers_cls ms, clsL, toMembers_isEmpty]
    cases ms <;> rfl
end

theorem render_length (t : BTree) : t.toTree.render.length = t.render.length := by
  rw [← render_cls, List.length_map]

theorem clsL_length (w : List LI) : (clsL w).length = (renderL w).length := by simp [clsL]

/-! ### the text holds a segment at an offset -/

def AtB (src : Array UInt8) : Nat → List UInt8 → Prop
  | _, [] => True
  | o, c :: cs => src[o]? = some c ∧ AtB src (o + 1) cs

theorem AtB_append (src : Array UInt8) : ∀ (a b : List UInt8) (o : Nat),
    AtB src o (a ++ b) ↔ AtB src o a ∧ AtB src (o + a.length) b
  | [], b, o => by simp [AtB]
  | c :: a, b, o => by
    simp only [List.cons_append, AtB, List.length_cons, AtB_append src a b (o + 1), and_assoc]
    rw [show o + 1 + a.length = o + (a.length + 1) by omega]

theorem AtB_toArray (l : List UInt8) : ∀ (pre seg : List UInt8), l = pre ++ seg → AtB l.toArray pre.length seg
  | pre, [], _ => trivial
  | pre, c :: cs, h => by
    refine ⟨?_, ?_⟩
    · subst h; simp
    · have := AtB_toArray l (pre ++ [c]) cs (by simp [h])
      simpa using this

theorem take_of_AtB (src : Array UInt8) : ∀ (l : List UInt8) (o : Nat), AtB src o l →
    (src.toList.drop o).take l.length = l
  | [], _, _ => by simp
  | c :: cs, o, h => by
    obtain ⟨hc, hr⟩ := h
    obtain ⟨hlt, hget⟩ := Array.getElem?_eq_some_iff.mp hc
    have hlt' : o < src.toList.length := by simpa using hlt
    rw [List.drop_eq_getElem_cons hlt']
    simp only [List.length_cons, List.take_succ_cons]
    rw [take_of_AtB src cs (o + 1) hr]
    congr 1

/-- the slice at the span of a non-empty token is the token -/
theorem slice_tok (src : Array UInt8) (tok : List UInt8) (o : Nat) (h : AtB src o tok) (hne : tok ≠ []) :
    slice src o (o + tok.length - 1) = tok := by
  unfold slice
  have : o + tok.length - 1 + 1 - o = tok.length := by
    cases tok with
    | nil => exact absurd rfl hne
    | cons c cs => simp only [List.length_cons]; omega
  rw [this]
  exact take_of_AtB src tok o h

/-! ### node counts and indices depend on the value only -/

mutual
theorem count_toTree : (t : BTree) → nodeCount t.toTree = t.value.count
  | .scalar _ => rfl
  | .arr _ its => by simp only [BTree.toTree, nodeCount, BTree.value, JV.count, count_items its]
  | .obj _ ms => by simp only [BTree.toTree, nodeCount, BTree.value, JV.count, count_members ms]
theorem count_items : (its : List BItem) → countItems (toItems its) = countJ (valueItems its)
  | [] => rfl
  | (_, v, _) :: its => by simp only [toItems, countItems, valueItems, countJ, count_toTree v, count_items its]
theorem count_members : (ms : List BMember) → countMembers (toMembers ms) = countM (valueMembers ms)
  | [] => rfl
  | (_, _, _, _, v, _) :: ms => by
    simp only [toMembers, countMembers, valueMembers, countM, count_toTree v, count_members ms]
end

theorem idx_items : (its : List BItem) → (n : Nat) → idxItems n (toItems its) = idxJ n (valueItems its)
  | [], _ => rfl
  | (_, v, _) :: its, n => by simp only [toItems, idxItems, valueItems, idxJ, count_toTree v, idx_items its]

theorem idx_members : (ms : List BMember) → (n : Nat) → idxMembers n (toMembers ms) = idxM n (valueMembers ms)
  | [], _ => rfl
  | (_, _, _, _, v, _) :: ms, n => by
    simp only [toMembers, idxMembers, valueMembers, idxM, count_toTree v, idx_members ms]

/-! ### tokens are not empty -/

theorem scalar_ne {tok : List UInt8} (h : SchemaScan.IsScalar (tok.map classify)) : tok ≠ [] := by
  obtain ⟨c, tl, _, _, _, he, _⟩ := h
  intro h0
  subst h0
  simp at he

theorem key_ne {k : List UInt8} (h : SchemaScan.IsKey (k.map classify)) : k ≠ [] := by
  obtain ⟨tl, he, _⟩ := h
  intro h0
  subst h0
  simp at he

/-! ### the abstraction lemma -/

theorem absNode_lit (src : Array UInt8) (par : Option Nat) (tok : List UInt8) (o : Nat) (h : AtB src o tok)
    (hne : tok ≠ []) :
    absNode src { kind := .lit, parent := par, value := some (o, o + tok.length - 1) }
      = { kind := .lit, parent := par, children := [], keys := [], value := some tok, rules := [], note := none } := by
  simp [absNode, slice_tok src tok o h hne]

theorem keyText_tok (src : Array UInt8) (k : List UInt8) (o : Nat) (h : AtB src o k) (hne : k ≠ []) :
    keyText src (o, o + k.length - 1, false) = (Unquote.unquote k, false) := by
  simp [keyText, slice_tok src k o h hne]

/-- offsets of the class-level tree are offsets of the text -/
theorem nextItem_eq (o : Nat) (w1 : List LI) (v : BTree) (w2 : List LI) (its : List BItem) :
    nextItem o (clsL w1) v.toTree (clsL w2) (toItems its)
      = o + (renderL w1).length + v.render.length + (renderL w2).length + (if its.isEmpty then 0 else 1) := by
  simp only [nextItem, clsL_length, render_length, toItems_isEmpty]

theorem valOff_eq (o : Nat) (w1 : List LI) (k : List UInt8) (w2 w3 : List LI) :
    valOff o (clsL w1) (k.map classify) (clsL w2) (clsL w3)
      = o + (renderL w1).length + k.length + (renderL w2).length + 1 + (renderL w3).length := by
  simp only [valOff, clsL_length, List.length_map]

theorem nextMember_eq (o : Nat) (w1 : List LI) (k : List UInt8) (w2 w3 : List LI) (v : BTree) (w4 : List LI)
    (ms : List BMember) :
    nextMember o (clsL w1) (k.map classify) (clsL w2) (clsL w3) v.toTree (clsL w4) (toMembers ms)
      = o + (renderL w1).length + k.length + (renderL w2).length + 1 + (renderL w3).length + v.render.length +
        (renderL w4).length + (if ms.isEmpty then 0 else 1) := by
  simp only [nextMember, valOff_eq, clsL_length, render_length, toMembers_isEmpty]

/-- splitting the text of an item list -/
theorem AtB_items {src : Array UInt8} {o : Nat} {w1 : List LI} {v : BTree} {w2 : List LI} {its : List BItem}
    (h : AtB src o (renderItems ((w1, v, w2) :: its))) :
    AtB src (o + (renderL w1).length) v.render ∧
      AtB src (o + (renderL w1).length + v.render.length + (renderL w2).length + (if its.isEmpty then 0 else 1))
        (renderItems its) := by
  simp only [renderItems] at h
  rw [AtB_append, AtB_append, AtB_append, AtB_append] at h
  obtain ⟨_, hv, _, _, hr⟩ := h
  refine ⟨hv, ?_⟩
  cases its with
  | nil => simpa [Nat.add_assoc] using hr
  | cons it its' => simpa [Nat.add_assoc] using hr

theorem AtB_members {src : Array UInt8} {o : Nat} {w1 : List LI} {k : List UInt8} {w2 w3 : List LI} {v : BTree}
    {w4 : List LI} {ms : List BMember} (h : AtB src o (renderMembers ((w1, k, w2, w3, v, w4) :: ms))) :
    AtB src (o + (renderL w1).length) k ∧
      AtB src (o + (renderL w1).length + k.length + (renderL w2).length + 1 + (renderL w3).length) v.render ∧
      AtB src (o + (renderL w1).length + k.length + (renderL w2).length + 1 + (renderL w3).length + v.render.length +
        (renderL w4).length + (if ms.isEmpty then 0 else 1)) (renderMembers ms) := by
  simp only [renderMembers] at h
  rw [AtB_append, AtB_append, AtB_append] at h
  obtain ⟨_, hk, _, h⟩ := h
  obtain ⟨_, h⟩ := h
  rw [AtB_append, AtB_append, AtB_append, AtB_append] at h
  obtain ⟨_, hv, _, _, hr⟩ := h
  refine ⟨hk, ?_, ?_⟩
  · simpa [Nat.add_assoc] using hv
  · cases ms with
    | nil => simpa [Nat.add_assoc] using hr
    | cons m ms' => simpa [Nat.add_assoc] using hr

mutual
theorem abs_nodesOf (src : Array UInt8) : (t : BTree) → t.Valid → (par : Option Nat) → (n o : Nat) →
    AtB src o t.render → (nodesOf par n o t.toTree).map (absNode src) = tableOf par n t.value
  | .scalar tok, hv, par, n, o, hat => by
    have hs : SchemaScan.IsScalar (tok.map classify) := by simpa [BTree.Valid] using hv
    simp only [BTree.toTree, nodesOf, BTree.value, tableOf, List.map_cons, List.map_nil, List.length_map]
    rw [absNode_lit src par tok o hat (scalar_ne hs)]
  | .arr w0 its, hv, par, n, o, hat => by
    obtain ⟨_, hi⟩ : ValidL w0 ∧ ValidItems its := by simpa [BTree.Valid] using hv
    simp only [BTree.render] at hat
    obtain ⟨_, hat⟩ := hat
    rw [AtB_append] at hat
    have h := abs_items src its hi n (n + 1) (o + 1 + (renderL w0).length) hat.2
    simp only [BTree.toTree, nodesOf, BTree.value, tableOf, List.map_cons, clsL_length, h, idx_items]
    rfl
  | .obj w0 ms, hv, par, n, o, hat => by
    obtain ⟨_, hi⟩ : ValidL w0 ∧ ValidMembers ms := by simpa [BTree.Valid] using hv
    simp only [BTree.render] at hat
    obtain ⟨_, hat⟩ := hat
    rw [AtB_append] at hat
    obtain ⟨h, hk⟩ := abs_members src ms hi n (n + 1) (o + 1 + (renderL w0).length) hat.2
    simp only [BTree.toTree, nodesOf, BTree.value, tableOf, List.map_cons, clsL_length, h, idx_members]
    congr 1
    simp only [absNode, hk]
    rfl
theorem abs_items (src : Array UInt8) : (its : List BItem) → ValidItems its → (a n o : Nat) →
    AtB src o (renderItems its) →
    (nodesItems a n o (toItems its)).map (absNode src) = tableItems a n (valueItems its)
  | [], _, _, _, _, _ => rfl
  | (w1, v, w2) :: its, hv, a, n, o, hat => by
    obtain ⟨_, hvv, _, hits⟩ : ValidL w1 ∧ v.Valid ∧ ValidL w2 ∧ ValidItems its := by simpa [ValidItems] using hv
    obtain ⟨hatv, hatr⟩ := AtB_items hat
    simp only [toItems, nodesItems, valueItems, tableItems, List.map_append, nextItem_eq, clsL_length, count_toTree]
    rw [abs_nodesOf src v hvv (some a) n _ hatv, abs_items src its hits a _ _ hatr]
theorem abs_members (src : Array UInt8) : (ms : List BMember) → ValidMembers ms → (a n o : Nat) →
    AtB src o (renderMembers ms) →
    (nodesMembers a n o (toMembers ms)).map (absNode src) = tableMembers a n (valueMembers ms) ∧
      (keysMembers o (toMembers ms)).map (keyText src) = keysM (valueMembers ms)
  | [], _, _, _, _, _ => ⟨rfl, rfl⟩
  | (w1, k, w2, w3, v, w4) :: ms, hv, a, n, o, hat => by
    obtain ⟨_, hk, _, _, hvv, _, hms⟩ :
        ValidL w1 ∧ SchemaScan.IsKey (k.map classify) ∧ (ValidL w2 ∧ PlainL w2) ∧ (ValidL w3 ∧ PlainL w3) ∧ v.Valid ∧
          ValidL w4 ∧ ValidMembers ms := by
      simpa [ValidMembers] using hv
    obtain ⟨hatk, hatv, hatr⟩ := AtB_members hat
    obtain ⟨ih1, ih2⟩ := abs_members src ms hms a (n + v.value.count) _ hatr
    constructor
    · simp only [toMembers, nodesMembers, valueMembers, tableMembers, List.map_append, nextMember_eq, valOff_eq,
        count_toTree]
      rw [abs_nodesOf src v hvv (some a) n _ hatv, ih1]
    · simp only [toMembers, keysMembers, valueMembers, keysM, List.map_cons, nextMember_eq, clsL_length,
        List.length_map]
      rw [keyText_tok src k _ hatk (key_ne hk), ih2]
end

/-! ### distinct keys: in the loader's terms and on the value -/

theorem nodup_prefix {α : Type} {a b : List α} (h : (a ++ b).Nodup) : b.Nodup := (List.nodup_append.mp h).2.1

mutual
theorem distinct_of_value (src : Array UInt8) : (t : BTree) → t.Valid → t.value.KeysNodup → (o : Nat) →
    AtB src o t.render → KeysDistinct src o t.toTree
  | .scalar _, _, _, _, _ => by simp [BTree.toTree, KeysDistinct]
  | .arr w0 its, hv, hk, o, hat => by
    obtain ⟨_, hi⟩ : ValidL w0 ∧ ValidItems its := by simpa [BTree.Valid] using hv
    have hk' : NodupJ (valueItems its) := by simpa [BTree.value, JV.KeysNodup] using hk
    simp only [BTree.render] at hat
    obtain ⟨_, hat⟩ := hat
    rw [AtB_append] at hat
    have := distinct_items src its hi hk' (o + 1 + (renderL w0).length) hat.2
    simpa [BTree.toTree, KeysDistinct, clsL_length] using this
  | .obj w0 ms, hv, hk, o, hat => by
    obtain ⟨_, hi⟩ : ValidL w0 ∧ ValidMembers ms := by simpa [BTree.Valid] using hv
    obtain ⟨hk1, hk2⟩ : (keysM (valueMembers ms)).Nodup ∧ NodupM (valueMembers ms) := by
      simpa [BTree.value, JV.KeysNodup] using hk
    simp only [BTree.render] at hat
    obtain ⟨_, hat⟩ := hat
    rw [AtB_append] at hat
    have h1 := distinct_members src ms hi hk2 (o + 1 + (renderL w0).length) hat.2
    have h2 := (abs_members src ms hi 0 0 (o + 1 + (renderL w0).length) hat.2).2
    simp only [BTree.toTree, KeysDistinct, clsL_length]
    exact ⟨by rw [h2]; exact hk1, h1⟩
theorem distinct_items (src : Array UInt8) : (its : List BItem) → ValidItems its → NodupJ (valueItems its) →
    (o : Nat) → AtB src o (renderItems its) → DistinctItems src o (toItems its)
  | [], _, _, _, _ => by simp [toItems, DistinctItems]
  | (w1, v, w2) :: its, hv, hk, o, hat => by
    obtain ⟨_, hvv, _, hits⟩ : ValidL w1 ∧ v.Valid ∧ ValidL w2 ∧ ValidItems its := by simpa [ValidItems] using hv
    obtain ⟨hkv, hki⟩ : v.value.KeysNodup ∧ NodupJ (valueItems its) := by simpa [valueItems, NodupJ] using hk
    obtain ⟨hatv, hatr⟩ := AtB_items hat
    simp only [toItems, DistinctItems, nextItem_eq, clsL_length]
    exact ⟨distinct_of_value src v hvv hkv _ hatv, distinct_items src its hits hki _ hatr⟩
theorem distinct_members (src : Array UInt8) : (ms : List BMember) → ValidMembers ms → NodupM (valueMembers ms) →
    (o : Nat) → AtB src o (renderMembers ms) → DistinctMembers src o (toMembers ms)
  | [], _, _, _, _ => by simp [toMembers, DistinctMembers]
  | (w1, k, w2, w3, v, w4) :: ms, hv, hk, o, hat => by
    obtain ⟨_, _, _, _, hvv, _, hms⟩ :
        ValidL w1 ∧ SchemaScan.IsKey (k.map classify) ∧ (ValidL w2 ∧ PlainL w2) ∧ (ValidL w3 ∧ PlainL w3) ∧ v.Valid ∧
          ValidL w4 ∧ ValidMembers ms := by
      simpa [ValidMembers] using hv
    obtain ⟨hkv, hki⟩ : v.value.KeysNodup ∧ NodupM (valueMembers ms) := by simpa [valueMembers, NodupM] using hk
    obtain ⟨_, hatv, hatr⟩ := AtB_members hat
    simp only [toMembers, DistinctMembers, nextMember_eq, valOff_eq]
    exact ⟨distinct_of_value src v hvv hkv _ hatv, distinct_members src ms hms hki _ hatr⟩
end

end Lay
