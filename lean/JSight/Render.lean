/-
Model of errors/document.go (with F-9a: the caret offset is clamped at 0).
Every Go index expression is checked: an out-of-range read is `none` (= runtime panic).
-/
namespace Render

def isNewLine (c : UInt8) : Bool := c == 10 || c == 13
def isBlank (c : UInt8) : Bool := c == 32 || c == 9 || isNewLine c

/-- detectNewLineSymbol: the last byte of the first run of new-line bytes, '\n' by default -/
def detectNl (content : List UInt8) : UInt8 :=
  let rec go : List UInt8 → UInt8 → Bool → UInt8
    | [], nl, _ => nl
    | c :: cs, nl, found =>
      if isNewLine c then go cs c true
      else if found then nl
      else go cs nl found
  go content 10 false

/-- lineBeginning: scan backwards from `idx` -/
def lineBeginning (content : Array UInt8) (nl : UInt8) (idx : Nat) : Option Nat :=
  let rec go : Nat → Nat → Option Nat     -- fuel, i
    | 0, _ => none
    | fuel + 1, i =>
      match content[i]? with
      | none => none                      -- content[i] out of range: panic
      | some c =>
        if c == nl && i != idx then some (i + 1)
        else if i == 0 then some 0
        else go fuel (i - 1)
  go (idx + 1) idx

/-- lineEnd -/
def lineEnd (content : Array UInt8) (nl : UInt8) (idx : Nat) : Option Nat :=
  let n := content.size
  let rec fwd : Nat → Nat → Nat     -- fuel, i
    | 0, i => i
    | fuel + 1, i =>
      if i < n then
        if content[i]! == nl then i else fwd fuel (i + 1)
      else i
  let i := fwd (n + 1) idx
  if i > 0 then
    match content[i - 1]? with
    | none => none
    | some c => if (nl == 10 && c == 13) || (nl == 13 && c == 10) then some (i - 1) else some i
  else some i

/-- Line(): 0 when the file is empty -/
def line (content : Array UInt8) (idx : Nat) : Option Nat :=
  if content.size == 0 then some 0 else
  let nl := detectNl content.toList
  let rec go : Nat → Nat → Nat → Option Nat     -- fuel, i, count
    | 0, _, _ => none
    | fuel + 1, i, n =>
      match content[i]? with
      | none => none
      | some c =>
        let n := if c == nl && i != idx then n + 1 else n
        if i == 0 then some (n + 1) else go fuel (i - 1) n
  go (idx + 1) idx 0

def trimSpacesFromLeft (b : List UInt8) : List UInt8 :=
  match b.dropWhile isBlank with
  | [] => b          -- all blank: returned unchanged
  | r => r

def countSpacesFromLeft (b : List UInt8) : Nat :=
  let k := (b.takeWhile isBlank).length
  if k == b.length then 0 else k

/-- SourceSubString -/
def sourceSubString (content : Array UInt8) (idx : Nat) : Option (List UInt8) :=
  if content.size == 0 then some [] else
  let nl := detectNl content.toList
  match lineBeginning content nl idx, lineEnd content nl idx with
  | some b, some e =>
    if e < b then none                                   -- slice bounds out of range (uint underflow guards `end-begin`)
    else if e - b > 200 then
      let e' := b + 200 - 3
      some (trimSpacesFromLeft ((content.toList.drop b).take (e' - b)) ++ [46, 46, 46])
    else some (trimSpacesFromLeft ((content.toList.drop b).take (e - b)))
  | _, _ => none

/-- pointerToTheErrorCharacter: number of dashes before the caret -/
def pointer (content : Array UInt8) (idx : Nat) : Option Nat :=
  let nl := detectNl content.toList
  match lineBeginning content nl idx with
  | some b =>
    let spaces := countSpacesFromLeft (content.toList.drop b)
    let i : Int := (idx : Int) - (b : Int) - (spaces : Int)
    some (if i < 0 then 0 else i.toNat)                  -- F-9a clamp (pinned: negative ⇒ strings.Repeat panics)
  | none => none

/-- what `Error()` needs: line number, text, dashes -/
def render (content : Array UInt8) (idx : Nat) : Option (Nat × List UInt8 × Nat) := do
  let l ← line content idx
  let s ← sourceSubString content idx
  let p ← pointer content idx
  pure (l, s, p)

end Render
