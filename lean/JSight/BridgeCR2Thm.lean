import JSight.BridgeCR2Type
/-!
Bridge (A)∩(B), second part: the whole node. `enum_agree` (`enumConstraint` / `precisionConstraint` against
`bEnumPrec`), `or_agree` (a node with an `or` rule), `basic_agree` (`Compile.basic` + compatibility flag against
`CR.compile` + `CompileAllOf` + `checkCompatibilityOfConstraints` on the map `mapOf`), and the theorem
`models_agree_compile`: on every scalar / object / array node of the common class, (A)'s creation + `basic` +
compatibility stage and (B)'s `checkRules` on the translated node both accept or both reject with the same code.
-/
namespace BridgeCR
open Compile
open Loader (NK)

section
variable {frs : List Rule} {kind : NK} {jt : JT} {nch : Nat} {isProp : Bool} {c : CR.Ctx}

theorem val_some (G : Good frs) (r : Rule) (hr : r ∈ frs) : ∃ v, r.val = some v := G.vals r hr

theorem bNames_noOr (hor : hasRule frs "or" = false) :
    bNames kind frs jt isProp nch = bType kind frs jt isProp nch none false := by
  unfold bNames
  simp only [hor, Bool.false_eq_true, if_false]

theorem prec_agree (G : Good frs) (hor : hasRule frs "or" = false)
    (htype : Agree (outA (bType kind frs jt isProp nch none false)) (typeB c (mapOf frs))) :
    Agree (outA (if hasRule frs "precision" then
        (match findRule frs "type" with
         | some t => if (t.val.map unq) != some (sb "decimal") then throw (.code 1117 0)
                     else bNames kind frs jt isProp nch
         | none => bNames kind frs jt isProp nch)
      else bNames kind frs jt isProp nch)) (precB c (mapOf frs)) := by
  rw [bNames_noOr hor]
  unfold precB CR.precisionConstraint
  rw [has_mapOf_named _ _ _ ct_precision, typeTok_mapOf]
  cases hp : hasRule frs "precision"
  · simp only [Bool.not_false, if_true, bind_ok, Bool.false_eq_true, if_false]
    exact htype
  · simp only [Bool.not_true, Bool.false_eq_true, if_false, if_true]
    cases hft : findRule frs "type" with
    | none =>
      simp only [Option.map_none, bind_ok]
      exact htype
    | some t =>
      obtain ⟨_, tm⟩ := findRule_name hft
      obtain ⟨v, hv⟩ := val_some G t tm
      simp only [Option.map_some, hv, Option.getD_some]
      by_cases hd : unq v = sb "decimal"
      · have : CR.tyOf v = .decimal := (ofBytes_decimal_iff (unq v)).2 hd
        simp only [hd, bne_self_eq_false, Bool.false_eq_true, if_false, this, ne_eq, not_true_eq_false, bind_ok]
        exact htype
      · have : CR.tyOf v ≠ .decimal := fun e => hd ((ofBytes_decimal_iff (unq v)).1 e)
        have hb : (some (unq v) != some (sb "decimal")) = true := by simp [bne, hd]
        simp [hb, this, outA, Agree, bind_err, throw, throwThe, MonadExceptOf.throw]

theorem q_enum_eq : sb "\"enum\"" = CR.q_enum := by decide +kernel
theorem q_mixed_eq : sb "\"mixed\"" = CR.q_mixed := by decide +kernel

theorem enum_agree (G : Good frs) (hor : hasRule frs "or" = false)
    (htype : Agree (outA (bType kind frs jt isProp nch none false)) (typeB c (mapOf frs))) :
    Agree (outA (bEnumPrec kind frs jt isProp nch)) (enumB c (mapOf frs)) := by
  have hprec := prec_agree (kind := kind) (jt := jt) (nch := nch) (isProp := isProp) G hor htype
  unfold bEnumPrec
  simp only []
  unfold enumB CR.enumConstraint
  rw [has_mapOf_named _ _ _ ct_enum]
  cases he : hasRule frs "enum"
  · simp only [Bool.not_false, if_true, bind_ok, Bool.false_eq_true, if_false]
    exact hprec
  · have hhe : (mapOf frs).has .enum = true := by rw [has_mapOf_named _ _ _ ct_enum, he]
    have hc := CR.count_enum (mapOf frs) hhe
    rw [onlyHas_others frs G.known _ _ sl_enum] at hc
    simp only [Bool.not_true, Bool.false_eq_true, if_false, if_true]
    unfold CR.rawIs
    rw [typeTok_mapOf]
    cases hft : findRule frs "type" with
    | none =>
      simp only [Option.map_none, Bool.not_true, Bool.false_eq_true, if_false]
      cases ho : (others frs ["enum", "optional", "const", "nullable", "type"] != 0)
      · rw [ho] at hc
        have h0 : _ = 0 := of_decide_eq_true hc
        simp only [h0, ne_eq, not_true_eq_false, if_false, bind_ok, Bool.false_eq_true]
        rw [hft] at hprec
        exact hprec
      · rw [ho] at hc
        have h0 : ¬ _ = 0 := of_decide_eq_false hc
        simp [h0, outA, Agree, bind_err, throw, throwThe, MonadExceptOf.throw]
    | some t =>
      obtain ⟨_, tm⟩ := findRule_name hft
      obtain ⟨v, hv⟩ := val_some G t tm
      simp only [Option.map_some, hv, Option.getD_some]
      by_cases hq : v = sb "\"enum\""
      · have hq' : v = CR.q_enum := by rw [hq, q_enum_eq]
        simp only [hq, bne_self_eq_false, Bool.false_eq_true, if_false, ← q_enum_eq, decide_true, Bool.not_true]
        cases ho : (others frs ["enum", "optional", "const", "nullable", "type"] != 0)
        · rw [ho] at hc
          have h0 : _ = 0 := of_decide_eq_true hc
          simp only [h0, ne_eq, not_true_eq_false, if_false, bind_ok, Bool.false_eq_true]
          rw [hft] at hprec
          simp only [hv, hq] at hprec
          exact hprec
        · rw [ho] at hc
          have h0 : ¬ _ = 0 := of_decide_eq_false hc
          simp [h0, outA, Agree, bind_err, throw, throwThe, MonadExceptOf.throw]
      · have hq' : ¬ v = CR.q_enum := by rw [← q_enum_eq]; exact hq
        have hb : (some v != some (sb "\"enum\"")) = true := by simp [bne, hq]
        simp [hb, hq', outA, Agree, bind_err, throw, throwThe, MonadExceptOf.throw]

/-- `basic` with the filtered rule list as a parameter -/
def basicF (kind : NK) (frs : List Rule) (jt : JT) (parentIsObj : Bool) (nChildren : Nat) : Except Err Basic :=
  let next := bEnumPrec kind frs jt parentIsObj nChildren
  if hasRule frs "or" then
    if kind == .mixed then
      if others frs ["or", "optional", "nullable"] != 0 then throw (.code 1103 0) else next
    else
      match findRule frs "type" with
      | some t =>
        if t.val != some (sb "\"mixed\"") then throw (.code 1111 0)
        else if others frs ["or", "optional", "nullable", "type"] != 0 then throw (.code 1103 0)
        else if kind == .obj || kind == .arr then throw (.code 1108 0)
        else next
      | none =>
        if others frs ["or", "optional", "nullable", "type"] != 0 then throw (.code 1103 0)
        else if kind == .obj || kind == .arr then throw (.code 1108 0)
        else next
  else next

theorem basic_eq (n : RNode) (jt : JT) (p : Bool) (nc : Nat) : basic n jt p nc = basicF n.kind (filt n.rules) jt p nc := rfl

theorem or_tail (G : Good frs) (hprop : c.isProp = isProp)
    (hres : others frs ["or", "optional", "nullable", "type"] = 0) (m5 : CR.CMap)
    (h1 : ∀ k, k ≠ .or → k ≠ .type → m5.has k = (mapOf frs).has k) (h2 : m5.has .or = false) (h3 : m5.has .type = false)
    (ns : List String) (orShort : Bool) :
    Agree (outA (bAllowed frs jt isProp nch false none (some ns) orShort)) (tailB c m5) := by
  have hoh : CR.onlyHas (mapOf frs) [.or, .typesList, .optional, .nullable, .type] = true := by
    rw [onlyHas_others frs G.known _ _ sl_or, hres]; rfl
  refine tail_names G hprop hres ?_ ?_ ?_ ns orShort
  · rw [h1 _ (by decide) (by decide), has_mapOf_named _ _ _ ct_optional]
  · intro k k1 k2 k3 k4
    by_cases ko : k = .or
    · subst ko; exact h2
    · by_cases kt : k = .type
      · subst kt; exact h3
      · rw [h1 k ko kt]
        exact CR.onlyHas_absent hoh k (not_in5 k k1 k2 k3 kt ko)
  · rw [h1 _ (by decide) (by decide), has_mapOf_unnamed _ _ rfl]

theorem or_agree (G : Good frs) (hng : ∀ r ∈ frs, r.gen = false) (C : CtxOK kind jt nch isProp c)
    (hor : hasRule frs "or" = true) :
    Agree (outA (basicF kind frs jt isProp nch)) (CR.orConstraint c (mapOf frs) >>= fun m => enumB c m) := by
  obtain ⟨r0, hfo⟩ := findRule_some_of frs "or" hor
  obtain ⟨r0n, r0m⟩ := findRule_name hfo
  have r0g : r0.gen = false := hng r0 r0m
  obtain ⟨v0, hv0⟩ := val_some G r0 r0m
  have hlen : 2 ≤ ((r0.val.bind scalarItems).getD []).length := (G.valid r0 r0m).2.2.2 (by rw [r0n, sb_or]) r0g
  have hO : (mapOf frs).has .or = true := by rw [has_mapOf_named _ _ _ ct_or, hor]
  have hT : (mapOf frs).has .typesList = true := by rw [has_mapOf_named _ _ _ ct_typesList, hor]
  have hTU : CR.typesUsers (mapOf frs) = some (List.replicate ((r0.val.bind scalarItems).getD []).length true) := by
    unfold CR.typesUsers
    rw [mapOf_named frs .typesList "or" ct_typesList, hfo]
    simp [cvAt, r0g]
  have hUA : CR.usersAny (mapOf frs) = true := by
    unfold CR.usersAny
    rw [hTU]
    exact List.any_eq_true.2 ⟨true, List.mem_replicate.2 ⟨by omega, rfl⟩, rfl⟩
  have hTL : CR.typesLen (mapOf frs) = ((r0.val.bind scalarItems).getD []).length := by
    unfold CR.typesLen; rw [hTU]; simp
  have hc := CR.count_or (mapOf frs) hO hT
  rw [onlyHas_others frs G.known _ _ sl_or, hO] at hc
  simp only [CR.bnat_true] at hc
  have hkm : (kind == NK.mixed) = false := by simpa using C.kindm
  -- what follows the `or` checks
  have hnext : others frs ["or", "optional", "nullable", "type"] = 0 → (kind == .obj || kind == .arr) = false →
      (∀ t, findRule frs "type" = some t → t.val = some (sb "\"mixed\"")) →
      Agree (outA (bEnumPrec kind frs jt isProp nch)) (enumB c ((mapOf frs).del .or)) := by
    intro hres hk hmixed
    have hen := absent_of_others frs _ hres "enum" (by decide +kernel)
    have hpr := absent_of_others frs _ hres "precision" (by decide +kernel)
    have e1 : CR.enumConstraint ((mapOf frs).del .or) = .ok ((mapOf frs).del .or) := by
      unfold CR.enumConstraint
      rw [CR.has_del_other _ (by decide), has_mapOf_named _ _ _ ct_enum, hen]; rfl
    have e2 : CR.precisionConstraint ((mapOf frs).del .or) = .ok ((mapOf frs).del .or) := by
      unfold CR.precisionConstraint
      rw [CR.has_del_other _ (by decide), has_mapOf_named _ _ _ ct_precision, hpr]; rfl
    unfold enumB precB typeB
    rw [e1, bind_ok, e2, bind_ok]
    unfold bEnumPrec
    simp only [hen, hpr, Bool.false_eq_true, if_false]
    unfold bNames
    simp only [hor, if_true, hfo, r0g, Bool.false_eq_true, if_false]
    have hns : (orNames r0).length = ((r0.val.bind scalarItems).getD []).length := by
      unfold orNames
      cases r0.val.bind scalarItems <;> simp
    have htt2 : CR.typeTok ((mapOf frs).del .or) = CR.typeTok (mapOf frs) := CR.typeTok_del _ _ (by decide)
    unfold CR.typeConstraint bType
    rw [htt2, typeTok_mapOf]
    cases hft : findRule frs "type" with
    | none =>
      simp only [Option.map_none, bind_ok]
      refine or_tail G C.prop hres _ (fun k ko _ => CR.has_del_other _ ko) (by simp) ?_ _ _
      rw [CR.has_del_other _ (by decide), has_mapOf_named _ _ _ ct_type, ← findRule_isSome, hft]; rfl
    | some t =>
      have hv := hmixed t hft
      have hu1 : unq (sb "\"mixed\"") = sb "mixed" := by decide +kernel
      have hu2 : isUserTypeName (sb "mixed") = false := by decide +kernel
      have hu3 : CR.tyOf (sb "\"mixed\"") = .mixed := by decide +kernel
      have hl2 : ¬ (orNames r0).length < 2 := by rw [hns]; omega
      have hl3 : ¬ CR.typesLen ((mapOf frs).del .or) < 2 := by
        unfold CR.typesLen
        rw [CR.typesUsers_del _ _ (by decide), hTU]
        simp only [List.length_replicate]
        omega
      simp only [Option.map_some, hv, Option.getD_some, hu1, hu2, hu3, Bool.false_eq_true, if_false, beq_self_eq_true,
        if_true, hl2, hl3, reduceCtorEq, bind_ok, CR.realTypeOK, Bool.or_true]
      refine or_tail G C.prop hres _ (fun k ko kt => ?_) (by rw [CR.has_del_other _ (by decide)]; simp) (by simp) _ _
      rw [CR.has_del_other _ kt, CR.has_del_other _ ko]
  unfold basicF CR.orConstraint
  simp only [hor, if_true, hkm, Bool.false_eq_true, if_false, hO, hT, Bool.not_true, C.branch, C.notMV, hUA,
    Bool.and_true, decide_false, Bool.false_and, CR.bnat_true]
  unfold CR.rawIs
  rw [typeTok_mapOf]
  cases hft : findRule frs "type" with
  | none =>
    simp only [Option.map_none, Bool.not_true, Bool.false_eq_true, if_false, outA_ite]
    cases ho : (others frs ["or", "optional", "nullable", "type"] != 0)
    · rw [ho] at hc
      have h0 : _ = 0 := of_decide_eq_true hc
      have hz : others frs ["or", "optional", "nullable", "type"] = 0 := by simpa using ho
      simp only [h0, ne_eq, not_true_eq_false, if_false, Bool.false_eq_true]
      cases hk : (kind == .obj || kind == .arr)
      · simp only [Bool.false_and, Bool.false_eq_true, if_false, bind_ok]
        exact hnext hz hk (fun t ht => by rw [hft] at ht; cases ht)
      · simp [outA, Agree, bind_err, throw, throwThe, MonadExceptOf.throw]
    · rw [ho] at hc
      have h0 : ¬ _ = 0 := of_decide_eq_false hc
      simp [h0, outA, Agree, bind_err, throw, throwThe, MonadExceptOf.throw]
  | some t =>
    obtain ⟨_, tm⟩ := findRule_name hft
    obtain ⟨v, hv⟩ := val_some G t tm
    simp only [Option.map_some, hv, Option.getD_some, outA_ite]
    by_cases hq : v = sb "\"mixed\""
    · simp only [hq, bne_self_eq_false, Bool.false_eq_true, if_false, ← q_mixed_eq, decide_true, Bool.not_true]
      cases ho : (others frs ["or", "optional", "nullable", "type"] != 0)
      · rw [ho] at hc
        have h0 : _ = 0 := of_decide_eq_true hc
        have hz : others frs ["or", "optional", "nullable", "type"] = 0 := by simpa using ho
        simp only [h0, ne_eq, not_true_eq_false, if_false, Bool.false_eq_true]
        cases hk : (kind == .obj || kind == .arr)
        · simp only [Bool.false_and, Bool.false_eq_true, if_false, bind_ok]
          exact hnext hz hk (fun t' ht => by rw [hft] at ht; cases ht; rw [hv, hq])
        · simp [outA, Agree, bind_err, throw, throwThe, MonadExceptOf.throw]
      · rw [ho] at hc
        have h0 : ¬ _ = 0 := of_decide_eq_false hc
        simp [h0, outA, Agree, bind_err, throw, throwThe, MonadExceptOf.throw]
    · have hq' : ¬ v = CR.q_mixed := by rw [← q_mixed_eq]; exact hq
      have hb : (some v != some (sb "\"mixed\"")) = true := by simp [bne, hq]
      simp [hb, hq', outA, Agree, bind_err, throw, throwThe, MonadExceptOf.throw]

theorem compile_eq (c : CR.Ctx) (S : CR.CMap) :
    (CR.compile c S >>= CR.allOfStep c >>= CR.checkCompat c)
      = (CR.orConstraint c (CR.falseConstraints S) >>= fun m => enumB c m) := by
  simp only [CR.compile, enumB, precB, typeB, tailB, bind_assoc]

/-- **`compileNode` + `CompileAllOf` + the compatibility check** on the map of an accepted annotation -/
theorem basic_agree (n : RNode) (G : Good (filt n.rules)) (hng : ∀ r ∈ filt n.rules, r.gen = false)
    (hn : (n.rules.map (·.name)).Nodup)
    (C : CtxOK n.kind jt nch isProp c) (hnf : NoFmt (filt n.rules)) :
    Agree (outA (basic n jt isProp nch)) (CR.compile c (mapOf n.rules) >>= CR.allOfStep c >>= CR.checkCompat c) := by
  rw [compile_eq, fc_mapOf n.rules hn, basic_eq]
  cases hor : hasRule (filt n.rules) "or"
  · have e : CR.orConstraint c (mapOf (filt n.rules)) = .ok (mapOf (filt n.rules)) := by
      unfold CR.orConstraint
      rw [has_mapOf_named _ _ _ ct_or, hor]; rfl
    rw [e, bind_ok]
    unfold basicF
    simp only [hor, Bool.false_eq_true, if_false]
    exact enum_agree G hor (type_agree G hng C hor hnf)
  · exact or_agree G hng C hor

end

end BridgeCR
