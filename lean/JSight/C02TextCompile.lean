import JSight.C02TextSpec
/-!
C02 at TEXT level, compile half: on the one-node table of a top-level scalar with an admissible rule set
(`C02T.okBasicR`) `Compile.basic` raises nothing and computes the node `C02T.compiledOf`; the constraint constructors
do not look at positions (`createRules_erase`).
-/
namespace C02T
open Compile

theorem litsOf_eq (frs : List Rule) :
    litsOf frs = bLits frs (exMinOf frs) (exMaxOf frs) ((typeVal frs).bind fmtOfType) := rfl

theorem findRule_none_of_hasRule {frs : List Rule} {nm : String} (h : hasRule frs nm = false) : findRule frs nm = none := by
  simp only [hasRule, findRule] at h ⊢
  rw [List.find?_eq_none]
  intro x hx
  have := List.any_eq_false.mp h x hx
  simpa using this

theorem lens_ok (frs : List Rule) (h10 : lenOK frs = true) (next : Except Err Basic) : bLens frs next = next := by
  unfold lenOK at h10
  unfold bLens
  cases h1 : findRule frs "minLength" <;> cases h2 : findRule frs "maxLength" <;> simp only [h1, h2] at h10 ⊢
  rename_i a b
  cases h3 : parseUint (a.val.getD []) <;> cases h4 : parseUint (b.val.getD []) <;> simp only [h3, h4] at h10 ⊢
  rename_i x y
  have : ¬ x > y := by simpa using h10
  simp only [this, if_false]

theorem minmax_ok (frs : List Rule) (h9 : minMaxOK frs = true) (next : Except Err Basic) :
    bMinMax frs (exMinOf frs) (exMaxOf frs) next = next := by
  unfold minMaxOK at h9
  unfold bMinMax
  cases h1 : findRule frs "min" <;> cases h2 : findRule frs "max" <;> simp only [h1, h2] at h9 ⊢
  rename_i a b
  cases h3 : cmpNum (a.val.getD []) (b.val.getD []) <;> simp only [h3] at h9 ⊢
  rename_i c
  cases h4 : (exMinOf frs || exMaxOf frs) <;> simp only [h4, Bool.false_eq_true, if_false, if_true] at h9 ⊢
  · have : (c == Ordering.gt) = false := by simpa using h9
    simp only [this, Bool.false_eq_true, if_false]
  · have : (c != Ordering.lt) = false := by simp [bne, h9]
    simp only [this, Bool.false_eq_true, if_false]

/-- the part of `basic` behind the type rule -/
theorem bAllowed_ok (frs : List Rule) (jt : JT) (fmt : Option RulesF.Fmt)
    (hf : fmt = none ∨ ((fmt = some .uuid ∨ fmt = some .date) ∧ jt = .str ∧ (hasRule frs "minLength" || hasRule frs "maxLength") = false))
    (h3 : hasRule frs "optional" = false) (h4 : hasRule frs "additionalProperties" = false)
    (h7 : (hasRule frs "exclusiveMinimum" && !hasRule frs "min") = false)
    (h8 : (hasRule frs "exclusiveMaximum" && !hasRule frs "max") = false)
    (h9 : minMaxOK frs = true) (h10 : lenOK frs = true)
    (h11 : (frs.any fun r => incompatible jt r.name) = false) :
    bAllowed frs jt false 0 false fmt none false
      = .ok (⟨none, hasRule frs "nullable", false, none, false, .absent, bLits frs (exMinOf frs) (exMaxOf frs) fmt, false⟩ : Basic) := by
  have hopt : boolRule frs "optional" = none := by simp [boolRule, findRule_none_of_hasRule h3]
  have hadd := findRule_none_of_hasRule h4
  have hfin : bFinish frs jt none false fmt none false (bLits frs (exMinOf frs) (exMaxOf frs) fmt) Add.absent
      = .ok (⟨none, hasRule frs "nullable", false, none, false, .absent, bLits frs (exMinOf frs) (exMaxOf frs) fmt, false⟩ : Basic) := by
    rcases hf with rfl | ⟨rfl | rfl, rfl, _⟩ <;> simp [bFinish, h11, pure, Except.pure]
  have hoptl : bOptional frs jt false false fmt none false (exMinOf frs) (exMaxOf frs)
      = .ok (⟨none, hasRule frs "nullable", false, none, false, .absent, bLits frs (exMinOf frs) (exMaxOf frs) fmt, false⟩ : Basic) := by
    simp only [bOptional, hopt, hadd, Option.isSome_none, Bool.false_and, Bool.false_eq_true, if_false, hfin]
  have hfm : (fmt.isSome && (hasRule frs "minLength" || hasRule frs "maxLength")) = false := by
    rcases hf with rfl | ⟨_, _, h⟩
    · rfl
    · rw [h]; simp
  have hpairs : bPairs frs jt false false fmt none false
      = .ok (⟨none, hasRule frs "nullable", false, none, false, .absent, bLits frs (exMinOf frs) (exMaxOf frs) fmt, false⟩ : Basic) := by
    unfold bPairs
    simp only [show (boolRule frs "exclusiveMinimum" == some true) = exMinOf frs from rfl,
      show (boolRule frs "exclusiveMaximum" == some true) = exMaxOf frs from rfl, hoptl, lens_ok frs h10, minmax_ok frs h9]
  simp only [bAllowed, hfm, h7, h8, Bool.false_and, Bool.false_eq_true, if_false, hpairs]

theorem bType_ok (frs : List Rule) (jt : JT)
    (h6 : typeOK frs jt = true)
    (h3 : hasRule frs "optional" = false) (h4 : hasRule frs "additionalProperties" = false)
    (h7 : (hasRule frs "exclusiveMinimum" && !hasRule frs "min") = false)
    (h8 : (hasRule frs "exclusiveMaximum" && !hasRule frs "max") = false)
    (h9 : minMaxOK frs = true) (h10 : lenOK frs = true)
    (h11 : (frs.any fun r => incompatible jt r.name) = false) :
    bType .lit frs jt false 0 none false
      = .ok (⟨none, hasRule frs "nullable", false, none, false, .absent, litsOf frs, false⟩ : Basic) := by
  rw [litsOf_eq]
  unfold typeOK typeVal at h6
  unfold bType typeVal
  cases ht : findRule frs "type" with
  | none =>
    simp only [Option.map_none, Option.bind_none]
    exact bAllowed_ok frs jt none (Or.inl rfl) h3 h4 h7 h8 h9 h10 h11
  | some t =>
    simp only [ht, Option.map_some, Option.bind_some, Bool.and_eq_true, Bool.not_eq_true'] at h6 ⊢
    obtain ⟨⟨⟨⟨hu, hm⟩, he⟩, ha⟩, hrest⟩ := h6
    simp only [hu, hm, he, ha, Bool.false_eq_true, if_false]
    cases hd : (unq (t.val.getD []) == sb "decimal") with
    | true =>
      simp only [hd, if_true, Bool.and_eq_true] at hrest ⊢
      have hj : jt = .flt := by simpa using hrest.2
      have hfm : fmtOfType (unq (t.val.getD [])) = none := by
        have : unq (t.val.getD []) = sb "decimal" := by simpa using hd
        rw [this]; decide +kernel
      simp only [hrest.1, hj, hfm, Bool.not_true, bne_self_eq_false, Bool.false_eq_true, if_false]
      exact bAllowed_ok frs .flt none (Or.inl rfl) h3 h4 h7 h8 h9 h10 (hj ▸ h11)
    | false =>
      simp only [hd, Bool.false_eq_true, if_false] at hrest ⊢
      cases hf : (fmtOfType (unq (t.val.getD []))).isSome with
      | true =>
        simp only [hf, if_true, Bool.and_eq_true, Bool.or_eq_true, Bool.not_eq_true'] at hrest ⊢
        obtain ⟨⟨hfm, hj⟩, hl⟩ := hrest
        have hj' : jt = .str := by simpa using hj
        simp only [hj', bne_self_eq_false, Bool.false_eq_true, if_false]
        refine bAllowed_ok frs .str _ (Or.inr ⟨?_, rfl, ?_⟩) h3 h4 h7 h8 h9 h10 (hj' ▸ h11)
        · rcases hfm with h | h
          · exact Or.inl (by simpa using h)
          · exact Or.inr (by simpa using h)
        · simpa using hl
      | false =>
        simp only [hf, Bool.false_eq_true, if_false, Bool.and_eq_true, isPlainType] at hrest ⊢
        have hfn : fmtOfType (unq (t.val.getD [])) = none := by
          cases h : fmtOfType (unq (t.val.getD [])) with
          | none => rfl
          | some f => rw [h] at hf; simp at hf
        have hne : (unq (t.val.getD []) != jt.name) = false := by simp [bne, hrest.2]
        simp only [hrest.1, if_true, hne, Bool.false_eq_true, if_false, hfn]
        exact bAllowed_ok frs jt none (Or.inl rfl) h3 h4 h7 h8 h9 h10 h11

theorem okBasicR_parts {rs : List Rule} {jt : JT} (h : okBasicR rs jt = true) :
    hasRule (filt rs) "or" = false ∧ hasRule (filt rs) "enum" = false ∧ hasRule (filt rs) "optional" = false ∧
    hasRule (filt rs) "additionalProperties" = false ∧ precOK (filt rs) = true ∧ typeOK (filt rs) jt = true ∧
    (hasRule (filt rs) "exclusiveMinimum" && !hasRule (filt rs) "min") = false ∧
    (hasRule (filt rs) "exclusiveMaximum" && !hasRule (filt rs) "max") = false ∧
    minMaxOK (filt rs) = true ∧ lenOK (filt rs) = true ∧
    ((filt rs).any fun r => incompatible jt r.name) = false := by
  simp only [okBasicR, Bool.and_eq_true, Bool.not_eq_true'] at h
  obtain ⟨⟨⟨⟨⟨⟨⟨⟨⟨⟨a, b⟩, c⟩, d⟩, e⟩, f⟩, g⟩, i⟩, j⟩, k⟩, l⟩ := h
  exact ⟨a, b, c, d, e, f, g, i, j, k, l⟩

/-- **`compileNode` on a scalar with an admissible rule set**: the node the code computes -/
theorem basic_ok (ex : Bytes) (rs : List Rule) (jt : JT) (h : okBasicR rs jt = true) :
    basic (node ex rs) jt false 0
      = .ok (⟨none, hasRule (filt rs) "nullable", false, none, false, .absent, litsOf (filt rs), false⟩ : Basic) := by
  obtain ⟨h1, h2, h3, h4, h5, h6, h7, h8, h9, h10, h11⟩ := okBasicR_parts h
  have hb := bType_ok (filt rs) jt h6 h3 h4 h7 h8 h9 h10 h11
  have hn : bNames .lit (filt rs) jt false 0
      = .ok (⟨none, hasRule (filt rs) "nullable", false, none, false, .absent, litsOf (filt rs), false⟩ : Basic) := by
    simp only [bNames, h1, Bool.false_eq_true, if_false, hb]
  have hp : bEnumPrec .lit (filt rs) jt false 0
      = .ok (⟨none, hasRule (filt rs) "nullable", false, none, false, .absent, litsOf (filt rs), false⟩ : Basic) := by
    unfold precOK at h5
    simp only [bEnumPrec, h2, Bool.false_eq_true, if_false]
    cases hpr : hasRule (filt rs) "precision" with
    | false => simp only [Bool.false_eq_true, if_false, hn]
    | true =>
      simp only [hpr, Bool.not_true, Bool.false_or] at h5
      cases ht : findRule (filt rs) "type" with
      | none => simp only [if_true, hn]
      | some t =>
        simp only [ht] at h5
        have : (Option.map unq t.val != some (sb "decimal")) = false := by simp [bne, h5]
        simp only [if_true, this, Bool.false_eq_true, if_false, hn]
  show basic (node ex rs) jt false 0 = _
  unfold basic
  have fd : ∀ l : List Rule, List.filter (fun r => !((r.name == sb "nullable" || r.name == sb "const") && r.val.bind parseBool == some false)) l = filt l := fun _ => rfl
  simp only [node, fd, h1, Bool.false_eq_true, if_false, hp]

end C02T
