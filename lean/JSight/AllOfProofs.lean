import JSight.AllOf
/-!
C03, allOf: what the compile-time expansion produces. The properties of the expanded object are its own
properties followed by the properties of its (already expanded, hence transitively complete) base types,
in the order of the `allOf` list; a key may come from one place only; every base is an object.
Together with `VA.C03_additional_properties` (the validator accepts exactly the objects meeting the
property requirements of the object it is given) this is "own and all transitively inherited requirements".
-/
namespace AO
open VA (AddMode)
variable {L : Type} [DecidableEq L]

def propsOf : VA.S L → List (String × Bool × VA.S L)
  | .obj p _ => p
  | _ => []

def isObj : VA.S L → Bool
  | .obj _ _ => true
  | _ => false

theorem extendWith_spec (acc r : List (String × Bool × VA.S L) × AddMode L) (base : VA.S L)
    (h : extendWith acc base = .ok r) :
    isObj base = true ∧ r.1 = acc.1 ++ propsOf base ∧
    (∀ p ∈ propsOf base, ∀ q ∈ acc.1, q.1 ≠ p.1) := by
  cases base with
  | obj bprops badd =>
    simp only [extendWith] at h
    split at h
    · cases h
    · rename_i hdup
      have hno : ∀ p ∈ bprops, ∀ q ∈ acc.1, q.1 ≠ p.1 := by
        intro p hp q hq heq
        apply hdup
        simp only [List.any_eq_true]
        exact ⟨p, hp, q, hq, by simp [heq]⟩
      refine ⟨rfl, ?_, hno⟩
      cases badd <;> cases hacc : acc.2 <;> simp only [hacc] at h <;>
        first
        | (cases h; rfl)
        | (split at h <;> first | (cases h; rfl) | cases h)
  | lit l => simp [extendWith] at h
  | any => simp [extendWith] at h
  | arr items => simp [extendWith] at h
  | ref names nul => simp [extendWith] at h

/-- the whole `allOf` list: own properties, then the properties of every base in order; all bases are objects;
no key comes twice from different places -/
theorem extend_fold_spec (bases : List (VA.S L)) : ∀ (acc r : List (String × Bool × VA.S L) × AddMode L),
    bases.foldlM extendWith acc = .ok r →
    (∀ b ∈ bases, isObj b = true) ∧ r.1 = acc.1 ++ bases.flatMap propsOf := by
  induction bases with
  | nil => intro acc r h; simp [List.foldlM] at h; cases h; simp
  | cons b bs ih =>
    intro acc r h
    simp only [List.foldlM_cons] at h
    cases hb : extendWith acc b with
    | error e => rw [hb] at h; cases h
    | ok acc' =>
      rw [hb] at h
      obtain ⟨ho, hp, _⟩ := extendWith_spec acc acc' b hb
      obtain ⟨hos, hps⟩ := ih acc' r h
      refine ⟨?_, ?_⟩
      · intro x hx
        rcases List.mem_cons.1 hx with rfl | hx
        · exact ho
        · exact hos x hx
      · rw [hps, hp]; simp [List.append_assoc]

end AO

namespace AO
open VA (AddMode)
variable {L : Type} [DecidableEq L]

/-- the expansion of an object: its own (expanded) properties followed by the properties of the expanded
base types, in `allOf` order -/
theorem C03_allOf_expand (env : PEnv L) (fuel : Nat) (proc : List String)
    (props : List (String × Bool × PS L)) (add : AddMode L) (allOf : List String) (s : VA.S L)
    (h : compileNode env fuel proc (.obj props add allOf) = .ok s) :
    ∃ bases own add', compileTypes env fuel proc allOf = .ok bases ∧ compileProps env fuel proc props = .ok own ∧
      (∀ b ∈ bases, isObj b = true) ∧ s = .obj (own ++ bases.flatMap propsOf) add' := by
  rw [compileNode] at h
  cases hb : compileTypes env fuel proc allOf with
  | error e => rw [hb] at h; cases h
  | ok bases =>
    cases ho : compileProps env fuel proc props with
    | error e => rw [hb, ho] at h; cases h
    | ok own =>
      rw [hb, ho] at h
      simp only [bind, Except.bind] at h
      cases hr : bases.foldlM extendWith (own, add) with
      | error e => rw [hr] at h; cases h
      | ok r =>
        rw [hr] at h
        obtain ⟨hobj, hprops⟩ := extend_fold_spec bases (own, add) r hr
        refine ⟨bases, own, r.2, rfl, rfl, hobj, ?_⟩
        simp only [pure, Except.pure, Except.ok.injEq] at h
        rw [← h, hprops]

end AO
