import JSight.ShortcutTreeRun
/-!
The whole document in ordinary mode: a schema text `ws0 ++ v.render ++ ws1` with `v` a tree whose leaves are scalars
or type shortcuts (`STree`) is scanned into exactly `sEvsAt` of the tree (plus one `newLine` per line break outside
tokens): `Emits`, `events`, `scanAll`.
-/
namespace SchemaScan
namespace Len

variable {data : Array Cls}

/-- the end of a ROOT shortcut: end of input, or a line break and more layout -/
theorem close_root_ts (nm : Bool) (o : Nat) (w : List Cls) (hw : IsWs w) (hf : NlFirst w) (i : Nat) (c0 : Ctx) (al : Bool)
    (hat : At data i w) (hn : data.size = i + w.length) :
    Emits data (cfgL false (tsSt nm) [] (K2 o) false i [c0] sctx al)
      ([⟨.tsE, o, i - 1⟩, ⟨.mixE, o, mixEnd data i⟩] ++ nlEvs i w) := by
  rcases hf with rfl | ⟨r, rfl⟩
  · simp only [List.length_nil, Nat.add_zero] at hn
    simpa [nlEvs] using emits_eof_ts (lc := false) nm o i c0 al hn
  · obtain ⟨hc, hat'⟩ := hat
    have h1 := S_ts_nl (lc := false) nm o i c0 al hc
    obtain ⟨al', h2⟩ := ws_run (lc := false) r hw.tail .endTop rfl [] (i + 1) [] c0 al hat'
    rw [wsSt_eq (by simp)] at h2
    have hend : Emits data (cfgL false .endTop [] [] false (i + 1 + r.length) [] c0 al') [] :=
      Emits.done rfl (by simp only [cfgL, List.length_cons] at hn ⊢; omega) rfl
    have := (Path.trans h1 h2).emits hend
    simpa [nlEvs] using this

/-- the event stream of a rendered tree (fuel-free form) -/
theorem emits_of_stree (v : STree) (hv : v.Valid) (ws0 ws1 : List Cls) (h0 : IsWs ws0) (h1 : IsWs ws1)
    (hf : Follow v ws1) :
    Emits (ws0 ++ (v.render ++ ws1)).toArray {}
      (nlEvs 0 ws0 ++ (sEvsAt ws0.length v ++ nlEvs (ws0.length + v.render.length) ws1)) := by
  have hat : At (ws0 ++ (v.render ++ ws1)).toArray 0 (ws0 ++ (v.render ++ ws1)) :=
    At_toArray _ [] _ rfl
  have hsz : (ws0 ++ (v.render ++ ws1)).toArray.size = ws0.length + v.render.length + ws1.length := by
    simp only [List.size_toArray, List.length_append]; omega
  have hinit : ({} : Sc) = cfgL false .foundRoot [] [] false 0 [] { ty := .initial } true := rfl
  rw [hinit]
  rw [At_append, At_append] at hat
  obtain ⟨hat0, hatv, hat1⟩ := hat
  by_cases hs : v.isShort = true
  · -- a root shortcut
    cases v with
    | short sc sps =>
      obtain ⟨hsc, hsp⟩ : sc.Valid ∧ IsSpTabs sps := by simpa [STree.Valid] using hv
      have hatv' := hatv
      simp only [STree.render] at hatv'
      rw [At_append] at hatv'
      obtain ⟨hatc, hats⟩ := hatv'
      obtain ⟨al, P⟩ := root_ts_path (lc := false) sc hsc ws0 h0 ((At_append _ _ _ _).mpr ⟨hat0, hatc⟩)
      have P2 := ts_run (lc := false) sps .tsName false _ false (sp_tsRun .tsName (Or.inl rfl) sps hsp false)
        (K2 ws0.length) (ws0.length + sc.render.length) [{ ty := .initial }] sctx al
        (by rw [Nat.zero_add] at hats; exact hats)
      rw [tsSt_of_isEmpty] at P2
      have hL : (STree.short sc sps).render.length = sc.render.length + sps.length := by
        simp [STree.render]
      have E := close_root_ts sps.isEmpty ws0.length ws1 h1 (hf rfl) (ws0.length + sc.render.length + sps.length)
        { ty := .initial } al (by
          have := hat1
          rw [hL, Nat.zero_add, ← Nat.add_assoc] at this
          exact this)
        (by rw [hL] at hsz; omega)
      have := (Path.trans P P2).emits E
      have hm := mixEnd_at (data := (ws0 ++ ((STree.short sc sps).render ++ ws1)).toArray) _ (0 + ws0.length) hatv
        (short_ne sc sps)
      rw [hL] at hm
      rw [show ws0.length + sc.render.length + sps.length = 0 + ws0.length + (sc.render.length + sps.length) by omega,
        hm] at this
      simpa [sEvsAt, STree.render, List.length_append, Nat.add_assoc] using this
    | scalar _ => cases hs
    | arr _ _ => cases hs
    | obj _ _ => cases hs
  · obtain ⟨al1, s1⟩ := ws_run (lc := false) ws0 h0 .foundRoot rfl [] 0 [] { ty := .initial } true hat0
    rw [wsSt_eq (by simp)] at s1
    obtain ⟨st, al2, hp, s2⟩ := svalue_run (lc := false) v hv .root (fun h => absurd h hs) [] (0 + ws0.length) hatv []
      { ty := .initial } al1
    simp only [VCtx.preEvs, VCtx.pre, List.nil_append, List.append_nil, VCtx.cx'] at s2
    have key : Emits (ws0 ++ (v.render ++ ws1)).toArray
        (cfgL false st [] (sPend (0 + ws0.length) v) false (0 + ws0.length + v.render.length) [] { ty := .initial } al2)
        (sOwn (0 + ws0.length) v ++ nlEvs (0 + ws0.length + v.render.length) ws1) := by
      cases v with
      | short _ _ => exact absurd rfl hs
      | scalar tok =>
        have hl : 1 ≤ tok.length := scalar_len (by simpa [STree.Valid] using hv)
        have := close_root (data := (ws0 ++ ((STree.scalar tok).render ++ ws1)).toArray) hp true (0 + ws0.length) ws1 h1
          (0 + ws0.length + (STree.scalar tok).render.length) [] { ty := .initial } al2 hat1 (by omega)
        rw [cfgL_false]
        simpa [rootClosers, sOwn, sPend, pendOf, STree.render] using this
      | arr a b =>
        have := close_root (data := (ws0 ++ ((STree.arr a b).render ++ ws1)).toArray) hp false 0 ws1 h1
          (0 + ws0.length + (STree.arr a b).render.length) [] { ty := .initial } al2 hat1 (by omega)
        rw [cfgL_false]
        simpa [rootClosers, sOwn, sPend, pendOf] using this
      | obj a b =>
        have := close_root (data := (ws0 ++ ((STree.obj a b).render ++ ws1)).toArray) hp false 0 ws1 h1
          (0 + ws0.length + (STree.obj a b).render.length) [] { ty := .initial } al2 hat1 (by omega)
        rw [cfgL_false]
        simpa [rootClosers, sOwn, sPend, pendOf] using this
    have := (Path.trans s1 s2).emits key
    simpa [sEvsAt_split] using this

/-! ### the fuel of `scanAll` suffices: at most three events per byte -/

mutual
theorem sevs_length : (v : STree) → v.Valid → (o : Nat) → (sEvsAt o v).length ≤ 3 * v.render.length
  | .scalar tok, hv, o => by
    obtain ⟨c, tl, _, _, _, rfl, _⟩ : IsScalar tok := by simpa [STree.Valid] using hv
    simp only [sEvsAt, STree.render, List.length_cons, List.length_nil]
    omega
  | .short sc sps, hv, o => by
    obtain ⟨⟨⟨hne, _⟩, _⟩, _⟩ : sc.Valid ∧ IsSpTabs sps := by simpa [STree.Valid] using hv
    have : 1 ≤ sc.first.length := by
      cases h : sc.first with
      | nil => exact absurd h hne
      | cons _ _ => simp
    simp only [sEvsAt, STree.render, Shortcut.render, List.length_cons, List.length_nil, List.length_append]
    omega
  | .arr ws0 items, hv, o => by
    obtain ⟨_, hi⟩ : IsWs ws0 ∧ SValidItems items := by simpa [STree.Valid] using hv
    have h1 := nlEvs_length (o + 1) ws0
    have h2 := sitems_length items hi o (o + 1 + ws0.length)
    simp only [sEvsAt, STree.render, List.length_cons, List.length_append]
    omega
  | .obj ws0 members, hv, o => by
    obtain ⟨_, hi⟩ : IsWs ws0 ∧ SValidMembers members := by simpa [STree.Valid] using hv
    have h1 := nlEvs_length (o + 1) ws0
    have h2 := smembers_length members hi o (o + 1 + ws0.length)
    simp only [sEvsAt, STree.render, List.length_cons, List.length_append]
    omega
theorem sitems_length : (its : List SItem) → SValidItems its → (a o : Nat) →
    (sEvsItems a o its).length ≤ 3 * (sRenderItems its).length
  | [], _, a, o => by simp [sEvsItems, sRenderItems]
  | (w1, v, w2) :: its, hv, a, o => by
    obtain ⟨_, hvv, _, _, hits⟩ : IsWs w1 ∧ v.Valid ∧ IsWs w2 ∧ Follow v w2 ∧ SValidItems its := by
      simpa [SValidItems] using hv
    have h1 := nlEvs_length o w1
    have h2 := nlEvs_length (o + w1.length + v.render.length) w2
    have h3 := sevs_length v hvv (o + w1.length)
    cases its with
    | nil =>
      simp only [sEvsItems, sRenderItems, List.length_cons, List.length_append, List.length_nil, List.isEmpty_nil, if_true]
      omega
    | cons it its' =>
      have h4 := sitems_length (it :: its') hits a (o + w1.length + v.render.length + w2.length + 1)
      simp only [sEvsItems, sRenderItems, List.length_cons, List.length_append, List.length_nil, List.isEmpty_cons,
        Bool.false_eq_true, if_false] at h4 ⊢
      omega
theorem smembers_length : (ms : List SMember) → SValidMembers ms →
    (a o : Nat) → (sEvsMembers a o ms).length ≤ 3 * (sRenderMembers ms).length
  | [], _, a, o => by simp [sEvsMembers, sRenderMembers]
  | (w1, k, w2, w3, v, w4) :: ms, hv, a, o => by
    obtain ⟨_, _, _, _, hvv, _, _, hms⟩ :
        IsWs w1 ∧ IsKey k ∧ IsWs w2 ∧ IsWs w3 ∧ v.Valid ∧ IsWs w4 ∧ Follow v w4 ∧ SValidMembers ms := by
      simpa [SValidMembers] using hv
    have h1 := nlEvs_length o w1
    have h2 := nlEvs_length (o + w1.length + k.length) w2
    have h3 := nlEvs_length (o + w1.length + k.length + w2.length + 1) w3
    have h4 := nlEvs_length (o + w1.length + k.length + w2.length + 1 + w3.length + v.render.length) w4
    have h5 := sevs_length v hvv (o + w1.length + k.length + w2.length + 1 + w3.length)
    cases ms with
    | nil =>
      simp only [sEvsMembers, sRenderMembers, List.length_cons, List.length_append, List.length_nil, List.isEmpty_nil,
        if_true]
      omega
    | cons m ms' =>
      have h6 := smembers_length (m :: ms') hms a
        (o + w1.length + k.length + w2.length + 1 + w3.length + v.render.length + w4.length + 1)
      simp only [sEvsMembers, sRenderMembers, List.length_cons, List.length_append, List.length_nil, List.isEmpty_cons,
        Bool.false_eq_true, if_false] at h6 ⊢
      omega
end

/-- `events` on the class array, for any sufficient fuel -/
theorem sevents_of_tree (v : STree) (hv : v.Valid) (ws0 ws1 : List Cls) (h0 : IsWs ws0) (h1 : IsWs ws1)
    (hf : Follow v ws1) (fuel : Nat) (hfu : 3 * (ws0 ++ (v.render ++ ws1)).length < fuel) :
    events (ws0 ++ (v.render ++ ws1)).toArray fuel {} []
      = .ok (nlEvs 0 ws0 ++ (sEvsAt ws0.length v ++ nlEvs (ws0.length + v.render.length) ws1)) := by
  have h := events_of_emits (emits_of_stree v hv ws0 ws1 h0 h1 hf) fuel [] (by
    have a := nlEvs_length 0 ws0
    have b := nlEvs_length (ws0.length + v.render.length) ws1
    have c := sevs_length v hv ws0.length
    simp only [List.length_append] at hfu ⊢
    omega)
  simpa using h

end Len

open Len in
/-- **C06 / C09 / C16 (schema scanner, ordinary mode), trees with type-shortcut leaves**: a schema text that is a JSON
tree whose leaves are scalars or type shortcuts `@name` / `@a | @b …` (root, member value or array item; spaces / tabs
around `|` and behind the last name; then a line break, `,`, `]`, `}` or the end of input) is scanned into exactly the
events of the tree: for a shortcut that starts at `o` and whose last byte — trailing blanks included — is at `e`:
`mixed-value-begin[o:o] types-shortcut-begin[o:o] types-shortcut-end[o:e] mixed-value-end[o:e']` with `e' = e - 1` when
the byte at `e` is a SPACE and `e' = e` otherwise (the one-blank strip), inside `item` / `value` events that end at
`e`; `scanAll`'s fuel suffices. -/
theorem C06_schema_events_of_shortcut_tree (v : STree) (hv : v.Valid) (ws0 ws1 : List Cls) (h0 : IsWs ws0)
    (h1 : IsWs ws1) (hf : Follow v ws1) (bs : List UInt8) (hbs : bs.map classify = ws0 ++ (v.render ++ ws1)) :
    scanAll bs
      = .ok (nlEvs 0 ws0 ++ (sEvsAt ws0.length v ++ nlEvs (ws0.length + v.render.length) ws1)) := by
  unfold scanAll
  simp only [hbs]
  exact sevents_of_tree v hv ws0 ws1 h0 h1 hf _ (by simp only [List.size_toArray]; omega)

#print axioms C06_schema_events_of_shortcut_tree

end SchemaScan
