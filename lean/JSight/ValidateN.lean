/-
C03 prototype: validation with alternatives (type lists, `or`, nullable) as a machine with
*independent* leaves, against the union semantics.  Literal validation is a parameter.
-/
namespace VN

variable {L D : Type}

inductive J (D : Type)
  | lit (d : D)
  | arr (xs : List (J D))
  | obj (ms : List (String × J D))

inductive S (L : Type)
  | lit (l : L)
  | any
  | arr (items : List (S L))
  | obj (props : List (String × Bool × S L))
  | alt (alts : List (S L))          -- union of alternatives (expanded type list, nullable, or)

inductive Ev (D : Type)
  | litB | litE (d : D) | objB | objE | keyB | keyE (k : String) | valB | valE | arrB | arrE | itemB | itemE

def Ev.isOpening : Ev D → Bool
  | .litB | .objB | .keyB | .valB | .arrB | .itemB => true
  | _ => false

mutual
def evs : J D → List (Ev D)
  | .lit d => [.litB, .litE d]
  | .arr xs => .arrB :: (evsItems xs ++ [.arrE])
  | .obj ms => .objB :: (evsMembers ms ++ [.objE])
def evsItems : List (J D) → List (Ev D)
  | [] => []
  | x :: xs => .itemB :: (evs x ++ .itemE :: evsItems xs)
def evsMembers : List (String × J D) → List (Ev D)
  | [] => []
  | (k, v) :: ms => .keyB :: .keyE k :: .valB :: (evs v ++ .valE :: evsMembers ms)
end

inductive Frame (L : Type)
  | lit (l : L)
  | any (depth : Nat)
  | arr (items : List (S L)) (count : Nat)
  | obj (props : List (String × Bool × S L)) (req : List String) (last : Option String)

def requiredKeys (props : List (String × Bool × S L)) : List String :=
  (props.filter (fun p => p.2.1)).map (·.1)

mutual
/-- `NodeValidatorList`: one validator per alternative -/
def heads : S L → List (Frame L)
  | .lit l => [.lit l]
  | .any => [.any 0]
  | .arr items => [.arr items 0]
  | .obj props => [.obj props (requiredKeys props) none]
  | .alt alts => headsList alts
def headsList : List (S L) → List (Frame L)
  | [] => []
  | a :: as => heads a ++ headsList as
end

def childAt (items : List (S L)) (i : Nat) : Option (S L) :=
  match items with
  | [] => none
  | _ => items[min i (items.length - 1)]?

def lookup (props : List (String × Bool × S L)) (k : String) : Option (S L) :=
  (props.find? (fun p => p.1 == k)).map (·.2.2)

/-- feed one event to one leaf; the result is the list of leaves that replace it ([] = this leaf failed) -/
def feed (litOK : L → D → Bool) : List (Frame L) → Ev D → List (List (Frame L))
  | [], _ => []
  | .lit l :: K, e =>
    match e with
    | .litB => [.lit l :: K]
    | .litE d => if litOK l d then [K] else []
    | _ => []
  | .any d :: K, e =>
    let d' := if e.isOpening then d + 1 else d - 1
    if d' == 0 then [K] else [.any d' :: K]
  | .arr items c :: K, e =>
    match e with
    | .arrB | .itemE => [.arr items c :: K]
    | .itemB => match childAt items c with
      | some s => (heads s).map (fun h => h :: .arr items (c + 1) :: K)
      | none => []
    | .arrE => [K]
    | _ => []
  | .obj props req last :: K, e =>
    match e with
    | .objB | .keyB | .valE => [.obj props req last :: K]
    | .keyE k => [.obj props (req.filter (· != k)) (some k) :: K]
    | .valB => match last with
      | some k => match lookup props k with
        | some s => (heads s).map (fun h => h :: .obj props req last :: K)
        | none => []
      | none => []
    | .objE => if req.isEmpty then [K] else []
    | _ => []

/-- all leaves reachable from one leaf -/
def run (litOK : L → D → Bool) : List (Frame L) → List (Ev D) → List (List (Frame L))
  | K, [] => [K]
  | K, e :: es => (feed litOK K e).flatMap (fun K' => run litOK K' es)

/-- `Validate`: some alternative consumes the whole document -/
def validate (litOK : L → D → Bool) (s : S L) (d : J D) : Bool :=
  ((heads s).flatMap (fun h => run litOK [h] (evs d))).any (·.isEmpty)

mutual
def shape (litOK : L → D → Bool) : S L → J D → Bool
  | .any, _ => true
  | .lit l, .lit d => litOK l d
  | .lit _, _ => false
  | .arr items, .arr xs => shapeItems litOK items 0 xs
  | .arr _, _ => false
  | .obj props, .obj ms => shapeMembers litOK props ms && (requiredKeys props).all (fun k => ms.any (fun m => m.1 == k))
  | .obj _, _ => false
  | .alt alts, d => shapeAlts litOK alts d
def shapeAlts (litOK : L → D → Bool) : List (S L) → J D → Bool
  | [], _ => false
  | a :: as, d => shape litOK a d || shapeAlts litOK as d
def shapeItems (litOK : L → D → Bool) : List (S L) → Nat → List (J D) → Bool
  | _, _, [] => true
  | items, i, x :: xs => (match childAt items i with
      | some s => shape litOK s x
      | none => false) && shapeItems litOK items (i + 1) xs
def shapeMembers (litOK : L → D → Bool) : List (String × Bool × S L) → List (String × J D) → Bool
  | _, [] => true
  | props, (k, v) :: ms => (match lookup props k with
      | some s => shape litOK s v
      | none => false) && shapeMembers litOK props ms
end

end VN
