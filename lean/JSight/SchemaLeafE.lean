import JSight.SchemaLeafD
/-! Object / array states that may end a container, and the end of a type shortcut. -/
namespace SchemaScan

theorem VH.inv {V ret} (h : VH V ret) :
    (V = [] ∧ ret = []) ∨ (∃ V', V = .valB :: .objB :: V' ∧ CH V' ret) ∨
    (∃ V', V = .itemB :: .arrB :: V' ∧ CH V' ret) := by
  cases h with
  | root => exact Or.inl ⟨rfl, rfl⟩
  | val h => exact Or.inr (Or.inl ⟨_, rfl, h⟩)
  | item h => exact Or.inr (Or.inr ⟨_, rfl, h⟩)

/-- what `finishShortcut` leaves behind -/
def FSPost (s : Sc) (V : List LexT) (s' : Sc) : Prop :=
  s'.ret = s.ret ∧ s'.stack = s.stack ∧
  ((∃ V', V = .valB :: .objB :: V' ∧ s'.step = .afterValue ∧ Eff s' (.objB :: V') ∧ CH V' s.ret) ∨
   (∃ V', V = .itemB :: .arrB :: V' ∧ s'.step = .afterItem ∧ Eff s' (.arrB :: V') ∧ CH V' s.ret) ∨
   (V = [] ∧ s.ret = [] ∧ s'.step = .endTop ∧ Eff s' []))

theorem finishShortcut_spec {s V} (hE : Eff s (.tsB :: .mixB :: V)) (hV : VH V s.ret) :
    OKRes (FSPost s V) (finishShortcut s) := by
  unfold finishShortcut
  simp only [bind, pure, Except.pure]
  rcases hV.inv with ⟨rfl, hret⟩ | ⟨V', rfl, hV'⟩ | ⟨V', rfl, hV'⟩
  · have hty : (found s .tsE).ctx.ty = .shortcut := (List.cons.inj hE.2).1
    have hc : ({ found (found s .tsE) .mixE with step := St.endTop } : Sc).ctx.ty ::
        ({ found (found s .tsE) .mixE with step := St.endTop } : Sc).ctxStack.map (·.ty)
        = .shortcut :: ctxsOf [] := hE.2
    obtain ⟨c, rest, heq, hcr⟩ := restoreContext_ok hc
    simp only [hty, heq]
    refine ⟨rfl, rfl, Or.inr (Or.inr ⟨rfl, hret, rfl, ?_, hcr⟩)⟩
    show applyFinds (s.finds ++ [.tsE] ++ [.mixE]) (s.stack.map (·.1)) = some []
    rw [applyFinds_append, applyFinds_append, hE.1]; rfl
  · have hty : (found s .tsE).ctx.ty = .object := (List.cons.inj hE.2).1
    simp only [hty]
    exact ⟨rfl, rfl, Or.inl ⟨_, rfl, rfl,
      Eff_found (Eff_found (Eff_found hE rfl rfl) rfl rfl) rfl rfl, hV'⟩⟩
  · have hty : (found s .tsE).ctx.ty = .array := (List.cons.inj hE.2).1
    simp only [hty]
    exact ⟨rfl, rfl, Or.inr (Or.inl ⟨_, rfl, rfl,
      Eff_found (Eff_found (Eff_found hE rfl rfl) rfl rfl) rfl rfl, hV'⟩)⟩


theorem afterValue_ok {f s c p1 p2 V} (hE : Eff s (.objB :: V)) (hV : CH V s.ret)
    (hp : PatOK (s.stack.map (·.1)) V) (hs : StepOK .afterValue s c) :
    OKRes Inv (dispatch (f+1) .afterValue s c p1 p2) := by
  have hG : Good .afterValue (.objB :: V) s.ret := Good.obj rfl hV
  have hK := Good.keep hs hG
  unfold dispatch; dsimp only
  simp only [bind, Except.bind, pure, Except.pure]
  rcases isNewLineM_cases s c with hn | ⟨e, hn, he⟩ <;> simp only [hn]
  · split
    · exact ⟨_, Eff_found hE rfl rfl, hK⟩
    split
    · exact ⟨_, hE, hK⟩
    split
    · exact swAnn_ok hs ‹_› hE hG rfl
    split
    · exact swCom_ok hs hE hG rfl
    split
    · exact ⟨_, hE, Good.obj rfl hV⟩
    split
    · exact foundObjectEnd_ok hE hV hp
    · rfl
  · exact he

theorem afterItem_ok {f s c p1 p2 V} (hE : Eff s (.arrB :: V)) (hV : CH V s.ret)
    (hne : s.stack ≠ []) (hs : StepOK .afterItem s c) :
    OKRes Inv (dispatch (f+1) .afterItem s c p1 p2) := by
  have hG : Good .afterItem (.arrB :: V) s.ret := Good.arr rfl hV
  have hK := Good.keep hs hG
  unfold dispatch; dsimp only
  simp only [bind, Except.bind, pure, Except.pure]
  rcases isNewLineM_cases s c with hn | ⟨e, hn, he⟩ <;> simp only [hn]
  · split
    · exact ⟨_, Eff_found hE rfl rfl, hK⟩
    split
    · exact ⟨_, hE, hK⟩
    split
    · exact swAnn_ok hs ‹_› hE hG rfl
    split
    · exact swCom_ok hs hE hG rfl
    split
    · exact ⟨_, hE, Good.arr rfl hV⟩
    split
    · exact foundArrayEnd_ok hE hV hne
    · rfl
  · exact he

theorem beginKeyShortcut_ok {s V} (hE : Eff s (.objB :: V)) (hV : CH V s.ret) :
    OKRes Inv (beginKeyShortcut s) := by
  unfold beginKeyShortcut
  split
  · rfl
  · exact ⟨_, Eff_found hE rfl rfl, Good.ks rfl hV⟩

theorem beginString_key_ok {s c V} (hE : Eff s (.objB :: V)) (hV : CH V s.ret) :
    OKRes Inv (beginString (found s .keyB) c) := by
  unfold beginString
  split
  · rfl
  · exact ⟨_, Eff_found hE rfl rfl, Good.key rfl hV⟩

theorem beginString_key_ok' {s c V} (hE : Eff s (.objB :: V)) (hV : CH V s.ret) :
    OKRes Inv (Except.bind (beginString s c) (fun s => Except.ok (found s .keyB))) := by
  unfold beginString
  split
  · rfl
  · exact ⟨_, Eff_found (s := { s with step := .inString }) hE rfl rfl, Good.key rfl hV⟩

theorem beginAnnKeyOrEmpty_ok {s c V} (hE : Eff s (.objB :: V)) (hV : CH V s.ret)
    (hp : PatOK (s.stack.map (·.1)) V) : OKRes Inv (beginAnnKeyOrEmpty s c) := by
  unfold beginAnnKeyOrEmpty
  simp only [bind, Except.bind, pure, Except.pure]
  split
  · exact foundObjectEnd_ok hE hV hp
  split
  · exact ⟨_, Eff_found hE rfl rfl, Good.key rfl hV⟩
  split
  · rfl
  · exact ⟨_, Eff_found hE rfl rfl, Good.key rfl hV⟩

theorem objKeyOrEmpty_ok {f s c p1 p2} (h : InvAt .objKeyOrEmpty s) (hf : s.finds = [])
    (hs : StepOK .objKeyOrEmpty s c) :
    OKRes Inv (dispatch (f+1) .objKeyOrEmpty s c p1 p2) := by
  obtain ⟨eff, hE, hG⟩ := h
  have hK := Good.keep hs hG
  obtain ⟨V, rfl, hV⟩ := hG.obj_inv rfl
  have hp : PatOK (s.stack.map (·.1)) V := by rw [hE.stack_eq hf]; exact patOK0 V
  unfold dispatch; dsimp only
  simp only [bind, Except.bind, pure, Except.pure]
  rcases isNewLineM_cases s c with hn | ⟨e, hn, he⟩ <;> simp only [hn]
  · split
    · exact ⟨_, Eff_found hE rfl rfl, hK⟩
    split
    · exact ⟨_, hE, hK⟩
    split
    · exact swAnn_ok hs ‹_› hE hG rfl
    split
    · exact swCom_ok hs hE hG rfl
    split
    · exact beginKeyShortcut_ok hE hV
    split
    · split
      · exact foundObjectEnd_ok (s := { s with allowAnnotation := true }) hE hV hp
      · exact beginString_key_ok (s := { s with allowAnnotation := true }) hE hV
    · exact beginAnnKeyOrEmpty_ok hE hV hp
  · exact he

theorem objKey_ok {f s c p1 p2} (h : InvAt .objKey s) (hf : s.finds = [])
    (hs : StepOK .objKey s c) :
    OKRes Inv (dispatch (f+1) .objKey s c p1 p2) := by
  obtain ⟨eff, hE, hG⟩ := h
  have hK := Good.keep hs hG
  obtain ⟨V, rfl, hV⟩ := hG.obj_inv rfl
  have hp : PatOK (s.stack.map (·.1)) V := by rw [hE.stack_eq hf]; exact patOK0 V
  unfold dispatch; dsimp only
  simp only [bind, Except.bind, pure, Except.pure]
  rcases isNewLineM_cases s c with hn | ⟨e, hn, he⟩ <;> simp only [hn]
  · split
    · have hE' : Eff (found s .newLine) _ := Eff_found hE rfl rfl
      split
      · exact ⟨_, hE', Good.obj rfl hV⟩
      · exact ⟨_, hE', Good.obj rfl hV⟩
    split
    · exact ⟨_, hE, hK⟩
    split
    · exact swAnn_ok hs ‹_› hE hG rfl
    split
    · exact swCom_ok hs hE hG rfl
    split
    · exact beginKeyShortcut_ok hE hV
    split
    · exact beginString_key_ok' hE hV
    · exact beginAnnKeyOrEmpty_ok hE hV hp
  · exact he

theorem objKeyAfterNL_ok {f s c p1 p2} (h : InvAt .objKeyAfterNL s) (hf : s.finds = [])
    (hs : StepOK .objKeyAfterNL s c) :
    OKRes Inv (dispatch (f+1) .objKeyAfterNL s c p1 p2) := by
  obtain ⟨eff, hE, hG⟩ := h
  have hK := Good.keep hs hG
  obtain ⟨V, rfl, hV⟩ := hG.obj_inv rfl
  have hp : PatOK (s.stack.map (·.1)) V := by rw [hE.stack_eq hf]; exact patOK0 V
  unfold dispatch; dsimp only
  simp only [bind, Except.bind, pure, Except.pure]
  rcases isNewLineM_cases s c with hn | ⟨e, hn, he⟩ <;> simp only [hn]
  · split
    · exact ⟨_, Eff_found hE rfl rfl, hK⟩
    split
    · exact ⟨_, hE, hK⟩
    split
    · exact swCom_ok hs hE hG rfl
    split
    · exact beginKeyShortcut_ok hE hV
    split
    · exact beginString_key_ok' hE hV
    · exact beginAnnKeyOrEmpty_ok hE hV hp
  · exact he

theorem arrItemOrEmpty_core {s c V} (hE : Eff s (.arrB :: V)) (hV : CH V s.ret)
    (hs : StepOK .arrItemOrEmpty s c) :
    OKRes Inv (Except.bind (beginValue s c) (fun v => arrItemFinds v.fst v.snd)) := by
  refine OKRes.bind (beginValue_spec hs hE (Good.arr rfl hV) rfl) ?_
  rintro ⟨r, s'⟩ hp
  exact arrItemFinds_ok hV hp

theorem arrItemOrEmpty_ok {f s c p1 p2} (h : InvAt .arrItemOrEmpty s) (hf : s.finds = [])
    (hs : StepOK .arrItemOrEmpty s c) :
    OKRes Inv (dispatch (f+1) .arrItemOrEmpty s c p1 p2) := by
  obtain ⟨eff, hE, hG⟩ := h
  have hK := Good.keep hs hG
  obtain ⟨V, rfl, hV⟩ := hG.arr_inv rfl
  have hne : s.stack ≠ [] := by
    intro h0
    have := hE.stack_eq hf
    rw [h0] at this
    cases this
  unfold dispatch; dsimp only
  simp only [bind, Except.bind, pure, Except.pure]
  rcases isNewLineM_cases s c with hn | ⟨e, hn, he⟩ <;> simp only [hn]
  · split
    · exact ⟨_, Eff_found hE rfl rfl, hK⟩
    split
    · exact swCom_ok hs hE hG rfl
    split
    · exact foundArrayEnd_ok hE hV hne
    by_cases hc : (s.ann == Ann.none && !c.isBlank) = true <;> simp only [hc, ↓reduceIte]
    · exact arrItemOrEmpty_core (s := { s with ctx := { s.ctx with arrayHasItem := true } }) hE hV hs
    · exact arrItemOrEmpty_core hE hV hs
  · exact he

end SchemaScan
