import JSight.LayoutPlain
/-!
Concrete instances for the C13 layout theorems: `{"a": [1, true]}` spelled with LF and two-space indentation,
with CR LF and tabs, and on one line.
-/
namespace Lay.Ex
open SchemaScan (classify IsScalar IsKey)

def key : List UInt8 := [34, 97, 34]                -- "a"
def one : List UInt8 := [49]                        -- 1
def tru : List UInt8 := [116, 114, 117, 101]        -- true

/-- `{⏎  "a": [1, true]⏎}` -/
def tLF : BTree :=
  .obj [.blank 10, .blank 32, .blank 32]
    [([], key, [], [.blank 32], .arr [] [([], .scalar one, []), ([.blank 32], .scalar tru, [])], [.blank 10])]

/-- `{␍⏎⇥"a" :␍⏎⇥⇥[ 1 ,true ]␍⏎}` -/
def tCRLF : BTree :=
  .obj [.blank 13, .blank 10, .blank 9]
    [([], key, [.blank 32], [.blank 13, .blank 10, .blank 9, .blank 9],
      .arr [.blank 32] [([], .scalar one, [.blank 32]), ([], .scalar tru, [.blank 32])], [.blank 13, .blank 10])]

/-- `tLF` with every LF re-spelled CR LF, nothing else changed -/
def tLF' : BTree :=
  .obj [.blank 13, .blank 10, .blank 32, .blank 32]
    [([], key, [], [.blank 32], .arr [] [([], .scalar one, []), ([.blank 32], .scalar tru, [])],
      [.blank 13, .blank 10])]

theorem key_ok : IsKey (key.map classify) := SchemaScan.string_isKey [.la] (.plain _ _ rfl .nil)
theorem one_ok : IsScalar (one.map classify) := ⟨.d19, [], .d1, false, .d1, rfl, rfl, rfl, rfl⟩
theorem tru_ok : IsScalar (tru.map classify) := SchemaScan.true_isScalar

theorem tLF_valid : tLF.Valid := by
  simp [tLF, BTree.Valid, ValidMembers, ValidItems, ValidL, PlainL, LI.Valid, LI.isBlank, isBlankB, key_ok, one_ok, tru_ok]
theorem tCRLF_valid : tCRLF.Valid := by
  simp [tCRLF, BTree.Valid, ValidMembers, ValidItems, ValidL, PlainL, LI.Valid, LI.isBlank, isBlankB, key_ok, one_ok,
    tru_ok]
theorem tLF_plain : tLF.Plain := by simp [tLF, BTree.Plain, PlainMembers, PlainItems, PlainL, LI.isBlank]
theorem tCRLF_plain : tCRLF.Plain := by simp [tCRLF, BTree.Plain, PlainMembers, PlainItems, PlainL, LI.isBlank]
theorem same_value : tLF.value = tCRLF.value := rfl
theorem keys_ok : tLF.value.KeysNodup := by
  simp [tLF, BTree.value, valueMembers, valueItems, JV.KeysNodup, NodupM, NodupJ, keysM]

theorem lf_crlf : LEVar [.blank 10] [.blank 13, .blank 10] :=
  LEVar.lb [.blank 10] [.blank 13, .blank 10] (Or.inl rfl) (Or.inr (Or.inr rfl)) LEVar.nil

theorem tLF_rel : tLF.Rel LEVar tLF' := by
  have sp : LEVar [.blank 32] [.blank 32] := LEVar.same 32 rfl rfl LEVar.nil
  have sp2 : LEVar [.blank 32, .blank 32] [.blank 32, .blank 32] := LEVar.same 32 rfl rfl sp
  have h0 : LEVar [.blank 10, .blank 32, .blank 32] [.blank 13, .blank 10, .blank 32, .blank 32] :=
    LEVar.lb [.blank 10] [.blank 13, .blank 10] (Or.inl rfl) (Or.inr (Or.inr rfl)) sp2
  simp [tLF, tLF', BTree.Rel, RelMembers, RelItems, h0, sp, lf_crlf, LEVar.nil]

/-- the texts -/
example : docText [] tLF [.blank 10] = [123, 10, 32, 32, 34, 97, 34, 58, 32, 91, 49, 44, 32, 116, 114, 117, 101, 93, 10, 125, 10] := by decide
example : docText [] tLF' [.blank 13, .blank 10] = [123, 13, 10, 32, 32, 34, 97, 34, 58, 32, 91, 49, 44, 32, 116, 114, 117, 101, 93, 13, 10, 125, 13, 10] := by decide
example : docText [] tCRLF [] = [123, 13, 10, 9, 34, 97, 34, 32, 58, 13, 10, 9, 9, 91, 32, 49, 32, 44, 116, 114, 117, 101, 32, 93, 13, 10, 125] := by decide

end Lay.Ex
