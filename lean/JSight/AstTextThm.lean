import JSight.AstTextAnnot
/-!
C16 at text level: the theorems about `astOfText` on annotated top-level scalars (with and without a note).
-/
namespace AstText
open SchemaScan Lay
open Loader (NK Node St slice trimSpaces nameOf keyText)

theorem spansRules_length : ∀ (rs : List CRule) (r : CRule) (p : Nat),
    (spansRules p r rs).length = (vspansRules p r rs).length
  | [], r, p => rfl
  | r' :: rs, r, p => by simp [spansRules, vspansRules, spansRules_length rs r' _]

theorem spans_length (ob : CObj) (o : Nat) : (ob.spans o).length = (ob.vspans o).length := by
  cases ob with
  | empty b0 => rfl
  | rules r rs tc => exact spansRules_length rs r _

/-- **annotated scalar, no note**: `tok // {rules}` / `tok /* {rules} */` -/
theorem ast_annot (a : Ann) (ha : a.isAnn = true) (tok s1 s2 : List UInt8) (ob : BObj) (s3 tl : List UInt8)
    (hv : AnnValid a tok s1 s2 ob s3 tl) (he : ∀ p ∈ ob.pairs, p.1 ∉ embNames) :
    astOfText (annTextB a tok s1 s2 ob s3 tl) = astOfScalar tok ob.pairs [] := by
  obtain ⟨st, hfold, hr, hn⟩ := Loader.annot_fold (annTextB a tok s1 s2 ob s3 tl).toArray a ha (tok.map classify)
    (s1.map classify) (s2.map classify) ob.cls (s3.map classify) (tl.map classify)
  have hload : Loader.loadText (annTextB a tok s1 s2 ob s3 tl) = .ok st := by
    unfold Loader.loadText
    simp only [annTextB_cls a ha]
    refine Loader.loadLoop_of_emits _ (annot_emits a ha _ hv.tok _ hv.s1 _ hv.s2 _ hv.ob _ hv.s3 _ hv.tl) _ {} st ?_
      hfold
    have := annEvs_length a (tok.map classify) (s1.map classify) (s2.map classify) ob.cls (s3.map classify)
      (tl.map classify)
    simp only [List.size_toArray]
    omega
  have hat : AtB (annTextB a tok s1 s2 ob s3 tl).toArray 0 (annTextB a tok s1 s2 ob s3 tl) :=
    AtB_toArray _ [] _ rfl
  have htok : AtB (annTextB a tok s1 s2 ob s3 tl).toArray 0 tok := by
    simp only [annTextB] at hat ⊢
    rw [AtB_append] at hat
    exact hat.1
  have hval : slice (annTextB a tok s1 s2 ob s3 tl).toArray 0 ((tok.map classify).length - 1) = tok := by
    have := slice_tok _ tok 0 htok (scalar_ne hv.tok)
    simpa using this
  have hbody : AtB (annTextB a tok s1 s2 ob s3 tl).toArray
      (objOff (tok.map classify) (s1.map classify) (s2.map classify) + 1) (ob.body ++ (125 :: (s3 ++ tl))) := by
    have e : annTextB a tok s1 s2 ob s3 tl
        = (tok ++ (s1 ++ (47 :: markB a :: (s2 ++ [123])))) ++ (ob.body ++ (125 :: (s3 ++ tl))) := by
      simp [annTextB]
    have hat' := hat
    rw [e, AtB_append] at hat'
    have hoff : 0 + (tok ++ (s1 ++ (47 :: markB a :: (s2 ++ [123])))).length
        = objOff (tok.map classify) (s1.map classify) (s2.map classify) + 1 := by
      simp only [objOff, List.length_append, List.length_cons, List.length_nil, List.length_map]; omega
    rw [hoff, ← e] at hat'
    exact hat'.2
  obtain ⟨h1, h2⟩ := spans_pairs _ a ob hv.ob [] _ _ hbody
  unfold astOfText
  rw [hload]
  exact astOfTable_single _ _ st 0 _ _ _ none tok ob.pairs [] hr hn (spans_length _ _) hval h1 h2 he rfl

/-- **annotated scalar with a note**: `tok // {rules} - note` / `tok /* {rules} - note */` -/
theorem ast_annot_note (a : Ann) (ha : a.isAnn = true) (tok s1 s2 : List UInt8) (ob : BObj)
    (s3 n1 note tl : List UInt8) (hv : AnnValidN a tok s1 s2 ob s3 n1 note tl) (he : ∀ p ∈ ob.pairs, p.1 ∉ embNames) :
    astOfText (annTextNB a tok s1 s2 ob s3 n1 note tl) = astOfScalar tok ob.pairs note := by
  obtain ⟨st, hfold, hr, hn⟩ := Loader.annot_fold_note (annTextNB a tok s1 s2 ob s3 n1 note tl).toArray a ha
    (tok.map classify) (s1.map classify) (s2.map classify) ob.cls (s3.map classify) (n1.map classify)
    (note.map classify) (tl.map classify)
  have hb := hv.base
  have hload : Loader.loadText (annTextNB a tok s1 s2 ob s3 n1 note tl) = .ok st := by
    unfold Loader.loadText
    simp only [annTextNB_cls a ha]
    refine Loader.loadLoop_of_emits _
      (annot_emits_note a ha _ hb.tok _ hb.s1 _ hb.s2 _ hb.ob _ hb.s3 _ hv.n1 _ hv.note _ hb.tl) _ {} st ?_ hfold
    have := annEvsN_length a (tok.map classify) (s1.map classify) (s2.map classify) ob.cls (s3.map classify)
      (n1.map classify) (note.map classify) (tl.map classify)
    simp only [List.size_toArray]
    omega
  have hat : AtB (annTextNB a tok s1 s2 ob s3 n1 note tl).toArray 0 (annTextNB a tok s1 s2 ob s3 n1 note tl) :=
    AtB_toArray _ [] _ rfl
  have htok : AtB (annTextNB a tok s1 s2 ob s3 n1 note tl).toArray 0 tok := by
    simp only [annTextNB] at hat ⊢
    rw [AtB_append] at hat
    exact hat.1
  have hval : slice (annTextNB a tok s1 s2 ob s3 n1 note tl).toArray 0 ((tok.map classify).length - 1) = tok := by
    have := slice_tok _ tok 0 htok (scalar_ne hb.tok)
    simpa using this
  have hnote : slice (annTextNB a tok s1 s2 ob s3 n1 note tl).toArray
      (noteOff (tok.map classify) (s1.map classify) (s2.map classify) ob.cls (s3.map classify) (n1.map classify))
      (noteOff (tok.map classify) (s1.map classify) (s2.map classify) ob.cls (s3.map classify) (n1.map classify)
        + (note.map classify).length - 1) = note := by
    have e : annTextNB a tok s1 s2 ob s3 n1 note tl
        = (tok ++ (s1 ++ (47 :: markB a :: (s2 ++ (123 :: (ob.body ++ (125 :: (s3 ++ (45 :: n1))))))))) ++ (note ++ tl) := by
      simp [annTextNB]
    have hat' := hat
    rw [e, AtB_append] at hat'
    have hoff : 0 + (tok ++ (s1 ++ (47 :: markB a :: (s2 ++ (123 :: (ob.body ++ (125 :: (s3 ++ (45 :: n1))))))))).length
        = noteOff (tok.map classify) (s1.map classify) (s2.map classify) ob.cls (s3.map classify) (n1.map classify) := by
      simp only [noteOff, tailOff, List.length_append, List.length_cons, List.length_map, ← BObj.body_cls]
      omega
    have h2 := hat'.2
    rw [hoff, ← e, AtB_append] at h2
    have := slice_tok _ note _ h2.1 (note_ne hv.note)
    simpa using this
  have hbody : AtB (annTextNB a tok s1 s2 ob s3 n1 note tl).toArray
      (objOff (tok.map classify) (s1.map classify) (s2.map classify) + 1)
      (ob.body ++ (125 :: (s3 ++ (45 :: (n1 ++ (note ++ tl)))))) := by
    have e : annTextNB a tok s1 s2 ob s3 n1 note tl
        = (tok ++ (s1 ++ (47 :: markB a :: (s2 ++ [123])))) ++ (ob.body ++ (125 :: (s3 ++ (45 :: (n1 ++ (note ++ tl)))))) := by
      simp [annTextNB]
    have hat' := hat
    rw [e, AtB_append] at hat'
    have hoff : 0 + (tok ++ (s1 ++ (47 :: markB a :: (s2 ++ [123])))).length
        = objOff (tok.map classify) (s1.map classify) (s2.map classify) + 1 := by
      simp only [objOff, List.length_append, List.length_cons, List.length_nil, List.length_map]; omega
    rw [hoff, ← e] at hat'
    exact hat'.2
  obtain ⟨h1, h2⟩ := spans_pairs _ a ob hb.ob [] _ _ hbody
  unfold astOfText
  rw [hload]
  refine astOfTable_single _ _ st 0 _ _ _ _ tok ob.pairs note hr hn (spans_length _ _) hval h1 h2 he ?_
  simp only [noteSpan, hnote]

/-! ### type shortcuts -/

/-- what the loader model does when a type shortcut ends outside an annotation: the node created last gets the
synthesised rule — `type` for `@A`, `or` for `@A | @B` — with the shortcut's span as its value -/
theorem shortcut_step (src : Array UInt8) (st : Loader.St) (i b e : Nat) (hm : st.mode = .default)
    (hl : st.last = some i) :
    Loader.step src st ⟨.tsE, b, e⟩ = .ok (Loader.updNode st i (fun n =>
      { n with rules := n.rules ++ [.inr (if Loader.hasPipe (slice src b e) then "or" else "type")],
               ruleVals := n.ruleVals ++ [some (b, e)] })) := by
  simp [Loader.step, hm, hl]
  rfl

/-- **`@A`**: a shortcut node whose only rule is the synthesised `type` becomes a reference node carrying the name:
TokenType `reference`, Value and SchemaType the name, and the rule `type` marked generated -/
theorem ownOf_shortcut_type (src : Array UInt8) (evs : List Ev) (n : Node) (vb ve b e : Nat)
    (hk : n.kind = .mixed) (hv : n.value = some (vb, ve)) (hr : n.rules = [.inr "type"])
    (hrv : n.ruleVals = [some (b, e)]) (hp : hasPipe (trimSpaces (slice src vb ve)) = false) :
    ownOf src evs n = .ok ⟨"reference", trimSpaces (slice src vb ve), trimSpaces (slice src vb ve), noteOf src n,
      [(sb "type", leaf (if isUserTypeName (unq (trimSpaces (slice src b e))) then "reference" else "string")
        (unq (trimSpaces (slice src b e))) .generated)]⟩ := by
  simp only [ownOf, hk, hv, hr, hrv, List.zip_cons_cons, List.zip_nil_right, rulesAst, ruleAst, List.any_nil,
    Bool.false_eq_true, if_false, List.reverse_cons, List.reverse_nil, List.nil_append, hp]
  rfl

/-- **`@A | @B`**: a shortcut node whose only rule is the synthesised `or` becomes a reference node carrying the
names as written (Value), SchemaType `mixed`, and the rule `or` — an array with one item per name, in written
order — marked generated, items included -/
theorem ownOf_shortcut_or (src : Array UInt8) (evs : List Ev) (n : Node) (vb ve b e : Nat)
    (hk : n.kind = .mixed) (hv : n.value = some (vb, ve)) (hr : n.rules = [.inr "or"])
    (hrv : n.ruleVals = [some (b, e)]) (hp : hasPipe (trimSpaces (slice src vb ve)) = true) :
    ownOf src evs n = .ok ⟨"reference", sb "mixed", trimSpaces (slice src vb ve), noteOf src n,
      [(sb "or", .mk "array" [] [] .generated []
        ((splitPipe (slice src b e)).map fun nm => leaf "string" nm .generated))]⟩ := by
  simp only [ownOf, hk, hv, hr, hrv, List.zip_cons_cons, List.zip_nil_right, rulesAst, ruleAst, List.any_nil,
    Bool.false_eq_true, if_false, List.reverse_cons, List.reverse_nil, List.nil_append, hp]
  rfl

/-! ### layout -/

/-- two layouts of one annotated scalar — inline or multi-line form, any blanks / line breaks the form allows, with
or without a trailing comma — give the same AST -/
theorem ast_layout_note (a a' : Ann) (ha : a.isAnn = true) (ha' : a'.isAnn = true) (tok : List UInt8)
    (s1 s2 : List UInt8) (ob : BObj) (s3 n1 note tl : List UInt8)
    (s1' s2' : List UInt8) (ob' : BObj) (s3' n1' tl' : List UInt8)
    (hv : AnnValidN a tok s1 s2 ob s3 n1 note tl) (hv' : AnnValidN a' tok s1' s2' ob' s3' n1' note tl')
    (hsame : ob.pairs = ob'.pairs) (he : ∀ p ∈ ob.pairs, p.1 ∉ embNames) :
    astOfText (annTextNB a tok s1 s2 ob s3 n1 note tl) = astOfText (annTextNB a' tok s1' s2' ob' s3' n1' note tl') := by
  rw [ast_annot_note a ha tok s1 s2 ob s3 n1 note tl hv he,
    ast_annot_note a' ha' tok s1' s2' ob' s3' n1' note tl' hv' (hsame ▸ he), hsame]

theorem ast_layout (a a' : Ann) (ha : a.isAnn = true) (ha' : a'.isAnn = true) (tok : List UInt8)
    (s1 s2 : List UInt8) (ob : BObj) (s3 tl : List UInt8) (s1' s2' : List UInt8) (ob' : BObj) (s3' tl' : List UInt8)
    (hv : AnnValid a tok s1 s2 ob s3 tl) (hv' : AnnValid a' tok s1' s2' ob' s3' tl')
    (hsame : ob.pairs = ob'.pairs) (he : ∀ p ∈ ob.pairs, p.1 ∉ embNames) :
    astOfText (annTextB a tok s1 s2 ob s3 tl) = astOfText (annTextB a' tok s1' s2' ob' s3' tl') := by
  rw [ast_annot a ha tok s1 s2 ob s3 tl hv he, ast_annot a' ha' tok s1' s2' ob' s3' tl' hv' (hsame ▸ he), hsame]

end AstText
