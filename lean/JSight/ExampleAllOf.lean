import JSight.AllOf
import JSight.ExampleKProofs
/-!
C15 and `allOf`: `CompileAllOf` expands every `allOf` list at compile time (`AO.compileAll`, C03's
`C03_allOf_expand`), before `Example()` and `Validate` look at the schema; both work on the expansion. `embA` reads
an expanded schema (`VA.S`: no `allOf` left, objects with their own and the inherited properties) as a schema of
`ValidateK` (no key shortcuts), so the extended self-validation theorem applies to it.
-/
namespace VK
variable {L : Type}

def embAdd : VA.AddMode L → AddMode L
  | .none => .none | .any => .any | .obj => .obj | .arr => .arr | .lit l => .lit l | .type n => .type n

mutual
def embA : VA.S L → S L
  | .lit l => .lit l
  | .any => .any
  | .arr items => .arr (embAItems items)
  | .obj props add => .obj (embAProps props) [] (embAdd add)
  | .ref names nul => .ref names nul
def embAItems : List (VA.S L) → List (S L)
  | [] => []
  | s :: ss => embA s :: embAItems ss
def embAProps : List (String × Bool × VA.S L) → List (String × Bool × S L)
  | [] => []
  | (k, r, s) :: ps => (k, r, embA s) :: embAProps ps
end

def embAEnv (env : VA.Env L) : Env L := env.map fun p => (p.1, embA p.2)

end VK
