import JSight.SchemaLenErr
/-!
C14: concrete instances of the shortcut, annotated-scalar and token-list theorems (non-vacuity), checked against the
evaluation of the model.
-/
namespace SchemaScan
namespace Len
namespace Ex

def b (x : String) : List UInt8 := x.toList.map (fun c => UInt8.ofNat c.toNat)

/-! `  @cat | @dog-1 ⏎ GET /x` -/
def sc1 : Shortcut := ⟨[.hexo, .la, .lt], [([.sp], [.sp], [.hexo, .nameo, .nameo, .minus, .d19])]⟩

theorem sc1_valid : sc1.Valid := by
  refine ⟨⟨by simp [sc1], by simp [sc1, Cls.isName]⟩, ?_⟩
  simp [sc1, ValidAlts, IsSpTabs, IsTypeName, Cls.isSpTab, Cls.isName]

theorem sc1_len : length (b "  @cat | @dog-1 \n GET /x") = .ok (2 + sc1.render.length) :=
  C14_schema_len_shortcut sc1 sc1_valid [.sp, .sp] [.sp, .nl, .sp] [.nameo, .uE, .nameo, .sp, .slash, .nameo]
    (by simp [IsWs, Cls.isBlank, Cls.isSpace]) (by simp [IsWs, Cls.isBlank, Cls.isSpace, Cls.isNewLine]) rfl _ (by decide)

example : 2 + sc1.render.length = 15 := by decide

/-! `12 // {min: 0} - note⏎⏎GET` -/
def ob1 : CObj := .rules ⟨[], [.nameo, .nameo, .ln], 0, [.sp], [.zero], []⟩ [] none

theorem ob1_valid : ob1.Valid .inline := by
  refine ⟨⟨⟨by simp [ABlank, ob1], ⟨by simp [ob1], by simp [ob1, Cls.isName]⟩, by simp [ABlank, ob1, Ann.okBlank, Cls.isSpTab],
    ⟨.zero, [], .d0, false, .d0, rfl, rfl, rfl, rfl⟩, by simp [ABlank, ob1]⟩, by simp [ob1]⟩, by simp⟩

def body1 : InlBody := .obj [.sp] ob1 [.sp] (some ([.sp], [.ln, .nameo, .lt, .le]))

theorem body1_valid : body1.Valid := by
  refine ⟨by simp [IsSpTabs, Cls.isSpTab], ob1_valid, by simp [IsSpTabs, Cls.isSpTab], ?_⟩
  intro s4 txt h
  cases h
  exact ⟨by simp [IsSpTabs, Cls.isSpTab], by simp [Cls.isInlCh], by simp [Cls.isSpTab]⟩

theorem ann1_len : length (b "12 // {min: 0} - note\n\nGET")
    = .ok (rtrimLen ([] ++ ([.d19, .d19] ++ ([.sp] ++ (Cls.slash :: Cls.slash :: body1.render))))) :=
  C14_schema_len_annotated_scalar [] [.d19, .d19] [.sp] body1 [.nl] .nameo [.uE, .nameo]
    (by simp [IsWs]) ⟨.d19, [.d19], .d1, false, .d1, rfl, rfl, rfl, rfl⟩ (by simp [IsSpTabs, Cls.isSpTab]) body1_valid
    (by simp [IsWs, Cls.isBlank, Cls.isNewLine]) rfl _ (by decide)

example : rtrimLen ([] ++ ([Cls.d19, .d19] ++ ([Cls.sp] ++ (Cls.slash :: Cls.slash :: body1.render)))) = 21 := by decide

/-! `{⏎"a": 1 // x⏎} #x⏎GET`: an annotation with a note inside an object, a comment behind the object -/
def toks1 : List Tok := [.lbrace, .nl, .key [.quote, .la, .quote], .colon, .sp .sp, .scalar [.d19], .sp .sp,
  .ann (.note [.sp] [.nameo]), .rbrace, .sp .sp, .cmt [.nameo]]

theorem toks1_wf : ∀ t ∈ toks1, t.WF := by
  intro t ht
  simp only [toks1, List.mem_cons, List.mem_nil_iff, or_false] at ht
  rcases ht with rfl | rfl | rfl | rfl | rfl | rfl | rfl | rfl | rfl | rfl | rfl
  · trivial
  · trivial
  · exact ⟨[.la, .quote], rfl, rfl⟩
  · trivial
  · rfl
  · exact ⟨.d19, [], .d1, false, .d1, rfl, rfl, rfl, rfl⟩
  · rfl
  · exact ⟨by simp [IsSpTabs, Cls.isSpTab], ⟨by simp [Cls.isInlCh], by simp [Cls.isSpTab]⟩, by simp⟩
  · trivial
  · rfl
  · exact ⟨by simp, by simp⟩

def res1 : TC × List Ev := (trun TC.init toks1).getD (TC.init, [])

theorem run1 : trun TC.init toks1 = some (res1.1, res1.2) := rfl

theorem toks1_len : length (b "{\n\"a\": 1 // x\n} #x\nGET") = .ok (rtrimLen (renderToks toks1)) :=
  C14_schema_len_tokens toks1 toks1_wf res1.1 res1.2 run1 .nameo [.uE, .nameo] rfl
    (Or.inl ⟨rfl, rfl⟩) _ (by decide)

example : rtrimLen (renderToks toks1) = 18 := by decide

/-! `[1, {"a": "x"}]` + ` ⏎GET`: the prefix of length `Len` scans into the same events -/
def toks2 : List Tok := [.lbrack, .scalar [.d19], .comma, .sp .sp, .lbrace, .key [.quote, .la, .quote], .colon, .sp .sp,
  .scalar [.quote, .nameo, .quote], .rbrace, .rbrack]

theorem toks2_wf : ∀ t ∈ toks2, t.WF := by
  intro t ht
  simp only [toks2, List.mem_cons, List.mem_nil_iff, or_false] at ht
  rcases ht with rfl | rfl | rfl | rfl | rfl | rfl | rfl | rfl | rfl | rfl | rfl
  · trivial
  · exact ⟨.d19, [], .d1, false, .d1, rfl, rfl, rfl, rfl⟩
  · trivial
  · rfl
  · trivial
  · exact ⟨[.la, .quote], rfl, rfl⟩
  · trivial
  · rfl
  · exact ⟨.quote, [.nameo, .quote], .inString, true, .endValue, rfl, rfl, rfl, rfl⟩
  · trivial
  · trivial

def res2 : TC × List Ev := (trun TC.init toks2).getD (TC.init, [])

theorem run2 : trun TC.init toks2
    = some (⟨.endValue, false, pendOf false 0, (renderToks toks2).length, [], { ty := .initial }, false⟩, res2.2) := rfl

example := C14_schema_prefix_same_events toks2 toks2_wf .endValue false 0 [] { ty := .initial } false res2.2
  rfl run2 [.sp, .nl] (by simp [IsWs, Cls.isBlank, Cls.isSpace, Cls.isNewLine]) .nameo [.uE, .nameo] rfl (fun h => by cases h)
  (b "[1, {\"a\": \"x\"}] \nGET") (by decide)

/-! `[1, {"a":` and `{"a": "x` end of input: errors -/
def toks3 : List Tok := [.lbrack, .scalar [.d19], .comma, .sp .sp, .lbrace, .key [.quote, .la, .quote], .colon]

theorem toks3_wf : ∀ t ∈ toks3, t.WF := fun t ht => toks2_wf t (by
  simp only [toks3, toks2, List.mem_cons, List.mem_nil_iff, or_false] at ht ⊢
  rcases ht with rfl | rfl | rfl | rfl | rfl | rfl | rfl <;> simp)

def res3 : TC × List Ev := (trun TC.init toks3).getD (TC.init, [])
theorem run3 : trun TC.init toks3 = some (res3.1, res3.2) := rfl

theorem toks3_err : length (b "[1, {\"a\":") = .error (.unexpectedEOF ((b "[1, {\"a\":").length - 1)) :=
  C14_schema_len_error_tokens toks3 toks3_wf res3.1 res3.2 run3 rfl (b "[1, {\"a\":") (by decide)

theorem toks3_str_err : length (b "[1, {\"a\":\"x\\n")
    = .error (.unexpectedEOF ((b "[1, {\"a\":\"x\\n").length - 1)) :=
  C14_schema_len_error_string toks3 toks3_wf res3.1 res3.2 run3 .objv rfl [.nameo, .bslash, .ln]
    (.plain _ _ rfl (.esc _ _ rfl .nil)) (b "[1, {\"a\":\"x\\n") (by decide)

-- the same numbers by evaluation of the model (`#guard`: tests, not proofs)
#guard lenOf (b "  @cat | @dog-1 \n GET /x") == some 15
#guard lenOf (b "12 // {min: 0} - note\n\nGET") == some 21
#guard lenOf (b "{\n\"a\": 1 // x\n} #x\nGET") == some 18

end Ex
end Len
end SchemaScan
