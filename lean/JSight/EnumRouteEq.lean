import JSight.EnumRouteA
import JSight.EnumRouteB
import JSight.AnnotThm
/-!
C18, named enum rule = inline list. For every item list of the grammar (scalar tokens; in the rule text any layout
with comments, in the annotation any blanks the annotation form allows):

* route A — `Values()` of the rule text, then the loop of `enumValueLoader.ruleName` (`appendValues`) — and
* route B — the schema text `EX // {enum: [ … ]}` (or `/* … */`) through the schema scanner model, the loader model and
  the enum-value sub-loader (`routeInline`)

hand `constraint.Enum.Append` the same source tokens in the same order, hence the same (value, jsonType) items, hence
`Enum.Validate` gives the same verdict on every document token (`named_eq_inline`).
-/
set_option linter.unusedSimpArgs false
set_option linter.unusedVariables false
namespace EnumRoute
open SchemaScan (Ev LexT Ann Cls classify nlEvs EObj citemsEvs enumAnnEvs enumAnnText tailEvs renderCItems IsScalar
  IsSpTabs ABlank ATail IsName)
open Loader (annSt modeOf Node Mode RS)
open RulesF (Bytes)

/-! ### what `Append` receives, as a function of the tokens -/

/-- source token and (value, jsonType) of an item -/
def proj (c : Cons) : List (Bytes × (Bytes × _root_.Rules.Kind)) := c.items.map (fun i => (i.src, i.key))

/-- the same for a list of tokens, as `NewEnumItem` computes it -/
def projToks (toks : List Bytes) : List (Bytes × (Bytes × _root_.Rules.Kind)) :=
  toks.filterMap (fun t => (RulesF.enumItem t).map (fun k => (t, k)))

/-- the tokens can be appended one after the other: the type of each can be guessed, no (value, jsonType) repeats -/
def Appendable (c : Cons) (toks : List Bytes) : Prop :=
  (∀ t ∈ toks, (RulesF.enumItem t).isSome = true) ∧ (toks.map RulesF.enumItem).Nodup ∧
    ∀ t ∈ toks, ∀ i ∈ c.items, RulesF.enumItem t ≠ some i.key

theorem Appendable.tail {c : Cons} {t : Bytes} {ts : List Bytes} {k : Bytes × _root_.Rules.Kind} {cm : Bytes}
    (h : Appendable c (t :: ts)) (hk : RulesF.enumItem t = some k) :
    Appendable { c with items := c.items ++ [⟨t, cm, k⟩] } ts := by
  obtain ⟨h1, h2, h3⟩ := h
  simp only [List.map_cons, List.nodup_cons] at h2
  refine ⟨fun x hx => h1 x (by simp [hx]), h2.2, ?_⟩
  intro x hx i hi
  simp only [List.mem_append, List.mem_singleton] at hi
  rcases hi with hi | rfl
  · exact h3 x (by simp [hx]) i hi
  · intro he
    apply h2.1
    rw [hk, ← he]
    exact List.mem_map_of_mem hx

theorem Appendable.fresh {c : Cons} {t : Bytes} {ts : List Bytes} {k : Bytes × _root_.Rules.Kind}
    (h : Appendable c (t :: ts)) (hk : RulesF.enumItem t = some k) :
    c.items.any (fun x => x.key == k) = false := by
  rw [List.any_eq_false]
  intro i hi
  have := h.2.2 t (by simp) i hi
  rw [hk] at this
  simpa using fun e => this (by rw [e])

theorem appendToks_spec : ∀ (toks : List Bytes) (c : Cons), Appendable c toks →
    ∃ c', appendToks c toks = some c' ∧ proj c' = proj c ++ projToks toks ∧ c'.ruleName = c.ruleName
  | [], c, _ => ⟨c, rfl, by simp [projToks], rfl⟩
  | t :: ts, c, h => by
    obtain ⟨k, hk⟩ := Option.isSome_iff_exists.mp (h.1 t (by simp))
    obtain ⟨c', h1, h2, h3⟩ := appendToks_spec ts _ (h.tail (cm := []) hk)
    refine ⟨c', ?_, ?_, h3⟩
    · simp only [appendToks, newEnumItem, hk, Option.map_some, h.fresh hk, Bool.false_eq_true, if_false]
      exact h1
    · rw [h2]
      simp [proj, projToks, hk, List.filterMap_cons]

theorem appendValues_spec (pos : Nat) : ∀ (vs : List Value) (c : Cons), WFV vs → Appendable c (litVals vs) →
    ∃ c', appendValues pos c vs = .ok c' ∧ proj c' = proj c ++ projToks (litVals vs) ∧ c'.ruleName = c.ruleName
  | [], c, _, _ => ⟨c, rfl, by simp [projToks, litVals], rfl⟩
  | v :: vs, c, hw, h => by
    have hw' : WFV vs := fun x hx => hw x (by simp [hx])
    by_cases hc : v.ty = .comment
    · have hl : litVals (v :: vs) = litVals vs := by simp [litVals, List.filterMap_cons, hc]
      rw [hl] at h
      obtain ⟨c', h1, h2, h3⟩ := appendValues_spec pos vs c hw' h
      refine ⟨c', ?_, by rw [hl]; exact h2, h3⟩
      simp only [appendValues, hc, beq_self_eq_true, if_true]
      exact h1
    · have hv := (hw v (by simp)).resolve_left hc
      obtain ⟨src, hsrc⟩ := Option.isSome_iff_exists.mp hv
      have hl : litVals (v :: vs) = src :: litVals vs := by simp [litVals, List.filterMap_cons, hc, hsrc]
      rw [hl] at h
      obtain ⟨k, hk⟩ := Option.isSome_iff_exists.mp (h.1 src (by simp))
      obtain ⟨c', h1, h2, h3⟩ := appendValues_spec pos vs _ hw' (h.tail (cm := v.comment) hk)
      refine ⟨c', ?_, ?_, h3⟩
      · have hne : (v.ty == VType.comment) = false := by simpa using hc
        simp only [appendValues, hne, Bool.false_eq_true, if_false, hsrc, append, newEnumItem, hk, Option.map_some,
          h.fresh hk, bind, Except.bind]
        exact h1
      · rw [h2, hl]
        simp [proj, projToks, hk, List.filterMap_cons]

/-- `Enum.Validate` looks at the (value, jsonType) of the items only -/
theorem enumOK_of_proj (c1 c2 : Cons) (h : proj c1 = proj c2) (d : Bytes) : enumOK c1 d = enumOK c2 d := by
  have hk : c1.items.map (·.key) = c2.items.map (·.key) := by
    have := congrArg (List.map (fun p : Bytes × (Bytes × _root_.Rules.Kind) => p.2)) h
    simpa [proj, List.map_map, Function.comp_def] using this
  unfold enumOK
  cases RulesF.enumItem d with
  | none => rfl
  | some a =>
    simp only []
    have e : ∀ (l : List CItem), l.any (fun it => it.key == a) = (l.map (·.key)).any (· == a) := by
      intro l; simp [List.any_map, Function.comp_def]
    rw [e, e, hk]

/-! ### the scanner's duplicate key and the constraint's agree on tokens -/

theorem isBlank_eq : RulesF.isBlank = Render.isBlank := by
  funext c
  simp [RulesF.isBlank, Render.isBlank, Render.isNewLine, Bool.or_assoc]

/-- `TrimSpaces` does nothing on a token -/
theorem trim_tok (t : Bytes) (h : EnumScan.IsTok (t.map classify)) : RulesF.trimSpaces t = t := by
  obtain ⟨c, l, h1, h2, h3, h4⟩ := h.ends
  rw [List.head?_map] at h1
  rw [List.getLast?_map] at h2
  cases hx : t.head? with
  | none => rw [hx] at h1; cases h1
  | some x =>
    cases hy : t.getLast? with
    | none => rw [hy] at h2; cases h2
    | some y =>
      rw [hx] at h1; rw [hy] at h2
      simp only [Option.map_some, Option.some.injEq] at h1 h2
      have bx : Render.isBlank x = false := by rw [EnumScan.isBlank_classify, h1]; exact h3
      have by' : Render.isBlank y = false := by rw [EnumScan.isBlank_classify, h2]; exact h4
      unfold RulesF.trimSpaces
      rw [isBlank_eq]
      have e1 : t.dropWhile Render.isBlank = t := EnumScan.dropWhile_head _ _ x hx bx
      have e2 : t.reverse.dropWhile Render.isBlank = t.reverse :=
        EnumScan.dropWhile_head _ _ y (by rw [List.head?_reverse]; exact hy) by'
      simp only [e1, e2, List.reverse_reverse]

theorem kind_s_iff (t : Bytes) (k : _root_.Rules.Kind) (h : RulesF.kindOfTok t = some k) : k = .s ↔ Unquote.inQuotes t = true := by
  unfold RulesF.kindOfTok at h
  by_cases hq : Unquote.inQuotes t = true
  · simp only [hq, if_true, Option.some.injEq] at h
    exact ⟨fun _ => hq, fun _ => h.symm⟩
  · simp only [hq, Bool.false_eq_true, if_false] at h
    refine ⟨fun hk => ?_, fun hq' => absurd hq' hq⟩
    subst hk
    repeat' split at h
    all_goals first | cases h | (simp at h)

/-- two tokens with the same (value, jsonType) have the same scanner key (decoded text, is-string) -/
theorem tokKey_of_enumItem (t1 t2 : Bytes) (h1 : EnumScan.IsTok (t1.map classify)) (h2 : EnumScan.IsTok (t2.map classify))
    (k : Bytes × _root_.Rules.Kind) (e1 : RulesF.enumItem t1 = some k) (e2 : RulesF.enumItem t2 = some k) :
    EnumScan.tokKey t1 = EnumScan.tokKey t2 := by
  unfold RulesF.enumItem at e1 e2
  rw [trim_tok t1 h1] at e1
  rw [trim_tok t2 h2] at e2
  simp only [] at e1 e2
  cases hk1 : RulesF.kindOfTok t1 with
  | none => rw [hk1] at e1; cases e1
  | some k1 =>
    cases hk2 : RulesF.kindOfTok t2 with
    | none => rw [hk2] at e2; cases e2
    | some k2 =>
      rw [hk1] at e1; rw [hk2] at e2
      simp only [Option.some.injEq] at e1 e2
      obtain ⟨kv, kk⟩ := k
      simp only [Prod.mk.injEq] at e1 e2
      obtain ⟨a1, b1⟩ := e1
      obtain ⟨a2, b2⟩ := e2
      have hkk : k2 = k1 := b2.trans b1.symm
      subst hkk
      have q1 := kind_s_iff t1 k2 hk1
      have q2 := kind_s_iff t2 k2 hk2
      unfold EnumScan.tokKey
      by_cases hs : k2 = _root_.Rules.Kind.s
      · have i1 := q1.mp hs
        have i2 := q2.mp hs
        subst hs
        simp only [beq_self_eq_true, if_true] at a1 a2
        simp only [i1, i2, if_true, a1, a2]
      · have i1 : Unquote.inQuotes t1 = false := by
          cases h : Unquote.inQuotes t1 with
          | false => rfl
          | true => exact absurd (q1.mpr h) hs
        have i2 : Unquote.inQuotes t2 = false := by
          cases h : Unquote.inQuotes t2 with
          | false => rfl
          | true => exact absurd (q2.mpr h) hs
        have hb : (k2 == _root_.Rules.Kind.s) = false := by simpa using hs
        simp only [hb, Bool.false_eq_true, if_false] at a1 a2
        simp only [i1, i2, Bool.false_eq_true, if_false, a1, a2]

/-- distinct scanner keys give distinct constraint keys -/
theorem appendable_of_nodup (items : List EnumScan.ItemC) (hv : EnumScan.ValidItemsC items)
    (hnd : (items.map EnumScan.itemKeyC).Nodup)
    (hk : ∀ it ∈ items, (RulesF.enumItem it.2.1).isSome = true) (rn : Bytes) :
    Appendable { ruleName := rn } (items.map (·.2.1)) := by
  refine ⟨?_, ?_, ?_⟩
  · intro t ht
    simp only [List.mem_map] at ht
    obtain ⟨it, hit, rfl⟩ := ht
    exact hk it hit
  · rw [List.map_map]
    -- injectivity on the items: equal constraint keys give equal scanner keys
    have : ∀ (l : List EnumScan.ItemC), (∀ it ∈ l, it ∈ items) → (l.map EnumScan.itemKeyC).Nodup →
        (l.map (RulesF.enumItem ∘ fun x => x.2.1)).Nodup := by
      intro l
      induction l with
      | nil => intro _ _; simp
      | cons a l ih =>
        intro hsub hn
        simp only [List.map_cons, List.nodup_cons] at hn ⊢
        refine ⟨?_, ih (fun x hx => hsub x (by simp [hx])) hn.2⟩
        intro hmem
        simp only [List.mem_map, Function.comp_apply] at hmem
        obtain ⟨b, hb, heq⟩ := hmem
        apply hn.1
        obtain ⟨ka, hka⟩ := Option.isSome_iff_exists.mp (hk a (hsub a (by simp)))
        have hkb : RulesF.enumItem b.2.1 = some ka := by rw [heq, hka]
        have := tokKey_of_enumItem a.2.1 b.2.1 (hv a (hsub a (by simp))).2.1 (hv b (hsub b (by simp [hb]))).2.1 ka hka hkb
        simp only [List.mem_map]
        exact ⟨b, hb, by simp only [EnumScan.itemKeyC]; exact this.symm⟩
    exact this items (fun _ h => h) hnd
  · intro t _ i hi
    cases hi

/-! ### route B on bytes -/

/-- the rule object `{ b1 enum n2 : b3 [ w0 items ] b4 }` on bytes; `items` as in the rule grammar without comments:
(blanks, token, blanks) -/
structure BEObj where
  b1 : Bytes
  n2 : Nat
  b3 : Bytes
  w0 : Bytes
  items : List EnumScan.Item
  b4 : Bytes

def clsItem (it : EnumScan.Item) : SchemaScan.CItem := (it.1.map classify, it.2.1.map classify, it.2.2.map classify)

def BEObj.cls (e : BEObj) : EObj :=
  ⟨e.b1.map classify, enumName.map classify, e.n2, e.b3.map classify, e.w0.map classify, e.items.map clsItem,
    e.b4.map classify⟩

def BEObj.body (e : BEObj) : Bytes :=
  e.b1 ++ (enumName ++ (List.replicate e.n2 32 ++ (58 :: (e.b3 ++ (91 :: (e.w0 ++ (EnumScan.renderItems e.items ++ e.b4)))))))

/-- the schema text `EX blanks // blanks {enum: [ … ]} blanks tail` (`a = .inline`) or the `/* … */` form -/
def inlineText (a : Ann) (ex s1 s2 : Bytes) (e : BEObj) (s3 tl : Bytes) : Bytes :=
  ex ++ (s1 ++ (47 :: Lay.markB a :: (s2 ++ (123 :: (e.body ++ (125 :: (s3 ++ tl)))))))

theorem renderItems_cls (its : List EnumScan.Item) :
    (EnumScan.renderItems its).map classify = renderCItems (its.map clsItem) := by
  induction its with
  | nil => rfl
  | cons it its ih =>
    obtain ⟨w1, t, w2⟩ := it
    cases its with
    | nil => simp [EnumScan.renderItems, renderCItems, clsItem]; rfl
    | cons i2 r2 =>
      simp only [EnumScan.renderItems, renderCItems, clsItem, List.map_cons, List.map_append, List.isEmpty_cons,
        Bool.false_eq_true, if_false, List.map_nil] at ih ⊢
      rw [ih]
      rfl

theorem BEObj.body_cls (e : BEObj) : e.body.map classify = e.cls.body := by
  simp only [BEObj.body, EObj.body, BEObj.cls, List.map_append, List.map_cons, List.map_replicate, renderItems_cls]
  rfl

theorem inlineText_cls (a : Ann) (ha : a.isAnn = true) (ex s1 s2 : Bytes) (e : BEObj) (s3 tl : Bytes) :
    (inlineText a ex s1 s2 e s3 tl).map classify
      = enumAnnText a (ex.map classify) (s1.map classify) (s2.map classify) e.cls (s3.map classify) (tl.map classify) := by
  simp only [inlineText, enumAnnText, List.map_append, List.map_cons, BEObj.body_cls]
  cases a <;> simp [Ann.isAnn] at ha <;> rfl

/-- the parts are what the grammar says -/
structure InlineValid (a : Ann) (ex s1 s2 : Bytes) (e : BEObj) (s3 tl : Bytes) : Prop where
  ex : IsScalar (ex.map classify)
  s1 : IsSpTabs (s1.map classify)
  s2 : ABlank a (s2.map classify)
  ob : e.cls.Valid a
  s3 : ABlank a (s3.map classify)
  tl : ATail a (tl.map classify)

theorem enumName_isName : IsName (enumName.map classify) := by
  refine ⟨by decide, ?_⟩
  intro c hc
  have : enumName.map classify = [.le, .ln, .lu, .nameo] := by decide
  rw [this] at hc
  simp only [List.mem_cons, List.not_mem_nil, or_false] at hc
  rcases hc with rfl | rfl | rfl | rfl <;> rfl

/-! #### events: how many -/

theorem citemsEvs_length (v : Nat) : ∀ (its : List SchemaScan.CItem) (o : Nat), (∀ it ∈ its, 1 ≤ it.2.1.length) →
    (citemsEvs v o its).length ≤ 4 * (renderCItems its).length
  | [], o, _ => by simp [citemsEvs, renderCItems]
  | (w1, t, w2) :: its, o, h => by
    have ht := h (w1, t, w2) (by simp)
    have h1 := SchemaScan.nlEvs_length o w1
    have h2 := SchemaScan.nlEvs_length (o + w1.length + t.length) w2
    have h3 := citemsEvs_length v its (o + w1.length + t.length + w2.length + (if its.isEmpty then 0 else 1))
      (fun x hx => h x (by simp [hx]))
    simp only [citemsEvs, renderCItems, List.length_append, List.length_cons, List.length_nil] at ht ⊢
    omega

theorem scalar_len {t : List Cls} (h : IsScalar t) : 1 ≤ t.length := by
  obtain ⟨c, tl, _, _, _, rfl, _⟩ := h
  simp

theorem enumAnnEvs_length (a : Ann) (tok s1 s2 : List Cls) (e : EObj) (he : e.Valid a) (s3 tl : List Cls) :
    (enumAnnEvs a tok s1 s2 e s3 tl).length ≤ 4 * (enumAnnText a tok s1 s2 e s3 tl).length + 12 := by
  have h1 := SchemaScan.nlEvs_length (SchemaScan.annOff tok s1 + 2) s2
  have h2 := SchemaScan.nlEvs_length (SchemaScan.objOff tok s1 s2 + 1 + e.body.length + 1) s3
  have h3 := Lay.tailEvs_length (SchemaScan.annOff tok s1) (SchemaScan.objOff tok s1 s2 + 1 + e.body.length + 1 + s3.length) a tl
  have h4 := SchemaScan.nlEvs_length (SchemaScan.objOff tok s1 s2 + 1) e.b1
  have h5 := SchemaScan.nlEvs_length (SchemaScan.objOff tok s1 s2 + 1 + e.b1.length + e.name.length + e.n2 + 1) e.b3
  have h6 := SchemaScan.nlEvs_length (e.arrOff (SchemaScan.objOff tok s1 s2) + 1) e.w0
  have h7 := citemsEvs_length (e.arrOff (SchemaScan.objOff tok s1 s2))
    e.items (e.arrOff (SchemaScan.objOff tok s1 s2) + 1 + e.w0.length)
    (fun it hit => scalar_len (he.2.2.2.2.1 it hit).2.1)
  have h8 := SchemaScan.nlEvs_length
    (e.arrOff (SchemaScan.objOff tok s1 s2) + 1 + e.w0.length + (renderCItems e.items).length) e.b4
  have hb := e.body_length
  simp only [enumAnnEvs, EObj.evs, enumAnnText, List.length_cons, List.length_append, List.length_nil] at *
  omega

/-! #### the fold -/

/-- the tokens of the list are the slices their literal-end events cut out of the text -/
theorem slicesAt_items (src : Bytes) : ∀ (its : List EnumScan.Item) (front back : Bytes) (o : Nat),
    (∀ it ∈ its, it.2.1 ≠ []) → src = front ++ (EnumScan.renderItems its ++ back) → front.length = o →
    SlicesAt src o (its.map clsItem) (its.map (·.2.1))
  | [], _, _, _, _, _, _ => trivial
  | (w1, t, w2) :: its, front, back, o, hne, hsrc, ho => by
    simp only [List.map_cons, clsItem, SlicesAt, List.length_map, List.isEmpty_map]
    refine ⟨?_, ?_⟩
    · have hat : Lay.AtB src.toArray (o + w1.length) t := by
        have := Lay.AtB_toArray src (front ++ w1)
          (t ++ (w2 ++ ((if its.isEmpty then [] else [44]) ++ EnumScan.renderItems its) ++ back))
          (by rw [hsrc]; simp [EnumScan.renderItems, List.append_assoc])
        rw [Lay.AtB_append] at this
        simpa [ho] using this.1
      exact Lay.slice_tok src.toArray t (o + w1.length) hat (hne (w1, t, w2) (by simp))
    · exact slicesAt_items src its (front ++ (w1 ++ (t ++ (w2 ++ (if its.isEmpty then [] else [44]))))) back _
        (fun x hx => hne x (by simp [hx])) (by rw [hsrc]; simp [EnumScan.renderItems, List.append_assoc])
        (by cases its <;> simp [ho] <;> omega)

/-- **route B**: the inline list through scanner, loader and sub-loader creates ONE constraint holding the tokens -/
theorem inline_route (a : Ann) (ha : a.isAnn = true) (ex s1 s2 : Bytes) (e : BEObj) (s3 tl : Bytes)
    (hv : InlineValid a ex s1 s2 e s3 tl) (c' : Cons) (happ : appendToks {} (e.items.map (·.2.1)) = some c') :
    routeInline (inlineText a ex s1 s2 e s3 tl) = .ok [c'] := by
  have hm := @Loader.modeOf_ne a
  generalize hsrc : inlineText a ex s1 s2 e s3 tl = src
  have hcls := inlineText_cls a ha ex s1 s2 e s3 tl
  rw [hsrc] at hcls
  -- offsets
  let tokC := ex.map classify
  let s1C := s1.map classify
  let s2C := s2.map classify
  let o := SchemaScan.objOff tokC s1C s2C
  have ho : o = ex.length + s1.length + 2 + s2.length := by simp [o, tokC, s1C, s2C, SchemaScan.objOff]
  -- the name of the rule
  have hname : Loader.nameOf src.toArray (o + 1 + e.cls.b1.length, o + 1 + e.cls.b1.length + e.cls.name.length + e.cls.n2 - 1)
      = enumName := by
    have hat : Lay.AtB src.toArray (o + 1) ((Lay.BRule.mk e.b1 enumName e.n2 [] [] []).render ++ []) := by
      have := Lay.AtB_toArray src (ex ++ (s1 ++ (47 :: Lay.markB a :: (s2 ++ [123]))))
        ((Lay.BRule.mk e.b1 enumName e.n2 [] [] []).render ++
          (e.b3 ++ (91 :: (e.w0 ++ (EnumScan.renderItems e.items ++ e.b4))) ++ (125 :: (s3 ++ tl))))
        (by rw [← hsrc]; simp [inlineText, BEObj.body, Lay.BRule.render, List.append_assoc])
      rw [Lay.AtB_append] at this
      have hl : (ex ++ (s1 ++ (47 :: Lay.markB a :: (s2 ++ [123])))).length = o + 1 := by
        rw [ho]; simp; omega
      rw [hl] at this
      simpa using this.1
    have := Lay.nameOf_rule src.toArray (Lay.BRule.mk e.b1 enumName e.n2 [] [] []) enumName_isName (o + 1) hat
    simpa [Lay.BRule.cls, SchemaScan.CRule.span, SchemaScan.CRule.nameOff, BEObj.cls, Nat.add_assoc] using this
  -- the slices
  have hsl : SlicesAt src (e.cls.arrOff o + 1 + e.cls.w0.length) e.cls.items (e.items.map (·.2.1)) := by
    have hne : ∀ it ∈ e.items, it.2.1 ≠ [] := by
      intro it hit hnil
      have := scalar_len (hv.ob.2.2.2.2.1 (clsItem it) (List.mem_map_of_mem hit)).2.1
      simp [clsItem, hnil] at this
    refine slicesAt_items src e.items
      (ex ++ (s1 ++ (47 :: Lay.markB a :: (s2 ++ (123 :: (e.b1 ++ (enumName ++ (List.replicate e.n2 32 ++
        (58 :: (e.b3 ++ (91 :: e.w0))))))))))) (e.b4 ++ (125 :: (s3 ++ tl))) _ hne
      (by rw [← hsrc]; simp [inlineText, BEObj.body, List.append_assoc]) ?_
    simp [EObj.arrOff, BEObj.cls, ho]
    omega
  -- the fold
  let nd0 : Node := { kind := .lit, parent := none, value := some (0, tokC.length - 1) }
  let rn : Nat × Nat := (o + 1 + e.cls.b1.length, o + 1 + e.cls.b1.length + e.cls.name.length + e.cls.n2 - 1)
  have f1 : FoldB [] src [⟨.litB, 0, 0⟩, ⟨.litE, 0, tokC.length - 1⟩,
      ⟨a.B, SchemaScan.annOff tokC s1C, SchemaScan.annOff tokC s1C + 1⟩] {} _ := sb_open [] src a ha _ _ _
  have f2 := sb_nlEvs [] src (modeOf a) hm .begin rfl nd0 (0, 0) [] s2C (SchemaScan.annOff tokC s1C + 2)
  have f3 := FoldB.one (sb_objB [] src (modeOf a) hm nd0 (0, 0) [] o o)
  have f4 := sb_nlEvs [] src (modeOf a) hm .keyOrObjectEnd rfl nd0 (0, 0) [] e.cls.b1 (o + 1)
  have f5 := FoldB.one (sb_keyB [] src (modeOf a) hm nd0 (0, 0) [] (o + 1 + e.cls.b1.length) (o + 1 + e.cls.b1.length))
  have f6 := FoldB.one (sb_keyE [] src (modeOf a) hm nd0 (0, 0) [] rn.1 rn.2)
  have f7 := sb_nlEvs [] src (modeOf a) hm .valueBegin rfl nd0 rn [] e.cls.b3
    (o + 1 + e.cls.b1.length + e.cls.name.length + e.cls.n2 + 1)
  have f8 := FoldB.one (sb_valB [] src (modeOf a) hm nd0 rn [] (e.cls.arrOff o) (e.cls.arrOff o))
  have f9 := FoldB.one (sb_arrB [] src (modeOf a) hm nd0 rn [] (e.cls.arrOff o) (e.cls.arrOff o) hname)
  have f10 := sb_e_nlEvs [] src (modeOf a) hm { nd0 with rules := nd0.rules ++ [.inl rn], ruleVals := nd0.ruleVals ++ [none] } rn none .itemOrEnd {} []
    e.cls.w0 (e.cls.arrOff o + 1)
  have f11 := items_foldB [] src (modeOf a) hm { nd0 with rules := nd0.rules ++ [.inl rn], ruleVals := nd0.ruleVals ++ [none] } rn [] (e.cls.arrOff o)
    e.cls.items (e.items.map (·.2.1)) (e.cls.arrOff o + 1 + e.cls.w0.length) none {} c'
    (by simp [BEObj.cls]) hsl happ
  have f12 := FoldB.one (sb_valE [] src (modeOf a) hm { nd0 with rules := nd0.rules ++ [.inl rn], ruleVals := nd0.ruleVals ++ [none] } rn [c']
    (e.cls.arrOff o) (e.cls.arrOff o + 1 + e.cls.w0.length + (renderCItems e.cls.items).length - 1))
  have f13 := sb_nlEvs [] src (modeOf a) hm .keyOrObjectEnd rfl { nd0 with rules := nd0.rules ++ [.inl rn], ruleVals := nd0.ruleVals ++ [none] } rn [c']
    e.cls.b4 (e.cls.arrOff o + 1 + e.cls.w0.length + (renderCItems e.cls.items).length)
  have f14 := FoldB.one (sb_objE [] src (modeOf a) hm { nd0 with rules := nd0.rules ++ [.inl rn], ruleVals := nd0.ruleVals ++ [none] } rn [c'] o
    (o + 1 + e.cls.body.length))
  have f15 := sb_nlEvs [] src (modeOf a) hm .commentTextBegin rfl { nd0 with rules := nd0.rules ++ [.inl rn], ruleVals := nd0.ruleVals ++ [none] } rn [c']
    (s3.map classify) (o + 1 + e.cls.body.length + 1)
  -- the tail: the closing lexeme, then new-line events only
  have htail : ∃ x y rest, tailEvs (SchemaScan.annOff tokC s1C) (o + 1 + e.cls.body.length + 1 + (s3.map classify).length)
      a (tl.map classify) = ⟨a.E, x, y⟩ :: rest ∧ ∀ ev ∈ rest, ev.ty = .newLine := by
    cases a with
    | none => simp [Ann.isAnn] at ha
    | multi => exact ⟨_, _, _, rfl, Loader.nlEvs_ty _ _⟩
    | inline =>
      cases tl.map classify with
      | nil => exact ⟨_, _, [], rfl, by simp⟩
      | cons c w =>
        refine ⟨_, _, _, rfl, ?_⟩
        intro ev hev
        simp only [List.mem_cons] at hev
        rcases hev with rfl | hev
        · rfl
        · exact Loader.nlEvs_ty _ _ ev hev
  obtain ⟨x, y, rest, hte, hrest⟩ := htail
  have f16 := FoldB.one (sb_annE [] src a ha .commentTextBegin { nd0 with rules := nd0.rules ++ [.inl rn], ruleVals := nd0.ruleVals ++ [none] } rn [c'] x y)
  obtain ⟨bfin, f17, _, _⟩ := Loader.nl_fold_default src.toArray rest
    { annSt (modeOf a) .commentTextBegin { nd0 with rules := nd0.rules ++ [.inl rn], ruleVals := nd0.ruleVals ++ [none] } rn 1 with mode := .default } hrest rfl
  have f17' := foldB_default [] src rest
    { bst (modeOf a) .commentTextBegin { nd0 with rules := nd0.rules ++ [.inl rn], ruleVals := nd0.ruleVals ++ [none] } rn [c'] with
      base := { annSt (modeOf a) .commentTextBegin { nd0 with rules := nd0.rules ++ [.inl rn], ruleVals := nd0.ruleVals ++ [none] } rn 1 with mode := .default } }
    bfin hrest rfl f17
  have hall := FoldB.trans f1 (FoldB.trans f2 (FoldB.trans f3 (FoldB.trans f4 (FoldB.trans f5 (FoldB.trans f6
    (FoldB.trans f7 (FoldB.trans f8 (FoldB.trans f9 (FoldB.trans f10 (FoldB.trans f11 (FoldB.trans f12
      (FoldB.trans f13 (FoldB.trans f14 (FoldB.trans f15 (FoldB.trans f16 f17')))))))))))))))
  have hevs : [⟨.litB, 0, 0⟩, ⟨.litE, 0, tokC.length - 1⟩, ⟨a.B, SchemaScan.annOff tokC s1C, SchemaScan.annOff tokC s1C + 1⟩] ++
      (nlEvs (SchemaScan.annOff tokC s1C + 2) s2C ++ ([⟨.objB, o, o⟩] ++ (nlEvs (o + 1) e.cls.b1 ++
        ([⟨.keyB, o + 1 + e.cls.b1.length, o + 1 + e.cls.b1.length⟩] ++ ([⟨.keyE, rn.1, rn.2⟩] ++
          (nlEvs (o + 1 + e.cls.b1.length + e.cls.name.length + e.cls.n2 + 1) e.cls.b3 ++
            ([⟨.valB, e.cls.arrOff o, e.cls.arrOff o⟩] ++ ([⟨.arrB, e.cls.arrOff o, e.cls.arrOff o⟩] ++
              (nlEvs (e.cls.arrOff o + 1) e.cls.w0 ++ (citemsEvs (e.cls.arrOff o) (e.cls.arrOff o + 1 + e.cls.w0.length) e.cls.items ++
                ([⟨.valE, e.cls.arrOff o, e.cls.arrOff o + 1 + e.cls.w0.length + (renderCItems e.cls.items).length - 1⟩] ++
                  (nlEvs (e.cls.arrOff o + 1 + e.cls.w0.length + (renderCItems e.cls.items).length) e.cls.b4 ++
                    ([⟨.objE, o, o + 1 + e.cls.body.length⟩] ++ (nlEvs (o + 1 + e.cls.body.length + 1) (s3.map classify) ++
                      ([⟨a.E, x, y⟩] ++ rest)))))))))))))))
      = enumAnnEvs a tokC s1C s2C e.cls (s3.map classify) (tl.map classify) := by
    simp only [enumAnnEvs, EObj.evs, hte, List.append_assoc, List.cons_append, List.nil_append, o, rn]
  rw [hevs] at hall
  -- the interleaved loop
  unfold routeInline constraintsOf
  simp only [hcls, bind, Except.bind]
  have hem := SchemaScan.enumAnn_emits a ha tokC hv.ex s1C hv.s1 s2C hv.s2 e.cls hv.ob (s3.map classify) hv.s3
    (tl.map classify) hv.tl
  have hlen := enumAnnEvs_length a tokC s1C s2C e.cls hv.ob (s3.map classify) (tl.map classify)
  rw [loadLoopB_of_emits [] src hem _ {} _ (by
    simp only [tokC, s1C, s2C] at hlen ⊢
    simp only [List.size_toArray]; omega) hall]
  rfl

end EnumRoute

namespace EnumRoute
open SchemaScan (Ann Cls classify IsScalar)
open RulesF (Bytes)

/-! ### the theorem -/

/-- the two type guessers know the token (`GuessSchemaType` for `Values()`, `json.Guess` for `NewEnumItem`) -/
def Guessable (t : Bytes) : Prop := (guessSchemaType t).isSome = true ∧ (RulesF.enumItem t).isSome = true

theorem projToks_fst (toks : List Bytes) (h : ∀ t ∈ toks, (RulesF.enumItem t).isSome = true) :
    (projToks toks).map (·.1) = toks := by
  induction toks with
  | nil => rfl
  | cons t ts ih =>
    obtain ⟨k, hk⟩ := Option.isSome_iff_exists.mp (h t (by simp))
    simp only [projToks, List.filterMap_cons, hk, Option.map_some, List.map_cons]
    congr 1
    exact ih (fun x hx => h x (by simp [hx]))

/-- **named enum rule = inline list.** The rule text `pre [ lay item , … ] lay` (layout with comments anywhere) and the
schema text `EX // {enum: [ item, … ]}` (or the `/* */` form; its own blanks) with the SAME item tokens in the same order:
`Values()` succeeds; the loop of the sub-loader's `ruleName` appends its non-comment values to a constraint `cA`; the
inline text is scanned, loaded and gives exactly one constraint `cB`; both hold, in source order, the item tokens with
the (value, jsonType) `NewEnumItem` computes — so `Enum.Validate` answers alike on every document token. -/
theorem named_eq_inline (pre : Bytes) (ws0 post : EnumScan.LayB) (items : List EnumScan.ItemC)
    (a : Ann) (ha : a.isAnn = true) (ex s1 s2 : Bytes) (e : BEObj) (s3 tl : Bytes)
    (hpre : EnumScan.IsWsB pre) (hws0 : ws0.Valid) (hpost : post.Valid) (hv : EnumScan.ValidItemsC items)
    (hnd : (items.map EnumScan.itemKeyC).Nodup) (hiv : InlineValid a ex s1 s2 e s3 tl)
    (hsame : e.items.map (·.2.1) = items.map (·.2.1)) (hg : ∀ it ∈ items, Guessable it.2.1)
    (name : Bytes) (pos : Nat) :
    ∃ vs cA cB,
      ruleValues (EnumScan.renderEnumC pre ws0 items post) = .ok vs ∧
      appendValues pos { ruleName := name } vs = .ok cA ∧
      routeInline (inlineText a ex s1 s2 e s3 tl) = .ok [cB] ∧
      proj cA = projToks (items.map (·.2.1)) ∧ proj cB = projToks (items.map (·.2.1)) ∧
      cA.items.map (·.src) = items.map (·.2.1) ∧ cB.items.map (·.src) = items.map (·.2.1) ∧
      ∀ d, enumOK cA d = enumOK cB d := by
  obtain ⟨vs, hvals, hlits, hwf⟩ := values_of_text pre ws0 post items hpre hws0 hpost hv hnd (fun it hit => (hg it hit).1)
  have happA := appendable_of_nodup items hv hnd (fun it hit => (hg it hit).2) name
  have happB := appendable_of_nodup items hv hnd (fun it hit => (hg it hit).2) []
  obtain ⟨cA, hA1, hA2, _⟩ := appendValues_spec pos vs { ruleName := name } hwf (by rw [hlits]; exact happA)
  obtain ⟨cB, hB1, hB2, _⟩ := appendToks_spec (items.map (·.2.1)) {} happB
  have hAp : proj cA = projToks (items.map (·.2.1)) := by rw [hA2, hlits]; rfl
  have hBp : proj cB = projToks (items.map (·.2.1)) := by rw [hB2]; rfl
  have hfst : (projToks (items.map (·.2.1))).map (·.1) = items.map (·.2.1) :=
    projToks_fst _ (by
      intro t ht
      simp only [List.mem_map] at ht
      obtain ⟨it, hit, rfl⟩ := ht
      exact (hg it hit).2)
  refine ⟨vs, cA, cB, hvals, hA1, inline_route a ha ex s1 s2 e s3 tl hiv cB (by rw [hsame]; exact hB1), hAp, hBp, ?_, ?_,
    fun d => enumOK_of_proj cA cB (by rw [hAp, hBp]) d⟩
  · have := congrArg (List.map (fun p : Bytes × (Bytes × _root_.Rules.Kind) => p.1)) hAp
    rw [hfst] at this
    simpa [proj, List.map_map, Function.comp_def] using this
  · have := congrArg (List.map (fun p : Bytes × (Bytes × _root_.Rules.Kind) => p.1)) hBp
    rw [hfst] at this
    simpa [proj, List.map_map, Function.comp_def] using this

/-! ### tokens of the grammar -/

theorem strBody_conv {b : List Cls} (h : EnumScan.StrBody b) : SchemaScan.StrBody b := by
  induction h with
  | nil => exact .nil
  | plain c b hc _ ih => exact .plain c b (by cases c <;> simp [EnumScan.isPlainStr] at hc <;> rfl) ih
  | esc c b hc _ ih => exact .esc c b (by cases c <;> simp [EnumScan.isSimpleEsc] at hc <;> rfl) ih
  | uni h1 h2 h3 h4 b e1 e2 e3 e4 _ ih => exact .uni h1 h2 h3 h4 b e1 e2 e3 e4 ih

/-- a scalar token of the enum grammar is a scalar token for the schema scanner -/
theorem gtok_isScalar {tk : List Cls} (h : EnumScan.GTok tk) : IsScalar tk := by
  cases h with
  | str b hb => exact SchemaScan.string_isScalar b (strBody_conv hb)
  | num t wf =>
    have : t.render = (SchemaScan.NumTok.mk t.neg t.int t.frac).render := rfl
    rw [this]
    exact SchemaScan.number_isScalar _ ⟨wf.int, wf.frac⟩
  | wtrue => exact SchemaScan.true_isScalar
  | wfalse => exact SchemaScan.false_isScalar
  | wnull => exact SchemaScan.null_isScalar

/-- strings and the three words are guessable (numbers: whenever `json.NewNumber` recognises the token) -/
theorem guessable_quoted (t : Bytes) (h : Unquote.inQuotes t = true) (ht : EnumScan.IsTok (t.map classify)) :
    Guessable t := by
  refine ⟨by simp [guessSchemaType, h], ?_⟩
  unfold RulesF.enumItem
  rw [trim_tok t ht]
  simp [RulesF.kindOfTok, h]

end EnumRoute

#print axioms EnumRoute.named_eq_inline
#print axioms EnumRoute.inline_route
#print axioms EnumRoute.values_of_text
