import JSight.BridgeCK2Types
/-!
Bridge (A)∩(C), third part: **an EXAMPLE token against the literal validator of ANOTHER node** (the root of a named
type reached through a types list). (A): `Compile.litErr spec tok`; (C): `CK.validateLiteralValue` on the dumped
constraint map of that root — `litCs spec` plus the marker constraints of `dumpNode` (`allOf` for a node flagged
incompatible, `any` for an `any` node), which no validator reads. `lit_tok`: the same verdict and the same code (210, the
validator codes, 0), for every guessable token.
-/
namespace BridgeCK
open Compile

def noEmail (spec : RulesF.LitSpecF) : Bool := spec.rules.all fun r => match r with | .fmt .email => false | _ => true

/-- the marker constraints `dumpNode` appends -/
def Marker (m : List CK.Cn) : Prop := ∀ c ∈ m, c = CK.Cn.allOf ∨ c = CK.Cn.any

theorem noEmail_ne {spec : RulesF.LitSpecF} (h : noEmail spec = true) : ∀ r ∈ spec.rules, r ≠ .fmt .email := by
  intro r hr e
  have := List.all_eq_true.1 h r hr
  rw [e] at this
  simp at this

theorem cnOfRule_ty (ex : List UInt8) (r : RulesF.Rule) : (cnOfRule ex r).ty ≠ 19 ∧ (cnOfRule ex r).ty ≠ 8 := by
  cases r with
  | fmt f => cases f <;> constructor <;> simp [cnOfRule, CK.Cn.ty]
  | _ => constructor <;> simp [cnOfRule, CK.Cn.ty]

theorem hasTy_append (a b : List CK.Cn) (t : Nat) : CK.hasTy (a ++ b) t = (CK.hasTy a t || CK.hasTy b t) := by
  unfold CK.hasTy
  rw [List.any_append]

theorem hasTy_marker {m : List CK.Cn} (hm : Marker m) (t : Nat) (h17 : t ≠ 17) (h18 : t ≠ 18) : CK.hasTy m t = false := by
  unfold CK.hasTy
  rw [List.any_eq_false]
  intro c hc
  rcases hm c hc with rfl | rfl
  · simp [CK.Cn.ty]; omega
  · simp [CK.Cn.ty]; omega

theorem hasTy19_litCs (spec : RulesF.LitSpecF) : CK.hasTy (litCs spec) 19 = spec.nul := by
  unfold litCs
  rw [hasTy_append]
  have h2 : CK.hasTy (spec.rules.map (cnOfRule spec.ex)) 19 = false := by
    unfold CK.hasTy
    rw [List.any_eq_false]
    intro c hc
    obtain ⟨r, _, rfl⟩ := List.mem_map.1 hc
    simpa using (cnOfRule_ty spec.ex r).1
  rw [h2]
  cases spec.nul <;> rfl

theorem nullableValue_append_marker {m : List CK.Cn} (hm : Marker m) : (cs : List CK.Cn) →
    CK.nullableValue (cs ++ m) = CK.nullableValue cs
  | [] => by
    induction m with
    | nil => rfl
    | cons c m ih =>
      have hm' : Marker m := fun x hx => hm x (List.mem_cons_of_mem _ hx)
      rcases hm c List.mem_cons_self with rfl | rfl
      · exact ih hm'
      · exact ih hm'
  | c :: cs => by
    have ih := nullableValue_append_marker hm cs
    cases c <;> first | exact ih | rfl

theorem typesList_append_none : (a b : List CK.Cn) → CK.typesList? a = none → CK.typesList? (a ++ b) = CK.typesList? b
  | [], _, _ => rfl
  | c :: a, b, h => by
    cases c <;> first | exact typesList_append_none a b h | (simp [CK.typesList?] at h)

theorem typesList_marker {m : List CK.Cn} (hm : Marker m) : CK.typesList? m = none := by
  induction m with
  | nil => rfl
  | cons c m ih =>
    have hm' : Marker m := fun x hx => hm x (List.mem_cons_of_mem _ hx)
    rcases hm c List.mem_cons_self with rfl | rfl
    · exact ih hm'
    · exact ih hm'

/-- the validators of a literal node with marker constraints behind them -/
theorem validators_agree_m (ex tok : List UInt8) (hen : (RulesF.enumItem tok).isSome = true) (nul : Bool)
    (rs : List RulesF.Rule) (hne : ∀ r ∈ rs, r ≠ .fmt .email) (m : List CK.Cn) (hm : Marker m) :
    ((CK.sortedCs (nulCs nul ++ rs.map (cnOfRule ex) ++ m)).findSome? (CK.cnValidate noOracles tok)).map codeOfPanic =
      pickMin ((rs.filter fun r => !RulesF.ruleOK noOracles ex tok r).map (codeR tok)) := by
  rw [map_findSome]
  unfold CK.sortedCs
  rw [findSome_flatMap]
  have : (fun t => ((nulCs nul ++ rs.map (cnOfRule ex) ++ m).filter (fun c => c.ty == t)).findSome?
        (fun c => (CK.cnValidate noOracles tok c).map codeOfPanic)) =
      (fun t => (((rs.filter fun r => !RulesF.ruleOK noOracles ex tok r).map (codeR tok)).find? (fun kv => kv.1 == t)).map (·.2)) :=
    funext fun t => by
      rw [List.filter_append, List.findSome?_append, filter_find_nul ex tok hen t nul rs hne]
      have : (m.filter fun c => c.ty == t).findSome? (fun c => (CK.cnValidate noOracles tok c).map codeOfPanic) = none := by
        rw [List.findSome?_eq_none_iff]
        intro c hc
        rcases hm c (List.mem_filter.1 hc).1 with rfl | rfl <;> rfl
      rw [this]
      simp
  rw [this]
  exact select_eq _ (fun x hx => by
    obtain ⟨r, _, rfl⟩ := List.mem_map.1 hx
    exact codeR_lt tok r)

theorem gate_kinds (d k : Rules.Kind) (nul : Bool) :
    (CK.jtOfKind d == jtOf (JT.ofKind k) || (CK.jtOfKind d == CK.JT.integer && jtOf (JT.ofKind k) == CK.JT.float)
        || (CK.jtOfKind d == CK.JT.null && nul)) =
      (d == k || (d == .i && k == .f) || (d == .n && nul)) := by
  cases d <;> cases k <;> cases nul <;> rfl

/-- **a token against the validator of another node**: (C)'s `ValidateLiteralValue` on the dumped constraint map of a
literal (or `any`) type root and (A)'s `litErr` fail together, with the same code -/
theorem lit_tok (spec : RulesF.LitSpecF) (tok : List UInt8) (d : Rules.Kind) (hd : RulesF.kindOfTok tok = some d)
    (hen : (RulesF.enumItem tok).isSome = true) (hne : noEmail spec = true) (m : List CK.Cn) (hm : Marker m) :
    (CK.validateLiteralValue noOracles (jtOf (JT.ofKind spec.kind)) (litCs spec ++ m) tok).map codeOfPanic
      = litErr spec tok := by
  have hne' := noEmail_ne hne
  have h15 : CK.hasTy (litCs spec ++ m) 15 = RulesF.hasEnum spec := by
    rw [hasTy_append, hasEnum_litCs, hasTy_marker hm 15 (by omega) (by omega), Bool.or_false]
  have h19 : CK.hasTy (litCs spec ++ m) 19 = spec.nul := by
    rw [hasTy_append, hasTy19_litCs, hasTy_marker hm 19 (by omega) (by omega), Bool.or_false]
  have hcne : CK.checkNotAnEnum (jtOf (JT.ofKind spec.kind)) (litCs spec ++ m) tok =
      if RulesF.kindGate spec tok then none else some (.raw 210) := by
    unfold CK.checkNotAnEnum CK.literalJsonType RulesF.kindGate
    rw [h15, h19, hd]
    cases RulesF.hasEnum spec
    · simp only [Bool.false_eq_true, if_false, Bool.false_or, gate_kinds]
    · simp
  have hval := validators_agree_m spec.ex tok hen spec.nul spec.rules hne' m hm
  rw [litErr_eq]
  unfold CK.validateLiteralValue RulesF.litOKFull
  rw [hcne, nullableValue_append_marker hm, nullableValue_litCs]
  cases hgate : RulesF.kindGate spec tok
  · simp [codeOfPanic]
  · simp only [if_true, Bool.true_and, Bool.not_true, Bool.false_eq_true, if_false]
    cases hnl : (spec.nul && tok == RulesF.sNull)
    · simp only [Bool.false_eq_true, if_false, Bool.false_or]
      show ((CK.sortedCs (litCs spec ++ m)).findSome? (CK.cnValidate noOracles tok)).map codeOfPanic = _
      unfold litCs
      rw [hval]
      cases hall : spec.rules.all (RulesF.ruleOK noOracles spec.ex tok)
      · simp only [Bool.false_eq_true, if_false]
        cases hL : (spec.rules.filter fun r => !RulesF.ruleOK noOracles spec.ex tok r).map (codeR tok) with
        | nil =>
          exfalso
          have : (spec.rules.filter fun r => !RulesF.ruleOK noOracles spec.ex tok r) = [] := by
            cases h : (spec.rules.filter fun r => !RulesF.ruleOK noOracles spec.ex tok r) with
            | nil => rfl
            | cons a b => rw [h] at hL; simp at hL
          rw [List.filter_eq_nil_iff] at this
          have : spec.rules.all (RulesF.ruleOK noOracles spec.ex tok) = true := by
            rw [List.all_eq_true]
            intro r hr
            have := this r hr
            simpa using this
          rw [hall] at this
          cases this
        | cons f fs => rfl
      · simp only [if_true]
        have : (spec.rules.filter fun r => !RulesF.ruleOK noOracles spec.ex tok r) = [] := by
          rw [List.filter_eq_nil_iff]
          intro r hr
          have := List.all_eq_true.1 hall r hr
          simp [this]
        rw [this]
        rfl
    · simp [hnl]

end BridgeCK
