import JSight.SchemaLenStep
/-!
Runs of the schema scanner model over white space, tokens, and the closing phase after a value, for an arbitrary
`lengthComputing` flag, as `Path`s (the lemmas of `SchemaEventsRun` restated; same proofs).
-/
namespace SchemaScan
namespace Len

variable {lc : Bool} {data : Array Cls}

theorem S_start_scalar {c : Cls} {st0 : St} {u0 : Bool} (h : litStart c = some (st0, u0)) (ctx : VCtx)
    (K : List (LexT × Nat)) (o : Nat) (CS : List Ctx) (cx : Ctx) (al : Bool) (hc : data[o]? = some c) :
    Path data (cfgL lc ctx.st [] K false o CS cx al) (ctx.preEvs o ++ [⟨.litB, o, o⟩])
      (cfgL lc st0 [] ((.litB, o) :: (ctx.pre o ++ K)) u0 (o + 1) CS (ctx.cx' cx) al) := by
  refine cfg_byte hc (fun p1 p2 => start_scalar_d 7 c st0 u0 h ctx K (o + 1) CS cx al p1 p2) rfl ?_
  cases ctx <;> rfl

theorem S_start_array (ctx : VCtx)
    (K : List (LexT × Nat)) (o : Nat) (CS : List Ctx) (cx : Ctx) (al : Bool) (hc : data[o]? = some .lbrack) :
    Path data (cfgL lc ctx.st [] K false o CS cx al) (ctx.preEvs o ++ [⟨.arrB, o, o⟩])
      (cfgL lc .arrItemOrEmpty [] ((.arrB, o) :: (ctx.pre o ++ K)) false (o + 1) (ctx.cx' cx :: CS) { ty := .array } al) := by
  refine cfg_byte hc (fun p1 p2 => start_array_d 7 ctx K (o + 1) CS cx al p1 p2) rfl ?_
  cases ctx <;> rfl

theorem S_start_object (ctx : VCtx)
    (K : List (LexT × Nat)) (o : Nat) (CS : List Ctx) (cx : Ctx) (al : Bool) (hc : data[o]? = some .lbrace) :
    Path data (cfgL lc ctx.st [] K false o CS cx al) (ctx.preEvs o ++ [⟨.objB, o, o⟩])
      (cfgL lc .objKeyOrEmpty [] ((.objB, o) :: (ctx.pre o ++ K)) false (o + 1) (ctx.cx' cx :: CS) { ty := .object } al) := by
  refine cfg_byte hc (fun p1 p2 => start_object_d 7 ctx K (o + 1) CS cx al p1 p2) rfl ?_
  cases ctx <;> rfl

theorem S_key_start {st : St} (h : keySt st = true)
    (K : List (LexT × Nat)) (o : Nat) (CS : List Ctx) (cx : Ctx) (al : Bool) (hc : data[o]? = some .quote) :
    Path data (cfgL lc st [] K false o CS cx al) [⟨.keyB, o, o⟩]
      (cfgL lc .inString [] ((.keyB, o) :: K) false (o + 1) CS cx (keyAl st al)) :=
  cfg_byte hc (fun p1 p2 => key_start_d 7 st h K (o + 1) CS cx al p1 p2) rfl rfl

theorem S_empty_arr (a : Nat)
    (K : List (LexT × Nat)) (j : Nat) (c0 : Ctx) (CS : List Ctx) (cx : Ctx) (al : Bool) (hc : data[j]? = some .rbrack) :
    Path data (cfgL lc .arrItemOrEmpty [] ((.arrB, a) :: K) false j (c0 :: CS) cx al) [⟨.arrE, a, j⟩]
      (cfgL lc .endValue [] K false (j + 1) CS c0 (!cx.arrayHasItem)) :=
  cfg_byte hc (fun p1 p2 => empty_arr_d 7 (.arrB, a) K (j + 1) c0 CS cx al p1 p2) rfl rfl

theorem S_empty_obj (a : Nat)
    (K : List (LexT × Nat)) (j : Nat) (c0 : Ctx) (CS : List Ctx) (cx : Ctx) (al : Bool) (hc : data[j]? = some .rbrace) :
    Path data (cfgL lc .objKeyOrEmpty [] ((.objB, a) :: K) false j (c0 :: CS) cx al) [⟨.objE, a, j⟩]
      (cfgL lc .endValue [] K false (j + 1) CS c0 true) :=
  cfg_byte hc (fun p1 p2 => empty_obj_d 7 ((.objB, a) :: K) (j + 1) c0 CS cx al p1 p2) rfl rfl

/-- a byte read in a post-value state -/
theorem pv_byte {st : St} (hst : PV st = true) {c : Cls} (hd : c.isDelim = true)
    {K : List (LexT × Nat)} {i : Nat} {CS : List Ctx} {cx : Ctx} {al : Bool} {s1 s2 : Sc} {evs : List Ev}
    (hc : data[i]? = some c)
    (he : ∀ p1 p2, endValue 7 (cfgL lc st [] K false (i + 1) CS cx al) c p1 p2 = .ok s1)
    (hi : s1.index = i + 1) (hdr : drainL data s1.finds s1 = .ok (s2, evs)) :
    Path data (cfgL lc st [] K false i CS cx al) evs s2 :=
  cfg_byte hc (fun p1 p2 => (pv_dispatch 7 st hst c hd _ p1 p2).trans (he p1 p2)) hi hdr

theorem S_close_sp {st : St} (hst : PV st = true) {c : Cls} (hs : c.isSpTab = true) (lit : Bool) (ck : CK) (b b2 : Nat)
    (R : List (LexT × Nat)) (i : Nat) (CS : List Ctx) (cx : Ctx) (al : Bool) (hc : data[i]? = some c) :
    Path data (cfgL lc st [] (pendOf lit b ++ (ck.B, b2) :: R) false i CS cx al) (closersOf lit ck b b2 (i - 1))
      (cfgL lc ck.aft [] R false (i + 1) CS cx al) := by
  have haft : wsLoop ck.aft = true := by cases ck <;> rfl
  refine pv_byte hst (by cases c <;> simp [Cls.isSpTab] at hs <;> rfl) hc
    (fun p1 p2 => (ev_close 7 st lit ck b b2 R (i + 1) CS cx al c p1 p2).trans
      (loop_sp 6 ck.aft haft c hs _ (i + 1) CS cx al _ p1 p2)) rfl ?_
  cases lit <;> cases ck <;> rfl

theorem S_close_nl {st : St} (hst : PV st = true) (lit : Bool) (ck : CK) (b b2 : Nat)
    (R : List (LexT × Nat)) (i : Nat) (CS : List Ctx) (cx : Ctx) (al : Bool) (hc : data[i]? = some .nl) :
    Path data (cfgL lc st [] (pendOf lit b ++ (ck.B, b2) :: R) false i CS cx al)
      (closersOf lit ck b b2 (i - 1) ++ [⟨.newLine, i, i⟩])
      (cfgL lc ck.aft [] R false (i + 1) CS cx al) := by
  have haft : wsLoop ck.aft = true := by cases ck <;> rfl
  refine pv_byte hst rfl hc
    (fun p1 p2 => (ev_close 7 st lit ck b b2 R (i + 1) CS cx al .nl p1 p2).trans
      (loop_nl 6 ck.aft haft _ (i + 1) CS cx al _ p1 p2)) rfl ?_
  cases lit <;> cases ck <;> rfl

theorem S_close_sep {st : St} (hst : PV st = true) (lit : Bool) (ck : CK) (b b2 : Nat)
    (R : List (LexT × Nat)) (i : Nat) (CS : List Ctx) (cx : Ctx) (al : Bool) (hc : data[i]? = some ck.sep) :
    Path data (cfgL lc st [] (pendOf lit b ++ (ck.B, b2) :: R) false i CS cx al) (closersOf lit ck b b2 (i - 1))
      (cfgL lc ck.nxt [] R false (i + 1) CS cx al) := by
  refine pv_byte hst (by cases ck <;> rfl) hc
    (fun p1 p2 => (ev_close 7 st lit ck b b2 R (i + 1) CS cx al ck.sep p1 p2).trans
      (aft_sep 6 ck _ (i + 1) CS cx al _ p1 p2)) rfl ?_
  cases lit <;> cases ck <;> rfl

theorem S_close_rbrack {st : St} (hst : PV st = true) (lit : Bool) (b b2 a : Nat)
    (K : List (LexT × Nat)) (i : Nat) (c0 : Ctx) (CS : List Ctx) (cx : Ctx) (al : Bool) (hc : data[i]? = some .rbrack) :
    Path data (cfgL lc st [] (pendOf lit b ++ (.itemB, b2) :: (.arrB, a) :: K) false i (c0 :: CS) cx al)
      (closersOf lit .item b b2 (i - 1) ++ [⟨.arrE, a, i⟩])
      (cfgL lc .endValue [] K false (i + 1) CS c0 (!cx.arrayHasItem)) := by
  cases lit
  · exact pv_byte hst rfl hc
      (fun p1 p2 => (ev_close 7 st false .item b b2 _ (i + 1) (c0 :: CS) cx al .rbrack p1 p2).trans
        (aft_rbrack 6 _ _ (i + 1) c0 CS cx al _ p1 p2)) rfl rfl
  · exact pv_byte hst rfl hc
      (fun p1 p2 => (ev_close 7 st true .item b b2 _ (i + 1) (c0 :: CS) cx al .rbrack p1 p2).trans
        (aft_rbrack 6 _ _ (i + 1) c0 CS cx al _ p1 p2)) rfl rfl

theorem S_close_rbrace {st : St} (hst : PV st = true) (lit : Bool) (b b2 a : Nat)
    (K : List (LexT × Nat)) (i : Nat) (c0 : Ctx) (CS : List Ctx) (cx : Ctx) (al : Bool) (hc : data[i]? = some .rbrace) :
    Path data (cfgL lc st [] (pendOf lit b ++ (.valB, b2) :: (.objB, a) :: K) false i (c0 :: CS) cx al)
      (closersOf lit .val b b2 (i - 1) ++ [⟨.objE, a, i⟩])
      (cfgL lc .endValue [] K false (i + 1) CS c0 al) := by
  cases lit
  · exact pv_byte hst rfl hc
      (fun p1 p2 => (ev_close 7 st false .val b b2 _ (i + 1) (c0 :: CS) cx al .rbrace p1 p2).trans
        (aft_rbrace 6 _ (i + 1) c0 CS cx al _ p1 p2)) rfl rfl
  · exact pv_byte hst rfl hc
      (fun p1 p2 => (ev_close 7 st true .val b b2 _ (i + 1) (c0 :: CS) cx al .rbrace p1 p2).trans
        (aft_rbrace 6 _ (i + 1) c0 CS cx al _ p1 p2)) rfl rfl

theorem S_aft_sep (ck : CK)
    (R : List (LexT × Nat)) (i : Nat) (CS : List Ctx) (cx : Ctx) (al : Bool) (hc : data[i]? = some ck.sep) :
    Path data (cfgL lc ck.aft [] R false i CS cx al) [] (cfgL lc ck.nxt [] R false (i + 1) CS cx al) :=
  cfg_byte hc (fun p1 p2 => aft_sep 7 ck R (i + 1) CS cx al [] p1 p2) rfl rfl

theorem S_aft_rbrack (a : Nat)
    (K : List (LexT × Nat)) (i : Nat) (c0 : Ctx) (CS : List Ctx) (cx : Ctx) (al : Bool) (hc : data[i]? = some .rbrack) :
    Path data (cfgL lc .afterItem [] ((.arrB, a) :: K) false i (c0 :: CS) cx al) [⟨.arrE, a, i⟩]
      (cfgL lc .endValue [] K false (i + 1) CS c0 (!cx.arrayHasItem)) :=
  cfg_byte hc (fun p1 p2 => aft_rbrack 7 _ K (i + 1) c0 CS cx al [] p1 p2) rfl rfl

theorem S_aft_rbrace (a : Nat)
    (K : List (LexT × Nat)) (i : Nat) (c0 : Ctx) (CS : List Ctx) (cx : Ctx) (al : Bool) (hc : data[i]? = some .rbrace) :
    Path data (cfgL lc .afterValue [] ((.objB, a) :: K) false i (c0 :: CS) cx al) [⟨.objE, a, i⟩]
      (cfgL lc .endValue [] K false (i + 1) CS c0 al) :=
  cfg_byte hc (fun p1 p2 => aft_rbrace 7 _ (i + 1) c0 CS cx al [] p1 p2) rfl rfl

theorem S_root_sp {st : St} (hst : PV st = true) {c : Cls} (hs : c.isSpTab = true) (lit : Bool) (b : Nat)
    (i : Nat) (CS : List Ctx) (cx : Ctx) (al : Bool) (hc : data[i]? = some c) :
    Path data (cfgL lc st [] (pendOf lit b) false i CS cx al) (rootClosers lit b (i - 1))
      (cfgL lc .endTop [] [] false (i + 1) CS cx al) := by
  refine pv_byte hst (by cases c <;> simp [Cls.isSpTab] at hs <;> rfl) hc
    (fun p1 p2 => (ev_root 7 st lit b (i + 1) CS cx al c p1 p2).trans
      (loop_sp 6 .endTop rfl c hs _ (i + 1) CS cx al _ p1 p2)) rfl ?_
  cases lit <;> rfl

theorem S_root_nl {st : St} (hst : PV st = true) (lit : Bool) (b : Nat)
    (i : Nat) (CS : List Ctx) (cx : Ctx) (al : Bool) (hc : data[i]? = some .nl) :
    Path data (cfgL lc st [] (pendOf lit b) false i CS cx al) (rootClosers lit b (i - 1) ++ [⟨.newLine, i, i⟩])
      (cfgL lc .endTop [] [] false (i + 1) CS cx al) := by
  refine pv_byte hst rfl hc
    (fun p1 p2 => (ev_root 7 st lit b (i + 1) CS cx al .nl p1 p2).trans
      (loop_nl 6 .endTop rfl _ (i + 1) CS cx al _ p1 p2)) rfl ?_
  cases lit <;> rfl

theorem ws_run : ∀ (ws : List Cls), IsWs ws → ∀ (st : St), wsLoop st = true →
    ∀ (K : List (LexT × Nat)) (i : Nat) (CS : List Ctx) (cx : Ctx) (al : Bool), At data i ws →
    ∃ al', Path data (cfgL lc st [] K false i CS cx al) (nlEvs i ws) (cfgL lc (wsSt st ws) [] K false (i + ws.length) CS cx al')
  | [], _, st, _, K, i, CS, cx, al, _ => ⟨al, Path.refl _⟩
  | c :: ws, hw, st, hl, K, i, CS, cx, al, hat => by
    obtain ⟨hc, hat'⟩ := hat
    rcases blank_cases hw.head with hs | rfl
    · obtain ⟨al', ih⟩ := ws_run ws hw.tail st hl K (i + 1) CS cx al hat'
      refine ⟨al', ?_⟩
      have h1 := S_sp (lc := lc) hl hs K i CS cx al hc
      have := Path.trans h1 ih
      simp only [nlEvs, wsSt, if_neg (sptab_ne_nl hs), List.nil_append, List.length_cons]
      rw [show i + (ws.length + 1) = i + 1 + ws.length by omega]
      exact this
    · obtain ⟨al', ih⟩ := ws_run ws hw.tail (nlSt st) (wsLoop_nlSt hl) K (i + 1) CS cx (nlAl st al) hat'
      refine ⟨al', ?_⟩
      have h1 := S_nl (lc := lc) hl K i CS cx al hc
      have := Path.trans h1 ih
      simp only [nlEvs, wsSt, if_true, List.length_cons]
      rw [show i + (ws.length + 1) = i + 1 + ws.length by omega]
      exact this

theorem tok_run : ∀ (tok : List Cls) (st : St) (r : List St) (u : Bool) (st' : St) (r' : List St) (u' : Bool),
    silentRun st r u tok = some (st', r', u') →
    ∀ (K : List (LexT × Nat)) (i : Nat) (CS : List Ctx) (cx : Ctx) (al : Bool), At data i tok →
    Path data (cfgL lc st r K u i CS cx al) [] (cfgL lc st' r' K u' (i + tok.length) CS cx al)
  | [], st, r, u, st', r', u', h, K, i, CS, cx, al, _ => by
    simp only [silentRun, Option.some.injEq, Prod.mk.injEq] at h
    obtain ⟨rfl, rfl, rfl⟩ := h
    exact Path.refl _
  | c :: cs, st, r, u, st', r', u', h, K, i, CS, cx, al, hat => by
    obtain ⟨hc, hat'⟩ := hat
    simp only [silentRun] at h
    cases hs : silent st r u c with
    | none => rw [hs] at h; cases h
    | some p =>
      obtain ⟨s1, r1, u1⟩ := p
      rw [hs] at h
      have h1 := S_silent (lc := lc) hs K i CS cx al hc
      have h2 := tok_run cs s1 r1 u1 st' r' u' h K (i + 1) CS cx al hat'
      have := Path.trans h1 h2
      simp only [List.length_cons]
      rw [show i + (cs.length + 1) = i + 1 + cs.length by omega]
      exact this

/-- non-empty white space after a value: the pending pairs are closed by its first byte -/
theorem close_ws {st : St} (hst : PV st = true) (lit : Bool) (ck : CK) (b b2 : Nat) (R : List (LexT × Nat))
    (c : Cls) (w : List Cls) (hw : IsWs (c :: w)) (i : Nat) (CS : List Ctx) (cx : Ctx) (al : Bool)
    (hat : At data i (c :: w)) :
    ∃ al', Path data (cfgL lc st [] (pendOf lit b ++ (ck.B, b2) :: R) false i CS cx al)
      (closersOf lit ck b b2 (i - 1) ++ nlEvs i (c :: w)) (cfgL lc ck.aft [] R false (i + (w.length + 1)) CS cx al') := by
  obtain ⟨hc, hat'⟩ := hat
  have haft : wsLoop ck.aft = true := by cases ck <;> rfl
  obtain ⟨al', h2⟩ := ws_run (lc := lc) w hw.tail ck.aft haft R (i + 1) CS cx al hat'
  rw [wsSt_eq (aft_ne_objKey ck)] at h2
  refine ⟨al', ?_⟩
  rw [show i + (w.length + 1) = i + 1 + w.length by omega]
  rcases blank_cases hw.head with hs | rfl
  · have h1 := S_close_sp (lc := lc) hst hs lit ck b b2 R i CS cx al hc
    simp only [nlEvs, if_neg (sptab_ne_nl hs), List.nil_append]
    exact Path.trans h1 h2
  · have h1 := S_close_nl (lc := lc) hst lit ck b b2 R i CS cx al hc
    simp only [nlEvs, if_true]
    rw [← List.append_assoc]
    exact Path.trans h1 h2

/-- white space, then the separator (`,` after an item or a member, `:` after a key) -/
theorem close_sep {st : St} (hst : PV st = true) (lit : Bool) (ck : CK) (b b2 : Nat) (R : List (LexT × Nat))
    (w : List Cls) (hw : IsWs w) (i : Nat) (CS : List Ctx) (cx : Ctx) (al : Bool)
    (hat : At data i (w ++ [ck.sep])) :
    ∃ al', Path data (cfgL lc st [] (pendOf lit b ++ (ck.B, b2) :: R) false i CS cx al)
      (closersOf lit ck b b2 (i - 1) ++ nlEvs i w) (cfgL lc ck.nxt [] R false (i + w.length + 1) CS cx al') := by
  cases w with
  | nil =>
    refine ⟨al, ?_⟩
    simp only [nlEvs, List.append_nil, List.length_nil, Nat.add_zero]
    exact S_close_sep hst lit ck b b2 R i CS cx al hat.1
  | cons c w =>
    rw [At_append] at hat
    obtain ⟨al', h1⟩ := close_ws (lc := lc) hst lit ck b b2 R c w hw i CS cx al hat.1
    have h2 := S_aft_sep (lc := lc) ck R (i + (w.length + 1)) CS cx al' hat.2.1
    refine ⟨al', ?_⟩
    have := Path.trans h1 h2
    rw [List.append_nil] at this
    exact this

/-- white space, then `]` -/
theorem close_rbrack {st : St} (hst : PV st = true) (lit : Bool) (b b2 a : Nat) (K : List (LexT × Nat))
    (w : List Cls) (hw : IsWs w) (i : Nat) (c0 : Ctx) (CS : List Ctx) (cx : Ctx) (al : Bool)
    (hat : At data i (w ++ [.rbrack])) :
    ∃ al', Path data (cfgL lc st [] (pendOf lit b ++ (.itemB, b2) :: (.arrB, a) :: K) false i (c0 :: CS) cx al)
      (closersOf lit .item b b2 (i - 1) ++ (nlEvs i w ++ [⟨.arrE, a, i + w.length⟩]))
      (cfgL lc .endValue [] K false (i + w.length + 1) CS c0 al') := by
  cases w with
  | nil =>
    refine ⟨!cx.arrayHasItem, ?_⟩
    simp only [nlEvs, List.nil_append, List.length_nil, Nat.add_zero]
    exact S_close_rbrack hst lit b b2 a K i c0 CS cx al hat.1
  | cons c w =>
    rw [At_append] at hat
    obtain ⟨al', h1⟩ := close_ws (lc := lc) hst lit .item b b2 ((.arrB, a) :: K) c w hw i (c0 :: CS) cx al hat.1
    have h2 := S_aft_rbrack (lc := lc) a K (i + (w.length + 1)) c0 CS cx al' hat.2.1
    refine ⟨!cx.arrayHasItem, ?_⟩
    have := Path.trans h1 h2
    rw [List.append_assoc] at this
    exact this

/-- white space, then `}` -/
theorem close_rbrace {st : St} (hst : PV st = true) (lit : Bool) (b b2 a : Nat) (K : List (LexT × Nat))
    (w : List Cls) (hw : IsWs w) (i : Nat) (c0 : Ctx) (CS : List Ctx) (cx : Ctx) (al : Bool)
    (hat : At data i (w ++ [.rbrace])) :
    ∃ al', Path data (cfgL lc st [] (pendOf lit b ++ (.valB, b2) :: (.objB, a) :: K) false i (c0 :: CS) cx al)
      (closersOf lit .val b b2 (i - 1) ++ (nlEvs i w ++ [⟨.objE, a, i + w.length⟩]))
      (cfgL lc .endValue [] K false (i + w.length + 1) CS c0 al') := by
  cases w with
  | nil =>
    refine ⟨al, ?_⟩
    simp only [nlEvs, List.nil_append, List.length_nil, Nat.add_zero]
    exact S_close_rbrace hst lit b b2 a K i c0 CS cx al hat.1
  | cons c w =>
    rw [At_append] at hat
    obtain ⟨al', h1⟩ := close_ws (lc := lc) hst lit .val b b2 ((.objB, a) :: K) c w hw i (c0 :: CS) cx al hat.1
    have h2 := S_aft_rbrace (lc := lc) a K (i + (w.length + 1)) c0 CS cx al' hat.2.1
    refine ⟨al', ?_⟩
    have := Path.trans h1 h2
    rw [List.append_assoc] at this
    exact this

end Len
end SchemaScan
