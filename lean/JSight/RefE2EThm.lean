import JSight.RefE2E
import JSight.RefE2ESpec
import JSight.E2EShape
/-!
C03 at TEXT level: the specification of the validator machine (`VK.shape`) on the validator schema of a tree with
shortcut leaves and the table of the added types IS the union specification `RE.Admits`:

* `shape_fix`: `VK.shape` satisfies the step equation of the specification (`C03_ref_union`, `C03_ref_single`, the
  unknown name, the non-reference positions);
* `sound`: what the iterated step admits, the validator accepts (induction on the fuel);
* `complete`: what the validator accepts is admitted with some fuel (induction on the document; inside a position on
  the chain of references `VK.RNV` the depth-first expansion follows).
-/
namespace RE
open SE (BST BItem BMember TypeText namesOf cnOf typesOf typeTexts docText TextOK TypesOK)
open Compile

variable {L D : Type}

/-! ### general facts about `VK.shape` -/

theorem shape_nonref (env : VK.Env L) (litOK : L → D → Bool) (kOK : String → String → Bool) (s : VK.S L)
    (h : VK.isRef s = false) (d : VN.J D) : VK.shape env litOK kOK s d = VK.shapeA env litOK kOK s d := by
  unfold VK.shape VK.alts
  rw [VK.build_nonref env _ _ h]
  simp

theorem shapeItems_zip (env : VK.Env L) (litOK : L → D → Bool) (kOK : String → String → Bool) (items : List (VK.S L)) :
    (xs : List (VN.J D)) → (i : Nat) →
    VK.shapeItems env litOK kOK items i xs = (xs.zipIdx i).all (fun p => match VK.childAt items p.2 with
      | some s => VK.shape env litOK kOK s p.1
      | none => false)
  | [], _ => by simp [VK.shapeItems]
  | x :: xs, i => by
    simp only [VK.shapeItems, List.zipIdx_cons, List.all_cons, shapeItems_zip env litOK kOK items xs (i + 1)]
    rfl

theorem shapeMembers_all (env : VK.Env L) (litOK : L → D → Bool) (kOK : String → String → Bool)
    (props : List (String × Bool × VK.S L)) : (ms : List (String × VN.J D)) → (req : List String) →
    VK.shapeMembers env litOK kOK props [] .none req [] ms =
      ((ms.all fun m => match VK.lookup props m.1 with
          | some s => VK.shape env litOK kOK s m.2
          | none => false) &&
        req.all (fun r => ms.any (fun m => m.1 == r)))
  | [], req => by simp [VK.shapeMembers, E2E.all_false_isEmpty]
  | (k, x) :: ms, req => by
    simp only [VK.shapeMembers, List.all_cons]
    cases h : VK.lookup props k with
    | none => simp [VK.pickShort, VK.addDecide]
    | some s =>
      simp only [shapeMembers_all env litOK kOK props ms (req.filter (· != k)), E2E.filter_all, VK.shape,
        List.any_cons, Bool.and_assoc]

theorem nulAccepts_none (litOK : L → D → Bool) (d : VN.J D) : ORS.nulAccepts litOK none d = false := by
  cases d <;> rfl

/-! ### the validator schema of a tree -/

theorem vkItems_eq_map (opt : Bool) : (its : List BItem) → vkItems opt its = its.map (fun it => vkOf opt it.2.1)
  | [] => rfl
  | (_, v, _) :: its => by simp [vkItems, vkItems_eq_map opt its]

theorem childAt_vk (opt : Bool) (its : List BItem) (i : Nat) :
    VK.childAt (vkItems opt its) i = (childAtB its i).map (vkOf opt) := by
  rw [vkItems_eq_map]
  cases its with
  | nil => rfl
  | cons v vs =>
    simp only [VK.childAt, childAtB, List.map_cons, List.length_cons, List.length_map]
    have e : vkOf opt v.2.1 :: List.map (fun it => vkOf opt it.2.1) vs
        = (v :: vs).map (fun it : BItem => vkOf opt it.2.1) := rfl
    rw [e, List.getElem?_map, Option.map_map]
    rfl

theorem lookup_vk (opt : Bool) : (ms : List BMember) → (k : String) →
    VK.lookup (vkMembers opt ms) k = (lookupM ms k).map (vkOf opt)
  | [], _ => rfl
  | (_, k', _, _, v, _) :: ms, k => by
    have ih := lookup_vk opt ms k
    simp only [VK.lookup, lookupM, vkMembers, List.find?_cons] at ih ⊢
    cases h : E2E.keyOf k' == k <;> simp [ih]

theorem requiredKeys_vk (opt : Bool) : (ms : List BMember) →
    VK.requiredKeys (vkMembers opt ms) = if opt then [] else keysM ms
  | [] => by cases opt <;> rfl
  | (_, k, _, _, v, _) :: ms => by
    have ih := requiredKeys_vk opt ms
    simp only [VK.requiredKeys, vkMembers, keysM, List.filter_cons, List.map_cons] at ih ⊢
    cases opt <;> simp_all

theorem lookupT_envB : (tys : List TypeText) → (n : String) →
    VK.lookupT (envB tys) n = (lookupB tys n).map (vkOf false)
  | [], _ => rfl
  | x :: rest, n => by
    have ih := lookupT_envB rest n
    simp only [envB, List.map_cons, VK.lookupT, lookupB, List.find?_cons] at ih ⊢
    cases h : x.1 == n <;> simp_all

/-! ### the step equation -/

/-- what the validator's specification says about a tree at a document -/
abbrev acc (tys : List TypeText) (kOK : String → String → Bool) (o : Bool) (t : BST) (d : Doc) : Bool :=
  VK.shape (envB tys) litOK kOK (vkOf o t) d

theorem shape_fix (tys : List TypeText) (kOK : String → String → Bool) (opt : Bool) (t : BST) (d : Doc) :
    acc tys kOK opt t d = stepA tys (acc tys kOK) opt t d := by
  cases t with
  | short f as sps =>
    simp only [acc, vkOf, stepA]
    rw [ORS.shape_ref_union, nulAccepts_none, Bool.or_false]
    congr 1
    funext n
    cases h : lookupB tys n with
    | none => exact ORS.shape_ref_unknown _ _ _ n (by rw [lookupT_envB, h]; rfl) d
    | some t' => exact ORS.shape_ref_single _ _ _ n (vkOf false t') (by rw [lookupT_envB, h]; rfl) d
  | scalar tok =>
    simp only [acc]
    rw [shape_nonref _ _ _ _ rfl]
    cases d <;> simp [vkOf, stepA, VK.shapeA, litOK, E2E.litOK_plain]
  | arr w its =>
    simp only [acc]
    rw [shape_nonref _ _ _ _ rfl]
    cases d with
    | arr xs =>
      simp only [vkOf, VK.shapeA, stepA, shapeItems_zip, childAt_vk]
      congr 1
      funext p
      cases childAtB its p.2 <;> rfl
    | lit x => simp [vkOf, stepA, VK.shapeA]
    | obj dms => simp [vkOf, stepA, VK.shapeA]
  | obj w ms =>
    simp only [acc]
    rw [shape_nonref _ _ _ _ rfl]
    cases d with
    | obj dms =>
      simp only [vkOf, VK.shapeA, stepA, VK.requiredKeys, List.filter_nil, List.map_nil, List.append_nil]
      have hr := requiredKeys_vk opt ms
      simp only [VK.requiredKeys] at hr
      rw [shapeMembers_all, hr]
      congr 1
      · congr 1
        funext m
        rw [lookup_vk]
        cases lookupM ms m.1 <;> rfl
      · cases opt <;> simp
    | lit x => simp [vkOf, stepA, VK.shapeA]
    | arr xs => simp [vkOf, stepA, VK.shapeA]

/-! ### monotonicity, soundness -/

theorem stepA_mono (tys : List TypeText) (r r' : Bool → BST → Doc → Bool)
    (h : ∀ o t d, r o t d = true → r' o t d = true) (opt : Bool) (t : BST) (d : Doc) :
    stepA tys r opt t d = true → stepA tys r' opt t d = true := by
  cases t with
  | short f as sps =>
    simp only [stepA, List.any_eq_true]
    rintro ⟨n, hn, hp⟩
    refine ⟨n, hn, ?_⟩
    revert hp
    cases lookupB tys n with
    | none => exact id
    | some t' => exact h _ _ _
  | scalar tok => cases d <;> simp [stepA]
  | arr w its =>
    cases d with
    | arr xs =>
      simp only [stepA, List.all_eq_true]
      intro hp p hpm
      have := hp p hpm
      revert this
      cases childAtB its p.2 with
      | none => exact id
      | some t' => exact h _ _ _
    | lit x => simp [stepA]
    | obj dms => simp [stepA]
  | obj w ms =>
    cases d with
    | obj dms =>
      intro hs
      simp only [stepA] at hs ⊢
      rw [Bool.and_eq_true] at hs ⊢
      refine ⟨?_, hs.2⟩
      have h1 := hs.1
      rw [List.all_eq_true] at h1 ⊢
      intro m hm
      have := h1 m hm
      revert this
      cases lookupM ms m.1 with
      | none => exact id
      | some t' => exact h _ _ _
    | lit x => simp [stepA]
    | arr xs => simp [stepA]

theorem admits_succ (tys : List TypeText) : (f : Nat) → (o : Bool) → (t : BST) → (d : Doc) →
    admits tys f o t d = true → admits tys (f + 1) o t d = true
  | 0, _, _, _, h => by simp [admits] at h
  | f + 1, o, t, d, h => stepA_mono tys _ _ (admits_succ tys f) o t d h

theorem admits_le (tys : List TypeText) (f g : Nat) (hle : f ≤ g) (o : Bool) (t : BST) (d : Doc)
    (h : admits tys f o t d = true) : admits tys g o t d = true := by
  induction hle with
  | refl => exact h
  | step _ ih => exact admits_succ tys _ o t d ih

theorem sound (tys : List TypeText) (kOK : String → String → Bool) : (f : Nat) → (o : Bool) → (t : BST) → (d : Doc) →
    admits tys f o t d = true → acc tys kOK o t d = true
  | 0, _, _, _, h => by simp [admits] at h
  | f + 1, o, t, d, h => by
    rw [shape_fix]
    exact stepA_mono tys _ _ (sound tys kOK f) o t d h

/-! ### completeness -/

theorem all_fuel {α : Type} (Q : Nat → α → Bool) (hm : ∀ f g a, f ≤ g → Q f a = true → Q g a = true) :
    (l : List α) → (∀ a ∈ l, ∃ f, Q f a = true) → ∃ f, ∀ a ∈ l, Q f a = true
  | [], _ => ⟨0, by simp⟩
  | a :: l, h => by
    obtain ⟨f1, h1⟩ := h a (by simp)
    obtain ⟨f2, h2⟩ := all_fuel Q hm l (fun b hb => h b (by simp [hb]))
    refine ⟨max f1 f2, ?_⟩
    intro b hb
    rcases List.mem_cons.1 hb with rfl | hb
    · exact hm _ _ _ (Nat.le_max_left ..) h1
    · exact hm _ _ _ (Nat.le_max_right ..) (h2 b hb)

/-- what a type name admits with a given fuel -/
def admitsName (tys : List TypeText) (f : Nat) (n : String) (d : Doc) : Bool :=
  match lookupB tys n with
  | some t => admits tys f false t d
  | none => false

theorem vkOf_ref {o : Bool} {t : BST} {names : List String} {nul : Option Lit} (h : vkOf o t = .ref names nul) :
    ∃ f as sps, t = .short f as sps ∧ names = namesOf f as sps ∧ nul = none := by
  cases t with
  | short f as sps => simp only [vkOf, VK.S.ref.injEq] at h; exact ⟨f, as, sps, rfl, h.1.symm, h.2.symm⟩
  | scalar tok => simp [vkOf] at h
  | arr w its => simp [vkOf] at h
  | obj w ms => simp [vkOf] at h

/-- along a chain of references the validator's expansion follows: a non-reference schema reached from the name `n`
that accepts `d` — the name admits `d`, provided the non-reference trees do (`ns`) -/
theorem chain (tys : List TypeText) (kOK : String → String → Bool) (d : Doc)
    (ns : ∀ (t' : BST), VK.isRef (vkOf false t') = false → acc tys kOK false t' d = true → Admits tys false t' d)
    (n : String) (a : VK.S Lit) (hr : VK.RNV (envB tys) [] n a)
    (ha : VK.shapeA (envB tys) litOK kOK a d = true) : ∃ f, admitsName tys f n d = true := by
  induction hr with
  | leaf n t' _ hl hnr =>
    rw [lookupT_envB] at hl
    cases hb : lookupB tys n with
    | none => rw [hb] at hl; cases hl
    | some bt =>
      rw [hb] at hl
      simp only [Option.map_some, Option.some.injEq] at hl
      subst hl
      obtain ⟨f, hf⟩ := ns bt hnr (by simp only [acc]; rw [shape_nonref _ _ _ _ hnr]; exact ha)
      exact ⟨f, by simp only [admitsName, hb]; exact hf⟩
  | null n names l _ hl =>
    rw [lookupT_envB] at hl
    cases hb : lookupB tys n with
    | none => rw [hb] at hl; cases hl
    | some bt =>
      rw [hb] at hl
      simp only [Option.map_some, Option.some.injEq] at hl
      obtain ⟨_, _, _, _, _, h3⟩ := vkOf_ref hl
      cases h3
  | step n names nul m a _ hl hm _ ih =>
    rw [lookupT_envB] at hl
    cases hb : lookupB tys n with
    | none => rw [hb] at hl; cases hl
    | some bt =>
      rw [hb] at hl
      simp only [Option.map_some, Option.some.injEq] at hl
      obtain ⟨fi, as, sps, rfl, rfl, _⟩ := vkOf_ref hl
      obtain ⟨f, hf⟩ := ih ha
      refine ⟨f + 1, ?_⟩
      simp only [admitsName, hb, admits, stepA, List.any_eq_true]
      exact ⟨m, hm, hf⟩

theorem complete (tys : List TypeText) (kOK : String → String → Bool) : ∀ (N : Nat) (d : Doc), sizeOf d < N →
    ∀ (opt : Bool) (t : BST), acc tys kOK opt t d = true → Admits tys opt t d
  | 0, _, h, _, _, _ => by omega
  | N + 1, d, hd, opt, t, hs => by
    have IH := complete tys kOK N
    -- the trees that are no shortcut
    have ns : ∀ (o : Bool) (t' : BST), VK.isRef (vkOf o t') = false → acc tys kOK o t' d = true →
        Admits tys o t' d := by
      intro o t' hr hs'
      rw [shape_fix] at hs'
      cases t' with
      | short f as sps => simp [vkOf, VK.isRef] at hr
      | scalar tok =>
        cases d with
        | lit x => exact ⟨1, by simpa [admits, stepA] using hs'⟩
        | arr xs => simp [stepA] at hs'
        | obj dms => simp [stepA] at hs'
      | arr w its =>
        cases d with
        | arr xs =>
          simp only [stepA, List.all_eq_true] at hs'
          have hex : ∀ p ∈ xs.zipIdx, ∃ f, (match childAtB its p.2 with
              | some t => admits tys f o t p.1
              | none => false) = true := by
            intro p hp
            have h1 := hs' p hp
            cases hc : childAtB its p.2 with
            | none => rw [hc] at h1; cases h1
            | some t'' =>
              rw [hc] at h1
              have hmem : p.1 ∈ xs := List.fst_mem_of_mem_zipIdx hp
              have hsz : sizeOf p.1 < N := by
                have := List.sizeOf_lt_of_mem hmem
                simp only [VN.J.arr.sizeOf_spec] at hd
                omega
              exact IH p.1 hsz o t'' h1
          obtain ⟨f, hf⟩ := all_fuel (fun f (p : Doc × Nat) => match childAtB its p.2 with
              | some t => admits tys f o t p.1
              | none => false) (by
                intro f g p hle
                cases childAtB its p.2 with
                | none => exact id
                | some t'' => exact admits_le tys f g hle o t'' p.1) _ hex
          exact ⟨f + 1, by simp only [admits, stepA, List.all_eq_true]; exact hf⟩
        | lit x => simp [stepA] at hs'
        | obj dms => simp [stepA] at hs'
      | obj w ms =>
        cases d with
        | obj dms =>
          simp only [stepA] at hs'
          rw [Bool.and_eq_true, List.all_eq_true] at hs'
          have hex : ∀ m ∈ dms, ∃ f, (match lookupM ms m.1 with
              | some t => admits tys f o t m.2
              | none => false) = true := by
            intro m hm
            have h1 := hs'.1 m hm
            cases hc : lookupM ms m.1 with
            | none => rw [hc] at h1; cases h1
            | some t'' =>
              rw [hc] at h1
              have hsz : sizeOf m.2 < N := by
                have := List.sizeOf_lt_of_mem hm
                have e : sizeOf m = 1 + sizeOf m.1 + sizeOf m.2 := by cases m; rfl
                simp only [VN.J.obj.sizeOf_spec] at hd
                omega
              exact IH m.2 hsz o t'' h1
          obtain ⟨f, hf⟩ := all_fuel (fun f (m : String × Doc) => match lookupM ms m.1 with
              | some t => admits tys f o t m.2
              | none => false) (by
                intro f g m hle
                cases lookupM ms m.1 with
                | none => exact id
                | some t'' => exact admits_le tys f g hle o t'' m.2) _ hex
          refine ⟨f + 1, ?_⟩
          simp only [admits, stepA]
          rw [Bool.and_eq_true, List.all_eq_true]
          exact ⟨hf, hs'.2⟩
        | lit x => simp [stepA] at hs'
        | arr xs => simp [stepA] at hs'
    cases t with
    | short fi as sps =>
      simp only [acc, vkOf, VK.shape, List.any_eq_true] at hs
      obtain ⟨a, hmem, ha⟩ := hs
      rw [VK.alts_iff_reach] at hmem
      rcases hmem with ⟨hr, _⟩ | ⟨names, nul, he, ⟨l, hn, _⟩ | ⟨n, hn, hp⟩⟩
      · simp [VK.isRef] at hr
      · cases he; cases hn
      · cases he
        obtain ⟨f, hf⟩ := chain tys kOK d (ns false) n a hp ha
        refine ⟨f + 1, ?_⟩
        simp only [admits, stepA, List.any_eq_true]
        exact ⟨n, hn, hf⟩
    | scalar tok => exact ns opt _ rfl hs
    | arr w its => exact ns opt _ rfl hs
    | obj w ms => exact ns opt _ rfl hs

/-- **the validator's specification on a tree with shortcut leaves is the union specification** -/
theorem shape_iff_admits (tys : List TypeText) (kOK : String → String → Bool) (opt : Bool) (t : BST) (d : Doc) :
    VK.shape (envB tys) litOK kOK (vkOf opt t) d = true ↔ Admits tys opt t d :=
  ⟨complete tys kOK (sizeOf d + 1) d (Nat.lt_succ_self _) opt t, fun ⟨f, hf⟩ => sound tys kOK f opt t d hf⟩

open Classical in
/-- **C03 at text level** -/
theorem text_level_refs (w0 : SE.Bytes) (t : BST) (w1 : SE.Bytes) (ht : TextOK w0 t w1) (tys : List TypeText)
    (htys : TypesOK tys) (hn : CL.typeNamesOK (typeTexts tys) = true) (opt : Bool)
    (hc : Compile.check (cnOf opt t) (typesOf tys) = .ok ())
    (d : VPos.T UInt8) (hd : (VPos.toJA JsonScan.classify d).Valid) (ws0 ws1 : List UInt8)
    (hw0 : JsonScan.IsWs (ws0.map JsonScan.classify)) (hw1 : JsonScan.IsWs (ws1.map JsonScan.classify)) :
    E2E.validateText (docText w0 t w1) (typeTexts tys) (ws0 ++ (d.render VPos.byteSym ++ ws1)) opt
      = if Admits tys opt t (E2E.docOf d) then .acc else .rej := by
  rw [text_level_vk w0 t w1 ht tys htys hn opt hc d hd ws0 ws1 hw0 hw1]
  by_cases h : Admits tys opt t (E2E.docOf d)
  · rw [if_pos h, if_pos ((shape_iff_admits tys _ opt t _).2 h)]
  · rw [if_neg h, if_neg (fun h' => h ((shape_iff_admits tys _ opt t _).1 h'))]

/-! ### a decidable criterion for "not admitted" -/

/-- the optimistic unfolding: `k` steps, everything below admitted -/
def admitsTop (tys : List TypeText) : Nat → Bool → BST → Doc → Bool
  | 0 => fun _ _ _ => true
  | k + 1 => stepA tys (admitsTop tys k)

theorem admits_le_top (tys : List TypeText) : (k f : Nat) → (o : Bool) → (t : BST) → (d : Doc) →
    admits tys (k + f) o t d = true → admitsTop tys k o t d = true
  | 0, _, _, _, _, _ => rfl
  | k + 1, f, o, t, d, h => by
    have e : k + 1 + f = (k + f) + 1 := by omega
    rw [e] at h
    exact stepA_mono tys _ _ (admits_le_top tys k f) o t d h

/-- if even the optimistic `k`-step unfolding refuses the document, no fuel admits it -/
theorem not_admits_of_top (tys : List TypeText) (k : Nat) (o : Bool) (t : BST) (d : Doc)
    (h : admitsTop tys k o t d = false) : ¬ Admits tys o t d := by
  rintro ⟨f, hf⟩
  have := admits_le_top tys k f o t d (admits_le tys f (k + f) (by omega) o t d hf)
  rw [h] at this
  cases this

/-! ### the specification read as a recursive predicate -/

theorem admits_step (tys : List TypeText) (o : Bool) (t : BST) (d : Doc) :
    Admits tys o t d ↔ ∃ f, stepA tys (admits tys f) o t d = true := by
  constructor
  · rintro ⟨f, hf⟩
    cases f with
    | zero => simp [admits] at hf
    | succ f => exact ⟨f, hf⟩
  · rintro ⟨f, hf⟩
    exact ⟨f + 1, hf⟩

/-- a scalar leaf admits the literal documents its kind admits (an integer where a float stands) -/
theorem admits_scalar (tys : List TypeText) (o : Bool) (tok : List UInt8) (d : Doc) :
    Admits tys o (.scalar tok) d ↔ ∃ x, d = .lit x ∧ E2E.kindOKTok (E2E.kindOf tok) x = true := by
  rw [admits_step]
  cases d with
  | lit x => simp [stepA]
  | arr xs => simp [stepA]
  | obj dms => simp [stepA]

/-- **union**: a shortcut leaf `@A | @B | …` admits exactly what the tree added under one of its names admits -/
theorem admits_short (tys : List TypeText) (o : Bool) (fi : List UInt8) (as : List SE.Alt) (sps : List UInt8) (d : Doc) :
    Admits tys o (.short fi as sps) d ↔
      ∃ n ∈ namesOf fi as sps, ∃ t, lookupB tys n = some t ∧ Admits tys false t d := by
  rw [admits_step]
  simp only [stepA, List.any_eq_true]
  constructor
  · rintro ⟨f, n, hn, hp⟩
    cases hl : lookupB tys n with
    | none => rw [hl] at hp; cases hp
    | some t => rw [hl] at hp; exact ⟨n, hn, t, hl, f, hp⟩
  · rintro ⟨n, hn, t, hl, f, hf⟩
    exact ⟨f, n, hn, by rw [hl]; exact hf⟩

/-- an array: every element is admitted by the item of its index (the last item repeats) -/
theorem admits_arr (tys : List TypeText) (o : Bool) (w : List UInt8) (its : List BItem) (d : Doc) :
    Admits tys o (.arr w its) d ↔
      ∃ xs, d = .arr xs ∧ ∀ p ∈ xs.zipIdx, ∃ t, childAtB its p.2 = some t ∧ Admits tys o t p.1 := by
  rw [admits_step]
  cases d with
  | lit x => simp [stepA]
  | obj dms => simp [stepA]
  | arr xs =>
    simp only [stepA, List.all_eq_true, VN.J.arr.injEq, exists_eq_left']
    constructor
    · rintro ⟨f, hf⟩ p hp
      have h1 := hf p hp
      cases hc : childAtB its p.2 with
      | none => rw [hc] at h1; cases h1
      | some t => rw [hc] at h1; exact ⟨t, rfl, f, h1⟩
    · intro h
      obtain ⟨f, hf⟩ := all_fuel (fun f (p : Doc × Nat) => match childAtB its p.2 with
          | some t => admits tys f o t p.1
          | none => false) (by
            intro f g p hle
            cases childAtB its p.2 with
            | none => exact id
            | some t'' => exact admits_le tys f g hle o t'' p.1) xs.zipIdx (by
            intro p hp
            obtain ⟨t, hc, f, hf⟩ := h p hp
            exact ⟨f, by simp only [hc]; exact hf⟩)
      exact ⟨f, hf⟩

/-- an object: every member's key is a key of the tree whose value tree admits the member's value, and every key of
the tree is present (unless keys are optional by default) -/
theorem admits_obj (tys : List TypeText) (o : Bool) (w : List UInt8) (ms : List BMember) (d : Doc) :
    Admits tys o (.obj w ms) d ↔
      ∃ dms, d = .obj dms ∧ (∀ m ∈ dms, ∃ t, lookupM ms m.1 = some t ∧ Admits tys o t m.2) ∧
        (o = true ∨ ∀ k ∈ keysM ms, ∃ m ∈ dms, m.1 = k) := by
  rw [admits_step]
  cases d with
  | lit x => simp [stepA]
  | arr xs => simp [stepA]
  | obj dms =>
    simp only [stepA, Bool.and_eq_true, List.all_eq_true, VN.J.obj.injEq, exists_eq_left', Bool.or_eq_true,
      List.any_eq_true, beq_iff_eq]
    constructor
    · rintro ⟨f, hf, hk⟩
      refine ⟨fun m hm => ?_, hk⟩
      have h1 := hf m hm
      cases hc : lookupM ms m.1 with
      | none => rw [hc] at h1; cases h1
      | some t => rw [hc] at h1; exact ⟨t, rfl, f, h1⟩
    · rintro ⟨h, hk⟩
      obtain ⟨f, hf⟩ := all_fuel (fun f (m : String × Doc) => match lookupM ms m.1 with
          | some t => admits tys f o t m.2
          | none => false) (by
            intro f g m hle
            cases lookupM ms m.1 with
            | none => exact id
            | some t'' => exact admits_le tys f g hle o t'' m.2) dms (by
            intro m hm
            obtain ⟨t, hc, f, hf⟩ := h m hm
            exact ⟨f, by simp only [hc]; exact hf⟩)
      exact ⟨f, hf, hk⟩

end RE
