import JSight.BridgeCR2Main
/-!
Bridge (A)∩(B), second part: TYPE-SHORTCUT nodes (`@t`, `@a | @b`: (A)'s kind `mixed`, (B)'s `MixedValueNode`).
The synthesised rule of the shortcut is (B)'s initial constraint map (`CR.initMap`); the manual rules are read under
the same invariants (`fold_agree`, `foldB` from that start); the compile phase ends in the restricted tails
(`short_type`, `short_or`). Theorem `models_agree_short`, and `models_agree_all` for every node of the common class.
-/
namespace BridgeCR
open Compile
open Loader (NK)

/-- what every shortcut node of the loader satisfies: the synthesised rule has a value, and the value of `@t` is a
type name (the scanner lets nothing else through) -/
def shortOK (n : RNode) : Bool :=
  match n.kind, n.rules with
  | .mixed, r :: _ => r.val.isSome && (!(r.name == sb "type") || isUserTypeName (unq (r.val.getD [])))
  | _, _ => true

theorem inv_typeRef (name : Bytes) : Inv [CR.n_type] (CR.initMap (.typeRef name)) := by
  intro k
  show (CR.CMap.empty.set .type (.type name true)).has k = _
  rw [has_set]
  cases k <;> decide +kernel

theorem inv_orShort (us : List Bool) : Inv [CR.n_or] (CR.initMap (.orShortcut us)) := by
  intro k
  show ((CR.CMap.empty.set .typesList (.types us)).set .or (.or true)).has k = _
  rw [has_set, has_set]
  cases k <;> decide +kernel

theorem mapOf_single (r0 : Rule) (k : CR.CT) :
    mapOf [r0] k = if ctName k == some r0.name then some (cvAt k r0) else none := by
  unfold mapOf
  simp only [List.find?_cons, List.find?_nil]
  cases (ctName k == some r0.name) <;> rfl

theorem sinv_typeRef (r0 : Rule) (hn : r0.name = sb "type") (hg : r0.gen = true) :
    SInv [r0] (CR.initMap (.typeRef (r0.val.getD []))) := by
  intro k
  rw [mapOf_single, hn, sb_type]
  show (CR.CMap.empty.set .type (.type (r0.val.getD []) true)) k = _
  cases k <;> first
    | (simp only [ctName]; rw [if_neg (by decide +kernel)]; rfl)
    | (simp only [ctName, cvAt, hg]; rfl)

theorem sinv_orShort (r0 : Rule) (hn : r0.name = sb "or") (hg : r0.gen = true) :
    SInv [r0] (CR.initMap (.orShortcut ((splitPipe (r0.val.getD [])).map fun b => b.head? == some 64))) := by
  intro k
  rw [mapOf_single, hn, sb_or]
  show ((CR.CMap.empty.set .typesList (.types _)).set .or (.or true)) k = _
  cases k <;> first
    | (simp only [ctName]; rw [if_neg (by decide +kernel)]; rfl)
    | (simp only [ctName, cvAt, hg]; rfl)

section
variable {frs : List Rule} {jt : JT} {nch : Nat} {isProp : Bool} {c : CR.Ctx}

theorem mv_branch (hcls : c.cls = .mixedValue) : c.isBranch = false := by
  unfold CR.Ctx.isBranch
  simp [hcls]

/-- `@t // {…}` -/
theorem short_type (G : Good frs) (hcls : c.cls = .mixedValue) (hprop : c.isProp = isProp)
    (r0 : Rule) (hft : findRule frs "type" = some r0) (hg : r0.gen = true)
    (hu : isUserTypeName (unq (r0.val.getD [])) = true) (hor : hasRule frs "or" = false) :
    Agree (outA (basicF .mixed frs jt isProp nch)) (CR.orConstraint c (mapOf frs) >>= fun m => enumB c m) := by
  have e : CR.orConstraint c (mapOf frs) = .ok (mapOf frs) := by
    unfold CR.orConstraint
    rw [has_mapOf_named _ _ _ ct_or, hor]; rfl
  rw [e, bind_ok]
  unfold basicF
  simp only [hor, Bool.false_eq_true, if_false]
  exact enum_agree G hor (type_user G hprop (by rw [mv_branch hcls]; rfl) hor r0 hft hu (by simp [hg]) (by simp [hg]))

/-- `@a | @b // {…}` -/
theorem short_or (G : Good frs) (hcls : c.cls = .mixedValue) (hprop : c.isProp = isProp)
    (r0 : Rule) (hfo : findRule frs "or" = some r0) (hg : r0.gen = true) (hty : hasRule frs "type" = false) :
    Agree (outA (basicF .mixed frs jt isProp nch)) (CR.orConstraint c (mapOf frs) >>= fun m => enumB c m) := by
  have hor : hasRule frs "or" = true := by rw [← findRule_isSome, hfo]; rfl
  have hft : findRule frs "type" = none := findRule_none frs "type" hty
  have hO : (mapOf frs).has .or = true := by rw [has_mapOf_named _ _ _ ct_or, hor]
  have hT : (mapOf frs).has .typesList = true := by rw [has_mapOf_named _ _ _ ct_typesList, hor]
  have hOv : (mapOf frs) .or = some (.or true) := by
    rw [mapOf_named frs .or "or" ct_or, hfo]
    simp [cvAt, hg]
  have hc := CR.count_or (mapOf frs) hO hT
  rw [onlyHas_others frs G.known _ _ sl_or, hO] at hc
  simp only [CR.bnat_true] at hc
  have hz_iff : others frs ["or", "optional", "nullable"] = 0 ↔ others frs ["or", "optional", "nullable", "type"] = 0 := by
    rw [others_zero_iff, others_zero_iff]
    constructor
    · intro h r hr
      have := h r hr
      simp only [List.map_cons, List.map_nil, List.contains_cons, List.contains_nil, Bool.or_false, Bool.or_eq_true,
        beq_iff_eq] at this ⊢
      rcases this with h | h | h
      · exact Or.inl h
      · exact Or.inr (Or.inl h)
      · exact Or.inr (Or.inr (Or.inl h))
    · intro h r hr
      have := h r hr
      simp only [List.map_cons, List.map_nil, List.contains_cons, List.contains_nil, Bool.or_false, Bool.or_eq_true,
        beq_iff_eq] at this ⊢
      rcases this with h | h | h | h
      · exact Or.inl h
      · exact Or.inr (Or.inl h)
      · exact Or.inr (Or.inr h)
      · exfalso
        have : hasRule frs "type" = true := by
          unfold hasRule; rw [List.any_eq_true]; exact ⟨r, hr, by simp [h]⟩
        rw [hty] at this; cases this
  have hoeq : (others frs ["or", "optional", "nullable"] != 0) = (others frs ["or", "optional", "nullable", "type"] != 0) := by
    by_cases h : others frs ["or", "optional", "nullable"] = 0
    · have h' := hz_iff.1 h
      simp [h, h']
    · have h' : ¬ others frs ["or", "optional", "nullable", "type"] = 0 := fun x => h (hz_iff.2 x)
      have a : (others frs ["or", "optional", "nullable"] != 0) = true := bne_iff_ne.2 h
      have b : (others frs ["or", "optional", "nullable", "type"] != 0) = true := bne_iff_ne.2 h'
      rw [a, b]
  have hnext : others frs ["or", "optional", "nullable", "type"] = 0 →
      Agree (outA (bEnumPrec .mixed frs jt isProp nch)) (enumB c ((mapOf frs).del .or)) := by
    intro hres
    have hen := absent_of_others frs _ hres "enum" (by decide +kernel)
    have hpr := absent_of_others frs _ hres "precision" (by decide +kernel)
    have e1 : CR.enumConstraint ((mapOf frs).del .or) = .ok ((mapOf frs).del .or) := by
      unfold CR.enumConstraint
      rw [CR.has_del_other _ (by decide), has_mapOf_named _ _ _ ct_enum, hen]; rfl
    have e2 : CR.precisionConstraint ((mapOf frs).del .or) = .ok ((mapOf frs).del .or) := by
      unfold CR.precisionConstraint
      rw [CR.has_del_other _ (by decide), has_mapOf_named _ _ _ ct_precision, hpr]; rfl
    have e3 : CR.typeConstraint c ((mapOf frs).del .or) = .ok ((mapOf frs).del .or) := by
      unfold CR.typeConstraint
      rw [CR.typeTok_del _ _ (by decide), typeTok_mapOf, hft]; rfl
    unfold enumB precB typeB
    rw [e1, bind_ok, e2, bind_ok, e3, bind_ok]
    unfold bEnumPrec
    simp only [hen, hpr, Bool.false_eq_true, if_false]
    unfold bNames
    simp only [hor, if_true, hfo, hg]
    unfold bType
    simp only [hft]
    refine or_tail G hprop hres _ (fun k ko _ => CR.has_del_other _ ko) (by simp) ?_ _ _
    rw [CR.has_del_other _ (by decide), has_mapOf_named _ _ _ ct_type, hty]
  unfold basicF CR.orConstraint
  simp only [hor, if_true, beq_self_eq_true, hO, hT, Bool.not_true, Bool.false_eq_true, if_false, mv_branch hcls,
    Bool.false_and, CR.bnat_true, hOv, hoeq]
  unfold CR.rawIs
  rw [typeTok_mapOf, hft]
  simp only [Option.map_none, Bool.not_true, Bool.false_eq_true, if_false, outA_ite]
  cases ho : (others frs ["or", "optional", "nullable", "type"] != 0)
  · rw [ho] at hc
    have h0 : _ = 0 := of_decide_eq_true hc
    have hz : others frs ["or", "optional", "nullable", "type"] = 0 := by simpa using ho
    simp only [h0, ne_eq, not_true_eq_false, if_false, Bool.false_eq_true]
    have hd : decide (some (CR.CV.or true) = some (CR.CV.or false)) = false := by decide
    simp only [hd, Bool.and_false, Bool.false_and, Bool.false_eq_true, if_false, bind_ok]
    exact hnext hz
  · rw [ho] at hc
    have h0 : ¬ _ = 0 := of_decide_eq_false hc
    simp [h0, outA, Agree, bind_err, throw, throwThe, MonadExceptOf.throw]

end


/-! ### the whole shortcut node -/

theorem short_core (n : RNode) (isProp : Bool) (r0 : Rule) (rest : List Rule) (nk : CR.NKind)
    (hm : n.kind = NK.mixed) (hr : n.rules = r0 :: rest) (hg0 : r0.gen = true)
    (hname0 : r0.name = sb "type" ∨ r0.name = sb "or") (hv0 : ∃ v, r0.val = some v)
    (hrest : ∀ r ∈ rest, r.gen = false ∧ ruleCommon r = true ∧ r.name ≠ CR.n_type ∧ r.name ≠ CR.n_or)
    (hnk : nkindOf n = some nk) (hcls : (nk.ctx isProp).cls = .mixedValue)
    (hInv : Inv [r0.name] (CR.initMap nk)) (hS : SInv [r0] (CR.initMap nk))
    (hcomp : Good (filt n.rules) →
      Agree (outA (basicF .mixed (filt n.rules) .mixed isProp n.children.length))
        (CR.orConstraint (nk.ctx isProp) (mapOf (filt n.rules)) >>= fun m => enumB (nk.ctx isProp) m)) :
    isUnsupported (aNode n isProp) = false ∧ codeA (aNode n isProp) = codeB (CR.checkRules (crNodeOf n isProp)) := by
  have hman : manual n = rest := by
    unfold manual
    rw [hr, List.filter_cons]
    simp only [hg0, Bool.not_true, Bool.false_eq_true, if_false]
    exact List.filter_eq_self.2 (fun r hr => by simp [(hrest r hr).1])
  have hnode : crNodeOf n isProp = { kind := nk, isProp := isProp, rules := rest.map ruleOf } := by
    unfold crNodeOf
    rw [hnk, hman]
    rfl
  have hAeq : createRules n.kind [] n.rules = createRules .mixed [r0.name] rest := by
    rw [hm, hr]
    simp [createRules, createRule, hg0]
  have hfold := fold_agree .mixed (nk.ctx isProp) { okRegex := [], enumRules := [] } (fun _ => rfl) rest [r0.name]
    (CR.initMap nk) hInv (fun r hr => ⟨(hrest r hr).1, (hrest r hr).2.1, fun _ => (hrest r hr).2.2⟩)
  have hrulesR : ∀ r ∈ rest, r.gen = false ∧ ruleCommon r = true ∧
      ((nk.ctx isProp).cls ≠ .mixedValue ∨ (r.name ≠ CR.n_type ∧ r.name ≠ CR.n_or)) :=
    fun r hr => ⟨(hrest r hr).1, (hrest r hr).2.1, Or.inr (hrest r hr).2.2⟩
  rw [hnode]
  have hctx : ({ kind := nk, isProp := isProp, rules := rest.map ruleOf } : CR.Node).ctx = nk.ctx isProp := rfl
  unfold CR.checkRules
  simp only [hctx]
  cases hA : createRules .mixed [r0.name] rest with
  | error e =>
    rw [hA] at hfold
    have haN : aNode n isProp = .error e := by unfold aNode; simp only [hAeq, hA]
    rw [haN]
    cases hB : (rest.map ruleOf).foldlM (CR.loadRule { okRegex := [], enumRules := [] } (nk.ctx isProp)) (CR.initMap nk) with
    | ok m' => rw [hB] at hfold; cases e <;> exact absurd hfold (by simp [FoldOK])
    | error cb =>
      rw [hB] at hfold
      cases e with
      | code ca p =>
        have : ca = cb := hfold
        subst this
        exact ⟨rfl, rfl⟩
      | unsupported w => exact absurd hfold (by simp [FoldOK])
  | ok u =>
    rw [hA] at hfold
    cases hB : (rest.map ruleOf).foldlM (CR.loadRule { okRegex := [], enumRules := [] } (nk.ctx isProp)) (CR.initMap nk) with
    | error cb => rw [hB] at hfold; exact absurd hfold (by simp [FoldOK])
    | ok m' =>
      obtain ⟨hSI, hnd⟩ := foldB _ (nk.ctx isProp) rest [r0] (CR.initMap nk) m' hS (by simp) hrulesR hB
      have hvalid := foldB_valid _ (nk.ctx isProp) rest (CR.initMap nk) m' hrulesR hB
      have hrs : [r0] ++ rest = n.rules := by rw [hr]; rfl
      rw [hrs] at hSI hnd
      have hmm : m' = mapOf n.rules := funext hSI
      subst hmm
      have hok0 : okVal r0 := by
        rcases hname0 with e | e
        · refine ⟨fun h => ?_, fun h => ?_, ⟨.type, by rw [e, sb_type]; rfl, by decide, by decide, by decide, by decide⟩, fun h => ?_⟩
          · rw [e, sb_type] at h; exact absurd h (by decide)
          · rw [e, sb_type] at h; exact absurd h (by decide)
          · rw [e, sb_type] at h; exact absurd h (by decide)
        · refine ⟨fun h => ?_, fun h => ?_, ⟨.or, by rw [e, sb_or]; rfl, by decide, by decide, by decide, by decide⟩, fun _ hg => ?_⟩
          · rw [e, sb_or] at h; exact absurd h (by decide)
          · rw [e, sb_or] at h; exact absurd h (by decide)
          · rw [hg0] at hg; cases hg
      have hmemc : ∀ r ∈ filt n.rules, r = r0 ∨ r ∈ rest := fun r hr' => by
        have := filt_sub n.rules r hr'
        rw [hr] at this
        exact List.mem_cons.1 this
      have G : Good (filt n.rules) :=
        { nodup := filt_nodup n.rules hnd
          valid := fun r hr' => by
            rcases hmemc r hr' with e | hin
            · rw [e]; exact hok0
            · exact hvalid r hin
          common := fun r hr' hg => by
            rcases hmemc r hr' with e | hin
            · rw [e, hg0] at hg; cases hg
            · exact (hrest r hin).2.1
          vals := fun r hr' => by
            rcases hmemc r hr' with e | hin
            · rw [e]; exact hv0
            · have := (hrest r hin).2.1
              unfold ruleCommon at this
              simp only [Bool.and_eq_true] at this
              exact Option.isSome_iff_exists.1 this.1.1
          gens := fun r hr' hg => by
            rcases hmemc r hr' with e | hin
            · rw [e]; exact hname0
            · rw [(hrest r hin).1] at hg; cases hg }
      have hjt : jtOf n = .ok .mixed := by unfold jtOf; rw [hm]
      have hu : u = () := rfl
      subst hu
      rw [aNode_eq n isProp .mixed (by rw [hAeq, hA]) hjt, basic_eq, hm]
      have : (Except.ok (mapOf n.rules) >>= CR.compile (nk.ctx isProp) >>= CR.allOfStep (nk.ctx isProp) >>= CR.checkCompat (nk.ctx isProp))
          = (CR.compile (nk.ctx isProp) (mapOf n.rules) >>= CR.allOfStep (nk.ctx isProp) >>= CR.checkCompat (nk.ctx isProp)) := rfl
      rw [this, compile_eq, fc_mapOf n.rules hnd]
      exact agree_out (hcomp G)

theorem models_agree_short (n : RNode) (isProp : Bool) (h : common n = true) (hm : n.kind = NK.mixed)
    (hs : shortOK n = true) :
    isUnsupported (aNode n isProp) = false ∧ codeA (aNode n isProp) = codeB (CR.checkRules (crNodeOf n isProp)) := by
  simp only [common, Bool.and_eq_true] at h
  obtain ⟨⟨⟨hk, hshape⟩, hrc⟩, _⟩ := h
  obtain ⟨nk, hnk⟩ := Option.isSome_iff_exists.1 hk
  rw [hm] at hshape
  cases hr : n.rules with
  | nil => rw [hr] at hshape; simp at hshape
  | cons r0 rest =>
    rw [hr] at hshape
    simp only [Bool.and_eq_true, List.all_eq_true, Bool.not_eq_true', Bool.or_eq_false_iff, beq_eq_false_iff_ne] at hshape
    obtain ⟨hg0, hrestS⟩ := hshape
    have hman : manual n = rest := by
      unfold manual
      rw [hr, List.filter_cons]
      simp only [hg0, Bool.not_true, Bool.false_eq_true, if_false]
      exact List.filter_eq_self.2 (fun r hr => by simp [(hrestS r hr).1])
    have hrest : ∀ r ∈ rest, r.gen = false ∧ ruleCommon r = true ∧ r.name ≠ CR.n_type ∧ r.name ≠ CR.n_or := fun r hr' =>
      ⟨(hrestS r hr').1, List.all_eq_true.1 hrc r (by rw [hman]; exact hr'),
        by rw [← sb_type]; exact (hrestS r hr').2.1, by rw [← sb_or]; exact (hrestS r hr').2.2⟩
    unfold shortOK at hs
    rw [hm, hr] at hs
    simp only [Bool.and_eq_true, Bool.or_eq_true, Bool.not_eq_true', beq_eq_false_iff_ne] at hs
    obtain ⟨hv0, hut⟩ := hs
    have hv0' : ∃ v, r0.val = some v := Option.isSome_iff_exists.1 hv0
    have hkeep0 : ∀ (e : r0.name = sb "type" ∨ r0.name = sb "or"), filt n.rules = r0 :: filt rest := fun e => by
      unfold filt
      rw [hr, List.filter_cons]
      have : keep r0 = true := by
        unfold keep
        rcases e with e | e <;> rw [e] <;> simp [show (sb "type" == sb "nullable") = false by decide +kernel,
          show (sb "type" == sb "const") = false by decide +kernel, show (sb "or" == sb "nullable") = false by decide +kernel,
          show (sb "or" == sb "const") = false by decide +kernel]
      rw [this]; rfl
    have hnoname : ∀ (s : String), (∀ r ∈ rest, r.name ≠ sb s) → r0.name ≠ sb s →
        (e : r0.name = sb "type" ∨ r0.name = sb "or") → hasRule (filt n.rules) s = false := fun s h1 h2 e => by
      rw [hkeep0 e]
      unfold hasRule
      rw [List.any_cons, Bool.or_eq_false_iff]
      refine ⟨beq_eq_false_iff_ne.2 h2, ?_⟩
      rw [List.any_eq_false]
      intro r hr' hcon
      exact h1 r (filt_sub rest r hr') (by simpa using hcon)
    unfold nkindOf at hnk
    rw [hm, hr] at hnk
    simp only [hg0, Bool.true_and] at hnk
    by_cases ht : r0.name = sb "type"
    · simp only [ht, beq_self_eq_true, if_true, Option.some.injEq] at hnk
      subst hnk
      have hu : isUserTypeName (unq (r0.val.getD [])) = true := by
        rcases hut with h | h
        · exact absurd ht h
        · exact h
      refine short_core n isProp r0 rest _ hm hr hg0 (Or.inl ht) hv0' hrest (by unfold nkindOf; rw [hm, hr]; simp [hg0, ht]) rfl
        (by rw [ht, sb_type]; exact inv_typeRef _) (sinv_typeRef r0 ht hg0) (fun G => ?_)
      refine short_type G rfl rfl r0 ?_ hg0 hu ?_
      · rw [hkeep0 (Or.inl ht)]
        unfold findRule
        rw [List.find?_cons]
        simp [ht]
      · exact hnoname "or" (fun r hr' => by rw [sb_or]; exact (hrest r hr').2.2.2)
          (by rw [ht]; decide +kernel) (Or.inl ht)
    · have ht' : (r0.name == sb "type") = false := beq_eq_false_iff_ne.2 ht
      simp only [ht', Bool.false_eq_true, if_false] at hnk
      by_cases ho : r0.name = sb "or"
      · simp only [ho, beq_self_eq_true, if_true, Option.some.injEq] at hnk
        subst hnk
        refine short_core n isProp r0 rest _ hm hr hg0 (Or.inr ho) hv0' hrest
          (by unfold nkindOf; rw [hm, hr]; simp [hg0, ho, show ¬ sb "or" = sb "type" by decide +kernel]) rfl
          (by rw [ho, sb_or]; exact inv_orShort _) (sinv_orShort r0 ho hg0) (fun G => ?_)
        refine short_or G rfl rfl r0 ?_ hg0 ?_
        · rw [hkeep0 (Or.inr ho)]
          unfold findRule
          rw [List.find?_cons]
          simp [ho]
        · exact hnoname "type" (fun r hr' => by rw [sb_type]; exact (hrest r hr').2.2.1)
            (by rw [ho]; decide +kernel) (Or.inr ho)
      · have ho' : (r0.name == sb "or") = false := beq_eq_false_iff_ne.2 ho
        simp [ho'] at hnk

/-- **every node of the common class** (literal nodes without children, shortcut nodes as the loader makes them) -/
theorem models_agree_all (n : RNode) (isProp : Bool) (h : common n = true) (hw : leafOK n = true) (hs : shortOK n = true) :
    isUnsupported (aNode n isProp) = false ∧ codeA (aNode n isProp) = codeB (CR.checkRules (crNodeOf n isProp)) := by
  by_cases hm : n.kind = NK.mixed
  · exact models_agree_short n isProp h hm hs
  · exact models_agree_compile n isProp h (by simp [plainKind, hm]) hw

/-- a `@t` node whose synthesised token is `"enum"` (no loader makes it: the scanner lets only type names through):
(A) compares the JSON type `mixed` (1115), (B)'s `MixedValueNode` skips `SetRealType` — the second family outside
which the unrestricted statement fails; `shortOK` is the decidable hypothesis -/
def wRef : RNode :=
  { kind := .mixed, children := [], keys := [], value := none,
    rules := [{ name := sb "type", gen := true, val := some (sb "\"enum\""), pos := 0, npos := 0 },
              { name := sb "enum", gen := false, val := some (sb "[1, 2]"), pos := 0, npos := 0 }] }

theorem wRef_facts : common wRef = true ∧ leafOK wRef = true ∧ shortOK wRef = false ∧
    codeA (aNode wRef false) = some 1115 ∧ codeB (CR.checkRules (crNodeOf wRef false)) = none := by decide +kernel

end BridgeCR
