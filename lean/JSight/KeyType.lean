import JSight.RulesFull
/-!
C03 model, the KEY TEST of a key shortcut `@K: v` (`internal/validator/v_object.go`, `validateTypeRules` and
`checkConstraint`, after fixes F-35 and F-37), for ONE shortcut and ONE document key:

* the root node of the type `@K` must have JSON type `string` (`node.Type().String() != "string"` panics with
  `ErrInvalidKeyType`: outcome `none` of `keyStep`);
* `node.ConstraintMap().EachSafe`: every constraint of the compiled node, in insertion order, is put to
  `checkConstraint(c, value)` with the RAW key token (quotes and escapes as in the document); the running `flag`
  / `inside` / `i` variables are kept as coded (`keyLoop`);
* `checkConstraint`: a `LiteralValidator` (`min`, `max`, `precision`, `minLength`, `maxLength`, `regex`, `enum`,
  `const`, `email`, `uri`, `uuid`, `date`, `datetime`: `RulesF.Rule`) validates the key token — each of them decodes
  it itself (`value.Unquote()`; `enum` and `const` through `NewEnumItem` / `sameJSONValue`), a panic is recovered
  into `false`; every OTHER constraint (`nullable`, `any`, a types list left by `or` / `type: "@t"`) says `true`;
  `type` never reaches the validator (the compiler deletes it), `const: false` / `nullable: false` neither
  (`falseConstraints`);
* a node WITHOUT any constraint (`!inside`): `bytes.Equal(node.Value().Unquote(), value.Unquote())` — the type
  stands for its example, compared after decoding (F-35).

The validators are those of the C02 model (`RulesF.ruleOK`), regex / mail / uri / RFC 3339 are its oracle
parameters.
-/
namespace KeyType
open RulesF
open Rules (Kind)

/-- the raw key token of the document (`lastFoundKeyLex.Value()`: in quotes, escapes as written) -/
abbrev KeyBytes := Bytes

/-- one entry of the compiled key type's constraint map -/
inductive KCon
  | lit (r : Rule)      -- a `LiteralValidator`
  | nullable            -- `nullable: true` (BoolKeeper, no validator)
  | any                 -- `type: "any"`
  | typesList           -- the types list of `or` / `type: "@t"` on a string example
  deriving DecidableEq, Repr

/-- what `validateTypeRules` reads of the type `@K` -/
structure KeyTypeNode where
  kind : Kind            -- `node.Type()` of the root node (an object / array / mixed root is no `.s`)
  ex : Bytes             -- `node.Value()`: the EXAMPLE token
  cons : List KCon       -- the constraint map, insertion order
  deriving DecidableEq, Repr

/-- `checkConstraint(c, value)` -/
def checkConstraint (o : Oracles) (ex : Bytes) (k : KeyBytes) : KCon → Bool
  | .lit r => ruleOK o ex k r       -- `v.Validate(value)`; the deferred recover turns a panic into `false`
  | _ => true

/-- the three variables of the loop over the constraint map -/
structure LoopSt where
  flag : Bool
  inside : Bool
  i : Nat
  deriving DecidableEq, Repr

/-- the body of the `EachSafe` callback -/
def loopBody (o : Oracles) (ex : Bytes) (k : KeyBytes) (s : LoopSt) (c : KCon) : LoopSt :=
  let flag := if s.i == 0 then true else s.flag
  { inside := true, flag := flag && checkConstraint o ex k c, i := s.i + 1 }

def keyLoop (o : Oracles) (T : KeyTypeNode) (k : KeyBytes) : LoopSt :=
  T.cons.foldl (loopBody o T.ex k) { flag := false, inside := false, i := 0 }

/-- one shortcut of `validateTypeRules` against one key: `none` = the panic `ErrInvalidKeyType`,
`some b` = the final `flag` -/
def keyStep (o : Oracles) (T : KeyTypeNode) (k : KeyBytes) : Option Bool :=
  if T.kind != .s then none
  else
    let s := keyLoop o T k
    if !s.inside then some (Unquote.unquote T.ex == Unquote.unquote k)
    else some s.flag

/-- the key test: the shortcut admits the key -/
def keyOKc (o : Oracles) (T : KeyTypeNode) (k : KeyBytes) : Bool := keyStep o T k == some true

/-- the tree before fix F-35: the example of a type without constraints was compared with the key AS SPELLED -/
def keyOKraw (o : Oracles) (T : KeyTypeNode) (k : KeyBytes) : Bool :=
  T.kind == .s &&
    (let s := keyLoop o T k
     if !s.inside then T.ex == k else s.flag)

/-- the constraint map of a compiled scalar node (`RulesF.compile`): `nullable` if it survived, then the
literal validators -/
def ofSpec (l : LitSpecF) : KeyTypeNode :=
  { kind := l.kind, ex := l.ex, cons := (if l.nul then [KCon.nullable] else []) ++ l.rules.map KCon.lit }

/-- a string key type as written: example token + annotation -/
def ofRaw (ex : Bytes) (raws : List RawRule) : KeyTypeNode := ofSpec (compile .s ex raws)

/-- the rules of an annotation that say what no rule says: the compiler drops them -/
def RawRule.inert : RawRule → Bool
  | .nullable false | .const false | .typeOther => true
  | _ => false

end KeyType
