import JSight.ExampleShortAgree
/-!
The example as a TOKEN tree: `RE.exampleT tys fuel t` is `exampleOf` with the key TOKENS of the schema text kept (quotes
and escapes as written) and no layout; its rendering `(exampleT …).render VPos.byteSym` is the compact JSON text the
builder emits (scalar and key tokens byte for byte, `,` / `:` without blanks). `exampleT_doc`: the document it denotes is
`exampleOf`; so the text-level pipeline accepts these BYTES (in any white space) against the schema they were built from.
-/
namespace RE
open SE (BST BItem BMember TypeText namesOf TextOK TypesOK docText typeTexts typesOf cnOf)

abbrev DTok := VPos.T UInt8

def tItems (r : BST → Option DTok) : List BItem → Option (List (List UInt8 × DTok × List UInt8))
  | [] => some []
  | it :: its =>
    match r it.2.1, tItems r its with
    | some d, some ds => some (([], d, []) :: ds)
    | _, _ => none

def tMembers (r : BST → Option DTok) :
    List BMember → Option (List (List UInt8 × List UInt8 × List UInt8 × List UInt8 × DTok × List UInt8))
  | [] => some []
  | m :: ms =>
    match r m.2.2.2.2.1, tMembers r ms with
    | some d, some ds => some (([], m.2.1, [], [], d, []) :: ds)
    | _, _ => none

def stepT (tys : List TypeText) (r : BST → Option DTok) : BST → Option DTok
  | .scalar tok => some (.scalar tok)
  | .short f as sps =>
    match namesOf f as sps with
    | [] => none
    | n :: _ =>
      match lookupB tys n with
      | some t => r t
      | none => none
  | .arr _ its => (tItems r its).map (.arr [])
  | .obj _ ms => (tMembers r ms).map (.obj [])

/-- the example as a token tree without layout (key tokens as written in the schema text) -/
def exampleT (tys : List TypeText) : Nat → BST → Option DTok
  | 0 => fun _ => none
  | fuel + 1 => stepT tys (exampleT tys fuel)

/-- the bytes the builder emits: compact JSON -/
def exampleBytes (tys : List TypeText) (fuel : Nat) (t : BST) : Option (List UInt8) :=
  (exampleT tys fuel t).map fun d => d.render VPos.byteSym

theorem tItems_doc (rT : BST → Option DTok) (r : BST → Option Doc) (h : ∀ t, (rT t).map E2E.docOf = r t) :
    (its : List BItem) → (tItems rT its).map (VPos.stripItems E2E.keyOf) = exItems r its
  | [] => rfl
  | it :: its => by
    have h1 := h it.2.1
    have h2 := tItems_doc rT r h its
    simp only [tItems, exItems, ← h1, ← h2]
    cases rT it.2.1 <;> cases tItems rT its <;> simp [VPos.stripItems, E2E.docOf]

theorem tMembers_doc (rT : BST → Option DTok) (r : BST → Option Doc) (h : ∀ t, (rT t).map E2E.docOf = r t) :
    (ms : List BMember) → (tMembers rT ms).map (VPos.stripMembers E2E.keyOf) = exMembers r ms
  | [] => rfl
  | m :: ms => by
    have h1 := h m.2.2.2.2.1
    have h2 := tMembers_doc rT r h ms
    simp only [tMembers, exMembers, ← h1, ← h2]
    cases rT m.2.2.2.2.1 <;> cases tMembers rT ms <;> simp [VPos.stripMembers, E2E.docOf]

theorem stepT_doc (tys : List TypeText) (rT : BST → Option DTok) (r : BST → Option Doc)
    (h : ∀ t, (rT t).map E2E.docOf = r t) (t : BST) : (stepT tys rT t).map E2E.docOf = stepE tys r t := by
  cases t with
  | scalar tok => simp [stepT, stepE, E2E.docOf, VPos.strip]
  | short f as sps =>
    simp only [stepT, stepE]
    cases hn : namesOf f as sps with
    | nil => rfl
    | cons n rest =>
      simp only []
      cases hl : lookupB tys n with
      | none => rfl
      | some t' => simp only []; exact h t'
  | arr w its =>
    simp only [stepT, stepE, ← tItems_doc rT r h its, Option.map_map]
    cases tItems rT its <;> simp [E2E.docOf, VPos.strip]
  | obj w ms =>
    simp only [stepT, stepE, ← tMembers_doc rT r h ms, Option.map_map]
    cases tMembers rT ms <;> simp [E2E.docOf, VPos.strip]

/-- the token tree denotes the closed form -/
theorem exampleT_doc (tys : List TypeText) : (fuel : Nat) → (t : BST) →
    (exampleT tys fuel t).map E2E.docOf = exampleOf tys fuel t
  | 0, _ => rfl
  | fuel + 1, t => stepT_doc tys _ _ (exampleT_doc tys fuel) t

/-- the pipeline accepts the example BYTES of its own schema -/
theorem shortcut_bytes_roundtrip (w0 : SE.Bytes) (t : BST) (w1 : SE.Bytes) (ht : TextOK w0 t w1) (tys : List TypeText)
    (htys : TypesOK tys) (hn : CL.typeNamesOK (typeTexts tys) = true) (opt : Bool)
    (hc : Compile.check (cnOf opt t) (typesOf tys) = .ok ())
    (fuel : Nat) (d : DTok) (he : exampleT tys fuel t = some d)
    (hd : (VPos.toJA JsonScan.classify d).Valid) (ws0 ws1 : List UInt8)
    (hw0 : JsonScan.IsWs (ws0.map JsonScan.classify)) (hw1 : JsonScan.IsWs (ws1.map JsonScan.classify)) :
    E2E.validateText (docText w0 t w1) (typeTexts tys) (ws0 ++ (d.render VPos.byteSym ++ ws1)) opt = .acc := by
  have h := exampleT_doc tys fuel t
  rw [he] at h
  exact shortcut_text_roundtrip w0 t w1 ht tys htys hn opt hc fuel (E2E.docOf d) h.symm d hd rfl ws0 ws1 hw0 hw1

namespace Ex
theorem exT_eq : exampleT tys 5 SE.Ex.root = some dEx := by rfl
end Ex

end RE
