import JSight.LoaderTreeDup
/-!
C16 (loader part), the pointwise reading of the result: `Mirrors N i parent o v` — "node `i` of the table `N` is the
root of a subtree that mirrors the value `v` rendered at offset `o`": the kind matches (scalar → `.lit`, array →
`.arr`, object → `.obj`), `children` are the nodes of the items / member values in source order (each mirroring its
value, with `i` as parent), `keys` are the member key tokens' spans in source order (not shortcuts), `value` of a
literal is the span of its token, no rules, no comment.

`nodesOf` (the explicit pre-order table) satisfies it (`mirrors_nodesOf`), hence so does the loader's result
(`C16_load_mirrors`, `C16_loadText_mirrors`).
-/
namespace Loader
open SchemaScan (Ev LexT Cls Tree nlEvs schemaEvsAt evsItems evsMembers)

/-- no annotation data on the node -/
def Node.bare (nd : Node) : Prop := nd.rules = [] ∧ nd.comment = none ∧ nd.waiting = false

mutual
/-- node `i` of `N` is the root of a subtree that mirrors `v` rendered at offset `o` -/
def Mirrors (N : List Node) : Nat → Option Nat → Nat → Tree → Prop
  | i, par, o, .scalar tok =>
    ∃ nd, N[i]? = some nd ∧ nd.kind = .lit ∧ nd.parent = par ∧ nd.bare ∧
      nd.value = some (o, o + tok.length - 1) ∧ nd.children = [] ∧ nd.keys = []
  | i, par, o, .arr ws0 its =>
    ∃ nd, N[i]? = some nd ∧ nd.kind = .arr ∧ nd.parent = par ∧ nd.bare ∧ nd.value = none ∧ nd.keys = [] ∧
      MirrorsItems N i nd.children (o + 1 + ws0.length) its
  | i, par, o, .obj ws0 ms =>
    ∃ nd, N[i]? = some nd ∧ nd.kind = .obj ∧ nd.parent = par ∧ nd.bare ∧ nd.value = none ∧
      MirrorsMembers N i nd.children nd.keys (o + 1 + ws0.length) ms
/-- the children `cs` of the array node `a` mirror the items, one by one, in source order -/
def MirrorsItems (N : List Node) (a : Nat) : List Nat → Nat → List Item → Prop
  | [], _, [] => True
  | c :: cs, o, (w1, v, w2) :: its =>
    Mirrors N c (some a) (o + w1.length) v ∧ MirrorsItems N a cs (nextItem o w1 v w2 its) its
  | [], _, _ :: _ => False
  | _ :: _, _, [] => False
/-- the children `cs` and key entries `ks` of the object node `a` mirror the members, one by one, in source order -/
def MirrorsMembers (N : List Node) (a : Nat) : List Nat → List (Nat × Nat × Bool) → Nat → List Member → Prop
  | [], [], _, [] => True
  | c :: cs, kk :: ks, o, (w1, k, w2, w3, v, w4) :: ms =>
    kk = (o + w1.length, o + w1.length + k.length - 1, false) ∧
    Mirrors N c (some a) (valOff o w1 k w2 w3) v ∧
    MirrorsMembers N a cs ks (nextMember o w1 k w2 w3 v w4 ms) ms
  | [], _, _, _ :: _ => False
  | _ :: _, [], _, _ :: _ => False
  | _ :: _, _, _, [] => False
  | [], _ :: _, _, [] => False
end

def arrNode (par : Option Nat) (cs : List Nat) : Node := { kind := .arr, parent := par, children := cs }
def objNode (par : Option Nat) (cs : List Nat) (ks : List (Nat × Nat × Bool)) : Node :=
  { kind := .obj, parent := par, children := cs, keys := ks }

theorem getElem?_mid {α : Type} (pre : List α) (x : α) (post : List α) : (pre ++ (x :: post))[pre.length]? = some x := by
  simp

mutual
theorem mirrors_nodesOf : (v : Tree) → (pre post : List Node) → (par : Option Nat) → (o : Nat) →
    Mirrors (pre ++ (nodesOf par pre.length o v ++ post)) pre.length par o v
  | .scalar tok, pre, post, par, o => by
    simp only [Mirrors, nodesOf, List.cons_append, List.nil_append]
    exact ⟨_, getElem?_mid _ _ _, rfl, rfl, ⟨rfl, rfl, rfl⟩, rfl, rfl, rfl⟩
  | .arr ws0 its, pre, post, par, o => by
    simp only [Mirrors, nodesOf, List.cons_append]
    refine ⟨_, getElem?_mid _ _ _, rfl, rfl, ⟨rfl, rfl, rfl⟩, rfl, rfl, ?_⟩
    have h := mirrorsItems_nodesOf its (pre ++ [arrNode par (idxItems (pre.length + 1) its)])
      post pre.length (o + 1 + ws0.length)
    simpa [arrNode] using h
  | .obj ws0 ms, pre, post, par, o => by
    simp only [Mirrors, nodesOf, List.cons_append]
    refine ⟨_, getElem?_mid _ _ _, rfl, rfl, ⟨rfl, rfl, rfl⟩, rfl, ?_⟩
    have h := mirrorsMembers_nodesOf ms
      (pre ++ [objNode par (idxMembers (pre.length + 1) ms) (keysMembers (o + 1 + ws0.length) ms)])
      post pre.length (o + 1 + ws0.length)
    simpa [objNode] using h
theorem mirrorsItems_nodesOf : (its : List Item) → (pre post : List Node) → (a o : Nat) →
    MirrorsItems (pre ++ (nodesItems a pre.length o its ++ post)) a (idxItems pre.length its) o its
  | [], _, _, _, _ => by simp [MirrorsItems, idxItems]
  | (w1, v, w2) :: its, pre, post, a, o => by
    simp only [MirrorsItems, idxItems, nodesItems, List.append_assoc]
    refine ⟨mirrors_nodesOf v pre _ (some a) (o + w1.length), ?_⟩
    have h := mirrorsItems_nodesOf its (pre ++ nodesOf (some a) pre.length (o + w1.length) v) post a (nextItem o w1 v w2 its)
    simpa [nodesOf_length] using h
theorem mirrorsMembers_nodesOf : (ms : List Member) → (pre post : List Node) → (a o : Nat) →
    MirrorsMembers (pre ++ (nodesMembers a pre.length o ms ++ post)) a (idxMembers pre.length ms) (keysMembers o ms) o ms
  | [], _, _, _, _ => by simp [MirrorsMembers, idxMembers, keysMembers]
  | (w1, k, w2, w3, v, w4) :: ms, pre, post, a, o => by
    simp only [MirrorsMembers, idxMembers, keysMembers, nodesMembers, List.append_assoc]
    refine ⟨trivial, mirrors_nodesOf v pre _ (some a) (valOff o w1 k w2 w3), ?_⟩
    have h := mirrorsMembers_nodesOf ms (pre ++ nodesOf (some a) pre.length (valOff o w1 k w2 w3) v) post a
      (nextMember o w1 k w2 w3 v w4 ms)
    simpa [nodesOf_length] using h
end

/-- **C16 (loader), pointwise form.** The loader's node 0 mirrors the tree. -/
theorem C16_load_mirrors (src : Array UInt8) (v : Tree) (ws0 ws1 : List Cls) (hd : KeysDistinct src ws0.length v) :
    ∃ st, load src (nlEvs 0 ws0 ++ (schemaEvsAt ws0.length v ++ nlEvs (ws0.length + v.render.length) ws1)) = .ok st ∧
      st.root = some 0 ∧ st.nodes.size = nodeCount v ∧ Mirrors st.nodes.toList 0 none ws0.length v := by
  obtain ⟨st, h, hr, hn, _⟩ := C16_load_mirrors_tree src v ws0 ws1 hd
  refine ⟨st, h, hr, ?_, ?_⟩
  · rw [← Array.length_toList, hn, nodesOf_length]
  · rw [hn]
    simpa using mirrors_nodesOf v [] [] none ws0.length

/-- **C16, end to end, pointwise form**: `loadText` (scanner and loader interleaved as in `doLoad`) on the text of a
valid plain-JSON tree with distinct keys per object yields a node table whose node 0 mirrors the tree. -/
theorem C16_loadText_mirrors (v : Tree) (hv : v.Valid) (ws0 ws1 : List Cls)
    (h0 : SchemaScan.IsWs ws0) (h1 : SchemaScan.IsWs ws1)
    (bs : List UInt8) (hbs : bs.map SchemaScan.classify = ws0 ++ (v.render ++ ws1))
    (hd : KeysDistinct bs.toArray ws0.length v) :
    ∃ st, loadText bs = .ok st ∧ st.root = some 0 ∧ st.nodes.size = nodeCount v ∧
      Mirrors st.nodes.toList 0 none ws0.length v := by
  obtain ⟨st, h, hr, hn⟩ := C16_loadText_mirrors_tree v hv ws0 ws1 h0 h1 bs hbs hd
  refine ⟨st, h, hr, ?_, ?_⟩
  · rw [← Array.length_toList, hn, nodesOf_length]
  · rw [hn]
    simpa using mirrors_nodesOf v [] [] none ws0.length

#print axioms C16_load_mirrors
#print axioms C16_loadText_mirrors

end Loader
