import JSight.AnnTreeTok
/-!
C17, schema scanner, viability on the TOKEN level: whatever token list has been accepted so far can be completed.

* `Shape`: the invariant of the token-level scanner (`tstep` / `astep`) — the step function, the lexeme stack and the
  context stack fit together (`Below`: the stack under a value slot is a pile of `item ∈ array` / `value ∈ object`
  frames, one saved context per frame); `astep_shape`, `arun_shape`: every state reached from `TC.init` has it;
* `closers c`: the closing tokens of a state — finish what the step function waits for (a value `1`, a member `"a":1`,
  `:1` behind a key), then close the brackets on the lexeme stack from the top (`}` / `]`; an open key gets `:1`);
* `closers_complete`: from a state with `Shape` the token-level scanner accepts `closers c` and ends `Complete`;
* `arun_viable` / `trun_viable`: every accepted token prefix can be completed; `bytes_viable`: lifted through the
  simulation (`scan_atoks_whole`): the byte text of an accepted token list is a viable prefix for `scanAll`.
-/
namespace SchemaScan
namespace Len

/-! ### the closing tokens -/

/-- the scalar `1` and the key `"a"` -/
def one : List Cls := [.d19]
def keyA : List Cls := [.quote, .la, .quote]

theorem one_scalar : IsScalar one := ⟨.d19, [], .d1, false, .d1, rfl, rfl, rfl, rfl⟩
theorem keyA_key : IsKey keyA := ⟨[.la, .quote], rfl, rfl⟩

def closerOf : LexT → List Tok
  | .arrB => [.rbrack]
  | .objB => [.rbrace]
  | .keyB => [.colon, .scalar one]
  | _ => []

/-- close the lexeme stack from the top -/
def closeK : List (LexT × Nat) → List Tok
  | [] => []
  | (t, _) :: R => closerOf t ++ closeK R

/-- what the step function still waits for -/
def headOf : St → List Tok
  | .foundRoot | .objValue | .arrItem => [.scalar one]
  | .objKey | .objKeyAfterNL => [.key keyA, .colon, .scalar one]
  | .afterKey => [.colon, .scalar one]
  | _ => []

/-- **the closing tokens of a state** -/
def closers (c : TC) : List Tok := headOf c.st ++ closeK c.K

theorem closerOf_wf (t : LexT) : ∀ x ∈ closerOf t, x.WF := by
  intro x hx
  cases t <;> simp [closerOf] at hx
  · subst hx; trivial
  · rcases hx with rfl | rfl
    · trivial
    · exact one_scalar
  · subst hx; trivial

theorem closeK_wf : ∀ (K : List (LexT × Nat)), ∀ x ∈ closeK K, x.WF
  | [], x, hx => by simp [closeK] at hx
  | (t, _) :: R, x, hx => by
    simp only [closeK, List.mem_append] at hx
    rcases hx with h | h
    · exact closerOf_wf t x h
    · exact closeK_wf R x h

theorem headOf_wf (st : St) : ∀ x ∈ headOf st, x.WF := by
  intro x hx
  have k : (Tok.key keyA).WF := keyA_key
  have o : (Tok.scalar one).WF := one_scalar
  have c : Tok.colon.WF := trivial
  cases st <;> simp [headOf] at hx <;> (try subst hx) <;> (try assumption) <;>
    (rcases hx with rfl | rfl | rfl <;> assumption) <;> (rcases hx with rfl | rfl <;> assumption)

theorem closers_wf (c : TC) : ∀ x ∈ closers c, x.WF := by
  intro x hx
  simp only [closers, List.mem_append] at hx
  rcases hx with h | h
  · exact headOf_wf _ x h
  · exact closeK_wf _ x h

/-! ### the invariant -/

/-- the stack under a value slot: `item ∈ array` / `member value ∈ object` frames, one saved context per frame -/
inductive Below : List (LexT × Nat) → List Ctx → Prop
  | root : Below [] []
  | item {R CS} (b a : Nat) (c0 : Ctx) : Below R CS → Below ((.itemB, b) :: (.arrB, a) :: R) (c0 :: CS)
  | val {R CS} (b a : Nat) (c0 : Ctx) : Below R CS → Below ((.valB, b) :: (.objB, a) :: R) (c0 :: CS)

def objSt : St → Bool
  | .objKeyOrEmpty | .objKey | .objKeyAfterNL | .afterValue | .afterKey | .objValue => true
  | _ => false

def arrSt : St → Bool
  | .arrItemOrEmpty | .arrItem | .afterItem => true
  | _ => false

/-- step function, guard flag, lexeme stack and context stack of a reachable state -/
inductive Shape : St → Bool → List (LexT × Nat) → List Ctx → Prop
  | root (g : Bool) : Shape .foundRoot g [] []
  | top (g : Bool) (CS : List Ctx) : Shape .endTop g [] CS
  | pv {st K0 CS} (lit : Bool) (b : Nat) : PV st = true → Below K0 CS → Shape st false (pendOf lit b ++ K0) CS
  | pvKey {st R CS} (b a : Nat) (c0 : Ctx) : PV st = true → Below R CS →
      Shape st false ((.keyB, b) :: (.objB, a) :: R) (c0 :: CS)
  | obj {st R CS} (g : Bool) (a : Nat) (c0 : Ctx) : objSt st = true → Below R CS →
      Shape st g ((.objB, a) :: R) (c0 :: CS)
  | arr {st R CS} (g : Bool) (a : Nat) (c0 : Ctx) : arrSt st = true → Below R CS →
      Shape st g ((.arrB, a) :: R) (c0 :: CS)

def TC.Shape (c : TC) : Prop := Len.Shape c.st c.g c.K c.CS

theorem TC.init_shape : TC.init.Shape := Shape.root false

/-! ### running token lists -/

theorem trun_cons_some {c c1 c2 : TC} {t : Tok} {ts : List Tok} {e1 e2 : List Ev} (h1 : tstep c t = some (c1, e1))
    (h2 : trun c1 ts = some (c2, e2)) : trun c (t :: ts) = some (c2, e1 ++ e2) := by
  simp only [trun, h1, h2, Option.map_some]

/-- a completing run exists -/
def Completes (c : TC) (ts : List Tok) : Prop := ∃ c'' evs, trun c ts = some (c'', evs) ∧ Complete c''

theorem Completes.cons {c c1 : TC} {t : Tok} {ts : List Tok} {e1 : List Ev} (h1 : tstep c t = some (c1, e1))
    (h2 : Completes c1 ts) : Completes c (t :: ts) := by
  obtain ⟨c2, e2, hr, hc⟩ := h2
  exact ⟨c2, e1 ++ e2, trun_cons_some h1 hr, hc⟩

theorem closeK_pend (lit : Bool) (b : Nat) (K : List (LexT × Nat)) : closeK (pendOf lit b ++ K) = closeK K := by
  cases lit <;> rfl

/-- a value has been completed in a slot whose stack is `K0`: close the brackets below it -/
theorem close_below {K0 : List (LexT × Nat)} {CS : List Ctx} (hB : Below K0 CS) :
    ∀ (st : St), PV st = true → ∀ (lit : Bool) (b i : Nat) (cx : Ctx) (al : Bool),
      Completes ⟨st, false, pendOf lit b ++ K0, i, CS, cx, al⟩ (closeK K0) := by
  induction hB with
  | root =>
    intro st hpv lit b i cx al
    refine ⟨_, [], rfl, Or.inr ⟨hpv, rfl, ?_⟩⟩
    cases lit
    · exact Or.inl rfl
    · exact Or.inr ⟨b, rfl⟩
  | @item R CS b2 a c0 _ ih =>
    intro st hpv lit b i cx al
    have hstep : ∃ e, tstep ⟨st, false, pendOf lit b ++ (.itemB, b2) :: (.arrB, a) :: R, i, c0 :: CS, cx, al⟩ .rbrack
        = some (⟨.endValue, false, R, i + 1, CS, c0, !cx.arrayHasItem⟩, e) := by
      cases st <;> simp [PV] at hpv <;> cases lit <;> exact ⟨_, rfl⟩
    obtain ⟨e, hstep⟩ := hstep
    exact Completes.cons hstep (ih .endValue rfl false 0 (i + 1) c0 _)
  | @val R CS b2 a c0 _ ih =>
    intro st hpv lit b i cx al
    have hstep : ∃ e, tstep ⟨st, false, pendOf lit b ++ (.valB, b2) :: (.objB, a) :: R, i, c0 :: CS, cx, al⟩ .rbrace
        = some (⟨.endValue, false, R, i + 1, CS, c0, al⟩, e) := by
      cases st <;> simp [PV] at hpv <;> cases lit <;> exact ⟨_, rfl⟩
    obtain ⟨e, hstep⟩ := hstep
    exact Completes.cons hstep (ih .endValue rfl false 0 (i + 1) c0 _)

/-- where a member value may start -/
theorem close_objValue {R : List (LexT × Nat)} {CS : List Ctx} (hB : Below R CS) (g : Bool) (a i : Nat) (c0 cx : Ctx)
    (al : Bool) : Completes ⟨.objValue, g, (.objB, a) :: R, i, c0 :: CS, cx, al⟩ (.scalar one :: .rbrace :: closeK R) :=
  Completes.cons (c1 := ⟨.d1, false, pendOf true i ++ (.valB, i) :: (.objB, a) :: R, i + 1, c0 :: CS, cx, al⟩) rfl
    (close_below (Below.val i a c0 hB) .d1 rfl true i (i + 1) cx al)

/-- behind a key -/
theorem close_pvKey {R : List (LexT × Nat)} {CS : List Ctx} (hB : Below R CS) {st : St} (hpv : PV st = true)
    (b a i : Nat) (c0 cx : Ctx) (al : Bool) :
    Completes ⟨st, false, (.keyB, b) :: (.objB, a) :: R, i, c0 :: CS, cx, al⟩
      (.colon :: .scalar one :: .rbrace :: closeK R) := by
  have hstep : ∃ e, tstep ⟨st, false, (.keyB, b) :: (.objB, a) :: R, i, c0 :: CS, cx, al⟩ .colon
      = some (⟨.objValue, false, (.objB, a) :: R, i + 1, c0 :: CS, cx, al⟩, e) := by
    cases st <;> simp [PV] at hpv <;> exact ⟨_, rfl⟩
  obtain ⟨e, hstep⟩ := hstep
  exact Completes.cons hstep (close_objValue hB false a (i + 1) c0 cx al)

/-- **the closing tokens are accepted and complete the text** -/
theorem closers_complete (c : TC) (h : c.Shape) : Completes c (closers c) := by
  obtain ⟨st, g, K, i, CS, cx, al⟩ := c
  simp only [TC.Shape] at h
  cases h with
  | root => exact ⟨⟨.d1, false, [(.litB, i)], i + 1, [], cx, al⟩, _, rfl, Or.inr ⟨rfl, rfl, Or.inr ⟨i, rfl⟩⟩⟩
  | top => exact ⟨_, [], rfl, Or.inl ⟨rfl, rfl⟩⟩
  | @pv _ K0 _ lit b hpv hB =>
    have hh : headOf st = [] := by cases st <;> simp [PV] at hpv <;> rfl
    simp only [closers, hh, List.nil_append, closeK_pend]
    exact close_below hB st hpv lit b i cx al
  | @pvKey _ R CS' b a c0 hpv hB =>
    have hh : headOf st = [] := by cases st <;> simp [PV] at hpv <;> rfl
    simp only [closers, hh, List.nil_append]
    exact close_pvKey hB hpv b a i c0 cx al
  | @obj _ R CS' _ a c0 hst hB =>
    cases st <;> simp [objSt] at hst
    · -- objKeyOrEmpty
      exact Completes.cons (c1 := ⟨.endValue, false, R, i + 1, CS', c0, true⟩) rfl
        (close_below hB .endValue rfl false 0 (i + 1) c0 true)
    · -- objKey
      exact Completes.cons (c1 := ⟨.endValue, false, (.keyB, i) :: (.objB, a) :: R, i + 3, c0 :: CS', cx, al⟩) rfl
        (close_pvKey hB rfl i a (i + 3) c0 cx al)
    · -- objKeyAfterNL
      exact Completes.cons (c1 := ⟨.endValue, false, (.keyB, i) :: (.objB, a) :: R, i + 3, c0 :: CS', cx, al⟩) rfl
        (close_pvKey hB rfl i a (i + 3) c0 cx al)
    · -- objValue
      exact close_objValue hB g a i c0 cx al
    · -- afterKey
      exact Completes.cons (c1 := ⟨.objValue, false, (.objB, a) :: R, i + 1, c0 :: CS', cx, al⟩) rfl
        (close_objValue hB false a (i + 1) c0 cx al)
    · -- afterValue
      exact Completes.cons (c1 := ⟨.endValue, false, R, i + 1, CS', c0, al⟩) rfl
        (close_below hB .endValue rfl false 0 (i + 1) c0 al)
  | @arr _ R CS' _ a c0 hst hB =>
    cases st <;> simp [arrSt] at hst
    · -- arrItemOrEmpty
      exact Completes.cons (c1 := ⟨.endValue, false, R, i + 1, CS', c0, !cx.arrayHasItem⟩) rfl
        (close_below hB .endValue rfl false 0 (i + 1) c0 _)
    · -- arrItem
      exact Completes.cons (c1 := ⟨.d1, false, pendOf true i ++ (.itemB, i) :: (.arrB, a) :: R, i + 1, c0 :: CS', cx, al⟩) rfl
        (close_below (Below.item i a c0 hB) .d1 rfl true i (i + 1) cx al)
    · -- afterItem
      exact Completes.cons (c1 := ⟨.endValue, false, R, i + 1, CS', c0, !cx.arrayHasItem⟩) rfl
        (close_below hB .endValue rfl false 0 (i + 1) c0 _)

/-! ### every reachable state has the invariant -/

theorem pv_not_slot {st : St} (h : PV st = true) :
    vctxOf st = none ∧ wsLoop st = false ∧ keySt st = false ∧ objSt st = false ∧ arrSt st = false ∧ annLoop st = false := by
  cases st <;> simp [PV] at h <;> exact ⟨rfl, rfl, rfl, rfl, rfl, rfl⟩

/-- the stack of a value that starts in a slot -/
theorem slot_below {st : St} {g : Bool} {K : List (LexT × Nat)} {CS : List Ctx} (h : Shape st g K CS) {ctx : VCtx}
    (hv : vctxOf st = some ctx) (i : Nat) : Below (ctx.pre i ++ K) CS := by
  cases h with
  | root => cases ctx <;> simp [vctxOf] at hv; exact Below.root
  | top => simp [vctxOf] at hv
  | pv _ _ hpv _ => rw [(pv_not_slot hpv).1] at hv; cases hv
  | pvKey _ _ _ hpv _ => rw [(pv_not_slot hpv).1] at hv; cases hv
  | obj _ a c0 hst hB =>
    cases st <;> simp [objSt] at hst <;> simp [vctxOf] at hv
    subst hv
    exact Below.val i a c0 hB
  | arr _ a c0 hst hB =>
    cases st <;> simp [arrSt] at hst <;> simp [vctxOf] at hv <;> subst hv <;> exact Below.item i a c0 hB

/-- the step function moves inside its class, stack and contexts stay -/
theorem Shape.same {st : St} {g : Bool} {K : List (LexT × Nat)} {CS : List Ctx} (h : Shape st g K CS)
    (hn : PV st = false) (st' : St) (g' : Bool) (hroot : st = .foundRoot → st' = .foundRoot)
    (htop : st = .endTop → st' = .endTop) (hobj : objSt st = true → objSt st' = true)
    (harr : arrSt st = true → arrSt st' = true) : Shape st' g' K CS := by
  cases h with
  | root => rw [hroot rfl]; exact Shape.root g'
  | top => rw [htop rfl]; exact Shape.top g' CS
  | pv _ _ hpv _ => rw [hpv] at hn; cases hn
  | pvKey _ _ _ hpv _ => rw [hpv] at hn; cases hn
  | obj _ a c0 hst hB => exact Shape.obj g' a c0 (hobj hst) hB
  | arr _ a c0 hst hB => exact Shape.arr g' a c0 (harr hst) hB

theorem nlStep_shape {c c' : TC} {e : List Ev} (h : c.Shape) (hn : PV c.st = false) (hs : nlStep c = some (c', e)) :
    c'.Shape := by
  unfold nlStep at hs
  split at hs
  · cases hs
    refine Shape.same h hn _ _ ?_ ?_ ?_ ?_
    · intro e; rw [e]; rfl
    · intro e; rw [e]; rfl
    · intro ho; revert ho; cases c.st <;> simp [objSt, nlSt]
    · intro ho; revert ho; cases c.st <;> simp [arrSt, nlSt]
  · cases hs

theorem closePV_shape {c c1 : TC} {e1 : List Ev} (h : c.Shape) (hpv : PV c.st = true)
    (hc : closePV c = some (c1, e1)) : c1.Shape ∧ PV c1.st = false := by
  obtain ⟨st, g, K, i, CS, cx, al⟩ := c
  simp only [TC.Shape] at h hpv
  cases h with
  | root => cases hpv
  | top => cases hpv
  | @pv _ K0 _ lit b _ hB =>
    cases hB with
    | root =>
      have : c1 = ⟨.endTop, false, [], i, [], cx, al⟩ := by
        cases lit <;> (simp [closePV, pendOf, pendOfK, isLitB] at hc; exact hc.1.symm)
      subst this
      exact ⟨Shape.top false [], rfl⟩
    | @item R CS' b2 a c0 hB' =>
      have : c1 = ⟨.afterItem, false, (.arrB, a) :: R, i, c0 :: CS', cx, al⟩ := by
        cases lit <;> (simp [closePV, pendOf, pendOfK, isLitB, ckOf, CK.aft] at hc; exact hc.1.symm)
      subst this
      exact ⟨Shape.arr false a c0 rfl hB', rfl⟩
    | @val R CS' b2 a c0 hB' =>
      have : c1 = ⟨.afterValue, false, (.objB, a) :: R, i, c0 :: CS', cx, al⟩ := by
        cases lit <;> (simp [closePV, pendOf, pendOfK, isLitB, ckOf, CK.aft] at hc; exact hc.1.symm)
      subst this
      exact ⟨Shape.obj false a c0 rfl hB', rfl⟩
  | @pvKey _ R CS' b a c0 _ hB =>
    have : c1 = ⟨.afterKey, false, (.objB, a) :: R, i, c0 :: CS', cx, al⟩ := by
      simp [closePV, pendOfK, isLitB, ckOf, CK.aft] at hc; exact hc.1.symm
    subst this
    exact ⟨Shape.obj false a c0 rfl hB, rfl⟩
  | obj _ _ _ hst _ => rw [(pv_not_slot hpv).2.2.2.1] at hst; cases hst
  | arr _ _ _ hst _ => rw [(pv_not_slot hpv).2.2.2.2.1] at hst; cases hst

theorem slotStep_shape {c c' : TC} {t : Tok} {e : List Ev} (h : c.Shape) (hn : PV c.st = false)
    (hs : slotStep c t = some (c', e)) (hw : t.WF) : c'.Shape := by
  cases t with
  | sp ch =>
    simp only [slotStep] at hs
    split at hs <;> cases hs
    exact h
  | nl => exact nlStep_shape h hn hs
  | cmt text =>
    simp only [slotStep] at hs
    split at hs
    · cases hn' : nlStep { c with i := c.i + 1 + text.length } with
      | none => rw [hn'] at hs; cases hs
      | some r =>
        rw [hn'] at hs
        simp only [Option.map_some, Option.some.injEq, Prod.mk.injEq] at hs
        obtain ⟨rfl, _⟩ := hs
        exact nlStep_shape (c := { c with i := c.i + 1 + text.length }) h hn hn'
    · cases hs
  | ann b =>
    simp only [slotStep] at hs
    split at hs <;> cases hs
    exact Shape.same h hn _ _ (fun e => e) (fun e => e) (fun e => e) (fun e => e)
  | scalar tok =>
    simp only [slotStep] at hs
    cases hv : vctxOf c.st with
    | none => rw [hv] at hs; cases hs
    | some ctx =>
      rw [hv] at hs
      simp only [Option.map_some, Option.some.injEq, Prod.mk.injEq] at hs
      obtain ⟨rfl, _⟩ := hs
      obtain ⟨c0, tl, st0, u0, stE, rfl, hl, hr, hp⟩ := hw
      have hE : endStOf (c0 :: tl) = stE := by simp [endStOf, Tree.endSt, hl, hr]
      have hB := slot_below h hv c.i
      exact Shape.pv (st := endStOf (c0 :: tl)) true c.i (by rw [hE]; exact hp) hB
  | key k =>
    simp only [slotStep] at hs
    split at hs
    · rename_i hk
      cases hs
      obtain ⟨st, g, K, i, CS, cx, al⟩ := c
      simp only [TC.Shape] at h hk ⊢
      cases h with
      | root => cases hk
      | top => cases hk
      | pv _ _ hpv _ => rw [(pv_not_slot hpv).2.2.1] at hk; cases hk
      | pvKey _ _ _ hpv _ => rw [(pv_not_slot hpv).2.2.1] at hk; cases hk
      | obj _ a c0 hst hB => exact Shape.pvKey i a c0 rfl hB
      | arr _ a c0 hst hB => cases st <;> simp [arrSt] at hst <;> cases hk
    · cases hs
  | lbrace =>
    simp only [slotStep] at hs
    cases hv : vctxOf c.st with
    | none => rw [hv] at hs; cases hs
    | some ctx =>
      rw [hv] at hs
      simp only [Option.map_some, Option.some.injEq, Prod.mk.injEq] at hs
      obtain ⟨rfl, _⟩ := hs
      exact Shape.obj false c.i _ rfl (slot_below h hv c.i)
  | lbrack =>
    simp only [slotStep] at hs
    cases hv : vctxOf c.st with
    | none => rw [hv] at hs; cases hs
    | some ctx =>
      rw [hv] at hs
      simp only [Option.map_some, Option.some.injEq, Prod.mk.injEq] at hs
      obtain ⟨rfl, _⟩ := hs
      exact Shape.arr false c.i _ rfl (slot_below h hv c.i)
  | rbrace =>
    obtain ⟨st, g, K, i, CS, cx, al⟩ := c
    simp only [TC.Shape] at h hn
    simp only [slotStep] at hs
    cases h with
    | root => simp at hs
    | top => simp at hs
    | pv _ _ hpv _ => rw [hpv] at hn; cases hn
    | pvKey _ _ _ hpv _ => rw [hpv] at hn; cases hn
    | obj _ a c0 hst hB =>
      cases st <;> simp [objSt] at hst <;> simp at hs <;> (obtain ⟨rfl, _⟩ := hs; exact Shape.pv false 0 rfl hB)
    | arr _ a c0 hst hB => cases st <;> simp [arrSt] at hst <;> simp at hs
  | rbrack =>
    obtain ⟨st, g, K, i, CS, cx, al⟩ := c
    simp only [TC.Shape] at h hn
    simp only [slotStep] at hs
    cases h with
    | root => simp at hs
    | top => simp at hs
    | pv _ _ hpv _ => rw [hpv] at hn; cases hn
    | pvKey _ _ _ hpv _ => rw [hpv] at hn; cases hn
    | obj _ a c0 hst hB => cases st <;> simp [objSt] at hst <;> simp at hs
    | arr _ a c0 hst hB =>
      cases st <;> simp [arrSt] at hst <;> simp at hs <;> (obtain ⟨rfl, _⟩ := hs; exact Shape.pv false 0 rfl hB)
  | comma =>
    simp only [slotStep] at hs
    split at hs
    · rename_i hst
      cases hs
      refine Shape.same h hn _ _ ?_ ?_ ?_ ?_ <;> rw [hst] <;> intro e <;> first | rfl | cases e
    · rename_i hst
      cases hs
      refine Shape.same h hn _ _ ?_ ?_ ?_ ?_ <;> rw [hst] <;> intro e <;> first | rfl | cases e
    · cases hs
  | colon =>
    simp only [slotStep] at hs
    split at hs
    · rename_i hst
      cases hs
      refine Shape.same h hn _ _ ?_ ?_ ?_ ?_ <;> rw [hst] <;> intro e <;> first | rfl | cases e
    · cases hs

theorem aslot_shape {c c' : TC} {t : ATok} {e : List Ev} (h : c.Shape) (hn : PV c.st = false)
    (hs : aslot c t = some (c', e)) (hw : t.WF) : c'.Shape := by
  cases t with
  | base t => exact slotStep_shape h hn hs hw
  | ml b =>
    simp only [aslot, mlSlot] at hs
    split at hs <;> cases hs
    exact h

/-- one token keeps the invariant -/
theorem astep_shape {c c' : TC} {t : ATok} {e : List Ev} (h : c.Shape) (hs : astep c t = some (c', e)) (hw : t.WF) :
    c'.Shape := by
  unfold astep at hs
  by_cases hpv : PV c.st = true
  · rw [if_pos hpv] at hs
    split at hs
    · cases hs
    · cases hc : closePV c with
      | none => rw [hc] at hs; cases hs
      | some r =>
        obtain ⟨c1, e1⟩ := r
        rw [hc] at hs
        simp only at hs
        cases ha : aslot c1 t with
        | none => rw [ha] at hs; cases hs
        | some r2 =>
          rw [ha] at hs
          simp only [Option.map_some, Option.some.injEq, Prod.mk.injEq] at hs
          obtain ⟨rfl, _⟩ := hs
          obtain ⟨h1, hn1⟩ := closePV_shape h hpv hc
          exact aslot_shape h1 hn1 ha hw
  · rw [if_neg hpv] at hs
    exact aslot_shape h (by simpa using hpv) hs hw

theorem arun_shape : ∀ (toks : List ATok) (c c' : TC) (evs : List Ev), c.Shape → arun c toks = some (c', evs) →
    (∀ t ∈ toks, t.WF) → c'.Shape
  | [], c, c', evs, h, hr, _ => by
    simp only [arun, Option.some.injEq, Prod.mk.injEq] at hr
    obtain ⟨rfl, _⟩ := hr
    exact h
  | t :: ts, c, c', evs, h, hr, hw => by
    obtain ⟨c1, e1, e2, ht, hr2, _⟩ := arun_cons hr
    exact arun_shape ts c1 c' e2 (astep_shape h ht (hw t (by simp))) hr2 (fun x hx => hw x (by simp [hx]))

/-! ### every accepted token prefix can be completed -/

theorem arun_base : ∀ (ts : List Tok) (c : TC), arun c (ts.map ATok.base) = trun c ts
  | [], _ => rfl
  | t :: ts, c => by
    simp only [List.map_cons, arun, trun, astep_base]
    cases tstep c t with
    | none => rfl
    | some r => simp only [arun_base ts r.1]

theorem arun_append : ∀ (a b : List ATok) (c c1 c2 : TC) (e1 e2 : List Ev), arun c a = some (c1, e1) →
    arun c1 b = some (c2, e2) → arun c (a ++ b) = some (c2, e1 ++ e2)
  | [], b, c, c1, c2, e1, e2, h1, h2 => by
    simp only [arun, Option.some.injEq, Prod.mk.injEq] at h1
    obtain ⟨rfl, rfl⟩ := h1
    simpa using h2
  | t :: ts, b, c, c1, c2, e1, e2, h1, h2 => by
    obtain ⟨c0, e0, e3, ht, hr, rfl⟩ := arun_cons h1
    have := arun_append ts b c0 c1 c2 e3 e2 hr h2
    simp only [List.cons_append, arun, ht, this, Option.map_some, List.append_assoc]

theorem renderAToks_append : ∀ (a b : List ATok), renderAToks (a ++ b) = renderAToks a ++ renderAToks b
  | [], _ => rfl
  | t :: ts, b => by simp only [List.cons_append, renderAToks, renderAToks_append ts b, List.append_assoc]

theorem renderAToks_base : ∀ (ts : List Tok), renderAToks (ts.map ATok.base) = renderToks ts
  | [] => rfl
  | t :: ts => by simp only [List.map_cons, renderAToks, renderToks, renderAToks_base ts, ATok.render]

/-- **viability on the token level** (token grammar with inline and multi-line annotations and user comments):
whatever token list has been accepted from the initial state, the closing tokens of the state reached are well-formed,
are accepted behind it, and complete the text -/
theorem arun_viable (toks : List ATok) (hw : ∀ t ∈ toks, t.WF) (c' : TC) (evs : List Ev)
    (h : arun TC.init toks = some (c', evs)) :
    (∀ t ∈ closers c', t.WF) ∧
    ∃ c'' evs', arun TC.init (toks ++ (closers c').map ATok.base) = some (c'', evs ++ evs') ∧ Complete c'' := by
  refine ⟨closers_wf c', ?_⟩
  have hS := arun_shape toks TC.init c' evs TC.init_shape h hw
  obtain ⟨c'', evs', hr, hc⟩ := closers_complete c' hS
  refine ⟨c'', evs', ?_, hc⟩
  exact arun_append toks _ TC.init c' c'' evs evs' h (by rw [arun_base]; exact hr)

/-- the same for the token grammar without multi-line annotations (`trun`) -/
theorem trun_viable (toks : List Tok) (hw : ∀ t ∈ toks, t.WF) (c' : TC) (evs : List Ev)
    (h : trun TC.init toks = some (c', evs)) :
    (∀ t ∈ closers c', t.WF) ∧
    ∃ c'' evs', trun TC.init (toks ++ closers c') = some (c'', evs ++ evs') ∧ Complete c'' := by
  have h' : arun TC.init (toks.map ATok.base) = some (c', evs) := by rw [arun_base]; exact h
  obtain ⟨h1, c'', evs', hr, hc⟩ := arun_viable (toks.map ATok.base) (by
    intro t ht
    obtain ⟨x, hx, rfl⟩ := List.mem_map.mp ht
    exact hw x hx) c' evs h'
  refine ⟨h1, c'', evs', ?_, hc⟩
  rw [← List.map_append, arun_base] at hr
  exact hr

/-! ### lifted to bytes -/

/-- a byte of every class -/
def clsByte : Cls → UInt8
  | .sp => 32 | .tab => 9 | .nl => 10 | .lbrace => 123 | .rbrace => 125 | .lbrack => 91 | .rbrack => 93
  | .colon => 58 | .comma => 44 | .quote => 34 | .bslash => 92 | .slash => 47 | .hash => 35 | .at => 64
  | .star => 42 | .pipe => 124 | .minus => 45 | .underscore => 95 | .plus => 43 | .zero => 48 | .d19 => 49
  | .dot => 46 | .le => 101 | .uE => 69 | .lt => 116 | .lr => 114 | .lu => 117 | .lf => 102 | .la => 97
  | .ll => 108 | .ls => 115 | .ln => 110 | .lb => 98 | .hexo => 99 | .nameo => 103 | .ctrl => 1 | .other => 33

theorem classify_clsByte (c : Cls) : classify (clsByte c) = c := by cases c <;> rfl

theorem map_classify_clsByte (l : List Cls) : (l.map clsByte).map classify = l := by
  induction l with
  | nil => rfl
  | cons c cs ih => simp only [List.map_cons, classify_clsByte, ih]

/-- the closing text of a state: `1`, `"a":1`, `:1`, then `}` / `]` / `:1` for what is open -/
def closerBytes (c : TC) : List UInt8 := (renderToks (closers c)).map clsByte

end Len

open Len in
/-- **the byte text of an accepted token list is a viable prefix**: the scanner model accepts it followed by the closing
text of the state reached -/
theorem bytes_viable (toks : List ATok) (hw : ∀ t ∈ toks, t.WF) (c' : TC) (evs : List Ev)
    (h : arun TC.init toks = some (c', evs)) (bs : List UInt8) (hbs : bs.map classify = renderAToks toks) :
    ∃ evs', scanAll (bs ++ closerBytes c') = .ok evs' := by
  obtain ⟨hwc, c'', evs', hr, hc⟩ := arun_viable toks hw c' evs h
  refine ⟨_, scan_atoks_whole (toks ++ (closers c').map ATok.base) ?_ c'' (evs ++ evs') hr hc _ ?_⟩
  · intro t ht
    rcases List.mem_append.mp ht with h1 | h1
    · exact hw t h1
    · obtain ⟨x, hx, rfl⟩ := List.mem_map.mp h1
      exact hwc x hx
  · rw [List.map_append, hbs, renderAToks_append, renderAToks_base, closerBytes, map_classify_clsByte]

namespace Len
end Len
end SchemaScan
