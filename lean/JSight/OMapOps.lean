import JSight.OMap
/-!
C19: the operations of the generated ordered map as one step function with observations, and the
reference insertion-ordered association list with the same interface.
-/
namespace OMap
variable {κ ν : Type} [DecidableEq κ]

inductive Op (κ ν : Type)
  | set (k : κ) (v : ν)
  | update (k : κ) (f : ν → ν)
  | delete (k : κ)
  | filter (p : κ → ν → Bool)
  | map (f : κ → ν → ν)
  | find (p : κ → ν → Bool)
  | each                       -- Each / EachSafe / MarshalJSON: what the iteration sees
  | get (k : κ)                -- Get / GetValue
  | has (k : κ)
  | len

inductive Obs (κ ν : Type)
  | unit
  | visit (l : List (κ × ν))
  | found (o : Option (κ × ν))
  | got (o : Option ν)
  | bool (b : Bool)
  | nat (n : Nat)
  deriving DecidableEq

/-- `Map`: `for _, k := range m.order { m.data[k] = fn(k, m.data[k]) }` (on keys of `order`) -/
def M.mapVals (m : M κ ν) (f : κ → ν → ν) : M κ ν :=
  { m with data := fun k => if k ∈ m.order then (m.data k).map (f k) else m.data k }

/-- what an iteration over `order` reading `data[k]` sees when it visits the keys `ks` -/
def M.see (m : M κ ν) (ks : List κ) : List (κ × ν) := ks.filterMap (fun k => (m.data k).map (fun v => (k, v)))

def M.step (m : M κ ν) : Op κ ν → M κ ν × Obs κ ν
  | .set k v => (m.set k v, .unit)
  | .update k f => (m.update k f, .unit)
  | .delete k => (m.delete k, .unit)
  | .filter p => ((m.filter p).1, .visit (m.see (m.filter p).2))
  | .map f => (m.mapVals f, .visit (m.see m.order))
  | .find p => (m, .found ((m.see m.order).find? (fun e => p e.1 e.2)))
  | .each => (m, .visit (m.see m.order))
  | .get k => (m, .got (m.data k))
  | .has k => (m, .bool (m.has k))
  | .len => (m, .nat m.len)

def M.run (m : M κ ν) : List (Op κ ν) → M κ ν × List (Obs κ ν)
  | [] => (m, [])
  | op :: ops => let (m', o) := m.step op; let (m'', os) := M.run m' ops; (m'', o :: os)

/-! reference -/
def Ref.get (r : Ref κ ν) (k : κ) : Option ν := (r.find? (·.1 == k)).map (·.2)
def Ref.update (r : Ref κ ν) (k : κ) (f : ν → ν) : Ref κ ν := r.map (fun e => if e.1 = k then (e.1, f e.2) else e)
def Ref.mapVals (r : Ref κ ν) (f : κ → ν → ν) : Ref κ ν := r.map (fun e => (e.1, f e.1 e.2))

def Ref.step (r : Ref κ ν) : Op κ ν → Ref κ ν × Obs κ ν
  | .set k v => (Ref.set r k v, .unit)
  | .update k f => (Ref.update r k f, .unit)
  | .delete k => (Ref.delete r k, .unit)
  | .filter p => (Ref.filter r p, .visit r)          -- every entry visited exactly once, in order
  | .map f => (Ref.mapVals r f, .visit r)
  | .find p => (r, .found (r.find? (fun e => p e.1 e.2)))
  | .each => (r, .visit r)
  | .get k => (r, .got (Ref.get r k))
  | .has k => (r, .bool (Ref.has r k))
  | .len => (r, .nat r.length)

def Ref.run (r : Ref κ ν) : List (Op κ ν) → Ref κ ν × List (Obs κ ν)
  | [] => (r, [])
  | op :: ops => let (r', o) := Ref.step r op; let (r'', os) := Ref.run r' ops; (r'', o :: os)

end OMap
