import JSight.ExampleShortCut
/-!
The two closed forms agree where the one without the cut-off answers: if `exampleOf tys f t = some d` then the
transliteration of the builder WITH its cut-off answers the same document for some fuel — the cut-off never fires,
because a name that is being processed cannot be met again inside a finite unfolding (invariant: every name in `proc`
needs more fuel than what is left).
-/
namespace RE
open SE (BST BItem BMember TypeText namesOf)

theorem cutItems_mono (r r' : BST → Option (Option Doc)) (h : ∀ t x, r t = some x → r' t = some x) :
    (its : List BItem) → (xs : List Doc) → cutItems r its = some xs → cutItems r' its = some xs
  | [], _, he => he
  | it :: its, xs, he => by
    simp only [cutItems] at he ⊢
    cases hr : r it.2.1 with
    | none => simp [hr] at he
    | some x =>
      cases hrs : cutItems r its with
      | none => cases x <;> simp [hr, hrs] at he
      | some ds =>
        simp only [hr, hrs] at he
        simp only [h _ _ hr, cutItems_mono r r' h its ds hrs]
        exact he

theorem cutMembers_mono (r r' : BST → Option (Option Doc)) (h : ∀ t x, r t = some x → r' t = some x) :
    (ms : List BMember) → (xs : List (String × Doc)) → cutMembers r ms = some xs → cutMembers r' ms = some xs
  | [], _, he => he
  | m :: ms, xs, he => by
    simp only [cutMembers] at he ⊢
    cases hr : r m.2.2.2.2.1 with
    | none => simp [hr] at he
    | some x =>
      cases hrs : cutMembers r ms with
      | none => cases x <;> simp [hr, hrs] at he
      | some ds =>
        simp only [hr, hrs] at he
        simp only [h _ _ hr, cutMembers_mono r r' h ms ds hrs]
        exact he

theorem stepC_mono (tys : List TypeText) (r r' : List String → BST → Option (Option Doc))
    (h : ∀ p t x, r p t = some x → r' p t = some x) (proc : List String) (t : BST) (x : Option Doc)
    (he : stepC tys r proc t = some x) : stepC tys r' proc t = some x := by
  cases t with
  | scalar tok => exact he
  | short f as sps =>
    simp only [stepC] at he ⊢
    cases hn : namesOf f as sps with
    | nil => simp [hn] at he
    | cons n rest =>
      simp only [hn] at he ⊢
      by_cases hc : proc.count n > 1
      · simpa [hc] using he
      · simp only [hc, if_false] at he ⊢
        cases hl : lookupB tys n with
        | none => simp [hl] at he
        | some t' =>
          simp only [hl] at he ⊢
          exact h _ _ _ he
  | arr w its =>
    simp only [stepC, Option.map_eq_some_iff] at he ⊢
    obtain ⟨xs, hxs, rfl⟩ := he
    exact ⟨xs, cutItems_mono _ _ (h proc) its xs hxs, rfl⟩
  | obj w ms =>
    simp only [stepC, Option.map_eq_some_iff] at he ⊢
    obtain ⟨xs, hxs, rfl⟩ := he
    exact ⟨xs, cutMembers_mono _ _ (h proc) ms xs hxs, rfl⟩

theorem exampleCut_succ (tys : List TypeText) : (g : Nat) → (p : List String) → (t : BST) → (x : Option Doc) →
    exampleCut tys g p t = some x → exampleCut tys (g + 1) p t = some x
  | 0, _, _, _, h => by simp [exampleCut] at h
  | g + 1, p, t, x, h => stepC_mono tys _ _ (exampleCut_succ tys g) p t x h

theorem exampleCut_le (tys : List TypeText) (f g : Nat) (hle : f ≤ g) (p : List String) (t : BST) (x : Option Doc)
    (h : exampleCut tys f p t = some x) : exampleCut tys g p t = some x := by
  induction hle with
  | refl => exact h
  | step _ ih => exact exampleCut_succ tys _ p t x ih

/-- the least fuel at which the closed form answers -/
theorem min_fuel (tys : List TypeText) (t : BST) (d : Doc) : (f : Nat) → exampleOf tys f t = some d →
    ∃ g0, g0 + 1 ≤ f ∧ exampleOf tys (g0 + 1) t = some d ∧ exampleOf tys g0 t = none
  | 0, h => by simp [exampleOf] at h
  | f + 1, h => by
    cases hf : exampleOf tys f t with
    | none => exact ⟨f, Nat.le_refl _, h, hf⟩
    | some d' =>
      have h' := exampleOf_succ tys f t d' hf
      rw [h] at h'
      cases h'
      obtain ⟨g0, h1, h2, h3⟩ := min_fuel tys t d f hf
      exact ⟨g0, by omega, h2, h3⟩

theorem none_of_le (tys : List TypeText) (f g : Nat) (hle : f ≤ g) (t : BST) (h : exampleOf tys g t = none) :
    exampleOf tys f t = none := by
  cases hf : exampleOf tys f t with
  | none => rfl
  | some d => rw [exampleOf_le tys f g hle t d hf] at h; cases h

theorem items_agree (tys : List TypeText) (r : BST → Option Doc) (proc : List String)
    (H : ∀ t x, r t = some x → ∃ g, exampleCut tys g proc t = some (some x)) :
    (its : List BItem) → (xs : List Doc) → exItems r its = some xs →
      ∃ g, cutItems (exampleCut tys g proc) its = some xs
  | [], xs, he => ⟨0, he⟩
  | it :: its, xs, he => by
    simp only [exItems] at he
    cases hr : r it.2.1 with
    | none => simp [hr] at he
    | some d =>
      cases hrs : exItems r its with
      | none => simp [hr, hrs] at he
      | some ds =>
        simp only [hr, hrs, Option.some.injEq] at he
        subst he
        obtain ⟨g1, h1⟩ := H _ _ hr
        obtain ⟨g2, h2⟩ := items_agree tys r proc H its ds hrs
        refine ⟨max g1 g2, ?_⟩
        simp only [cutItems]
        rw [exampleCut_le tys g1 (max g1 g2) (Nat.le_max_left _ _) proc _ _ h1,
          cutItems_mono _ _ (fun t x => exampleCut_le tys g2 (max g1 g2) (Nat.le_max_right _ _) proc t x) its ds h2]

theorem members_agree (tys : List TypeText) (r : BST → Option Doc) (proc : List String)
    (H : ∀ t x, r t = some x → ∃ g, exampleCut tys g proc t = some (some x)) :
    (ms : List BMember) → (xs : List (String × Doc)) → exMembers r ms = some xs →
      ∃ g, cutMembers (exampleCut tys g proc) ms = some xs
  | [], xs, he => ⟨0, he⟩
  | m :: ms, xs, he => by
    simp only [exMembers] at he
    cases hr : r m.2.2.2.2.1 with
    | none => simp [hr] at he
    | some d =>
      cases hrs : exMembers r ms with
      | none => simp [hr, hrs] at he
      | some ds =>
        simp only [hr, hrs, Option.some.injEq] at he
        subst he
        obtain ⟨g1, h1⟩ := H _ _ hr
        obtain ⟨g2, h2⟩ := members_agree tys r proc H ms ds hrs
        refine ⟨max g1 g2, ?_⟩
        simp only [cutMembers]
        rw [exampleCut_le tys g1 (max g1 g2) (Nat.le_max_left _ _) proc _ _ h1,
          cutMembers_mono _ _ (fun t x => exampleCut_le tys g2 (max g1 g2) (Nat.le_max_right _ _) proc t x) ms ds h2]

/-- every name being processed needs more fuel than `f` -/
def Inv (tys : List TypeText) (f : Nat) (proc : List String) : Prop :=
  ∀ m ∈ proc, ∀ tm, lookupB tys m = some tm → exampleOf tys f tm = none

theorem Inv_le (tys : List TypeText) (f g : Nat) (hle : f ≤ g) (proc : List String) (h : Inv tys g proc) :
    Inv tys f proc := fun m hm tm hl => none_of_le tys f g hle tm (h m hm tm hl)

theorem agree (tys : List TypeText) (f : Nat) : ∀ (t : BST) (d : Doc) (proc : List String),
    exampleOf tys (f + 1) t = some d → Inv tys f proc → ∃ g, exampleCut tys g proc t = some (some d) := by
  induction f using Nat.strongRecOn with
  | _ f ih =>
    intro t d proc he hinv
    have H : ∀ t x, exampleOf tys f t = some x → ∃ g, exampleCut tys g proc t = some (some x) := by
      intro t x hx
      cases f with
      | zero => simp [exampleOf] at hx
      | succ f' => exact ih f' (Nat.lt_succ_self _) t x proc hx (Inv_le tys f' (f' + 1) (Nat.le_succ _) proc hinv)
    cases t with
    | scalar tok =>
      refine ⟨1, ?_⟩
      simp only [exampleOf, stepE, Option.some.injEq] at he
      subst he
      rfl
    | short fi as sps =>
      simp only [exampleOf, stepE] at he
      cases hn : namesOf fi as sps with
      | nil => simp [hn] at he
      | cons n rest =>
        simp only [hn] at he
        cases hl : lookupB tys n with
        | none => simp [hl] at he
        | some tn =>
          simp only [hl] at he
          have hnp : n ∉ proc := by
            intro hm
            rw [hinv n hm tn hl] at he
            cases he
          obtain ⟨g0, h1, h2, h3⟩ := min_fuel tys tn d f he
          have hinv' : Inv tys g0 (n :: proc) := by
            intro m hm tm hlm
            simp only [List.mem_cons] at hm
            rcases hm with rfl | hm
            · rw [hl] at hlm; cases hlm; exact h3
            · exact none_of_le tys g0 f (by omega) tm (hinv m hm tm hlm)
          obtain ⟨g, hg⟩ := ih g0 (by omega) tn d (n :: proc) h2 hinv'
          refine ⟨g + 1, ?_⟩
          simp only [exampleCut, stepC, hn, hl, List.count_eq_zero_of_not_mem hnp]
          simpa using hg
    | arr w its =>
      simp only [exampleOf, stepE, Option.map_eq_some_iff] at he
      obtain ⟨xs, hxs, rfl⟩ := he
      obtain ⟨g, hg⟩ := items_agree tys _ proc H its xs hxs
      refine ⟨g + 1, ?_⟩
      simp only [exampleCut, stepC, hg, Option.map_some]
    | obj w ms =>
      simp only [exampleOf, stepE, Option.map_eq_some_iff] at he
      obtain ⟨xs, hxs, rfl⟩ := he
      obtain ⟨g, hg⟩ := members_agree tys _ proc H ms xs hxs
      refine ⟨g + 1, ?_⟩
      simp only [exampleCut, stepC, hg, Option.map_some]

/-- where the closed form answers, the builder with the cut-off (transliteration) answers the same document: the
cut-off does not fire -/
theorem exampleCut_of_exampleOf (tys : List TypeText) (f : Nat) (t : BST) (d : Doc)
    (he : exampleOf tys f t = some d) : ∃ g, exampleCut tys g [] t = some (some d) := by
  cases f with
  | zero => simp [exampleOf] at he
  | succ f => exact agree tys f t d [] he (fun m hm => by simp at hm)

end RE
