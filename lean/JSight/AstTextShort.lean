import JSight.AstTextTree
import JSight.AstTextThm
import JSight.ShortE2ELoad
/-!
C16 at text level, schema texts whose values are type shortcuts: `astOfText` of the text of a tree whose leaves are
scalars or type shortcuts (`SE.BST`, any depth and layout) is the AST computed from the TREE by offsets (`AstText.S.astOff`):
one node per value in source order; a scalar leaf as in `AstTextTree`; a shortcut leaf is what `ownOf` makes of the
loader's shortcut node (`Loader.shortNode`) — by `C16_shortcut_reference_nodes` / `_or` a REFERENCE node carrying the
names, its synthesised rule marked generated (`S.astOff_short_type`, `S.astOff_short_or`).
-/
namespace AstText
namespace S
open Loader hiding nodesOf nodesItems nodesMembers idxItems idxMembers keysMembers nextItem nextMember nodeCount
  countItems countMembers Item Member
open LoaderS (nodesOf nodesItems nodesMembers idxItems idxMembers keysMembers nextItem nextMember nodeCount
  countItems countMembers ruleOf)
open SchemaScan (Cls STree classify)

abbrev Item := SchemaScan.SItem
abbrev Member := SchemaScan.SMember

/-- the end of a shortcut's `types-shortcut-end` lexeme, and of its `mixed-value-end` lexeme -/
def tsEnd (o : Nat) (sc : SchemaScan.Len.Shortcut) (sps : List Cls) : Nat := o + (sc.render ++ sps).length - 1
def mixEnd (o : Nat) (sc : SchemaScan.Len.Shortcut) (sps : List Cls) : Nat :=
  SchemaScan.mixEndOf (o + (sc.render ++ sps).length - 1) (sc.render ++ sps)

mutual
def astOff (src : Array UInt8) (evs : List SchemaScan.Ev) : Nat → STree → Bytes × Bool → M AstNode
  | o, .scalar tok, key =>
    match RulesF.kindOfTok (slice src o (o + tok.length - 1)) with
    | none => unsup "literal kind"
    | some k => pure (.mk key.1 key.2 (kindTok k) (schemaTypeOf [] (kindName k))
        (unq (slice src o (o + tok.length - 1))) [] [] [])
  | o, .short sc sps, key =>
    match ownOf src evs (shortNode none o (tsEnd o sc sps) (mixEnd o sc sps) (ruleOf sc)) with
    | .error e => .error e
    | .ok w => pure (.mk key.1 key.2 w.tok w.schemaType w.value w.comment w.rules [])
  | o, .arr ws0 its, key =>
    match itemsOff src evs (o + 1 + ws0.length) its with
    | .error e => .error e
    | .ok kids => pure (.mk key.1 key.2 "array" (schemaTypeOf [] "array") [] [] [] kids)
  | o, .obj ws0 ms, key =>
    match membersOff src evs (o + 1 + ws0.length) ms with
    | .error e => .error e
    | .ok kids => pure (.mk key.1 key.2 "object" (schemaTypeOf [] "object") [] [] [] kids)
def itemsOff (src : Array UInt8) (evs : List SchemaScan.Ev) : Nat → List Item → M (List AstNode)
  | _, [] => pure []
  | o, (w1, v, w2) :: its => do
    let n ← astOff src evs (o + w1.length) v ([], false)
    let ns ← itemsOff src evs (nextItem o w1 v w2 its) its
    pure (n :: ns)
def membersOff (src : Array UInt8) (evs : List SchemaScan.Ev) : Nat → List Member → M (List AstNode)
  | _, [] => pure []
  | o, (w1, k, w2, w3, v, w4) :: ms => do
    let n ← astOff src evs (valOff o w1 k w2 w3) v (keyText src (o + w1.length, o + w1.length + k.length - 1, false))
    let ns ← membersOff src evs (nextMember o w1 k w2 w3 v w4 ms) ms
    pure (n :: ns)
end

theorem ownOf_par (src : Array UInt8) (evs : List SchemaScan.Ev) (par : Option Nat) (o e e' : Nat) (nm : String) :
    ownOf src evs (shortNode par o e e' nm) = ownOf src evs (shortNode none o e e' nm) := rfl

theorem keysMembers_length : (ms : List Member) → (o : Nat) → (keysMembers o ms).length = ms.length
  | [], _ => rfl
  | (w1, k, w2, w3, v, w4) :: ms, o => by simp [keysMembers, keysMembers_length ms]

section build
variable (src : Array UInt8) (evs : List SchemaScan.Ev)

mutual
theorem astAt_nodesOf : (v : STree) → (pre post : List Node) → (par : Option Nat) → (o fuel : Nat) →
    (key : Bytes × Bool) → nodeCount v ≤ fuel →
    astAt src evs (pre ++ (nodesOf par pre.length o v ++ post)).toArray fuel pre.length key = astOff src evs o v key
  | .scalar tok, pre, post, par, o, fuel, key, hf => by
    obtain ⟨f, rfl⟩ : ∃ f, fuel = f + 1 := ⟨fuel - 1, by simp [nodeCount] at hf; omega⟩
    simp only [nodesOf, List.cons_append, List.nil_append, astAt, getElem?_toArray_mid, ownOf_plain_lit, astOff]
    cases RulesF.kindOfTok (slice src o (o + tok.length - 1)) <;> rfl
  | .short sc sps, pre, post, par, o, fuel, key, hf => by
    obtain ⟨f, rfl⟩ : ∃ f, fuel = f + 1 := ⟨fuel - 1, by simp [nodeCount] at hf; omega⟩
    simp only [nodesOf, List.cons_append, List.nil_append, astAt, getElem?_toArray_mid, astOff, tsEnd, mixEnd]
    rw [ownOf_par]
    cases ownOf src evs (shortNode none o (o + (sc.render ++ sps).length - 1)
      (SchemaScan.mixEndOf (o + (sc.render ++ sps).length - 1) (sc.render ++ sps)) (ruleOf sc)) with
    | error e => rfl
    | ok w => rfl
  | .arr ws0 its, pre, post, par, o, fuel, key, hf => by
    obtain ⟨f, rfl⟩ : ∃ f, fuel = f + 1 := ⟨fuel - 1, by simp [nodeCount] at hf; omega⟩
    have hf' : countItems its ≤ f := by simp [nodeCount] at hf; omega
    have h := astKids_nodesItems its (pre ++ [arrNode' par (idxItems (pre.length + 1) its)]) post pre.length
      (o + 1 + ws0.length) f hf'
    simp only [List.length_append, List.length_cons, List.length_nil, List.append_assoc, List.cons_append,
      List.nil_append, Nat.zero_add, arrNode'] at h
    simp only [nodesOf, List.cons_append, astAt, getElem?_toArray_mid, ownOf_plain_arr, astOff,
      show (NK.arr == NK.obj) = false from rfl, Bool.false_eq_true, if_false, List.length_map,
      bne_self_eq_false, mapM_zip_const, h]
    cases itemsOff src evs (o + 1 + ws0.length) its <;> rfl
  | .obj ws0 ms, pre, post, par, o, fuel, key, hf => by
    obtain ⟨f, rfl⟩ : ∃ f, fuel = f + 1 := ⟨fuel - 1, by simp [nodeCount] at hf; omega⟩
    have hf' : countMembers ms ≤ f := by simp [nodeCount] at hf; omega
    have h := astProps_nodesMembers ms
      (pre ++ [objNode' par (idxMembers (pre.length + 1) ms) (keysMembers (o + 1 + ws0.length) ms)]) post pre.length
      (o + 1 + ws0.length) f hf'
    simp only [List.length_append, List.length_cons, List.length_nil, List.append_assoc, List.cons_append,
      List.nil_append, Nat.zero_add, objNode'] at h
    simp only [nodesOf, List.cons_append, astAt, getElem?_toArray_mid, ownOf_plain_obj, astOff,
      show (NK.obj == NK.obj) = true from rfl, if_true, List.length_map, keysMembers_length, SE.idxMembers_length,
      bne_self_eq_false, Bool.false_eq_true, if_false, h]
    cases membersOff src evs (o + 1 + ws0.length) ms <;> rfl
theorem astKids_nodesItems : (its : List Item) → (pre post : List Node) → (a o fuel : Nat) → countItems its ≤ fuel →
    (idxItems pre.length its).mapM
      (fun c => astAt src evs (pre ++ (nodesItems a pre.length o its ++ post)).toArray fuel c ([], false))
      = itemsOff src evs o its
  | [], _, _, _, _, _, _ => by simp [idxItems, itemsOff]
  | (w1, v, w2) :: its, pre, post, a, o, fuel, hf => by
    have hv : nodeCount v ≤ fuel := by simp [countItems] at hf; omega
    have hr : countItems its ≤ fuel := by simp [countItems] at hf; omega
    have h1 := astAt_nodesOf v pre (nodesItems a (pre.length + nodeCount v) (nextItem o w1 v w2 its) its ++ post)
      (some a) (o + w1.length) fuel ([], false) hv
    have h2 := astKids_nodesItems its (pre ++ nodesOf (some a) pre.length (o + w1.length) v) post a
      (nextItem o w1 v w2 its) fuel hr
    simp only [List.length_append, LoaderS.nodesOf_length, List.append_assoc] at h2
    simp only [idxItems, nodesItems, itemsOff, List.append_assoc, List.mapM_cons, h1, h2]
theorem astProps_nodesMembers : (ms : List Member) → (pre post : List Node) → (a o fuel : Nat) →
    countMembers ms ≤ fuel →
    ((idxMembers pre.length ms).zip ((keysMembers o ms).map (keyText src))).mapM (fun ck =>
        astAt src evs (pre ++ (nodesMembers a pre.length o ms ++ post)).toArray fuel ck.1 ck.2)
      = membersOff src evs o ms
  | [], _, _, _, _, _, _ => by simp [keysMembers, idxMembers, membersOff]
  | (w1, k, w2, w3, v, w4) :: ms, pre, post, a, o, fuel, hf => by
    have hv : nodeCount v ≤ fuel := by simp [countMembers] at hf; omega
    have hr : countMembers ms ≤ fuel := by simp [countMembers] at hf; omega
    have h1 := astAt_nodesOf v pre
      (nodesMembers a (pre.length + nodeCount v) (nextMember o w1 k w2 w3 v w4 ms) ms ++ post)
      (some a) (valOff o w1 k w2 w3) fuel (keyText src (o + w1.length, o + w1.length + k.length - 1, false)) hv
    have h2 := astProps_nodesMembers ms (pre ++ nodesOf (some a) pre.length (valOff o w1 k w2 w3) v) post a
      (nextMember o w1 k w2 w3 v w4 ms) fuel hr
    simp only [List.length_append, LoaderS.nodesOf_length, List.append_assoc] at h2
    simp only [keysMembers, idxMembers, nodesMembers, membersOff, List.append_assoc, List.map_cons,
      List.zip_cons_cons, List.mapM_cons, h1, h2]
end

end build

/-- **C16 on schema texts with shortcut values, any depth and layout**: scanner model → loader model → AST builders give
the AST of the TREE (`astOff`, by offsets into the text) -/
theorem ast_of_stree_text (w0 : SE.Bytes) (t : SE.BST) (w1 : SE.Bytes) (h : SE.TextOK w0 t w1) :
    astOfText (SE.docText w0 t w1)
      = astOff (SE.docText w0 t w1).toArray (eventsOf (SE.docText w0 t w1)) w0.length t.cls ([], false) := by
  have hbs : (SE.docText w0 t w1).map classify = SE.clsB w0 ++ (t.cls.render ++ SE.clsB w1) := by
    simp only [SE.docText, List.map_append, SE.render_cls, SE.clsB]
  have hat : Lay.AtB (SE.docText w0 t w1).toArray w0.length t.render := by
    have := Lay.AtB_toArray (SE.docText w0 t w1) w0 (t.render ++ w1) rfl
    rw [Lay.AtB_append] at this
    exact this.1
  have hd := SE.distinct_of (SE.docText w0 t w1).toArray t h.valid h.side h.keys w0.length hat
  rw [← SE.clsB_length] at hd
  obtain ⟨st, hl, hr, hn⟩ := LoaderS.loadText_mirrors_stree t.cls h.valid (SE.clsB w0) (SE.clsB w1) h.ws0 h.ws1 h.follow
    (SE.docText w0 t w1) hbs hd
  have hnodes : st.nodes = (nodesOf none 0 (SE.clsB w0).length t.cls).toArray := by rw [← hn]
  have hsz : st.nodes.size = nodeCount t.cls := by rw [hnodes, List.size_toArray, LoaderS.nodesOf_length]
  have hb := astAt_nodesOf (SE.docText w0 t w1).toArray (eventsOf (SE.docText w0 t w1)) t.cls [] [] none
    (SE.clsB w0).length (st.nodes.size + 1) ([], false) (by omega)
  simp only [List.nil_append, List.append_nil, List.length_nil] at hb
  rw [← hnodes] at hb
  unfold astOfText astOfTable
  simp only [hl, hr, hb, SE.clsB_length]

/-! ### a shortcut leaf is a reference node -/

/-- **`@A`** (no alternatives): TokenType `reference`, Value and SchemaType the name, the rule `type` marked generated -/
theorem astOff_short_type (src : Array UInt8) (evs : List SchemaScan.Ev) (o : Nat) (sc : SchemaScan.Len.Shortcut)
    (sps : List Cls) (key : Bytes × Bool) (ha : sc.alts = [])
    (hp : hasPipe (trimSpaces (slice src o (mixEnd o sc sps))) = false) :
    astOff src evs o (.short sc sps) key
      = .ok (.mk key.1 key.2 "reference" (trimSpaces (slice src o (mixEnd o sc sps)))
          (trimSpaces (slice src o (mixEnd o sc sps))) []
          [(sb "type", leaf
            (if isUserTypeName (unq (trimSpaces (slice src o (tsEnd o sc sps)))) then "reference" else "string")
            (unq (trimSpaces (slice src o (tsEnd o sc sps)))) .generated)] []) := by
  have hr : ruleOf sc = "type" := by simp [ruleOf, ha]
  simp only [astOff, hr]
  rw [ownOf_shortcut_type src evs _ o (mixEnd o sc sps) o (tsEnd o sc sps) rfl rfl rfl rfl hp]
  rfl

/-- **`@A | @B`**: TokenType `reference`, SchemaType `mixed`, Value the names as written, the rule `or` — one item per
name in written order — marked generated throughout -/
theorem astOff_short_or (src : Array UInt8) (evs : List SchemaScan.Ev) (o : Nat) (sc : SchemaScan.Len.Shortcut)
    (sps : List Cls) (key : Bytes × Bool) (ha : sc.alts ≠ [])
    (hp : hasPipe (trimSpaces (slice src o (mixEnd o sc sps))) = true) :
    astOff src evs o (.short sc sps) key
      = .ok (.mk key.1 key.2 "reference" (sb "mixed") (trimSpaces (slice src o (mixEnd o sc sps))) []
          [(sb "or", .mk "array" [] [] .generated []
            ((splitPipe (slice src o (tsEnd o sc sps))).map fun nm => leaf "string" nm .generated))] []) := by
  have hr : ruleOf sc = "or" := by
    cases h : sc.alts with
    | nil => exact absurd h ha
    | cons _ _ => simp [ruleOf, h]
  simp only [astOff, hr]
  rw [ownOf_shortcut_or src evs _ o (mixEnd o sc sps) o (tsEnd o sc sps) rfl rfl rfl rfl hp]
  rfl

#print axioms ast_of_stree_text

end S
end AstText
