import JSight.KeyOrderDeep
/-!
Closed terms for the C13 property-order statements with key shortcuts: the witness of known finding K-C13-keyorder
transliterated into the model, a second witness showing that "every key is admitted by at most one shortcut" does
not suffice, and the non-vacuity schema. Literal kinds: `0` = integer, `1` = string; a document scalar is its kind.
-/
namespace KeyOrder.Ex
open VK
open VN (J)

def litOK (l d : Nat) : Bool := l == d

/-! ### K-C13-keyorder: `{@k1: 1, @k2: "s"}`, `@k1 = "ab" // {regex: "^a"}`, `@k2 = "xb" // {regex: "b$"}` -/
/-- the key types: `@k1` admits the keys matching `^a`, `@k2` those matching `b$` -/
def wKey (n k : String) : Bool := (n == "k1" && k.startsWith "a") || (n == "k2" && k.endsWith "b")
def wShorts : List (String × Bool × S Nat) := [("k1", true, .lit 0), ("k2", true, .lit 1)]
def wSchema : S Nat := .obj [] wShorts .none
/-- `{"a": 1, "ab": "s"}` -/
def wMs : List (String × J Nat) := [("a", .lit 0), ("ab", .lit 1)]
/-- `{"ab": "s", "a": 1}` -/
def wMs' : List (String × J Nat) := [("ab", .lit 1), ("a", .lit 0)]

/-! ### one shortcut, two keys it admits, `additionalProperties: "string"`:
`{@k: 1} // {additionalProperties: "string"}`, `@k = "ab" // {regex: "^a"}` -/
def uKey (n k : String) : Bool := n == "k" && k.startsWith "a"
def uShorts : List (String × Bool × S Nat) := [("k", true, .lit 0)]
def uSchema : S Nat := .obj [] uShorts (.lit 1)

/-! ### non-vacuity: `{"id": 1, @ka: 2, @kb: "x"} // {additionalProperties: "string"}` with `@kb` optional,
`@ka` = keys `^a`, `@kb` = keys `^b` (disjoint) -/
def nKey (n k : String) : Bool := (n == "ka" && k.startsWith "a") || (n == "kb" && k.startsWith "b")
def nProps : List (String × Bool × S Nat) := [("id", true, .lit 0)]
def nShorts : List (String × Bool × S Nat) := [("ka", true, .lit 0), ("kb", false, .lit 1)]
def nSchema : S Nat := .obj nProps nShorts (.lit 1)
/-- `{"id": 7, "a1": 8, "zz": "s"}`: literal key, shortcut `@ka`, additional property -/
def nMs3 : List (String × J Nat) := [("id", .lit 0), ("a1", .lit 0), ("zz", .lit 1)]
/-- `{"id": 7, "a1": "no", "zz": "s"}`: the value under `@ka` has the wrong type -/
def nBad3 : List (String × J Nat) := [("id", .lit 0), ("a1", .lit 1), ("zz", .lit 1)]
/-- `{"id": 7, "a1": 8, "zz": "s", "b1": "t"}`: both shortcuts -/
def nMs4 : List (String × J Nat) := [("id", .lit 0), ("a1", .lit 0), ("zz", .lit 1), ("b1", .lit 1)]

/-- nested: `{"o": {@ka: 2, @kb: "x"}, "l": [{@ka: 2}]}`; the document reorders at both depths -/
def dSchema : S Nat := .obj [("o", true, .obj [] nShorts .none), ("l", true, .arr [.obj [] [("ka", true, .lit 0)] .any])] [] .none
def dDoc : J Nat := .obj [("o", .obj [("a1", .lit 0), ("b1", .lit 1)]), ("l", .arr [.obj [("a", .lit 0), ("z", .lit 1)]])]
def dDoc' : J Nat := .obj [("l", .arr [.obj [("z", .lit 1), ("a", .lit 0)]]), ("o", .obj [("b1", .lit 1), ("a1", .lit 0)])]

theorem dDoc_permEq : dDoc.PermEq dDoc' :=
  .obj (ms'' := [("o", .obj [("b1", .lit 1), ("a1", .lit 0)]), ("l", .arr [.obj [("z", .lit 1), ("a", .lit 0)]])])
    (.cons "o" (.obj (VN.J.PermEqMembers.refl _) (List.Perm.swap _ _ _))
      (.cons "l" (.arr (.cons (.obj (VN.J.PermEqMembers.refl _) (List.Perm.swap _ _ _)) .nil)) .nil))
    (List.Perm.swap _ _ _)

end KeyOrder.Ex
