import JSight.BridgeCK2Order
import JSight.CheckerLit
/-!
Bridge (A)∩(C), second part: a LITERAL node WITH validators — the EXAMPLE against its own rules. (A) collects the
failing validators and keeps the one of least `constraint.Type` (`Compile.litErr`), (C) sorts the constraint map by
`constraint.Type` and stops at the first that fails (`CK.validateLiteralValue`): the same validator, the same error
code (`lit_rules_agree`: 602, 603, 610 … 616, 0).
-/
namespace BridgeCK
open Compile

def guessK (spec : RulesF.LitSpecF) : Bool := RulesF.kindOfTok spec.ex == some spec.kind

theorem jt_not_obj (k : Rules.Kind) : (jtOf (JT.ofKind k) == CK.JT.object) = false := by cases k <;> rfl
theorem jt_kind' (k : Rules.Kind) : jtOf (JT.ofKind k) = CK.jtOfKind k := by cases k <;> rfl

theorem typesList_nul (nul : Bool) (rest : List CK.Cn) : CK.typesList? (nulCs nul ++ rest) = CK.typesList? rest := by
  cases nul <;> rfl

theorem typesList_nul0 (nul : Bool) : CK.typesList? (nulCs nul) = none := by cases nul <;> rfl

/-! ### node-local checks of (C) that have nothing to say -/

theorem compat_none (i : CK.Info) (h : (i.cs.any fun c => !CK.compat c.ty i.jt) = false) : CK.compatErr i = none := by
  unfold CK.compatErr
  rw [h]
  simp

theorem compat_bad (i : CK.Info) (h1 : (i.nk == .mixed || i.nk == .mixedValue) = false)
    (h : (i.cs.any fun c => !CK.compat c.ty i.jt) = true) : CK.compatErr i = some (.raw 1117) := by
  unfold CK.compatErr
  rw [h1, h]
  simp

theorem links_none (env : CK.Env) (i : CK.Info) (h : CK.typesList? i.cs = none) : CK.linksErr env i = none := by
  unfold CK.linksErr
  rw [h]



/-! ### the first `some` along `List.range` -/

theorem range_findSome_none {β : Type} (f : Nat → Option β) : (n : Nat) → (∀ t, t < n → f t = none) →
    (List.range n).findSome? f = none
  | 0, _ => rfl
  | n + 1, h => by
    rw [List.range_succ, List.findSome?_append, range_findSome_none f n (fun t ht => h t (by omega))]
    simp [h n (by omega)]

theorem range_findSome {β : Type} (f : Nat → Option β) (k : Nat) (v : β) (hlt : ∀ t, t < k → f t = none)
    (hv : f k = some v) : (n : Nat) → k < n → (List.range n).findSome? f = some v
  | 0, h => by omega
  | n + 1, h => by
    rw [List.range_succ, List.findSome?_append]
    by_cases hk : k < n
    · rw [range_findSome f k v hlt hv n hk]; rfl
    · have : k = n := by omega
      subst this
      rw [range_findSome_none f k hlt]
      simp [hv]

/-! ### the least key, first among equals -/

def stepMin (best c : Nat × Nat) : Nat × Nat := if c.1 < best.1 then c else best

theorem foldl_min : (rest : List (Nat × Nat)) → (acc : Nat × Nat) →
    (acc :: rest).find? (fun kv => kv.1 == (rest.foldl stepMin acc).1) = some (rest.foldl stepMin acc) ∧
    ∀ x ∈ acc :: rest, (rest.foldl stepMin acc).1 ≤ x.1
  | [], acc => by simp
  | c :: rest, acc => by
    simp only [List.foldl_cons]
    by_cases hc : c.1 < acc.1
    · have e : stepMin acc c = c := by simp [stepMin, hc]
      rw [e]
      obtain ⟨h1, h2⟩ := foldl_min rest c
      have hr : (rest.foldl stepMin c).1 ≤ c.1 := h2 c List.mem_cons_self
      refine ⟨?_, ?_⟩
      · rw [List.find?_cons]
        have : (acc.1 == (rest.foldl stepMin c).1) = false := by
          rw [beq_eq_false_iff_ne]; omega
        rw [this]
        exact h1
      · intro x hx
        rcases List.mem_cons.1 hx with e | hx
        · subst e; omega
        · exact h2 x hx
    · have e : stepMin acc c = acc := by simp [stepMin, hc]
      rw [e]
      obtain ⟨h1, h2⟩ := foldl_min rest acc
      have hr : (rest.foldl stepMin acc).1 ≤ acc.1 := h2 acc List.mem_cons_self
      refine ⟨?_, ?_⟩
      · rw [List.find?_cons] at h1 ⊢
        cases hk : (acc.1 == (rest.foldl stepMin acc).1)
        · rw [hk] at h1
          simp only at h1 ⊢
          rw [List.find?_cons]
          have : (c.1 == (rest.foldl stepMin acc).1) = false := by
            rw [beq_eq_false_iff_ne]
            have : acc.1 ≠ (rest.foldl stepMin acc).1 := by simpa using hk
            omega
          rw [this]
          exact h1
        · rw [hk] at h1
          exact h1
      · intro x hx
        rcases List.mem_cons.1 hx with e | hx
        · subst e; exact hr
        · rcases List.mem_cons.1 hx with e | hx
          · subst e; omega
          · exact h2 x (List.mem_cons_of_mem _ hx)

def pickMin : List (Nat × Nat) → Option Nat
  | [] => none
  | f :: fs => some (fs.foldl stepMin f).2

/-- **sorting by key and taking the first = keeping the least key while folding** -/
theorem select_eq (L : List (Nat × Nat)) (hk : ∀ x ∈ L, x.1 < 26) :
    (List.range 26).findSome? (fun t => (L.find? (fun kv => kv.1 == t)).map (·.2)) = pickMin L := by
  cases L with
  | nil => exact range_findSome_none _ 26 (fun t _ => rfl)
  | cons f fs =>
    obtain ⟨h1, h2⟩ := foldl_min fs f
    have hmem : fs.foldl stepMin f ∈ f :: fs := List.mem_of_find?_eq_some h1
    refine range_findSome _ (fs.foldl stepMin f).1 _ (fun t ht => ?_) (by rw [h1]; rfl) 26 (hk _ hmem)
    have : (f :: fs).find? (fun kv => kv.1 == t) = none := by
      rw [List.find?_eq_none]
      intro x hx hcon
      have : x.1 = t := by simpa using hcon
      have := h2 x hx
      omega
    rw [this]; rfl

/-! ### one validator -/

/-- (A)'s table: `constraint.Type` of the validator and the code it fails with -/
def codeR (tok : List UInt8) (r : RulesF.Rule) : Nat × Nat :=
  let num : Nat := if (RulesF.number tok).isSome then 602 else 0
  match r with
  | .minLength _ => (0, 603) | .maxLength _ => (1, 603) | .min _ _ => (2, num) | .max _ _ => (3, num)
  | .precision _ => (6, num) | .enum _ => (15, 610) | .regex _ => (20, 611)
  | .fmt .email => (12, 607) | .fmt .uri => (21, 612) | .fmt .date => (22, 616) | .fmt .datetime => (23, 613)
  | .fmt .uuid => (24, 614) | .const => (25, 615)

def codeOfPanic : CK.Panic → Nat
  | .raw c => c
  | .doc c _ _ => c
  | _ => 0

theorem codeR_lt (tok : List UInt8) (r : RulesF.Rule) : (codeR tok r).1 < 26 := by
  cases r <;> simp [codeR]
  rename_i f; cases f <;> simp

theorem cn_ty (ex tok : List UInt8) (r : RulesF.Rule) : (cnOfRule ex r).ty = (codeR tok r).1 := by
  cases r <;> try rfl
  rename_i f; cases f <;> rfl

/-- (C)'s `Validate` of the dumped constraint = (A)'s `ruleOK`, with (A)'s code -/
theorem cn_validate (ex tok : List UInt8) (r : RulesF.Rule) (hne : r ≠ .fmt .email)
    (hen : (RulesF.enumItem tok).isSome = true) :
    (CK.cnValidate noOracles tok (cnOfRule ex r)).map codeOfPanic =
      if RulesF.ruleOK noOracles ex tok r then none else some (codeR tok r).2 := by
  cases r with
  | fmt f =>
    cases f with
    | email => exact absurd rfl hne
    | uri =>
      show (if RulesF.ruleOK noOracles ex tok (.fmt .uri) = true then none else some (CK.Panic.raw 612)).map codeOfPanic = _
      cases RulesF.ruleOK noOracles ex tok (.fmt .uri) <;> rfl
    | uuid =>
      show (if RulesF.ruleOK noOracles ex tok (.fmt .uuid) = true then none else some (CK.Panic.raw 614)).map codeOfPanic = _
      cases RulesF.ruleOK noOracles ex tok (.fmt .uuid) <;> rfl
    | date =>
      show (if RulesF.ruleOK noOracles ex tok (.fmt .date) = true then none else some (CK.Panic.raw 616)).map codeOfPanic = _
      cases RulesF.ruleOK noOracles ex tok (.fmt .date) <;> rfl
    | datetime =>
      show (if RulesF.ruleOK noOracles ex tok (.fmt .datetime) = true then none else some (CK.Panic.raw 613)).map codeOfPanic = _
      cases RulesF.ruleOK noOracles ex tok (.fmt .datetime) <;> rfl
  | enum items =>
    have hn : (RulesF.enumItem tok).isNone = false := by
      cases h : RulesF.enumItem tok with
      | none => rw [h] at hen; cases hen
      | some _ => rfl
    show (if RulesF.ruleOK noOracles ex tok (.enum items) = true then none
      else some (if (RulesF.enumItem tok).isNone then CK.Panic.other else CK.Panic.raw 610)).map codeOfPanic = _
    rw [hn]
    cases RulesF.ruleOK noOracles ex tok (.enum items) <;> rfl
  | min b x =>
    show (if RulesF.ruleOK noOracles ex tok (.min b x) = true then none
      else some (if (RulesF.number tok).isNone then CK.Panic.other else CK.Panic.raw 602)).map codeOfPanic = _
    cases RulesF.ruleOK noOracles ex tok (.min b x) <;> cases hnum : RulesF.number tok <;> simp [codeR, hnum, codeOfPanic]
  | max b x =>
    show (if RulesF.ruleOK noOracles ex tok (.max b x) = true then none
      else some (if (RulesF.number tok).isNone then CK.Panic.other else CK.Panic.raw 602)).map codeOfPanic = _
    cases RulesF.ruleOK noOracles ex tok (.max b x) <;> cases hnum : RulesF.number tok <;> simp [codeR, hnum, codeOfPanic]
  | precision p =>
    show (if RulesF.ruleOK noOracles ex tok (.precision p) = true then none
      else some (if (RulesF.number tok).isNone then CK.Panic.other else CK.Panic.raw 602)).map codeOfPanic = _
    cases RulesF.ruleOK noOracles ex tok (.precision p) <;> cases hnum : RulesF.number tok <;> simp [codeR, hnum, codeOfPanic]
  | minLength n =>
    show (if RulesF.ruleOK noOracles ex tok (.minLength n) = true then none else some (CK.Panic.raw 603)).map codeOfPanic = _
    cases RulesF.ruleOK noOracles ex tok (.minLength n) <;> rfl
  | maxLength n =>
    show (if RulesF.ruleOK noOracles ex tok (.maxLength n) = true then none else some (CK.Panic.raw 603)).map codeOfPanic = _
    cases RulesF.ruleOK noOracles ex tok (.maxLength n) <;> rfl
  | regex p =>
    show (if RulesF.ruleOK noOracles ex tok (.regex p) = true then none else some (CK.Panic.raw 611)).map codeOfPanic = _
    cases RulesF.ruleOK noOracles ex tok (.regex p) <;> rfl
  | const =>
    show (if RulesF.ruleOK noOracles ex tok .const = true then none else some (CK.Panic.raw 615)).map codeOfPanic = _
    cases RulesF.ruleOK noOracles ex tok .const <;> rfl

/-! ### the whole constraint map -/

theorem findSome_flatMap {α β γ : Type} (f : α → List β) (g : β → Option γ) : (l : List α) →
    (l.flatMap f).findSome? g = l.findSome? (fun a => (f a).findSome? g)
  | [] => rfl
  | a :: l => by
    rw [List.flatMap_cons, List.findSome?_append, List.findSome?_cons, findSome_flatMap f g l]
    cases (f a).findSome? g <;> rfl

theorem map_findSome {α β γ : Type} (g : α → Option β) (h : β → γ) : (l : List α) →
    (l.findSome? g).map h = l.findSome? (fun a => (g a).map h)
  | [] => rfl
  | a :: l => by
    rw [List.findSome?_cons, List.findSome?_cons]
    cases g a with
    | none => exact map_findSome g h l
    | some b => rfl

/-- the validators of one `constraint.Type`: (C)'s filtered constraint map against (A)'s list of failing codes -/
theorem filter_find (ex tok : List UInt8) (hen : (RulesF.enumItem tok).isSome = true) (t : Nat) :
    (rs : List RulesF.Rule) → (∀ r ∈ rs, r ≠ .fmt .email) →
    ((rs.map (cnOfRule ex)).filter (fun c => c.ty == t)).findSome? (fun c => (CK.cnValidate noOracles tok c).map codeOfPanic)
      = (((rs.filter fun r => !RulesF.ruleOK noOracles ex tok r).map (codeR tok)).find? (fun kv => kv.1 == t)).map (·.2)
  | [], _ => rfl
  | r :: rs, hne => by
    have ih := filter_find ex tok hen t rs (fun x hx => hne x (List.mem_cons_of_mem _ hx))
    have hv := cn_validate ex tok r (hne r List.mem_cons_self) hen
    simp only [List.map_cons, List.filter_cons, cn_ty ex tok r]
    cases hk : ((codeR tok r).1 == t) <;> cases hok : RulesF.ruleOK noOracles ex tok r
    · simp only [Bool.false_eq_true, if_false, Bool.not_false, if_true, List.map_cons, List.find?_cons, hk]
      exact ih
    · simp only [Bool.false_eq_true, if_false, Bool.not_true]
      exact ih
    · rw [hok] at hv
      simp only [if_true, Bool.not_false, List.map_cons, List.findSome?_cons, List.find?_cons, hk, hv, Bool.false_eq_true,
        if_false, Option.map_some]
    · rw [hok] at hv
      simp only [if_true, Bool.not_true, Bool.false_eq_true, if_false, List.findSome?_cons, hv]
      exact ih

theorem filter_find_nul (ex tok : List UInt8) (hen : (RulesF.enumItem tok).isSome = true) (t : Nat) (nul : Bool)
    (rs : List RulesF.Rule) (hne : ∀ r ∈ rs, r ≠ .fmt .email) :
    ((nulCs nul ++ rs.map (cnOfRule ex)).filter (fun c => c.ty == t)).findSome?
        (fun c => (CK.cnValidate noOracles tok c).map codeOfPanic)
      = (((rs.filter fun r => !RulesF.ruleOK noOracles ex tok r).map (codeR tok)).find? (fun kv => kv.1 == t)).map (·.2) := by
  cases nul with
  | false => exact filter_find ex tok hen t rs hne
  | true =>
    simp only [nulCs, if_true, List.cons_append, List.nil_append, List.filter_cons]
    split
    · rw [List.findSome?_cons]
      exact filter_find ex tok hen t rs hne
    · exact filter_find ex tok hen t rs hne

/-- the validators of a literal node, all of them: same first failure, same code -/
theorem validators_agree (ex tok : List UInt8) (hen : (RulesF.enumItem tok).isSome = true) (nul : Bool)
    (rs : List RulesF.Rule) (hne : ∀ r ∈ rs, r ≠ .fmt .email) :
    ((CK.sortedCs (nulCs nul ++ rs.map (cnOfRule ex))).findSome? (CK.cnValidate noOracles tok)).map codeOfPanic =
      pickMin ((rs.filter fun r => !RulesF.ruleOK noOracles ex tok r).map (codeR tok)) := by
  rw [map_findSome]
  unfold CK.sortedCs
  rw [findSome_flatMap]
  have : (fun t => ((nulCs nul ++ rs.map (cnOfRule ex)).filter (fun c => c.ty == t)).findSome?
        (fun c => (CK.cnValidate noOracles tok c).map codeOfPanic)) =
      (fun t => (((rs.filter fun r => !RulesF.ruleOK noOracles ex tok r).map (codeR tok)).find? (fun kv => kv.1 == t)).map (·.2)) :=
    funext fun t => filter_find_nul ex tok hen t nul rs hne
  rw [this]
  exact select_eq _ (fun x hx => by
    obtain ⟨r, _, rfl⟩ := List.mem_map.1 hx
    exact codeR_lt tok r)

theorem nullableValue_litCs (spec : RulesF.LitSpecF) : CK.nullableValue (litCs spec) = spec.nul := by
  unfold litCs
  cases spec.nul with
  | true => rfl
  | false =>
    simp only [nulCs, Bool.false_eq_true, if_false, List.nil_append]
    induction spec.rules with
    | nil => rfl
    | cons r rs ih =>
      simp only [List.map_cons]
      cases r <;> first | exact ih | (rename_i f; cases f <;> exact ih)

theorem typesList_litCs (spec : RulesF.LitSpecF) : CK.typesList? (litCs spec) = none := by
  unfold litCs
  rw [typesList_nul]
  induction spec.rules with
  | nil => rfl
  | cons r rs ih =>
    simp only [List.map_cons]
    cases r <;> first | exact ih | (rename_i f; cases f <;> exact ih)

theorem hasEnum_litCs (spec : RulesF.LitSpecF) : CK.hasTy (litCs spec) 15 = RulesF.hasEnum spec := by
  unfold litCs CK.hasTy RulesF.hasEnum
  rw [List.any_append]
  have : ((nulCs spec.nul).any fun x => x.ty == 15) = false := by cases spec.nul <;> rfl
  rw [this, Bool.false_or, List.any_map]
  congr 1
  funext r
  cases r <;> first | rfl | (rename_i f; cases f <;> rfl)

theorem litErr_eq (l : RulesF.LitSpecF) (tok : List UInt8) :
    litErr l tok =
      if RulesF.litOKFull noOracles l tok then none
      else if !RulesF.kindGate l tok then some 210
      else (match (l.rules.filter fun r => !RulesF.ruleOK noOracles l.ex tok r).map (codeR tok) with
        | [] => some 0
        | f :: fs => some (fs.foldl stepMin f).2) := by
  unfold litErr
  rfl

/-- **the EXAMPLE of a literal node against its own validators**: (C)'s `ValidateLiteralValue` on the dumped
constraint map and (A)'s `litErr` fail together, with the same code -/
theorem lit_rules (spec : RulesF.LitSpecF) (hg : guessK spec = true) (hen : (RulesF.enumItem spec.ex).isSome = true)
    (hne : ∀ r ∈ spec.rules, r ≠ .fmt .email) :
    (CK.validateLiteralValue noOracles (jtOf (JT.ofKind spec.kind)) (litCs spec) spec.ex).map codeOfPanic
      = litErr spec spec.ex := by
  have hk : RulesF.kindOfTok spec.ex = some spec.kind := by simpa [guessK] using hg
  have hgate : RulesF.kindGate spec spec.ex = true := by
    unfold RulesF.kindGate
    simp [hk]
  have hcne : CK.checkNotAnEnum (jtOf (JT.ofKind spec.kind)) (litCs spec) spec.ex = none := by
    unfold CK.checkNotAnEnum CK.literalJsonType
    split
    · rfl
    · simp [hk, jt_kind']
  have hval := validators_agree spec.ex spec.ex hen spec.nul spec.rules hne
  rw [litErr_eq]
  unfold CK.validateLiteralValue RulesF.litOKFull
  rw [hcne, nullableValue_litCs, hgate]
  simp only [Bool.true_and, Bool.not_true, Bool.false_eq_true, if_false]
  cases hnl : (spec.nul && spec.ex == RulesF.sNull)
  · simp only [Bool.false_eq_true, if_false, Bool.false_or]
    show ((CK.sortedCs (litCs spec)).findSome? (CK.cnValidate noOracles spec.ex)).map codeOfPanic = _
    unfold litCs
    rw [hval]
    cases hall : spec.rules.all (RulesF.ruleOK noOracles spec.ex spec.ex)
    · simp only [Bool.false_eq_true, if_false]
      cases hL : (spec.rules.filter fun r => !RulesF.ruleOK noOracles spec.ex spec.ex r).map (codeR spec.ex) with
      | nil =>
        exfalso
        have : (spec.rules.filter fun r => !RulesF.ruleOK noOracles spec.ex spec.ex r) = [] := by
          cases h : (spec.rules.filter fun r => !RulesF.ruleOK noOracles spec.ex spec.ex r) with
          | nil => rfl
          | cons a b => rw [h] at hL; simp at hL
        rw [List.filter_eq_nil_iff] at this
        have : spec.rules.all (RulesF.ruleOK noOracles spec.ex spec.ex) = true := by
          rw [List.all_eq_true]
          intro r hr
          have := this r hr
          simpa using this
        rw [hall] at this
        cases this
      | cons f fs => rfl
    · simp only [if_true]
      have : (spec.rules.filter fun r => !RulesF.ruleOK noOracles spec.ex spec.ex r) = [] := by
        rw [List.filter_eq_nil_iff]
        intro r hr
        have := List.all_eq_true.1 hall r hr
        simp [this]
      rw [this]
      rfl
  · simp [hnl]

end BridgeCK
