import JSight.Loader
import JSight.LoaderProofs
import JSight.SchemaEventsTree
/-!
C16 (loader part), base layer: what one plain-JSON lexical event does to the loader state, stated on the part of
the state that matters without annotations (`Core`: the node table as a list, the leaf, the root, default mode).

`Run src evs (L, leaf, root) (L', leaf', root')`: from every loader state with that core, folding `step src` over
`evs` succeeds and ends in a state with the second core (whatever `perLine` / `last` are).
-/
namespace Loader
open SchemaScan (Ev LexT)

/-- the part of the loader state that matters without annotations -/
def Core (st : St) (L : List Node) (leaf root : Option Nat) : Prop :=
  st.nodes.toList = L ∧ st.leaf = leaf ∧ st.root = root ∧ st.mode = .default

def Run (src : Array UInt8) (evs : List Ev) (L : List Node) (leaf root : Option Nat)
    (L' : List Node) (leaf' root' : Option Nat) : Prop :=
  ∀ st, Core st L leaf root → ∃ st', evs.foldlM (step src) st = .ok st' ∧ Core st' L' leaf' root'

theorem Run.nil (src : Array UInt8) (L : List Node) (leaf root : Option Nat) : Run src [] L leaf root L leaf root :=
  fun st h => ⟨st, rfl, h⟩

theorem Run.trans {src : Array UInt8} {a b : List Ev} {L1 L2 L3 : List Node} {l1 l2 l3 r1 r2 r3 : Option Nat}
    (h1 : Run src a L1 l1 r1 L2 l2 r2) (h2 : Run src b L2 l2 r2 L3 l3 r3) : Run src (a ++ b) L1 l1 r1 L3 l3 r3 := by
  intro st hc
  obtain ⟨st1, e1, c1⟩ := h1 st hc
  obtain ⟨st2, e2, c2⟩ := h2 st1 c1
  refine ⟨st2, ?_, c2⟩
  rw [List.foldlM_append, e1]
  exact e2

theorem Run.cons {src : Array UInt8} {e : Ev} {b : List Ev} {L1 L2 L3 : List Node} {l1 l2 l3 r1 r2 r3 : Option Nat}
    (h1 : Run src [e] L1 l1 r1 L2 l2 r2) (h2 : Run src b L2 l2 r2 L3 l3 r3) : Run src (e :: b) L1 l1 r1 L3 l3 r3 :=
  Run.trans h1 h2

theorem Run.cast {src : Array UInt8} {a a' : List Ev} {L1 L2 L2' : List Node} {l1 l2 l2' r1 r2 : Option Nat}
    (h : Run src a L1 l1 r1 L2 l2 r2) (ha : a = a') (hL : L2 = L2') (hl : l2 = l2') :
    Run src a' L1 l1 r1 L2' l2' r2 := by
  subst ha hL hl; exact h

/-- one event -/
theorem Run.one {src : Array UInt8} {e : Ev} {L L' : List Node} {l l' r r' : Option Nat}
    (h : ∀ st, Core st L l r → ∃ st', step src st e = .ok st' ∧ Core st' L' l' r') : Run src [e] L l r L' l' r' := by
  intro st hc
  obtain ⟨st', e1, c1⟩ := h st hc
  refine ⟨st', ?_, c1⟩
  simp only [List.foldlM_cons, List.foldlM_nil, e1, bind, Except.bind, pure, Except.pure]

/-! ### list / array glue -/

theorem modify_eq_set' {α : Type} (L : List α) (i : Nat) (f : α → α) (n : α) (h : L[i]? = some n) :
    L.modify i f = L.set i (f n) := by
  apply List.ext_getElem?
  intro j
  rw [List.getElem?_modify, List.getElem?_set]
  obtain ⟨hlt, hn⟩ := List.getElem?_eq_some_iff.mp h
  by_cases hij : i = j
  · subst hij; simp [hlt, hn]
  · simp [hij]

theorem toList_updNode (st : St) (i : Nat) (f : Node → Node) (n : Node) (h : st.nodes.toList[i]? = some n) :
    (updNode st i f).nodes.toList = st.nodes.toList.set i (f n) := by
  simp only [updNode, Array.toList_modify]
  exact modify_eq_set' _ _ _ _ h

theorem set_same {α : Type} (L : List α) (i : Nat) (n : α) (h : L[i]? = some n) : L.set i n = L := by
  apply List.ext_getElem?
  intro j
  rw [List.getElem?_set]
  obtain ⟨hlt, hn⟩ := List.getElem?_eq_some_iff.mp h
  by_cases hij : i = j
  · subst hij; simp [hlt, hn]
  · simp [hij]

/-! ### `step` on plain-JSON events -/

/-- the event types of a plain-JSON schema apart from `newLine` -/
def plainTy : LexT → Bool
  | .litB | .litE | .objB | .objE | .keyB | .keyE | .valB | .valE | .arrB | .arrE | .itemB | .itemE => true
  | _ => false

theorem step_plain (src : Array UInt8) (st : St) (e : Ev) (hm : st.mode = .default) (hp : plainTy e.ty = true) :
    step src st e = nodeLoad src st e := by
  obtain ⟨ty, b, en⟩ := e
  cases ty <;> simp [plainTy] at hp <;> simp [step, hm]

theorem nodeLoad_leaf (src : Array UInt8) (st : St) (e : Ev) (i : Nat) (hl : st.leaf = some i)
    (hp : plainTy e.ty = true) :
    nodeLoad src st e =
      match grow src st i e with
      | .error err => .error err
      | .ok (st1, leaf', isNew) =>
        if isNew then .ok { st1 with leaf := leaf', perLine := st1.perLine + 1, last := leaf' }
        else .ok { st1 with leaf := leaf' } := by
  obtain ⟨ty, b, en⟩ := e
  cases ty <;> simp [plainTy] at hp <;> simp only [nodeLoad, hl, bind, Except.bind] <;>
    cases grow src st i _ <;> rfl

theorem step_newLine (src : Array UInt8) (x y : Nat) (L : List Node) (l r : Option Nat) :
    Run src [⟨.newLine, x, y⟩] L l r L l r :=
  Run.one fun st ⟨h1, h2, h3, h4⟩ => ⟨{ st with perLine := 0 }, step_newLine_default src st _ rfl h4, h1, h2, h3, h4⟩

theorem step_via_grow (src : Array UInt8) (st : St) (e : Ev) (i : Nat) (hm : st.mode = .default)
    (hl : st.leaf = some i) (hp : plainTy e.ty = true) (st1 : St) (leaf' : Option Nat) (isNew : Bool)
    (hg : grow src st i e = .ok (st1, leaf', isNew)) :
    step src st e = .ok (if isNew then { st1 with leaf := leaf', perLine := st1.perLine + 1, last := leaf' }
        else { st1 with leaf := leaf' }) := by
  rw [step_plain src st e hm hp, nodeLoad_leaf src st e i hl hp, hg]
  cases isNew <;> rfl

theorem getElem?_nodes (st : St) (i : Nat) : st.nodes[i]? = st.nodes.toList[i]? := by simp

/-! ### `grow`, case by case -/

theorem grow_lit_litE (src : Array UInt8) (st : St) (i : Nat) (n : Node) (x y : Nat)
    (h : st.nodes[i]? = some n) (hk : n.kind = .lit) :
    grow src st i ⟨.litE, x, y⟩ = .ok (updNode st i (fun n => { n with value := some (x, y) }), n.parent, false) := by
  unfold grow
  rw [h]
  simp only [hk]
  rfl

theorem grow_arr_itemB (src : Array UInt8) (st : St) (i : Nat) (n : Node) (x y : Nat)
    (h : st.nodes[i]? = some n) (hk : n.kind = .arr) (hw : n.waiting = false) :
    grow src st i ⟨.itemB, x, y⟩ = .ok (updNode st i (fun n => { n with waiting := true }), some i, false) := by
  unfold grow
  rw [h]
  simp only [hk, hw]
  rfl

theorem grow_arr_itemE (src : Array UInt8) (st : St) (i : Nat) (n : Node) (x y : Nat)
    (h : st.nodes[i]? = some n) (hk : n.kind = .arr) (hw : n.waiting = false) :
    grow src st i ⟨.itemE, x, y⟩ = .ok (st, some i, false) := by
  unfold grow
  rw [h]
  simp only [hk, hw]
  rfl

theorem grow_arr_arrE (src : Array UInt8) (st : St) (i : Nat) (n : Node) (x y : Nat)
    (h : st.nodes[i]? = some n) (hk : n.kind = .arr) (hw : n.waiting = false) :
    grow src st i ⟨.arrE, x, y⟩ = .ok (st, n.parent, false) := by
  unfold grow
  rw [h]
  simp only [hk, hw]
  rfl

theorem grow_obj_keyB (src : Array UInt8) (st : St) (i : Nat) (n : Node) (x y : Nat)
    (h : st.nodes[i]? = some n) (hk : n.kind = .obj) (hw : n.waiting = false) :
    grow src st i ⟨.keyB, x, y⟩ = .ok (st, some i, false) := by
  unfold grow
  rw [h]
  simp only [hk, hw]
  rfl

theorem grow_obj_valE (src : Array UInt8) (st : St) (i : Nat) (n : Node) (x y : Nat)
    (h : st.nodes[i]? = some n) (hk : n.kind = .obj) (hw : n.waiting = false) :
    grow src st i ⟨.valE, x, y⟩ = .ok (st, some i, false) := by
  unfold grow
  rw [h]
  simp only [hk, hw]
  rfl

theorem grow_obj_valB (src : Array UInt8) (st : St) (i : Nat) (n : Node) (x y : Nat)
    (h : st.nodes[i]? = some n) (hk : n.kind = .obj) (hw : n.waiting = false) :
    grow src st i ⟨.valB, x, y⟩ = .ok (updNode st i (fun n => { n with waiting := true }), some i, false) := by
  unfold grow
  rw [h]
  simp only [hk, hw]
  rfl

theorem grow_obj_objE (src : Array UInt8) (st : St) (i : Nat) (n : Node) (x y : Nat)
    (h : st.nodes[i]? = some n) (hk : n.kind = .obj) (hw : n.waiting = false) :
    grow src st i ⟨.objE, x, y⟩ = .ok (st, n.parent, false) := by
  unfold grow
  rw [h]
  simp only [hk, hw]
  rfl

/-- a key that differs (after decoding) from all earlier keys of the object is added -/
theorem grow_obj_keyE (src : Array UInt8) (st : St) (i : Nat) (n : Node) (x y : Nat)
    (h : st.nodes[i]? = some n) (hk : n.kind = .obj) (hw : n.waiting = false)
    (hd : n.keys.any (fun k' => keyText src k' == keyText src (x, y, false)) = false) :
    grow src st i ⟨.keyE, x, y⟩
      = .ok (updNode st i (fun n => { n with keys := n.keys ++ [(x, y, false)] }), some i, false) := by
  unfold grow
  rw [h]
  simp only [hk, hw]
  have : ((LexT.keyE == LexT.ksE) = false) := rfl
  simp only [this, hd, Bool.false_and, Bool.false_eq_true, if_false]
  rfl

/-- a key that repeats (after decoding) an earlier key of the object: error 402 at the key's offset -/
theorem grow_obj_keyE_dup (src : Array UInt8) (st : St) (i : Nat) (n : Node) (x y : Nat)
    (h : st.nodes[i]? = some n) (hk : n.kind = .obj) (hw : n.waiting = false)
    (hd : n.keys.any (fun k' => keyText src k' == keyText src (x, y, false)) = true) :
    grow src st i ⟨.keyE, x, y⟩ = .error (.duplicateKey x) := by
  unfold grow
  rw [h]
  simp only [hk, hw]
  have : ((LexT.keyE == LexT.ksE) = false) := rfl
  simp only [this, hd, Bool.false_and, Bool.false_eq_true, if_false]
  rfl

/-- an array waiting for an item / an object waiting for a member value creates the child node -/
theorem grow_create (src : Array UInt8) (st : St) (i : Nat) (n : Node) (e : Ev) (k : NK)
    (h : st.nodes[i]? = some n) (hk : n.kind = .arr ∨ n.kind = .obj) (hw : n.waiting = true)
    (he : kindOfLex e.ty = some k) :
    grow src st i e
      = .ok (updNode (newNode (updNode st i (fun n => { n with waiting := false })) k (some i)).1 i
              (fun n => { n with children := n.children ++ [st.nodes.size] }), some st.nodes.size, true) := by
  unfold grow
  rw [h]
  rcases hk with hk | hk <;> simp only [hk, hw, he, if_true, newNode, updNode, Array.size_modify] <;> rfl

/-! ### one event, on the core -/

/-- a node as `newNode` makes it -/
def fresh (k : NK) (parent : Option Nat) : Node := { kind := k, parent := parent }

def rootSt (st : St) (k : NK) : St :=
  { st with
    nodes := st.nodes.push { kind := k, parent := none }
    root := some st.nodes.size
    leaf := some st.nodes.size
    perLine := st.perLine + 1
    last := some st.nodes.size }

theorem R_root (src : Array UInt8) (e : Ev) (k : NK) (hp : plainTy e.ty = true) (he : kindOfLex e.ty = some k)
    (L : List Node) (r : Option Nat) :
    Run src [e] L none r (L ++ [fresh k none]) (some L.length) (some L.length) := by
  refine Run.one fun st ⟨h1, h2, h3, h4⟩ => ?_
  rw [step_plain src st e h4 hp]
  obtain ⟨ty, b, en⟩ := e
  have hsz : st.nodes.size = L.length := by rw [← h1]; simp
  refine ⟨rootSt st k, ?_, by simp [rootSt, h1, fresh], by simp [rootSt, hsz], by simp [rootSt, hsz], h4⟩
  unfold rootSt
  cases ty <;> simp [plainTy] at hp <;> simp [kindOfLex] at he <;> subst he <;>
    (simp only [nodeLoad, h2, kindOfLex, newNode]; rfl)

theorem R_noop (src : Array UInt8) (e : Ev) (i : Nat) (l' : Option Nat) (hp : plainTy e.ty = true)
    (L : List Node) (r : Option Nat)
    (hg : ∀ st, st.nodes.toList = L → grow src st i e = .ok (st, l', false)) :
    Run src [e] L (some i) r L l' r := by
  refine Run.one fun st ⟨h1, h2, h3, h4⟩ => ?_
  exact ⟨_, step_via_grow src st e i h4 h2 hp _ _ _ (hg st h1), h1, rfl, h3, h4⟩

theorem R_upd (src : Array UInt8) (e : Ev) (i : Nat) (n : Node) (f : Node → Node) (l' : Option Nat)
    (hp : plainTy e.ty = true) (L : List Node) (r : Option Nat) (hn : L[i]? = some n)
    (hg : ∀ st, st.nodes.toList = L → grow src st i e = .ok (updNode st i f, l', false)) :
    Run src [e] L (some i) r (L.set i (f n)) l' r := by
  refine Run.one fun st ⟨h1, h2, h3, h4⟩ => ?_
  refine ⟨_, step_via_grow src st e i h4 h2 hp _ _ _ (hg st h1), ?_, rfl, h3, h4⟩
  have := toList_updNode st i f n (by rw [h1]; exact hn)
  rw [h1] at this
  exact this

theorem R_litE (src : Array UInt8) (x y i : Nat) (n : Node) (L : List Node) (r : Option Nat)
    (hn : L[i]? = some n) (hk : n.kind = .lit) :
    Run src [⟨.litE, x, y⟩] L (some i) r (L.set i { n with value := some (x, y) }) n.parent r :=
  R_upd src _ i n (fun n => { n with value := some (x, y) }) _ rfl L r hn fun st h =>
    grow_lit_litE src st i n x y (by rw [getElem?_nodes, h]; exact hn) hk

theorem R_itemB (src : Array UInt8) (x y i : Nat) (n : Node) (L : List Node) (r : Option Nat)
    (hn : L[i]? = some n) (hk : n.kind = .arr) (hw : n.waiting = false) :
    Run src [⟨.itemB, x, y⟩] L (some i) r (L.set i { n with waiting := true }) (some i) r :=
  R_upd src _ i n (fun n => { n with waiting := true }) _ rfl L r hn fun st h =>
    grow_arr_itemB src st i n x y (by rw [getElem?_nodes, h]; exact hn) hk hw

theorem R_itemE (src : Array UInt8) (x y i : Nat) (n : Node) (L : List Node) (r : Option Nat)
    (hn : L[i]? = some n) (hk : n.kind = .arr) (hw : n.waiting = false) :
    Run src [⟨.itemE, x, y⟩] L (some i) r L (some i) r :=
  R_noop src _ i _ rfl L r fun st h => grow_arr_itemE src st i n x y (by rw [getElem?_nodes, h]; exact hn) hk hw

theorem R_arrE (src : Array UInt8) (x y i : Nat) (n : Node) (L : List Node) (r : Option Nat)
    (hn : L[i]? = some n) (hk : n.kind = .arr) (hw : n.waiting = false) :
    Run src [⟨.arrE, x, y⟩] L (some i) r L n.parent r :=
  R_noop src _ i _ rfl L r fun st h => grow_arr_arrE src st i n x y (by rw [getElem?_nodes, h]; exact hn) hk hw

theorem R_keyB (src : Array UInt8) (x y i : Nat) (n : Node) (L : List Node) (r : Option Nat)
    (hn : L[i]? = some n) (hk : n.kind = .obj) (hw : n.waiting = false) :
    Run src [⟨.keyB, x, y⟩] L (some i) r L (some i) r :=
  R_noop src _ i _ rfl L r fun st h => grow_obj_keyB src st i n x y (by rw [getElem?_nodes, h]; exact hn) hk hw

theorem R_valE (src : Array UInt8) (x y i : Nat) (n : Node) (L : List Node) (r : Option Nat)
    (hn : L[i]? = some n) (hk : n.kind = .obj) (hw : n.waiting = false) :
    Run src [⟨.valE, x, y⟩] L (some i) r L (some i) r :=
  R_noop src _ i _ rfl L r fun st h => grow_obj_valE src st i n x y (by rw [getElem?_nodes, h]; exact hn) hk hw

theorem R_objE (src : Array UInt8) (x y i : Nat) (n : Node) (L : List Node) (r : Option Nat)
    (hn : L[i]? = some n) (hk : n.kind = .obj) (hw : n.waiting = false) :
    Run src [⟨.objE, x, y⟩] L (some i) r L n.parent r :=
  R_noop src _ i _ rfl L r fun st h => grow_obj_objE src st i n x y (by rw [getElem?_nodes, h]; exact hn) hk hw

theorem R_valB (src : Array UInt8) (x y i : Nat) (n : Node) (L : List Node) (r : Option Nat)
    (hn : L[i]? = some n) (hk : n.kind = .obj) (hw : n.waiting = false) :
    Run src [⟨.valB, x, y⟩] L (some i) r (L.set i { n with waiting := true }) (some i) r :=
  R_upd src _ i n (fun n => { n with waiting := true }) _ rfl L r hn fun st h =>
    grow_obj_valB src st i n x y (by rw [getElem?_nodes, h]; exact hn) hk hw

theorem R_keyE (src : Array UInt8) (x y i : Nat) (n : Node) (L : List Node) (r : Option Nat)
    (hn : L[i]? = some n) (hk : n.kind = .obj) (hw : n.waiting = false)
    (hd : n.keys.any (fun k' => keyText src k' == keyText src (x, y, false)) = false) :
    Run src [⟨.keyE, x, y⟩] L (some i) r (L.set i { n with keys := n.keys ++ [(x, y, false)] }) (some i) r :=
  R_upd src _ i n (fun n => { n with keys := n.keys ++ [(x, y, false)] }) _ rfl L r hn fun st h =>
    grow_obj_keyE src st i n x y (by rw [getElem?_nodes, h]; exact hn) hk hw hd

/-- the duplicate key: the loader stops with error 402 at the key's offset -/
theorem step_keyE_dup (src : Array UInt8) (x y i : Nat) (n : Node) (L : List Node) (r : Option Nat) (st : St)
    (hc : Core st L (some i) r) (hn : L[i]? = some n) (hk : n.kind = .obj) (hw : n.waiting = false)
    (hd : n.keys.any (fun k' => keyText src k' == keyText src (x, y, false)) = true) :
    step src st ⟨.keyE, x, y⟩ = .error (.duplicateKey x) := by
  obtain ⟨h1, h2, h3, h4⟩ := hc
  rw [step_plain src st _ h4 rfl, nodeLoad_leaf src st _ i h2 rfl,
    grow_obj_keyE_dup src st i n x y (by rw [getElem?_nodes, h1]; exact hn) hk hw hd]

theorem R_create (src : Array UInt8) (e : Ev) (k : NK) (i : Nat) (n : Node) (L : List Node) (r : Option Nat)
    (hp : plainTy e.ty = true) (he : kindOfLex e.ty = some k)
    (hn : L[i]? = some n) (hk : n.kind = .arr ∨ n.kind = .obj) (hw : n.waiting = true) :
    Run src [e] L (some i) r
      (L.set i { n with waiting := false, children := n.children ++ [L.length] } ++ [fresh k (some i)])
      (some L.length) r := by
  refine Run.one fun st ⟨h1, h2, h3, h4⟩ => ?_
  have hsz : st.nodes.size = L.length := by rw [← h1]; simp
  have hg := grow_create src st i n e k (by rw [getElem?_nodes, h1]; exact hn) hk hw he
  refine ⟨_, step_via_grow src st e i h4 h2 hp _ _ _ hg, ?_, by simp [hsz], h3, h4⟩
  obtain ⟨hlt, hget⟩ := List.getElem?_eq_some_iff.mp hn
  have e1 : (updNode st i (fun n => { n with waiting := false })).nodes.toList
      = L.set i { n with waiting := false } := by
    have := toList_updNode st i (fun n => { n with waiting := false }) n (by rw [h1]; exact hn)
    rw [h1] at this; exact this
  have e2 : (newNode (updNode st i (fun n => { n with waiting := false })) k (some i)).1.nodes.toList
      = L.set i { n with waiting := false } ++ [fresh k (some i)] := by
    simp only [newNode, Array.toList_push, e1]; rfl
  have e3 := toList_updNode (newNode (updNode st i (fun n => { n with waiting := false })) k (some i)).1 i
    (fun m => { m with children := m.children ++ [st.nodes.size] }) { n with waiting := false }
    (by rw [e2, List.getElem?_append_left (by simp [hlt])]; simp [hlt])
  rw [if_pos rfl]
  simp only [] at e3 ⊢
  rw [e3, e2, List.set_append_left _ _ (by simp [hlt]), List.set_set, hsz]

end Loader
