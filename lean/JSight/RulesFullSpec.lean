import JSight.RulesFull
import JSight.NumberDen
import JSight.NumberTotal
/-!
C02 spec: what the property text says a scalar rule admits, over the MEANING of the document token —
the exact decimal value of a numeral (`Num.den`: sign, mantissa digits, digits after the point, signed exponent;
value `mant · 10^(-t)`), the decoded text of a string (RFC 8259 §7: characters, two-character escapes, `\uXXXX`
with surrogate pairs; as UTF-8 bytes by Lean's own `String.utf8EncodeChar`), the three words.

Written independently of the validator's structure: tokens are STRUCTURED (`STok`: what the JSON scanner can
deliver as a scalar), rule sets carry structured tokens (`SSpec`), and `render` turns them into the bytes the
model works on. Nothing here is imported by the driver.
-/
namespace RulesF
open Rules (Kind)

/-! ### scalar tokens -/

/-- the two-character escapes of RFC 8259 -/
inductive Esc | quote | bslash | slash | b | f | n | r | t deriving DecidableEq, Repr

/-- the byte after the backslash -/
def Esc.byte : Esc → UInt8
  | .quote => 34 | .bslash => 92 | .slash => 47 | .b => 98 | .f => 102 | .n => 110 | .r => 114 | .t => 116

/-- the character it stands for -/
def Esc.char : Esc → Char
  | .quote => '"' | .bslash => '\\' | .slash => '/' | .b => '\x08' | .f => '\x0c' | .n => '\n' | .r => '\r' | .t => '\t'

/-- one character of a JSON string as written -/
inductive SCh
  | chr (c : Char)                     -- raw, as its UTF-8 bytes
  | esc (e : Esc)                      -- `\n` …
  | u4 (a b c d : UInt8)               -- `\uXXXX`, the four hex digits as written
  deriving DecidableEq, Repr

def isHexByte (c : UInt8) : Bool := (48 ≤ c && c ≤ 57) || (97 ≤ c && c ≤ 102) || (65 ≤ c && c ≤ 70)

/-- the string grammar: raw characters are neither controls nor `"` nor `\`; `\u` is followed by four hex digits -/
def SCh.ok : SCh → Prop
  | .chr c => 0x20 ≤ c.val.toNat ∧ c ≠ '"' ∧ c ≠ '\\'
  | .esc _ => True
  | .u4 a b c d => isHexByte a = true ∧ isHexByte b = true ∧ isHexByte c = true ∧ isHexByte d = true

def SCh.render : SCh → Bytes
  | .chr c => String.utf8EncodeChar c
  | .esc e => [92, e.byte]
  | .u4 a b c d => [92, 117, a, b, c, d]

/-- a scalar token of a JSON document -/
inductive STok
  | null | tru | fls
  | str (cs : List SCh)
  | num (bs : Bytes)                   -- the bytes of a numeral
  deriving DecidableEq, Repr

def STok.bytes : STok → Bytes
  | .null => sNull | .tru => sTrue | .fls => sFalse
  | .str cs => 34 :: (cs.flatMap SCh.render ++ [34])
  | .num bs => bs

/-- the bytes spell an RFC 8259 numeral (`-`? int frac? exp?, `e` or `E`) other than integer part `0`
directly followed by an exponent (`0e1`: K-C10-zeroexp, not recognised by the code) -/
def IsNumeral (bs : Bytes) : Prop :=
  ∃ t : Num.Numeral, t.wf ∧ ¬ t.zeroExp ∧ toCh bs = t.render

def STok.WF : STok → Prop
  | .str cs => ∀ c ∈ cs, c.ok
  | .num bs => IsNumeral bs
  | _ => True

/-! ### meaning -/

def hexDigit (c : UInt8) : Nat :=
  if c ≤ 57 then c.toNat - 48 else if c ≤ 70 then c.toNat - 55 else c.toNat - 87

def u4val (a b c d : UInt8) : Nat := hexDigit a * 4096 + hexDigit b * 256 + hexDigit c * 16 + hexDigit d

def isHighSurrogate (v : Nat) : Bool := 0xD800 ≤ v && v < 0xDC00
def isLowSurrogate (v : Nat) : Bool := 0xDC00 ≤ v && v < 0xE000

/-- a `\uXXXX` that is not half of a pair: the code point itself, U+FFFD for an unpaired surrogate -/
def bmp (v : Nat) : Char := if isHighSurrogate v || isLowSurrogate v then '�' else Char.ofNat v

def astral (hi lo : Nat) : Char := Char.ofNat (0x10000 + (hi - 0xD800) * 0x400 + (lo - 0xDC00))

/-- RFC 8259 §7: the characters a string token denotes -/
def decodeS : List SCh → List Char
  | [] => []
  | .chr c :: r => c :: decodeS r
  | .esc e :: r => e.char :: decodeS r
  | .u4 a b c d :: r@(.u4 a' b' c' d' :: r') =>
    if isHighSurrogate (u4val a b c d) && isLowSurrogate (u4val a' b' c' d') then
      astral (u4val a b c d) (u4val a' b' c' d') :: decodeS r'
    else bmp (u4val a b c d) :: decodeS r
  | .u4 a b c d :: r => bmp (u4val a b c d) :: decodeS r

/-- UTF-8 by Lean's own encoder -/
def utf8 (cs : List Char) : Bytes := cs.flatMap String.utf8EncodeChar

/-- the decoded string of a string token, as UTF-8 bytes (what Go calls the string); a string's LENGTH is the
number of these bytes -/
def text (cs : List SCh) : Bytes := utf8 (decodeS cs)

/-- the exact decimal a numeral denotes -/
def value (bs : Bytes) : Num.Den := Num.den (toCh bs)

/-- `v · 10^p` is an integer (at most `p` fractional digits in the decimal expansion) -/
def FracDigitsLE (p : Nat) (d : Num.Den) : Prop :=
  ∃ z : Int, d.mant * 10 ^ (-d.t).toNat * 10 ^ p = z * 10 ^ d.t.toNat

/-- the library's notion of integer / float: a plain decimal with a point is a float whatever its digits
(`1.0`), anything else is an integer exactly when its value is one (`2.3e+1`) — pinned by the repository's suite -/
def tokKind : STok → Kind → Prop
  | .null, k => k = .n
  | .tru, k => k = .b
  | .fls, k => k = .b
  | .str _, k => k = .s
  | .num bs, k =>
    if hasDot bs && !hasExp bs then k = .f
    else (FracDigitsLE 0 (value bs) ∧ k = .i) ∨ (¬ FracDigitsLE 0 (value bs) ∧ k = .f)

/-! ### rule sets over structured tokens -/

inductive SRule
  | min (bound : Bytes) (excl : Bool)
  | max (bound : Bytes) (excl : Bool)
  | precision (p : Nat)
  | minLength (n : Nat)
  | maxLength (n : Nat)
  | regex (pattern : Bytes)
  | enum (items : List STok)
  | const
  | fmt (f : Fmt)

def SRule.toModel : SRule → Rule
  | .min b x => .min b x | .max b x => .max b x | .precision p => .precision p
  | .minLength n => .minLength n | .maxLength n => .maxLength n | .regex p => .regex p
  | .enum items => .enum (items.map STok.bytes) | .const => .const | .fmt f => .fmt f

def SRule.isEnum : SRule → Bool | .enum _ => true | _ => false

structure SSpec where
  kind : Kind
  ex : STok
  nul : Bool
  rules : List SRule

def SSpec.toModel (S : SSpec) : LitSpecF :=
  { kind := S.kind, ex := S.ex.bytes, nul := S.nul, rules := S.rules.map SRule.toModel }

def SRule.WF : SRule → Prop
  | .min b _ => IsNumeral b
  | .max b _ => IsNumeral b
  | .enum items => ∀ it ∈ items, it.WF
  | _ => True

/-- every token of the rule set is a scalar token -/
def SSpec.WF (S : SSpec) : Prop := S.ex.WF ∧ ∀ r ∈ S.rules, r.WF

/-- the applicability the checker enforces (C08): numeric rules on numbers, `precision` on floats, length /
regex / formats on strings, `enum` and `const` on every scalar -/
def SRule.fits (k : Kind) : SRule → Bool
  | .min _ _ | .max _ _ => k == .i || k == .f
  | .precision _ => k == .f
  | .minLength _ | .maxLength _ | .regex _ | .fmt _ => k == .s
  | .enum _ | .const => true

def SSpec.hasEnum (S : SSpec) : Bool := S.rules.any SRule.isEnum

/-- … and beside an `enum` only `const` (and `nullable`) may stand (`enumConstraint` of the compiler) -/
def SSpec.applicable (S : SSpec) : Bool :=
  S.rules.all (fun r => r.fits S.kind) &&
  (!S.hasEnum || S.rules.all (fun r => match r with | .enum _ | .const => true | _ => false))

/-! ### what each rule admits -/

/-- const: equality with the EXAMPLE by value — strings by decoded text, numbers by exact value -/
def SameValue : STok → STok → Prop
  | .null, .null | .tru, .tru | .fls, .fls => True
  | .str a, .str b => text a = text b
  | .num a, .num b => Num.cmpDen (value a) (value b) = .eq
  | _, _ => False

/-- enum membership as the code decides it: type-sensitive (`"1"` is not `1`), strings by decoded text,
NUMBERS BY THEIR SPELLING (K-C10-enumtext) -/
def EnumEq : STok → STok → Prop
  | .null, .null | .tru, .tru | .fls, .fls => True
  | .str a, .str b => text a = text b
  | .num a, .num b => a = b
  | _, _ => False

/-- enum membership as the property's sibling C10 wants it: numbers by exact value and integer / float kind -/
def EnumEqV : STok → STok → Prop
  | .null, .null | .tru, .tru | .fls, .fls => True
  | .str a, .str b => text a = text b
  | .num a, .num b => Num.cmpDen (value a) (value b) = .eq ∧ ∀ k, tokKind (.num a) k ↔ tokKind (.num b) k
  | _, _ => False

/-- email: an address `net/mail` parses, not wrapped in blanks or angle brackets -/
def EmailSat (o : Oracles) (s : Bytes) : Prop :=
  s ≠ [] ∧ s.head? ≠ some 32 ∧ s.head? ≠ some 60 ∧ s.getLast? ≠ some 32 ∧ s.getLast? ≠ some 62 ∧ o.mail s = true

def FmtSat (o : Oracles) : Fmt → Bytes → Prop
  | .email, s => EmailSat o s
  | .uri, s => o.uri s = true
  | .uuid, s => Formats.uuidOK s = true
  | .date, s => Formats.dateOK s = true
  | .datetime, s => o.rfc3339 s = true

/-- the value `tok` satisfies rule `r` of a node whose EXAMPLE is `ex`; `eq` = how enum compares -/
def SatWith (eq : STok → STok → Prop) (o : Oracles) (ex : STok) : SRule → STok → Prop
  | .min b excl, .num v => if excl then Num.cmpDen (value b) (value v) = .lt else Num.cmpDen (value b) (value v) ≠ .gt
  | .max b excl, .num v => if excl then Num.cmpDen (value b) (value v) = .gt else Num.cmpDen (value b) (value v) ≠ .lt
  | .precision p, .num v => FracDigitsLE p (value v)
  | .minLength n, .str cs => n ≤ (text cs).length
  | .maxLength n, .str cs => (text cs).length ≤ n
  | .regex pat, .str cs => o.re pat (text cs) = true
  | .fmt f, .str cs => FmtSat o f (text cs)
  | .enum items, tok => ∃ it ∈ items, eq it tok
  | .const, tok => SameValue tok ex
  | _, _ => False

def Sat := SatWith EnumEq

/-- an admissible kind: the node's own, or an integer where a float is expected; an `enum` decides for itself -/
def Admissible (S : SSpec) (tok : STok) : Prop :=
  S.hasEnum = true ∨ tokKind tok S.kind ∨ (tokKind tok .i ∧ S.kind = .f)

/-- the property: null admitted by nullable, or an admissible kind and every rule satisfied -/
def Accepts (eq : STok → STok → Prop) (o : Oracles) (S : SSpec) (tok : STok) : Prop :=
  (tok = .null ∧ S.nul = true) ∨ (Admissible S tok ∧ ∀ r ∈ S.rules, SatWith eq o S.ex r tok)

end RulesF
