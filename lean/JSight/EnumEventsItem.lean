import JSight.EnumEventsRun
/-!
One item of the literal list: layout, token, layout, `,` or `]` — events and the duplicate error.
Tokens of the grammar (strings, numbers without exponent, true / false / null) are tokens of the automaton.
-/
set_option linter.unusedSimpArgs false
set_option linter.unusedVariables false
namespace EnumScan
open SchemaScan (Cls classify)

variable {content : Array UInt8} {data : Array Cls}

/-- a scalar token, as the scanner's token automaton reads it -/
def IsTok (tok : List Cls) : Prop :=
  ∃ c tl st0 unf0 stE, tok = c :: tl ∧ litStart c = some (st0, unf0) ∧
    silentRun st0 [] unf0 tl = some (stE, [], false) ∧ PV stE = true

/-- the four events of an item whose token occupies `[o1, o2)` -/
def itemEvs (o1 o2 : Nat) : List Ev :=
  [⟨.itemB, o1, o1⟩, ⟨.litB, o1, o1⟩, ⟨.litE, o1, o2 - 1⟩, ⟨.itemE, o1, o2 - 1⟩]

theorem item_pre {st : St} (hst : st = .arrItemOrEmpty ∨ st = .arrItem) (w1 tk w2 : List Cls) (hw1 : IsWs w1)
    (htk : IsTok tk) (hw2 : IsWs w2) {term : Cls} (ht : term = .comma ∨ term = .rbrack) (a o : Nat) (lc : Bool)
    (uq : List (List UInt8 × Bool)) (hseg : SegA data o (w1 ++ (tk ++ (w2 ++ [term]))))
    (hfresh : uq.contains (keyAt content (o + w1.length) tk.length) = false) :
    Pre content data ⟨st, [], [(.arrB, a)], [], o, false, false, lc, false, uq⟩
      (nlEvs o w1 ++ (itemEvs (o + w1.length) (o + w1.length + tk.length) ++
        (nlEvs (o + w1.length + tk.length) w2 ++ delimEvs a (o + w1.length + tk.length + w2.length) term)))
      ⟨delimSt term, [], delimStack a term, [], o + w1.length + tk.length + w2.length + 1, false, false, lc, false,
        keyAt content (o + w1.length) tk.length :: uq⟩ := by
  obtain ⟨c, tl, st0, unf0, stE, rfl, hl, hrun, hpv⟩ := htk
  obtain ⟨s1, hrest⟩ := SegA_append hseg
  obtain ⟨s2, s3⟩ := SegA_append hrest
  obtain ⟨hc, stl⟩ := s2
  have hloop : LoopSt st := by rcases hst with rfl | rfl <;> simp [LoopSt]
  have h1 := pre_ws_loop (content := content) hloop a lc false uq w1 hw1 o s1
  have h2 := pre_litStart (content := content) hst hl a (o + w1.length) lc false uq hc
  have h3 := pre_silentRun (content := content) tl [(.litB, o + w1.length), (.itemB, o + w1.length), (.arrB, a)]
    false lc false uq st0 [] unf0 (o + w1.length + 1) stE [] false stl hrun
  have e1 : o + w1.length + 1 + tl.length = o + w1.length + (c :: tl).length := by
    simp only [List.length_cons]; omega
  rw [e1] at h3
  have e2 : o + w1.length + (c :: tl).length - (o + w1.length) = (c :: tl).length := by omega
  have h4 := pre_close_run (content := content) hpv ht (o + w1.length) (o + w1.length) a
    (o + w1.length + (c :: tl).length) lc uq w2 hw2 s3 (by rw [e2]; exact hfresh)
  rw [e2] at h4
  refine (((h1.trans h2).trans h3).trans h4).cast ?_
  simp [itemEvs, List.append_assoc]

/-- **duplicate at this item**: the error is 810 at the first byte of the token -/
theorem item_dup {st : St} (hst : st = .arrItemOrEmpty ∨ st = .arrItem) (w1 tk : List Cls) (hw1 : IsWs w1)
    (htk : IsTok tk) {c : Cls} (hc : isDelim c = true) (a o : Nat) (lc : Bool)
    (uq : List (List UInt8 × Bool)) (hseg : SegA data o (w1 ++ (tk ++ [c])))
    (hdup : uq.contains (keyAt content (o + w1.length) tk.length) = true) :
    ∃ n, n ≤ w1.length + 2 ∧
    Out content data ⟨st, [], [(.arrB, a)], [], o, false, false, lc, false, uq⟩ n
      (.error (.duplicate (o + w1.length))) := by
  obtain ⟨c0, tl, st0, unf0, stE, rfl, hl, hrun, hpv⟩ := htk
  obtain ⟨s1, hrest⟩ := SegA_append hseg
  obtain ⟨s2, s3⟩ := SegA_append hrest
  obtain ⟨hc0, stl⟩ := s2
  obtain ⟨hd, _⟩ := s3
  have hloop : LoopSt st := by rcases hst with rfl | rfl <;> simp [LoopSt]
  have h1 := pre_ws_loop (content := content) hloop a lc false uq w1 hw1 o s1
  have h2 := pre_litStart (content := content) hst hl a (o + w1.length) lc false uq hc0
  have h3 := pre_silentRun (content := content) tl [(.litB, o + w1.length), (.itemB, o + w1.length), (.arrB, a)]
    false lc false uq st0 [] unf0 (o + w1.length + 1) stE [] false stl hrun
  have e1 : o + w1.length + 1 + tl.length = o + w1.length + (c0 :: tl).length := by
    simp only [List.length_cons]; omega
  rw [e1] at h3
  have e2 : o + w1.length + (c0 :: tl).length - (o + w1.length) = (c0 :: tl).length := by omega
  have h4 := out_dup (content := content) hpv hc (o + w1.length) (o + w1.length) a
    (o + w1.length + (c0 :: tl).length) lc uq hd (by rw [e2]; exact hdup)
  have h := ((h1.trans h2).trans h3) _ _ h4
  refine ⟨_, ?_, h⟩
  have := nlEvs_length_le o w1
  simp only [List.length_append, List.length_cons, List.length_nil]
  omega

end EnumScan
