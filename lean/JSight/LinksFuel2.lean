import JSight.LinksFuel
/-!
C09 (c), continued: `CompileAllOf` (in-progress set restored on return) and the assembled statements
`linkCheckF_noFuel`, `linkCheckF_stable`.
-/
namespace LK

/-! ### the check phase -/

theorem U_nil_le (g : G) : U g [] ≤ g.types.length := U_le g []

theorem checkKeys_noFuel (g : G) (f : Nat) (hf : g.types.length < f) : ∀ (keys : List (String × Bool)),
    checkKeys g f keys ≠ .error .fuel
  | [] => by simp [checkKeys]
  | (_, false) :: ks => by simp only [checkKeys]; exact checkKeys_noFuel g f hf ks
  | (k, true) :: ks => by
    unfold checkKeys
    cases hl : lookup g k with
    | none => intro h; cases h
    | some body =>
      simp only
      cases h1 : actualType g f [] body with
      | error e =>
        simp only
        intro h
        simp only [Except.error.injEq] at h
        subst h
        exact actualType_noFuel g f [] body (by have := U_nil_le g; omega) h1
      | ok t =>
        simp only
        by_cases ht : t = .str
        · rw [if_pos ht]; exact checkKeys_noFuel g f hf ks
        · rw [if_neg ht]; intro h; cases h

theorem checkKeys_le (g : G) (f f' : Nat) (hle : f ≤ f') : ∀ (keys : List (String × Bool)) (r : Except Err Unit),
    checkKeys g f keys = r → r ≠ .error .fuel → checkKeys g f' keys = r
  | [], r, h, _ => by simpa [checkKeys] using h
  | (_, false) :: ks, r, h, hr => by
    simp only [checkKeys] at h ⊢; exact checkKeys_le g f f' hle ks r h hr
  | (k, true) :: ks, r, h, hr => by
    unfold checkKeys at h ⊢
    cases hl : lookup g k with
    | none => simpa [hl] using h
    | some body =>
      simp only [hl] at h ⊢
      cases h1 : actualType g f [] body with
      | error e =>
        simp only [h1] at h
        have he : e ≠ .fuel := by
          intro e1; subst e1; exact hr h.symm
        rw [actualType_le g f f' hle _ _ _ h1 (by intro h2; cases h2; exact he rfl)]
        exact h
      | ok t =>
        simp only [h1] at h
        rw [actualType_le g f f' hle _ _ _ h1 (by intro h2; cases h2)]
        simp only
        by_cases ht : t = .str
        · rw [if_pos ht] at h ⊢; exact checkKeys_le g f f' hle ks r h hr
        · rw [if_neg ht] at h ⊢; exact h

theorem checkItem_noFuel (g : G) (f : Nat) (hf : g.types.length < f) (ci : CItem) : checkItem g f ci ≠ .error .fuel := by
  have hU := U_nil_le g
  cases ci with
  | arr => simp [checkItem]
  | ref names =>
    simp only [checkItem]
    intro h
    obtain ⟨m, hm⟩ := mustAll_only_missing g names _ h
    cases hm
  | lit jt ms =>
    cases ms with
    | nil => simp [checkItem]
    | cons x xs =>
      simp only [checkItem]
      have hc := collectNames_noFuel g (collectRoot g f) [] (fun n body al hn hl =>
        collectRoot_noFuel g f [n] body al (by have := U_lt g [] n body hl hn; omega)) (x :: xs) []
      cases h1 : collectNames g (collectRoot g f) [] (x :: xs) [] with
      | error e =>
        simp only
        intro h
        simp only [Except.error.injEq] at h
        subst h
        exact hc h1
      | ok al =>
        simp only
        by_cases hcn : al.contains jt = true
        · rw [if_pos hcn]
          have hb := buildNames_noFuel g (buildRoot g f) (U g []) (buildRoot_sub g f) (fun n body a hb hn hl =>
            buildRoot_noFuel g f body (n :: a) (by have := U_lt g a n body hl hn; omega)) (x :: xs) [] (Nat.le_refl _)
          cases h2 : buildNames g (buildRoot g f) (x :: xs) [] with
          | error e =>
            simp only
            intro h
            simp only [Except.error.injEq] at h
            subst h
            exact hb h2
          | ok a => intro h; cases h
        · rw [if_neg hcn]; intro h; cases h
  | obj keys addp =>
    simp only [checkItem]
    cases h1 : checkKeys g f keys with
    | error e =>
      simp only
      intro h
      simp only [Except.error.injEq] at h
      subst h
      exact checkKeys_noFuel g f hf keys h1
    | ok u =>
      simp only
      cases addp with
      | none => intro h; cases h
      | some a =>
        simp only
        cases lookup g a with
        | none => intro h; cases h
        | some b => intro h; cases h

theorem checkItem_le (g : G) (f f' : Nat) (hle : f ≤ f') (ci : CItem) (r : Except Err Unit)
    (h : checkItem g f ci = r) (hr : r ≠ .error .fuel) : checkItem g f' ci = r := by
  cases ci with
  | arr => simpa [checkItem] using h
  | ref names => simpa [checkItem] using h
  | lit jt ms =>
    cases ms with
    | nil => simpa [checkItem] using h
    | cons x xs =>
      simp only [checkItem] at h ⊢
      cases h1 : collectNames g (collectRoot g f) [] (x :: xs) [] with
      | error e =>
        simp only [h1] at h
        have he : e ≠ .fuel := by
          intro e1; subst e1; exact hr h.symm
        rw [collectNames_ext g _ _ (collectRoot_le g f f' hle) (x :: xs) [] [] _ h1 (by intro h2; cases h2; exact he rfl)]
        exact h
      | ok al =>
        simp only [h1] at h
        rw [collectNames_ext g _ _ (collectRoot_le g f f' hle) (x :: xs) [] [] _ h1 (by intro h2; cases h2)]
        simp only
        by_cases hcn : al.contains jt = true
        · rw [if_pos hcn] at h ⊢
          cases h2 : buildNames g (buildRoot g f) (x :: xs) [] with
          | error e =>
            simp only [h2] at h
            have he : e ≠ .fuel := by
              intro e1; subst e1; exact hr h.symm
            rw [buildNames_ext g _ _ (buildRoot_le g f f' hle) (x :: xs) [] _ h2 (by intro h3; cases h3; exact he rfl)]
            exact h
          | ok a =>
            simp only [h2] at h
            rw [buildNames_ext g _ _ (buildRoot_le g f f' hle) (x :: xs) [] _ h2 (by intro h3; cases h3)]
            exact h
        · rw [if_neg hcn] at h ⊢; exact h
  | obj keys addp =>
    simp only [checkItem] at h ⊢
    cases h1 : checkKeys g f keys with
    | error e =>
      simp only [h1] at h
      have he : e ≠ .fuel := by
        intro e1; subst e1; exact hr h.symm
      rw [checkKeys_le g f f' hle keys _ h1 (by intro h2; cases h2; exact he rfl)]
      exact h
    | ok u =>
      simp only [h1] at h
      rw [checkKeys_le g f f' hle keys _ h1 (by intro h2; cases h2)]
      exact h

theorem checkList_noFuel (g : G) (f : Nat) (hf : g.types.length < f) : ∀ (c : List CItem), checkList g f c ≠ .error .fuel
  | [] => by simp [checkList]
  | ci :: cs => by
    unfold checkList
    cases h1 : checkItem g f ci with
    | error e =>
      simp only
      intro h
      simp only [Except.error.injEq] at h
      subst h
      exact checkItem_noFuel g f hf ci h1
    | ok u => exact checkList_noFuel g f hf cs

theorem checkList_le (g : G) (f f' : Nat) (hle : f ≤ f') : ∀ (c : List CItem) (r : Except Err Unit),
    checkList g f c = r → r ≠ .error .fuel → checkList g f' c = r
  | [], r, h, _ => by simpa [checkList] using h
  | ci :: cs, r, h, hr => by
    unfold checkList at h ⊢
    cases h1 : checkItem g f ci with
    | error e =>
      simp only [h1] at h
      have he : e ≠ .fuel := by
        intro e1; subst e1; exact hr h.symm
      rw [checkItem_le g f f' hle ci _ h1 (by intro h2; cases h2; exact he rfl)]
      exact h
    | ok u =>
      simp only [h1] at h
      rw [checkItem_le g f f' hle ci _ h1 (by intro h2; cases h2)]
      exact checkList_le g f f' hle cs r h hr

theorem checkTypes_noFuel (g : G) (f : Nat) (hf : g.types.length < f) (st : St) : ∀ (names : List String),
    checkTypes g f st names ≠ .error .fuel
  | [] => by simp [checkTypes]
  | n :: ns => by
    unfold checkTypes
    cases h1 : checkList g f (compiledOf g st n) with
    | error e =>
      simp only
      intro h
      simp only [Except.error.injEq] at h
      subst h
      exact checkList_noFuel g f hf _ h1
    | ok u => exact checkTypes_noFuel g f hf st ns

theorem checkTypes_le (g : G) (f f' : Nat) (hle : f ≤ f') (st : St) : ∀ (names : List String) (r : Except Err Unit),
    checkTypes g f st names = r → r ≠ .error .fuel → checkTypes g f' st names = r
  | [], r, h, _ => by simpa [checkTypes] using h
  | n :: ns, r, h, hr => by
    unfold checkTypes at h ⊢
    cases h1 : checkList g f (compiledOf g st n) with
    | error e =>
      simp only [h1] at h
      have he : e ≠ .fuel := by
        intro e1; subst e1; exact hr h.symm
      rw [checkList_le g f f' hle _ _ h1 (by intro h2; cases h2; exact he rfl)]
      exact h
    | ok u =>
      simp only [h1] at h
      rw [checkList_le g f f' hle _ _ h1 (by intro h2; cases h2)]
      exact checkTypes_le g f f' hle st ns r h hr

theorem checkOrNodes_only_missing (g : G) : ∀ (ord : List (List String)) (e : Err), checkOrNodes g ord = .error e →
    ∃ m, e = .missing m
  | [], e, h => by simp [checkOrNodes] at h
  | l :: ls, e, h => by
    unfold checkOrNodes at h
    cases h1 : mustAll g l with
    | error e1 =>
      simp only [h1, Except.error.injEq] at h
      subst h
      exact mustAll_only_missing g l _ h1
    | ok u =>
      simp only [h1] at h
      exact checkOrNodes_only_missing g ls e h

theorem checkRootSchema_noFuel (g : G) (f : Nat) (hf : g.types.length < f) (rootC : List CItem) (st : St)
    (ord : List (List String)) : checkRootSchema g f rootC st ord ≠ .error .fuel := by
  unfold checkRootSchema
  cases h1 : checkList g f rootC with
  | error e =>
    simp only
    intro h
    simp only [Except.error.injEq] at h
    subst h
    exact checkList_noFuel g f hf _ h1
  | ok u =>
    simp only
    cases h2 : checkOrNodes g ord with
    | error e =>
      simp only
      intro h
      simp only [Except.error.injEq] at h
      subst h
      obtain ⟨m, hm⟩ := checkOrNodes_only_missing g ord _ h2
      cases hm
    | ok u2 => exact checkTypes_noFuel g f hf st _

theorem checkRootSchema_le (g : G) (f f' : Nat) (hle : f ≤ f') (rootC : List CItem) (st : St)
    (ord : List (List String)) (r : Except Err Unit) (h : checkRootSchema g f rootC st ord = r) (hr : r ≠ .error .fuel) :
    checkRootSchema g f' rootC st ord = r := by
  unfold checkRootSchema at h ⊢
  cases h1 : checkList g f rootC with
  | error e =>
    simp only [h1] at h
    have he : e ≠ .fuel := by
      intro e1; subst e1; exact hr h.symm
    rw [checkList_le g f f' hle _ _ h1 (by intro h2; cases h2; exact he rfl)]
    exact h
  | ok u =>
    simp only [h1] at h
    rw [checkList_le g f f' hle _ _ h1 (by intro h2; cases h2)]
    simp only
    cases h2 : checkOrNodes g ord with
    | error e => simpa [h2] using h
    | ok u2 =>
      simp only [h2] at h ⊢
      exact checkTypes_le g f f' hle st _ r h hr

/-! ### `CompileAllOf` -/

theorem copyKeys_noFuel : ∀ (pkeys acc : List (String × Bool)), copyKeys acc pkeys ≠ .error .fuel
  | [], acc => by simp [copyKeys]
  | p :: ps, acc => by
    unfold copyKeys
    by_cases hc : acc.contains p = true
    · rw [if_pos hc]; intro h; cases h
    · rw [if_neg hc]; exact copyKeys_noFuel ps (acc ++ [p])

theorem mergeAddp_noFuel (pa a : Option String) : mergeAddp pa a ≠ .error .fuel := by
  cases pa with
  | none => simp [mergeAddp]
  | some x =>
    cases a with
    | none => simp [mergeAddp]
    | some y =>
      simp only [mergeAddp]
      by_cases e : x = y
      · rw [if_pos e]; intro h; cases h
      · rw [if_neg e]; intro h; cases h

theorem extendWith_noFuel (name : String) (acc : List (String × Bool) × Option String) (pc : List CItem) :
    extendWith name acc pc ≠ .error .fuel := by
  unfold extendWith
  cases pc with
  | nil => intro h; cases h
  | cons ci rest =>
    cases ci with
    | lit jt ms => intro h; cases h
    | ref ns => intro h; cases h
    | arr => intro h; cases h
    | obj pkeys paddp =>
      simp only
      cases hm : mergeAddp paddp acc.2 with
      | error e =>
        simp only
        intro h
        simp only [Except.error.injEq] at h
        subst h
        exact mergeAddp_noFuel _ _ hm
      | ok addp' =>
        simp only
        cases hk : copyKeys acc.1 pkeys with
        | error e =>
          simp only
          intro h
          simp only [Except.error.injEq] at h
          subst h
          exact copyKeys_noFuel _ _ hk
        | ok keys' => intro h; cases h

/-- `processType` gives back the in-progress set it was called with -/
def PtPres (pt : String → St → Except Err (List CItem × St)) : Prop :=
  ∀ name st c st', pt name st = .ok (c, st') → st'.processing = st.processing

theorem extendAll_pres (pt : String → St → Except Err (List CItem × St)) (hp : PtPres pt) :
    ∀ (ao : List String) (acc r : List (String × Bool) × Option String) (st st' : St),
      extendAll pt ao acc st = .ok (r, st') → st'.processing = st.processing
  | [], acc, r, st, st', h => by
    simp only [extendAll, Except.ok.injEq, Prod.mk.injEq] at h
    rw [h.2]
  | p :: ps, acc, r, st, st', h => by
    unfold extendAll at h
    cases h1 : pt p st with
    | error e => simp [h1] at h
    | ok res =>
      obtain ⟨pc, st1⟩ := res
      simp only [h1] at h
      cases h2 : extendWith p acc pc with
      | error e => simp [h2] at h
      | ok acc1 =>
        simp only [h2] at h
        rw [extendAll_pres pt hp ps acc1 r st1 st' h, hp p st pc st1 h1]

theorem processItems_pres (pt : String → St → Except Err (List CItem × St)) (hp : PtPres pt) :
    ∀ (items : List Item) (st : St) (c : List CItem) (st' : St), processItems pt items st = .ok (c, st') →
      st'.processing = st.processing
  | [], st, c, st', h => by
    simp only [processItems, Except.ok.injEq, Prod.mk.injEq] at h
    rw [h.2]
  | .lit jt ms :: rest, st, c, st', h => by
    simp only [processItems] at h
    cases h1 : processItems pt rest st with
    | error e => simp [h1] at h
    | ok res =>
      obtain ⟨out, st1⟩ := res
      simp only [h1, Except.ok.injEq, Prod.mk.injEq] at h
      rw [← h.2]; exact processItems_pres pt hp rest st out st1 h1
  | .ref names :: rest, st, c, st', h => by
    simp only [processItems] at h
    cases h1 : processItems pt rest st with
    | error e => simp [h1] at h
    | ok res =>
      obtain ⟨out, st1⟩ := res
      simp only [h1, Except.ok.injEq, Prod.mk.injEq] at h
      rw [← h.2]; exact processItems_pres pt hp rest st out st1 h1
  | .arr :: rest, st, c, st', h => by
    simp only [processItems] at h
    cases h1 : processItems pt rest st with
    | error e => simp [h1] at h
    | ok res =>
      obtain ⟨out, st1⟩ := res
      simp only [h1, Except.ok.injEq, Prod.mk.injEq] at h
      rw [← h.2]; exact processItems_pres pt hp rest st out st1 h1
  | .inh ps :: rest, st, c, st', h => by
    simp only [processItems] at h
    cases h1 : processItems pt rest st with
    | error e => simp [h1] at h
    | ok res =>
      obtain ⟨out, st1⟩ := res
      simp only [h1, Except.ok.injEq, Prod.mk.injEq] at h
      rw [← h.2]; exact processItems_pres pt hp rest st out st1 h1
  | .obj keys addp ao :: rest, st, c, st', h => by
    simp only [processItems] at h
    cases h0 : extendAll pt ao (keys, addp) st with
    | error e => simp [h0] at h
    | ok res0 =>
      obtain ⟨acc, st1⟩ := res0
      simp only [h0] at h
      cases h1 : processItems pt rest st1 with
      | error e => simp [h1] at h
      | ok res =>
        obtain ⟨out, st2⟩ := res
        simp only [h1, Except.ok.injEq, Prod.mk.injEq] at h
        rw [← h.2, processItems_pres pt hp rest st1 out st2 h1, extendAll_pres pt hp ao _ acc st st1 h0]

theorem processType_pres (g : G) : ∀ f, PtPres (processType g f)
  | 0 => by intro name st c st' h; simp [processType] at h
  | f + 1 => by
    intro name st c st' h
    unfold processType at h
    by_cases hp : st.processing.contains name = true
    · rw [if_pos hp] at h; cases h
    · rw [if_neg hp] at h
      cases hl : lookup g name with
      | none => simp [hl] at h
      | some body =>
        simp only [hl] at h
        cases hc : st.compiled.lookup name with
        | some c0 =>
          simp only [hc, Except.ok.injEq, Prod.mk.injEq] at h
          rw [h.2]
        | none =>
          simp only [hc] at h
          cases h1 : processItems (processType g f) (flat body) { st with processing := name :: st.processing } with
          | error e => simp [h1] at h
          | ok res =>
            obtain ⟨c1, st1⟩ := res
            simp only [h1, Except.ok.injEq, Prod.mk.injEq] at h
            have := processItems_pres _ (processType_pres g f) (flat body) _ c1 st1 h1
            rw [← h.2]
            simp only [this, List.erase_cons_head]

theorem extendAll_noFuel (pt : String → St → Except Err (List CItem × St)) (P : List String) (hp : PtPres pt)
    (hpt : ∀ name st, st.processing = P → pt name st ≠ .error .fuel) :
    ∀ (ao : List String) (acc : List (String × Bool) × Option String) (st : St), st.processing = P →
      extendAll pt ao acc st ≠ .error .fuel
  | [], acc, st, _ => by simp [extendAll]
  | p :: ps, acc, st, hst => by
    unfold extendAll
    cases h1 : pt p st with
    | error e =>
      simp only
      intro h
      simp only [Except.error.injEq] at h
      subst h
      exact hpt p st hst h1
    | ok res =>
      obtain ⟨pc, st1⟩ := res
      simp only
      cases h2 : extendWith p acc pc with
      | error e =>
        simp only
        intro h
        simp only [Except.error.injEq] at h
        subst h
        exact extendWith_noFuel _ _ _ h2
      | ok acc1 =>
        exact extendAll_noFuel pt P hp hpt ps acc1 st1 (by rw [hp p st pc st1 h1, hst])

theorem processItems_noFuel (pt : String → St → Except Err (List CItem × St)) (P : List String) (hp : PtPres pt)
    (hpt : ∀ name st, st.processing = P → pt name st ≠ .error .fuel) :
    ∀ (items : List Item) (st : St), st.processing = P → processItems pt items st ≠ .error .fuel
  | [], st, _ => by simp [processItems]
  | .lit jt ms :: rest, st, hst => by
    simp only [processItems]
    cases h1 : processItems pt rest st with
    | error e =>
      simp only
      intro h
      simp only [Except.error.injEq] at h
      subst h
      exact processItems_noFuel pt P hp hpt rest st hst h1
    | ok res => intro h; cases h
  | .ref names :: rest, st, hst => by
    simp only [processItems]
    cases h1 : processItems pt rest st with
    | error e =>
      simp only
      intro h
      simp only [Except.error.injEq] at h
      subst h
      exact processItems_noFuel pt P hp hpt rest st hst h1
    | ok res => intro h; cases h
  | .arr :: rest, st, hst => by
    simp only [processItems]
    cases h1 : processItems pt rest st with
    | error e =>
      simp only
      intro h
      simp only [Except.error.injEq] at h
      subst h
      exact processItems_noFuel pt P hp hpt rest st hst h1
    | ok res => intro h; cases h
  | .inh ps :: rest, st, hst => by
    simp only [processItems]
    cases h1 : processItems pt rest st with
    | error e =>
      simp only
      intro h
      simp only [Except.error.injEq] at h
      subst h
      exact processItems_noFuel pt P hp hpt rest st hst h1
    | ok res => intro h; cases h
  | .obj keys addp ao :: rest, st, hst => by
    simp only [processItems]
    cases h0 : extendAll pt ao (keys, addp) st with
    | error e =>
      simp only
      intro h
      simp only [Except.error.injEq] at h
      subst h
      exact extendAll_noFuel pt P hp hpt ao _ st hst h0
    | ok res0 =>
      obtain ⟨acc, st1⟩ := res0
      simp only
      have hst1 : st1.processing = P := by rw [extendAll_pres pt hp ao _ acc st st1 h0, hst]
      cases h1 : processItems pt rest st1 with
      | error e =>
        simp only
        intro h
        simp only [Except.error.injEq] at h
        subst h
        exact processItems_noFuel pt P hp hpt rest st1 hst1 h1
      | ok res => intro h; cases h

theorem processType_noFuel (g : G) : ∀ (f : Nat) (name : String) (st : St), U g st.processing < f →
    processType g f name st ≠ .error .fuel
  | 0, _, _, h => by omega
  | f + 1, name, st, h => by
    unfold processType
    by_cases hp : st.processing.contains name = true
    · rw [if_pos hp]; intro h; cases h
    · rw [if_neg hp]
      cases hl : lookup g name with
      | none => intro h; cases h
      | some body =>
        simp only
        cases hc : st.compiled.lookup name with
        | some c0 => intro h; cases h
        | none =>
          simp only
          have hlt := U_lt g st.processing name body hl (not_mem_of_contains_false hp)
          have hx := processItems_noFuel (processType g f) (name :: st.processing) (processType_pres g f)
            (fun n s hs => processType_noFuel g f n s (by rw [hs]; omega)) (flat body)
            { st with processing := name :: st.processing } rfl
          cases h1 : processItems (processType g f) (flat body) { st with processing := name :: st.processing } with
          | error e =>
            simp only
            intro h
            simp only [Except.error.injEq] at h
            subst h
            exact hx h1
          | ok res => intro h; cases h

def ExtP (pt1 pt2 : String → St → Except Err (List CItem × St)) : Prop :=
  ∀ name st r, pt1 name st = r → r ≠ .error .fuel → pt2 name st = r

theorem extendAll_ext (pt1 pt2 : String → St → Except Err (List CItem × St)) (hx : ExtP pt1 pt2) :
    ∀ (ao : List String) (acc : List (String × Bool) × Option String) (st : St)
      (r : Except Err ((List (String × Bool) × Option String) × St)),
      extendAll pt1 ao acc st = r → r ≠ .error .fuel → extendAll pt2 ao acc st = r
  | [], acc, st, r, h, _ => by simpa [extendAll] using h
  | p :: ps, acc, st, r, h, hr => by
    unfold extendAll at h ⊢
    cases h1 : pt1 p st with
    | error e =>
      simp only [h1] at h
      have he : e ≠ .fuel := by
        intro e1; subst e1; exact hr h.symm
      rw [hx _ _ _ h1 (by intro h2; cases h2; exact he rfl)]
      exact h
    | ok res =>
      obtain ⟨pc, st1⟩ := res
      simp only [h1] at h
      rw [hx _ _ _ h1 (by intro h2; cases h2)]
      simp only
      cases h2 : extendWith p acc pc with
      | error e => simpa [h2] using h
      | ok acc1 =>
        simp only [h2] at h ⊢
        exact extendAll_ext pt1 pt2 hx ps acc1 st1 r h hr

theorem processItems_ext (pt1 pt2 : String → St → Except Err (List CItem × St)) (hx : ExtP pt1 pt2) :
    ∀ (items : List Item) (st : St) (r : Except Err (List CItem × St)),
      processItems pt1 items st = r → r ≠ .error .fuel → processItems pt2 items st = r
  | [], st, r, h, _ => by simpa [processItems] using h
  | .lit jt ms :: rest, st, r, h, hr => by
    simp only [processItems] at h ⊢
    cases h1 : processItems pt1 rest st with
    | error e =>
      simp only [h1] at h
      have he : e ≠ .fuel := by
        intro e1; subst e1; exact hr h.symm
      rw [processItems_ext pt1 pt2 hx rest st _ h1 (by intro h2; cases h2; exact he rfl)]
      exact h
    | ok res =>
      simp only [h1] at h
      rw [processItems_ext pt1 pt2 hx rest st _ h1 (by intro h2; cases h2)]
      exact h
  | .ref names :: rest, st, r, h, hr => by
    simp only [processItems] at h ⊢
    cases h1 : processItems pt1 rest st with
    | error e =>
      simp only [h1] at h
      have he : e ≠ .fuel := by
        intro e1; subst e1; exact hr h.symm
      rw [processItems_ext pt1 pt2 hx rest st _ h1 (by intro h2; cases h2; exact he rfl)]
      exact h
    | ok res =>
      simp only [h1] at h
      rw [processItems_ext pt1 pt2 hx rest st _ h1 (by intro h2; cases h2)]
      exact h
  | .arr :: rest, st, r, h, hr => by
    simp only [processItems] at h ⊢
    cases h1 : processItems pt1 rest st with
    | error e =>
      simp only [h1] at h
      have he : e ≠ .fuel := by
        intro e1; subst e1; exact hr h.symm
      rw [processItems_ext pt1 pt2 hx rest st _ h1 (by intro h2; cases h2; exact he rfl)]
      exact h
    | ok res =>
      simp only [h1] at h
      rw [processItems_ext pt1 pt2 hx rest st _ h1 (by intro h2; cases h2)]
      exact h
  | .inh ps :: rest, st, r, h, hr => by
    simp only [processItems] at h ⊢
    cases h1 : processItems pt1 rest st with
    | error e =>
      simp only [h1] at h
      have he : e ≠ .fuel := by
        intro e1; subst e1; exact hr h.symm
      rw [processItems_ext pt1 pt2 hx rest st _ h1 (by intro h2; cases h2; exact he rfl)]
      exact h
    | ok res =>
      simp only [h1] at h
      rw [processItems_ext pt1 pt2 hx rest st _ h1 (by intro h2; cases h2)]
      exact h
  | .obj keys addp ao :: rest, st, r, h, hr => by
    simp only [processItems] at h ⊢
    cases h0 : extendAll pt1 ao (keys, addp) st with
    | error e =>
      simp only [h0] at h
      have he : e ≠ .fuel := by
        intro e1; subst e1; exact hr h.symm
      rw [extendAll_ext pt1 pt2 hx ao _ st _ h0 (by intro h2; cases h2; exact he rfl)]
      exact h
    | ok res0 =>
      obtain ⟨acc, st1⟩ := res0
      simp only [h0] at h
      rw [extendAll_ext pt1 pt2 hx ao _ st _ h0 (by intro h2; cases h2)]
      simp only
      cases h1 : processItems pt1 rest st1 with
      | error e =>
        simp only [h1] at h
        have he : e ≠ .fuel := by
          intro e1; subst e1; exact hr h.symm
        rw [processItems_ext pt1 pt2 hx rest st1 _ h1 (by intro h2; cases h2; exact he rfl)]
        exact h
      | ok res =>
        simp only [h1] at h
        rw [processItems_ext pt1 pt2 hx rest st1 _ h1 (by intro h2; cases h2)]
        exact h

theorem processType_succ (g : G) : ∀ f, ExtP (processType g f) (processType g (f + 1))
  | 0 => by
    intro name st r h hr
    simp only [processType] at h
    exact absurd h.symm hr
  | f + 1 => by
    intro name st r h hr
    unfold processType at h ⊢
    by_cases hp : st.processing.contains name = true
    · rw [if_pos hp] at h ⊢; exact h
    · rw [if_neg hp] at h ⊢
      cases hl : lookup g name with
      | none => simpa [hl] using h
      | some body =>
        simp only [hl] at h ⊢
        cases hc : st.compiled.lookup name with
        | some c0 => simpa [hc] using h
        | none =>
          simp only [hc] at h ⊢
          cases h1 : processItems (processType g f) (flat body) { st with processing := name :: st.processing } with
          | error e =>
            simp only [h1] at h
            have he : e ≠ .fuel := by
              intro e1; subst e1; exact hr h.symm
            rw [processItems_ext _ _ (processType_succ g f) (flat body) _ _ h1 (by intro h2; cases h2; exact he rfl)]
            exact h
          | ok res =>
            simp only [h1] at h
            rw [processItems_ext _ _ (processType_succ g f) (flat body) _ _ h1 (by intro h2; cases h2)]
            exact h

theorem processType_le (g : G) (f f' : Nat) (hle : f ≤ f') : ExtP (processType g f) (processType g f') := by
  induction hle with
  | refl => intro _ _ _ h _; exact h
  | step _ ih =>
    intro name st r h hr
    exact processType_succ g _ name st r (ih name st r h hr) hr

theorem processNames_noFuel (pt : String → St → Except Err (List CItem × St)) (P : List String) (hp : PtPres pt)
    (hpt : ∀ name st, st.processing = P → pt name st ≠ .error .fuel) :
    ∀ (names : List String) (st : St), st.processing = P → processNames pt names st ≠ .error .fuel
  | [], st, _ => by simp [processNames]
  | n :: ns, st, hst => by
    unfold processNames
    cases h1 : pt n st with
    | error e =>
      simp only
      intro h
      simp only [Except.error.injEq] at h
      subst h
      exact hpt n st hst h1
    | ok res =>
      obtain ⟨c, st1⟩ := res
      exact processNames_noFuel pt P hp hpt ns st1 (by rw [hp n st c st1 h1, hst])

theorem processNames_ext (pt1 pt2 : String → St → Except Err (List CItem × St)) (hx : ExtP pt1 pt2) :
    ∀ (names : List String) (st : St) (r : Except Err St),
      processNames pt1 names st = r → r ≠ .error .fuel → processNames pt2 names st = r
  | [], st, r, h, _ => by simpa [processNames] using h
  | n :: ns, st, r, h, hr => by
    unfold processNames at h ⊢
    cases h1 : pt1 n st with
    | error e =>
      simp only [h1] at h
      have he : e ≠ .fuel := by
        intro e1; subst e1; exact hr h.symm
      rw [hx _ _ _ h1 (by intro h2; cases h2; exact he rfl)]
      exact h
    | ok res =>
      obtain ⟨c, st1⟩ := res
      simp only [h1] at h
      rw [hx _ _ _ h1 (by intro h2; cases h2)]
      exact processNames_ext pt1 pt2 hx ns st1 r h hr

theorem compileAllOf_noFuel (g : G) (f : Nat) (hf : g.types.length < f) : compileAllOf g f ≠ .error .fuel := by
  unfold compileAllOf
  have hU := U_nil_le g
  have hpt : ∀ name (st : St), st.processing = [] → processType g f name st ≠ .error .fuel :=
    fun name st hs => processType_noFuel g f name st (by rw [hs]; omega)
  cases h1 : processItems (processType g f) (flat g.root) ⟨[], []⟩ with
  | error e =>
    simp only
    intro h
    simp only [Except.error.injEq] at h
    subst h
    exact processItems_noFuel _ [] (processType_pres g f) hpt _ _ rfl h1
  | ok res =>
    obtain ⟨rootC, st⟩ := res
    simp only
    have hst : st.processing = [] := processItems_pres _ (processType_pres g f) _ _ rootC st h1
    cases h2 : processNames (processType g f) (sortedNames g) st with
    | error e =>
      simp only
      intro h
      simp only [Except.error.injEq] at h
      subst h
      exact processNames_noFuel _ [] (processType_pres g f) hpt _ st hst h2
    | ok st' => intro h; cases h

theorem compileAllOf_le (g : G) (f f' : Nat) (hle : f ≤ f') (r : Except Err (List CItem × St))
    (h : compileAllOf g f = r) (hr : r ≠ .error .fuel) : compileAllOf g f' = r := by
  unfold compileAllOf at h ⊢
  have hx := processType_le g f f' hle
  cases h1 : processItems (processType g f) (flat g.root) ⟨[], []⟩ with
  | error e =>
    simp only [h1] at h
    have he : e ≠ .fuel := by
      intro e1; subst e1; exact hr h.symm
    rw [processItems_ext _ _ hx _ _ _ h1 (by intro h2; cases h2; exact he rfl)]
    exact h
  | ok res =>
    obtain ⟨rootC, st⟩ := res
    simp only [h1] at h
    rw [processItems_ext _ _ hx _ _ _ h1 (by intro h2; cases h2)]
    simp only
    cases h2 : processNames (processType g f) (sortedNames g) st with
    | error e =>
      simp only [h2] at h
      have he : e ≠ .fuel := by
        intro e1; subst e1; exact hr h.symm
      rw [processNames_ext _ _ hx _ _ _ h2 (by intro h3; cases h3; exact he rfl)]
      exact h
    | ok st' =>
      simp only [h2] at h
      rw [processNames_ext _ _ hx _ _ _ h2 (by intro h3; cases h3)]
      exact h

/-! ### the link check as a whole -/

/-- with `|types| + 1` units of fuel (or more) the link check never runs out of fuel — on every graph -/
theorem linkCheckF_noFuel (g : G) (f : Nat) (hf : fuelOf g ≤ f) (ord : List (List String)) :
    linkCheckF g f ord ≠ .error .fuel := by
  have hf' : g.types.length < f := by unfold fuelOf at hf; omega
  unfold linkCheckF
  cases h1 : compileAllOf g f with
  | error e =>
    simp only
    intro h
    simp only [Except.error.injEq] at h
    subst h
    exact compileAllOf_noFuel g f hf' h1
  | ok res =>
    obtain ⟨rootC, st⟩ := res
    exact checkRootSchema_noFuel g f hf' rootC st ord

theorem linkCheckF_le (g : G) (f f' : Nat) (hle : f ≤ f') (ord : List (List String)) (r : Except Err Unit)
    (h : linkCheckF g f ord = r) (hr : r ≠ .error .fuel) : linkCheckF g f' ord = r := by
  unfold linkCheckF at h ⊢
  cases h1 : compileAllOf g f with
  | error e =>
    simp only [h1] at h
    have he : e ≠ .fuel := by
      intro e1; subst e1; exact hr h.symm
    rw [compileAllOf_le g f f' hle _ h1 (by intro h2; cases h2; exact he rfl)]
    exact h
  | ok res =>
    obtain ⟨rootC, st⟩ := res
    simp only [h1] at h
    rw [compileAllOf_le g f f' hle _ h1 (by intro h2; cases h2)]
    exact checkRootSchema_le g f f' hle rootC st ord r h hr

/-- any amount of fuel from `|types| + 1` on gives the verdict of `linkCheck` -/
theorem linkCheckF_stable (g : G) (f : Nat) (hf : fuelOf g ≤ f) (ord : List (List String)) :
    linkCheckF g f ord = linkCheck g ord :=
  linkCheckF_le g (fuelOf g) f hf ord _ rfl (linkCheckF_noFuel g (fuelOf g) (Nat.le_refl _) ord)

end LK
