import JSight.SchemaLenEnd
/-!
C14 (schema scanner): `Len` reports exactly where an embedded schema ends.

`SchemaScan.length` is the model of the Go schema scanner's `Length()` (scanner in length-computing mode, end of the
last event / `end-top` at the first foreign byte, trailing blanks trimmed).  For every plain-JSON value tree `v`
(any nesting, width, layout incl. line breaks) with leading layout `ws0`:

* `C14_schema_len_whole`    : classes `ws0 ++ v.render ++ ws1`, `ws1` layout  ⟹  `length = |ws0| + |v.render|`;
* `C14_schema_len_embedded` : classes `ws0 ++ v.render ++ w ++ x :: rest`, `w` layout, `x` foreign (not layout, not `/`,
  not `#`), and — only when `x` is glued to the value (`w = []`) — `x` does not continue the token
  (`adjOk (v.endSt) x`), `rest` arbitrary  ⟹  `length = |ws0| + |v.render|`.
-/
namespace SchemaScan
namespace Len

variable {data : Array Cls}

/-! ### lengths after the events of a value -/

theorem upd_pred (t : LexT) (b E : Nat) (h1 : 1 ≤ E) (h2 : E ≤ data.size) : upd data ⟨t, b, E - 1⟩ = E := by
  unfold upd
  have : (E - 1 == data.size) = false := by simp; omega
  simp only [this]
  simp; omega

theorem lenAfter_items : ∀ (its : List (List Cls × Tree × List Cls)) (a o len : Nat),
    lenAfter data (evsItems a o its) len = upd data ⟨.arrE, a, o + (renderItems its).length - 1⟩
  | [], a, o, len => by simp [evsItems, renderItems, lenAfter]
  | (w1, v, w2) :: its, a, o, len => by
    simp only [evsItems, lenAfter_append, lenAfter]
    rw [lenAfter_items its]
    congr 2
    simp only [renderItems, List.length_append]
    cases its <;> simp <;> omega

theorem lenAfter_members : ∀ (ms : List (List Cls × List Cls × List Cls × List Cls × Tree × List Cls)) (a o len : Nat),
    lenAfter data (evsMembers a o ms) len = upd data ⟨.objE, a, o + (renderMembers ms).length - 1⟩
  | [], a, o, len => by simp [evsMembers, renderMembers, lenAfter]
  | (w1, k, w2, w3, v, w4) :: ms, a, o, len => by
    simp only [evsMembers, lenAfter_append, lenAfter]
    rw [lenAfter_members ms]
    congr 2
    simp only [renderMembers, List.length_append, List.length_cons]
    cases ms <;> simp <;> omega

/-- after the events of a value the length is fixed by its last event, which ends at its last byte -/
theorem lenAfter_value (v : Tree) (o : Nat) :
    ∃ t b, ∀ len, lenAfter data (schemaEvsAt o v) len = upd data ⟨t, b, o + v.render.length - 1⟩ := by
  cases v with
  | scalar tok => exact ⟨.litE, o, fun _ => rfl⟩
  | arr ws0 items =>
    refine ⟨.arrE, o, fun len => ?_⟩
    simp only [schemaEvsAt, lenAfter, lenAfter_append, lenAfter_items, Tree.render, List.length_cons, List.length_append]
    congr 2; omega
  | obj ws0 members =>
    refine ⟨.objE, o, fun len => ?_⟩
    simp only [schemaEvsAt, lenAfter, lenAfter_append, lenAfter_members, Tree.render, List.length_cons, List.length_append]
    congr 2; omega

theorem lenAfter_nlEvs : ∀ (w : List Cls) (i len lo : Nat), lo ≤ len → len ≤ i → i + w.length ≤ data.size →
    lo ≤ lenAfter data (nlEvs i w) len ∧ lenAfter data (nlEvs i w) len ≤ i + w.length
  | [], i, len, lo, h1, h2, _ => by simp only [nlEvs, lenAfter, List.length_nil]; omega
  | c :: cs, i, len, lo, h1, h2, h3 => by
    simp only [List.length_cons] at h3
    simp only [nlEvs, lenAfter_append, List.length_cons]
    split
    · have hu : upd data ⟨.newLine, i, i⟩ = i + 1 := by
        unfold upd
        have : (i == data.size) = false := by simp; omega
        simp [this]
      simp only [lenAfter, hu]
      have := lenAfter_nlEvs cs (i + 1) (i + 1) lo (by omega) (by omega) (by omega)
      omega
    · simp only [lenAfter]
      have := lenAfter_nlEvs cs (i + 1) len lo h1 (by omega) (by omega)
      omega

theorem open_closers (v : Tree) (o : Nat) :
    evsOpen o v ++ rootClosers v.isLit o (o + v.render.length - 1) = schemaEvsAt o v := by
  cases v <;> simp [evsOpen, schemaEvsAt, rootClosers, Tree.isLit, Tree.render]

theorem noTop_rootClosers (lit : Bool) (b e : Nat) : noTop (rootClosers lit b e) = true := by cases lit <;> rfl

theorem noTop_open (v : Tree) (o : Nat) : noTop (evsOpen o v) = true := by
  have := noTop_evs v o
  rw [← open_closers, noTop_append] at this
  simp only [Bool.and_eq_true] at this
  exact this.1

theorem open_length (v : Tree) (hv : v.Valid) (o : Nat) : (evsOpen o v).length ≤ 3 * v.render.length := by
  have := evs_length v hv o
  rw [← open_closers, List.length_append] at this
  omega

/-! ### the run up to the end of the value -/

theorem root_path (v : Tree) (hv : v.Valid) (ws0 : List Cls) (h0 : IsWs ws0) (hat : At data 0 (ws0 ++ v.render)) :
    ∃ st cx al, PV st = true ∧ st = v.endSt ∧
      Path data { lengthComputing := true } (nlEvs 0 ws0 ++ evsOpen ws0.length v)
        (cfgL true st [] (pendOf v.isLit ws0.length) false (ws0.length + v.render.length) [] cx al) := by
  rw [At_append] at hat
  obtain ⟨hat0, hatv⟩ := hat
  have hinit : ({ lengthComputing := true } : Sc) = cfgL true .foundRoot [] [] false 0 [] { ty := .initial } true := rfl
  rw [hinit]
  obtain ⟨al1, s1⟩ := ws_run (lc := true) ws0 h0 .foundRoot rfl [] 0 [] { ty := .initial } true hat0
  rw [wsSt_eq (by simp)] at s1
  obtain ⟨st, cx2, al2, hp, hst, s2⟩ := value_run (lc := true) v hv .root [] (0 + ws0.length) hatv [] { ty := .initial } al1
  have s2' : Path data (cfgL true .foundRoot [] [] false (0 + ws0.length) [] { ty := .initial } al1)
      (evsOpen (0 + ws0.length) v)
      (cfgL true st [] (pendOf v.isLit (0 + ws0.length)) false (0 + ws0.length + v.render.length) [] cx2 al2) := by
    have := s2
    simp only [VCtx.preEvs, VCtx.pre, List.nil_append, List.append_nil] at this
    exact this
  refine ⟨st, cx2, al2, hp, hst, ?_⟩
  have := Path.trans s1 s2'
  simp only [Nat.zero_add] at this
  exact this

/-- layout after the top-level value: its first byte closes a pending literal, the rest is skipped in `end-top` -/
theorem close_root_ws {lc : Bool} {st : St} (hst : PV st = true) (lit : Bool) (b : Nat)
    (c : Cls) (w : List Cls) (hw : IsWs (c :: w)) (i : Nat) (CS : List Ctx) (cx : Ctx) (al : Bool)
    (hat : At data i (c :: w)) :
    ∃ al', Path data (cfgL lc st [] (pendOf lit b) false i CS cx al) (rootClosers lit b (i - 1) ++ nlEvs i (c :: w))
      (cfgL lc .endTop [] [] false (i + (w.length + 1)) CS cx al') := by
  obtain ⟨hc, hat'⟩ := hat
  obtain ⟨al', h2⟩ := ws_run (lc := lc) w hw.tail .endTop rfl [] (i + 1) CS cx al hat'
  rw [wsSt_eq (by simp)] at h2
  refine ⟨al', ?_⟩
  rw [show i + (w.length + 1) = i + 1 + w.length by omega]
  rcases blank_cases hw.head with hs | rfl
  · have h1 := S_root_sp (lc := lc) hst hs lit b i CS cx al hc
    simp only [nlEvs, if_neg (sptab_ne_nl hs), List.nil_append]
    exact Path.trans h1 h2
  · have h1 := S_root_nl (lc := lc) hst lit b i CS cx al hc
    simp only [nlEvs, if_true]
    rw [← List.append_assoc]
    exact Path.trans h1 h2

/-! ### the end of the run -/

/-- a queued `end-top` (not deferred) ends the loop with its offset -/
theorem top_queued (j : Nat) (CS : List Ctx) (cx : Ctx) (al : Bool) (len : Nat) :
    LenRun data { cfgL true .endTop [] [] false (j + 1) CS cx al with finds := [.endTop] } len j 1 := by
  have hn : NextOk data { cfgL true .endTop [] [] false (j + 1) CS cx al with finds := [.endTop] }
      (some (cfgL true .endTop [] [] false (j + 1) CS cx al, ⟨.endTop, j, j⟩)) := nextOk_shift rfl rfl
  exact LenRun.top hn rfl

/-- a foreign byte after layout that followed the value -/
theorem foreign_after_ws {x : Cls} (hx : x.isForeign = true) (j : Nat) (CS : List Ctx) (cx : Ctx) (al : Bool)
    (len : Nat) (hc : data[j]? = some x) : LenRun data (cfgL true .endTop [] [] false j CS cx al) len j 1 :=
  (top_queued j CS cx al len).lift
    (nextOk_read (s := cfgL true .endTop [] [] false j CS cx al) rfl hc
      (endTop_foreign 7 x hx (j + 1) CS cx al [] _ _) rfl)

/-- a foreign byte glued to a top-level container -/
theorem foreign_glued_container {st : St} (hst : PV st = true) {x : Cls} (hx : x.isForeign = true)
    (hadj : adjOk st x = true) (i : Nat) (CS : List Ctx) (cx : Ctx) (al : Bool) (len : Nat) (hc : data[i]? = some x) :
    LenRun data (cfgL true st [] [] false i CS cx al) len i 1 :=
  (top_queued i CS cx al len).lift
    (nextOk_read (s := cfgL true st [] [] false i CS cx al) rfl hc
      ((pv_foreign 7 st hst x hadj _ _ _).trans
        ((ev_root (lc := true) 7 st false 0 (i + 1) CS cx al x _ _).trans
          (endTop_foreign 6 x hx (i + 1) CS cx al [] _ _))) rfl)

/-- a foreign byte glued to a top-level scalar: the literal is closed, `end-top` is deferred to the next byte (or the
end of input), and the reported offset is that of the foreign byte -/
theorem foreign_glued_scalar {st : St} (hst : PV st = true) {x : Cls} (hx : x.isForeign = true)
    (hadj : adjOk st x = true) (b i : Nat) (CS : List Ctx) (cx : Ctx) (al : Bool) (len : Nat) (hi : 1 ≤ i)
    (hc : data[i]? = some x) :
    ∃ k, k ≤ 2 ∧ LenRun data (cfgL true st [] [(.litB, b)] false i CS cx al) len i k := by
  have hlt : i < data.size := (Array.getElem?_eq_some_iff.mp hc).1
  have lift := nextOk_read (s := cfgL true st [] [(.litB, b)] false i CS cx al) rfl hc
    ((pv_foreign 7 st hst x hadj _ _ _).trans
      ((ev_root (lc := true) 7 st true b (i + 1) CS cx al x _ _).trans
        (endTop_foreign_open 6 x hx (.litB, b) [] (i + 1) CS cx al [.litE] _ _))) rfl
  have hn1 : NextOk data
      { cfgL true .endTop [] [(.litB, b)] false (i + 1) CS cx al with finds := [.litE], hasTrailing := true }
      (some ({ cfgL true .endTop [] [] false (i + 1) CS cx al with hasTrailing := true }, ⟨.litE, b, i - 1⟩)) :=
    nextOk_shift rfl rfl
  have hu : upd data ⟨.litE, b, i - 1⟩ = i := upd_pred _ _ _ hi (by omega)
  by_cases h2 : i + 1 < data.size
  · obtain ⟨c2, hc2⟩ : ∃ c2, data[i + 1]? = some c2 := ⟨data[i + 1], by simp [h2]⟩
    have lift2 := nextOk_read (s := { cfgL true .endTop [] [] false (i + 1) CS cx al with hasTrailing := true }) rfl hc2
      (endTop_trailing 7 c2 (i + 1 + 1) CS cx al _ _) rfl
    have hn3 : NextOk data
        { cfgL true .endTop [] [] false (i + 1 + 1) CS cx al with hasTrailing := true, finds := [.endTop] }
        (some ({ cfgL true .endTop [] [] false (i + 1 + 1) CS cx al with hasTrailing := true }, ⟨.endTop, i + 1, i + 1⟩)) :=
      nextOk_shift rfl rfl
    have r3 : LenRun data
        { cfgL true .endTop [] [] false (i + 1 + 1) CS cx al with hasTrailing := true, finds := [.endTop] }
        (upd data ⟨.litE, b, i - 1⟩) i 1 := LenRun.top hn3 rfl
    exact ⟨1 + 1, by omega, (LenRun.ev hn1 (by intro h; cases h) (r3.lift lift2)).lift lift⟩
  · have hn2 : NextOk data { cfgL true .endTop [] [] false (i + 1) CS cx al with hasTrailing := true } none :=
      nextOk_done rfl (by simp only [cfgL]; omega) rfl
    have r2 : LenRun data { cfgL true .endTop [] [] false (i + 1) CS cx al with hasTrailing := true }
        (upd data ⟨.litE, b, i - 1⟩) i 1 := by
      rw [hu]; exact LenRun.eof hn2
    exact ⟨1 + 1, by omega, (LenRun.ev hn1 (by intro h; cases h) r2).lift lift⟩

/-! ### `length` -/

theorem length_of_lenRun (bs : List UInt8) (L k : Nat)
    (h : LenRun (bs.map classify).toArray { lengthComputing := true } 0 L k)
    (hk : k ≤ 8 * (bs.map classify).toArray.size + 16) :
    length bs = .ok (trimBlank (bs.map classify).toArray L) := by
  unfold length
  simp only [bind, Except.bind, lengthLoop_of_lenRun h _ hk]
  rfl

/-- splitting the input: layout and value, then what follows -/
theorem at_split (ws0 r tl : List Cls) (hat : At data 0 (ws0 ++ (r ++ tl))) :
    At data 0 (ws0 ++ r) ∧ At data ws0.length r ∧ At data (ws0.length + r.length) tl := by
  rw [At_append, At_append] at hat
  simp only [Nat.zero_add] at hat
  refine ⟨?_, hat.2.1, hat.2.2⟩
  rw [At_append]
  simp only [Nat.zero_add]
  exact ⟨hat.1, hat.2.1⟩

/-- **embedded schema, on byte classes**: the length loop stops at the foreign byte; trimming gives the end of the value -/
theorem lenRun_embedded (v : Tree) (hv : v.Valid) (ws0 w : List Cls) (h0 : IsWs ws0) (hw : IsWs w)
    (x : Cls) (rest : List Cls) (hx : x.isForeign = true) (hadj : w = [] → adjOk (v.endSt) x = true)
    (hat : At data 0 (ws0 ++ (v.render ++ (w ++ x :: rest))))
    (hsize : data.size = ws0.length + v.render.length + w.length + 1 + rest.length) :
    ∃ L k, LenRun data { lengthComputing := true } 0 L k ∧ k ≤ 8 * data.size + 16 ∧
      ws0.length + v.render.length ≤ L ∧ L ≤ ws0.length + v.render.length + w.length := by
  obtain ⟨hat0, _, hatT⟩ := at_split ws0 v.render (w ++ x :: rest) hat
  obtain ⟨st, cx, al, hp, hst, P⟩ := root_path v hv ws0 h0 hat0
  have hlen := open_length v hv ws0.length
  have hnl := nlEvs_length 0 ws0
  have hnt : noTop (nlEvs 0 ws0 ++ evsOpen ws0.length v) = true := by
    rw [noTop_append, noTop_nlEvs, noTop_open]; rfl
  obtain ⟨pre, d, hr, _⟩ := render_last v hv
  have hpos : 1 ≤ v.render.length := by rw [hr]; simp
  cases w with
  | nil =>
    have hcx : data[ws0.length + v.render.length]? = some x := hatT.1
    cases hl : v.isLit with
    | false =>
      rw [hl] at P
      have r := foreign_glued_container hp hx (hst ▸ hadj rfl) (ws0.length + v.render.length) [] cx al
        (lenAfter data (nlEvs 0 ws0 ++ evsOpen ws0.length v) 0) hcx
      refine ⟨_, _, P.lenRun hnt 0 _ 1 r, ?_, ?_, ?_⟩
      · rw [hsize]; simp only [List.length_append]; omega
      · omega
      · simp
    | true =>
      rw [hl] at P
      obtain ⟨k, hk, r⟩ := foreign_glued_scalar hp hx (hst ▸ hadj rfl) ws0.length (ws0.length + v.render.length) [] cx al
        (lenAfter data (nlEvs 0 ws0 ++ evsOpen ws0.length v) 0) (by omega) hcx
      refine ⟨_, _, P.lenRun hnt 0 _ k r, ?_, ?_, ?_⟩
      · rw [hsize]; simp only [List.length_append]; omega
      · omega
      · simp
  | cons c w' =>
    rw [At_append] at hatT
    obtain ⟨hatw, hatx⟩ := hatT
    obtain ⟨al', P2⟩ := close_root_ws (lc := true) hp v.isLit ws0.length c w' hw (ws0.length + v.render.length) [] cx al hatw
    have hnl2 := nlEvs_length (ws0.length + v.render.length) (c :: w')
    have hnt2 : noTop (rootClosers v.isLit ws0.length (ws0.length + v.render.length - 1)
        ++ nlEvs (ws0.length + v.render.length) (c :: w')) = true := by
      rw [noTop_append, noTop_nlEvs, noTop_rootClosers]; rfl
    have hrc : (rootClosers v.isLit ws0.length (ws0.length + v.render.length - 1)).length ≤ 1 := by
      cases v.isLit <;> simp [rootClosers]
    have r := foreign_after_ws hx (ws0.length + v.render.length + (w'.length + 1)) [] cx al'
      (lenAfter data ((nlEvs 0 ws0 ++ evsOpen ws0.length v) ++ (rootClosers v.isLit ws0.length
        (ws0.length + v.render.length - 1) ++ nlEvs (ws0.length + v.render.length) (c :: w'))) 0) hatx.1
    refine ⟨_, _, (Path.trans P P2).lenRun (by rw [noTop_append, hnt, hnt2]; rfl) 0 _ 1 r, ?_, ?_, ?_⟩
    · rw [hsize]; simp only [List.length_append, List.length_cons] at hnl2 ⊢; omega
    · omega
    · simp only [List.length_cons]; omega

/-- **whole input, on byte classes**: the length loop runs to the end of input; the result lies between the end of the
value and the end of the trailing layout -/
theorem lenRun_whole (v : Tree) (hv : v.Valid) (ws0 ws1 : List Cls) (h0 : IsWs ws0) (h1 : IsWs ws1)
    (hat : At data 0 (ws0 ++ (v.render ++ ws1))) (hsize : data.size = ws0.length + v.render.length + ws1.length) :
    ∃ L k, LenRun data { lengthComputing := true } 0 L k ∧ k ≤ 8 * data.size + 16 ∧
      ws0.length + v.render.length ≤ L ∧ L ≤ ws0.length + v.render.length + ws1.length := by
  obtain ⟨hat0, _, hatT⟩ := at_split ws0 v.render ws1 hat
  obtain ⟨st, cx, al, hp, hst, P⟩ := root_path v hv ws0 h0 hat0
  have hlen := open_length v hv ws0.length
  have hnl := nlEvs_length 0 ws0
  have hnt : noTop (nlEvs 0 ws0 ++ evsOpen ws0.length v) = true := by
    rw [noTop_append, noTop_nlEvs, noTop_open]; rfl
  obtain ⟨pre, d, hr, _⟩ := render_last v hv
  have hpos : 1 ≤ v.render.length := by rw [hr]; simp
  obtain ⟨t, b, hlast⟩ := lenAfter_value (data := data) v ws0.length
  have hE : upd data ⟨t, b, ws0.length + v.render.length - 1⟩
      = ws0.length + v.render.length := upd_pred _ _ _ (by omega) (by rw [hsize]; omega)
  cases ws1 with
  | nil =>
    simp only [List.length_nil, Nat.add_zero] at hsize
    cases hl : v.isLit with
    | false =>
      rw [hl] at P
      have hn : NextOk data
          (cfgL true st [] (pendOf false ws0.length) false (ws0.length + v.render.length) [] cx al) none :=
        nextOk_done rfl (by simp only [cfgL]; omega) rfl
      have r := LenRun.eof (len := lenAfter data (nlEvs 0 ws0 ++ evsOpen ws0.length v) 0) hn
      have hL : lenAfter data (nlEvs 0 ws0 ++ evsOpen ws0.length v) 0
          = ws0.length + v.render.length := by
        have hoc := open_closers v ws0.length
        simp only [hl, rootClosers, Bool.false_eq_true, if_false, List.append_nil] at hoc
        rw [lenAfter_append, hoc, hlast, hE]
      rw [hL] at r
      refine ⟨_, _, P.lenRun hnt 0 _ 1 (by rw [hL]; exact r), ?_, ?_, ?_⟩
      · rw [hsize]; simp only [List.length_append]; omega
      · omega
      · simp
    | true =>
      rw [hl] at P
      have he := Emits.eofLit (data := data)
        (s := cfgL true st [] (pendOf true ws0.length) false (ws0.length + v.render.length) [] cx al)
        (b := ws0.length) rfl (by simp only [cfgL]; omega) rfl rfl
      cases he with
      | cons hn1 he' =>
        cases he' with
        | nil hn2 =>
          have r := LenRun.ev (len := lenAfter data (nlEvs 0 ws0 ++ evsOpen ws0.length v) 0) hn1 (by intro h; cases h)
            (LenRun.eof hn2)
          have hu : upd data ⟨.litE, ws0.length, ws0.length + v.render.length - 1⟩ = ws0.length + v.render.length :=
            upd_pred _ _ _ (by omega) (by rw [hsize]; omega)
          have r' : LenRun data _ _ (upd data ⟨.litE, ws0.length, ws0.length + v.render.length - 1⟩) (1 + 1) := r
          rw [hu] at r'
          refine ⟨_, _, P.lenRun hnt 0 _ _ r', ?_, ?_, ?_⟩
          · rw [hsize]; simp only [List.length_append]; omega
          · omega
          · simp
  | cons c w' =>
    obtain ⟨al', P2⟩ := close_root_ws (lc := true) hp v.isLit ws0.length c w' h1 (ws0.length + v.render.length) [] cx al hatT
    have hnl2 := nlEvs_length (ws0.length + v.render.length) (c :: w')
    have hnt2 : noTop (rootClosers v.isLit ws0.length (ws0.length + v.render.length - 1)
        ++ nlEvs (ws0.length + v.render.length) (c :: w')) = true := by
      rw [noTop_append, noTop_nlEvs, noTop_rootClosers]; rfl
    have hrc : (rootClosers v.isLit ws0.length (ws0.length + v.render.length - 1)).length ≤ 1 := by
      cases v.isLit <;> simp [rootClosers]
    have hn : NextOk data
        (cfgL true .endTop [] [] false (ws0.length + v.render.length + (w'.length + 1)) [] cx al') none :=
      nextOk_done rfl (by simp only [cfgL, hsize, List.length_cons]; omega) rfl
    have r := LenRun.eof (len := lenAfter data ((nlEvs 0 ws0 ++ evsOpen ws0.length v) ++ (rootClosers v.isLit ws0.length
        (ws0.length + v.render.length - 1) ++ nlEvs (ws0.length + v.render.length) (c :: w'))) 0) hn
    have hb := lenAfter_nlEvs (data := data) (c :: w') (ws0.length + v.render.length)
      (ws0.length + v.render.length) (ws0.length + v.render.length) (Nat.le_refl _) (Nat.le_refl _)
      (by rw [hsize]; omega)
    have hL : lenAfter data ((nlEvs 0 ws0 ++ evsOpen ws0.length v) ++
        (rootClosers v.isLit ws0.length (ws0.length + v.render.length - 1) ++
          nlEvs (ws0.length + v.render.length) (c :: w'))) 0
        = lenAfter data (nlEvs (ws0.length + v.render.length) (c :: w'))
            (ws0.length + v.render.length) := by
      rw [List.append_assoc, ← List.append_assoc (evsOpen ws0.length v), open_closers, lenAfter_append, lenAfter_append,
        hlast, hE]
    refine ⟨_, _, (Path.trans P P2).lenRun (by rw [noTop_append, hnt, hnt2]; rfl) 0 _ 1 r, ?_, ?_, ?_⟩
    · rw [hsize]; simp only [List.length_append, List.length_cons] at hnl2 ⊢; omega
    · rw [hL]; exact hb.1
    · rw [hL]; exact hb.2

/-- trimming: any length between the end of the value and the end of the layout after it is cut back to the end of
the value (whose last byte is not blank) -/
theorem trim_value (v : Tree) (hv : v.Valid) (ws0 w tl : List Cls) (hw : IsWs w)
    (hat : At data 0 (ws0 ++ (v.render ++ (w ++ tl)))) (L : Nat) (h1 : ws0.length + v.render.length ≤ L)
    (h2 : L ≤ ws0.length + v.render.length + w.length) : trimBlank data L = ws0.length + v.render.length := by
  obtain ⟨_, hatv, hatT⟩ := at_split ws0 v.render (w ++ tl) hat
  rw [At_append] at hatT
  obtain ⟨pre, d, hr, hd⟩ := render_last v hv
  have hl : v.render.length = pre.length + 1 := by rw [hr]; simp
  rw [hl] at h1 h2 hatT ⊢
  rw [hr] at hatv
  refine trimBlank_after w hw pre d hd ws0.length ?_ L h1 h2
  rw [At_append]
  refine ⟨hatv, ?_⟩
  simp only [List.length_append, List.length_cons, List.length_nil, Nat.zero_add]
  exact hatT.1

end Len

open Len in
/-- **C14 (schema scanner), embedded schema**: the classes of the input are `ws0 ++ v.render ++ w ++ x :: rest` — leading
layout, a plain-JSON value (any tree, any layout incl. line breaks), layout `w`, a foreign byte `x` (not layout, not
`/`, not `#`), anything.  If `x` is glued to the value (`w = []`) it must not continue the value's last token
(`adjOk`: after a number no digit / `.` / `e` / `E`, with the model's exact exceptions).  Then `Len` is the offset just
after the last byte of the value. -/
theorem C14_schema_len_embedded (v : Tree) (hv : v.Valid) (ws0 w : List Cls) (h0 : IsWs ws0) (hw : IsWs w)
    (x : Cls) (rest : List Cls) (hx : x.isForeign = true) (hadj : w = [] → adjOk v.endSt x = true)
    (bs : List UInt8) (hbs : bs.map classify = ws0 ++ (v.render ++ (w ++ x :: rest))) :
    length bs = .ok (ws0.length + v.render.length) := by
  have hat : At (bs.map classify).toArray 0 (ws0 ++ (v.render ++ (w ++ x :: rest))) := At_toArray _ [] _ hbs
  have hsize : (bs.map classify).toArray.size = ws0.length + v.render.length + w.length + 1 + rest.length := by
    rw [hbs]; simp only [List.size_toArray, List.length_append, List.length_cons]; omega
  obtain ⟨L, k, hrun, hk, hlo, hhi⟩ := lenRun_embedded v hv ws0 w h0 hw x rest hx hadj hat hsize
  rw [length_of_lenRun bs L k hrun hk, trim_value v hv ws0 w (x :: rest) hw hat L hlo hhi]

open Len in
/-- **C14 (schema scanner), schema filling the whole input**: the classes of the input are `ws0 ++ v.render ++ ws1` with
layout `ws0`, `ws1`.  Then `Len` is the input length minus the trailing layout. -/
theorem C14_schema_len_whole (v : Tree) (hv : v.Valid) (ws0 ws1 : List Cls) (h0 : IsWs ws0) (h1 : IsWs ws1)
    (bs : List UInt8) (hbs : bs.map classify = ws0 ++ (v.render ++ ws1)) :
    length bs = .ok (ws0.length + v.render.length) := by
  have hat : At (bs.map classify).toArray 0 (ws0 ++ (v.render ++ ws1)) := At_toArray _ [] _ hbs
  have hsize : (bs.map classify).toArray.size = ws0.length + v.render.length + ws1.length := by
    rw [hbs]; simp only [List.size_toArray, List.length_append]; omega
  obtain ⟨L, k, hrun, hk, hlo, hhi⟩ := lenRun_whole v hv ws0 ws1 h0 h1 hat hsize
  rw [length_of_lenRun bs L k hrun hk]
  have hat' : At (bs.map classify).toArray 0 (ws0 ++ (v.render ++ (ws1 ++ []))) := by rw [List.append_nil]; exact hat
  rw [trim_value v hv ws0 ws1 [] h1 hat' L hlo hhi]

/-- the embedded case for a foreign byte that is no digit, `.`, `e`, `E`: no side condition on gluing -/
theorem C14_schema_len_embedded_simple (v : Tree) (hv : v.Valid) (ws0 w : List Cls) (h0 : IsWs ws0) (hw : IsWs w)
    (x : Cls) (rest : List Cls) (hx : x.isForeign = true) (hn : x.isNumCont = false)
    (bs : List UInt8) (hbs : bs.map classify = ws0 ++ (v.render ++ (w ++ x :: rest))) :
    length bs = .ok (ws0.length + v.render.length) :=
  C14_schema_len_embedded v hv ws0 w h0 hw x rest hx (fun _ => Len.adjOk_of_not_numCont _ x hn) bs hbs

/-- the embedded case with at least one blank between the value and the foreign byte: any foreign byte -/
theorem C14_schema_len_embedded_separated (v : Tree) (hv : v.Valid) (ws0 w : List Cls) (h0 : IsWs ws0) (c : Cls)
    (hw : IsWs (c :: w)) (x : Cls) (rest : List Cls) (hx : x.isForeign = true)
    (bs : List UInt8) (hbs : bs.map classify = ws0 ++ (v.render ++ ((c :: w) ++ x :: rest))) :
    length bs = .ok (ws0.length + v.render.length) :=
  C14_schema_len_embedded v hv ws0 (c :: w) h0 hw x rest hx (fun h => by cases h) bs hbs

/-- the same for trees given by the JSON grammar (`Tree.Json`: strings, numbers without exponent, `true`/`false`/`null`) -/
theorem C14_schema_len_embedded_json (v : Tree) (hv : v.Json) (ws0 w : List Cls) (h0 : IsWs ws0) (hw : IsWs w)
    (x : Cls) (rest : List Cls) (hx : x.isForeign = true) (hadj : w = [] → adjOk v.endSt x = true)
    (bs : List UInt8) (hbs : bs.map classify = ws0 ++ (v.render ++ (w ++ x :: rest))) :
    length bs = .ok (ws0.length + v.render.length) :=
  C14_schema_len_embedded v (Tree.Json.valid v hv) ws0 w h0 hw x rest hx hadj bs hbs

theorem C14_schema_len_whole_json (v : Tree) (hv : v.Json) (ws0 ws1 : List Cls) (h0 : IsWs ws0) (h1 : IsWs ws1)
    (bs : List UInt8) (hbs : bs.map classify = ws0 ++ (v.render ++ ws1)) :
    length bs = .ok (ws0.length + v.render.length) :=
  C14_schema_len_whole v (Tree.Json.valid v hv) ws0 ws1 h0 h1 bs hbs

#print axioms C14_schema_len_embedded
#print axioms C14_schema_len_whole
#print axioms C14_schema_len_embedded_simple
#print axioms C14_schema_len_embedded_separated
#print axioms C14_schema_len_embedded_json
#print axioms C14_schema_len_whole_json

/-! ### non-vacuity, and the boundary of the side conditions -/

/-- the general theorem, instantiated: the sample schema of `SchemaEventsTree` followed by `⏎ GET /` -/
theorem sample_len_embedded : length (sampleBytes ++ [71, 69, 84, 32, 47]) = .ok (1 + sampleTree.render.length) :=
  C14_schema_len_embedded sampleTree sampleTree_valid [.sp] [.nl, .sp]
    (by simp [IsWs, Cls.isBlank, Cls.isSpace]) (by simp [IsWs, Cls.isBlank, Cls.isSpace, Cls.isNewLine])
    .nameo [.uE, .nameo, .sp, .slash] rfl (fun h => by cases h) _ (by decide)

theorem sample_len_whole : length sampleBytes = .ok (1 + sampleTree.render.length) :=
  C14_schema_len_whole sampleTree sampleTree_valid [.sp] [.nl, .sp]
    (by simp [IsWs, Cls.isBlank, Cls.isSpace]) (by simp [IsWs, Cls.isBlank, Cls.isSpace, Cls.isNewLine]) _ sample_classes

example : 1 + sampleTree.render.length = 51 := by decide

def lenOf (bs : List UInt8) : Option Nat := match length bs with | .ok n => some n | .error _ => none

-- evaluations of the model (`#guard`: tests, not proofs)
-- glued foreign bytes (instances of the theorem): `12x`, `{}x`, `[1,2]]`, `"ab"x`, `true1`, `01`, `1.5.x`
#guard lenOf [49, 50, 120] == some 2
#guard lenOf [123, 125, 120] == some 2
#guard lenOf [91, 49, 44, 50, 93, 93] == some 5
#guard lenOf [34, 97, 98, 34, 120] == some 4
#guard lenOf [116, 114, 117, 101, 49] == some 4
#guard lenOf [48, 49] == some 1
#guard lenOf [49, 46, 53, 46, 120] == some 3
-- excluded by `adjOk`: a glued byte that continues the number — `1.x`, `1ex` are errors, `123` is another number
#guard lenOf [49, 46, 120] == none
#guard lenOf [49, 101, 120] == none
#guard lenOf [49, 50, 51] == some 3
-- excluded by `isForeign`: `/` starts an annotation, `#` a comment; what follows decides:
-- `{} /x` is an error, `{} // x⏎y` counts the annotation (7), `{} #c⏎ x` counts the comment (5), `{} /` and `12/` give 2
#guard lenOf [123, 125, 32, 47, 120] == none
#guard lenOf [123, 125, 32, 47, 47, 32, 120, 10, 121] == some 7
#guard lenOf [123, 125, 32, 35, 99, 10, 32, 120] == some 5
#guard lenOf [123, 125, 32, 47] == some 2
#guard lenOf [49, 50, 47] == some 2

end SchemaScan
