import JSight.ATreeThm
/-!
C13 / C16, whole annotated trees: the table is a function of the STRIPPED tree (`ATree.strip`: the annotations' form,
position, blanks, trailing comma, layout, line ends, comments erased): `table_of_strip`.
-/
namespace AT
open Loader (XNode xfresh)

def sAnnX (a : Option (List (Bytes × Bytes) × Option Bytes)) (x : XNode) : XNode :=
  match a with
  | none => x
  | some (ps, nt) =>
    { x with
      rules := x.rules ++ ps.map (·.1)
      ruleVals := x.ruleVals ++ (ps.map (·.2)).map some
      note := match nt with
        | none => x.note
        | some t => some t }

mutual
def STree.count : STree → Nat
  | .scalar _ _ => 1
  | .arr _ its => 1 + countL its
  | .obj _ ms => 1 + countM ms
def countL : List STree → Nat
  | [] => 0
  | v :: r => v.count + countL r
def countM : List (Bytes × STree) → Nat
  | [] => 0
  | (_, v) :: r => v.count + countM r
end

def idxL : Nat → List STree → List Nat
  | _, [] => []
  | n, v :: r => n :: idxL (n + v.count) r
def idxM : Nat → List (Bytes × STree) → List Nat
  | _, [] => []
  | n, (_, v) :: r => n :: idxM (n + v.count) r
def keysM : List (Bytes × STree) → List (Bytes × Bool)
  | [] => []
  | (k, _) :: r => (k, false) :: keysM r

mutual
/-- the table of a stripped tree -/
def STree.nodes (par : Option Nat) : Nat → STree → List XNode
  | _, .scalar tok an => [sAnnX an { xfresh .lit par with value := some tok }]
  | n, .arr an its => { sAnnX an (xfresh .arr par) with children := idxL (n + 1) its } :: nodesL n (n + 1) its
  | n, .obj an ms =>
    { sAnnX an (xfresh .obj par) with children := idxM (n + 1) ms, keys := keysM ms } :: nodesM n (n + 1) ms
def nodesL (a : Nat) : Nat → List STree → List XNode
  | _, [] => []
  | n, v :: r => v.nodes (some a) n ++ nodesL a (n + v.count) r
def nodesM (a : Nat) : Nat → List (Bytes × STree) → List XNode
  | _, [] => []
  | n, (_, v) :: r => v.nodes (some a) n ++ nodesM a (n + v.count) r
end

theorem annX_strip (a : Option Annot) (x : XNode) : annX a x = sAnnX (a.map Annot.strip) x := by
  cases a with
  | none => rfl
  | some a =>
    obtain ⟨multi, s2, ob, s3, nt, nlb⟩ := a
    simp only [annX, Lay.addAnn, Option.map_some, sAnnX, Annot.strip, Annot.pairs, Annot.note, Lay.names_of_pairs,
      Lay.vals_of_pairs]
    cases nt <;> rfl

mutual
theorem count_strip : (v : ATree) → v.strip.count = v.count
  | .scalar _ _ => rfl
  | .arr _ its => by simp [ATree.strip, STree.count, ATree.count, countL_strip its]
  | .obj _ ms => by simp [ATree.strip, STree.count, ATree.count, countM_strip ms]
theorem countL_strip : (its : AItems) → countL its.strip = its.count
  | .nil _ => rfl
  | .cons _ v _ _ rest => by simp [AItems.strip, countL, AItems.count, count_strip v, countL_strip rest]
theorem countM_strip : (ms : AMembers) → countM ms.strip = ms.count
  | .nil _ => rfl
  | .cons _ _ _ _ v _ _ rest => by simp [AMembers.strip, countM, AMembers.count, count_strip v, countM_strip rest]
end

theorem idxL_strip : (its : AItems) → (n : Nat) → idxL n its.strip = its.idx n
  | .nil _, _ => rfl
  | .cons _ v _ _ rest, n => by simp [AItems.strip, idxL, AItems.idx, count_strip v, idxL_strip rest]
theorem idxM_strip : (ms : AMembers) → (n : Nat) → idxM n ms.strip = ms.idx n
  | .nil _, _ => rfl
  | .cons _ _ _ _ v _ _ rest, n => by simp [AMembers.strip, idxM, AMembers.idx, count_strip v, idxM_strip rest]
theorem keysM_strip : (ms : AMembers) → keysM ms.strip = ms.keys
  | .nil _ => rfl
  | .cons _ _ _ _ _ _ _ rest => by simp [AMembers.strip, keysM, AMembers.keys, keysM_strip rest]

mutual
theorem nodes_strip : (v : ATree) → (par : Option Nat) → (n : Nat) → v.strip.nodes par n = v.nodes par n
  | .scalar tok an, par, n => by
    simp only [ATree.strip, STree.nodes, ATree.nodes, annX_strip, Option.map_map]; rfl
  | .arr an its, par, n => by
    simp only [ATree.strip, STree.nodes, ATree.nodes, annX_strip, Option.map_map, idxL_strip, nodesL_strip its]; rfl
  | .obj an ms, par, n => by
    simp only [ATree.strip, STree.nodes, ATree.nodes, annX_strip, Option.map_map, idxM_strip, keysM_strip,
      nodesM_strip ms]; rfl
theorem nodesL_strip : (its : AItems) → (a n : Nat) → nodesL a n its.strip = its.nodes a n
  | .nil _, _, _ => rfl
  | .cons _ v _ _ rest, a, n => by
    simp only [AItems.strip, nodesL, AItems.nodes, nodes_strip v, count_strip v, nodesL_strip rest]
theorem nodesM_strip : (ms : AMembers) → (a n : Nat) → nodesM a n ms.strip = ms.nodes a n
  | .nil _, _, _ => rfl
  | .cons _ _ _ _ v _ _ rest, a, n => by
    simp only [AMembers.strip, nodesM, AMembers.nodes, nodes_strip v, count_strip v, nodesM_strip rest]
end

/-- **the table depends on the stripped tree only** -/
theorem table_of_strip (t t' : ATree) (h : t.strip = t'.strip) : t.table = t'.table := by
  unfold ATree.table
  rw [← nodes_strip t, ← nodes_strip t', h]

/-- two surface forms of one annotated tree load into the same table -/
theorem layout_invariant (w0 w0' : Gap) (t t' : ATree) (w1 w1' : Gap) (hs : t.strip = t'.strip)
    (hc : t.isContainer = true) (hl : lineOK w0 t = true) (hl' : lineOK w0' t' = true)
    (hw : TokOK (docToks w0 t w1)) (hw' : TokOK (docToks w0' t' w1')) :
    ∃ st st', Loader.loadText (docText w0 t w1) = .ok st ∧ Loader.loadText (docText w0' t' w1') = .ok st' ∧
      st.root = st'.root ∧
      abstractOf (docText w0 t w1).toArray st = abstractOf (docText w0' t' w1').toArray st' := by
  have hc' : t'.isContainer = true := by
    cases t <;> cases t' <;> simp [ATree.isContainer, ATree.strip] at hc hs ⊢
  obtain ⟨st, h1, h2, h3⟩ := tree_loads w0 t w1 hc hl hw
  obtain ⟨st', h1', h2', h3'⟩ := tree_loads w0' t' w1' hc' hl' hw'
  exact ⟨st, st', h1, h1', by rw [h2, h2'], by rw [h3, h3', table_of_strip t t' hs]⟩

#print axioms layout_invariant

end AT
