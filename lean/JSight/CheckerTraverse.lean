import JSight.Checker
/-!
# C04 — the checker's traversal: the first offending node in source order, at its own position

`checkNode` with its early exits (panics) is `findSome?` of the node-local check over the PRE-ORDER list of the
nodes — parent before children, children in order: the order of the nodes' first bytes in the text —, and
`CheckRootSchema` is the same over "the nodes of the root, then the nodes of every type in table order".
The error of a node-local check sits at the node's own basis lexeme (file, `Begin()`), except the two errors of
`ensureShortcutKeysAreValid`, which sit at the key's lexeme.
-/
namespace CK
open RulesF (Oracles)

mutual
/-- the nodes `checkNode` visits, in the order it visits them: the node, then — for arrays and objects — the
children in order -/
def preorder : Node → List Hd
  | .mk i kids => ⟨i, kids.length⟩ :: (if isBranch i.nk then preorderL kids else [])
def preorderL : List Node → List Hd
  | [] => []
  | n :: ns => preorder n ++ preorderL ns
end

mutual
theorem checkNode_eq (o : Oracles) (env : Env) :
    ∀ n : Node, checkNode o env n = (preorder n).findSome? (nodeErr o env)
  | .mk i kids => by
    rw [checkNode, preorder, List.findSome?_cons]
    cases h : nodeErr o env ⟨i, kids.length⟩ with
    | some p => rfl
    | none =>
      simp only []
      cases hb : isBranch i.nk with
      | true => simp only [if_true]; exact checkNodes_eq o env kids
      | false => simp
theorem checkNodes_eq (o : Oracles) (env : Env) :
    ∀ ns : List Node, checkNodes o env ns = (preorderL ns).findSome? (nodeErr o env)
  | [] => by simp [checkNodes, preorderL]
  | n :: ns => by
    rw [checkNodes, preorderL, List.findSome?_append, checkNode_eq o env n, checkNodes_eq o env ns]
    cases (preorder n).findSome? (nodeErr o env) <;> rfl
end

/-- an occurrence of a node in the schema: the node, and what `checkType` adds to an error raised under it
(the index shift `typ.Begin()` and the name of the type; nothing for the root) -/
structure Occ where
  hd : Hd
  shift : Nat
  ut : Option Name

/-- every node of the schema in the order `CheckRootSchema` reaches it: the nodes of the root in source order, then
the nodes of every entry of the type table (in the order `Schema.visit`: `typeGoesFirst`), each in source order -/
def Schema.occs (s : Schema) : List Occ :=
  (match s.root with
   | some r => (preorder r).map (⟨·, 0, none⟩)
   | none => []) ++
  s.visit.flatMap fun t => (preorder t.root).map (⟨·, t.begin, some t.name⟩)

/-- the node-local check of an occurrence as the outcome of `Check` -/
def occErr (o : Oracles) (env : Env) (x : Occ) : Option Res := (nodeErr o env x.hd).map (panicRes x.ut x.shift)

/-- SPEC: the outcome of the first offending occurrence; `ok` when there is none -/
def firstErr (o : Oracles) (s : Schema) : Res := (s.occs.findSome? (occErr o s.env)).getD .ok

theorem findSome?_map_map {α β γ : Type} (g : α → Option β) (f : β → γ) (l : List α) :
    (l.findSome? g).map f = l.findSome? (fun x => (g x).map f) := by
  induction l with
  | nil => rfl
  | cons a l ih =>
    simp only [List.findSome?_cons]
    cases g a with
    | some b => rfl
    | none => simpa using ih

theorem checkTypes_eq (o : Oracles) (env : Env) (ts : List TypeEntry) :
    checkTypes o env ts =
      ((ts.flatMap fun t => (preorder t.root).map (⟨·, t.begin, some t.name⟩ : Hd → Occ)).findSome? (occErr o env)).getD .ok := by
  induction ts with
  | nil => rfl
  | cons t ts ih =>
    rw [checkTypes, List.flatMap_cons, List.findSome?_append, List.findSome?_map]
    have h : checkType o env t = (preorder t.root).findSome? (occErr o env ∘ fun h => (⟨h, t.begin, some t.name⟩ : Occ)) := by
      rw [checkType, checkNode_eq, findSome?_map_map]; rfl
    rw [h]
    cases (preorder t.root).findSome? (occErr o env ∘ fun h => (⟨h, t.begin, some t.name⟩ : Occ)) with
    | some r => rfl
    | none => simpa using ih

/-- `CheckRootSchema` reports the first offending node in the order root (source order), types (table order, each
in source order), with the error of that node's own check -/
theorem checkSchema_eq_firstErr (o : Oracles) (s : Schema) : checkSchema o s = firstErr o s := by
  unfold checkSchema firstErr Schema.occs
  cases hr : s.root with
  | none => simpa using checkTypes_eq o s.env s.visit
  | some r =>
    simp only [List.findSome?_append, List.findSome?_map]
    have h : checkNode o s.env r = ((preorder r).findSome? (nodeErr o s.env)) := checkNode_eq o s.env r
    have h2 : (preorder r).findSome? (occErr o s.env ∘ fun h => (⟨h, 0, none⟩ : Occ))
        = ((preorder r).findSome? (nodeErr o s.env)).map (panicRes none 0) := by
      rw [findSome?_map_map]; rfl
    rw [h2, h]
    cases (preorder r).findSome? (nodeErr o s.env) with
    | some p => rfl
    | none => simpa using checkTypes_eq o s.env s.visit

/-! ### the visiting order is a rearrangement of the table: every type is visited, once -/

theorem insertType_perm (t : TypeEntry) : ∀ ts : List TypeEntry, (insertType t ts).Perm (t :: ts)
  | [] => List.Perm.refl _
  | u :: us => by
    unfold insertType
    split
    · exact List.Perm.refl _
    · exact ((insertType_perm t us).cons u).trans (List.Perm.swap t u us)

theorem sortTypes_perm : ∀ ts : List TypeEntry, (sortTypes ts).Perm ts
  | [] => List.Perm.refl _
  | t :: ts => (insertType_perm t (sortTypes ts)).trans ((sortTypes_perm ts).cons t)

theorem mem_visit (s : Schema) (t : TypeEntry) : t ∈ s.visit ↔ t ∈ s.types := (sortTypes_perm s.types).mem_iff

/-- every node of every type of the table is reached -/
theorem mem_occs_of_type (s : Schema) (t : TypeEntry) (ht : t ∈ s.types) (h : Hd) (hh : h ∈ preorder t.root) :
    (⟨h, t.begin, some t.name⟩ : Occ) ∈ s.occs := by
  unfold Schema.occs
  apply List.mem_append_right
  exact List.mem_flatMap.2 ⟨t, (mem_visit s t).2 ht, List.mem_map.2 ⟨h, hh, rfl⟩⟩

end CK
