import JSight.CheckerSound
/-!
# C04 — SPEC: "the value violates one of its own rules" (core Lean only: the driver evaluates it)
-/
namespace CK
open RulesF (Oracles)

/-- the EXAMPLE's item count against `minItems` / `maxItems` -/
def itemsViolate (h : Hd) : Bool :=
  (match minItems? h.info.cs with | some n => decide (h.len < n) | none => false) ||
  (match maxItems? h.info.cs with | some m => decide (h.len > m) | none => false)

/-- SPEC: the node's own EXAMPLE value violates one of the node's own rules -/
def violates (o : Oracles) (env : Env) (h : Hd) : Bool :=
  match h.info.nk with
  | .lit => !literalAccepts o env h.info h.info.lex.value
  | .arr => itemsViolate h
  | _ => false

end CK
