import JSight.AllOfKErrors
/-!
C03, allOf: required-key bookkeeping and transitivity.

* `reqOK_processType` / `reqOK_compileAll`: after the expansion the RequiredKeys list of EVERY object of the
  table is exactly the list of the keys of its non-optional children, own and inherited, in order (the
  optional flags travel with the children); `mem_req_iff_vk` relates that list to the one the validator model
  `VK.frameOf` derives from the flags.
* `allOf_transitive`: the children of an expanded type are its own children and the own children of every type
  it inherits from through any number of allOf steps.
-/
namespace AOK
variable {L : Type}

/-! ### required keys -/

mutual
/-- in every object of the schema the RequiredKeys list is the list of the keys of the non-optional children -/
def ReqOK : CS L → Prop
  | .lit _ => True
  | .any => True
  | .ref _ _ => True
  | .arr items => ReqOKList items
  | .obj ents req _ => req = reqOf ents ∧ ReqOKEnts ents
def ReqOKList : List (CS L) → Prop
  | [] => True
  | x :: xs => ReqOK x ∧ ReqOKList xs
def ReqOKEnts : List (String × Bool × Bool × CS L) → Prop
  | [] => True
  | (_, _, _, v) :: es => ReqOK v ∧ ReqOKEnts es
end

theorem reqOKEnts_append (a b : List (String × Bool × Bool × CS L)) :
    ReqOKEnts (a ++ b) ↔ ReqOKEnts a ∧ ReqOKEnts b := by
  induction a with
  | nil => simp [ReqOKEnts]
  | cons e a ih =>
    obtain ⟨k, sh, r, v⟩ := e
    simp only [List.cons_append, ReqOKEnts, ih, and_assoc]

theorem reqOKEnts_flatMap (bs : List (CS L)) (h : ∀ b ∈ bs, ReqOKEnts (entsOf b)) : ReqOKEnts (bs.flatMap entsOf) := by
  induction bs with
  | nil => simp [ReqOKEnts]
  | cons b bs ih =>
    simp only [List.flatMap_cons, reqOKEnts_append]
    exact ⟨h b (List.mem_cons_self ..), ih (fun x hx => h x (List.mem_cons_of_mem _ hx))⟩

theorem reqOf_append {X : Type} (a b : List (String × Bool × Bool × X)) : reqOf (a ++ b) = reqOf a ++ reqOf b := by
  simp [reqOf]

theorem reqOf_flatMap (bs : List (CS L)) (h : ∀ b ∈ bs, reqsOf b = reqOf (entsOf b)) :
    reqOf (bs.flatMap entsOf) = bs.flatMap reqsOf := by
  induction bs with
  | nil => rfl
  | cons b bs ih =>
    simp only [List.flatMap_cons, reqOf_append]
    rw [h b (List.mem_cons_self ..), ih (fun x hx => h x (List.mem_cons_of_mem _ hx))]

theorem reqOK_obj_parts (b : CS L) (hb : ReqOK b) : reqsOf b = reqOf (entsOf b) ∧ ReqOKEnts (entsOf b) := by
  cases b with
  | obj e r a => simpa [ReqOK, reqsOf, entsOf] using hb
  | lit l => simp [reqsOf, entsOf, reqOf, ReqOKEnts]
  | any => simp [reqsOf, entsOf, reqOf, ReqOKEnts]
  | arr items => simp [reqsOf, entsOf, reqOf, ReqOKEnts]
  | ref names nul => simp [reqsOf, entsOf, reqOf, ReqOKEnts]

section
variable [DecidableEq L]

mutual
theorem reqOK_compileWith (pt : String → Except Err (CS L)) (hpt : ∀ n c, pt n = .ok c → ReqOK c) :
    ∀ (t : PS L) (c : CS L), compileWith pt t = .ok c → ReqOK c
  | .lit l, c, h => by simp only [compileWith, Except.ok.injEq] at h; subst h; simp [ReqOK]
  | .any, c, h => by simp only [compileWith, Except.ok.injEq] at h; subst h; simp [ReqOK]
  | .ref names nul, c, h => by simp only [compileWith, Except.ok.injEq] at h; subst h; simp [ReqOK]
  | .bad names, c, h => by simp [compileWith] at h
  | .arr items, c, h => by
    rw [compileWith] at h
    cases hl : compileList pt items with
    | error e => rw [hl] at h; cases h
    | ok items' =>
      rw [hl] at h; simp only [Except.ok.injEq] at h; subst h
      simpa [ReqOK] using reqOK_compileList pt hpt items items' hl
  | .obj ents add none, c, h => by
    obtain ⟨own, ho, rfl⟩ := (compileWith_obj_none_iff pt ents add c).1 h
    exact ⟨(compileEnts_shape pt ents own ho).2.symm, reqOK_compileEnts pt hpt ents own ho⟩
  | .obj ents add (some names), c, h => by
    obtain ⟨_, bases, own, hr, _, ho, _, _, rfl⟩ := (compileWith_obj_ok_iff pt ents add names c).1 h
    have hb : ∀ b ∈ bases, ReqOK b := by
      intro b hbm
      obtain ⟨n, _, hn⟩ := resolves_mem_right pt names bases hr b hbm
      exact hpt n b hn
    refine ⟨?_, ?_⟩
    · rw [reqOf_append, (compileEnts_shape pt ents own ho).2,
        reqOf_flatMap bases (fun b hbm => (reqOK_obj_parts b (hb b hbm)).1)]
    · rw [reqOKEnts_append]
      exact ⟨reqOK_compileEnts pt hpt ents own ho,
        reqOKEnts_flatMap bases (fun b hbm => (reqOK_obj_parts b (hb b hbm)).2)⟩
theorem reqOK_compileList (pt : String → Except Err (CS L)) (hpt : ∀ n c, pt n = .ok c → ReqOK c) :
    ∀ (xs : List (PS L)) (cs : List (CS L)), compileList pt xs = .ok cs → ReqOKList cs
  | [], cs, h => by simp only [compileList, Except.ok.injEq] at h; subst h; simp [ReqOKList]
  | x :: xs, cs, h => by
    simp only [compileList] at h
    cases h1 : compileWith pt x with
    | error e => rw [h1] at h; cases h
    | ok x' =>
      rw [h1] at h
      cases h2 : compileList pt xs with
      | error e => rw [h2] at h; cases h
      | ok xs' =>
        rw [h2] at h; simp only [Except.ok.injEq] at h; subst h
        exact ⟨reqOK_compileWith pt hpt x x' h1, reqOK_compileList pt hpt xs xs' h2⟩
theorem reqOK_compileEnts (pt : String → Except Err (CS L)) (hpt : ∀ n c, pt n = .ok c → ReqOK c) :
    ∀ (es : List (String × Bool × Bool × PS L)) (cs : List (String × Bool × Bool × CS L)),
      compileEnts pt es = .ok cs → ReqOKEnts cs
  | [], cs, h => by simp only [compileEnts, Except.ok.injEq] at h; subst h; simp [ReqOKEnts]
  | (k, sh, r, v) :: es, cs, h => by
    simp only [compileEnts] at h
    cases h1 : compileWith pt v with
    | error e => rw [h1] at h; cases h
    | ok v' =>
      rw [h1] at h
      cases h2 : compileEnts pt es with
      | error e => rw [h2] at h; cases h
      | ok es' =>
        rw [h2] at h; simp only [Except.ok.injEq] at h; subst h
        exact ⟨reqOK_compileWith pt hpt v v' h1, reqOK_compileEnts pt hpt es es' h2⟩
end

/-- **required-key bookkeeping**: in an expanded type every object's RequiredKeys list is exactly the keys of
its non-optional children (own, then inherited, in order) -/
theorem reqOK_processType (env : PEnv L) : ∀ (f : Nat) (P : List String) (n : String) (c : CS L),
    processType env f P n = .ok c → ReqOK c := by
  intro f
  induction f with
  | zero => intro P n c h; simp [processType] at h
  | succ f ih =>
    intro P n c h
    simp only [processType] at h
    by_cases hn : P.contains n = true
    · rw [if_pos hn] at h; cases h
    · rw [if_neg hn] at h
      cases hl : lookupP env n with
      | none => rw [hl] at h; cases h
      | some t =>
        rw [hl] at h
        exact reqOK_compileWith _ (fun m cm hm => ih (n :: P) m cm hm) t c h

theorem reqOK_compileAll (env : PEnv L) (root : PS L) (env' : List (String × CS L)) (root' : CS L)
    (h : compileAll env root = .ok (env', root')) : ReqOK root' ∧ ∀ p ∈ env', ReqOK p.2 := by
  simp only [compileAll] at h
  cases h1 : compileWith (fun m => processType env (env.length + 1) [] m) root with
  | error e => rw [h1] at h; cases h
  | ok r =>
    rw [h1] at h
    simp only at h
    cases h2 : firstErr env (env.length + 1) (sortNames (env.map (·.1))) with
    | some e => rw [h2] at h; cases h
    | none =>
      rw [h2] at h
      simp only at h
      cases h3 : compileTypes env (env.length + 1) (env.map (·.1)) with
      | error e => rw [h3] at h; cases h
      | ok e' =>
        rw [h3] at h
        simp only [Except.ok.injEq, Prod.mk.injEq] at h
        obtain ⟨rfl, rfl⟩ := h
        refine ⟨reqOK_compileWith _ (fun m cm hm => reqOK_processType env _ [] m cm hm) root r h1, ?_⟩
        have : ∀ (ns : List String) (cs : List (String × CS L)), compileTypes env (env.length + 1) ns = .ok cs →
            ∀ p ∈ cs, ReqOK p.2 := by
          intro ns
          induction ns with
          | nil => intro cs hc p hp; simp only [compileTypes, Except.ok.injEq] at hc; subst hc; cases hp
          | cons n ns ihn =>
            intro cs hc p hp
            simp only [compileTypes] at hc
            cases hq : processType env (env.length + 1) [] n with
            | error e => rw [hq] at hc; cases hc
            | ok c =>
              rw [hq] at hc
              simp only at hc
              cases hr : compileTypes env (env.length + 1) ns with
              | error e => rw [hr] at hc; cases hc
              | ok cs' =>
                rw [hr] at hc; simp only [Except.ok.injEq] at hc; subst hc
                rcases List.mem_cons.1 hp with rfl | hp
                · exact reqOK_processType env _ [] n c hq
                · exact ihn cs' hr p hp
        exact this _ _ h3

end

/-- the list the validator model derives from the flags (`VK.frameOf`: required plain keys, then required
shortcuts with their `@`) has the same members as the RequiredKeys list of the code -/
theorem mem_req_iff_vk (ents : List (String × Bool × Bool × CS L)) (k : String) :
    k ∈ reqOf ents ↔
      k ∈ VK.requiredKeys (plainOf ents) ++ (VK.requiredKeys (shortsOf ents)).map ("@" ++ ·) := by
  induction ents with
  | nil => simp [reqOf, plainOf, shortsOf, VK.requiredKeys]
  | cons e es ih =>
    obtain ⟨k', sh, r, v⟩ := e
    have hcons : reqOf ((k', sh, r, v) :: es) = (if r then [goKey k' sh] else []) ++ reqOf es := by
      cases r <;> simp [reqOf, List.filter_cons]
    rw [hcons, List.mem_append, ih]
    cases sh <;> cases r <;>
      simp [plainOf, shortsOf, VK.requiredKeys, goKey, List.filter_cons, or_assoc, or_left_comm]

/-! ### transitivity -/

/-- the allOf list of the root object of a type -/
def directBases (env : PEnv L) (n : String) : List String :=
  match lookupP env n with
  | some (.obj _ _ (some ns)) => ns
  | _ => []

/-- the number of own children of the root object of a type -/
def srcOwnLen (env : PEnv L) (n : String) : Nat :=
  match lookupP env n with
  | some (.obj ents _ _) => ents.length
  | _ => 0

/-- `m` is inherited by `n` through one or more allOf steps (root objects of types) -/
inductive Anc (env : PEnv L) : String → String → Prop
  | base {n m : String} : m ∈ directBases env n → Anc env n m
  | step {n k m : String} : k ∈ directBases env n → Anc env k m → Anc env n m

section
variable [DecidableEq L]

/-- the type `n` expands to `c` (in some context; the result does not depend on it) -/
def Expands (env : PEnv L) (n : String) (c : CS L) : Prop := ∃ f P, processType env f P n = .ok c

/-- the own children of the expanded type: the first children, as many as the source declares -/
def ownPart (env : PEnv L) (n : String) (c : CS L) : List (String × Bool × Bool × CS L) :=
  (entsOf c).take (srcOwnLen env n)

theorem expands_unique (env : PEnv L) (n : String) (c c' : CS L) (h : Expands env n c) (h' : Expands env n c') : c = c' := by
  obtain ⟨f, P, hp⟩ := h
  obtain ⟨f', P', hp'⟩ := h'
  exact processType_proc_irrelevant env f f' P P' n c c' hp hp'

theorem compileEnts_length (pt : String → Except Err (CS L)) (ents : List (String × Bool × Bool × PS L))
    (own : List (String × Bool × Bool × CS L)) (h : compileEnts pt ents = .ok own) : own.length = ents.length := by
  have := congrArg List.length (compileEnts_shape pt ents own h).1
  simpa using this

omit [DecidableEq L] in
theorem anc_directBases_ne (env : PEnv L) (n m : String) (h : Anc env n m) : directBases env n ≠ [] := by
  cases h with
  | base hm => intro he; rw [he] at hm; cases hm
  | step hk _ => intro he; rw [he] at hk; cases hk

/-- **transitive inheritance**: the children of an expanded type are its own children and the own children of
every type it inherits from, through any number of steps -/
theorem allOf_transitive (env : PEnv L) : ∀ (f : Nat) (P : List String) (n : String) (c : CS L),
    processType env f P n = .ok c →
    ∀ e, e ∈ entsOf c ↔
      e ∈ ownPart env n c ∨ ∃ m cm, Anc env n m ∧ Expands env m cm ∧ e ∈ ownPart env m cm := by
  intro f
  induction f with
  | zero => intro P n c h; simp [processType] at h
  | succ f ih =>
    intro P n c h e
    simp only [processType] at h
    by_cases hn : P.contains n = true
    · rw [if_pos hn] at h; cases h
    rw [if_neg hn] at h
    cases hl : lookupP env n with
    | none => rw [hl] at h; cases h
    | some t =>
      rw [hl] at h
      simp only at h
      have hnoanc : directBases env n = [] → ∀ m, ¬ Anc env n m :=
        fun hd m ha => anc_directBases_ne env n m ha hd
      cases t with
      | obj ents add allOf =>
        cases allOf with
        | none =>
          obtain ⟨own, ho, rfl⟩ := (compileWith_obj_none_iff _ ents add c).1 h
          have hd : directBases env n = [] := by simp [directBases, hl]
          have hlen : srcOwnLen env n = own.length := by
            simp [srcOwnLen, hl, compileEnts_length _ ents own ho]
          simp only [entsOf, ownPart, hlen, List.take_length]
          constructor
          · exact Or.inl
          · rintro (h1 | ⟨m, _, ha, _⟩)
            · exact h1
            · exact absurd ha (hnoanc hd m)
        | some names =>
          obtain ⟨_, bases, own, hr, _, ho, _, _, rfl⟩ := (compileWith_obj_ok_iff _ ents add names c).1 h
          have hd : directBases env n = names := by simp [directBases, hl]
          have hlen : srcOwnLen env n = own.length := by
            simp [srcOwnLen, hl, compileEnts_length _ ents own ho]
          have hown : ownPart env n (.obj (own ++ bases.flatMap entsOf) (reqOf ents ++ bases.flatMap reqsOf)
              (firstAdd (add :: bases.map addOf))) = own := by
            simp [ownPart, entsOf, hlen]
          rw [hown]
          simp only [entsOf, List.mem_append, List.mem_flatMap]
          constructor
          · rintro (h1 | ⟨b, hb, heb⟩)
            · exact Or.inl h1
            · obtain ⟨k, hk, hpk⟩ := resolves_mem_right _ names bases hr b hb
              rcases (ih (n :: P) k b hpk e).1 heb with h2 | ⟨m, cm, ha, hx, hm⟩
              · exact Or.inr ⟨k, b, .base (by rw [hd]; exact hk), ⟨f, n :: P, hpk⟩, h2⟩
              · exact Or.inr ⟨m, cm, .step (by rw [hd]; exact hk) ha, hx, hm⟩
          · rintro (h1 | ⟨m, cm, ha, hx, hm⟩)
            · exact Or.inl h1
            · right
              cases ha with
              | base hmem =>
                rw [hd] at hmem
                obtain ⟨b, hb, hpb⟩ := resolves_mem_left _ names bases hr m hmem
                have : cm = b := expands_unique env m cm b hx ⟨f, n :: P, hpb⟩
                subst this
                exact ⟨cm, hb, (ih (n :: P) m cm hpb e).2 (Or.inl hm)⟩
              | step hmem ha' =>
                rename_i k
                rw [hd] at hmem
                obtain ⟨b, hb, hpb⟩ := resolves_mem_left _ names bases hr k hmem
                exact ⟨b, hb, (ih (n :: P) k b hpb e).2 (Or.inr ⟨m, cm, ha', hx, hm⟩)⟩
      | lit l =>
        simp only [compileWith, Except.ok.injEq] at h; subst h
        have hd : directBases env n = [] := by simp [directBases, hl]
        simp only [entsOf, ownPart, List.take_nil, List.not_mem_nil, false_or, false_iff, not_exists, not_and]
        intro m cm ha; exact absurd ha (hnoanc hd m)
      | any =>
        simp only [compileWith, Except.ok.injEq] at h; subst h
        have hd : directBases env n = [] := by simp [directBases, hl]
        simp only [entsOf, ownPart, List.take_nil, List.not_mem_nil, false_or, false_iff, not_exists, not_and]
        intro m cm ha; exact absurd ha (hnoanc hd m)
      | ref names nul =>
        simp only [compileWith, Except.ok.injEq] at h; subst h
        have hd : directBases env n = [] := by simp [directBases, hl]
        simp only [entsOf, ownPart, List.take_nil, List.not_mem_nil, false_or, false_iff, not_exists, not_and]
        intro m cm ha; exact absurd ha (hnoanc hd m)
      | bad names => simp [compileWith] at h
      | arr items =>
        rw [compileWith] at h
        cases hc : compileList (fun m => processType env f (n :: P) m) items with
        | error e' => rw [hc] at h; cases h
        | ok items' =>
          rw [hc] at h; simp only [Except.ok.injEq] at h; subst h
          have hd : directBases env n = [] := by simp [directBases, hl]
          simp only [entsOf, ownPart, List.take_nil, List.not_mem_nil, false_or, false_iff, not_exists, not_and]
          intro m cm ha; exact absurd ha (hnoanc hd m)

end

end AOK
