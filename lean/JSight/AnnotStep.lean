import JSight.CommentRun
/-!
C13, inline versus multi-line annotations: single-byte behaviour of the schema scanner model inside an annotation
`// {name: value, …} - note` / `/* {name: value, …} - note */` that follows a top-level scalar — `dispatch` at explicit
configurations (`cfgA`: like `cfg`, with the annotation mode as a parameter).
-/
namespace SchemaScan

/-- a scanner state with the annotation mode `a` -/
def cfgA (a : Ann) (st : St) (ret : List St) (K : List (LexT × Nat)) (u : Bool) (i : Nat) (CS : List Ctx) (cx : Ctx)
    (al : Bool) : Sc :=
  { step := st, ret := ret, stack := K, ctxStack := CS, ctx := cx, finds := [], index := i, ann := a, unf := u,
    lengthComputing := false, boundaryQuote := false, allowAnnotation := al, hasTrailing := false }

theorem cfgA_none (st : St) (ret : List St) (K : List (LexT × Nat)) (u : Bool) (i : Nat) (CS : List Ctx) (cx : Ctx)
    (al : Bool) : cfgA .none st ret K u i CS cx al = cfg st ret K u i CS cx al := rfl

/-- the annotation modes -/
def Ann.isAnn : Ann → Bool | .none => false | _ => true
/-- the opening / closing lexeme and the state after the rule object -/
def Ann.B : Ann → LexT | .multi => .mlAnnB | _ => .inlAnnB
def Ann.E : Ann → LexT | .multi => .mlAnnE | _ => .inlAnnE
def Ann.prefixSt : Ann → St | .multi => .mlTxtPrefix | _ => .inlTxtPrefix
def Ann.startSt : Ann → St | .multi => .mlAnn | _ => .inlAnn
/-- the second byte of the opening marker -/
def Ann.mark : Ann → Cls | .multi => .star | _ => .slash

/-- blanks inside an annotation: space and tab; a line break in the multi-line form only -/
def Ann.okBlank (a : Ann) (c : Cls) : Bool := c.isSpTab || (a == .multi && c == .nl)

/-! ### the start of the annotation -/

theorem pv_dispatch_slash (f : Nat) (st : St) (h : PV st = true) (s : Sc) (p1 p2 : Option Cls) :
    dispatch (f + 1) st s .slash p1 p2 = endValue f s .slash p1 p2 := by
  cases st <;> simp [PV] at h <;> (unfold dispatch; try unfold state0) <;> rfl

theorem root_slash (f : Nat) (K : List (LexT × Nat)) (i : Nat) (CS : List Ctx) (cx : Ctx) (fs : List LexT)
    (p1 p2 : Option Cls) :
    dispatch (f + 1) .endTop { cfg .endTop [] K false i CS cx true with finds := fs } .slash p1 p2
      = .ok { cfg .anyAnnStart [.endTop] K false i CS cx true with finds := fs } := by
  unfold dispatch; rfl

theorem ann_mark (f : Nat) (a : Ann) (ha : a.isAnn = true) (r : List St)
    (K : List (LexT × Nat)) (i : Nat) (CS : List Ctx) (cx : Ctx) (al : Bool) (p1 p2 : Option Cls) :
    dispatch (f + 1) .anyAnnStart (cfg .anyAnnStart r K false i CS cx al) a.mark p1 p2
      = .ok { cfgA a a.startSt r K false i CS cx al with finds := [a.B] } := by
  cases a <;> simp [Ann.isAnn] at ha <;> (unfold dispatch; rfl)

theorem ann_sp (f : Nat) (a : Ann) (ha : a.isAnn = true) (c : Cls) (hc : c.isSpTab = true) (r : List St)
    (K : List (LexT × Nat)) (i : Nat) (CS : List Ctx) (cx : Ctx) (al : Bool) (p1 p2 : Option Cls) :
    dispatch (f + 1) a.startSt (cfgA a a.startSt r K false i CS cx al) c p1 p2
      = .ok (cfgA a a.startSt r K false i CS cx al) := by
  cases a <;> simp [Ann.isAnn] at ha <;> cases c <;> simp [Cls.isSpTab] at hc <;> (unfold dispatch; rfl)

theorem mlAnn_nl (f : Nat) (r : List St)
    (K : List (LexT × Nat)) (i : Nat) (CS : List Ctx) (cx : Ctx) (al : Bool) (p1 p2 : Option Cls) :
    dispatch (f + 1) .mlAnn (cfgA .multi .mlAnn r K false i CS cx al) .nl p1 p2
      = .ok { cfgA .multi .mlAnn r K false i CS cx al with finds := [.newLine] } := by
  unfold dispatch; rfl

theorem ann_lbrace (f : Nat) (a : Ann) (ha : a.isAnn = true) (r : List St)
    (K : List (LexT × Nat)) (i : Nat) (CS : List Ctx) (cx : Ctx) (al : Bool) (p1 p2 : Option Cls) :
    dispatch (f + 2) a.startSt (cfgA a a.startSt r K false i CS cx al) .lbrace p1 p2
      = .ok { cfgA a .objKeyOrEmpty r K false i (cx :: CS) { ty := .object } al with finds := [.objB] } := by
  cases a <;> simp [Ann.isAnn] at ha <;> (unfold dispatch; unfold dispatch; rfl)

/-! ### rule names -/

theorem akey_sp (f : Nat) (a : Ann) (st : St) (h : keySt st = true) (c : Cls) (hc : c.isSpTab = true) (r : List St)
    (K : List (LexT × Nat)) (i : Nat) (CS : List Ctx) (cx : Ctx) (al : Bool) (p1 p2 : Option Cls) :
    dispatch (f + 1) st (cfgA a st r K false i CS cx al) c p1 p2 = .ok (cfgA a st r K false i CS cx al) := by
  cases st <;> simp [keySt] at h <;> cases c <;> simp [Cls.isSpTab] at hc <;> cases a <;> (unfold dispatch; rfl)

theorem akey_nl (f : Nat) (st : St) (h : keySt st = true) (r : List St)
    (K : List (LexT × Nat)) (i : Nat) (CS : List Ctx) (cx : Ctx) (al : Bool) (p1 p2 : Option Cls) :
    dispatch (f + 1) st (cfgA .multi st r K false i CS cx al) .nl p1 p2
      = .ok { cfgA .multi (nlSt st) r K false i CS cx al with finds := [.newLine] } := by
  cases st <;> simp [keySt] at h <;> (unfold dispatch; rfl)

/-- first byte of a bare rule name -/
theorem akey_first (f : Nat) (a : Ann) (ha : a.isAnn = true) (st : St) (h : keySt st = true) (c : Cls)
    (hc : c.isName = true) (r : List St)
    (K : List (LexT × Nat)) (i : Nat) (CS : List Ctx) (cx : Ctx) (al : Bool) (p1 p2 : Option Cls) :
    dispatch (f + 1) st (cfgA a st r K false i CS cx al) c p1 p2
      = .ok { cfgA a .annKey r K false i CS cx al with finds := [.keyB] } := by
  cases a <;> simp [Ann.isAnn] at ha <;> cases st <;> simp [keySt] at h <;> cases c <;> simp [Cls.isName] at hc <;>
    (unfold dispatch; unfold beginAnnKeyOrEmpty; rfl)

theorem annKey_name (f : Nat) (a : Ann) (c : Cls) (hc : c.isName = true) (r : List St)
    (K : List (LexT × Nat)) (i : Nat) (CS : List Ctx) (cx : Ctx) (al : Bool) (p1 p2 : Option Cls) :
    dispatch (f + 1) .annKey (cfgA a .annKey r K false i CS cx al) c p1 p2
      = .ok (cfgA a .annKey r K false i CS cx al) := by
  cases c <;> simp [Cls.isName] at hc <;> (unfold dispatch; rfl)

theorem annKey_sp (f : Nat) (a : Ann) (r : List St)
    (K : List (LexT × Nat)) (i : Nat) (CS : List Ctx) (cx : Ctx) (al : Bool) (p1 p2 : Option Cls) :
    dispatch (f + 1) .annKey (cfgA a .annKey r K false i CS cx al) .sp p1 p2
      = .ok (cfgA a .annKeyAfter r K false i CS cx al) := by
  unfold dispatch; rfl

theorem annKeyAfter_sp (f : Nat) (a : Ann) (r : List St)
    (K : List (LexT × Nat)) (i : Nat) (CS : List Ctx) (cx : Ctx) (al : Bool) (p1 p2 : Option Cls) :
    dispatch (f + 1) .annKeyAfter (cfgA a .annKeyAfter r K false i CS cx al) .sp p1 p2
      = .ok (cfgA a .annKeyAfter r K false i CS cx al) := by
  unfold dispatch; rfl

def keyEndSt : St → Bool | .annKey | .annKeyAfter => true | _ => false

/-- the colon after a bare rule name: the key ends, the value is looked for -/
theorem annKey_colon (f : Nat) (a : Ann) (st : St) (h : keyEndSt st = true) (r : List St) (p : Nat)
    (K : List (LexT × Nat)) (i : Nat) (CS : List Ctx) (cx : Ctx) (al : Bool) (p1 p2 : Option Cls) :
    dispatch (f + 3) st (cfgA a st r ((.keyB, p) :: K) false i CS cx al) .colon p1 p2
      = .ok { cfgA a .objValue r ((.keyB, p) :: K) false i CS cx al with finds := [.keyE] } := by
  cases st <;> simp [keyEndSt] at h <;> cases a <;>
    (unfold dispatch; unfold endValue; unfold dispatch'; unfold dispatch; rfl)

/-! ### rule values -/

theorem aval_sp (f : Nat) (a : Ann) (c : Cls) (hc : c.isSpTab = true) (r : List St)
    (K : List (LexT × Nat)) (i : Nat) (CS : List Ctx) (cx : Ctx) (al : Bool) (p1 p2 : Option Cls) :
    dispatch (f + 1) .objValue (cfgA a .objValue r K false i CS cx al) c p1 p2
      = .ok (cfgA a .objValue r K false i CS cx al) := by
  cases c <;> simp [Cls.isSpTab] at hc <;> cases a <;> (unfold dispatch; rfl)

theorem aval_nl (f : Nat) (r : List St)
    (K : List (LexT × Nat)) (i : Nat) (CS : List Ctx) (cx : Ctx) (al : Bool) (p1 p2 : Option Cls) :
    dispatch (f + 1) .objValue (cfgA .multi .objValue r K false i CS cx al) .nl p1 p2
      = .ok { cfgA .multi .objValue r K false i CS cx al with finds := [.newLine] } := by
  unfold dispatch; rfl

theorem aval_start (f : Nat) (a : Ann) (c : Cls) (st0 : St) (u0 : Bool) (h : litStart c = some (st0, u0)) (r : List St)
    (K : List (LexT × Nat)) (i : Nat) (CS : List Ctx) (cx : Ctx) (al : Bool) (p1 p2 : Option Cls) :
    dispatch (f + 1) .objValue (cfgA a .objValue r K false i CS cx al) c p1 p2
      = .ok { cfgA a st0 r K u0 i CS cx al with finds := [.valB, .litB] } := by
  cases c <;> simp [litStart] at h <;> obtain ⟨rfl, rfl⟩ := h <;> cases a <;> (unfold dispatch; rfl)

theorem silent_dispatchA (f : Nat) (a : Ann) (st : St) (r : List St) (u : Bool) (c : Cls) (st' : St) (r' : List St)
    (u' : Bool) (h : silent st r u c = some (st', r', u'))
    (K : List (LexT × Nat)) (i : Nat) (CS : List Ctx) (cx : Ctx) (al : Bool) (p1 p2 : Option Cls) :
    dispatch (f + 1) st (cfgA a st r K u i CS cx al) c p1 p2 = .ok (cfgA a st' r' K u' i CS cx al) := by
  by_cases h3 : st = .u3
  · subst h3
    cases r with
    | nil => simp [silent] at h
    | cons r0 r =>
      cases c <;> simp [silent, Cls.isHex] at h <;>
        (obtain ⟨rfl, rfl, rfl⟩ := h; unfold dispatch; rfl)
  · cases st <;> (try exact absurd rfl h3) <;> simp only [silent, reduceCtorEq] at h <;> cases c <;>
      simp [Cls.isHex] at h <;>
      (obtain ⟨rfl, rfl, rfl⟩ := h; unfold dispatch; try unfold state0) <;> rfl

/-! ### after a rule value -/

/-- `stateEndValue` behind a literal rule value: the literal and the value are closed -/
theorem ev_closeA (f : Nat) (a : Ann) (st : St) (r : List St) (b b2 : Nat) (R : List (LexT × Nat)) (i : Nat)
    (CS : List Ctx) (cx : Ctx) (al : Bool) (c : Cls) (p1 p2 : Option Cls) :
    endValue f (cfgA a st r ((.litB, b) :: (.valB, b2) :: R) false i CS cx al) c p1 p2
      = dispatch f .afterValue
          { cfgA a .afterValue r ((.litB, b) :: (.valB, b2) :: R) false i CS cx al with finds := [.litE, .valE] } c p1 p2 := by
  unfold endValue dispatch'; rfl

theorem aaft_sp (f : Nat) (a : Ann) (c : Cls) (hc : c.isSpTab = true) (r : List St)
    (K : List (LexT × Nat)) (i : Nat) (CS : List Ctx) (cx : Ctx) (al : Bool) (fs : List LexT) (p1 p2 : Option Cls) :
    dispatch (f + 1) .afterValue { cfgA a .afterValue r K false i CS cx al with finds := fs } c p1 p2
      = .ok { cfgA a .afterValue r K false i CS cx al with finds := fs } := by
  cases c <;> simp [Cls.isSpTab] at hc <;> cases a <;> (unfold dispatch; rfl)

theorem aaft_nl (f : Nat) (r : List St)
    (K : List (LexT × Nat)) (i : Nat) (CS : List Ctx) (cx : Ctx) (al : Bool) (fs : List LexT) (p1 p2 : Option Cls) :
    dispatch (f + 1) .afterValue { cfgA .multi .afterValue r K false i CS cx al with finds := fs } .nl p1 p2
      = .ok { cfgA .multi .afterValue r K false i CS cx al with finds := fs ++ [.newLine] } := by
  unfold dispatch; rfl

theorem aaft_comma (f : Nat) (a : Ann) (r : List St)
    (K : List (LexT × Nat)) (i : Nat) (CS : List Ctx) (cx : Ctx) (al : Bool) (fs : List LexT) (p1 p2 : Option Cls) :
    dispatch (f + 1) .afterValue { cfgA a .afterValue r K false i CS cx al with finds := fs } .comma p1 p2
      = .ok { cfgA a .objKey r K false i CS cx al with finds := fs } := by
  cases a <;> (unfold dispatch; rfl)

/-- `}` directly behind a literal rule value (its closing lexemes still queued) -/
theorem aaft_rbrace_lit (f : Nat) (a : Ann) (ha : a.isAnn = true) (r : List St) (b b2 o y : Nat)
    (R : List (LexT × Nat)) (i : Nat) (c0 : Ctx) (CS : List Ctx) (cx : Ctx) (al : Bool) (p1 p2 : Option Cls) :
    dispatch (f + 1) .afterValue
        { cfgA a .afterValue r ((.litB, b) :: (.valB, b2) :: (.objB, o) :: (a.B, y) :: R) false i (c0 :: CS) cx al with
          finds := [.litE, .valE] } .rbrace p1 p2
      = .ok { cfgA a a.prefixSt r ((.litB, b) :: (.valB, b2) :: (.objB, o) :: (a.B, y) :: R) false i CS c0 al with
          finds := [.litE, .valE, .objE] } := by
  cases a <;> simp [Ann.isAnn] at ha <;> (unfold dispatch; rfl)

/-- `}` behind blanks, or closing an empty rule object, or behind a trailing comma -/
theorem aobj_rbrace (f : Nat) (a : Ann) (ha : a.isAnn = true) (st : St) (h : keySt st = true ∨ st = .afterValue)
    (r : List St) (o y : Nat)
    (R : List (LexT × Nat)) (i : Nat) (c0 : Ctx) (CS : List Ctx) (cx : Ctx) (al : Bool) (p1 p2 : Option Cls) :
    dispatch (f + 1) st (cfgA a st r ((.objB, o) :: (a.B, y) :: R) false i (c0 :: CS) cx al) .rbrace p1 p2
      = .ok { cfgA a a.prefixSt r ((.objB, o) :: (a.B, y) :: R) false i CS c0 al with finds := [.objE] } := by
  rcases h with h | rfl
  · cases a <;> simp [Ann.isAnn] at ha <;> cases st <;> simp [keySt] at h <;>
      (unfold dispatch; unfold beginAnnKeyOrEmpty; rfl)
  · cases a <;> simp [Ann.isAnn] at ha <;> (unfold dispatch; rfl)

/-! ### behind the rule object -/

theorem pre_sp (f : Nat) (a : Ann) (ha : a.isAnn = true) (c : Cls) (hc : c.isSpTab = true) (r : List St)
    (K : List (LexT × Nat)) (i : Nat) (CS : List Ctx) (cx : Ctx) (al : Bool) (p1 p2 : Option Cls) :
    dispatch (f + 1) a.prefixSt (cfgA a a.prefixSt r K false i CS cx al) c p1 p2
      = .ok (cfgA a a.prefixSt r K false i CS cx al) := by
  cases a <;> simp [Ann.isAnn] at ha <;> cases c <;> simp [Cls.isSpTab] at hc <;> (unfold dispatch; rfl)

theorem mlpre_nl (f : Nat) (r : List St)
    (K : List (LexT × Nat)) (i : Nat) (CS : List Ctx) (cx : Ctx) (al : Bool) (p1 p2 : Option Cls) :
    dispatch (f + 1) .mlTxtPrefix (cfgA .multi .mlTxtPrefix r K false i CS cx al) .nl p1 p2
      = .ok { cfgA .multi .mlTxtPrefix r K false i CS cx al with finds := [.newLine] } := by
  unfold dispatch; rfl

/-- the line break that ends an inline annotation without note -/
theorem inlpre_nl (f : Nat) (r0 : St) (rs : List St) (y : Nat)
    (i : Nat) (CS : List Ctx) (cx : Ctx) (al : Bool) (p1 p2 : Option Cls) :
    dispatch (f + 1) .inlTxtPrefix (cfgA .inline .inlTxtPrefix (r0 :: rs) [(.inlAnnB, y)] false i CS cx al) .nl p1 p2
      = .ok { cfg r0 rs [(.inlAnnB, y)] false i CS cx al with finds := [.inlAnnE, .newLine] } := by
  unfold dispatch; rfl

theorem mlpre_star (f : Nat) (r : List St)
    (K : List (LexT × Nat)) (i : Nat) (CS : List Ctx) (cx : Ctx) (al : Bool) (p1 p2 : Option Cls) :
    dispatch (f + 1) .mlTxtPrefix (cfgA .multi .mlTxtPrefix r K false i CS cx al) .star p1 p2
      = .ok (cfgA .multi .mlAnnEnd r K false i CS cx al) := by
  unfold dispatch; rfl

theorem mlend_slash (f : Nat) (r0 : St) (rs : List St)
    (K : List (LexT × Nat)) (i : Nat) (CS : List Ctx) (cx : Ctx) (al : Bool) (p1 p2 : Option Cls) :
    dispatch (f + 1) .mlAnnEnd (cfgA .multi .mlAnnEnd (r0 :: rs) K false i CS cx al) .slash p1 p2
      = .ok { cfg r0 rs K false i CS cx al with finds := [.mlAnnE] } := by
  unfold dispatch; rfl

/-! ### the note `- text` behind the rule object -/

def Ann.prefix2St : Ann → St | .multi => .mlTxtPrefix2 | _ => .inlTxtPrefix2
def Ann.txtSt : Ann → St | .multi => .mlTxt | _ => .inlTxt
def Ann.TB : Ann → LexT | .multi => .mlTxtB | _ => .inlTxtB
def Ann.TE : Ann → LexT | .multi => .mlTxtE | _ => .inlTxtE

/-- bytes a note may consist of: no line break, no `#`, no `*` -/
def Cls.isNoteCh : Cls → Bool
  | .nl | .hash | .star => false
  | _ => true

theorem pre_minus (f : Nat) (a : Ann) (ha : a.isAnn = true) (r : List St)
    (K : List (LexT × Nat)) (i : Nat) (CS : List Ctx) (cx : Ctx) (al : Bool) (p1 p2 : Option Cls) :
    dispatch (f + 1) a.prefixSt (cfgA a a.prefixSt r K false i CS cx al) .minus p1 p2
      = .ok (cfgA a a.prefix2St r K false i CS cx al) := by
  cases a <;> simp [Ann.isAnn] at ha <;> (unfold dispatch; rfl)

theorem pre2_sp (f : Nat) (a : Ann) (ha : a.isAnn = true) (c : Cls) (hc : c.isSpTab = true) (r : List St)
    (K : List (LexT × Nat)) (i : Nat) (CS : List Ctx) (cx : Ctx) (al : Bool) (p1 p2 : Option Cls) :
    dispatch (f + 1) a.prefix2St (cfgA a a.prefix2St r K false i CS cx al) c p1 p2
      = .ok (cfgA a a.prefix2St r K false i CS cx al) := by
  cases a <;> simp [Ann.isAnn] at ha <;> cases c <;> simp [Cls.isSpTab] at hc <;> (unfold dispatch; rfl)

/-- the first byte of the note -/
theorem pre2_first (f : Nat) (a : Ann) (ha : a.isAnn = true) (c : Cls) (hs : c.isSpTab = false)
    (hn : c.isNoteCh = true) (r : List St)
    (K : List (LexT × Nat)) (i : Nat) (CS : List Ctx) (cx : Ctx) (al : Bool) (p1 p2 : Option Cls) :
    dispatch (f + 2) a.prefix2St (cfgA a a.prefix2St r K false i CS cx al) c p1 p2
      = .ok { cfgA a a.txtSt r K false i CS cx al with finds := [a.TB] } := by
  cases a <;> simp [Ann.isAnn] at ha <;> cases c <;> simp [Cls.isSpTab] at hs <;> simp [Cls.isNoteCh] at hn <;>
    (unfold dispatch; unfold dispatch; rfl)

theorem txt_char (f : Nat) (a : Ann) (ha : a.isAnn = true) (c : Cls) (hn : c.isNoteCh = true) (r : List St)
    (K : List (LexT × Nat)) (i : Nat) (CS : List Ctx) (cx : Ctx) (al : Bool) (p1 p2 : Option Cls) :
    dispatch (f + 1) a.txtSt (cfgA a a.txtSt r K false i CS cx al) c p1 p2
      = .ok (cfgA a a.txtSt r K false i CS cx al) := by
  cases a <;> simp [Ann.isAnn] at ha <;> cases c <;> simp [Cls.isNoteCh] at hn <;> (unfold dispatch; rfl)

/-- the line break that ends the note of an inline annotation -/
theorem inltxt_nl (f : Nat) (r0 : St) (rs : List St) (q y : Nat)
    (i : Nat) (CS : List Ctx) (cx : Ctx) (al : Bool) (p1 p2 : Option Cls) :
    dispatch (f + 1) .inlTxt (cfgA .inline .inlTxt (r0 :: rs) [(.inlTxtB, q), (.inlAnnB, y)] false i CS cx al) .nl p1 p2
      = .ok { cfg (.guard r0) rs [(.inlTxtB, q), (.inlAnnB, y)] false i CS cx al with
                finds := [.inlTxtE, .inlAnnE, .newLine] } := by
  unfold dispatch; rfl

/-- `*/` behind the note of a multi-line annotation: its `*` -/
theorem mltxt_end (f : Nat) (r : List St)
    (K : List (LexT × Nat)) (i : Nat) (CS : List Ctx) (cx : Ctx) (al : Bool) (p2 : Option Cls) :
    dispatch (f + 1) .mlTxt (cfgA .multi .mlTxt r K false i CS cx al) .star (some .slash) p2
      = .ok { cfgA .multi .mlAnnEnd r K false i CS cx al with finds := [.mlTxtE] } := by
  unfold dispatch; rfl

/-- white space behind an inline annotation with a note (the scanner is in the guard installed by its line end) -/
theorem guard_sp (f : Nat) (c : Cls) (hc : c.isSpTab = true)
    (i : Nat) (CS : List Ctx) (cx : Ctx) (al : Bool) (p1 p2 : Option Cls) :
    dispatch (f + 2) (.guard .endTop) (cfg (.guard .endTop) [] [] false i CS cx al) c p1 p2
      = .ok (cfg (.guard .endTop) [] [] false i CS cx al) := by
  cases c <;> simp [Cls.isSpTab] at hc <;> (unfold dispatch; unfold dispatch; rfl)

theorem guard_nl (f : Nat) (i : Nat) (CS : List Ctx) (cx : Ctx) (al : Bool) (p1 p2 : Option Cls) :
    dispatch (f + 2) (.guard .endTop) (cfg (.guard .endTop) [] [] false i CS cx al) .nl p1 p2
      = .ok { cfg (.guard .endTop) [] [] false i CS cx al with finds := [.newLine] } := by
  unfold dispatch; unfold dispatch; rfl

end SchemaScan
