import JSight.C02TextThm2
/-!
C02 at TEXT level, second part — the `enum` class and the closed form, at the level of the LOADED pairs
(name as the loader unquotes it, value text): `compileNode` on a scalar with an `enum` rule (beside it only `const`,
`nullable`, `type: "enum"`) computes `compiledOf`; `stages` / `closed` (what the driver word `c02t` evaluates and
`vh c02-text` compares with the real library, quoted and `\u`-escaped names and enum lists included) is the spec verdict;
on the texts of the first part's grammar the whole pipeline IS the closed form.
-/
namespace C02T
open Compile Lay SchemaScan
open Rules (Kind)

/-- `compileNode` raises nothing on a scalar whose surviving rules are `enum` and, at most, `const`, `nullable`,
`type: "enum"` -/
def okBasicRE (rs : List Rule) (jt : JT) : Bool :=
  let frs := filt rs
  hasRule frs "enum" && !hasRule frs "or"
    && (match findRule frs "type" with | some t => t.val == some (sb "\"enum\"") | none => true)
    && others frs ["enum", "optional", "const", "nullable", "type"] == 0
    && !hasRule frs "optional" && !hasRule frs "additionalProperties" && !hasRule frs "precision"
    && !hasRule frs "exclusiveMinimum" && !hasRule frs "exclusiveMaximum" && minMaxOK frs && lenOK frs
    && !(frs.any fun r => incompatible jt r.name)

theorem ofKind_scalar (k : Kind) : (JT.ofKind k == .obj || JT.ofKind k == .arr || JT.ofKind k == .mixed) = false := by
  cases k <;> rfl

theorem basic_ok_enum (ex : Bytes) (rs : List Rule) (k : Kind) (h : okBasicRE rs (JT.ofKind k) = true) :
    basic (node ex rs) (JT.ofKind k) false 0
      = .ok (⟨none, hasRule (filt rs) "nullable", false, none, false, .absent, litsOf (filt rs), false⟩ : Basic) := by
  simp only [okBasicRE, Bool.and_eq_true, Bool.not_eq_true', beq_iff_eq] at h
  obtain ⟨⟨⟨⟨⟨⟨⟨⟨⟨⟨⟨he, hor⟩, hty⟩, hoth⟩, hopt⟩, hadd⟩, hprec⟩, hxm⟩, hxM⟩, hmm⟩, hlen⟩, hinc⟩ := h
  have hb := bAllowed_ok (filt rs) (JT.ofKind k) none (Or.inl rfl) hopt hadd (by simp [hxm]) (by simp [hxM]) hmm hlen hinc
  have hoth' : (others (filt rs) ["enum", "optional", "const", "nullable", "type"] != 0) = false := by simp [hoth]
  have hbt : bType .lit (filt rs) (JT.ofKind k) false 0 none false
      = .ok (⟨none, hasRule (filt rs) "nullable", false, none, false, .absent, litsOf (filt rs), false⟩ : Basic) := by
    rw [litsOf_eq]
    unfold bType typeVal
    cases ht : findRule (filt rs) "type" with
    | none => simpa using hb
    | some t =>
      rw [ht] at hty
      have hv : t.val = some (sb "\"enum\"") := by simpa using hty
      have hu : unq (sb "\"enum\"") = sb "enum" := by decide +kernel
      have h1 : isUserTypeName (sb "enum") = false := by decide +kernel
      have h2 : (sb "enum" == sb "mixed") = false := by decide +kernel
      have h3 : fmtOfType (sb "enum") = none := by decide +kernel
      simp only [hv, Option.getD_some, hu, h1, h2, h3, he, ofKind_scalar, Bool.false_eq_true, if_false, beq_self_eq_true,
        if_true, Bool.not_true, Option.map_some, Option.bind_some]
      exact hb
  have hn : bNames .lit (filt rs) (JT.ofKind k) false 0
      = .ok (⟨none, hasRule (filt rs) "nullable", false, none, false, .absent, litsOf (filt rs), false⟩ : Basic) := by
    simp only [bNames, hor, Bool.false_eq_true, if_false, hbt]
  have hp : bEnumPrec .lit (filt rs) (JT.ofKind k) false 0
      = .ok (⟨none, hasRule (filt rs) "nullable", false, none, false, .absent, litsOf (filt rs), false⟩ : Basic) := by
    simp only [bEnumPrec, he, hprec, Bool.false_eq_true, if_false, if_true, hoth']
    cases ht : findRule (filt rs) "type" with
    | none => simp only [hn]
    | some t =>
      rw [ht] at hty
      have hv : t.val = some (sb "\"enum\"") := by simpa using hty
      simp only [hv, bne_self_eq_false, Bool.false_eq_true, if_false, hn]
  unfold basic
  have fd : ∀ l : List Rule, List.filter (fun r => !((r.name == sb "nullable" || r.name == sb "const") && r.val.bind parseBool == some false)) l = filt l := fun _ => rfl
  simp only [node, fd, hor, Bool.false_eq_true, if_false, hp]

/-- **the rule set passes creation and `compileNode`** — the class of the first part, or the `enum` class -/
def okRulesE (ex : Bytes) (ps : List Pair) : Bool :=
  (RulesF.kindOfTok ex).isSome && okCreate ps &&
    (okBasicR (mk ps) (JT.ofKind (kindOf ex)) || okBasicRE (mk ps) (JT.ofKind (kindOf ex)))

theorem okRulesE_of_okRules {ex : Bytes} {ps : List Pair} (h : okRules ex ps = true) : okRulesE ex ps = true := by
  simp only [okRules, okBasic, Bool.and_eq_true] at h
  simp [okRulesE, h.1.1, h.1.2, h.2]

/-- **creation and `CompileBasic` on the loaded pairs**: the literal node `compiledOf` -/
theorem stages_ok (ex : Bytes) (ps : List Pair) (h : okRulesE ex ps = true) :
    stages ex ps = .ok (.lit (compiledOf ex (mk ps)) false) := by
  simp only [okRulesE, Bool.and_eq_true, Bool.or_eq_true] at h
  obtain ⟨⟨hk, hc⟩, hb⟩ := h
  obtain ⟨k, hk⟩ := Option.isSome_iff_exists.mp hk
  have hko : kindOf ex = k := by simp [kindOf, hk]
  rw [hko] at hb
  have hcr : creation [node ex (mk ps)] = .ok () := by
    simp only [creation, List.foldl_cons, List.foldl_nil, node]
    unfold okCreate at hc
    cases hcc : createRules .lit [] (mk ps) with
    | error e => rw [hcc] at hc; simp [isOk] at hc
    | ok u => rfl
  have hbas : basic (node ex (mk ps)) (JT.ofKind k) false 0
      = .ok (⟨none, hasRule (filt (mk ps)) "nullable", false, none, false, .absent, litsOf (filt (mk ps)), false⟩ : Basic) := by
    rcases hb with hb | hb
    · exact basic_ok ex (mk ps) (JT.ofKind k) hb
    · exact basic_ok_enum ex (mk ps) k hb
  have hcomp : compileNode #[node ex (mk ps)] false 2 0 false = .ok (.lit (compiledOf ex (mk ps)) false, none) := by
    simp only [node] at hbas
    simp only [compileNode, node, List.getElem?_toArray, List.getElem?_cons_zero, jtOf, hk, List.length_nil, hbas,
      Option.getD_some, compiledOf, kindOf]
    rfl
  simp only [stages, hcr, hcomp]

/-- **the closed form is the spec verdict**: for an admissible rule set (either class), every oracle and every token,
`closed` answers the code of the EXAMPLE's own failing validator at offset 0, else accept / reject by
`RulesF.litOKFull` on `RulesF.compile` of the written rules -/
theorem closed_spec (o : RulesF.Oracles) (ex : Bytes) (ps : List Pair) (h : okRulesE ex ps = true)
    (hstd : ∀ r ∈ (compiledOf ex (mk ps)).rules, usesStd r = false) (doc : Bytes) :
    closed ex ps doc = match litErr (compiledOf ex (mk ps)) ex with
      | some c => .schemaErr c 0
      | none => if RulesF.litOKFull o (specOfRules ex ps) doc then .acc else .rej := by
  have hc : okCreate ps = true := by
    simp only [okRulesE, Bool.and_eq_true] at h
    exact h.1.2
  unfold closed
  rw [stages_ok ex ps h]
  simp only [check_lit, compiledOf_ex]
  cases hle : litErr (compiledOf ex (mk ps)) ex with
  | some c => simp [E2E.errOut]
  | none =>
    simp only []
    rw [litOKFull_oracle noOracles o _ ?_ doc]
    have hs := spec_vs_compiled ex ps (facts_of_okCreate hc)
    intro r hr
    exact hstd r ((hs.2.2.2 r).1 hr)

/-- an `enum` node of the class carries no validator that calls the standard library -/
theorem compiled_noStd_enum (ex : Bytes) (ps : List Pair) (k : Kind) (h : okBasicRE (mk ps) (JT.ofKind k) = true) :
    ∀ r ∈ (compiledOf ex (mk ps)).rules, usesStd r = false := by
  simp only [okBasicRE, Bool.and_eq_true, Bool.not_eq_true', beq_iff_eq] at h
  obtain ⟨⟨⟨⟨⟨⟨⟨⟨⟨⟨⟨he, hor⟩, hty⟩, hoth⟩, hopt⟩, hadd⟩, hprec⟩, hxm⟩, hxM⟩, hmm⟩, hlen⟩, hinc⟩ := h
  intro r hr
  simp only [compiledOf] at hr
  rw [filt_mk] at hr hty
  rw [litsOf_gP, List.mem_append] at hr
  rcases hr with hr | hr
  · obtain ⟨p, _, hg⟩ := List.mem_filterMap.1 hr
    exact gP_noStd _ _ p r hg
  · unfold typeVal at hr
    cases ht : findRule (mk (List.filter keepP ps)) "type" with
    | none => rw [ht] at hr; simp at hr
    | some t =>
      rw [ht] at hr hty
      have hv : t.val = some (sb "\"enum\"") := by simpa using hty
      have hu : unq (sb "\"enum\"") = sb "enum" := by decide +kernel
      have h3 : fmtOfType (sb "enum") = none := by decide +kernel
      simp [hv, hu, h3] at hr

/-- **the text pipeline IS the closed form** on the texts of the first part's grammar: what `vh c02-text` observes at run
time (real library = driver `e2e` = driver `c02t`), proved for the class with bare names and literal values -/
theorem text_eq_closed (a : Ann) (ha : a.isAnn = true) (tok s1 s2 : List UInt8) (ob : BObj)
    (s3 tl : List UInt8) (hv : AnnValid a tok s1 s2 ob s3 tl) (hok : okRules tok ob.pairs = true)
    (d ws0 ws1 : List UInt8) (hd : JsonScan.IsScalar (d.map JsonScan.classify))
    (hw0 : JsonScan.IsWs (ws0.map JsonScan.classify)) (hw1 : JsonScan.IsWs (ws1.map JsonScan.classify)) :
    E2E.validateText (annTextB a tok s1 s2 ob s3 tl) [] (ws0 ++ (d ++ ws1)) = closed tok ob.pairs d := by
  rw [closed_spec noOracles tok ob.pairs (okRulesE_of_okRules hok) (compiled_noStd tok ob.pairs hok) d]
  cases hex : RulesF.litOKFull noOracles (compiledOf tok (mk ob.pairs)) tok with
  | true =>
    rw [(litErr_none_iff _ _).2 hex]
    simp only []
    rw [← compiled_eq_spec noOracles tok ob.pairs hok]
    exact text_level a ha tok s1 s2 ob s3 tl hv hok hex d ws0 ws1 hd hw0 hw1
  | false =>
    rw [text_check_rejects a ha tok s1 s2 ob s3 tl hv hok hex]
    cases hle : litErr (compiledOf tok (mk ob.pairs)) tok with
    | none => rw [(litErr_none_iff _ _).1 hle] at hex; cases hex
    | some c => rfl

end C02T
