import JSight.SchemaErrPrefix
/-!
C17, schema scanner: which transitions use the look-ahead bytes `p1 = data[index]`, `p2 = data[index+1]` (the bytes behind
the one being read).  Only three step functions consult them, and only on two bytes:

* `anyCommentStart` on `#` reads `p1` (`##` must be followed by a third `#`);
* `multiLineComment` on `#` reads `p1` and `p2` (the closing `###`);
* `mlTxt` on `*` reads `p1` (the closing `*/`).

`St.core` peels the `guard` closures.  The lemmas below say that in every other situation the result of `dispatch` does
not depend on the look-ahead (re-dispatches included).
-/
namespace SchemaScan

def St.core : St → St
  | .guard x => x.core
  | x => x

/-- `*` is read without look-ahead -/
def St.starFree (st : St) : Bool :=
  match st.core with
  | .mlTxt | .mlAnn | .mlTxtPrefix2 => false
  | _ => true

/-- `#` is read without look-ahead -/
def St.hashFree1 (st : St) : Bool :=
  match st.core with
  | .anyCommentStart | .multiLineComment => false
  | _ => true

/-- `#` is read without the second look-ahead byte -/
def St.hashFree2 (st : St) : Bool :=
  match st.core with
  | .multiLineComment => false
  | _ => true

theorem dispatch_zero (st : St) (s : Sc) (c : Cls) (p1 p2 : Option Cls) :
    dispatch 0 st s c p1 p2 = .error (.crash "re-dispatch fuel exhausted") := by
  unfold dispatch; rfl

/-- a byte other than `#` and `*`: the look-ahead is not consulted -/
theorem dispatch_la_plain (c : Cls) (hh : c ≠ .hash) (hs : c ≠ .star) (p1 p2 p1' p2' : Option Cls) :
    ∀ (f : Nat) (st : St) (s : Sc), dispatch f st s c p1 p2 = dispatch f st s c p1' p2'
  | 0, st, s => by rw [dispatch_zero, dispatch_zero]
  | f + 1, st, s => by
    have ihD := dispatch_la_plain c hh hs p1 p2 p1' p2' f
    have ihE : ∀ s, endValue f s c p1 p2 = endValue f s c p1' p2' := by
      intro s; unfold endValue dispatch'; simp only [ihD]
    have ihS : ∀ s, state0 f s c p1 p2 = state0 f s c p1' p2' := by
      intro s; unfold state0; simp only [ihE]
    have h1 : (c != Cls.hash) = true := by simpa using hh
    have h2 : (c == Cls.hash) = false := by simpa using hh
    have h3 : (c == Cls.star) = false := by simpa using hs
    cases st <;> (unfold dispatch; dsimp only) <;> (try rfl) <;>
      simp only [ihD, ihE, ihS, h1, h2, h3, if_true, Bool.false_and, Bool.false_eq_true, if_false]

/-- `*`: the second look-ahead byte is not consulted -/
theorem dispatch_la_star2 (p1 p2 p2' : Option Cls) :
    ∀ (f : Nat) (st : St) (s : Sc), dispatch f st s .star p1 p2 = dispatch f st s .star p1 p2'
  | 0, st, s => by rw [dispatch_zero, dispatch_zero]
  | f + 1, st, s => by
    have ihD := dispatch_la_star2 p1 p2 p2' f
    have ihE : ∀ s, endValue f s .star p1 p2 = endValue f s .star p1 p2' := by
      intro s; unfold endValue dispatch'; simp only [ihD]
    have ihS : ∀ s, state0 f s .star p1 p2 = state0 f s .star p1 p2' := by
      intro s; unfold state0; simp only [ihE]
    have h2 : (Cls.star == Cls.hash) = false := rfl
    cases st <;> (unfold dispatch; dsimp only) <;> (try rfl) <;>
      simp only [ihD, ihE, ihS, h2, Bool.false_and, Bool.false_eq_true, if_false]

/-! ### the conditional lemmas: a generic pass -/

theorem ebind_ok {α β : Type} (a : α) (k : α → M β) : Except.bind (Except.ok a) k = k a := rfl
theorem ebind_err {α β : Type} (e : Err) (k : α → M β) : Except.bind (Except.error e) k = .error e := rfl

@[simp] theorem found_lc (s : Sc) (t : LexT) : (found s t).lengthComputing = s.lengthComputing := rfl

theorem finishShortcut_facts {s s2 : Sc} (h : finishShortcut s = .ok s2) :
    (s2.step = .afterValue ∨ s2.step = .afterItem ∨ s2.step = .endTop) ∧ s2.lengthComputing = s.lengthComputing := by
  unfold finishShortcut at h
  simp only [bind, Except.bind, pure, Except.pure] at h
  split at h
  · cases h; exact ⟨Or.inl rfl, rfl⟩
  · cases h; exact ⟨Or.inr (Or.inl rfl), rfl⟩
  · unfold restoreContext at h
    split at h <;> cases h
    exact ⟨Or.inr (Or.inr rfl), rfl⟩
  · cases h

/-- **generic look-ahead lemma**: `free` is a set of step functions closed under re-dispatch (outside length mode) in which
the three look-ahead users agree on the two look-aheads; then every step function of the set does -/
theorem dispatch_la_generic (c : Cls) (p1 p2 p1' p2' : Option Cls) (free : St → Bool)
    (hguard : ∀ x, free (.guard x) = free x)
    (hconc : free .endTop = true ∧ free .afterKey = true ∧ free .afterValue = true ∧ free .afterItem = true ∧
      free .inlTxt = true ∧ free .foundRoot = true ∧ free .endValue = true)
    (hml : free .mlAnn = true ∨ free .mlTxtPrefix2 = true → free .mlTxt = true)
    (hleaf : ∀ st, st = .anyCommentStart ∨ st = .multiLineComment ∨ st = .mlTxt → free st = true →
      ∀ f s, dispatch (f + 1) st s c p1 p2 = dispatch (f + 1) st s c p1' p2') :
    ∀ (f : Nat) (st : St) (s : Sc), free st = true → s.lengthComputing = false →
      dispatch f st s c p1 p2 = dispatch f st s c p1' p2'
  | 0, st, s, _, _ => by rw [dispatch_zero, dispatch_zero]
  | f + 1, st, s, hfree, hl => by
    obtain ⟨f1, f2, f3, f4, f5, f6, f7⟩ := hconc
    have ihD := dispatch_la_generic c p1 p2 p1' p2' free hguard ⟨f1, f2, f3, f4, f5, f6, f7⟩ hml hleaf f
    have hfs : ∀ X : Sc, X.lengthComputing = false →
        (Except.bind (finishShortcut X) fun s2 => dispatch f s2.step s2 c p1 p2) =
        (Except.bind (finishShortcut X) fun s2 => dispatch f s2.step s2 c p1' p2') := by
      intro X hX
      cases hq : finishShortcut X with
      | error e => rfl
      | ok s2 =>
        obtain ⟨hst, hlc⟩ := finishShortcut_facts hq
        simp only [Except.bind]
        refine ihD _ _ ?_ (by rw [hlc]; exact hX)
        rcases hst with h | h | h <;> rw [h] <;> assumption
    have ihE : ∀ s : Sc, s.lengthComputing = false → endValue f s c p1 p2 = endValue f s c p1' p2' := by
      intro s hl
      unfold endValue dispatch'
      simp only [bind, pure, Except.pure, ebind_ok, hl, found_lc, Bool.false_and, Bool.false_eq_true, if_false, ihD,
        f1, f2, f3, f4, hfs]
    have ihS : ∀ s : Sc, s.lengthComputing = false → state0 f s c p1 p2 = state0 f s c p1' p2' := by
      intro s hl; unfold state0; simp only [ihE, hl]
    cases st with
    | guard x =>
      unfold dispatch; dsimp only
      rw [ihD x s (by rw [← hguard]; exact hfree) hl]
    | anyCommentStart => exact hleaf _ (Or.inl rfl) hfree f s
    | multiLineComment => exact hleaf _ (Or.inr (Or.inl rfl)) hfree f s
    | mlTxt => exact hleaf _ (Or.inr (Or.inr rfl)) hfree f s
    | mlAnn =>
      have fm := hml (Or.inl hfree)
      unfold dispatch; dsimp only
      simp only [ihD, hl, found_lc, f6, fm]
    | mlTxtPrefix2 =>
      have fm := hml (Or.inr hfree)
      unfold dispatch; dsimp only
      simp only [ihD, hl, found_lc, fm]
    | _ =>
      (unfold dispatch; dsimp only) <;> (try rfl) <;>
        simp only [ihD, ihE, ihS, hl, found_lc, f1, f2, f3, f4, f5, f6, f7]

theorem core_guard (x : St) : (St.guard x).core = x.core := rfl

/-- `*` outside the multi-line annotation text: the look-ahead is not consulted -/
theorem dispatch_la_star1 (p1 p2 p1' p2' : Option Cls) (f : Nat) (st : St) (s : Sc) (hfree : st.starFree = true)
    (hl : s.lengthComputing = false) : dispatch f st s .star p1 p2 = dispatch f st s .star p1' p2' := by
  rw [dispatch_la_star2 p1 p2 p2']
  refine dispatch_la_generic .star p1 p2' p1' p2' St.starFree (fun x => rfl) ⟨rfl, rfl, rfl, rfl, rfl, rfl, rfl⟩
    (by intro h; rcases h with h | h <;> cases h) ?_ f st s hfree hl
  intro st' hst' hf' f' s'
  rcases hst' with rfl | rfl | rfl
  · unfold dispatch; rfl
  · unfold dispatch; rfl
  · cases hf'

/-- `#` outside `multiLineComment`: the second look-ahead byte is not consulted -/
theorem dispatch_la_hash2 (p1 p2 p2' : Option Cls) (f : Nat) (st : St) (s : Sc) (hfree : st.hashFree2 = true)
    (hl : s.lengthComputing = false) : dispatch f st s .hash p1 p2 = dispatch f st s .hash p1 p2' := by
  refine dispatch_la_generic .hash p1 p2 p1 p2' St.hashFree2 (fun x => rfl) ⟨rfl, rfl, rfl, rfl, rfl, rfl, rfl⟩
    (fun _ => rfl) ?_ f st s hfree hl
  intro st' hst' hf' f' s'
  rcases hst' with rfl | rfl | rfl
  · unfold dispatch; rfl
  · cases hf'
  · unfold dispatch; rfl

/-- `#` outside `anyCommentStart` / `multiLineComment`: the look-ahead is not consulted -/
theorem dispatch_la_hash1 (p1 p2 p1' p2' : Option Cls) (f : Nat) (st : St) (s : Sc) (hfree : st.hashFree1 = true)
    (hl : s.lengthComputing = false) : dispatch f st s .hash p1 p2 = dispatch f st s .hash p1' p2' := by
  refine dispatch_la_generic .hash p1 p2 p1' p2' St.hashFree1 (fun x => rfl) ⟨rfl, rfl, rfl, rfl, rfl, rfl, rfl⟩
    (fun _ => rfl) ?_ f st s hfree hl
  intro st' hst' hf' f' s'
  rcases hst' with rfl | rfl | rfl
  · cases hf'
  · cases hf'
  · unfold dispatch; rfl

#print axioms dispatch_la_plain
#print axioms dispatch_la_star1
#print axioms dispatch_la_hash1
#print axioms dispatch_la_hash2

end SchemaScan
