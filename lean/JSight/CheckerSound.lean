import JSight.CheckerTraverse
import JSight.CheckExampleConv
/-!
# C04 — `checker s = ok → validate s (exampleOf s) = true`

For schemas whose EXAMPLE is plain JSON (`plain`: literal / array / object nodes only, no key shortcuts, containers
without a types list, `any` or `allOf`) the checker model implies the predicate `VP.checked` of `CheckExample.lean`,
hence (`VP.C04_example_valid`) the validator model accepts the EXAMPLE. Literal nodes keep EVERYTHING: their rules,
`{type: "@t"}` and `or` sets — a literal is read as the list of alternatives `buildList` resolves it to, and a
token is admitted when `ValidateLiteralValue` of some alternative returns (`literalAccepts`), which is what the
checker tests on the node's own token and what the validator tests on a document token.
-/
namespace CK
open RulesF (Oracles Bytes)

/-- a token as a `LiteralEnd` lexeme -/
def tokLex (tok : Bytes) : Lex := ⟨.litEnd, 0, 0, tok⟩

/-- some alternative of the literal node admits the token: `ValidateLiteralValue` of one of the type roots the node's
types list resolves to (the node itself when it has none) returns -/
def literalAccepts (o : Oracles) (env : Env) (i : Info) (tok : Bytes) : Bool :=
  match checkerList env i with
  | .error _ => false
  | .ok l => l.any fun c => (c.check o (tokLex tok)).isNone

theorem check_lex (o : Oracles) (lex : Lex) (c : Chk) (h : lex.ty = .litEnd) :
    c.check o lex = c.check o (tokLex lex.value) := by
  cases c <;> simp [Chk.check, tokLex, h]

theorem literalVerdict_none (o : Oracles) (lex : Lex) (l : List Chk) :
    literalVerdict o lex l = none ↔ (l.any fun c => (c.check o lex).isNone) = true := by
  unfold literalVerdict
  by_cases hall : (l.all fun c => (c.check o lex).isSome) = true
  · rw [if_pos hall]
    have hany : (l.any fun c => (c.check o lex).isNone) = false := by
      rw [List.any_eq_false]
      intro c hc
      have := List.all_eq_true.1 hall c hc
      cases hcc : c.check o lex <;> simp_all
    rw [hany]
    constructor
    · intro h
      split at h
      · rename_i c
        have := List.all_eq_true.1 hall c (by simp)
        cases hcc : c.check o lex <;> simp_all
      · simp at h
    · intro h; simp at h
  · rw [if_neg hall]
    simp only [true_iff]
    rw [Bool.not_eq_true, List.all_eq_false] at hall
    obtain ⟨c, hc, hcc⟩ := hall
    exact List.any_eq_true.2 ⟨c, hc, by cases h : c.check o lex <;> simp_all⟩

theorem literalErr_none_iff (o : Oracles) (env : Env) (i : Info) (hl : i.lex.ty = .litEnd) :
    literalErr o env i = none ↔ literalAccepts o env i i.lex.value = true := by
  unfold literalErr literalAccepts
  cases checkerList env i with
  | error e => simp
  | ok l =>
    simp only [literalVerdict_none]
    have : (fun c : Chk => (c.check o i.lex).isNone) = fun c => (c.check o (tokLex i.lex.value)).isNone := by
      funext c; rw [check_lex o i.lex c hl]
    rw [this]

/-! ### the schema as a schema of the validator model -/

def strOf (n : Name) : String := String.ofList (n.map fun b => Char.ofNat b.toNat)

def isOptional (i : Info) : Bool := i.cs.contains (.optional true)

mutual
def toVP : Node → VP.S Info
  | .mk i kids =>
    match i.nk with
    | .lit => .lit i
    | .arr => .arr (toVPs kids)
    | .obj => .obj (toProps i.keys kids)
    | .mixed => .any
    | .mixedValue => .any
def toVPs : List Node → List (VP.S Info)
  | [] => []
  | n :: ns => toVP n :: toVPs ns
def toProps : List Key → List Node → List (String × Bool × VP.S Info)
  | _, [] => []
  | [], _ :: _ => []
  | k :: ks, n :: ns => (strOf k.name, !isOptional n.info, toVP n) :: toProps ks ns
end

mutual
/-- the EXAMPLE is plain JSON: no type shortcut in value or key position, no `allOf`; containers are what their
EXAMPLE shows (no types list, no `any`) -/
def plain : Node → Bool
  | .mk i kids =>
    match i.nk with
    | .lit => i.lex.ty == .litEnd
    | .arr => !hasTy i.cs 8 && !hasTy i.cs 18 && plainL kids
    | .obj => !hasTy i.cs 8 && !hasTy i.cs 18 && !hasTy i.cs 17 && i.keys.all (fun k => !k.shortcut)
        && i.keys.length == kids.length && plainL kids
    | .mixed => false
    | .mixedValue => false
def plainL : List Node → Bool
  | [] => true
  | n :: ns => plain n && plainL ns
end

theorem nodeErr_none_lit (o : Oracles) (env : Env) (i : Info) (len : Nat) (hk : i.nk = .lit)
    (h : nodeErr o env ⟨i, len⟩ = none) : literalErr o env i = none := by
  unfold nodeErr at h
  simp only [Option.map_eq_none_iff] at h
  cases h1 : compatErr i with
  | some p => simp [h1, orElse] at h
  | none =>
    cases h2 : linksErr env i with
    | some p => simp [h1, h2, orElse] at h
    | none => simpa [h1, h2, orElse, hk] using h

mutual
theorem checked_of_checkNode (o : Oracles) (env : Env) :
    ∀ n : Node, plain n = true → VP.nodupAll (toVP n) = true → checkNode o env n = none →
      VP.checked (literalAccepts o env) (fun i => i.lex.value) (toVP n) = true
  | .mk i kids, hp, hn, h => by
    rw [checkNode] at h
    cases he : nodeErr o env ⟨i, kids.length⟩ with
    | some p => simp [he] at h
    | none =>
      simp only [he] at h
      cases hk : i.nk with
      | lit =>
        simp only [plain, hk, beq_iff_eq] at hp
        simp only [toVP, hk, VP.checked]
        exact (literalErr_none_iff o env i hp).1 (nodeErr_none_lit o env i _ hk he)
      | arr =>
        simp only [plain, hk, Bool.and_eq_true] at hp
        simp only [toVP, hk, VP.nodupAll] at hn
        simp only [hk, isBranch, if_true] at h
        simp only [toVP, hk, VP.checked]
        exact checkedItems_of_checkNodes o env kids hp.2 hn h
      | obj =>
        simp only [plain, hk, Bool.and_eq_true] at hp
        simp only [toVP, hk, VP.nodupAll, Bool.and_eq_true] at hn
        simp only [hk, isBranch, if_true] at h
        simp only [toVP, hk, VP.checked, Bool.and_eq_true]
        exact ⟨checkedProps_of_checkNodes o env i.keys kids hp.2 hn.2 h, hn.1⟩
      | mixed => simp [plain, hk] at hp
      | mixedValue => simp [plain, hk] at hp
theorem checkedItems_of_checkNodes (o : Oracles) (env : Env) :
    ∀ ns : List Node, plainL ns = true → VP.nodupItems (toVPs ns) = true → checkNodes o env ns = none →
      VP.checkedItems (literalAccepts o env) (fun i => i.lex.value) (toVPs ns) = true
  | [], _, _, _ => by simp [toVPs, VP.checkedItems]
  | n :: ns, hp, hn, h => by
    simp only [plainL, Bool.and_eq_true] at hp
    simp only [toVPs, VP.nodupItems, Bool.and_eq_true] at hn
    rw [checkNodes] at h
    cases hc : checkNode o env n with
    | some p => simp [hc] at h
    | none =>
      simp only [hc] at h
      simp only [toVPs, VP.checkedItems, Bool.and_eq_true]
      exact ⟨checked_of_checkNode o env n hp.1 hn.1 hc, checkedItems_of_checkNodes o env ns hp.2 hn.2 h⟩
theorem checkedProps_of_checkNodes (o : Oracles) (env : Env) :
    ∀ (ks : List Key) (ns : List Node), plainL ns = true → VP.nodupProps (toProps ks ns) = true →
      checkNodes o env ns = none →
      VP.checkedProps (literalAccepts o env) (fun i => i.lex.value) (toProps ks ns) = true
  | _, [], _, _, _ => by simp [toProps, VP.checkedProps]
  | [], _ :: _, _, _, _ => by simp [toProps, VP.checkedProps]
  | k :: ks, n :: ns, hp, hn, h => by
    simp only [plainL, Bool.and_eq_true] at hp
    simp only [toProps, VP.nodupProps, Bool.and_eq_true] at hn
    rw [checkNodes] at h
    cases hc : checkNode o env n with
    | some p => simp [hc] at h
    | none =>
      simp only [hc] at h
      simp only [toProps, VP.checkedProps, Bool.and_eq_true]
      exact ⟨checked_of_checkNode o env n hp.1 hn.1 hc, checkedProps_of_checkNodes o env ks ns hp.2 hn.2 h⟩
end

theorem panicRes_ne_ok (ut : Option Name) (shift : Nat) (p : Panic) : panicRes ut shift p ≠ .ok := by
  cases p <;> simp [panicRes]

theorem checkNode_of_ok (o : Oracles) (s : Schema) (r : Node) (hr : s.root = some r) (h : checkSchema o s = .ok) :
    checkNode o s.env r = none := by
  unfold checkSchema at h
  rw [hr] at h
  cases hc : checkNode o s.env r with
  | none => rfl
  | some p => simp only [hc] at h; exact absurd h (panicRes_ne_ok _ _ p)

/-- the checker accepts ⇒ the conditions of `C04_example_valid` hold ⇒ the validator model accepts the EXAMPLE -/
theorem checker_sound (o : Oracles) (s : Schema) (r : Node) (hr : s.root = some r) (hp : plain r = true)
    (hn : VP.nodupAll (toVP r) = true) (h : checkSchema o s = .ok) :
    VP.validate (literalAccepts o s.env) (toVP r) (VP.exampleOf (fun i => i.lex.value) (toVP r)) = true :=
  VP.C04_example_valid _ _ _ (checked_of_checkNode o s.env r hp hn (checkNode_of_ok o s r hr h))

end CK
