import JSight.LinksSpec
/-!
C09 (b): `UsedUserTypes` as coded returns the mentions of the schema text, each once, in first-occurrence order.
-/
namespace LK

/-! ### `addType` / `addAll` -/

theorem mem_addType (acc : List String) (n x : String) : x ∈ addType acc n ↔ x ∈ acc ∨ x = n := by
  unfold addType
  by_cases h : acc.contains n = true
  · simp only [h, if_true]
    constructor
    · exact Or.inl
    · rintro (h1 | h1)
      · exact h1
      · subst h1; simpa using h
  · simp only [h, if_false, Bool.false_eq_true, List.mem_append, List.mem_singleton]

theorem addAll_nil (acc : List String) : addAll acc [] = acc := rfl
theorem addAll_cons (acc : List String) (x : String) (l : List String) :
    addAll acc (x :: l) = addAll (addType acc x) l := rfl
theorem addAll_append (acc l1 l2 : List String) : addAll acc (l1 ++ l2) = addAll (addAll acc l1) l2 := by
  unfold addAll; exact List.foldl_append

theorem mem_addAll (l : List String) : ∀ (acc : List String) (x : String), x ∈ addAll acc l ↔ x ∈ acc ∨ x ∈ l := by
  induction l with
  | nil => intro acc x; simp [addAll_nil]
  | cons y ys ih =>
    intro acc x
    rw [addAll_cons, ih, mem_addType]
    simp only [List.mem_cons]
    constructor
    · rintro ((h | h) | h)
      · exact Or.inl h
      · exact Or.inr (Or.inl h)
      · exact Or.inr (Or.inr h)
    · rintro (h | h | h)
      · exact Or.inl (Or.inl h)
      · exact Or.inl (Or.inr h)
      · exact Or.inr h

theorem addAll_of_subset (l : List String) : ∀ (acc : List String), (∀ x ∈ l, x ∈ acc) → addAll acc l = acc := by
  induction l with
  | nil => intro acc _; rfl
  | cons y ys ih =>
    intro acc h
    have hm : y ∈ acc := h y (by simp)
    have hy : acc.contains y = true := by simpa using hm
    rw [addAll_cons]
    have : addType acc y = acc := by unfold addType; rw [if_pos hy]
    rw [this]
    exact ih acc (fun x hx => h x (by simp [hx]))

theorem addAll_twice (acc l : List String) : addAll (addAll acc l) l = addAll acc l :=
  addAll_of_subset l _ (fun x hx => (mem_addAll l acc x).2 (Or.inr hx))

/-! ### the traversal collects the mentions -/

mutual
theorem collect_eq : (t : N) → (acc : List String) → collect t acc = addAll acc (mentions t)
  | .lit _ tl _, acc => by simp [collect, mentions]
  | .ref names, acc => by simp [collect, mentions, addAll_twice]
  | .arr items, acc => by simp only [collect, mentions]; exact collectItems_eq items acc
  | .obj ao ap ps, acc => by
    simp only [collect, mentions]
    rw [collectProps_eq ps, addAll_append, addAll_append]
theorem collectItems_eq : (xs : List N) → (acc : List String) → collectItems xs acc = addAll acc (mentionsItems xs)
  | [], acc => by simp [collectItems, mentionsItems, addAll_nil]
  | x :: xs, acc => by
    simp only [collectItems, mentionsItems]
    rw [collectItems_eq xs, collect_eq x, addAll_append]
theorem collectProps_eq : (ps : List (String × Bool × N)) → (acc : List String) →
    collectProps ps acc = addAll acc (mentionsProps ps)
  | [], acc => by simp [collectProps, mentionsProps, addAll_nil]
  | (k, sc, v) :: ps, acc => by
    simp only [collectProps, mentionsProps]
    rw [collectProps_eq ps, collect_eq v, addAll_append, addAll_append]
    cases sc <;> simp [addAll_nil, addAll_cons]
end

/-! ### `addAll` is "keep the first occurrence" -/

theorem mem_dedupFirst (l : List String) : ∀ x, x ∈ dedupFirst l ↔ x ∈ l := by
  induction l with
  | nil => intro x; simp [dedupFirst]
  | cons y ys ih =>
    intro x
    simp only [dedupFirst, List.mem_cons, List.mem_filter, ih, bne_iff_ne, ne_eq]
    constructor
    · rintro (h | ⟨h, _⟩)
      · exact Or.inl h
      · exact Or.inr h
    · rintro (h | h)
      · exact Or.inl h
      · by_cases e : x = y
        · exact Or.inl e
        · exact Or.inr ⟨h, e⟩

theorem nodup_dedupFirst (l : List String) : (dedupFirst l).Nodup := by
  induction l with
  | nil => simp [dedupFirst]
  | cons y ys ih =>
    simp only [dedupFirst]
    refine List.nodup_cons.2 ⟨?_, ih.filter _⟩
    intro h
    have := (List.mem_filter.1 h).2
    simp at this

theorem addAll_eq (l : List String) : ∀ (acc : List String),
    addAll acc l = acc ++ (dedupFirst l).filter (fun x => !acc.contains x) := by
  induction l with
  | nil => intro acc; simp [addAll_nil, dedupFirst]
  | cons y ys ih =>
    intro acc
    rw [addAll_cons, ih]
    unfold addType
    by_cases h : acc.contains y = true
    · simp only [h, if_true, dedupFirst, List.filter_cons, Bool.not_true, Bool.false_eq_true, if_false]
      congr 1
      rw [List.filter_filter]
      apply List.filter_congr
      intro x _
      cases hx : acc.contains x with
      | true => rfl
      | false =>
        have : x ≠ y := by
          intro e; subst e; rw [h] at hx; exact absurd hx (by simp)
        simp [this]
    · have hf : acc.contains y = false := by simpa using h
      simp only [hf, if_false, Bool.false_eq_true, dedupFirst, List.filter_cons, Bool.not_false, if_true,
        List.append_assoc, List.singleton_append]
      congr 2
      rw [List.filter_filter]
      apply List.filter_congr
      intro x _
      by_cases e : x = y
      · subst e; simp
      · simp [e, Bool.and_comm]

theorem used_eq (t : N) : used t = dedupFirst (mentions t) := by
  unfold used
  rw [collect_eq, addAll_eq]
  simp

/-! ### the mentions are the references of the text -/

theorem mem_userNames (ms : List Mem) (n : String) : n ∈ userNames ms ↔ Mem.user n ∈ ms := by
  induction ms with
  | nil => simp [userNames]
  | cons m ms ih =>
    cases m with
    | user x => simp [userNames, ih]
    | builtin j => simp [userNames, ih]

mutual
theorem mem_mentions : (t : N) → (n : String) → n ∈ mentions t ↔ RefsN t n
  | .lit jt tl e, n => by
    cases tl with
    | none =>
      simp only [mentions, TL.userNames, List.not_mem_nil, false_iff]
      intro h; cases h
    | typ x =>
      simp only [mentions, TL.userNames, List.mem_singleton]
      constructor
      · intro h; subst h; exact .litType jt n e
      · intro h; cases h; rfl
    | orr ms =>
      simp only [mentions, TL.userNames, mem_userNames]
      constructor
      · intro h; exact .litOr jt ms n e h
      · intro h; cases h; assumption
  | .ref names, n => by
    simp only [mentions]
    constructor
    · intro h; exact .ref names n h
    · intro h; cases h; assumption
  | .arr items, n => by
    simp only [mentions]
    rw [mem_mentionsItems items n]
    constructor
    · rintro ⟨x, hx, hr⟩; exact .item items x n hx hr
    · intro h; cases h with | item _ x _ hx hr => exact ⟨x, hx, hr⟩
  | .obj ao ap ps, n => by
    simp only [mentions, List.mem_append]
    rw [mem_mentionsProps ps n]
    constructor
    · rintro ((h | h) | h)
      · exact .allOf ao ap ps n h
      · cases ap with
        | none => simp at h
        | some a =>
          have : n = a := by simpa using h
          subst this; exact .addp ao ps n
      · rcases h with ⟨v, hv⟩ | ⟨k, sc, v, hm, hr⟩
        · exact .key ao ap ps n v hv
        · exact .prop ao ap ps k sc v n hm hr
    · intro h
      cases h with
      | allOf _ _ _ _ h => exact Or.inl (Or.inl h)
      | addp _ _ _ => exact Or.inl (Or.inr (by simp))
      | key _ _ _ _ v hv => exact Or.inr (Or.inl ⟨v, hv⟩)
      | prop _ _ _ k sc v _ hm hr => exact Or.inr (Or.inr ⟨k, sc, v, hm, hr⟩)
theorem mem_mentionsItems : (xs : List N) → (n : String) → n ∈ mentionsItems xs ↔ ∃ x ∈ xs, RefsN x n
  | [], n => by simp [mentionsItems]
  | x :: xs, n => by
    simp only [mentionsItems, List.mem_append, List.mem_cons, exists_eq_or_imp]
    rw [mem_mentions x n, mem_mentionsItems xs n]
theorem mem_mentionsProps : (ps : List (String × Bool × N)) → (n : String) →
    n ∈ mentionsProps ps ↔ (∃ v, (n, true, v) ∈ ps) ∨ ∃ k sc v, (k, sc, v) ∈ ps ∧ RefsN v n
  | [], n => by simp [mentionsProps]
  | (k, sc, v) :: ps, n => by
    simp only [mentionsProps, List.mem_append, List.mem_cons]
    rw [mem_mentions v n, mem_mentionsProps ps n]
    constructor
    · rintro ((h | h) | h)
      · cases sc with
        | false => simp at h
        | true =>
          have : n = k := by simpa using h
          subst this; exact Or.inl ⟨v, Or.inl rfl⟩
      · exact Or.inr ⟨k, sc, v, Or.inl rfl, h⟩
      · rcases h with ⟨w, hw⟩ | ⟨k', sc', w, hw, hr⟩
        · exact Or.inl ⟨w, Or.inr hw⟩
        · exact Or.inr ⟨k', sc', w, Or.inr hw, hr⟩
    · rintro (⟨w, hw⟩ | ⟨k', sc', w, hw, hr⟩)
      · rcases hw with hw | hw
        · have e1 : n = k := by injection hw
          have e2 : true = sc := by
            have := (Prod.mk.inj hw).2
            exact (Prod.mk.inj this).1
          subst e1; subst e2
          exact Or.inl (Or.inl (by simp))
        · exact Or.inr (Or.inl ⟨w, hw⟩)
      · rcases hw with hw | hw
        · have e3 : w = v := by
            have := (Prod.mk.inj hw).2
            exact (Prod.mk.inj this).2
          subst e3
          exact Or.inl (Or.inr hr)
        · exact Or.inr (Or.inr ⟨k', sc', w, hw, hr⟩)
end

/-! ### the three statements -/

theorem used_nodup (t : N) : (used t).Nodup := by
  rw [used_eq]; exact nodup_dedupFirst _

theorem used_mem_iff (t : N) (n : String) : n ∈ used t ↔ RefsN t n := by
  rw [used_eq, mem_dedupFirst, mem_mentions]

end LK
