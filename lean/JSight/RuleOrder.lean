import JSight.OMapOpsProofs
/-!
C08, order independence: the compile / check pipeline looks at a node's constraint map only through
`Has`, `Get` / `GetValue`, `Len` (`NumberOfConstraints`), `Set`, `Delete`, the key-wise `Filter` of
`falseConstraints`, and an `Each` whose only use is "does every constraint pass" (which error is
reported is not part of the verdict). `Prog` is the language of such pipelines; `eval_congr` shows that
the verdict of *any* such pipeline is the same on two maps with the same lookup function — and two
insertion orders of the same duplicate-free rule set give such maps (`build_lookup_perm`).
That the Go pipeline stays inside this language is a regenerated fact (T-gen `tgen-cmap`).
-/
namespace RuleOrder
open OMap
variable {κ ν : Type} [DecidableEq κ]

inductive Prog (κ ν : Type)
  | ret (b : Bool)
  | has (k : κ) (cont : Bool → Prog κ ν)
  | get (k : κ) (cont : Option ν → Prog κ ν)
  | len (cont : Nat → Prog κ ν)
  | set (k : κ) (v : ν) (cont : Prog κ ν)
  | delete (k : κ) (cont : Prog κ ν)
  | filter (p : κ → ν → Bool) (cont : Prog κ ν)
  | all (q : κ → ν → Bool) (cont : Bool → Prog κ ν)

def eval : Prog κ ν → M κ ν → Bool
  | .ret b, _ => b
  | .has k c, m => eval (c (m.has k)) m
  | .get k c, m => eval (c (m.data k)) m
  | .len c, m => eval (c m.len) m
  | .set k v c, m => eval c (m.set k v)
  | .delete k c, m => eval c (m.delete k)
  | .filter p c, m => eval c (m.filter p).1
  | .all q c, m => eval (c (m.entries.all (fun e => q e.1 e.2))) m

/-- same lookup function -/
def Equiv (m m' : M κ ν) : Prop := ∀ k, m.data k = m'.data k

theorem order_perm (m m' : M κ ν) (h : WF m) (h' : WF m') (e : Equiv m m') : m.order.Perm m'.order := by
  apply (List.perm_ext_iff_of_nodup h.nodup h'.nodup).2
  intro k
  rw [h.dom k, h'.dom k, e k]

theorem len_congr (m m' : M κ ν) (h : WF m) (h' : WF m') (e : Equiv m m') : m.len = m'.len := by
  simp only [M.len, h.size, h'.size]
  exact (order_perm m m' h h' e).length_eq

theorem entries_perm (m m' : M κ ν) (h : WF m) (h' : WF m') (e : Equiv m m') : m.entries.Perm m'.entries := by
  have hf : (fun k => (m.data k).map (fun v => (k, v))) = (fun k => (m'.data k).map (fun v => (k, v))) := by
    funext k; rw [e k]
  simp only [M.entries, hf]
  exact (order_perm m m' h h' e).filterMap _

theorem set_congr (m m' : M κ ν) (e : Equiv m m') (k : κ) (v : ν) : Equiv (m.set k v) (m'.set k v) := by
  intro x; simp [M.set, e x]

theorem delete_congr (m m' : M κ ν) (e : Equiv m m') (k : κ) : Equiv (m.delete k) (m'.delete k) := by
  intro x; simp [M.delete, e x]

theorem data_iff_mem (m : M κ ν) (h : WF m) (k : κ) (v : ν) : m.data k = some v ↔ (k, v) ∈ m.entries := by
  constructor
  · intro hd
    simp only [M.entries, List.mem_filterMap]
    exact ⟨k, (h.dom k).2 (by simp [hd]), by simp [hd]⟩
  · intro he
    exact (mem_entries_fst m he).2

theorem opt_ext {α : Type} (a b : Option α) (hab : ∀ v, a = some v ↔ b = some v) : a = b := by
  cases a with
  | none =>
    cases b with
    | none => rfl
    | some y => exact absurd ((hab y).2 rfl) (by simp)
  | some x => exact ((hab x).1 rfl).symm

/-- lookup function of a filtered map: the entries satisfying the predicate -/
theorem filter_data (m : M κ ν) (h : WF m) (p : κ → ν → Bool) (k : κ) :
    (m.filter p).1.data k = (m.data k).filter (fun v => p k v) := by
  obtain ⟨w, he, _⟩ := filter_refines m h p
  apply opt_ext
  intro v
  rw [data_iff_mem _ w, he]
  simp only [Ref.filter, List.mem_filter, ← data_iff_mem m h]
  constructor
  · rintro ⟨hd, hp⟩; simp [hd, Option.filter, hp]
  · intro hf
    cases hd : m.data k with
    | none => simp [hd, Option.filter] at hf
    | some x =>
      simp only [hd, Option.filter] at hf
      split at hf
      · rename_i hpx; cases hf; exact ⟨rfl, hpx⟩
      · cases hf

theorem filter_congr (m m' : M κ ν) (h : WF m) (h' : WF m') (e : Equiv m m') (p : κ → ν → Bool) :
    Equiv (m.filter p).1 (m'.filter p).1 := by
  intro k; rw [filter_data m h, filter_data m' h', e k]

/-- the verdict of any pipeline of order-insensitive queries is a function of the lookup function -/
theorem eval_congr (prog : Prog κ ν) : ∀ (m m' : M κ ν), WF m → WF m' → Equiv m m' → eval prog m = eval prog m' := by
  induction prog with
  | ret b => intros; rfl
  | has k c ih => intro m m' h h' e; simp only [eval, M.has, e k]; exact ih _ m m' h h' e
  | get k c ih => intro m m' h h' e; simp only [eval, e k]; exact ih _ m m' h h' e
  | len c ih => intro m m' h h' e; simp only [eval, len_congr m m' h h' e]; exact ih _ m m' h h' e
  | set k v c ih => intro m m' h h' e; exact ih _ _ (wf_set m h k v) (wf_set m' h' k v) (set_congr m m' e k v)
  | delete k c ih => intro m m' h h' e; exact ih _ _ (wf_delete m h k) (wf_delete m' h' k) (delete_congr m m' e k)
  | filter p c ih =>
    intro m m' h h' e
    exact ih _ _ (filter_refines m h p).1 (filter_refines m' h' p).1 (filter_congr m m' h h' e p)
  | all q c ih =>
    intro m m' h h' e
    simp only [eval, (entries_perm m m' h h' e).all_eq]
    exact ih _ m m' h h' e

/-- building the map by `Set` in two orders of the same duplicate-free rule list gives the same lookup function -/
def build (rs : List (κ × ν)) : M κ ν := rs.foldl (fun m r => m.set r.1 r.2) M.empty

theorem foldl_set_wf (rs : List (κ × ν)) : ∀ m : M κ ν, WF m → WF (rs.foldl (fun m r => m.set r.1 r.2) m) := by
  induction rs with
  | nil => intro m h; exact h
  | cons r rs ih => intro m h; exact ih _ (wf_set m h r.1 r.2)

theorem foldl_set_data (rs : List (κ × ν)) (hn : (rs.map (·.1)).Nodup) : ∀ (m : M κ ν) (k : κ),
    (rs.foldl (fun m r => m.set r.1 r.2) m).data k =
      match rs.find? (·.1 == k) with | some r => some r.2 | none => m.data k := by
  induction rs with
  | nil => intro m k; rfl
  | cons r rs ih =>
    intro m k
    have hn' : r.1 ∉ rs.map (·.1) ∧ (rs.map (·.1)).Nodup := List.nodup_cons.1 hn
    simp only [List.foldl_cons, List.find?_cons]
    rw [ih hn'.2]
    by_cases hr : r.1 == k
    · have hk : r.1 = k := by simpa using hr
      have hnone : rs.find? (·.1 == k) = none := by
        apply List.find?_eq_none.2
        intro x hx hxk
        have : x.1 = k := by simpa using hxk
        exact hn'.1 (List.mem_map.2 ⟨x, hx, this.trans hk.symm⟩)
      simp [hr, hnone, M.set, hk]
    · have hk : ¬ k = r.1 := fun e => hr (by simp [e])
      simp only [hr]
      cases rs.find? (·.1 == k) with
      | some x => rfl
      | none => simp [M.set, hk]

theorem build_lookup_perm (rs rs' : List (κ × ν)) (hn : (rs.map (·.1)).Nodup) (hp : rs.Perm rs') :
    WF (build rs) ∧ WF (build rs') ∧ Equiv (build rs) (build rs') := by
  have hn' : (rs'.map (·.1)).Nodup := (hp.map _).nodup_iff.1 hn
  refine ⟨foldl_set_wf rs _ wf_empty, foldl_set_wf rs' _ wf_empty, ?_⟩
  intro k
  simp only [build, foldl_set_data rs hn, foldl_set_data rs' hn']
  -- both sides look the key up in a duplicate-free list; the lists are permutations
  have key : ∀ (l : List (κ × ν)), (l.map (·.1)).Nodup → ∀ r ∈ l, r.1 = k → l.find? (·.1 == k) = some r := by
    intro l hl r hr hk
    induction l with
    | nil => cases hr
    | cons a l ih =>
      have hl' : a.1 ∉ l.map (·.1) ∧ (l.map (·.1)).Nodup := List.nodup_cons.1 hl
      simp only [List.find?_cons]
      rcases List.mem_cons.1 hr with rfl | hmem
      · simp [hk]
      · have : ¬ (a.1 == k) := by
          intro ha
          have : a.1 = k := by simpa using ha
          exact hl'.1 (List.mem_map.2 ⟨r, hmem, hk.trans this.symm⟩)
        simp only [this]
        exact ih hl'.2 hmem
  cases h1 : rs.find? (·.1 == k) with
  | some r =>
    have hr := List.mem_of_find?_eq_some h1
    have hk : r.1 = k := by simpa using List.find?_some h1
    rw [key rs' hn' r (hp.mem_iff.1 hr) hk]
  | none =>
    have : rs'.find? (·.1 == k) = none := by
      apply List.find?_eq_none.2
      intro x hx
      exact List.find?_eq_none.1 h1 x (hp.mem_iff.2 hx)
    rw [this]

/-- **C08, order independence**: the verdict of every order-insensitive pipeline is the same for every
ordering of a duplicate-free rule set -/
theorem verdict_perm (prog : Prog κ ν) (rs rs' : List (κ × ν)) (hn : (rs.map (·.1)).Nodup) (hp : rs.Perm rs') :
    eval prog (build rs) = eval prog (build rs') := by
  obtain ⟨w, w', e⟩ := build_lookup_perm rs rs' hn hp
  exact eval_congr prog _ _ w w' e

end RuleOrder
