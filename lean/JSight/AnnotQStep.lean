import JSight.AnnotDoc
/-!
Annotations with QUOTED rule names, scanner level: single-byte behaviour of the schema scanner model at
configurations `cfgQ a q …` — `cfgA` with the scanner's `boundaryQuote` flag as a parameter `q`. A quoted rule name
`"name"` sets the flag and nothing clears it before the next BARE name begins, so every state behind a quoted name
(blanks, the value, the end of the object, the tail of the annotation, the white space behind it) carries `q = true`.
The flag is read in the three bare-name states only.
-/
namespace SchemaScan

def cfgQ (a : Ann) (q : Bool) (st : St) (ret : List St) (K : List (LexT × Nat)) (u : Bool) (i : Nat) (CS : List Ctx)
    (cx : Ctx) (al : Bool) : Sc :=
  { step := st, ret := ret, stack := K, ctxStack := CS, ctx := cx, finds := [], index := i, ann := a, unf := u,
    lengthComputing := false, boundaryQuote := q, allowAnnotation := al, hasTrailing := false }

theorem cfgQ_false (a : Ann) (st : St) (ret : List St) (K : List (LexT × Nat)) (u : Bool) (i : Nat) (CS : List Ctx)
    (cx : Ctx) (al : Bool) : cfgQ a false st ret K u i CS cx al = cfgA a st ret K u i CS cx al := rfl

/-! ### blanks -/

theorem aloop_spQ (f : Nat) (q : Bool) (a : Ann) (ha : a.isAnn = true) (st : St) (h : aLoop a st = true) (c : Cls)
    (hc : c.isSpTab = true) (r : List St)
    (K : List (LexT × Nat)) (i : Nat) (CS : List Ctx) (cx : Ctx) (al : Bool) (p1 p2 : Option Cls) :
    dispatch (f + 1) st (cfgQ a q st r K false i CS cx al) c p1 p2 = .ok (cfgQ a q st r K false i CS cx al) := by
  cases a <;> simp [Ann.isAnn] at ha <;> cases st <;> simp [aLoop, Ann.prefixSt, Ann.startSt] at h <;>
    cases c <;> simp [Cls.isSpTab] at hc <;> (unfold dispatch; rfl)

theorem aloop_nlQ (f : Nat) (q : Bool) (st : St) (h : aLoop .multi st = true) (r : List St)
    (K : List (LexT × Nat)) (i : Nat) (CS : List Ctx) (cx : Ctx) (al : Bool) (p1 p2 : Option Cls) :
    dispatch (f + 1) st (cfgQ .multi q st r K false i CS cx al) .nl p1 p2
      = .ok { cfgQ .multi q (nlSt st) r K false i CS cx al with finds := [.newLine] } := by
  cases st <;> simp [aLoop, Ann.prefixSt, Ann.startSt] at h <;> (unfold dispatch; rfl)

/-! ### rule names -/

/-- first byte of a BARE rule name: the flag is cleared -/
theorem akey_firstQ (f : Nat) (q : Bool) (a : Ann) (ha : a.isAnn = true) (st : St) (h : keySt st = true) (c : Cls)
    (hc : c.isName = true) (r : List St)
    (K : List (LexT × Nat)) (i : Nat) (CS : List Ctx) (cx : Ctx) (al : Bool) (p1 p2 : Option Cls) :
    dispatch (f + 1) st (cfgQ a q st r K false i CS cx al) c p1 p2
      = .ok { cfgQ a false .annKey r K false i CS cx al with finds := [.keyB] } := by
  cases a <;> simp [Ann.isAnn] at ha <;> cases st <;> simp [keySt] at h <;> cases c <;> simp [Cls.isName] at hc <;>
    (unfold dispatch; unfold beginAnnKeyOrEmpty; rfl)

/-- the opening quote of a QUOTED rule name: the flag is set, the string automaton takes over -/
theorem akey_quoteQ (f : Nat) (q : Bool) (a : Ann) (ha : a.isAnn = true) (st : St) (h : keySt st = true) (r : List St)
    (K : List (LexT × Nat)) (i : Nat) (CS : List Ctx) (cx : Ctx) (al : Bool) (p1 p2 : Option Cls) :
    dispatch (f + 1) st (cfgQ a q st r K false i CS cx al) .quote p1 p2
      = .ok { cfgQ a true .inString r K false i CS cx al with finds := [.keyB] } := by
  cases a <;> simp [Ann.isAnn] at ha <;> cases st <;> simp [keySt] at h <;>
    (unfold dispatch; unfold beginAnnKeyOrEmpty; rfl)

theorem silent_dispatchQ (f : Nat) (q : Bool) (a : Ann) (st : St) (r : List St) (u : Bool) (c : Cls) (st' : St)
    (r' : List St) (u' : Bool) (h : silent st r u c = some (st', r', u'))
    (K : List (LexT × Nat)) (i : Nat) (CS : List Ctx) (cx : Ctx) (al : Bool) (p1 p2 : Option Cls) :
    dispatch (f + 1) st (cfgQ a q st r K u i CS cx al) c p1 p2 = .ok (cfgQ a q st' r' K u' i CS cx al) := by
  by_cases h3 : st = .u3
  · subst h3
    cases r with
    | nil => simp [silent] at h
    | cons r0 r =>
      cases c <;> simp [silent, Cls.isHex] at h <;>
        (obtain ⟨rfl, rfl, rfl⟩ := h; unfold dispatch; rfl)
  · cases st <;> (try exact absurd rfl h3) <;> simp only [silent, reduceCtorEq] at h <;> cases c <;>
      simp [Cls.isHex] at h <;>
      (obtain ⟨rfl, rfl, rfl⟩ := h; unfold dispatch; try unfold state0) <;> rfl

/-- `:` directly behind the closing quote of a rule name: the key ends at the quote -/
theorem qkey_colon (f : Nat) (q : Bool) (a : Ann) (r : List St) (p : Nat)
    (K : List (LexT × Nat)) (i : Nat) (CS : List Ctx) (cx : Ctx) (al : Bool) (p1 p2 : Option Cls) :
    dispatch (f + 3) .endValue (cfgQ a q .endValue r ((.keyB, p) :: K) false i CS cx al) .colon p1 p2
      = .ok { cfgQ a q .objValue r ((.keyB, p) :: K) false i CS cx al with finds := [.keyE] } := by
  cases a <;> (unfold dispatch; unfold endValue; unfold dispatch'; unfold dispatch; rfl)

/-- a space behind the closing quote of a rule name: the key ends at the quote -/
theorem qkey_sp (f : Nat) (q : Bool) (a : Ann) (r : List St) (p : Nat)
    (K : List (LexT × Nat)) (i : Nat) (CS : List Ctx) (cx : Ctx) (al : Bool) (p1 p2 : Option Cls) :
    dispatch (f + 3) .endValue (cfgQ a q .endValue r ((.keyB, p) :: K) false i CS cx al) .sp p1 p2
      = .ok { cfgQ a q .afterKey r ((.keyB, p) :: K) false i CS cx al with finds := [.keyE] } := by
  cases a <;> (unfold dispatch; unfold endValue; unfold dispatch'; unfold dispatch; rfl)

theorem afterKey_spQ (f : Nat) (q : Bool) (a : Ann) (r : List St)
    (K : List (LexT × Nat)) (i : Nat) (CS : List Ctx) (cx : Ctx) (al : Bool) (p1 p2 : Option Cls) :
    dispatch (f + 1) .afterKey (cfgQ a q .afterKey r K false i CS cx al) .sp p1 p2
      = .ok (cfgQ a q .afterKey r K false i CS cx al) := by
  cases a <;> (unfold dispatch; rfl)

theorem afterKey_colonQ (f : Nat) (q : Bool) (a : Ann) (r : List St)
    (K : List (LexT × Nat)) (i : Nat) (CS : List Ctx) (cx : Ctx) (al : Bool) (p1 p2 : Option Cls) :
    dispatch (f + 1) .afterKey (cfgQ a q .afterKey r K false i CS cx al) .colon p1 p2
      = .ok (cfgQ a q .objValue r K false i CS cx al) := by
  cases a <;> (unfold dispatch; rfl)

/-! ### rule values -/

theorem aval_startQ (f : Nat) (q : Bool) (a : Ann) (c : Cls) (st0 : St) (u0 : Bool) (h : litStart c = some (st0, u0))
    (r : List St)
    (K : List (LexT × Nat)) (i : Nat) (CS : List Ctx) (cx : Ctx) (al : Bool) (p1 p2 : Option Cls) :
    dispatch (f + 1) .objValue (cfgQ a q .objValue r K false i CS cx al) c p1 p2
      = .ok { cfgQ a q st0 r K u0 i CS cx al with finds := [.valB, .litB] } := by
  cases c <;> simp [litStart] at h <;> obtain ⟨rfl, rfl⟩ := h <;> cases a <;> (unfold dispatch; rfl)

theorem ev_closeQ (f : Nat) (q : Bool) (a : Ann) (st : St) (r : List St) (b b2 : Nat) (R : List (LexT × Nat)) (i : Nat)
    (CS : List Ctx) (cx : Ctx) (al : Bool) (c : Cls) (p1 p2 : Option Cls) :
    endValue f (cfgQ a q st r ((.litB, b) :: (.valB, b2) :: R) false i CS cx al) c p1 p2
      = dispatch f .afterValue
          { cfgQ a q .afterValue r ((.litB, b) :: (.valB, b2) :: R) false i CS cx al with finds := [.litE, .valE] } c p1 p2 := by
  unfold endValue dispatch'; rfl

theorem aaft_spQ (f : Nat) (q : Bool) (a : Ann) (c : Cls) (hc : c.isSpTab = true) (r : List St)
    (K : List (LexT × Nat)) (i : Nat) (CS : List Ctx) (cx : Ctx) (al : Bool) (fs : List LexT) (p1 p2 : Option Cls) :
    dispatch (f + 1) .afterValue { cfgQ a q .afterValue r K false i CS cx al with finds := fs } c p1 p2
      = .ok { cfgQ a q .afterValue r K false i CS cx al with finds := fs } := by
  cases c <;> simp [Cls.isSpTab] at hc <;> cases a <;> (unfold dispatch; rfl)

theorem aaft_nlQ (f : Nat) (q : Bool) (r : List St)
    (K : List (LexT × Nat)) (i : Nat) (CS : List Ctx) (cx : Ctx) (al : Bool) (fs : List LexT) (p1 p2 : Option Cls) :
    dispatch (f + 1) .afterValue { cfgQ .multi q .afterValue r K false i CS cx al with finds := fs } .nl p1 p2
      = .ok { cfgQ .multi q .afterValue r K false i CS cx al with finds := fs ++ [.newLine] } := by
  unfold dispatch; rfl

theorem aaft_commaQ (f : Nat) (q : Bool) (a : Ann) (r : List St)
    (K : List (LexT × Nat)) (i : Nat) (CS : List Ctx) (cx : Ctx) (al : Bool) (fs : List LexT) (p1 p2 : Option Cls) :
    dispatch (f + 1) .afterValue { cfgQ a q .afterValue r K false i CS cx al with finds := fs } .comma p1 p2
      = .ok { cfgQ a q .objKey r K false i CS cx al with finds := fs } := by
  cases a <;> (unfold dispatch; rfl)

theorem aaft_rbrace_litQ (f : Nat) (q : Bool) (a : Ann) (ha : a.isAnn = true) (r : List St) (b b2 o y : Nat)
    (R : List (LexT × Nat)) (i : Nat) (c0 : Ctx) (CS : List Ctx) (cx : Ctx) (al : Bool) (p1 p2 : Option Cls) :
    dispatch (f + 1) .afterValue
        { cfgQ a q .afterValue r ((.litB, b) :: (.valB, b2) :: (.objB, o) :: (a.B, y) :: R) false i (c0 :: CS) cx al with
          finds := [.litE, .valE] } .rbrace p1 p2
      = .ok { cfgQ a q a.prefixSt r ((.litB, b) :: (.valB, b2) :: (.objB, o) :: (a.B, y) :: R) false i CS c0 al with
          finds := [.litE, .valE, .objE] } := by
  cases a <;> simp [Ann.isAnn] at ha <;> (unfold dispatch; rfl)

theorem aobj_rbraceQ (f : Nat) (q : Bool) (a : Ann) (ha : a.isAnn = true) (st : St)
    (h : keySt st = true ∨ st = .afterValue) (r : List St) (o y : Nat)
    (R : List (LexT × Nat)) (i : Nat) (c0 : Ctx) (CS : List Ctx) (cx : Ctx) (al : Bool) (p1 p2 : Option Cls) :
    dispatch (f + 1) st (cfgQ a q st r ((.objB, o) :: (a.B, y) :: R) false i (c0 :: CS) cx al) .rbrace p1 p2
      = .ok { cfgQ a q a.prefixSt r ((.objB, o) :: (a.B, y) :: R) false i CS c0 al with finds := [.objE] } := by
  rcases h with h | rfl
  · cases a <;> simp [Ann.isAnn] at ha <;> cases st <;> simp [keySt] at h <;>
      (unfold dispatch; unfold beginAnnKeyOrEmpty; rfl)
  · cases a <;> simp [Ann.isAnn] at ha <;> (unfold dispatch; rfl)

/-! ### behind the rule object -/

theorem inlpre_nlQ (f : Nat) (q : Bool) (r0 : St) (rs : List St) (y : Nat)
    (i : Nat) (CS : List Ctx) (cx : Ctx) (al : Bool) (p1 p2 : Option Cls) :
    dispatch (f + 1) .inlTxtPrefix (cfgQ .inline q .inlTxtPrefix (r0 :: rs) [(.inlAnnB, y)] false i CS cx al) .nl p1 p2
      = .ok { cfgQ .none q r0 rs [(.inlAnnB, y)] false i CS cx al with finds := [.inlAnnE, .newLine] } := by
  unfold dispatch; rfl

theorem mlpre_starQ (f : Nat) (q : Bool) (r : List St)
    (K : List (LexT × Nat)) (i : Nat) (CS : List Ctx) (cx : Ctx) (al : Bool) (p1 p2 : Option Cls) :
    dispatch (f + 1) .mlTxtPrefix (cfgQ .multi q .mlTxtPrefix r K false i CS cx al) .star p1 p2
      = .ok (cfgQ .multi q .mlAnnEnd r K false i CS cx al) := by
  unfold dispatch; rfl

theorem mlend_slashQ (f : Nat) (q : Bool) (r0 : St) (rs : List St)
    (K : List (LexT × Nat)) (i : Nat) (CS : List Ctx) (cx : Ctx) (al : Bool) (p1 p2 : Option Cls) :
    dispatch (f + 1) .mlAnnEnd (cfgQ .multi q .mlAnnEnd (r0 :: rs) K false i CS cx al) .slash p1 p2
      = .ok { cfgQ .none q r0 rs K false i CS cx al with finds := [.mlAnnE] } := by
  unfold dispatch; rfl

/-- white space behind the annotation -/
theorem top_spQ (f : Nat) (q : Bool) (c : Cls) (hc : c.isSpTab = true)
    (K : List (LexT × Nat)) (i : Nat) (CS : List Ctx) (cx : Ctx) (al : Bool) (p1 p2 : Option Cls) :
    dispatch (f + 1) .endTop (cfgQ .none q .endTop [] K false i CS cx al) c p1 p2
      = .ok (cfgQ .none q .endTop [] K false i CS cx al) := by
  cases c <;> simp [Cls.isSpTab] at hc <;> (unfold dispatch; rfl)

theorem top_nlQ (f : Nat) (q : Bool)
    (K : List (LexT × Nat)) (i : Nat) (CS : List Ctx) (cx : Ctx) (al : Bool) (p1 p2 : Option Cls) :
    dispatch (f + 1) .endTop (cfgQ .none q .endTop [] K false i CS cx al) .nl p1 p2
      = .ok { cfgQ .none q .endTop [] K false i CS cx al with finds := [.newLine] } := by
  unfold dispatch; rfl

end SchemaScan
