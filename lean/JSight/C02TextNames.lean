import JSight.C02TextThm
/-!
C02 at TEXT level, second part — rule names as tags. The stages compare the (unquoted) rule name against fixed byte
strings in chains of `if`s, each stage in its own order; `tagOf` reads the name once, `eq_*` rewrite every comparison.
-/
namespace C02T
open Compile

theorem sbx_min : sb "min" = [109, 105, 110] := by decide +kernel
theorem sbx_max : sb "max" = [109, 97, 120] := by decide +kernel
theorem sbx_exclusiveMinimum : sb "exclusiveMinimum" = [101, 120, 99, 108, 117, 115, 105, 118, 101, 77, 105, 110, 105, 109, 117, 109] := by decide +kernel
theorem sbx_exclusiveMaximum : sb "exclusiveMaximum" = [101, 120, 99, 108, 117, 115, 105, 118, 101, 77, 97, 120, 105, 109, 117, 109] := by decide +kernel
theorem sbx_nullable : sb "nullable" = [110, 117, 108, 108, 97, 98, 108, 101] := by decide +kernel
theorem sbx_const : sb "const" = [99, 111, 110, 115, 116] := by decide +kernel
theorem sbx_minLength : sb "minLength" = [109, 105, 110, 76, 101, 110, 103, 116, 104] := by decide +kernel
theorem sbx_maxLength : sb "maxLength" = [109, 97, 120, 76, 101, 110, 103, 116, 104] := by decide +kernel
theorem sbx_precision : sb "precision" = [112, 114, 101, 99, 105, 115, 105, 111, 110] := by decide +kernel
theorem sbx_type : sb "type" = [116, 121, 112, 101] := by decide +kernel
theorem sbx_enum : sb "enum" = [101, 110, 117, 109] := by decide +kernel
theorem sbx_or : sb "or" = [111, 114] := by decide +kernel
theorem sbx_allOf : sb "allOf" = [97, 108, 108, 79, 102] := by decide +kernel
theorem sbx_regex : sb "regex" = [114, 101, 103, 101, 120] := by decide +kernel
theorem sbx_minItems : sb "minItems" = [109, 105, 110, 73, 116, 101, 109, 115] := by decide +kernel
theorem sbx_maxItems : sb "maxItems" = [109, 97, 120, 73, 116, 101, 109, 115] := by decide +kernel
theorem sbx_optional : sb "optional" = [111, 112, 116, 105, 111, 110, 97, 108] := by decide +kernel
theorem sbx_additionalProperties : sb "additionalProperties" = [97, 100, 100, 105, 116, 105, 111, 110, 97, 108, 80, 114, 111, 112, 101, 114, 116, 105, 101, 115] := by decide +kernel

inductive Tag
  | min | max | exMin | exMax | nullable | const | minLength | maxLength | precision | type | enum
  | or | allOf | regex | minItems | maxItems | optional | addProps | other
  deriving DecidableEq, Repr

def tagOf (n : Bytes) : Tag :=
  if n == sb "min" then .min else if n == sb "max" then .max
  else if n == sb "exclusiveMinimum" then .exMin else if n == sb "exclusiveMaximum" then .exMax
  else if n == sb "nullable" then .nullable else if n == sb "const" then .const
  else if n == sb "minLength" then .minLength else if n == sb "maxLength" then .maxLength
  else if n == sb "precision" then .precision else if n == sb "type" then .type else if n == sb "enum" then .enum
  else if n == sb "or" then .or else if n == sb "allOf" then .allOf else if n == sb "regex" then .regex
  else if n == sb "minItems" then .minItems else if n == sb "maxItems" then .maxItems
  else if n == sb "optional" then .optional else if n == sb "additionalProperties" then .addProps else .other

theorem tagOf_cases (n : Bytes) :
    (n = sb "min" ∧ tagOf n = .min) ∨
    (n = sb "max" ∧ tagOf n = .max) ∨
    (n = sb "exclusiveMinimum" ∧ tagOf n = .exMin) ∨
    (n = sb "exclusiveMaximum" ∧ tagOf n = .exMax) ∨
    (n = sb "nullable" ∧ tagOf n = .nullable) ∨
    (n = sb "const" ∧ tagOf n = .const) ∨
    (n = sb "minLength" ∧ tagOf n = .minLength) ∨
    (n = sb "maxLength" ∧ tagOf n = .maxLength) ∨
    (n = sb "precision" ∧ tagOf n = .precision) ∨
    (n = sb "type" ∧ tagOf n = .type) ∨
    (n = sb "enum" ∧ tagOf n = .enum) ∨
    (n = sb "or" ∧ tagOf n = .or) ∨
    (n = sb "allOf" ∧ tagOf n = .allOf) ∨
    (n = sb "regex" ∧ tagOf n = .regex) ∨
    (n = sb "minItems" ∧ tagOf n = .minItems) ∨
    (n = sb "maxItems" ∧ tagOf n = .maxItems) ∨
    (n = sb "optional" ∧ tagOf n = .optional) ∨
    (n = sb "additionalProperties" ∧ tagOf n = .addProps) ∨
    ((n ≠ sb "min" ∧ n ≠ sb "max" ∧ n ≠ sb "exclusiveMinimum" ∧ n ≠ sb "exclusiveMaximum" ∧ n ≠ sb "nullable" ∧ n ≠ sb "const" ∧ n ≠ sb "minLength" ∧ n ≠ sb "maxLength" ∧ n ≠ sb "precision" ∧ n ≠ sb "type" ∧ n ≠ sb "enum" ∧ n ≠ sb "or" ∧ n ≠ sb "allOf" ∧ n ≠ sb "regex" ∧ n ≠ sb "minItems" ∧ n ≠ sb "maxItems" ∧ n ≠ sb "optional" ∧ n ≠ sb "additionalProperties") ∧ tagOf n = .other) := by
  by_cases h0 : n = sb "min"
  · exact Or.inl ⟨h0, by subst h0; decide +kernel⟩
  refine Or.inr ?_
  by_cases h1 : n = sb "max"
  · exact Or.inl ⟨h1, by subst h1; decide +kernel⟩
  refine Or.inr ?_
  by_cases h2 : n = sb "exclusiveMinimum"
  · exact Or.inl ⟨h2, by subst h2; decide +kernel⟩
  refine Or.inr ?_
  by_cases h3 : n = sb "exclusiveMaximum"
  · exact Or.inl ⟨h3, by subst h3; decide +kernel⟩
  refine Or.inr ?_
  by_cases h4 : n = sb "nullable"
  · exact Or.inl ⟨h4, by subst h4; decide +kernel⟩
  refine Or.inr ?_
  by_cases h5 : n = sb "const"
  · exact Or.inl ⟨h5, by subst h5; decide +kernel⟩
  refine Or.inr ?_
  by_cases h6 : n = sb "minLength"
  · exact Or.inl ⟨h6, by subst h6; decide +kernel⟩
  refine Or.inr ?_
  by_cases h7 : n = sb "maxLength"
  · exact Or.inl ⟨h7, by subst h7; decide +kernel⟩
  refine Or.inr ?_
  by_cases h8 : n = sb "precision"
  · exact Or.inl ⟨h8, by subst h8; decide +kernel⟩
  refine Or.inr ?_
  by_cases h9 : n = sb "type"
  · exact Or.inl ⟨h9, by subst h9; decide +kernel⟩
  refine Or.inr ?_
  by_cases h10 : n = sb "enum"
  · exact Or.inl ⟨h10, by subst h10; decide +kernel⟩
  refine Or.inr ?_
  by_cases h11 : n = sb "or"
  · exact Or.inl ⟨h11, by subst h11; decide +kernel⟩
  refine Or.inr ?_
  by_cases h12 : n = sb "allOf"
  · exact Or.inl ⟨h12, by subst h12; decide +kernel⟩
  refine Or.inr ?_
  by_cases h13 : n = sb "regex"
  · exact Or.inl ⟨h13, by subst h13; decide +kernel⟩
  refine Or.inr ?_
  by_cases h14 : n = sb "minItems"
  · exact Or.inl ⟨h14, by subst h14; decide +kernel⟩
  refine Or.inr ?_
  by_cases h15 : n = sb "maxItems"
  · exact Or.inl ⟨h15, by subst h15; decide +kernel⟩
  refine Or.inr ?_
  by_cases h16 : n = sb "optional"
  · exact Or.inl ⟨h16, by subst h16; decide +kernel⟩
  refine Or.inr ?_
  by_cases h17 : n = sb "additionalProperties"
  · exact Or.inl ⟨h17, by subst h17; decide +kernel⟩
  refine Or.inr ?_
  refine ⟨⟨h0, h1, h2, h3, h4, h5, h6, h7, h8, h9, h10, h11, h12, h13, h14, h15, h16, h17⟩, ?_⟩
  unfold tagOf
  simp only [show (n == sb "min") = false from by simpa using h0, show (n == sb "max") = false from by simpa using h1, show (n == sb "exclusiveMinimum") = false from by simpa using h2, show (n == sb "exclusiveMaximum") = false from by simpa using h3, show (n == sb "nullable") = false from by simpa using h4, show (n == sb "const") = false from by simpa using h5, show (n == sb "minLength") = false from by simpa using h6, show (n == sb "maxLength") = false from by simpa using h7, show (n == sb "precision") = false from by simpa using h8, show (n == sb "type") = false from by simpa using h9, show (n == sb "enum") = false from by simpa using h10, show (n == sb "or") = false from by simpa using h11, show (n == sb "allOf") = false from by simpa using h12, show (n == sb "regex") = false from by simpa using h13, show (n == sb "minItems") = false from by simpa using h14, show (n == sb "maxItems") = false from by simpa using h15, show (n == sb "optional") = false from by simpa using h16, show (n == sb "additionalProperties") = false from by simpa using h17, Bool.false_eq_true, if_false]

theorem eq_min (n : Bytes) : (n == sb "min") = (tagOf n == .min) := by
  rcases tagOf_cases n with ⟨rfl, ht⟩ | ⟨rfl, ht⟩ | ⟨rfl, ht⟩ | ⟨rfl, ht⟩ | ⟨rfl, ht⟩ | ⟨rfl, ht⟩ | ⟨rfl, ht⟩ | ⟨rfl, ht⟩ | ⟨rfl, ht⟩ | ⟨rfl, ht⟩ | ⟨rfl, ht⟩ | ⟨rfl, ht⟩ | ⟨rfl, ht⟩ | ⟨rfl, ht⟩ | ⟨rfl, ht⟩ | ⟨rfl, ht⟩ | ⟨rfl, ht⟩ | ⟨rfl, ht⟩ | ⟨hn, ht⟩
  all_goals rw [ht]
  all_goals first | decide +kernel | (rw [show (n == sb "min") = false from by simpa using hn.1]; rfl)
theorem eq_max (n : Bytes) : (n == sb "max") = (tagOf n == .max) := by
  rcases tagOf_cases n with ⟨rfl, ht⟩ | ⟨rfl, ht⟩ | ⟨rfl, ht⟩ | ⟨rfl, ht⟩ | ⟨rfl, ht⟩ | ⟨rfl, ht⟩ | ⟨rfl, ht⟩ | ⟨rfl, ht⟩ | ⟨rfl, ht⟩ | ⟨rfl, ht⟩ | ⟨rfl, ht⟩ | ⟨rfl, ht⟩ | ⟨rfl, ht⟩ | ⟨rfl, ht⟩ | ⟨rfl, ht⟩ | ⟨rfl, ht⟩ | ⟨rfl, ht⟩ | ⟨rfl, ht⟩ | ⟨hn, ht⟩
  all_goals rw [ht]
  all_goals first | decide +kernel | (rw [show (n == sb "max") = false from by simpa using hn.2.1]; rfl)
theorem eq_exclusiveMinimum (n : Bytes) : (n == sb "exclusiveMinimum") = (tagOf n == .exMin) := by
  rcases tagOf_cases n with ⟨rfl, ht⟩ | ⟨rfl, ht⟩ | ⟨rfl, ht⟩ | ⟨rfl, ht⟩ | ⟨rfl, ht⟩ | ⟨rfl, ht⟩ | ⟨rfl, ht⟩ | ⟨rfl, ht⟩ | ⟨rfl, ht⟩ | ⟨rfl, ht⟩ | ⟨rfl, ht⟩ | ⟨rfl, ht⟩ | ⟨rfl, ht⟩ | ⟨rfl, ht⟩ | ⟨rfl, ht⟩ | ⟨rfl, ht⟩ | ⟨rfl, ht⟩ | ⟨rfl, ht⟩ | ⟨hn, ht⟩
  all_goals rw [ht]
  all_goals first | decide +kernel | (rw [show (n == sb "exclusiveMinimum") = false from by simpa using hn.2.2.1]; rfl)
theorem eq_exclusiveMaximum (n : Bytes) : (n == sb "exclusiveMaximum") = (tagOf n == .exMax) := by
  rcases tagOf_cases n with ⟨rfl, ht⟩ | ⟨rfl, ht⟩ | ⟨rfl, ht⟩ | ⟨rfl, ht⟩ | ⟨rfl, ht⟩ | ⟨rfl, ht⟩ | ⟨rfl, ht⟩ | ⟨rfl, ht⟩ | ⟨rfl, ht⟩ | ⟨rfl, ht⟩ | ⟨rfl, ht⟩ | ⟨rfl, ht⟩ | ⟨rfl, ht⟩ | ⟨rfl, ht⟩ | ⟨rfl, ht⟩ | ⟨rfl, ht⟩ | ⟨rfl, ht⟩ | ⟨rfl, ht⟩ | ⟨hn, ht⟩
  all_goals rw [ht]
  all_goals first | decide +kernel | (rw [show (n == sb "exclusiveMaximum") = false from by simpa using hn.2.2.2.1]; rfl)
theorem eq_nullable (n : Bytes) : (n == sb "nullable") = (tagOf n == .nullable) := by
  rcases tagOf_cases n with ⟨rfl, ht⟩ | ⟨rfl, ht⟩ | ⟨rfl, ht⟩ | ⟨rfl, ht⟩ | ⟨rfl, ht⟩ | ⟨rfl, ht⟩ | ⟨rfl, ht⟩ | ⟨rfl, ht⟩ | ⟨rfl, ht⟩ | ⟨rfl, ht⟩ | ⟨rfl, ht⟩ | ⟨rfl, ht⟩ | ⟨rfl, ht⟩ | ⟨rfl, ht⟩ | ⟨rfl, ht⟩ | ⟨rfl, ht⟩ | ⟨rfl, ht⟩ | ⟨rfl, ht⟩ | ⟨hn, ht⟩
  all_goals rw [ht]
  all_goals first | decide +kernel | (rw [show (n == sb "nullable") = false from by simpa using hn.2.2.2.2.1]; rfl)
theorem eq_const (n : Bytes) : (n == sb "const") = (tagOf n == .const) := by
  rcases tagOf_cases n with ⟨rfl, ht⟩ | ⟨rfl, ht⟩ | ⟨rfl, ht⟩ | ⟨rfl, ht⟩ | ⟨rfl, ht⟩ | ⟨rfl, ht⟩ | ⟨rfl, ht⟩ | ⟨rfl, ht⟩ | ⟨rfl, ht⟩ | ⟨rfl, ht⟩ | ⟨rfl, ht⟩ | ⟨rfl, ht⟩ | ⟨rfl, ht⟩ | ⟨rfl, ht⟩ | ⟨rfl, ht⟩ | ⟨rfl, ht⟩ | ⟨rfl, ht⟩ | ⟨rfl, ht⟩ | ⟨hn, ht⟩
  all_goals rw [ht]
  all_goals first | decide +kernel | (rw [show (n == sb "const") = false from by simpa using hn.2.2.2.2.2.1]; rfl)
theorem eq_minLength (n : Bytes) : (n == sb "minLength") = (tagOf n == .minLength) := by
  rcases tagOf_cases n with ⟨rfl, ht⟩ | ⟨rfl, ht⟩ | ⟨rfl, ht⟩ | ⟨rfl, ht⟩ | ⟨rfl, ht⟩ | ⟨rfl, ht⟩ | ⟨rfl, ht⟩ | ⟨rfl, ht⟩ | ⟨rfl, ht⟩ | ⟨rfl, ht⟩ | ⟨rfl, ht⟩ | ⟨rfl, ht⟩ | ⟨rfl, ht⟩ | ⟨rfl, ht⟩ | ⟨rfl, ht⟩ | ⟨rfl, ht⟩ | ⟨rfl, ht⟩ | ⟨rfl, ht⟩ | ⟨hn, ht⟩
  all_goals rw [ht]
  all_goals first | decide +kernel | (rw [show (n == sb "minLength") = false from by simpa using hn.2.2.2.2.2.2.1]; rfl)
theorem eq_maxLength (n : Bytes) : (n == sb "maxLength") = (tagOf n == .maxLength) := by
  rcases tagOf_cases n with ⟨rfl, ht⟩ | ⟨rfl, ht⟩ | ⟨rfl, ht⟩ | ⟨rfl, ht⟩ | ⟨rfl, ht⟩ | ⟨rfl, ht⟩ | ⟨rfl, ht⟩ | ⟨rfl, ht⟩ | ⟨rfl, ht⟩ | ⟨rfl, ht⟩ | ⟨rfl, ht⟩ | ⟨rfl, ht⟩ | ⟨rfl, ht⟩ | ⟨rfl, ht⟩ | ⟨rfl, ht⟩ | ⟨rfl, ht⟩ | ⟨rfl, ht⟩ | ⟨rfl, ht⟩ | ⟨hn, ht⟩
  all_goals rw [ht]
  all_goals first | decide +kernel | (rw [show (n == sb "maxLength") = false from by simpa using hn.2.2.2.2.2.2.2.1]; rfl)
theorem eq_precision (n : Bytes) : (n == sb "precision") = (tagOf n == .precision) := by
  rcases tagOf_cases n with ⟨rfl, ht⟩ | ⟨rfl, ht⟩ | ⟨rfl, ht⟩ | ⟨rfl, ht⟩ | ⟨rfl, ht⟩ | ⟨rfl, ht⟩ | ⟨rfl, ht⟩ | ⟨rfl, ht⟩ | ⟨rfl, ht⟩ | ⟨rfl, ht⟩ | ⟨rfl, ht⟩ | ⟨rfl, ht⟩ | ⟨rfl, ht⟩ | ⟨rfl, ht⟩ | ⟨rfl, ht⟩ | ⟨rfl, ht⟩ | ⟨rfl, ht⟩ | ⟨rfl, ht⟩ | ⟨hn, ht⟩
  all_goals rw [ht]
  all_goals first | decide +kernel | (rw [show (n == sb "precision") = false from by simpa using hn.2.2.2.2.2.2.2.2.1]; rfl)
theorem eq_type (n : Bytes) : (n == sb "type") = (tagOf n == .type) := by
  rcases tagOf_cases n with ⟨rfl, ht⟩ | ⟨rfl, ht⟩ | ⟨rfl, ht⟩ | ⟨rfl, ht⟩ | ⟨rfl, ht⟩ | ⟨rfl, ht⟩ | ⟨rfl, ht⟩ | ⟨rfl, ht⟩ | ⟨rfl, ht⟩ | ⟨rfl, ht⟩ | ⟨rfl, ht⟩ | ⟨rfl, ht⟩ | ⟨rfl, ht⟩ | ⟨rfl, ht⟩ | ⟨rfl, ht⟩ | ⟨rfl, ht⟩ | ⟨rfl, ht⟩ | ⟨rfl, ht⟩ | ⟨hn, ht⟩
  all_goals rw [ht]
  all_goals first | decide +kernel | (rw [show (n == sb "type") = false from by simpa using hn.2.2.2.2.2.2.2.2.2.1]; rfl)
theorem eq_enum (n : Bytes) : (n == sb "enum") = (tagOf n == .enum) := by
  rcases tagOf_cases n with ⟨rfl, ht⟩ | ⟨rfl, ht⟩ | ⟨rfl, ht⟩ | ⟨rfl, ht⟩ | ⟨rfl, ht⟩ | ⟨rfl, ht⟩ | ⟨rfl, ht⟩ | ⟨rfl, ht⟩ | ⟨rfl, ht⟩ | ⟨rfl, ht⟩ | ⟨rfl, ht⟩ | ⟨rfl, ht⟩ | ⟨rfl, ht⟩ | ⟨rfl, ht⟩ | ⟨rfl, ht⟩ | ⟨rfl, ht⟩ | ⟨rfl, ht⟩ | ⟨rfl, ht⟩ | ⟨hn, ht⟩
  all_goals rw [ht]
  all_goals first | decide +kernel | (rw [show (n == sb "enum") = false from by simpa using hn.2.2.2.2.2.2.2.2.2.2.1]; rfl)
theorem eq_or (n : Bytes) : (n == sb "or") = (tagOf n == .or) := by
  rcases tagOf_cases n with ⟨rfl, ht⟩ | ⟨rfl, ht⟩ | ⟨rfl, ht⟩ | ⟨rfl, ht⟩ | ⟨rfl, ht⟩ | ⟨rfl, ht⟩ | ⟨rfl, ht⟩ | ⟨rfl, ht⟩ | ⟨rfl, ht⟩ | ⟨rfl, ht⟩ | ⟨rfl, ht⟩ | ⟨rfl, ht⟩ | ⟨rfl, ht⟩ | ⟨rfl, ht⟩ | ⟨rfl, ht⟩ | ⟨rfl, ht⟩ | ⟨rfl, ht⟩ | ⟨rfl, ht⟩ | ⟨hn, ht⟩
  all_goals rw [ht]
  all_goals first | decide +kernel | (rw [show (n == sb "or") = false from by simpa using hn.2.2.2.2.2.2.2.2.2.2.2.1]; rfl)
theorem eq_allOf (n : Bytes) : (n == sb "allOf") = (tagOf n == .allOf) := by
  rcases tagOf_cases n with ⟨rfl, ht⟩ | ⟨rfl, ht⟩ | ⟨rfl, ht⟩ | ⟨rfl, ht⟩ | ⟨rfl, ht⟩ | ⟨rfl, ht⟩ | ⟨rfl, ht⟩ | ⟨rfl, ht⟩ | ⟨rfl, ht⟩ | ⟨rfl, ht⟩ | ⟨rfl, ht⟩ | ⟨rfl, ht⟩ | ⟨rfl, ht⟩ | ⟨rfl, ht⟩ | ⟨rfl, ht⟩ | ⟨rfl, ht⟩ | ⟨rfl, ht⟩ | ⟨rfl, ht⟩ | ⟨hn, ht⟩
  all_goals rw [ht]
  all_goals first | decide +kernel | (rw [show (n == sb "allOf") = false from by simpa using hn.2.2.2.2.2.2.2.2.2.2.2.2.1]; rfl)
theorem eq_regex (n : Bytes) : (n == sb "regex") = (tagOf n == .regex) := by
  rcases tagOf_cases n with ⟨rfl, ht⟩ | ⟨rfl, ht⟩ | ⟨rfl, ht⟩ | ⟨rfl, ht⟩ | ⟨rfl, ht⟩ | ⟨rfl, ht⟩ | ⟨rfl, ht⟩ | ⟨rfl, ht⟩ | ⟨rfl, ht⟩ | ⟨rfl, ht⟩ | ⟨rfl, ht⟩ | ⟨rfl, ht⟩ | ⟨rfl, ht⟩ | ⟨rfl, ht⟩ | ⟨rfl, ht⟩ | ⟨rfl, ht⟩ | ⟨rfl, ht⟩ | ⟨rfl, ht⟩ | ⟨hn, ht⟩
  all_goals rw [ht]
  all_goals first | decide +kernel | (rw [show (n == sb "regex") = false from by simpa using hn.2.2.2.2.2.2.2.2.2.2.2.2.2.1]; rfl)
theorem eq_minItems (n : Bytes) : (n == sb "minItems") = (tagOf n == .minItems) := by
  rcases tagOf_cases n with ⟨rfl, ht⟩ | ⟨rfl, ht⟩ | ⟨rfl, ht⟩ | ⟨rfl, ht⟩ | ⟨rfl, ht⟩ | ⟨rfl, ht⟩ | ⟨rfl, ht⟩ | ⟨rfl, ht⟩ | ⟨rfl, ht⟩ | ⟨rfl, ht⟩ | ⟨rfl, ht⟩ | ⟨rfl, ht⟩ | ⟨rfl, ht⟩ | ⟨rfl, ht⟩ | ⟨rfl, ht⟩ | ⟨rfl, ht⟩ | ⟨rfl, ht⟩ | ⟨rfl, ht⟩ | ⟨hn, ht⟩
  all_goals rw [ht]
  all_goals first | decide +kernel | (rw [show (n == sb "minItems") = false from by simpa using hn.2.2.2.2.2.2.2.2.2.2.2.2.2.2.1]; rfl)
theorem eq_maxItems (n : Bytes) : (n == sb "maxItems") = (tagOf n == .maxItems) := by
  rcases tagOf_cases n with ⟨rfl, ht⟩ | ⟨rfl, ht⟩ | ⟨rfl, ht⟩ | ⟨rfl, ht⟩ | ⟨rfl, ht⟩ | ⟨rfl, ht⟩ | ⟨rfl, ht⟩ | ⟨rfl, ht⟩ | ⟨rfl, ht⟩ | ⟨rfl, ht⟩ | ⟨rfl, ht⟩ | ⟨rfl, ht⟩ | ⟨rfl, ht⟩ | ⟨rfl, ht⟩ | ⟨rfl, ht⟩ | ⟨rfl, ht⟩ | ⟨rfl, ht⟩ | ⟨rfl, ht⟩ | ⟨hn, ht⟩
  all_goals rw [ht]
  all_goals first | decide +kernel | (rw [show (n == sb "maxItems") = false from by simpa using hn.2.2.2.2.2.2.2.2.2.2.2.2.2.2.2.1]; rfl)
theorem eq_optional (n : Bytes) : (n == sb "optional") = (tagOf n == .optional) := by
  rcases tagOf_cases n with ⟨rfl, ht⟩ | ⟨rfl, ht⟩ | ⟨rfl, ht⟩ | ⟨rfl, ht⟩ | ⟨rfl, ht⟩ | ⟨rfl, ht⟩ | ⟨rfl, ht⟩ | ⟨rfl, ht⟩ | ⟨rfl, ht⟩ | ⟨rfl, ht⟩ | ⟨rfl, ht⟩ | ⟨rfl, ht⟩ | ⟨rfl, ht⟩ | ⟨rfl, ht⟩ | ⟨rfl, ht⟩ | ⟨rfl, ht⟩ | ⟨rfl, ht⟩ | ⟨rfl, ht⟩ | ⟨hn, ht⟩
  all_goals rw [ht]
  all_goals first | decide +kernel | (rw [show (n == sb "optional") = false from by simpa using hn.2.2.2.2.2.2.2.2.2.2.2.2.2.2.2.2.1]; rfl)
theorem eq_additionalProperties (n : Bytes) : (n == sb "additionalProperties") = (tagOf n == .addProps) := by
  rcases tagOf_cases n with ⟨rfl, ht⟩ | ⟨rfl, ht⟩ | ⟨rfl, ht⟩ | ⟨rfl, ht⟩ | ⟨rfl, ht⟩ | ⟨rfl, ht⟩ | ⟨rfl, ht⟩ | ⟨rfl, ht⟩ | ⟨rfl, ht⟩ | ⟨rfl, ht⟩ | ⟨rfl, ht⟩ | ⟨rfl, ht⟩ | ⟨rfl, ht⟩ | ⟨rfl, ht⟩ | ⟨rfl, ht⟩ | ⟨rfl, ht⟩ | ⟨rfl, ht⟩ | ⟨rfl, ht⟩ | ⟨hn, ht⟩
  all_goals rw [ht]
  all_goals first | decide +kernel | (rw [show (n == sb "additionalProperties") = false from by simpa using hn.2.2.2.2.2.2.2.2.2.2.2.2.2.2.2.2.2]; rfl)

/-- rewrite every name comparison into a comparison of tags -/
macro "tag_rw" loc:(Lean.Parser.Tactic.location)? : tactic =>
  `(tactic| simp only [eq_min, eq_max, eq_exclusiveMinimum, eq_exclusiveMaximum, eq_nullable, eq_const, eq_minLength,
      eq_maxLength, eq_precision, eq_type, eq_enum, eq_or, eq_allOf, eq_regex, eq_minItems, eq_maxItems, eq_optional,
      eq_additionalProperties] $[$loc]?)

theorem tag_iff_of_eq {n x : Bytes} {t : Tag} (h : (n == x) = (tagOf n == t)) : tagOf n = t ↔ n = x := by
  constructor
  · intro ht; rw [ht] at h; simpa using h
  · intro hn; subst hn; simpa using h.symm

end C02T
