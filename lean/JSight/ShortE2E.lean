import JSight.LoaderSTree
import JSight.CompileShortcut
import JSight.E2ESchema
/-!
C09 / C16, schema TEXTS whose values are type shortcuts — scanner + loader + compile:

byte-level trees with layout whose leaves are scalars or type shortcuts (`SE.BST`), their text (`BST.render`), the
class-level tree of the scanner / loader theorems (`BST.cls`), and the compiled tree `SE.cnOf`: a scalar leaf is the
literal node of `E2E.cnOf`, a shortcut leaf is the `mixed` REFERENCE node carrying the names of its synthesised rule.
`SE.loadSchema_stree`: `E2E.loadSchema` (scanner model → loader model → constraint constructors → `CompileBasic`) on
the text yields exactly `cnOf`.
-/
namespace SE
open SchemaScan (Cls classify STree)
open SchemaScan.Len (Shortcut)
open Loader (Node slice keyText shortNode valOff)
open LoaderS (nodesOf nodesItems nodesMembers idxItems idxMembers keysMembers nextItem nextMember nodeCount
  countItems countMembers ruleOf)
open Lay (AtB AtB_append slice_tok keyText_tok)
open Compile

abbrev Bytes := List UInt8
abbrev Alt := Bytes × Bytes × Bytes

/-- a JSON value with its layout (blank bytes) whose leaves are scalars or type shortcuts
`@first (s1 | s2 @name)* sps` -/
inductive BST
  | scalar (tok : Bytes)
  | short (first : Bytes) (alts : List Alt) (sps : Bytes)
  | arr (w0 : Bytes) (items : List (Bytes × BST × Bytes))
  | obj (w0 : Bytes) (members : List (Bytes × Bytes × Bytes × Bytes × BST × Bytes))

abbrev BItem := Bytes × BST × Bytes
abbrev BMember := Bytes × Bytes × Bytes × Bytes × BST × Bytes

def altBytes : List Alt → Bytes
  | [] => []
  | (s1, s2, n) :: r => s1 ++ (124 :: (s2 ++ (64 :: (n ++ altBytes r))))

/-- the text of a shortcut without the blanks behind it -/
def scBytes (first : Bytes) (alts : List Alt) : Bytes := 64 :: (first ++ altBytes alts)

mutual
def BST.render : BST → Bytes
  | .scalar tok => tok
  | .short f as sps => scBytes f as ++ sps
  | .arr w0 its => 91 :: (w0 ++ renderItems its)
  | .obj w0 ms => 123 :: (w0 ++ renderMembers ms)
def renderItems : List BItem → Bytes
  | [] => [93]
  | (w1, v, w2) :: its => w1 ++ (v.render ++ (w2 ++ ((if its.isEmpty then [] else [44]) ++ renderItems its)))
def renderMembers : List BMember → Bytes
  | [] => [125]
  | (w1, k, w2, w3, v, w4) :: ms =>
    w1 ++ (k ++ (w2 ++ (58 :: (w3 ++ (v.render ++ (w4 ++ ((if ms.isEmpty then [] else [44]) ++ renderMembers ms)))))))
end

def clsB (w : Bytes) : List Cls := w.map classify

def clsAlts : List Alt → List (List Cls × List Cls × List Cls)
  | [] => []
  | (s1, s2, n) :: r => (clsB s1, clsB s2, clsB n) :: clsAlts r

def clsSc (first : Bytes) (alts : List Alt) : Shortcut := ⟨clsB first, clsAlts alts⟩

mutual
/-- the class-level tree of the scanner / loader theorems -/
def BST.cls : BST → STree
  | .scalar tok => .scalar (clsB tok)
  | .short f as sps => .short (clsSc f as) (clsB sps)
  | .arr w0 its => .arr (clsB w0) (clsItems its)
  | .obj w0 ms => .obj (clsB w0) (clsMembers ms)
def clsItems : List BItem → List SchemaScan.SItem
  | [] => []
  | (w1, v, w2) :: its => (clsB w1, v.cls, clsB w2) :: clsItems its
def clsMembers : List BMember → List SchemaScan.SMember
  | [] => []
  | (w1, k, w2, w3, v, w4) :: ms => (clsB w1, clsB k, clsB w2, clsB w3, v.cls, clsB w4) :: clsMembers ms
end

/-! ### rendering on bytes and on classes -/

theorem clsItems_isEmpty : (its : List BItem) → (clsItems its).isEmpty = its.isEmpty
  | [] => rfl
  | (_, _, _) :: _ => rfl

theorem clsMembers_isEmpty : (ms : List BMember) → (clsMembers ms).isEmpty = ms.isEmpty
  | [] => rfl
  | (_, _, _, _, _, _) :: _ => rfl

theorem clsAlts_isEmpty : (as : List Alt) → (clsAlts as).isEmpty = as.isEmpty
  | [] => rfl
  | (_, _, _) :: _ => rfl

theorem altBytes_cls : (as : List Alt) → (altBytes as).map classify = SchemaScan.Len.renderAlts (clsAlts as)
  | [] => rfl
  | (s1, s2, n) :: r => by
    simp only [altBytes, clsAlts, SchemaScan.Len.renderAlts, List.map_append, List.map_cons, altBytes_cls r, clsB]
    rfl

theorem scBytes_cls (f : Bytes) (as : List Alt) : (scBytes f as).map classify = (clsSc f as).render := by
  simp only [scBytes, clsSc, Shortcut.render, List.map_cons, List.map_append, altBytes_cls, clsB]
  rfl

mutual
theorem render_cls : (t : BST) → t.render.map classify = t.cls.render
  | .scalar tok => by simp [BST.render, BST.cls, STree.render, clsB]
  | .short f as sps => by simp [BST.render, BST.cls, STree.render, scBytes_cls, clsB]
  | .arr w0 its => by
    simp only [BST.render, BST.cls, STree.render, List.map_cons, List.map_append, renderItems_cls its, clsB]
    rfl
  | .obj w0 ms => by
    simp only [BST.render, BST.cls, STree.render, List.map_cons, List.map_append, renderMembers_cls ms, clsB]
    rfl
theorem renderItems_cls : (its : List BItem) → (renderItems its).map classify = SchemaScan.sRenderItems (clsItems its)
  | [] => rfl
  | (w1, v, w2) :: its => by
    simp only [renderItems, clsItems, SchemaScan.sRenderItems, List.map_append, render_cls v, renderItems_cls its, clsB,
      clsItems_isEmpty]
    cases its <;> rfl
theorem renderMembers_cls : (ms : List BMember) →
    (renderMembers ms).map classify = SchemaScan.sRenderMembers (clsMembers ms)
  | [] => rfl
  | (w1, k, w2, w3, v, w4) :: ms => by
    simp only [renderMembers, clsMembers, SchemaScan.sRenderMembers, List.map_append, List.map_cons, render_cls v,
      renderMembers_cls ms, clsB, clsMembers_isEmpty]
    cases ms <;> rfl
end

theorem render_length (t : BST) : t.cls.render.length = t.render.length := by
  rw [← render_cls, List.length_map]

theorem clsB_length (w : Bytes) : (clsB w).length = w.length := by simp [clsB]

theorem nextItem_eq (o : Nat) (w1 : Bytes) (v : BST) (w2 : Bytes) (its : List BItem) :
    nextItem o (clsB w1) v.cls (clsB w2) (clsItems its)
      = o + w1.length + v.render.length + w2.length + (if its.isEmpty then 0 else 1) := by
  simp only [nextItem, clsB_length, render_length, clsItems_isEmpty]

theorem valOff_eq (o : Nat) (w1 k w2 w3 : Bytes) :
    valOff o (clsB w1) (clsB k) (clsB w2) (clsB w3) = o + w1.length + k.length + w2.length + 1 + w3.length := by
  simp only [valOff, clsB_length]

theorem nextMember_eq (o : Nat) (w1 k w2 w3 : Bytes) (v : BST) (w4 : Bytes) (ms : List BMember) :
    nextMember o (clsB w1) (clsB k) (clsB w2) (clsB w3) v.cls (clsB w4) (clsMembers ms)
      = o + w1.length + k.length + w2.length + 1 + w3.length + v.render.length + w4.length +
        (if ms.isEmpty then 0 else 1) := by
  simp only [nextMember, valOff_eq, clsB_length, render_length, clsMembers_isEmpty]

theorem AtB_items {src : Array UInt8} {o : Nat} {w1 : Bytes} {v : BST} {w2 : Bytes} {its : List BItem}
    (h : AtB src o (renderItems ((w1, v, w2) :: its))) :
    AtB src (o + w1.length) v.render ∧
      AtB src (o + w1.length + v.render.length + w2.length + (if its.isEmpty then 0 else 1)) (renderItems its) := by
  simp only [renderItems] at h
  rw [AtB_append, AtB_append, AtB_append, AtB_append] at h
  obtain ⟨_, hv, _, _, hr⟩ := h
  refine ⟨hv, ?_⟩
  cases its with
  | nil => simpa [Nat.add_assoc] using hr
  | cons it its' => simpa [Nat.add_assoc] using hr

theorem AtB_members {src : Array UInt8} {o : Nat} {w1 k w2 w3 : Bytes} {v : BST}
    {w4 : Bytes} {ms : List BMember} (h : AtB src o (renderMembers ((w1, k, w2, w3, v, w4) :: ms))) :
    AtB src (o + w1.length) k ∧
      AtB src (o + w1.length + k.length + w2.length + 1 + w3.length) v.render ∧
      AtB src (o + w1.length + k.length + w2.length + 1 + w3.length + v.render.length +
        w4.length + (if ms.isEmpty then 0 else 1)) (renderMembers ms) := by
  simp only [renderMembers] at h
  rw [AtB_append, AtB_append, AtB_append] at h
  obtain ⟨_, hk, _, h⟩ := h
  obtain ⟨_, h⟩ := h
  rw [AtB_append, AtB_append, AtB_append, AtB_append] at h
  obtain ⟨_, hv, _, _, hr⟩ := h
  refine ⟨hk, ?_, ?_⟩
  · simpa [Nat.add_assoc] using hv
  · cases ms with
    | nil => simpa [Nat.add_assoc] using hr
    | cons m ms' => simpa [Nat.add_assoc] using hr

/-! ### validity, the compiled tree -/

/-- the names of a shortcut as the compiler reads them from the synthesised rule -/
def namesOf (f : Bytes) (as : List Alt) (sps : Bytes) : List String :=
  shortNames (!as.isEmpty) (Loader.trimSpaces (scBytes f as ++ sps))

/-- the byte-level side of a shortcut: `|` occurs exactly when there are alternatives, a single name is a user type
name, and alternatives give at least two names (all decidable) -/
def shortOK (f : Bytes) (as : List Alt) (sps : Bytes) : Bool :=
  (Loader.hasPipe (scBytes f as ++ sps) == !as.isEmpty) &&
    ((!as.isEmpty || isUserTypeName (unq (Loader.trimSpaces (scBytes f as ++ sps)))) &&
      ((!as.isEmpty) == decide (2 ≤ (namesOf f as sps).length)))

mutual
/-- decidable byte-level conditions: scalars whose kind can be guessed, `shortOK` for the shortcuts -/
def BST.sideOK : BST → Bool
  | .scalar tok => (RulesF.kindOfTok tok).isSome
  | .short f as sps => shortOK f as sps
  | .arr _ its => sideItems its
  | .obj _ ms => sideMembers ms
def sideItems : List BItem → Bool
  | [] => true
  | (_, v, _) :: its => v.sideOK && sideItems its
def sideMembers : List BMember → Bool
  | [] => true
  | (_, _, _, _, v, _) :: ms => v.sideOK && sideMembers ms
end

def keysB : List BMember → List (Bytes × Bool)
  | [] => []
  | (_, k, _, _, _, _) :: ms => (Unquote.unquote k, false) :: keysB ms

mutual
/-- the keys of every object are pairwise distinct after decoding -/
def BST.KeysNodup : BST → Prop
  | .scalar _ => True
  | .short _ _ _ => True
  | .arr _ its => NodupItems its
  | .obj _ ms => (keysB ms).Nodup ∧ NodupMembers ms
def NodupItems : List BItem → Prop
  | [] => True
  | (_, v, _) :: its => v.KeysNodup ∧ NodupItems its
def NodupMembers : List BMember → Prop
  | [] => True
  | (_, _, _, _, v, _) :: ms => v.KeysNodup ∧ NodupMembers ms
end

mutual
/-- the compiled tree -/
def cnOf (opt : Bool) : BST → CN
  | .scalar tok => .lit { kind := E2E.kindOf tok, ex := tok, nul := false, rules := [] } false
  | .short f as sps => .ref (namesOf f as sps) false .mixed none (!as.isEmpty)
  | .arr _ its => .arr (cnItems opt its) false false
  | .obj _ ms => .obj (cnMembers opt ms) .absent false false
def cnItems (opt : Bool) : List BItem → List CN
  | [] => []
  | (_, v, _) :: its => cnOf opt v :: cnItems opt its
def cnMembers (opt : Bool) : List BMember → List (String × Bool × Bool × Bool × CN)
  | [] => []
  | (_, k, _, _, v, _) :: ms => (E2E.keyOf k, false, !opt, false, cnOf opt v) :: cnMembers opt ms
end

end SE
