import JSight.DocCursor
/-!
The fuel of `checkLoop` / `lenLoop` suffices: a control step finds at most three lexemes, so
`7 * (bytes left) + 2 * |finds| + |stack|` decreases with every lexeme `Scn.next` delivers.
-/
namespace DocCursor
open JsonScan

theorem endTopStep_len {a u : Bool} {acc : List LexT} {c : Cls} {r : St × Bool × List LexT}
    (h : endTopStep a u acc c = .ok r) : r.2.2.length ≤ acc.length + 1 := by
  cases c <;> simp only [endTopStep] at h <;> (try split at h) <;>
    first
    | (cases h; simp)
    | cases h

theorem afterKeyStep_len {u : Bool} {acc : List LexT} {c : Cls} {r : St × Bool × List LexT}
    (h : afterKeyStep u acc c = .ok r) : r.2.2.length ≤ acc.length := by
  cases c <;> simp only [afterKeyStep] at h <;>
    first
    | (cases h; simp)
    | cases h

theorem afterValueStep_len {u : Bool} {acc : List LexT} {c : Cls} {r : St × Bool × List LexT}
    (h : afterValueStep u acc c = .ok r) : r.2.2.length ≤ acc.length + 1 := by
  cases c <;> simp only [afterValueStep] at h <;>
    first
    | (cases h; simp)
    | cases h

theorem afterItemStep_len {n : Nat} {u : Bool} {acc : List LexT} {c : Cls} {r : St × Bool × List LexT}
    (h : afterItemStep n u acc c = .ok r) : r.2.2.length ≤ acc.length + 1 := by
  cases c <;> simp only [afterItemStep, arrayEnd] at h <;>
    first
    | (cases h; simp)
    | cases h

theorem endValueStep_len {a u : Bool} {stack : List LexT} {c : Cls} {r : St × Bool × List LexT}
    (h : endValueStep a stack u c = .ok r) : r.2.2.length ≤ 3 := by
  unfold endValueStep at h
  split at h
  · exact Nat.le_trans (endTopStep_len h) (by simp)
  · split at h
    · exact Nat.le_trans (endTopStep_len h) (by simp)
    · exact Nat.le_trans (afterKeyStep_len h) (by simp)
    · exact Nat.le_trans (afterValueStep_len h) (by simp)
    · exact Nat.le_trans (afterItemStep_len h) (by simp)
    · cases h
  · exact Nat.le_trans (afterKeyStep_len h) (by simp)
  · exact Nat.le_trans (afterValueStep_len h) (by simp)
  · exact Nat.le_trans (afterItemStep_len h) (by simp)
  · cases h

theorem step_len {a u : Bool} {st : St} {stack : List LexT} {c : Cls} {r : St × Bool × List LexT}
    (h : step a st stack u c = .ok r) : r.2.2.length ≤ 3 := by
  cases st <;> simp only [step] at h
  all_goals first
    | exact endValueStep_len h
    | exact Nat.le_trans (afterKeyStep_len h) (by simp)
    | exact Nat.le_trans (afterValueStep_len h) (by simp)
    | exact Nat.le_trans (afterItemStep_len h) (by simp)
    | exact Nat.le_trans (endTopStep_len h) (by simp)
    | (cases c <;> simp [beginValue, withPrefix, bind, Except.bind, pure, Except.pure, arrayEnd, Cls.isHex] at h <;>
        first
        | exact endValueStep_len h
        | (obtain ⟨_, _, h3⟩ := h; subst h3; simp)
        | (subst h; simp)
        | (cases h; simp))

/-- the measure -/
def mu (n : Nat) (s : Scn) : Nat := 7 * (n - s.index) + 2 * s.finds.length + s.stack.length

theorem processFound_shape (s : Scn) (f : LexT) :
    (processFound s f).2.index = s.index ∧ (processFound s f).2.finds = s.finds ∧
      (processFound s f).2.stack.length ≤ s.stack.length + 1 := by
  unfold processFound
  simp only
  split
  · simp
  · split
    · simp
    · split
      · simp
      · rename_i hs
        split
        · simp [hs]; omega
        · split <;> (simp [hs]; omega)

theorem processFound_crash {s : Scn} {f : LexT} {w : String} (h : (processFound s f).1 = .crash w) : w ≠ "fuel" := by
  unfold processFound at h
  simp only at h
  split at h
  · cases h
  · split at h
    · cases h
    · split at h
      · cases h; decide
      · split at h
        · cases h
        · split at h
          · cases h
          · cases h; decide

theorem mu_processFound (n : Nat) (s : Scn) (f : LexT) :
    mu n (processFound s f).2 ≤ mu n s + 1 := by
  have h := processFound_shape s f
  unfold mu
  rw [h.1, h.2.1]
  have := h.2.2
  omega

theorem atEnd_lex {n : Nat} {s : Scn} {e : Ev} (h : (atEnd n s).1 = .lex e) : mu n (atEnd n s).2 < mu n s := by
  unfold atEnd at h ⊢
  split at h
  · cases h
  · rename_i p b rest hs
    simp only at h ⊢
    split at h
    · rename_i hc
      rw [if_pos hc]
      have hp : p = .litB := by
        cases p <;> simp at hc <;> rfl
      subst hp
      have e1 : processFound { s with index := s.index + 1 } .litE =
          (.lex ⟨.litE, b, s.index + 1 - 1 - 1⟩, { s with index := s.index + 1, stack := rest }) := by
        simp [processFound, hs, LexT.isOpening, pairs]
      rw [e1]
      simp only [mu, hs, List.length_cons]
      omega
    · cases h

theorem atEnd_crash {n : Nat} {s : Scn} {w : String} (h : (atEnd n s).1 = .crash w) : w ≠ "fuel" := by
  unfold atEnd at h
  split at h
  · cases h
  · simp only at h
    split at h
    · exact processFound_crash h
    · cases h

theorem scanLoop_lex (cls : List Cls) {e : Ev} (fuel : Nat) : ∀ s : Scn, s.finds = [] →
    (scanLoop cls fuel s).1 = .lex e → mu cls.length (scanLoop cls fuel s).2 < mu cls.length s := by
  induction fuel with
  | zero => intro s _ h; simp only [scanLoop] at h ⊢; exact atEnd_lex h
  | succ f ih =>
    intro s hf h
    simp only [scanLoop] at h ⊢
    split at h
    · exact atEnd_lex h
    · rename_i c hc
      have hlt : s.index < cls.length := by
        have := (List.getElem?_eq_some_iff.mp hc).1
        exact this
      split at h
      · cases h
      · rename_i st' unf' fs hst
        have h3 : fs.length ≤ 3 := step_len hst
        split at h
        · have := ih _ (by simpa using hf) h
          refine Nat.lt_trans this ?_
          simp only [mu, hf, List.length_nil]
          omega
        · rename_i f0 rest
          have hm := mu_processFound cls.length
            { index := s.index + 1, st := st', unf := unf', finds := rest, stack := s.stack, allow := s.allow } f0
          simp only [List.length_cons] at h3
          refine Nat.lt_of_le_of_lt hm ?_
          simp only [mu, hf, List.length_nil]
          omega

theorem scanLoop_crash (cls : List Cls) {w : String} (fuel : Nat) : ∀ s : Scn,
    (scanLoop cls fuel s).1 = .crash w → w ≠ "fuel" := by
  induction fuel with
  | zero => intro s h; simp only [scanLoop] at h; exact atEnd_crash h
  | succ f ih =>
    intro s h
    simp only [scanLoop] at h
    split at h
    · exact atEnd_crash h
    · split at h
      · cases h
      · split at h
        · exact ih _ h
        · exact processFound_crash h

theorem next_lex {cls : List Cls} {s : Scn} {e : Ev} (h : (s.next cls).1 = .lex e) :
    mu cls.length (s.next cls).2 < mu cls.length s := by
  unfold Scn.next at h ⊢
  split at h
  · rename_i f rest hf
    have hm := mu_processFound cls.length { s with finds := rest } f
    refine Nat.lt_of_le_of_lt hm ?_
    simp only [mu, hf, List.length_cons]
    omega
  · rename_i hf
    exact scanLoop_lex cls _ s hf h

theorem next_crash {cls : List Cls} {s : Scn} {w : String} (h : (s.next cls).1 = .crash w) : w ≠ "fuel" := by
  unfold Scn.next at h
  split at h
  · exact processFound_crash h
  · exact scanLoop_crash cls _ s h

/-- the fuel branch of `checkLoop` is not taken -/
theorem checkLoop_fuel (cls : List Cls) (fuel : Nat) : ∀ (s : Scn) (seen : Bool), mu cls.length s < fuel →
    checkLoop cls fuel s seen ≠ .crash "fuel" := by
  induction fuel with
  | zero => intro s seen h; omega
  | succ f ih =>
    intro s seen h
    simp only [checkLoop]
    split
    · rename_i e s' hn
      have h1 : (s.next cls).1 = .lex e := by rw [hn]
      have h2 := next_lex h1
      rw [hn] at h2
      exact ih s' true (by simp only at h2; omega)
    · split <;> simp
    · split <;> simp
    · simp
    · rename_i w s' hn
      have h1 : (s.next cls).1 = .crash w := by rw [hn]
      have := next_crash h1
      intro hc
      cases hc
      exact this rfl

theorem lenLoop_fuel (cls : List Cls) (fuel : Nat) : ∀ (s : Scn) (len : Nat), mu cls.length s < fuel →
    lenLoop cls fuel s len ≠ .crash "fuel" := by
  induction fuel with
  | zero => intro s len h; omega
  | succ f ih =>
    intro s len h
    simp only [lenLoop]
    split
    · rename_i e s' hn
      have h1 : (s.next cls).1 = .lex e := by rw [hn]
      have h2 := next_lex h1
      rw [hn] at h2
      exact ih s' _ (by simp only at h2; omega)
    · simp
    · simp
    · simp
    · rename_i w s' hn
      have h1 : (s.next cls).1 = .crash w := by rw [hn]
      have := next_crash h1
      intro hc
      cases hc
      exact this rfl

theorem checkText_fuel (t : List UInt8) (o : Bool) : checkText t o ≠ .crash "fuel" := by
  show checkLoop (clsOf t) (fuelOf t) { allow := o } false ≠ _
  apply checkLoop_fuel
  simp [mu, clsOf, fuelOf]

theorem lenText_fuel (t : List UInt8) (o : Bool) : lenText t o ≠ .crash "fuel" := by
  have h : lenLoop (clsOf t) (fuelOf t) { allow := o } 0 ≠ .crash "fuel" := by
    apply lenLoop_fuel
    simp [mu, clsOf, fuelOf]
  show (match lenLoop (clsOf t) (fuelOf t) { allow := o } 0 with
      | .ok n => LenRes.ok (trimBlank t.toArray n)
      | r => r) ≠ _
  split
  · simp
  · exact h

end DocCursor
