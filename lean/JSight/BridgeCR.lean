import JSight.Compile
import JSight.CheckRules
/-!
# Bridge (A)∩(B): `Compile` (constraint creation + `CompileBasic`, property C01) and `CR.checkRules` (property C08)
on ONE annotated node

Both modules model the same piece of the library — what happens to the rules of one annotated node between the
annotation text and the end of `checkCompatibilityOfConstraints` — independently, each tied to the code by its own
differential run. This file holds the definitions both the theorem (`BridgeCRThm.lean`, statement in
`Props/C08.lean`: `C08_models_agree`) and the run-time bridge (`Driver/Bridge.lean`, harness `bridge-models`) use:

* `aNode` — (A) restricted to one node of the loader's table: `Compile.createRules` on its rules (constraint
  constructors + `AddConstraint`, in text order), `Compile.jtOf`, `Compile.basic` (`compileNode` without the
  recursion), then the kind-compatibility stage of `Compile.checkNode` on the node that `compileNode` builds
  (`bad` ⇒ 1117; the flag is dropped where `compileNode` drops it: a node with a types list or with `any`);
* `crNodeOf` — the translation of (A)'s node (`Compile.RNode`: kind, value token, rules with their value TEXT) and
  its position (`isProp`) into (B)'s `CR.Node` (kind, rules with value TREES): a scalar rule's text becomes the literal
  token, the text of `or` / `enum` is read with the JSON scanner model exactly as (A) reads it (`Compile.scalarItems`)
  and becomes the array of its literals, the synthesised rule of a type shortcut becomes the node kind;
* `common` — the class of nodes BOTH models express (decidable, syntactic): see its doc comment.
-/
namespace BridgeCR
open Compile

abbrev Bytes := List UInt8

/-! ### (A) on one node -/

/-- (A) on one node: creation, `compileNode`'s own steps, the compatibility stage of the checker -/
def aNode (n : RNode) (isProp : Bool) : Except Err Unit :=
  match createRules n.kind [] n.rules with
  | .error e => .error e
  | .ok () =>
    match jtOf n with
    | .error e => .error e
    | .ok jt =>
      match basic n jt isProp n.children.length with
      | .error e => .error e
      | .ok b => if b.names.isNone && !b.any && b.bad then .error (.code 1117 0) else .ok ()

/-- outcome reduced to what both models state: `none` = accepted, `some c` = first error code -/
def codeA : Except Err Unit → Option Nat
  | .ok _ => none
  | .error (.code c _) => some c
  | .error (.unsupported _) => none

def isUnsupported : Except Err Unit → Bool
  | .error (.unsupported _) => true
  | _ => false

def codeB : Except CR.Code Unit → Option Nat
  | .ok _ => none
  | .error c => some c

/-! ### the translation -/

def kindOfLit : Rules.Kind → CR.NKind
  | .i => .integer | .f => .float | .s => .string | .b => .boolean | .n => .null

/-- the node kind of (B): for a type shortcut the synthesised first rule tells which one -/
def nkindOf (n : RNode) : Option CR.NKind :=
  match n.kind with
  | .obj => some (.object n.children.length)
  | .arr => some (.array n.children.length)
  | .lit => (n.value.bind RulesF.kindOfTok).map kindOfLit
  | .mixed =>
    match n.rules with
    | r :: _ =>
      if r.gen && r.name == sb "type" then some (.typeRef (r.val.getD []))
      else if r.gen && r.name == sb "or" then
        some (.orShortcut ((splitPipe (r.val.getD [])).map fun b => b.head? == some 64))
      else none
    | [] => none

/-- the value tree of a rule: `or` / `enum` are arrays of literals (read as (A) reads them), anything else the token -/
def valOf (r : Rule) : CR.Val :=
  if r.name == sb "or" || r.name == sb "enum" then
    match r.val.bind scalarItems with
    | some items => .arr (items.map .lit)
    | none => .arr []
  else .lit (r.val.getD [])

def ruleOf (r : Rule) : CR.Rule := (r.name, valOf r)

/-- the rules as written (the synthesised rule of a type shortcut is part of the KIND in (B)) -/
def manual (n : RNode) : List Rule := n.rules.filter fun r => !r.gen

/-- (A)'s node ↦ (B)'s node; the kind falls back to `null` outside `common` -/
def crNodeOf (n : RNode) (isProp : Bool) : CR.Node :=
  { kind := (nkindOf n).getD .null, isProp := isProp, rules := (manual n).map ruleOf }

/-! ### the common class -/

/-- a manual rule both models read the same way:
* not `allOf`, `regex`, `minItems`, `maxItems` ((A) answers `unsupported`: the validator IR has no such rule);
* it has a value text;
* `or`: an array of literals, every quoted one the name of a user type ((A) does not take scalar type names or
  rule-sets as members);
* `enum`: an array of literals whose kinds can be guessed ((A) has no named enum rules);
* `minLength` / `maxLength` / `precision`: at most 18 digits ((A) does not model the 64-bit wrap-around) -/
def ruleCommon (r : Rule) : Bool :=
  r.val.isSome &&
  !(r.name == sb "allOf" || r.name == sb "regex" || r.name == sb "minItems" || r.name == sb "maxItems") &&
  (if r.name == sb "or" then
     match r.val.bind scalarItems with
     | some items => items.all fun it => !Unquote.inQuotes it || isUserTypeName (unq it)
     | none => false
   else if r.name == sb "enum" then
     match r.val.bind scalarItems with
     | some items => items.all fun it => (RulesF.enumItem it).isSome
     | none => false
   else if r.name == sb "minLength" || r.name == sb "maxLength" || r.name == sb "precision" then
     (r.val.getD []).length ≤ 18
   else true)

/-- the class of nodes both models express:
* a literal node has an EXAMPLE token whose kind can be guessed;
* a type-shortcut node (`@t`, `@a | @b`) starts with its synthesised rule and has no other synthesised rule; its
  manual rules are not `type` / `or` ((A): `unsupported`, (B): the special cases of `MixedValueNode.AddConstraint`,
  known finding K-C08-ref-type-or); any other node has no synthesised rule;
* every manual rule is `ruleCommon`;
* `type: "email" | "uri" | "datetime"` is absent ((A): the formats that need the standard library). -/
def common (n : RNode) : Bool :=
  (nkindOf n).isSome &&
  (match n.kind with
   | .mixed =>
     (match n.rules with
      | r :: rest => r.gen && rest.all (fun r => !r.gen && !(r.name == sb "type" || r.name == sb "or"))
      | [] => false)
   | _ => n.rules.all fun r => !r.gen) &&
  (manual n).all ruleCommon &&
  (manual n).all fun r => !(r.name == sb "type" &&
    ((r.val.map unq) == some (sb "email") || (r.val.map unq) == some (sb "uri") || (r.val.map unq) == some (sb "datetime")))

/-- the run-time comparison of the two models on one node: `none` = outside the class -/
def agree (n : RNode) (isProp : Bool) : Option Bool :=
  if !common n || isUnsupported (aNode n isProp) then none
  else some (codeA (aNode n isProp) == codeB (CR.checkRules (crNodeOf n isProp)))

end BridgeCR
