import JSight.Loader
/-!
C15, text level (model): `Example()` of a schema TEXT, as the composition
schema scanner model → loader model (`Loader.loadText`) → the example builder `exampleBuilder.Build`
(`notations/jschema/example.go`) run on the loader's node table, producing BYTES.

The builder re-emits source tokens: a literal node ↦ `BasisLexEventOfSchemaForNode().Value()`, the bytes of
the literal token exactly as written (never re-encoded); a plain object key ↦ `k.Lex.Value()`, the bytes of the
key token with its quotes; containers ↦ brackets around the emitted children separated by commas.

This text-level model covers the nodes whose example does not depend on the rules: a node carrying any rule,
a type shortcut (mixed-value node) or a key shortcut makes it answer `none` (outside the fragment — those are
modelled on the abstract schema by `EX.build` / `EXK.build`). Notes (`// text`) and user comments (`# …`) do not
create rules and are inside the fragment.
-/
namespace Loader

/-- children joined by commas -/
def joinB : List (List UInt8) → List UInt8
  | [] => []
  | x :: rest => x ++ ((if rest.isEmpty then [] else [44]) ++ joinB rest)

/-- `exampleBuilder.Build` on node `i` of the table; `none` = outside the modelled fragment (or out of fuel) -/
def exBuild (src : Array UInt8) (nodes : Array Node) : Nat → Nat → Option (List UInt8)
  | 0, _ => none
  | fuel + 1, i =>
    match nodes[i]? with
    | none => none
    | some nd =>
      if nd.rules.isEmpty then
        match nd.kind with
        | .lit => nd.value.map fun sp => slice src sp.1 sp.2
        | .mixed => none
        | .arr =>
          (nd.children.mapM (exBuild src nodes fuel)).map fun parts => 91 :: (joinB parts ++ [93])
        | .obj =>
          if nd.keys.length != nd.children.length || nd.keys.any (·.2.2) then none
          else
            ((nd.keys.zip nd.children).mapM fun kc =>
              (exBuild src nodes fuel kc.2).map fun ex => slice src kc.1.1 kc.1.2.1 ++ 58 :: ex).map
              fun parts => 123 :: (joinB parts ++ [125])
      else none

/-- schema text → example bytes: scanner model, loader model, builder -/
def exampleText (bs : List UInt8) : Except String (List UInt8) :=
  match loadText bs with
  | .error e => .error e
  | .ok st =>
    match st.root with
    | none => .error "EMPTY"
    | some r =>
      match exBuild bs.toArray st.nodes (st.nodes.size + 1) r with
      | some out => .ok out
      | none => .error "UNSUPPORTED"

end Loader
