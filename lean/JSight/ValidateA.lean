import JSight.ValidateTProofs
/-!
C03/C09 prototype: named (possibly recursive) user types.  A position's validators are built as the code does it
(`NodeValidatorList`): type names are expanded depth-first, each name once per position; a nullable reference adds a
literal validator.  The tree of validators shares parents as in `ValidateT`.  Spec: union over the alternatives.
-/
namespace VA
open VN (J Ev evs evsItems evsMembers)
variable {L D : Type}

/-- `additionalProperties` -/
inductive AddMode (L : Type)
  | none                       -- rule absent or `false`: unknown keys are errors
  | any                        -- `true` / "any"
  | obj | arr                  -- "object" / "array"
  | lit (l : L)                -- a scalar schema type
  | type (name : String)       -- "@T"

inductive S (L : Type)
  | lit (l : L)
  | any
  | arr (items : List (S L))
  | obj (props : List (String × Bool × S L)) (add : AddMode L)
  | ref (names : List String) (nul : Option L)     -- `@A | @B`, optionally nullable

abbrev Env (L : Type) := List (String × S L)
def lookupT (env : Env L) (n : String) : Option (S L) := (env.find? (·.1 == n)).map (·.2)

/-- `validatorListConstructor.buildList`: the non-reference schemas a position is validated against -/
def build (env : Env L) : Nat → S L → List String × List (S L) → List String × List (S L)
  | 0, _, st => st
  | fuel + 1, .ref names nul, st =>
    let st' := names.foldl (fun st n =>
      if st.1.contains n then st
      else match lookupT env n with
        | some t => build env fuel t (n :: st.1, st.2)
        | none => (n :: st.1, st.2)) st
    match nul with
    | some l => (st'.1, st'.2 ++ [.lit l])
    | none => st'
  | _ + 1, s, st => (st.1, st.2 ++ [s])

def alts (env : Env L) (s : S L) : List (S L) := (build env (env.length + 1) s ([], [])).2

inductive Frame (L : Type)
  | lit (l : L)
  | any (depth : Nat)
  | arr (items : List (S L)) (count : Nat)
  | obj (props : List (String × Bool × S L)) (add : AddMode L) (req : List String) (last : Option String)
  | addObj | addArr                                 -- additionalProperties: "object" / "array" before the first lexeme
  | dead                                            -- a reference is never a validator

def requiredKeys (props : List (String × Bool × S L)) : List String :=
  (props.filter (fun p => p.2.1)).map (·.1)

def frameOf : S L → Frame L
  | .lit l => .lit l
  | .any => .any 0
  | .arr items => .arr items 0
  | .obj props add => .obj props add (requiredKeys props) none
  | .ref _ _ => .dead

def heads (env : Env L) (s : S L) : List (Frame L) := (alts env s).map frameOf

/-- `newAdditionalPropertiesValidator` -/
def addHeads (env : Env L) : AddMode L → List (Frame L)
  | .none => []
  | .any => [.any 0]
  | .obj => [.addObj]
  | .arr => [.addArr]
  | .lit l => [.lit l]
  | .type n => heads env (.ref [n] none)

def childAt (items : List (S L)) (i : Nat) : Option (S L) :=
  match items with
  | [] => none
  | _ => items[min i (items.length - 1)]?

def lookup (props : List (String × Bool × S L)) (k : String) : Option (S L) :=
  (props.find? (fun p => p.1 == k)).map (·.2.2)

inductive FeedRes (L : Type)
  | fail | done | stay (f : Frame L) | kids (f : Frame L) (hs : List (Frame L))

def feed1 (env : Env L) (litOK : L → D → Bool) : Frame L → Ev D → FeedRes L
  | .dead, _ => .fail
  | .addObj, e => match e with | .objB => .stay (.any 1) | _ => .fail
  | .addArr, e => match e with | .arrB => .stay (.any 1) | _ => .fail
  | .lit l, e =>
    match e with
    | .litB => .stay (.lit l)
    | .litE d => if litOK l d then .done else .fail
    | _ => .fail
  | .any d, e =>
    if (if e.isOpening then d + 1 else d - 1) == 0 then .done else .stay (.any (if e.isOpening then d + 1 else d - 1))
  | .arr items c, e =>
    match e with
    | .arrB | .itemE => .stay (.arr items c)
    | .itemB => match childAt items c with
      | some s => .kids (.arr items (c + 1)) (heads env s)
      | none => .fail
    | .arrE => .done
    | _ => .fail
  | .obj props add req last, e =>
    match e with
    | .objB | .keyB | .valE => .stay (.obj props add req last)
    | .keyE k => .stay (.obj props add (req.filter (· != k)) (some k))
    | .valB => match last with
      | some k => match lookup props k with
        | some s => .kids (.obj props add req last) (heads env s)
        | none => .kids (.obj props add req last) (addHeads env add)
      | none => .fail
    | .objE => if req.isEmpty then .done else .fail
    | _ => .fail

inductive T (L : Type)
  | node (f : Frame L) (live : Bool) (kids : List (T L))

def leafT (f : Frame L) : T L := .node f true []

def own (env : Env L) (litOK : L → D → Bool) (f : Frame L) (live : Bool) (e : Ev D) :
    Frame L × Bool × List (Frame L) × Bool :=
  if live then
    match feed1 env litOK f e with
    | .fail => (f, false, [], false)
    | .done => (f, false, [], true)
    | .stay f' => (f', true, [], false)
    | .kids f' hs => (f', false, hs, false)
  else (f, false, [], false)

def assemble (o : Frame L × Bool × List (Frame L) × Bool) (k : List (T L) × Bool) : Option (T L) × Bool :=
  if o.2.2.2 then (none, true)
  else if !(o.2.1 || k.2) && (k.1 ++ o.2.2.1.map leafT).isEmpty then (none, false)
  else (some (.node o.1 (o.2.1 || k.2) (k.1 ++ o.2.2.1.map leafT)), false)

mutual
def stepT (env : Env L) (litOK : L → D → Bool) : T L → Ev D → Option (T L) × Bool
  | .node f live kids, e => assemble (own env litOK f live e) (stepG env litOK kids e)
def stepG (env : Env L) (litOK : L → D → Bool) : List (T L) → Ev D → List (T L) × Bool
  | [], _ => ([], false)
  | t :: ts, e =>
    ((match (stepT env litOK t e).1 with | some x => x :: (stepG env litOK ts e).1 | none => (stepG env litOK ts e).1),
      (stepT env litOK t e).2 || (stepG env litOK ts e).2)
end

def runQ (env : Env L) (litOK : L → D → Bool) : List (T L) → List (Ev D) → Option (List (T L) × Bool)
  | g, [] => some (g, false)
  | g, e :: es =>
    if es.isEmpty then some (stepG env litOK g e)
    else if (stepG env litOK g e).2 then none else runQ env litOK (stepG env litOK g e).1 es

def validateT (env : Env L) (litOK : L → D → Bool) (s : S L) (d : J D) : Bool :=
  match runQ env litOK ((heads env s).map leafT) (evs d) with
  | some (_, b) => b
  | none => false

/-! ### spec: union over the alternatives of every position, by recursion on the document -/

/-- what the value of an unknown key must satisfy; `typeRes n` = "some alternative of `@n` has its shape" -/
def addDecide (litOK : L → D → Bool) (add : AddMode L) (v : J D) (typeRes : String → Bool) : Bool :=
  match add, v with
  | .none, _ => false
  | .any, _ => true
  | .obj, .obj _ => true
  | .obj, _ => false
  | .arr, .arr _ => true
  | .arr, _ => false
  | .lit l, .lit d => litOK l d
  | .lit _, _ => false
  | .type n, _ => typeRes n

mutual
def shapeA (env : Env L) (litOK : L → D → Bool) : S L → J D → Bool
  | .any, _ => true
  | .lit l, .lit d => litOK l d
  | .arr items, .arr xs => shapeItems env litOK items 0 xs
  | .obj props add, .obj ms =>
    shapeMembers env litOK props add ms && (requiredKeys props).all (fun k => ms.any (fun m => m.1 == k))
  | _, _ => false
def shapeItems (env : Env L) (litOK : L → D → Bool) : List (S L) → Nat → List (J D) → Bool
  | _, _, [] => true
  | items, i, x :: xs => (match childAt items i with
      | some s => (alts env s).any (fun a => shapeA env litOK a x)
      | none => false) && shapeItems env litOK items (i + 1) xs
def shapeMembers (env : Env L) (litOK : L → D → Bool) :
    List (String × Bool × S L) → AddMode L → List (String × J D) → Bool
  | _, _, [] => true
  | props, add, (k, v) :: ms => (match lookup props k with
      | some s => (alts env s).any (fun a => shapeA env litOK a v)
      | none => addDecide litOK add v (fun n => (alts env (.ref [n] none)).any (fun a => shapeA env litOK a v))) && shapeMembers env litOK props add ms
end

def shape (env : Env L) (litOK : L → D → Bool) (s : S L) (d : J D) : Bool :=
  (alts env s).any (fun a => shapeA env litOK a d)

end VA
