/-
Model of formats/json/scanner.go (with fix F-2 applied: digits-then-'.'/'e' mark the
literal unfinished).  Control is defined over byte classes.
-/
namespace JsonScan

/-- Byte classes distinguished by the JSON scanner. -/
inductive Cls
  | sp | wsctl | lbrace | rbrace | lbrack | rbrack | colon | comma | quote | bslash | slash
  | minus | plus | zero | d19 | dot
  | le | uE | lt | lr | lu | lf | la | ll | ls | ln | lb
  | hexo      -- c d A B C D F
  | ctrl      -- < 0x20 and not blank
  | other
  deriving DecidableEq, Repr, Inhabited

def classify (c : UInt8) : Cls :=
  if c == 32 then .sp
  else if c == 9 || c == 10 || c == 13 then .wsctl
  else if c == 123 then .lbrace else if c == 125 then .rbrace
  else if c == 91 then .lbrack else if c == 93 then .rbrack
  else if c == 58 then .colon else if c == 44 then .comma
  else if c == 34 then .quote else if c == 92 then .bslash else if c == 47 then .slash
  else if c == 45 then .minus else if c == 43 then .plus
  else if c == 48 then .zero else if 49 ≤ c && c ≤ 57 then .d19
  else if c == 46 then .dot
  else if c == 101 then .le else if c == 69 then .uE
  else if c == 116 then .lt else if c == 114 then .lr else if c == 117 then .lu
  else if c == 102 then .lf else if c == 97 then .la else if c == 108 then .ll
  else if c == 115 then .ls else if c == 110 then .ln else if c == 98 then .lb
  else if c == 99 || c == 100 || (65 ≤ c && c ≤ 68) || c == 70 then .hexo
  else if c < 32 then .ctrl
  else .other

def Cls.isDigit : Cls → Bool
  | .zero | .d19 => true
  | _ => false

def Cls.isHex : Cls → Bool
  | .zero | .d19 | .le | .uE | .lf | .la | .lb | .hexo => true
  | _ => false

inductive LexT
  | litB | litE | objB | objE | keyB | keyE | valB | valE | arrB | arrE | itemB | itemE | endTop
  deriving DecidableEq, Repr, Inhabited

def LexT.isOpening : LexT → Bool
  | .litB | .objB | .keyB | .valB | .arrB | .itemB => true
  | _ => false

inductive St
  | foundRoot | objKeyOrEmpty | objKey | objValue | arrItemOrEmpty | arrItem
  | endValue | afterKey | afterValue | afterItem | endTop
  | inString | esc | u0 | u1 | u2 | u3
  | neg | d1 | d0 | dot | dot0 | e | eSign | e0
  | t | tr | tru | f | fa | fal | fals | n | nu | nul
  deriving DecidableEq, Repr, Inhabited

inductive Err
  | invalidChar (ctx : String)
  | unexpectedEOF
  | emptyJson
  | crash (why : String)
  deriving DecidableEq, Repr

/-- Result of one control step: new state, new `unfinishedLiteral`, found lexeme types (in order). -/
abbrev StepRes := Except Err (St × Bool × List LexT)

inductive BV | cont | obj | arr | lit
  deriving DecidableEq

/-- stateBeginValue -/
def beginValue (cur : St) (unf : Bool) : Cls → Except Err (BV × St × Bool)
  | .sp | .wsctl => .ok (.cont, cur, unf)
  | .lbrace => .ok (.obj, .objKeyOrEmpty, unf)
  | .lbrack => .ok (.arr, .arrItemOrEmpty, unf)
  | .quote => .ok (.lit, .inString, true)
  | .minus => .ok (.lit, .neg, true)
  | .zero => .ok (.lit, .d0, unf)
  | .lt => .ok (.lit, .t, true)
  | .lf => .ok (.lit, .f, true)
  | .ln => .ok (.lit, .n, true)
  | .d19 => .ok (.lit, .d1, unf)
  | _ => .error (.invalidChar "looking for beginning of value")

def withPrefix (pre : LexT) : BV → List LexT
  | .cont => []
  | .obj => [pre, .objB]
  | .arr => [pre, .arrB]
  | .lit => [pre, .litB]

/-- stateEndTop -/
def endTopStep (allowTrailing : Bool) (unf : Bool) (acc : List LexT) : Cls → StepRes
  | .sp | .wsctl => .ok (.endTop, unf, acc)
  | _ => if allowTrailing then .ok (.endTop, unf, acc ++ [.endTop])
         else .error (.invalidChar "non-space byte after top-level value")

def afterKeyStep (unf : Bool) (acc : List LexT) : Cls → StepRes
  | .sp | .wsctl => .ok (.afterKey, unf, acc)
  | .colon => .ok (.objValue, unf, acc)
  | _ => .error (.invalidChar "after object key")

def afterValueStep (unf : Bool) (acc : List LexT) : Cls → StepRes
  | .sp | .wsctl => .ok (.afterValue, unf, acc)
  | .comma => .ok (.objKey, unf, acc)
  | .rbrace => .ok (.endValue, unf, acc ++ [.objE])
  | _ => .error (.invalidChar "after object key:value pair")

/-- stateFoundArrayEnd: the `[` is still on the stack when the length is inspected. -/
def arrayEnd (stackLen : Nat) (unf : Bool) (acc : List LexT) : StepRes :=
  .ok (if stackLen == 0 then .endTop else .endValue, unf, acc ++ [.arrE])

def afterItemStep (stackLen : Nat) (unf : Bool) (acc : List LexT) : Cls → StepRes
  | .sp | .wsctl => .ok (.afterItem, unf, acc)
  | .comma => .ok (.arrItem, unf, acc)
  | .rbrack => arrayEnd stackLen unf acc
  | _ => .error (.invalidChar "after array item")

/-- stateEndValue: inspects the stack *before* the finds of this step are applied. -/
def endValueStep (allowTrailing : Bool) (stack : List LexT) (unf : Bool) (c : Cls) : StepRes :=
  match stack with
  | [] => endTopStep allowTrailing unf [] c
  | .litB :: rest =>
    match rest with
    | [] => endTopStep allowTrailing unf [.litE] c
    | .keyB :: _ => afterKeyStep unf [.litE, .keyE] c
    | .valB :: _ => afterValueStep unf [.litE, .valE] c
    | .itemB :: _ => afterItemStep stack.length unf [.litE, .itemE] c
    | _ => .error (.invalidChar "at the end of value")
  | .keyB :: _ => afterKeyStep unf [.keyE] c
  | .valB :: _ => afterValueStep unf [.valE] c
  | .itemB :: _ => afterItemStep stack.length unf [.itemE] c
  | _ => .error (.invalidChar "at the end of value")

/-- One control step (`s.step(s, c)`). `stack` are the types on the lexeme stack, top first. -/
def step (allowTrailing : Bool) (st : St) (stack : List LexT) (unf : Bool) (c : Cls) : StepRes :=
  match st with
  | .foundRoot => do
      let (r, st', unf') ← beginValue .foundRoot unf c
      pure (st', unf', match r with | .cont => [] | .obj => [.objB] | .arr => [.arrB] | .lit => [.litB])
  | .objKeyOrEmpty =>
      match c with
      | .sp | .wsctl => .ok (.objKeyOrEmpty, unf, [])
      | .rbrace => .ok (.endValue, unf, [.objE])
      | .quote => .ok (.inString, unf, [.keyB])
      | _ => .error (.invalidChar "looking for beginning of string")
  | .objKey =>
      match c with
      | .sp | .wsctl => .ok (.objKey, unf, [])
      | .quote => .ok (.inString, unf, [.keyB])
      | _ => .error (.invalidChar "looking for beginning of string")
  | .objValue => do
      let (r, st', unf') ← beginValue .objValue unf c
      pure (st', unf', withPrefix .valB r)
  | .arrItemOrEmpty =>
      match c with
      | .rbrack => arrayEnd stack.length unf []
      | _ => do
        let (r, st', unf') ← beginValue .arrItemOrEmpty unf c
        pure (st', unf', withPrefix .itemB r)
  | .arrItem => do
      let (r, st', unf') ← beginValue .arrItem unf c
      pure (st', unf', withPrefix .itemB r)
  | .endValue => endValueStep allowTrailing stack unf c
  | .afterKey => afterKeyStep unf [] c
  | .afterValue => afterValueStep unf [] c
  | .afterItem => afterItemStep stack.length unf [] c
  | .endTop => endTopStep allowTrailing unf [] c
  | .inString =>
      match c with
      | .quote => .ok (.endValue, false, [])
      | .bslash => .ok (.esc, unf, [])
      | .ctrl | .wsctl => .error (.invalidChar "in string literal")
      | _ => .ok (.inString, unf, [])
  | .esc =>
      match c with
      | .lb | .lf | .ln | .lr | .lt | .bslash | .slash | .quote => .ok (.inString, unf, [])
      | .lu => .ok (.u0, unf, [])
      | _ => .error (.invalidChar "in string escape code")
  | .u0 => if c.isHex then .ok (.u1, unf, []) else .error (.invalidChar "in \\u hexadecimal character escape")
  | .u1 => if c.isHex then .ok (.u2, unf, []) else .error (.invalidChar "in \\u hexadecimal character escape")
  | .u2 => if c.isHex then .ok (.u3, unf, []) else .error (.invalidChar "in \\u hexadecimal character escape")
  | .u3 => if c.isHex then .ok (.inString, unf, []) else .error (.invalidChar "in \\u hexadecimal character escape")
  | .neg =>
      match c with
      | .zero => .ok (.d0, false, [])
      | .d19 => .ok (.d1, false, [])
      | _ => .error (.invalidChar "in numeric literal")
  | .d1 =>
      match c with
      | .zero | .d19 => .ok (.d1, unf, [])
      | .dot => .ok (.dot, true, [])
      | .le | .uE => .ok (.e, true, [])
      | _ => endValueStep allowTrailing stack unf c
  | .d0 =>
      match c with
      | .dot => .ok (.dot, true, [])
      | .le | .uE => .ok (.e, true, [])
      | _ => endValueStep allowTrailing stack unf c
  | .dot =>
      match c with
      | .zero | .d19 => .ok (.dot0, false, [])
      | _ => .error (.invalidChar "after decimal point in numeric literal")
  | .dot0 =>
      match c with
      | .zero | .d19 => .ok (.dot0, unf, [])
      | .le | .uE => .ok (.e, true, [])
      | _ => endValueStep allowTrailing stack unf c
  | .e =>
      match c with
      | .plus | .minus => .ok (.eSign, unf, [])
      | .zero | .d19 => .ok (.e0, false, [])
      | _ => .error (.invalidChar "in exponent of numeric literal")
  | .eSign =>
      match c with
      | .zero | .d19 => .ok (.e0, false, [])
      | _ => .error (.invalidChar "in exponent of numeric literal")
  | .e0 =>
      match c with
      | .zero | .d19 => .ok (.e0, unf, [])
      | _ => endValueStep allowTrailing stack unf c
  | .t => match c with | .lr => .ok (.tr, unf, []) | _ => .error (.invalidChar "in literal true (expecting 'r')")
  | .tr => match c with | .lu => .ok (.tru, unf, []) | _ => .error (.invalidChar "in literal true (expecting 'u')")
  | .tru => match c with | .le => .ok (.endValue, false, []) | _ => .error (.invalidChar "in literal true (expecting 'e')")
  | .f => match c with | .la => .ok (.fa, unf, []) | _ => .error (.invalidChar "in literal false (expecting 'a')")
  | .fa => match c with | .ll => .ok (.fal, unf, []) | _ => .error (.invalidChar "in literal false (expecting 'l')")
  | .fal => match c with | .ls => .ok (.fals, unf, []) | _ => .error (.invalidChar "in literal false (expecting 's')")
  | .fals => match c with | .le => .ok (.endValue, false, []) | _ => .error (.invalidChar "in literal false (expecting 'e')")
  | .n => match c with | .lu => .ok (.nu, unf, []) | _ => .error (.invalidChar "in literal null (expecting 'u')")
  | .nu => match c with | .ll => .ok (.nul, unf, []) | _ => .error (.invalidChar "in literal null (expecting 'l')")
  | .nul => match c with | .ll => .ok (.endValue, false, []) | _ => .error (.invalidChar "in literal null (expecting 'l')")

end JsonScan

namespace JsonScan

/-- isNonScalarPair / isScalarPair of scanner.go (types only). -/
def pairs (opener closer : LexT) : Bool :=
  match opener, closer with
  | .objB, .objE | .arrB, .arrE | .litB, .litE | .itemB, .itemE | .keyB, .keyE | .valB, .valE => true
  | _, _ => false

/-- Type-level configuration (spans are added in `JsonScanSpans`). -/
structure Cfg where
  st : St
  stack : List LexT      -- top first
  unf : Bool
  seen : Bool            -- jsonLexCounter > 0
  deriving DecidableEq, Repr

def Cfg.init : Cfg := { st := .foundRoot, stack := [], unf := false, seen := false }

inductive Out
  | cont (c : Cfg)
  | stop            -- EndTop delivered: NextLexeme returns io.EOF
  deriving DecidableEq, Repr

/-- processingFoundLexeme for each found type, in order. -/
def applyFinds : List LexT → List LexT → Except Err (Option (List LexT))
  | stack, [] => .ok (some stack)
  | stack, f :: fs =>
    if f == .endTop then .ok none
    else if f.isOpening then applyFinds (f :: stack) fs
    else match stack with
      | [] => .error (.crash "Reading from empty stack")
      | p :: rest => if pairs p f then applyFinds rest fs
                     else .error (.crash "Incorrect ending of the lexical event")

def feed (allowTrailing : Bool) (cfg : Cfg) (c : Cls) : Except Err Out := do
  let (st', unf', finds) ← step allowTrailing cfg.st cfg.stack cfg.unf c
  match ← applyFinds cfg.stack finds with
  | none => pure .stop
  | some stack' => pure (.cont { st := st', stack := stack', unf := unf', seen := cfg.seen || !finds.isEmpty })

/-- End-of-input rule of `Next` + empty-document rule of `Document.check`. -/
def atEof (cfg : Cfg) : Except Err Unit :=
  match cfg.stack with
  | [] => if cfg.seen then .ok () else .error .emptyJson
  | [.litB] => if cfg.unf then .error .unexpectedEOF else .ok ()
  | _ => .error .unexpectedEOF

def run (allowTrailing : Bool) : Cfg → List Cls → Except Err Unit
  | cfg, [] => atEof cfg
  | cfg, c :: cs => do
    match ← feed allowTrailing cfg c with
    | .stop => pure ()
    | .cont cfg' => run allowTrailing cfg' cs

def checkC (allowTrailing : Bool) (cs : List Cls) : Bool :=
  (run allowTrailing Cfg.init cs).isOk

def check (allowTrailing : Bool) (bs : List UInt8) : Bool :=
  checkC allowTrailing (bs.map classify)

end JsonScan
