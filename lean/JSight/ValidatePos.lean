import JSight.JsonRun
/-!
C17, validation errors: the validator of the rule-free fragment WITH the error it returns — code and byte
position — as the code computes them (`internal/validator/*.go`, `jschema.go: validate`).

* Input of the machine: the source text `src` and the lexical events of the JSON scanner with their spans
  (`JsonScan.Ev`: type, begin, end). Tokens are read as `lex.Value()` does: the slice `src[b..e]`.
* Every `DocumentError` of the validator is built by `lexeme.NewLexEventError(lex, …)`: its index is
  `lex.Begin()` of the lexeme that was being fed — except the unknown-key error, which is built from the
  remembered key lexeme (`lastFoundKeyLex`). For closing lexemes `Begin()` is the offset where the construct
  STARTED (`ObjectEnd.Begin()` = offset of `{`, `LiteralEnd.Begin()` = first byte of the literal).
* `Tree.FeedLeaves`: every live leaf gets the lexeme; a leaf that fails is dropped silently as long as another
  leaf survives; when ALL live leaves fail on one lexeme the error is the leaf's own error if there is exactly
  one leaf, `ErrOrRuleSetValidation` (204) at the lexeme otherwise. So with alternatives the reported error is
  that of the alternative(s) that got furthest. Several leaves at a position: a nullable container (fix F-14:
  `[container validator, literal validator]`), an `or` / type list `@a | @b`. The fragment here admits, per
  position, any number of SCALAR alternatives next to at most one container (kind-disjoint unions): after the
  first lexeme of a value at most one container leaf is alive, so the leaves stay siblings under one parent
  chain (anything else makes the model answer `stuck`; the general case needs the validator tree of `ValidateT`).
* The literal validators are parameters (`litErr`: error code of `ValidateLiteralValue`, `none` = accepted),
  so the scalar-rule semantics is arbitrary; keys are compared after `unq` (Unquote).

The spec `firstOffence` is a function of schema × document tree (with layout): the first offending value or
key in document order and the byte offset of its first byte. Core Lean only (the driver imports this file).
-/
namespace VPos
open JsonScan (Ev LexT)

abbrev Code := Nat

/-! ### documents: JSON trees with layout over an arbitrary alphabet -/

/-- the six punctuation symbols -/
structure Sym (α : Type) where
  lbrack : α
  rbrack : α
  lbrace : α
  rbrace : α
  comma : α
  colon : α

/-- the same trees as `JsonScan.JA` (`TreeEvents.lean`), over any alphabet: `ws value ws` items,
`ws key ws ":" ws value ws` members -/
inductive T (α : Type)
  | scalar (tok : List α)
  | arr (ws0 : List α) (items : List (List α × T α × List α))
  | obj (ws0 : List α) (members : List (List α × List α × List α × List α × T α × List α))

variable {α L : Type}

mutual
def T.render (sy : Sym α) : T α → List α
  | .scalar tok => tok
  | .arr ws0 items => sy.lbrack :: (ws0 ++ renderItems sy items)
  | .obj ws0 members => sy.lbrace :: (ws0 ++ renderMembers sy members)
def renderItems (sy : Sym α) : List (List α × T α × List α) → List α
  | [] => [sy.rbrack]
  | (w1, v, w2) :: its => w1 ++ (v.render sy ++ (w2 ++ ((if its.isEmpty then [] else [sy.comma]) ++ renderItems sy its)))
def renderMembers (sy : Sym α) : List (List α × List α × List α × List α × T α × List α) → List α
  | [] => [sy.rbrace]
  | (w1, k, w2, w3, v, w4) :: ms =>
    w1 ++ (k ++ (w2 ++ (sy.colon :: (w3 ++ (v.render sy ++ (w4 ++ ((if ms.isEmpty then [] else [sy.comma]) ++ renderMembers sy ms)))))))
end

mutual
/-- number of bytes of the rendered value -/
def T.len : T α → Nat
  | .scalar tok => tok.length
  | .arr ws0 items => 1 + (ws0.length + lenItems items)
  | .obj ws0 members => 1 + (ws0.length + lenMembers members)
def lenItems : List (List α × T α × List α) → Nat
  | [] => 1
  | (w1, v, w2) :: its => w1.length + (v.len + (w2.length + ((if its.isEmpty then 0 else 1) + lenItems its)))
def lenMembers : List (List α × List α × List α × List α × T α × List α) → Nat
  | [] => 1
  | (w1, k, w2, w3, v, w4) :: ms =>
    w1.length + (k.length + (w2.length + (1 + (w3.length + (v.len + (w4.length + ((if ms.isEmpty then 0 else 1) + lenMembers ms)))))))
end

mutual
/-- the lexical events the tree denotes when its first byte is at offset `o` (as `JsonScan.evsAt`) -/
def evsAt : Nat → T α → List Ev
  | o, .scalar tok => [⟨.litB, o, o⟩, ⟨.litE, o, o + tok.length - 1⟩]
  | o, .arr ws0 items => ⟨.arrB, o, o⟩ :: evsItems o (o + 1 + ws0.length) items
  | o, .obj ws0 members => ⟨.objB, o, o⟩ :: evsMembers o (o + 1 + ws0.length) members
def evsItems (a : Nat) : Nat → List (List α × T α × List α) → List Ev
  | o, [] => [⟨.arrE, a, o⟩]
  | o, (w1, v, w2) :: its =>
    ⟨.itemB, o + w1.length, o + w1.length⟩ ::
      (evsAt (o + w1.length) v ++ ⟨.itemE, o + w1.length, o + w1.length + v.len - 1⟩ ::
        evsItems a (o + w1.length + v.len + w2.length + (if its.isEmpty then 0 else 1)) its)
def evsMembers (a : Nat) : Nat → List (List α × List α × List α × List α × T α × List α) → List Ev
  | o, [] => [⟨.objE, a, o⟩]
  | o, (w1, k, w2, w3, v, w4) :: ms =>
    ⟨.keyB, o + w1.length, o + w1.length⟩ :: ⟨.keyE, o + w1.length, o + w1.length + k.length - 1⟩ ::
    ⟨.valB, o + w1.length + k.length + w2.length + 1 + w3.length, o + w1.length + k.length + w2.length + 1 + w3.length⟩ ::
      (evsAt (o + w1.length + k.length + w2.length + 1 + w3.length) v ++
        ⟨.valE, o + w1.length + k.length + w2.length + 1 + w3.length,
          o + w1.length + k.length + w2.length + 1 + w3.length + v.len - 1⟩ ::
        evsMembers a (o + w1.length + k.length + w2.length + 1 + w3.length + v.len + w4.length
          + (if ms.isEmpty then 0 else 1)) ms)
end

/-- `lex.Value()`: the bytes a span `[b, e]` cuts out of the source -/
def slice (src : List α) (b e : Nat) : List α := (src.drop b).take (e + 1 - b)

/-! ### schemas of the fragment (after compilation: every property carries `required`) -/

/-- `lits ls`: scalar alternatives only (one = a plain scalar node; several = `or` / type list of scalars);
`arr ls items` / `obj ls props`: a container and the scalar alternatives next to it (`nullable: true` on a
container = the literal validator that admits only `null`; `@arr | @str`). -/
inductive S (L : Type)
  | any
  | lits (ls : List L)
  | arr (ls : List L) (items : List (S L))
  | obj (ls : List L) (props : List (String × Bool × S L))

/-- what the literal validators and the key decoder do: parameters of the model -/
structure P (α L : Type) where
  /-- `ValidateLiteralValue(node, token)`: `none` = accepted, `some code` = the error -/
  litErr : L → List α → Option Code
  /-- `Bytes.Unquote().String()` of a key token -/
  unq : List α → String

/-! ### the machine -/

inductive Frame (L : Type)
  | lit (l : L)
  | any (depth : Nat)
  | arr (items : List (S L)) (count : Nat)
  | obj (props : List (String × Bool × S L)) (req : List String) (last : Option (Nat × Nat))   -- lastFoundKeyLex

def requiredKeys (props : List (String × Bool × S L)) : List String :=
  (props.filter (fun p => p.2.1)).map (·.1)

/-- `NodeValidatorList` (list.go): one validator per alternative -/
def newLeaves : S L → List (Frame L)
  | .any => [.any 0]
  | .lits ls => ls.map .lit
  | .arr ls items => .arr items 0 :: ls.map .lit
  | .obj ls props => .obj props (requiredKeys props) none :: ls.map .lit

/-- `ArrayNode.Child`: clamp to the last example element; none (panic 1203) when the example array is empty -/
def childAt (items : List (S L)) (i : Nat) : Option (S L) :=
  match items with
  | [] => none
  | _ => items[min i (items.length - 1)]?

def lookup (props : List (String × Bool × S L)) (k : String) : Option (S L) :=
  (props.find? (fun p => p.1 == k)).map (·.2.2)

/-- result of one validator on one lexeme (`validator.feed`): panic with a DocumentError / done /
not done without children / not done with the validators of a child position -/
inductive R (L : Type)
  | fail (code : Code) (pos : Nat)
  | done
  | stay (f : Frame L)
  | kids (f : Frame L) (child : S L)

def R.isFail : R L → Bool
  | .fail _ _ => true
  | _ => false
def R.isDone : R L → Bool
  | .done => true
  | _ => false

/-- `ValidateLiteralValue(node, lex.Value())` inside `literalValidator.feed`: done, or a DocumentError at `b` -/
def litRes (p : P α L) (l : L) (tok : List α) (b : Nat) : R L :=
  match p.litErr l tok with
  | none => .done
  | some c => .fail c b

/-- `validator.feed` of the four validators. Every error is positioned at `e.b` = `lex.Begin()`
(`CatchLexEventError`), the unknown key at the begin of the remembered key lexeme. -/
def feed1 (p : P α L) (src : List α) : Frame L → Ev → R L
  | .lit l, e =>
    match e.ty with
    | .litB => .stay (.lit l)
    | .litE => litRes p l (slice src e.b e.e) e.b
    | _ => .fail 207 e.b                       -- ErrUnexpectedLexInLiteralValidator
  | .any d, e =>
    let d' := if e.ty.isOpening then d + 1 else d - 1
    if d' == 0 then .done else .stay (.any d')
  | .arr items c, e =>
    match e.ty with
    | .arrB | .itemE => .stay (.arr items c)
    | .itemB => (match childAt items c with
      | some s => .kids (.arr items (c + 1)) s
      | none => .fail 1203 e.b)               -- ErrElementNotFoundInArray
    | .arrE => .done
    | _ => .fail 209 e.b                       -- ErrUnexpectedLexInArrayValidator
  | .obj props req last, e =>
    match e.ty with
    | .objB | .keyB | .valE => .stay (.obj props req last)
    | .keyE => .stay (.obj props (req.filter (· != p.unq (slice src e.b e.e))) (some (e.b, e.e)))
    | .valB => (match last with
      | some (kb, ke) => (match lookup props (p.unq (slice src kb ke)) with
        | some s => .kids (.obj props req last) s
        | none => .fail 206 kb)               -- ErrSchemaDoesNotSupportKey, at lastFoundKeyLex.Begin()
      | none => .fail 0 e.b)                   -- unreachable: value-begin before any key (generic error)
    | .objE => if req.isEmpty then .done else .fail 205 e.b    -- ErrRequiredKeyNotFound, Begin() of ObjectEnd = offset of `{`
    | _ => .fail 208 e.b                       -- ErrUnexpectedLexInObjectValidator

/-- the frames of results that are all `stay` -/
def stays : List (R L) → Option (List (Frame L))
  | [] => some []
  | .stay f :: rs => (stays rs).map (f :: ·)
  | _ :: _ => none

/-- outcome of `Tree.FeedLeaves` on one lexeme. `leaves` are the live leaves (they share the parent chain `K`). -/
inductive Step (L : Type)
  | cont (leaves K : List (Frame L))
  | fin                                 -- no validators left: FeedLeaves returns true
  | rej (code : Code) (pos : Nat)
  | stuck                               -- several surviving leaves that do not stay siblings: outside this model (→ ValidateT)

/-- every live leaf failed (`errorsCount == len(leavesIndexes)`) -/
def allFailed (rs : List (R L)) (pos : Nat) : Step L :=
  match rs with
  | [.fail c q] => .rej c q             -- one leaf: its own error
  | _ => .rej 204 pos                   -- several leaves: ErrOrRuleSetValidation at the lexeme

/-- step back to the parent; several children merge into one leaf (F-11) -/
def pop (K : List (Frame L)) : Step L :=
  match K with
  | [] => .fin
  | f :: K' => .cont [f] K'

/-- what `FeedLeaves` / `feedLeaf` do with the results of the live leaves on the lexeme at `pos` -/
def settle (rs : List (R L)) (K : List (Frame L)) (pos : Nat) : Step L :=
  match rs.filter (fun r => !r.isFail) with
  | [] => allFailed rs pos
  | [.kids f s] => .cont (newLeaves s) (f :: K)
  | sv =>
    if sv.all R.isDone then pop K
    else match stays sv with
      | some fs => .cont fs K
      | none => .stuck

def step (p : P α L) (src : List α) (leaves K : List (Frame L)) (e : Ev) : Step L :=
  settle (leaves.map (fun f => feed1 p src f e)) K e.b

inductive Res
  | acc
  | rej (code : Code) (pos : Nat)
  | stuck
  deriving DecidableEq, Repr

/-- the loop of `Schema.validate`: lexemes are fed until FeedLeaves reports completion or the scanner reaches
the end of input (in which case nil is returned without looking at the tree) -/
def run (p : P α L) (src : List α) : List (Frame L) → List (Frame L) → List Ev → Res
  | _, _, [] => .acc
  | lv, K, e :: es =>
    match step p src lv K e with
    | .cont lv' K' => run p src lv' K' es
    | .fin => .acc
    | .rej c q => .rej c q
    | .stuck => .stuck

/-- `Validate` on a source text and its lexical events -/
def validatePos (p : P α L) (s : S L) (src : List α) (evs : List Ev) : Res :=
  run p src (newLeaves s) [] evs

/-! ### the spec: first offending value or key in document order, and where it starts -/

def hasKey (unq : List α → String) (ms : List (List α × List α × List α × List α × T α × List α)) (k : String) : Bool :=
  ms.any (fun m => unq m.2.1 == k)

/-- several readings of one position: the error of the only one, 204 when there are several (or none) -/
def own1 (leaves : Nat) (c : Code) : Code := bif leaves == 1 then c else 204

/-- a scalar token against the scalar alternatives of a position: accepted when one of them accepts it;
otherwise the code of the only alternative, 204 when there are several -/
def litsOffence (p : P α L) (ls : List L) (tok : List α) (o : Nat) : Option (Code × Nat) :=
  match ls with
  | [l] => (p.litErr l tok).map (·, o)
  | _ => bif ls.any (fun l => (p.litErr l tok).isNone) then none else some (204, o)

mutual
/-- `firstOffence p s o d`: `d` starts at byte offset `o`. `none` = `d` has the shape of `s`. Otherwise the
code and the offset of the FIRST BYTE of the first offending value or key in document order:
* a value of the wrong kind — no alternative of the position reads a value that starts like this one:
  207 scalar / 208 object / 209 array expected when the position has ONE reading, 204 when it has several;
* a scalar that every scalar alternative rejects: the literal validator's code (one alternative) or 204;
* an element in an array whose example is empty: 1203; an unknown key: 206, at the KEY.
A container alternative that reads the value's first byte is the only reading left (the scalar alternatives died
on that byte): its own offences follow. A MISSING required key has no offending token: it is noticed when the
object closes (so after every offence inside the object) and the code reports it (205) at the first byte of the
OBJECT that lacks the key — the property text does not define this case; this is what the code does. -/
def firstOffence (p : P α L) : S L → Nat → T α → Option (Code × Nat)
  | .any, _, _ => none
  | .lits ls, o, .scalar tok => litsOffence p ls tok o
  | .lits ls, o, .arr _ _ => some (own1 ls.length 207, o)
  | .lits ls, o, .obj _ _ => some (own1 ls.length 207, o)
  | .arr ls _, o, .scalar tok => bif ls.isEmpty then some (209, o) else litsOffence p ls tok o
  | .arr ls _, o, .obj _ _ => some (own1 (ls.length + 1) 209, o)
  | .arr _ items, o, .arr ws0 its => offItems p items 0 (o + 1 + ws0.length) its
  | .obj ls _, o, .scalar tok => bif ls.isEmpty then some (208, o) else litsOffence p ls tok o
  | .obj ls _, o, .arr _ _ => some (own1 (ls.length + 1) 208, o)
  | .obj _ props, o, .obj ws0 ms =>
    match offMembers p props (o + 1 + ws0.length) ms with
    | some x => some x
    | none => bif (requiredKeys props).all (hasKey p.unq ms) then none else some (205, o)
/-- items from index `i` on, the first one starting (with its leading blanks) at offset `o` -/
def offItems (p : P α L) (items : List (S L)) : Nat → Nat → List (List α × T α × List α) → Option (Code × Nat)
  | _, _, [] => none
  | i, o, (w1, v, w2) :: its =>
    match childAt items i with
    | none => some (1203, o + w1.length)
    | some s =>
      match firstOffence p s (o + w1.length) v with
      | some x => some x
      | none => offItems p items (i + 1) (o + w1.length + v.len + w2.length + (if its.isEmpty then 0 else 1)) its
def offMembers (p : P α L) (props : List (String × Bool × S L)) :
    Nat → List (List α × List α × List α × List α × T α × List α) → Option (Code × Nat)
  | _, [] => none
  | o, (w1, k, w2, w3, v, w4) :: ms =>
    match lookup props (p.unq k) with
    | none => some (206, o + w1.length)
    | some s =>
      match firstOffence p s (o + w1.length + k.length + w2.length + 1 + w3.length) v with
      | some x => some x
      | none => offMembers p props (o + w1.length + k.length + w2.length + 1 + w3.length + v.len + w4.length
          + (if ms.isEmpty then 0 else 1)) ms
end

def Res.ofSpec : Option (Code × Nat) → Res
  | none => .acc
  | some (c, q) => .rej c q

mutual
/-- offsets at which a value token or a key token of the document starts -/
def starts : Nat → T α → List Nat
  | o, .scalar _ => [o]
  | o, .arr ws0 its => o :: startsItems (o + 1 + ws0.length) its
  | o, .obj ws0 ms => o :: startsMembers (o + 1 + ws0.length) ms
def startsItems : Nat → List (List α × T α × List α) → List Nat
  | _, [] => []
  | o, (w1, v, w2) :: its =>
    starts (o + w1.length) v ++ startsItems (o + w1.length + v.len + w2.length + (if its.isEmpty then 0 else 1)) its
def startsMembers : Nat → List (List α × List α × List α × List α × T α × List α) → List Nat
  | _, [] => []
  | o, (w1, k, w2, w3, v, w4) :: ms =>
    (o + w1.length) :: (starts (o + w1.length + k.length + w2.length + 1 + w3.length) v ++
      startsMembers (o + w1.length + k.length + w2.length + 1 + w3.length + v.len + w4.length
          + (if ms.isEmpty then 0 else 1)) ms)
end

mutual
/-- every scalar token and every key token is non-empty (true of every JSON token) -/
def T.TokNE : T α → Prop
  | .scalar tok => tok ≠ []
  | .arr _ items => TokNEItems items
  | .obj _ members => TokNEMembers members
def TokNEItems : List (List α × T α × List α) → Prop
  | [] => True
  | (_, v, _) :: its => v.TokNE ∧ TokNEItems its
def TokNEMembers : List (List α × List α × List α × List α × T α × List α) → Prop
  | [] => True
  | (_, k, _, _, v, _) :: ms => k ≠ [] ∧ v.TokNE ∧ TokNEMembers ms
end

/-! ### on bytes: the scanner's events, then the validator (`Schema.validate` on a JSON document) -/

def byteSym : Sym UInt8 := ⟨91, 93, 123, 125, 44, 58⟩

/-- `.error` = the scanner's error (the document is not JSON); `.ok` = the validator's outcome -/
def validateBytes (p : P UInt8 L) (s : S L) (bs : List UInt8) : Except JsonScan.ErrS Res :=
  (JsonScan.events false bs).map (validatePos p s bs)

end VPos
