import JSight.SchemaEventsTree
import JSight.SchemaEventsJson
/-!
# The JSight schema scanner reads plain JSON like a JSON scanner — events of a value tree

(C06 second sentence / C13 / C16.)  Model: `SchemaScan` (`JSight/SchemaScan.lean`, `JSight/SchemaRun.lean`).

Files
* `SchemaEventsBase.lean` — `Next()` is monotone in its fuel; fuel-free event stream `Emits`, partial runs `Steps`
  (continuation form), `events_of_emits` (any fuel > number of events), input segments `At`.
* `SchemaEventsStep.lean` — one `dispatch` at the concrete states met on plain JSON (post-value state →
  `stateEndValue` → after-state; white-space loops incl. line breaks; token automaton `silent`; value/key starts;
  container ends), for arbitrary bookkeeping (`ctx`, `ctxStack`, `allowAnnotation`).
* `SchemaEventsRun.lean` — the same as `Steps`; runs over white space (`ws_run`, with the `objKey → objKeyAfterNL`
  move), tokens (`tok_run`), the closing phase after a value (`close_sep`, `close_rbrack`, `close_rbrace`,
  `close_root` incl. the end-of-input rule).
* `SchemaEventsTree.lean` — `Tree` (value trees with layout), `Tree.render`, `schemaEvsAt`, `Tree.Valid`,
  `value_run` / `items_run` / `members_run`, the fuel bound (`evs_length`: at most 3 events per byte),
  **`C06_schema_events_of_tree`** (`scanAll` on bytes), `events_of_tree`, `emits_of_tree`; the JSON token grammar
  (`StrBody`, `NumTok` without exponent, `true`/`false`/`null`) and `Tree.Json`, `C06_schema_events_of_json_text`;
  a sample instance.
* `SchemaEventsJson.lean` — the same text under the JSON scanner model (`JsonScan`, `TreeEvents.lean`):
  **`C13_schema_scan_is_json_scan_plus_newlines`**.
-/
namespace SchemaScan

/-- info: 'SchemaScan.C06_schema_events_of_tree' depends on axioms: [propext, Quot.sound] -/
#guard_msgs in
#print axioms C06_schema_events_of_tree

/-- info: 'SchemaScan.C06_schema_events_of_json_text' depends on axioms: [propext, Quot.sound] -/
#guard_msgs in
#print axioms C06_schema_events_of_json_text

/-- info: 'SchemaScan.C13_schema_scan_is_json_scan_plus_newlines' depends on axioms: [propext, Quot.sound] -/
#guard_msgs in
#print axioms C13_schema_scan_is_json_scan_plus_newlines

/-- info: 'SchemaScan.sample_events' depends on axioms: [propext, Quot.sound] -/
#guard_msgs in
#print axioms sample_events

end SchemaScan
