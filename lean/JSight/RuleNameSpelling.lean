import JSight.Loader
import JSight.RegexQuote
/-!
C13, "quoted versus bare rule names": the rule name the loader dispatches on (`nameOf` =
`TrimSpaces().Unquote()` of the name token) is the same for the bare and the quoted spelling, with any blanks
around the token. Names are printable ASCII without quote, backslash and blank (every rule name is).
-/
namespace Loader
open Unquote GoQuote

def plainName (n : List UInt8) : Prop := n ≠ [] ∧ ∀ c ∈ n, printable c = true ∧ c ≠ 34 ∧ c ≠ 92 ∧ c ≠ 32

theorem isBlank_of_printable_ne (c : UInt8) (hp : printable c = true) (h32 : c ≠ 32) : isBlank c = false := by
  simp only [printable, Bool.and_eq_true, decide_eq_true_eq] at hp
  simp only [isBlank, Bool.or_eq_false_iff, beq_eq_false_iff_ne, ne_eq]
  refine ⟨⟨⟨h32, ?_⟩, ?_⟩, ?_⟩ <;> (intro e; subst e; exact absurd hp.1 (by decide))

theorem dropWhile_blanks (w x : List UInt8) (hw : ∀ c ∈ w, isBlank c = true) : (w ++ x).dropWhile isBlank = x.dropWhile isBlank := by
  induction w with
  | nil => rfl
  | cons c cs ih =>
    have hc := hw c (by simp)
    simp only [List.cons_append, List.dropWhile_cons, hc, if_true]
    exact ih (fun y hy => hw y (by simp [hy]))

theorem dropWhile_head (x : List UInt8) (a : UInt8) (t : List UInt8) (hx : x = a :: t) (ha : isBlank a = false) :
    x.dropWhile isBlank = x := by
  subst hx; simp [List.dropWhile_cons, ha]

/-- trimming removes exactly the surrounding blanks of a token that begins and ends with a non-blank byte -/
theorem trimSpaces_token (w1 w2 x : List UInt8) (h1 : ∀ c ∈ w1, isBlank c = true) (h2 : ∀ c ∈ w2, isBlank c = true)
    (a : UInt8) (t : List UInt8) (hx : x = a :: t) (ha : isBlank a = false)
    (b : UInt8) (u : List UInt8) (hr : x.reverse = b :: u) (hb : isBlank b = false) :
    trimSpaces (w1 ++ x ++ w2) = x := by
  unfold trimSpaces
  rw [List.append_assoc, dropWhile_blanks w1 _ h1]
  have e1 : (x ++ w2).dropWhile isBlank = x ++ w2 := by
    subst hx; simp [List.dropWhile_cons, ha]
  rw [e1, List.reverse_append, dropWhile_blanks w2.reverse _ (by intro c hc; exact h2 c (by simpa using hc))]
  rw [dropWhile_head _ b u hr hb, List.reverse_reverse]

theorem esc_plain (n : List UInt8) (h : ∀ c ∈ n, c ≠ 34 ∧ c ≠ 92) : esc n = n := by
  induction n with
  | nil => rfl
  | cons c cs ih =>
    have hc := h c (by simp)
    have e1 : (c == 34) = false := by simpa using hc.1
    have e2 : (c == 92) = false := by simpa using hc.2
    simp only [esc, e1, e2, Bool.false_eq_true, if_false]
    rw [ih (fun x hx => h x (by simp [hx]))]

theorem unquote_quoted (n : List UInt8) (hn : plainName n) : unquote (34 :: (n ++ [34])) = n := by
  have := C18_goquote_roundtrip n (fun c hc => (hn.2 c hc).1)
  unfold q at this
  rwa [esc_plain n (fun c hc => ⟨(hn.2 c hc).2.1, (hn.2 c hc).2.2.1⟩)] at this

theorem unquote_bare (n : List UInt8) (hn : plainName n) : unquote n = n := by
  unfold unquote
  have : inQuotes n = false := by
    obtain ⟨hne, hall⟩ := hn
    cases n with
    | nil => exact absurd rfl hne
    | cons a t =>
      have ha := (hall a (by simp)).2.1
      simp [inQuotes, ha]
  simp [this]

/-- **bare and quoted spelling of a rule name give the loader the same name**, whatever blanks surround the token -/
theorem C13_rule_name_spelling (n w1 w2 : List UInt8) (hn : plainName n)
    (h1 : ∀ c ∈ w1, isBlank c = true) (h2 : ∀ c ∈ w2, isBlank c = true) :
    unquote (trimSpaces (w1 ++ n ++ w2)) = n ∧ unquote (trimSpaces (w1 ++ (34 :: (n ++ [34])) ++ w2)) = n := by
  obtain ⟨hne, hall⟩ := hn
  constructor
  · cases n with
    | nil => exact absurd rfl hne
    | cons a t =>
      have ha := hall a (by simp)
      cases hr : (a :: t).reverse with
      | nil => simp at hr
      | cons b u =>
        have hbm : b ∈ a :: t := by
          have : b ∈ (a :: t).reverse := by rw [hr]; simp
          exact List.mem_reverse.1 this
        have hb := hall b hbm
        rw [trimSpaces_token w1 w2 (a :: t) h1 h2 a t rfl (isBlank_of_printable_ne a ha.1 ha.2.2.2) b u hr
          (isBlank_of_printable_ne b hb.1 hb.2.2.2)]
        exact unquote_bare _ ⟨hne, hall⟩
  · have hq : isBlank 34 = false := by decide
    rw [trimSpaces_token w1 w2 (34 :: (n ++ [34])) h1 h2 34 (n ++ [34]) rfl hq 34 (n.reverse ++ [34])
      (by simp) hq]
    exact unquote_quoted n ⟨hne, hall⟩

/-- non-vacuity: `enum` is such a name (bytes 101 110 117 109) -/
example : plainName [101, 110, 117, 109] := ⟨by simp, by decide⟩

end Loader
