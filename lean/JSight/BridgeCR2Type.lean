import JSight.BridgeCR2Front
/-!
Bridge (A)∩(B), second part: `typeConstraint` against `bType` on a node without `or` rule (`type_agree`).
-/
namespace BridgeCR
open Compile
open Loader (NK)

/-- the `type` rule names none of the formats (A) leaves to the standard library -/
def NoFmt (frs : List Rule) : Prop :=
  ∀ r ∈ frs, r.name = sb "type" →
    unq (r.val.getD []) ≠ sb "email" ∧ unq (r.val.getD []) ≠ sb "uri" ∧ unq (r.val.getD []) ≠ sb "datetime"

theorem json_cond (s : String) (t : CR.JT) (h : (s, t) ∈ jsonNames) :
    (sb s == sb "object" || sb s == sb "array" || sb s == sb "string" || sb s == sb "integer" || sb s == sb "float"
      || sb s == sb "boolean" || sb s == sb "null") = true := by
  simp only [jsonNames, List.mem_cons, Prod.mk.injEq, List.mem_nil_iff, or_false] at h
  rcases h with ⟨rfl, rfl⟩ | ⟨rfl, rfl⟩ | ⟨rfl, rfl⟩ | ⟨rfl, rfl⟩ | ⟨rfl, rfl⟩ | ⟨rfl, rfl⟩ | ⟨rfl, rfl⟩ <;> decide +kernel

theorem json_pre (s : String) (t : CR.JT) (h : (s, t) ∈ jsonNames) :
    isUserTypeName (sb s) = false ∧ (sb s == sb "mixed") = false ∧ (sb s == sb "enum") = false ∧ (sb s == sb "any") = false ∧
    (sb s == sb "decimal") = false ∧ fmtOfType (sb s) = none := by
  simp only [jsonNames, List.mem_cons, Prod.mk.injEq, List.mem_nil_iff, or_false] at h
  rcases h with ⟨rfl, rfl⟩ | ⟨rfl, rfl⟩ | ⟨rfl, rfl⟩ | ⟨rfl, rfl⟩ | ⟨rfl, rfl⟩ | ⟨rfl, rfl⟩ | ⟨rfl, rfl⟩ <;> decide +kernel

theorem rt_enum (jt : JT) (hj : jt ≠ .mixed) : (jt == .obj || jt == .arr || jt == .mixed) = !CR.realTypeOK .enum (cjt jt) := by
  cases jt <;> first | exact absurd rfl hj | rfl
theorem rt_dec (jt : JT) : (jt != .flt) = !CR.realTypeOK .decimal (cjt jt) := by cases jt <;> rfl
theorem rt_uuid (jt : JT) : (jt != .str) = !CR.realTypeOK .uuid (cjt jt) := by cases jt <;> rfl
theorem rt_date (jt : JT) : (jt != .str) = !CR.realTypeOK .date (cjt jt) := by cases jt <;> rfl

section
variable {frs : List Rule} {kind : NK} {jt : JT} {nch : Nat} {isProp : Bool} {c : CR.Ctx}

theorem plain_del (G : Good frs) (C : CtxOK kind jt nch isProp c) (hor : hasRule frs "or" = false) :
    Agree (outA (bAllowed frs jt isProp nch false none none false)) (tailB c ((mapOf frs).del .type)) :=
  tail_plain rel5_del G hor C (Or.inl rfl)

theorem typesLen_zero (hor : hasRule frs "or" = false) : CR.typesLen (mapOf frs) = 0 := by
  unfold CR.typesLen CR.typesUsers
  rw [mapOf_named frs .typesList "or" ct_typesList, findRule_none frs "or" hor]
  rfl

theorem type_user (G : Good frs) (hprop : c.isProp = isProp) (hbranch : c.isBranch = (kind == .obj || kind == .arr))
    (hor : hasRule frs "or" = false)
    (t : Rule) (hft : findRule frs "type" = some t) (hu : isUserTypeName (unq (t.val.getD [])) = true)
    (hg1 : (kind == NK.mixed && !t.gen) = false) (hg2 : (decide (c.cls = .mixedValue) && !t.gen) = false) :
    Agree (outA (bType kind frs jt isProp nch none false)) (typeB c (mapOf frs)) := by
  have htt : CR.typeTok (mapOf frs) = some (t.val.getD [], t.gen) := by rw [typeTok_mapOf, hft]; rfl
  have hty : CR.tyOf (t.val.getD []) = .user := ofBytes_user _ hu
  have hht : (mapOf frs).has .type = true := by rw [has_mapOf_named _ _ _ ct_type, ← findRule_isSome, hft]; rfl
  have hc := CR.count_user (mapOf frs) hht
  rw [onlyHas_others frs G.known _ _ sl_user] at hc
  have hlist : (mapOf frs).has .typesList = false := by rw [has_mapOf_named _ _ _ ct_typesList, hor]
  have hB : CR.typeConstraint c (mapOf frs) =
      if others frs ["type", "optional", "nullable"] != 0 then .error 1102
      else if (kind == .obj || kind == .arr) then .error 1107
      else .ok (((mapOf frs).set .typesList (.types [true])).del .type) := by
    unfold CR.typeConstraint
    rw [htt]
    simp only [hty, if_true, hbranch]
    cases ho : (others frs ["type", "optional", "nullable"] != 0)
    · rw [ho] at hc
      have h1 : _ = 1 := of_decide_eq_true hc
      simp only [h1, ne_eq, not_true_eq_false, if_false, Bool.false_eq_true]
      cases (kind == .obj || kind == .arr)
      · simp [hg2, CR.addBase, hlist, bind_ok]
      · simp
    · rw [ho] at hc
      have h1 : ¬ _ = 1 := of_decide_eq_false hc
      simp [h1]
  unfold typeB bType
  rw [hB]
  simp only [hft, hu, if_true, outA_ite]
  cases ho : (others frs ["type", "optional", "nullable"] != 0)
  · simp only [Bool.false_eq_true, if_false]
    cases hk : (kind == .obj || kind == .arr)
    · simp only [hg1, Bool.false_eq_true, if_false, bind_ok]
      have hz : others frs ["type", "optional", "nullable"] = 0 := by simpa using ho
      have hoh : CR.onlyHas (mapOf frs) [.type, .optional, .nullable] = true := by
        rw [onlyHas_others frs G.known _ _ sl_user, ho]; rfl
      have hres : others frs ["or", "optional", "nullable", "type"] = 0 := by
        rw [others_zero_iff] at hz ⊢
        intro r hr
        have h1 := hz r hr
        simp only [List.map_cons, List.map_nil, List.contains_cons, List.contains_nil, Bool.or_false, Bool.or_eq_true,
          beq_iff_eq] at h1 ⊢
        rcases h1 with h | h | h
        · exact Or.inr (Or.inr (Or.inr h))
        · exact Or.inr (Or.inl h)
        · exact Or.inr (Or.inr (Or.inl h))
      refine tail_names G hprop hres ?_ ?_ ?_ _ _
      · rw [CR.has_del_other _ (by decide), CR.has_set_other _ _ (by decide), has_mapOf_named _ _ _ ct_optional]
      · intro k k1 k2 k3 k4
        by_cases kt : k = .type
        · subst kt; simp
        · rw [CR.has_del_other _ kt, CR.has_set_other _ _ k3]
          exact CR.onlyHas_absent hoh k (by cases k <;> simp_all)
      · rw [CR.has_del_other _ (by decide), CR.has_set_other _ _ (by decide), has_mapOf_unnamed _ _ rfl]
    · simp [outA, Agree, bind_err, throw, throwThe, MonadExceptOf.throw]
  · simp [outA, Agree, bind_err, throw, throwThe, MonadExceptOf.throw]

/-- the type names that are keys of `jsonTypesHandler` / `NewJsonType`, and unknown names -/
theorem type_named (G : Good frs) (hng : ∀ r ∈ frs, r.gen = false) (C : CtxOK kind jt nch isProp c) (hor : hasRule frs "or" = false) (hnf : NoFmt frs)
    (t : Rule) (hft : findRule frs "type" = some t) (hu : isUserTypeName (unq (t.val.getD [])) = false) :
    Agree (outA (bType kind frs jt isProp nch none false)) (typeB c (mapOf frs)) := by
  obtain ⟨tn, tm⟩ := findRule_name hft
  have htt : CR.typeTok (mapOf frs) = some (t.val.getD [], false) := by
    rw [typeTok_mapOf, hft, ← hng t tm]; rfl
  have hty : CR.tyOf (t.val.getD []) = CR.TyName.ofBytes (unq (t.val.getD [])) := rfl
  obtain ⟨nf1, nf2, nf3⟩ := hnf t tm tn
  have hE : (mapOf frs).has .enum = hasRule frs "enum" := has_mapOf_named _ _ _ ct_enum
  have hP : (mapOf frs).has .precision = hasRule frs "precision" := has_mapOf_named _ _ _ ct_precision
  have hAny : (mapOf frs).has .any = false := has_mapOf_unnamed _ _ rfl
  have hUu : (mapOf frs).has .uuid = false := has_mapOf_unnamed _ _ rfl
  have hDa : (mapOf frs).has .date = false := has_mapOf_unnamed _ _ rfl
  unfold typeB bType
  simp only [hft]
  unfold CR.typeConstraint
  rw [htt]
  simp only [hty]
  revert hu nf1 nf2 nf3
  generalize unq (t.val.getD []) = v
  intro hu nf1 nf2 nf3
  simp only [hu, Bool.false_eq_true, if_false]
  by_cases h1 : v = sb "mixed"
  · subst h1
    have : CR.TyName.ofBytes (sb "mixed") = .mixed := by decide +kernel
    simp [this, typesLen_zero hor, outA, Agree, bind_err, throw, throwThe, MonadExceptOf.throw]
  have h1' : (v == sb "mixed") = false := beq_eq_false_iff_ne.2 h1
  simp only [h1', Bool.false_eq_true, if_false]
  by_cases h2 : v = sb "enum"
  · subst h2
    have hto : CR.TyName.ofBytes (sb "enum") = .enum := by decide +kernel
    rw [rt_enum jt C.jtm]
    cases hh : hasRule frs "enum" <;> cases hq : CR.realTypeOK .enum (cjt jt) <;> first
      | (simp [hto, hE, hh, hq, C.jtc, C.notMixed, C.notMV, outA, Agree, bind_ok, bind_err, throw, throwThe, MonadExceptOf.throw]; done)
      | (simp [hto, hE, hh, hq, C.jtc, C.notMixed, C.notMV, bind_ok]; exact plain_del G C hor)
  have h2' : (v == sb "enum") = false := beq_eq_false_iff_ne.2 h2
  simp only [h2', Bool.false_eq_true, if_false]
  by_cases h3 : v = sb "any"
  · subst h3
    have : CR.TyName.ofBytes (sb "any") = .any := by decide +kernel
    simp only [this, beq_self_eq_true, if_true, reduceCtorEq, if_false, CR.addBase, hAny, Bool.false_eq_true, bind_ok,
      CR.realTypeOK, Bool.or_true]
    exact tail_any G C hor
  have h3' : (v == sb "any") = false := beq_eq_false_iff_ne.2 h3
  simp only [h3', Bool.false_eq_true, if_false]
  by_cases h4 : v = sb "decimal"
  · subst h4
    have hto : CR.TyName.ofBytes (sb "decimal") = .decimal := by decide +kernel
    rw [rt_dec jt]
    cases hh : hasRule frs "precision" <;> cases hq : CR.realTypeOK .decimal (cjt jt) <;> first
      | (simp [hto, hP, hh, hq, C.jtc, C.notMixed, C.notMV, outA, Agree, bind_ok, bind_err, throw, throwThe, MonadExceptOf.throw]; done)
      | (simp [hto, hP, hh, hq, C.jtc, C.notMixed, C.notMV, bind_ok]; exact plain_del G C hor)
  have h4' : (v == sb "decimal") = false := beq_eq_false_iff_ne.2 h4
  simp only [h4', Bool.false_eq_true, if_false]
  by_cases h5 : v = sb "uuid"
  · subst h5
    have hto : CR.TyName.ofBytes (sb "uuid") = .uuid := by decide +kernel
    have hf : fmtOfType (sb "uuid") = some .uuid := by decide +kernel
    rw [hf, rt_uuid jt]
    cases hq : CR.realTypeOK .uuid (cjt jt) <;> first
      | (simp [hto, CR.addBase, hUu, hq, C.jtc, C.notMixed, C.notMV, outA, Agree, bind_ok, bind_err, throw, throwThe, MonadExceptOf.throw]; done)
      | (simp [hto, CR.addBase, hUu, hq, C.jtc, C.notMixed, C.notMV, bind_ok]; exact tail_plain rel5_uuid G hor C (Or.inr (Or.inl rfl)))
  by_cases h6 : v = sb "date"
  · subst h6
    have hto : CR.TyName.ofBytes (sb "date") = .date := by decide +kernel
    have hf : fmtOfType (sb "date") = some .date := by decide +kernel
    rw [hf, rt_date jt]
    cases hq : CR.realTypeOK .date (cjt jt) <;> first
      | (simp [hto, CR.addBase, hDa, hq, C.jtc, C.notMixed, C.notMV, outA, Agree, bind_ok, bind_err, throw, throwThe, MonadExceptOf.throw]; done)
      | (simp [hto, CR.addBase, hDa, hq, C.jtc, C.notMixed, C.notMV, bind_ok]; exact tail_plain rel5_date G hor C (Or.inr (Or.inr rfl)))
  have hfn : fmtOfType v = none := by
    unfold fmtOfType
    simp [beq_eq_false_iff_ne.2 nf1, beq_eq_false_iff_ne.2 nf2, beq_eq_false_iff_ne.2 nf3, beq_eq_false_iff_ne.2 h5,
      beq_eq_false_iff_ne.2 h6]
  simp only [hfn, Option.isSome_none, Bool.false_eq_true, if_false]
  by_cases hj : ∃ p ∈ jsonNames, v = sb p.1
  · obtain ⟨⟨s, tt⟩, hp, rfl⟩ := hj
    simp only [json_cond s tt hp, if_true, ofBytes_json s tt hp, reduceCtorEq, if_false, jname_eq jt s tt hp, C.jtc,
      C.notMixed, C.notMV, CR.realTypeOK_json]
    by_cases ht : tt = cjt jt
    · have ht' : cjt jt = tt := ht.symm
      simp only [ht, decide_true, Bool.not_true, Bool.false_eq_true, if_false, ne_eq, not_true_eq_false, bind_ok,
        Bool.or_true, if_true, decide_false, Bool.false_or]
      exact plain_del G C hor
    · have ht' : ¬ cjt jt = tt := fun e => ht e.symm
      simp [ht, ht', outA, Agree, bind_err, throw, throwThe, MonadExceptOf.throw]
  · have hno : ∀ s tt, (s, tt) ∈ jsonNames → (v == sb s) = false := fun s tt hp =>
      beq_eq_false_iff_ne.2 (fun e => hj ⟨(s, tt), hp, e⟩)
    have hunk : CR.TyName.ofBytes v = .unknown := by
      apply ofBytes_unknown v hu
      have j1 := hno "object" .object (by simp [jsonNames])
      have j2 := hno "array" .array (by simp [jsonNames])
      have j3 := hno "string" .string (by simp [jsonNames])
      have j4 := hno "integer" .integer (by simp [jsonNames])
      have j5 := hno "float" .float (by simp [jsonNames])
      have j6 := hno "boolean" .boolean (by simp [jsonNames])
      have j7 := hno "null" .null (by simp [jsonNames])
      have f1 := beq_eq_false_iff_ne.2 nf1
      have f2 := beq_eq_false_iff_ne.2 nf2
      have f3 := beq_eq_false_iff_ne.2 nf3
      have f5 := beq_eq_false_iff_ne.2 h5
      have f6 := beq_eq_false_iff_ne.2 h6
      rw [sb_object] at j1; rw [sb_array] at j2; rw [sb_string] at j3; rw [sb_integer] at j4; rw [sb_float] at j5
      rw [sb_boolean] at j6; rw [sb_null] at j7; rw [sb_email] at f1; rw [sb_uri] at f2; rw [sb_datetime] at f3
      rw [sb_uuid] at f5; rw [sb_date] at f6
      rw [sb_mixed] at h1'; rw [sb_tenum] at h2'; rw [sb_any] at h3'; rw [sb_decimal] at h4'
      simp only [beq_eq_false_iff_ne, ne_eq] at j1 j2 j3 j4 j5 j6 j7 f1 f2 f3 f5 f6 h1' h2' h3' h4'
      simp [CR.tyTable, List.contains_cons, j1, j2, j3, j4, j5, j6, j7, f1, f2, f3, f5, f6, h1', h2', h3', h4']
    simp [hno "object" .object (by simp [jsonNames]), hno "array" .array (by simp [jsonNames]),
      hno "string" .string (by simp [jsonNames]), hno "integer" .integer (by simp [jsonNames]),
      hno "float" .float (by simp [jsonNames]), hno "boolean" .boolean (by simp [jsonNames]),
      hno "null" .null (by simp [jsonNames]), hunk, outA, Agree, bind_err, throw, throwThe, MonadExceptOf.throw]

theorem type_agree (G : Good frs) (hng : ∀ r ∈ frs, r.gen = false) (C : CtxOK kind jt nch isProp c) (hor : hasRule frs "or" = false) (hnf : NoFmt frs) :
    Agree (outA (bType kind frs jt isProp nch none false)) (typeB c (mapOf frs)) := by
  cases hft : findRule frs "type" with
  | none =>
    have htt : CR.typeTok (mapOf frs) = none := by rw [typeTok_mapOf, hft]; rfl
    have : CR.typeConstraint c (mapOf frs) = .ok (mapOf frs) := by unfold CR.typeConstraint; rw [htt]
    unfold typeB bType
    rw [this, bind_ok]
    simp only [hft]
    exact tail_plain (rel5_base hft) G hor C (Or.inl rfl)
  | some t =>
    cases hu : isUserTypeName (unq (t.val.getD []))
    · exact type_named G hng C hor hnf t hft hu
    · obtain ⟨_, tm⟩ := findRule_name hft
      have hg := hng t tm
      exact type_user G C.prop C.branch hor t hft hu (by simp [hg, C.kindm]) (by simp [C.notMV])

end

end BridgeCR
