import JSight.LinksFuel2
/-!
C09 (a) with OWNERSHIP, the order of `Schema.compile()` BEFORE commit 8f3890e (regression model
`LK.pinnedLinkCheckO`): types added to other type objects (`A.AddType("@b", B)`) reached the root table by hoisting
(`AddUnnamedTypes`) only after `CompileAllOf` had run on the root's own table. For the current tree see `LinksHoist`.

* all types added to the root itself: `linkCheckO` is `linkCheck` (`pinnedLinkCheckO_flat`) and the theorems of `LinksMain` apply;
* in general: a reported missing type is referenced, and is either in no table at all or is an `allOf` parent that
  was not added to the root itself (`pinnedLinkCheckO_sound`); the check is complete as long as no type outside the root's
  own table uses `allOf` (`pinnedLinkCheckO_complete`);
* without that proviso completeness FAILS (`witnessNestedAllOf`: a missing `allOf` parent inside a nested type goes
  unnoticed), and a parent that WAS added — to another type — is reported as not found (`witnessNestedParent`).
  Both witnesses are replayed on the real library by `c09-links` (corpus).
-/
namespace LK

theorem lookup_directPart (g : G) (direct : List String) (t : String) :
    lookup (directPart g direct) t = if direct.contains t then lookup g t else none := by
  unfold lookup directPart
  simp only
  induction g.types with
  | nil => simp
  | cons p ps ih =>
    by_cases hp : (p.1 == t) = true
    · have e : p.1 = t := by simpa using hp
      by_cases hd : direct.contains p.1 = true
      · rw [List.filter_cons_of_pos (by simpa using hd)]
        rw [List.find?_cons_of_pos (by simpa using hp), List.find?_cons_of_pos (by simpa using hp)]
        rw [← e, if_pos hd]
      · rw [List.filter_cons_of_neg (by simpa using hd)]
        rw [ih, List.find?_cons_of_pos (by simpa using hp)]
        rw [← e, if_neg hd, if_neg hd]
    · by_cases hd : direct.contains p.1 = true
      · rw [List.filter_cons_of_pos (by simpa using hd)]
        rw [List.find?_cons_of_neg (by simpa using hp), List.find?_cons_of_neg (by simpa using hp)]
        exact ih
      · rw [List.filter_cons_of_neg (by simpa using hd)]
        rw [List.find?_cons_of_neg (by simpa using hp)]
        exact ih

theorem lookup_directPart_some (g : G) (direct : List String) (t : String) (body : N)
    (h : lookup (directPart g direct) t = some body) : lookup g t = some body ∧ direct.contains t = true := by
  rw [lookup_directPart] at h
  by_cases hd : direct.contains t = true
  · rw [if_pos hd] at h; exact ⟨h, hd⟩
  · rw [if_neg hd] at h; cases h

theorem refs_directPart (g : G) (direct : List String) (n : String) (h : Refs (directPart g direct) n) : Refs g n := by
  rcases h with h | ⟨t, body, hl, hr⟩
  · exact Or.inl h
  · exact Or.inr ⟨t, body, (lookup_directPart_some g direct t body hl).1, hr⟩

theorem inTable_directPart (g : G) (direct : List String) (n : String) (h : InTable (directPart g direct) n) :
    InTable g n := by
  obtain ⟨b, hb⟩ := h
  exact ⟨b, (lookup_directPart_some g direct n b hb).1⟩

theorem directPart_all (g : G) (direct : List String) (h : ∀ p ∈ g.types, direct.contains p.1 = true) :
    directPart g direct = g := by
  unfold directPart
  have : g.types.filter (fun p => direct.contains p.1) = g.types := List.filter_eq_self.2 h
  rw [this]

/-- every type added to the root itself: nothing new -/
theorem pinnedLinkCheckO_flat (g : G) (direct : List String) (h : ∀ p ∈ g.types, direct.contains p.1 = true)
    (ord : List (List String)) : pinnedLinkCheckO g direct ord = linkCheck g ord := by
  unfold pinnedLinkCheckO pinnedLinkCheckOF linkCheck linkCheckF
  rw [directPart_all g direct h]

/-- **soundness with ownership** -/
theorem pinnedLinkCheckO_sound (g : G) (direct : List String) (ord : List (List String)) (hord : OrdOK g ord) (m : String)
    (h : pinnedLinkCheckO g direct ord = .error (.missing m)) :
    Refs g m ∧ (¬ InTable g m ∨ direct.contains m = false) := by
  unfold pinnedLinkCheckO pinnedLinkCheckOF at h
  have hc := compileAllOf_sound (directPart g direct) (fuelOf g)
  cases h1 : compileAllOf (directPart g direct) (fuelOf g) with
  | error e =>
    simp only [h1, Except.error.injEq] at h
    subst h
    obtain ⟨hr, hnt⟩ := hc.2 m h1
    refine ⟨refs_directPart g direct m hr, ?_⟩
    by_cases hd : direct.contains m = true
    · left
      rintro ⟨b, hb⟩
      exact hnt ⟨b, by rw [lookup_directPart, if_pos hd]; exact hb⟩
    · right; simpa using hd
  | ok res =>
    obtain ⟨rootC, st⟩ := res
    obtain ⟨hst, hrc⟩ := hc.1 rootC st h1
    have hst' : SInv g st := fun name c hl ci hci n hn => refs_directPart g direct n (hst name c hl ci hci n hn)
    have hrc' : CNamesOK g rootC := fun ci hci n hn => refs_directPart g direct n (hrc ci hci n hn)
    simp only [h1] at h
    unfold checkRootSchema at h
    have key : Bad g m := by
      cases h2 : checkList g (fuelOf g) rootC with
      | error e =>
        simp only [h2, Except.error.injEq] at h
        subst h
        exact checkList_sound g _ rootC m hrc' h2
      | ok u =>
        simp only [h2] at h
        cases h3 : checkOrNodes g ord with
        | error e =>
          simp only [h3, Except.error.injEq] at h
          subst h
          exact checkOrNodes_sound g ord m (fun l hl => orNodes_ok g l (hord l hl)) h3
        | ok u2 =>
          simp only [h3] at h
          exact checkTypes_sound g _ st hst' (sortedNames g) m h
    exact ⟨key.1, Or.inl key.2⟩

/-- no type outside the root's own table uses `allOf` -/
def NestedPlain (g : G) (direct : List String) : Prop :=
  ∀ t body, lookup g t = some body → direct.contains t = false → ∀ it ∈ flat body, it.allOfNames = []

theorem naive_covers (items : List Item) : ∀ it ∈ items, ∀ n ∈ it.checkNames, ∃ ci ∈ naive items, n ∈ ci.names := by
  induction items with
  | nil => intro it h; simp at h
  | cons x rest ih =>
    intro it hit n hn
    rcases List.mem_cons.1 hit with rfl | hit
    · cases it with
      | lit jt ms => exact ⟨.lit jt ms, by simp [naive], hn⟩
      | ref ns => exact ⟨.ref ns, by simp [naive], hn⟩
      | arr => simp [Item.checkNames] at hn
      | obj keys addp ao => exact ⟨.obj keys addp, by simp [naive], hn⟩
      | inh ps => simp [Item.checkNames] at hn
    · obtain ⟨ci, hci, hm⟩ := ih it hit n hn
      refine ⟨ci, ?_, hm⟩
      cases x <;> simp [naive, hci]

/-- **completeness with ownership**, as long as the nested types do not use `allOf` -/
theorem pinnedLinkCheckO_complete (g : G) (direct : List String) (hplain : NestedPlain g direct) (ord : List (List String))
    (h : pinnedLinkCheckO g direct ord = .ok ()) : Resolved g := by
  unfold pinnedLinkCheckO pinnedLinkCheckOF at h
  cases h1 : compileAllOf (directPart g direct) (fuelOf g) with
  | error e => simp [h1] at h
  | ok res =>
    obtain ⟨rootC, st⟩ := res
    simp only [h1] at h
    obtain ⟨hst, hcov, hall⟩ := compileAllOf_complete (directPart g direct) (fuelOf g) rootC st h1
    unfold checkRootSchema at h
    cases h2 : checkList g (fuelOf g) rootC with
    | error e => simp [h2] at h
    | ok u2 =>
      simp only [h2] at h
      cases h3 : checkOrNodes g ord with
      | error e => simp [h3] at h
      | ok u3 =>
        simp only [h3] at h
        intro n hr
        rcases hr with hr | ⟨t, body, hl, hr⟩
        · obtain ⟨it, hit, hm⟩ := (refs_iff_flat g.root n).1 hr
          have hit' : it ∈ flat (directPart g direct).root := hit
          rcases hm with hm | hm
          · exact inTable_directPart g direct n (hcov.1 it hit' n hm)
          · obtain ⟨ci, hci, hn⟩ := hcov.2 it hit' n hm
            exact checkList_ok g _ rootC u2 h2 ci hci n hn
        · obtain ⟨it, hit, hm⟩ := (refs_iff_flat body n).1 hr
          have hin : InTable g t := ⟨body, hl⟩
          obtain ⟨u', hu'⟩ := checkTypes_ok g _ st (sortedNames g) () h t ((mem_sortedNames g t).2 hin)
          by_cases hd : direct.contains t = true
          · have hlD : lookup (directPart g direct) t = some body := by rw [lookup_directPart, if_pos hd]; exact hl
            have hs := hall t ⟨body, hlD⟩
            cases hc : st.compiled.lookup t with
            | none => simp [hc] at hs
            | some c =>
              obtain ⟨body', hl', hcv⟩ := hst t c hc
              rw [hlD] at hl'
              cases hl'
              rcases hm with hm | hm
              · exact inTable_directPart g direct n (hcv.1 it hit n hm)
              · obtain ⟨ci, hci, hn⟩ := hcv.2 it hit n hm
                simp only [compiledOf, hc] at hu'
                exact checkList_ok g _ c u' hu' ci hci n hn
          · have hd' : direct.contains t = false := by simpa using hd
            cases hc : st.compiled.lookup t with
            | some c =>
              obtain ⟨body', hl', _⟩ := hst t c hc
              have := (lookup_directPart_some g direct t body' hl').2
              rw [hd'] at this; cases this
            | none =>
              rcases hm with hm | hm
              · rw [hplain t body hl hd' it hit] at hm; simp at hm
              · obtain ⟨ci, hci, hn⟩ := naive_covers (flat body) it hit n hm
                simp only [compiledOf, hc, hl] at hu'
                exact checkList_ok g _ _ u' hu' ci hci n hn

/-! ### the two failures (replayed on the real library: `c09-links` corpus) -/

/-- `root = {"a": @a}`, `root.AddType("@a", {"b": @b})`, `A.AddType("@b", { // {allOf: "@m"} "x": 1 })`; `@m` was
never added anywhere -/
def witnessNestedAllOf : G :=
  { root := .obj [] none [("a", false, .ref ["@a"])],
    types := [("@a", .obj [] none [("b", false, .ref ["@b"])]),
              ("@b", .obj ["@m"] none [("x", false, .lit .int .none none)])] }

/-- Check passes although the referenced type `@m` was not added: the `allOf` rule of a type that is not in the
root's own table is never compiled and its parents are never looked up -/
theorem nested_allOf_unnoticed :
    pinnedLinkCheckO witnessNestedAllOf ["@a"] (orNodes witnessNestedAllOf) = .ok () ∧ ¬ Resolved witnessNestedAllOf := by
  refine ⟨by decide, ?_⟩
  intro hres
  have hl : lookup witnessNestedAllOf "@b" = some (.obj ["@m"] none [("x", false, .lit .int .none none)]) := by
    simp [lookup, witnessNestedAllOf, List.find?]
  obtain ⟨b, hb⟩ := hres "@m" (Or.inr ⟨"@b", _, hl, .allOf _ _ _ "@m" (by simp)⟩)
  have hnone : lookup witnessNestedAllOf "@m" = none := by decide
  rw [hnone] at hb
  cases hb

/-- `root = { // {allOf: "@b"} "a": @a }`, `root.AddType("@a", {"k": 1})`, `A.AddType("@b", {"x": 1})` -/
def witnessNestedParent : G :=
  { root := .obj ["@b"] none [("a", false, .ref ["@a"])],
    types := [("@a", .obj [] none [("k", false, .lit .int .none none)]),
              ("@b", .obj [] none [("x", false, .lit .int .none none)])] }

/-- the `allOf` parent `@b` WAS added (to the type `@a`; every other reference to it would be resolved after
hoisting), yet Check reports it as not found -/
theorem nested_parent_not_found :
    pinnedLinkCheckO witnessNestedParent ["@a"] (orNodes witnessNestedParent) = .error (.missing "@b") ∧
    InTable witnessNestedParent "@b" :=
  ⟨by decide, ⟨.obj [] none [("x", false, .lit .int .none none)], by simp [lookup, witnessNestedParent, List.find?]⟩⟩

end LK
