import JSight.BridgeCR2Restr
/-!
Bridge (A)∩(B), second part: the FRONT of `compileNode` — `typeConstraint` against `bType` (`type_agree`),
`enumConstraint` / `precisionConstraint` against `bEnumPrec` (`enum_agree`), on a node without `or` rule.
-/
namespace BridgeCR
open Compile
open Loader (NK)

def typeB (c : CR.Ctx) (m : CR.CMap) : Except CR.Code Unit := CR.typeConstraint c m >>= fun m => tailB c m
def precB (c : CR.Ctx) (m : CR.CMap) : Except CR.Code Unit := CR.precisionConstraint m >>= fun m => typeB c m
def enumB (c : CR.Ctx) (m : CR.CMap) : Except CR.Code Unit := CR.enumConstraint m >>= fun m => precB c m

/-! ### type names -/

theorem ofBytes_user (b : Bytes) (h : isUserTypeName b = true) : CR.TyName.ofBytes b = .user := by
  unfold CR.TyName.ofBytes
  rw [← isUserTypeName_eq, h]
  rfl

theorem ofBytes_table (b : Bytes) (h : isUserTypeName b = false) :
    CR.TyName.ofBytes b = (CR.tyTable.lookup b).getD .unknown := by
  unfold CR.TyName.ofBytes
  rw [← isUserTypeName_eq, h]
  rfl

theorem ofBytes_unknown (b : Bytes) (hu : isUserTypeName b = false) (hk : (CR.tyTable.map (·.1)).contains b = false) :
    CR.TyName.ofBytes b = .unknown := by
  have := ty_known b
  rw [← isUserTypeName_eq, hu, hk] at this
  simpa using this

theorem ofBytes_decimal_iff (b : Bytes) : CR.TyName.ofBytes b = .decimal ↔ b = sb "decimal" := by
  constructor
  · intro h
    cases hu : isUserTypeName b
    · rw [ofBytes_table b hu] at h
      cases hl : CR.tyTable.lookup b with
      | none => rw [hl] at h; simp at h
      | some ty =>
        rw [hl] at h
        simp only [Option.getD_some] at h
        subst h
        have := lookup_some_mem CR.tyTable b _ hl
        rw [sb_decimal]
        revert this
        simp [CR.tyTable]
    · rw [ofBytes_user b hu] at h; simp at h
  · intro h; subst h; decide +kernel

def jsonNames : List (String × CR.JT) :=
  [("object", .object), ("array", .array), ("string", .string), ("integer", .integer), ("float", .float),
   ("boolean", .boolean), ("null", .null)]

theorem jname_eq (jt : JT) (s : String) (t : CR.JT) (h : (s, t) ∈ jsonNames) :
    (sb s != jt.name) = !decide (t = cjt jt) := by
  simp only [jsonNames, List.mem_cons, Prod.mk.injEq, List.mem_nil_iff, or_false] at h
  rcases h with ⟨rfl, rfl⟩ | ⟨rfl, rfl⟩ | ⟨rfl, rfl⟩ | ⟨rfl, rfl⟩ | ⟨rfl, rfl⟩ | ⟨rfl, rfl⟩ | ⟨rfl, rfl⟩ <;>
    cases jt <;> decide +kernel

theorem ofBytes_json (s : String) (t : CR.JT) (h : (s, t) ∈ jsonNames) : CR.TyName.ofBytes (sb s) = .json t := by
  simp only [jsonNames, List.mem_cons, Prod.mk.injEq, List.mem_nil_iff, or_false] at h
  rcases h with ⟨rfl, rfl⟩ | ⟨rfl, rfl⟩ | ⟨rfl, rfl⟩ | ⟨rfl, rfl⟩ | ⟨rfl, rfl⟩ | ⟨rfl, rfl⟩ | ⟨rfl, rfl⟩ <;> decide +kernel

/-! ### lists of rule names -/

theorem others_zero_iff (frs : List Rule) (L : List String) :
    others frs L = 0 ↔ ∀ r ∈ frs, (L.map sb).contains r.name = true := by
  have h1 := others_ne frs L
  constructor
  · intro h r hr
    rw [h] at h1
    have h2 : (frs.any fun r => !(L.map sb).contains r.name) = false := by rw [← h1]; rfl
    have := List.any_eq_false.1 h2 r hr
    simpa using this
  · intro h
    have h2 : (frs.any fun r => !(L.map sb).contains r.name) = false := by
      rw [List.any_eq_false]
      intro r hr
      rw [h r hr]; simp
    rw [h2] at h1
    simpa using h1

theorem sl_user : sameList [.type, .optional, .nullable] ["type", "optional", "nullable"] := by
  intro k; cases k <;> simp only [ctName] <;> decide +kernel
theorem sl_any : sameList [.type, .any, .optional, .nullable, .const] ["type", "optional", "nullable", "const"] := by
  intro k; cases k <;> simp only [ctName] <;> decide +kernel
theorem sl_enum : sameList [.enum, .optional, .const, .nullable, .type] ["enum", "optional", "const", "nullable", "type"] := by
  intro k; cases k <;> simp only [ctName] <;> decide +kernel
theorem sl_or : sameList [.or, .typesList, .optional, .nullable, .type] ["or", "optional", "nullable", "type"] := by
  intro k; cases k <;> simp only [ctName] <;> decide +kernel

theorem not_in5 (k : CR.CT) (h1 : k ≠ .optional) (h2 : k ≠ .nullable) (h3 : k ≠ .typesList) (h4 : k ≠ .type) (h5 : k ≠ .or) :
    [CR.CT.or, .typesList, .optional, .nullable, .type].contains k = false := by
  cases k <;> simp_all

/-! ### the `type` rule in (B)'s map -/

section
variable {frs : List Rule} {kind : NK} {jt : JT} {nch : Nat} {isProp : Bool} {c : CR.Ctx}

theorem typeTok_mapOf (frs : List Rule) :
    CR.typeTok (mapOf frs) = (findRule frs "type").map fun r => (r.val.getD [], r.gen) := by
  unfold CR.typeTok
  rw [mapOf_named frs .type "type" ct_type]
  cases findRule frs "type" <;> simp [cvAt, cvLit]

theorem rel5_base (ht : findRule frs "type" = none) : Rel5 frs none (mapOf frs) where
  plain := fun _ _ _ _ => rfl
  type := by rw [mapOf_named frs .type "type" ct_type, ht]; rfl
  uuid := by rw [mapOf_unnamed frs .uuid rfl]; rfl
  date := by rw [mapOf_unnamed frs .date rfl]; rfl

theorem rel5_del : Rel5 frs none ((mapOf frs).del .type) where
  plain := fun k h _ _ => CR.del_other _ h
  type := CR.del_same _ _
  uuid := by rw [CR.del_other _ (by decide), mapOf_unnamed frs .uuid rfl]; rfl
  date := by rw [CR.del_other _ (by decide), mapOf_unnamed frs .date rfl]; rfl

theorem rel5_uuid : Rel5 frs (some .uuid) (((mapOf frs).set .uuid .unit).del .type) where
  plain := fun k h h2 _ => by rw [CR.del_other _ h, CR.set_other _ _ h2]
  type := CR.del_same _ _
  uuid := by rw [CR.del_other _ (by decide), CR.set_same]; rfl
  date := by rw [CR.del_other _ (by decide), CR.set_other _ _ (by decide), mapOf_unnamed frs .date rfl]; rfl

theorem rel5_date : Rel5 frs (some .date) (((mapOf frs).set .date .unit).del .type) where
  plain := fun k h _ h3 => by rw [CR.del_other _ h, CR.set_other _ _ h3]
  type := CR.del_same _ _
  uuid := by rw [CR.del_other _ (by decide), CR.set_other _ _ (by decide), mapOf_unnamed frs .uuid rfl]; rfl
  date := by rw [CR.del_other _ (by decide), CR.set_same]; rfl

/-- `type: "any"` -/
theorem tail_any (G : Good frs) (C : CtxOK kind jt nch isProp c) (hor : hasRule frs "or" = false) :
    Agree (outA (bAllowed frs jt isProp nch true none none false))
      (tailB c (((mapOf frs).set .any .unit).del .type)) := by
  have hbase : ∀ k, k ≠ .type → k ≠ .any → (((mapOf frs).set .any .unit).del .type).has k = (mapOf frs).has k :=
    fun k h1 h2 => by rw [CR.has_del_other _ h1, CR.has_set_other _ _ h2]
  have hany : (((mapOf frs).set .any .unit).del .type).has .any = true := by
    rw [CR.has_del_other _ (by decide)]; simp
  have hty : (((mapOf frs).set .any .unit).del .type).has .type = false := by simp
  have e1 : CR.allowedConstraintCheck (((mapOf frs).set .any .unit).del .type) =
      if hasRule frs "const" then .error 1117 else .ok (((mapOf frs).set .any .unit).del .type) := by
    unfold CR.allowedConstraintCheck CR.hasFormat
    rw [hbase .email (by decide) (by decide), hbase .uri (by decide) (by decide), hbase .uuid (by decide) (by decide),
      hbase .date (by decide) (by decide), hbase .datetime (by decide) (by decide), hbase .const (by decide) (by decide), hany,
      has_mapOf_unnamed _ _ rfl, has_mapOf_unnamed _ _ rfl, has_mapOf_unnamed _ _ rfl, has_mapOf_unnamed _ _ rfl,
      has_mapOf_unnamed _ _ rfl, has_mapOf_named _ _ _ ct_const]
    simp
  have honly : CR.onlyHas (((mapOf frs).set .any .unit).del .type) [.any, .optional, .nullable, .const]
      = CR.onlyHas (mapOf frs) [.type, .any, .optional, .nullable, .const] := by
    unfold CR.onlyHas
    rw [Bool.eq_iff_iff, CR.all_iff, CR.all_iff]
    constructor
    · intro h k
      by_cases k1 : k = .type
      · subst k1; simp
      · by_cases k2 : k = .any
        · subst k2; simp
        · have := h k
          rw [hbase k k1 k2] at this
          cases hh : (mapOf frs).has k
          · rfl
          · rw [hh] at this
            simp only [Bool.not_true, Bool.false_or] at this ⊢
            simp only [List.contains_cons, Bool.or_eq_true] at this ⊢
            exact Or.inr this
    · intro h k
      by_cases k1 : k = .type
      · subst k1; simp
      · by_cases k2 : k = .any
        · subst k2; simp
        · have := h k
          rw [hbase k k1 k2]
          cases hh : (mapOf frs).has k
          · rfl
          · rw [hh] at this
            simp only [Bool.not_true, Bool.false_or] at this ⊢
            simp only [List.contains_cons, Bool.or_eq_true] at this ⊢
            rcases this with h0 | h0
            · exact absurd (by simpa using h0) k1
            · exact h0
  have e2 : CR.anyConstraint c (((mapOf frs).set .any .unit).del .type) =
      if others frs ["type", "optional", "nullable", "const"] != 0 then .error 1105
      else if (kind == .obj || kind == .arr) && nch != 0 then .error 1106
      else .ok (((mapOf frs).set .any .unit).del .type) := by
    unfold CR.anyConstraint
    have hc := CR.count_any _ hany
    rw [honly, onlyHas_others frs G.known _ _ sl_any] at hc
    rw [hany, C.branch, C.ch]
    simp only [Bool.not_true, Bool.false_eq_true, if_false]
    cases ho : (others frs ["type", "optional", "nullable", "const"] != 0)
    · rw [ho] at hc
      have : _ = 0 := of_decide_eq_true hc
      simp only [this, ne_eq, not_true_eq_false, if_false, Bool.false_eq_true]
      cases (kind == .obj || kind == .arr) <;> by_cases hn : nch = 0 <;> simp [hn]
    · rw [ho] at hc
      have : ¬ _ = 0 := of_decide_eq_false hc
      simp [this]
  rw [tailB_eq, e1]
  unfold bAllowed
  simp only [Option.isSome_none, Bool.false_and, Bool.true_and, Bool.false_eq_true, if_false, outA_ite]
  cases hcst : hasRule frs "const"
  · simp only [Bool.false_eq_true, if_false, bind_ok, e2]
    cases ho : (others frs ["type", "optional", "nullable", "const"] != 0)
    · simp only [Bool.false_eq_true, if_false]
      have hz : others frs ["type", "optional", "nullable", "const"] = 0 := by simpa using ho
      have hres : others frs ["or", "optional", "nullable", "type"] = 0 := by
        rw [others_zero_iff] at hz ⊢
        intro r hr
        have h1 := hz r hr
        have h2 : r.name ≠ sb "const" := by
          intro e
          have : hasRule frs "const" = true := by
            unfold hasRule; rw [List.any_eq_true]; exact ⟨r, hr, by simp [e]⟩
          rw [hcst] at this; simp at this
        simp only [List.map_cons, List.map_nil, List.contains_cons, List.contains_nil, Bool.or_false, Bool.or_eq_true,
          beq_iff_eq] at h1 ⊢
        rcases h1 with h | h | h | h
        · exact Or.inr (Or.inr (Or.inr h))
        · exact Or.inr (Or.inl h)
        · exact Or.inr (Or.inr (Or.inl h))
        · exact absurd h h2
      have hcore := core_restricted (m := ((mapOf frs).set .any .unit).del .type) (jt := jt) G C.prop hres
        (by rw [hbase _ (by decide) (by decide), has_mapOf_named _ _ _ ct_optional])
        (fun k k1 k2 k3 k4 => by
          by_cases kt : k = .type
          · subst kt; exact hty
          · rw [hbase k kt k4]
            by_cases ko : k = .or
            · subst ko; rw [has_mapOf_named _ _ _ ct_or, hor]
            · have hoh : CR.onlyHas (mapOf frs) [.or, .typesList, .optional, .nullable, .type] = true := by
                rw [onlyHas_others frs G.known _ _ sl_or, hres]; rfl
              exact CR.onlyHas_absent hoh k (not_in5 k k1 k2 k3 kt ko))
        true none false rfl
      have a1 := absent_of_others frs _ hres "exclusiveMinimum" (by decide +kernel)
      have a2 := absent_of_others frs _ hres "exclusiveMaximum" (by decide +kernel)
      cases hb : ((kind == .obj || kind == .arr) && nch != 0)
      · have hn0 : (nch != 0) = false := by
          cases hk : (kind == .obj || kind == .arr)
          · rw [C.leaf hk]; rfl
          · rw [hk] at hb; simpa using hb
        simp only [hn0, a1, a2, Bool.false_and, Bool.false_eq_true, if_false, bind_ok]
        exact hcore
      · have hn1 : (nch != 0) = true := by
          cases hk : (kind == .obj || kind == .arr)
          · rw [hk] at hb; simp at hb
          · rw [hk] at hb; simpa using hb
        simp [hn1, outA, Agree, bind_err, throw, throwThe, MonadExceptOf.throw]
    · simp [outA, Agree, bind_err, throw, throwThe, MonadExceptOf.throw]
  · simp [outA, Agree, bind_err, throw, throwThe, MonadExceptOf.throw]

end

end BridgeCR
