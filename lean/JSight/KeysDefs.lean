import JSight.ATreeDefs
import JSight.KeysLoad
/-!
C15, raw keys: the table an annotated tree denotes with its key TOKENS (as written, quotes included) in the `keys` slot
(`ATree.tableK`) — `ATree.table` with `AMembers.rkeys` for `AMembers.keys`.
-/
namespace AT
open Loader (XNode xfresh)

/-- key tokens as written, in source order -/
def AMembers.rkeys : AMembers → List (Bytes × Bool)
  | .nil _ => []
  | .cons _ k _ _ _ _ _ rest => (k, false) :: rest.rkeys

theorem AMembers.rkeys_dec : (ms : AMembers) → ms.rkeys.map Loader.K.dec = ms.keys
  | .nil _ => rfl
  | .cons _ k _ _ _ _ _ rest => by
    simp only [AMembers.rkeys, AMembers.keys, List.map_cons, AMembers.rkeys_dec rest]
    rfl

mutual
def ATree.nodesK (par : Option Nat) : Nat → ATree → List XNode
  | _, .scalar tok an => [annX (an.map (·.a)) { xfresh .lit par with value := some tok }]
  | n, .arr an items =>
    { annX (an.map (·.2)) (xfresh .arr par) with children := items.idx (n + 1) } :: items.nodesK n (n + 1)
  | n, .obj an ms =>
    { annX (an.map (·.2)) (xfresh .obj par) with children := ms.idx (n + 1), keys := ms.rkeys } :: ms.nodesK n (n + 1)
def AItems.nodesK (a : Nat) : Nat → AItems → List XNode
  | _, .nil _ => []
  | n, .cons _ v _ _ rest => v.nodesK (some a) n ++ rest.nodesK a (n + v.count)
def AMembers.nodesK (a : Nat) : Nat → AMembers → List XNode
  | _, .nil _ => []
  | n, .cons _ _ _ _ v _ _ rest => v.nodesK (some a) n ++ rest.nodesK a (n + v.count)
end

/-- the table an annotated tree denotes, keys as written -/
def ATree.tableK (t : ATree) : List XNode := t.nodesK none 0

end AT
